//go:build c20 || all

package main

import (
	"bytes"
	"fmt"
	"math/big"
	"reflect"
	"sort"
	"strings"

	"github.com/icon-project/goloop/common"
	"github.com/icon-project/goloop/common/crypto"
	"github.com/icon-project/goloop/common/db"
	"github.com/icon-project/goloop/common/merkle"
	"github.com/icon-project/goloop/common/trie"
	"github.com/icon-project/goloop/common/trie/ompt"
	"github.com/icon-project/goloop/module"
	"github.com/icon-project/goloop/service/scoreapi"
	"github.com/icon-project/goloop/service/state"
)

// ---- object values: a trie value is either inline data (0x02 ++ bytes) or a reference
// (0x01 ++ sha3(blob)) to a blob kept in the BytesByHash bucket, which Resolve requests ----

type c20Obj struct {
	data []byte
	blob []byte
	bk   db.Bucket
}

var c20ObjType = reflect.TypeOf((*c20Obj)(nil))

func c20ValRef(v []byte) []byte {
	if len(v) == 33 && v[0] == 0x01 {
		return v[1:]
	}
	return nil
}

func (o *c20Obj) Bytes() []byte { return o.data }
func (o *c20Obj) Reset(s db.Database, k []byte) error {
	bk, err := s.GetBucket(db.BytesByHash)
	if err != nil {
		return err
	}
	o.bk = bk
	o.data = append([]byte{}, k...)
	return nil
}
func (o *c20Obj) Flush() error {
	if o.blob != nil && o.bk != nil {
		return o.bk.Set(crypto.SHA3Sum256(o.blob), o.blob)
	}
	return nil
}
func (o *c20Obj) Equal(n trie.Object) bool {
	o2, ok := n.(*c20Obj)
	return ok && o2 != nil && bytes.Equal(o.data, o2.data)
}
func (o *c20Obj) Resolve(b merkle.Builder) error {
	if h := c20ValRef(o.data); h != nil {
		if v, _ := o.bk.Get(h); v == nil {
			b.RequestData(db.BytesByHash, h, o)
		}
	}
	return nil
}
func (o *c20Obj) OnData(v []byte, b merkle.Builder) error { return nil }
func (o *c20Obj) ClearCache()                             {}

func init() {
	Register(&Prop{ID: "C20", Gen: c20Gen, New: func() Runner { return &c20Runner{} }})
}

// ---- independent parser of trie node payloads (does not use the repo's codec) ----

// c20Items splits an RLP list payload into its raw items; ok=false if malformed.
func c20Items(b []byte) (items [][]byte, ok bool) {
	hdr, plen, ok := c20Hdr(b)
	if !ok || b[0] < 0xc0 || hdr+plen != len(b) {
		return nil, false
	}
	p := b[hdr:]
	for len(p) > 0 {
		h, l, ok := c20Hdr(p)
		if !ok || h+l > len(p) {
			return nil, false
		}
		items = append(items, p[:h+l])
		p = p[h+l:]
	}
	return items, true
}

// c20Hdr returns header length and payload length of the item starting at b.
func c20Hdr(b []byte) (int, int, bool) {
	if len(b) == 0 {
		return 0, 0, false
	}
	t := b[0]
	switch {
	case t < 0x80:
		return 0, 1, true
	case t <= 0xb7:
		return 1, int(t - 0x80), true
	case t < 0xc0:
		n := int(t - 0xb7)
		if len(b) < 1+n {
			return 0, 0, false
		}
		l := 0
		for _, x := range b[1 : 1+n] {
			l = l<<8 | int(x)
		}
		return 1 + n, l, true
	case t <= 0xf7:
		return 1, int(t - 0xc0), true
	default:
		n := int(t - 0xf7)
		if len(b) < 1+n {
			return 0, 0, false
		}
		l := 0
		for _, x := range b[1 : 1+n] {
			l = l<<8 | int(x)
		}
		return 1 + n, l, true
	}
}

// c20Refs: hashes of children that are hash links, in child order.
func c20Refs(payload []byte) ([][]byte, bool) {
	items, ok := c20Items(payload)
	if !ok {
		return nil, false
	}
	link := func(it []byte) []byte {
		if len(it) == 33 && it[0] == 0xa0 {
			return it[1:]
		}
		return nil
	}
	var refs [][]byte
	switch len(items) {
	case 17:
		for _, it := range items[:16] {
			if h := link(it); h != nil {
				refs = append(refs, h)
			}
		}
	case 2:
		h, l, _ := c20Hdr(items[0])
		if l == 0 {
			return nil, false
		}
		if items[0][h]&0x20 == 0 { // extension
			if hh := link(items[1]); hh != nil {
				refs = append(refs, hh)
			}
		}
	default:
		return nil, false
	}
	return refs, true
}

// c20ItemBytes returns the content of a string item, nil if it is a list.
func c20ItemBytes(it []byte) []byte {
	if len(it) == 0 || it[0] >= 0xc0 {
		return nil
	}
	h, l, ok := c20Hdr(it)
	if !ok || h+l != len(it) {
		return nil
	}
	return it[h:]
}

type c20Ref struct {
	bkt db.BucketID
	key string
}

// trie flavours of a case
const (
	c20ModeBytes = 0 // bytes-valued trie
	c20ModeObj   = 1 // harness object values referring to one blob
	c20ModeWS    = 2 // real world state: account snapshots (service/state) as values
)

// c20ValueOf returns the value carried by a trie node payload itself (leaf value / branch
// value), nil if none.
func c20ValueOf(payload []byte) []byte {
	items, ok := c20Items(payload)
	if !ok {
		return nil
	}
	switch len(items) {
	case 17:
		return c20ItemBytes(items[16])
	case 2:
		hdr := c20ItemBytes(items[0])
		if len(hdr) > 0 && hdr[0]&0x20 != 0 {
			return c20ItemBytes(items[1])
		}
	}
	return nil
}

func c20Uint(b []byte) int {
	n := 0
	for _, x := range b {
		n = n<<8 | int(x)
	}
	return n
}

// c20AcctRefs: what an account snapshot (RLP list: version, balance, isContract, storeHash,
// state, owner, apiInfo, curContract, nextContract [, flag [, objGraph] ...]) refers to, in the
// order accountSnapshotImpl.Resolve asks: API info blob (version>=2), storage trie root, code of
// the current contract, code of the next contract, object graph blob. Independent of the repo's
// codec. ok=false: not an account snapshot.
func c20AcctRefs(val []byte) (refs []c20Ref, ok bool) {
	it, ok := c20Items(val)
	if !ok || len(it) < 9 {
		return nil, false
	}
	str := func(x []byte) []byte { // content of a string item; nil for lists / null
		if len(x) == 0 || x[0] >= 0xc0 {
			return nil
		}
		return c20ItemBytes(x)
	}
	if c20Uint(str(it[0])) >= 2 {
		if h := str(it[6]); len(h) > 0 {
			refs = append(refs, c20Ref{db.BytesByHash, string(h)})
		}
	}
	if h := str(it[3]); len(h) > 0 {
		refs = append(refs, c20Ref{db.MerkleTrie, string(h)})
	}
	for _, ci := range []int{7, 8} {
		if ct, isList := c20Items(it[ci]); isList && len(ct) >= 6 {
			if h := str(ct[5]); len(h) > 0 {
				refs = append(refs, c20Ref{db.BytesByHash, string(h)})
			}
		}
	}
	if len(it) >= 11 && c20Uint(str(it[9]))&1 != 0 {
		if og, isList := c20Items(it[10]); isList && len(og) >= 2 {
			if h := str(og[1]); len(h) > 0 {
				refs = append(refs, c20Ref{db.BytesByHash, string(h)})
			}
		}
	}
	return refs, true
}

// c20RefsFor: references asked for by the requester registered for bucket bkt after it got
// payload (harness's own parser; a blob requester asks for nothing).
func c20RefsFor(bkt db.BucketID, payload []byte, mode int) ([]c20Ref, bool) {
	if bkt != db.MerkleTrie {
		return nil, true
	}
	hs, ok := c20Refs(payload)
	if !ok {
		return nil, false
	}
	out := make([]c20Ref, 0, len(hs)+1)
	for _, h := range hs {
		out = append(out, c20Ref{db.MerkleTrie, string(h)})
	}
	switch mode {
	case c20ModeObj:
		if h := c20ValRef(c20ValueOf(payload)); h != nil {
			out = append(out, c20Ref{db.BytesByHash, string(h)})
		}
	case c20ModeWS:
		// account snapshots are RLP lists; storage values of the generated states never start
		// with a list tag
		if v := c20ValueOf(payload); len(v) > 0 && v[0] >= 0xc0 {
			ar, ok := c20AcctRefs(v)
			if !ok {
				return nil, false
			}
			out = append(out, ar...)
		}
	}
	return out, true
}

// c20RefsWire: the references asked for by the requesters of buckets bkts, in serving order.
func c20RefsWire(payload []byte, mode int, bkts []db.BucketID) string {
	var ss []string
	for _, b := range bkts {
		refs, ok := c20RefsFor(b, payload, mode)
		if !ok {
			return "X"
		}
		for _, r := range refs {
			ss = append(ss, hx([]byte(r.key)))
		}
	}
	if len(ss) == 0 {
		return "-"
	}
	return strings.Join(ss, ",")
}

func c20BktDigit(b db.BucketID) string {
	switch b {
	case db.MerkleTrie:
		return "0"
	case db.BytesByHash:
		return "1"
	}
	return "?"
}

// ---- recording database: every Set that reaches the destination store is logged ----

type c20RecDB struct {
	db.Database
	sets map[db.BucketID]map[string][]byte
}

type c20RecBucket struct {
	db.Bucket
	id  db.BucketID
	rec *c20RecDB
}

func (d *c20RecDB) GetBucket(id db.BucketID) (db.Bucket, error) {
	bk, err := d.Database.GetBucket(id)
	if err != nil {
		return nil, err
	}
	return &c20RecBucket{bk, id, d}, nil
}

func (b *c20RecBucket) Set(k, v []byte) error {
	m := b.rec.sets[b.id]
	if m == nil {
		m = map[string][]byte{}
		b.rec.sets[b.id] = m
	}
	m[string(k)] = append([]byte{}, v...)
	return b.Bucket.Set(k, v)
}

// ---- source trie helper ----

type c20Source struct {
	pairs map[string][]byte
	trie  map[string][]byte // hash -> payload: every node of the source trie (MerkleTrie bucket)
	blobs map[string][]byte // hash -> blob: every blob referenced by a value (BytesByHash bucket)
	root  []byte
	accts []*c20Acct // world-state sources
}

// payload of key h in either bucket (a key present in both has the same bytes: one hasher)
func (s *c20Source) payload(h string) []byte {
	if p, ok := s.trie[h]; ok {
		return p
	}
	return s.blobs[h]
}

func (s *c20Source) size() int { return len(s.trie) + len(s.blobs) }

// blobs: candidate blobs by hash; a value 0x01++h refers to blobs[h]
func c20BuildSource(pairs map[string][]byte, obj bool, blobs map[string][]byte) *c20Source {
	rec := &c20RecDB{Database: db.NewMapDB(), sets: map[db.BucketID]map[string][]byte{}}
	keys := make([]string, 0, len(pairs))
	for k := range pairs {
		keys = append(keys, k)
	}
	sort.Strings(keys)
	var root []byte
	if obj {
		mt := ompt.NewMutableForObject(rec, nil, c20ObjType)
		bk, _ := rec.GetBucket(db.BytesByHash)
		for _, k := range keys {
			v := pairs[k]
			o := &c20Obj{data: v, bk: bk}
			if h := c20ValRef(v); h != nil {
				o.blob = blobs[string(h)]
			}
			if _, err := mt.Set([]byte(k), o); err != nil {
				panic(err)
			}
		}
		ss := mt.GetSnapshot()
		if err := ss.Flush(); err != nil {
			panic(err)
		}
		root = ss.Hash()
	} else {
		mt := ompt.NewMutable(rec, nil)
		for _, k := range keys {
			if _, err := mt.Set([]byte(k), pairs[k]); err != nil {
				panic(err)
			}
		}
		ss := mt.GetSnapshot()
		if err := ss.Flush(); err != nil {
			panic(err)
		}
		root = ss.Hash()
	}
	s := &c20Source{pairs: pairs, trie: map[string][]byte{}, blobs: map[string][]byte{}, root: root}
	for k, v := range rec.sets[db.MerkleTrie] {
		s.trie[k] = v
	}
	for k, v := range rec.sets[db.BytesByHash] {
		s.blobs[k] = v
	}
	return s
}

// ---- world-state sources: real account snapshots of service/state as trie values ----

// contract stages of an account
var c20Stages = []string{"eoa", "cur", "curnext", "next", "rejected", "currej"}

type c20Acct struct {
	id     []byte
	stage  string // eoa | cur (accepted) | curnext (accepted + pending update) | next (first deployment pending) | rejected (first deployment rejected) | currej (accepted + rejected update)
	bal    int64
	codeA  []byte // first deployed code
	codeB  []byte // second deployed code (curnext, currej)
	graph  []byte // object graph of the current contract (stages with a current contract)
	api    bool   // account version 2 with API info kept as a blob
	kv     [][2][]byte
	codeID []byte // filled by the builder: CodeID of the current contract
}

func c20APIInfo(a *c20Acct) *scoreapi.Info {
	return scoreapi.NewInfo([]*scoreapi.Method{{
		Type: scoreapi.Function, Name: fmt.Sprintf("m%x", a.id), Flags: scoreapi.FlagExternal,
		Inputs: []scoreapi.Parameter{{Name: "x", Type: scoreapi.Integer}},
	}})
}

var c20Owner = common.MustNewAddressFromString("hx0000000000000000000000000000000000000001")

// c20BuildWorld builds the trusted world state with the real service/state API and records what
// its flush writes into each bucket.
func c20BuildWorld(accts []*c20Acct) *c20Source {
	rec := &c20RecDB{Database: db.NewMapDB(), sets: map[db.BucketID]map[string][]byte{}}
	ws := state.NewWorldState(rec, nil, nil, nil, nil)
	must := func(err error) {
		if err != nil {
			panic(err)
		}
	}
	for _, a := range accts {
		as := ws.GetAccountState(a.id)
		as.SetBalance(big.NewInt(a.bal))
		for _, kv := range a.kv {
			_, err := as.SetValue(kv[0], kv[1])
			must(err)
		}
		if a.stage == "eoa" {
			continue
		}
		if !as.InitContractAccount(c20Owner) {
			panic("InitContractAccount")
		}
		if a.api {
			must(as.MigrateForRevision(module.UseCompactAPIInfo))
			as.SetAPIInfo(c20APIInfo(a))
		}
		tx1 := crypto.SHA3Sum256(append([]byte("deploy1"), a.id...))
		tx2 := crypto.SHA3Sum256(append([]byte("deploy2"), a.id...))
		_, err := as.DeployContract(a.codeA, state.PythonEE, state.CTAppZip, nil, tx1)
		must(err)
		switch a.stage {
		case "cur", "curnext", "currej":
			must(as.AcceptContract(tx1, crypto.SHA3Sum256(tx1)))
			if a.stage != "cur" {
				_, err := as.DeployContract(a.codeB, state.PythonEE, state.CTAppZip, nil, tx2)
				must(err)
				if a.stage == "currej" {
					must(as.RejectContract(tx2, crypto.SHA3Sum256(tx2)))
				}
			}
			a.codeID = as.Contract().CodeID()
			if a.graph != nil {
				must(as.SetObjGraph(a.codeID, true, 7, a.graph))
			}
		case "rejected":
			must(as.RejectContract(tx1, crypto.SHA3Sum256(tx1)))
		case "next":
		default:
			panic("stage " + a.stage)
		}
	}
	wss := ws.GetSnapshot()
	must(wss.Flush())
	s := &c20Source{trie: map[string][]byte{}, blobs: map[string][]byte{}, root: wss.StateHash(), accts: accts}
	for k, v := range rec.sets[db.MerkleTrie] {
		s.trie[k] = v
	}
	for k, v := range rec.sets[db.BytesByHash] {
		s.blobs[k] = v
	}
	return s
}

func c20GenWorld(g *Gen) {
	n := g.Pick(1, 2, 3, 4, 6, 9)
	if g.Tier == "thorough" && g.Intn(6) == 0 {
		n = 20 + g.Intn(40)
	}
	var codes [][]byte
	code := func() []byte {
		if len(codes) > 0 && g.Intn(6) == 0 {
			return codes[g.Intn(len(codes))] // the same code deployed twice: one blob, two requesters
		}
		c := g.Bytes(g.Pick(1, 5, 20, 40, 100))
		codes = append(codes, c)
		return c
	}
	var accts []*c20Acct
	seen := map[string]bool{}
	off := g.Intn(len(c20Stages))
	for i := 0; i < n; i++ {
		a := &c20Acct{id: g.Bytes(g.Pick(1, 4, 20, 21)), bal: int64(g.Intn(1 << 20))}
		if seen[string(a.id)] {
			continue
		}
		seen[string(a.id)] = true
		a.stage = c20Stages[(off+i)%len(c20Stages)] // every stage appears once n >= 6, all over a run
		if g.Intn(4) == 0 {
			a.stage = c20Stages[g.Intn(len(c20Stages))]
		}
		if a.stage != "eoa" {
			a.codeA = code()
			if a.stage == "curnext" || a.stage == "currej" {
				a.codeB = code()
			}
			if a.stage != "next" && a.stage != "rejected" && g.Intn(3) == 0 {
				a.graph = g.Bytes(g.Pick(1, 10, 50))
			}
			a.api = g.Intn(3) == 0
		}
		for j, nkv := 0, g.Pick(0, 0, 1, 2, 4, 9); j < nkv; j++ {
			v := g.Bytes(g.Pick(1, 2, 20, 33, 60))
			v[0] &= 0x7f // never looks like an RLP list (account snapshots do)
			a.kv = append(a.kv, [2][]byte{c20Key(g), v})
		}
		accts = append(accts, a)
	}
	opt := func(b []byte) string {
		if b == nil {
			return "-"
		}
		return hx(b)
	}
	for _, a := range accts {
		api := 0
		if a.api {
			api = 1
		}
		g.Emit("acct %s %s %d %s %s %s %d", hx(a.id), a.stage, a.bal, opt(a.codeA), opt(a.codeB), opt(a.graph), api)
		for _, kv := range a.kv {
			g.Emit("stor %s %s %s", hx(a.id), hx(kv[0]), hx(kv[1]))
		}
	}
	src := c20BuildWorld(accts)
	g.Emit("begin-ws %s", hx(src.root))
	c20Deliver(g, src, c20ModeWS, nil)
}

// ---- generator ----

func c20Key(g *Gen) []byte {
	// short keys with shared prefixes produce branches/extensions with embedded and hashed children
	n := g.Pick(1, 2, 2, 3, 4, 8, 20, 32)
	k := make([]byte, n)
	for i := range k {
		k[i] = byte(g.Pick(0x00, 0x01, 0x10, 0x11, 0x12, 0xab, 0xff, g.Intn(256)))
	}
	return k
}

// c20Sim is the generator's own bookkeeping of what is outstanding (per key, the buckets that
// asked, in order) and what is stored (per bucket), so that it can steer delivery histories.
// It only decides which ops are written; expectations come from the model and the oracles.
type c20Sim struct {
	src    *c20Source
	mode   int
	order  []string                 // outstanding keys
	pend   map[string][]db.BucketID // key -> requesting buckets
	stored map[c20Ref]bool
	done   map[string]bool // delivered at least once
}

func (m *c20Sim) request(r c20Ref) {
	if m.stored[r] {
		return
	}
	if len(m.pend[r.key]) == 0 {
		m.order = append(m.order, r.key)
	}
	m.pend[r.key] = append(m.pend[r.key], r.bkt)
}

func (m *c20Sim) deliver(h string) {
	bkts := m.pend[h]
	delete(m.pend, h)
	for i, k := range m.order {
		if k == h {
			m.order = append(m.order[:i:i], m.order[i+1:]...)
			break
		}
	}
	m.done[h] = true
	p := m.src.payload(h)
	for _, b := range bkts {
		m.stored[c20Ref{b, h}] = true
		refs, _ := c20RefsFor(b, p, m.mode)
		for _, r := range refs {
			if r.key != h {
				m.request(r)
			}
		}
	}
}

// c20Dual describes the hash that is needed both as a trie node and as a blob.
type c20Dual struct {
	key       string
	parents   map[string]bool // trie nodes linking to it as a child
	referrers map[string]bool // trie nodes whose value refers to it as a blob
	hold      bool            // deliver it only when both buckets ask for it
	blobFirst bool            // register the blob request before the node request
	twice     bool
}

// c20AddDual extends pairs by one key whose value refers to a blob that is byte-identical to a
// hashed node L of the trie, so that hash(L) is needed in both buckets. Returns nil if the
// trie has no suitable node or L does not survive the insertion.
func c20AddDual(g *Gen, pairs map[string][]byte, blobs map[string][]byte, blobOrder *[][]byte) *c20Dual {
	src0 := c20BuildSource(pairs, true, blobs)
	var leaves, others []string
	hs := make([]string, 0, len(src0.trie))
	for h := range src0.trie {
		hs = append(hs, h)
	}
	sort.Strings(hs)
	for _, h := range hs {
		if h == string(src0.root) {
			continue
		}
		if _, isBlob := src0.blobs[h]; isBlob {
			continue
		}
		items, ok := c20Items(src0.trie[h])
		if ok && len(items) == 2 {
			if hdr := c20ItemBytes(items[0]); len(hdr) > 0 && hdr[0]&0x20 != 0 {
				leaves = append(leaves, h)
				continue
			}
		}
		others = append(others, h)
	}
	cands := leaves
	if len(cands) == 0 || (len(others) > 0 && g.Intn(5) == 0) {
		cands = others
	}
	if len(cands) == 0 {
		return nil
	}
	K := cands[g.Intn(len(cands))]
	L := src0.trie[K]
	// a key under a first nibble nobody uses only changes the root branch
	used := map[byte]bool{}
	for k := range pairs {
		if len(k) > 0 {
			used[k[0]>>4] = true
		}
	}
	var free []byte
	for n := byte(0); n < 16; n++ {
		if !used[n] {
			free = append(free, n)
		}
	}
	nk := c20Key(g)
	if len(free) > 0 && len(nk) > 0 {
		nk[0] = free[g.Intn(len(free))]<<4 | nk[0]&0x0f
	}
	if _, dup := pairs[string(nk)]; dup {
		return nil
	}
	pairs[string(nk)] = append([]byte{0x01}, K...)
	_, hadBlob := blobs[K]
	blobs[K] = L
	src := c20BuildSource(pairs, true, blobs)
	if !bytes.Equal(src.trie[K], L) || !bytes.Equal(src.blobs[K], L) {
		delete(pairs, string(nk))
		if !hadBlob {
			delete(blobs, K)
		}
		return nil
	}
	*blobOrder = append(*blobOrder, L)
	d := &c20Dual{key: K, parents: map[string]bool{}, referrers: map[string]bool{}}
	for h, p := range src.trie {
		refs, _ := c20RefsFor(db.MerkleTrie, p, c20ModeObj)
		for _, r := range refs {
			if r.key == K && r.bkt == db.MerkleTrie {
				d.parents[h] = true
			}
			if r.key == K && r.bkt == db.BytesByHash {
				d.referrers[h] = true
			}
		}
	}
	d.hold = g.Intn(4) > 0
	d.blobFirst = g.Intn(2) == 0
	d.twice = g.Intn(3) == 0
	return d
}

func c20Gen(g *Gen) {
	for c := 0; c < g.N; c++ {
		g.Emit("reset")
		if c%5 == 3 {
			// a real world state: accounts in every contract stage, storage tries, code blobs
			c20GenWorld(g)
			continue
		}
		obj := g.Intn(5) < 2 // object-valued trie whose values may refer to blobs (as accounts refer to storage/code)
		np := g.Pick(0, 1, 2, 3, 5, 8, 13, 30, 60)
		if g.Tier == "thorough" && g.Intn(4) == 0 {
			np = 100 + g.Intn(300)
		}
		// every 4th case (and half of the other object cases) has a hash needed in both buckets
		wantDual := c%4 == 1 || (obj && g.Intn(2) == 0)
		if wantDual {
			obj = true
			if np < 2 {
				np = g.Pick(2, 3, 5, 8, 13)
			}
		}
		pairs := map[string][]byte{}
		blobs := map[string][]byte{}
		var blobOrder [][]byte
		for i := 0; i < np; i++ {
			k := c20Key(g)
			if obj && i > 0 && g.Intn(3) == 0 {
				// a key extending a stored key puts the shorter key's value on a branch node
				keys := make([]string, 0, len(pairs))
				for kk := range pairs {
					keys = append(keys, kk)
				}
				sort.Strings(keys)
				base := keys[g.Intn(len(keys))]
				k = append([]byte(base), g.Bytes(1+g.Intn(2))...)
			}
			var v []byte
			if obj {
				if g.Intn(3) > 0 {
					var blob []byte
					if len(blobOrder) > 0 && g.Intn(5) == 0 {
						blob = blobOrder[g.Intn(len(blobOrder))] // shared blob
					} else {
						blob = append([]byte{0x00}, g.Bytes(g.Pick(1, 8, 40, 100))...)
						blobOrder = append(blobOrder, blob)
					}
					h := crypto.SHA3Sum256(blob)
					blobs[string(h)] = blob
					v = append([]byte{0x01}, h...)
				} else {
					v = append([]byte{0x02}, g.Bytes(g.Pick(0, 1, 5, 20, 40))...)
				}
			} else {
				v = g.Bytes(g.Pick(1, 1, 2, 5, 20, 31, 32, 33, 40, 70))
			}
			pairs[string(k)] = v
		}
		var dual *c20Dual
		if wantDual {
			dual = c20AddDual(g, pairs, blobs, &blobOrder)
		}
		keys := make([]string, 0, len(pairs))
		for k := range pairs {
			keys = append(keys, k)
		}
		sort.Strings(keys)
		if obj {
			for _, b := range blobOrder {
				g.Emit("blob %s", hx(b))
			}
		}
		for _, k := range keys {
			g.Emit("src %s %s", hx([]byte(k)), hx(pairs[k]))
		}
		src := c20BuildSource(pairs, obj, blobs)
		if obj {
			g.Emit("begin-obj %s", hx(src.root))
		} else {
			g.Emit("begin %s", hx(src.root))
		}
		mode := c20ModeBytes
		if obj {
			mode = c20ModeObj
		}
		c20Deliver(g, src, mode, dual)
	}
}

// c20Deliver writes a delivery history for the source: requested payloads in random order,
// interleaved with forged, premature/duplicate and altered ones; may stop early.
func c20Deliver(g *Gen, src *c20Source, mode int, dual *c20Dual) {
	sim := &c20Sim{src: src, mode: mode, pend: map[string][]db.BucketID{}, stored: map[c20Ref]bool{}, done: map[string]bool{}}
	if src.root != nil {
		sim.request(c20Ref{db.MerkleTrie, string(src.root)})
	}
	// the bucket a payload is delivered for only selects the hasher; mostly the bucket that
	// asked, for a key asked by both either one, sometimes the other one (service/sync
	// delivers everything as BytesByHash)
	bothOf := func(bk []db.BucketID) (has0, has1 bool) {
		for _, b := range bk {
			if b == db.MerkleTrie {
				has0 = true
			} else {
				has1 = true
			}
		}
		return
	}
	emitData := func(h string) {
		p := src.payload(h)
		has0, has1 := bothOf(sim.pend[h])
		var asBlob bool
		switch {
		case !has0 && !has1:
			_, asBlob = src.blobs[h]
			if _, both := src.trie[h]; both && asBlob {
				asBlob = g.Intn(2) == 0
			}
		case has0 && has1:
			asBlob = g.Intn(2) == 0
		default:
			asBlob = has1
		}
		if g.Intn(8) == 0 {
			asBlob = !asBlob
		}
		if asBlob {
			g.Emit("datab %s", hx(p))
		} else {
			g.Emit("data %s", hx(p))
		}
	}
	anyDone := func(m map[string]bool) bool {
		for h := range m {
			if sim.done[h] {
				return true
			}
		}
		return false
	}
	held := func(h string) bool {
		if dual == nil {
			return false
		}
		if h == dual.key {
			if !dual.hold {
				return false
			}
			has0, has1 := bothOf(sim.pend[h])
			return !(has0 && has1)
		}
		if dual.blobFirst {
			return dual.parents[h] && !anyDone(dual.referrers)
		}
		return dual.referrers[h] && !anyDone(dual.parents)
	}
	allHashes := make([]string, 0, src.size())
	for h := range src.trie {
		allHashes = append(allHashes, h)
	}
	for h := range src.blobs {
		if _, both := src.trie[h]; !both {
			allHashes = append(allHashes, h)
		}
	}
	sort.Strings(allHashes)
	stopEarly := g.Intn(6) == 0
	for len(sim.order) > 0 {
		if stopEarly && g.Intn(4) == 0 {
			break
		}
		switch g.Intn(10) {
		case 0: // forged / arbitrary payload
			if g.Intn(2) == 0 {
				g.Emit("data %s", hx(g.Bytes(g.Pick(1, 5, 33, 60))))
			} else {
				g.Emit("datab %s", hx(g.Bytes(g.Pick(1, 5, 33, 60))))
			}
			continue
		case 1: // genuine node that is not (or no longer) requested: duplicate or premature
			if len(allHashes) > 0 {
				h := allHashes[g.Intn(len(allHashes))]
				if len(sim.pend[h]) == 0 {
					emitData(h)
				}
			}
			continue
		case 2: // a requested node with one byte altered
			h := sim.order[g.Intn(len(sim.order))]
			p := append([]byte{}, src.payload(h)...)
			p[g.Intn(len(p))] ^= byte(1 << uint(g.Intn(8)))
			g.Emit("data %s", hx(p))
			continue
		}
		cands := make([]string, 0, len(sim.order))
		for _, h := range sim.order {
			if !held(h) {
				cands = append(cands, h)
			}
		}
		if len(cands) == 0 {
			cands = sim.order
		}
		i := g.Intn(len(cands))
		if g.Intn(3) == 0 {
			i = 0
		}
		h := cands[i]
		emitData(h)
		sim.deliver(h)
		if dual != nil && h == dual.key && dual.twice {
			emitData(h) // the same payload once more: nobody asks any longer
		}
	}
	g.Emit("finish")
}

// ---- implementation runner ----

type c20Runner struct {
	obj     bool
	mode    int
	accts   []*c20Acct
	blobs   map[string][]byte
	pairs   map[string][]byte
	src     *c20Source
	dst     *c20RecDB
	b       merkle.Builder
	served  map[string]int // key -> number of accepted deliveries
	started bool
}

func (r *c20Runner) render(tag string) string {
	var ks []string
	for it := r.b.Requests(); it.Next(); {
		k := it.Key()
		if len(k) > 4 {
			k = k[:4]
		}
		s := fmt.Sprintf("%x/", k)
		for _, b := range it.BucketIDs() {
			s += c20BktDigit(b)
		}
		ks = append(ks, s)
	}
	// the order of outstanding requests is not part of the property: compare as a set
	sort.Strings(ks)
	s := strings.Join(ks, ",")
	if s == "" {
		s = "-"
	}
	return fmt.Sprintf("%s %d %d %s", tag, r.b.UnresolvedCount(), r.b.ResolvedCount(), s)
}

func (r *c20Runner) Step(t []string, o *Oracle) string {
	switch {
	case len(t) == 3 && t[0] == "src" && !r.started:
		if r.pairs == nil {
			r.pairs = map[string][]byte{}
		}
		r.pairs[string(unhx(t[1]))] = unhx(t[2])
		return "ok"
	case len(t) == 2 && t[0] == "blob" && !r.started:
		if r.blobs == nil {
			r.blobs = map[string][]byte{}
		}
		b := unhx(t[1])
		r.blobs[string(crypto.SHA3Sum256(b))] = b
		return "ok"
	case len(t) == 8 && t[0] == "acct" && !r.started:
		a := &c20Acct{id: unhx(t[1]), stage: t[2]}
		fmt.Sscan(t[3], &a.bal)
		opt := func(x string) []byte {
			if x == "-" {
				return nil
			}
			return unhx(x)
		}
		a.codeA, a.codeB, a.graph, a.api = opt(t[4]), opt(t[5]), opt(t[6]), t[7] == "1"
		r.accts = append(r.accts, a)
		return "ok"
	case len(t) == 4 && t[0] == "stor" && !r.started:
		for _, a := range r.accts {
			if bytes.Equal(a.id, unhx(t[1])) {
				a.kv = append(a.kv, [2][]byte{unhx(t[2]), unhx(t[3])})
			}
		}
		return "ok"
	case len(t) == 2 && t[0] == "begin-ws" && !r.started:
		r.started = true
		r.served = map[string]int{}
		r.obj, r.mode = true, c20ModeWS // both buckets are legitimate destinations
		r.src = c20BuildWorld(r.accts)
		r.dst = &c20RecDB{Database: db.NewMapDB(), sets: map[db.BucketID]map[string][]byte{}}
		r.b = merkle.NewBuilder(r.dst)
		if _, err := state.NewWorldSnapshotWithBuilder(r.b, r.src.root, nil, nil, nil); err != nil {
			return "err"
		}
		o.Count("world-state")
		for _, a := range r.accts {
			o.Count("account-stage-" + a.stage)
			if a.graph != nil {
				o.Count("account-with-object-graph")
			}
			if a.api {
				o.Count("account-with-api-info-blob")
			}
			if len(a.kv) > 0 {
				o.Count("account-with-storage")
			}
		}
		o.Count(fmt.Sprintf("source-nodes-%s", c20Bucket(r.src.size())))
		o.Check(bytes.Equal(r.src.root, unhx(t[1])) || (len(r.src.root) == 0 && t[1] == "-"), "source-root-differs-from-generator", "root %x vs op %s", r.src.root, t[1])
		return r.render("ok")
	case len(t) == 2 && (t[0] == "begin" || t[0] == "begin-obj") && !r.started:
		if r.pairs == nil {
			r.pairs = map[string][]byte{}
		}
		r.started = true
		r.served = map[string]int{}
		r.obj = t[0] == "begin-obj"
		if r.obj {
			r.mode = c20ModeObj
		}
		r.src = c20BuildSource(r.pairs, r.obj, r.blobs)
		r.dst = &c20RecDB{Database: db.NewMapDB(), sets: map[db.BucketID]map[string][]byte{}}
		r.b = merkle.NewBuilder(r.dst)
		if r.obj {
			ompt.NewImmutableForObject(r.b.Database(), r.src.root, c20ObjType).Resolve(r.b)
			o.Count("object-trie")
		} else {
			ompt.NewImmutable(r.b.Database(), r.src.root).Resolve(r.b)
			o.Count("bytes-trie")
		}
		o.Count(fmt.Sprintf("source-nodes-%s", c20Bucket(r.src.size())))
		nboth := 0
		for k := range r.src.blobs {
			if _, ok := r.src.trie[k]; ok {
				nboth++
			}
		}
		if nboth > 0 {
			o.Count("source-has-key-in-both-buckets")
		}
		o.Check(bytes.Equal(r.src.root, unhx(t[1])) || (len(r.src.root) == 0 && t[1] == "-"), "source-root-differs-from-generator", "root %x vs op %s", r.src.root, t[1])
		return r.render("ok")
	case len(t) == 2 && (t[0] == "data" || t[0] == "datab") && r.started:
		bucket := db.MerkleTrie
		if t[0] == "datab" {
			bucket = db.BytesByHash
		}
		v := unhx(t[1])
		h := crypto.SHA3Sum256(v)
		requested := false
		var bkts []db.BucketID
		for it := r.b.Requests(); it.Next(); {
			if bytes.Equal(it.Key(), h) {
				requested = true
				bkts = append([]db.BucketID{}, it.BucketIDs()...)
			}
		}
		err := r.b.OnData(bucket, v)
		tag := "ok"
		switch {
		case err == merkle.ErrNoRequester:
			tag = "norequester"
		case err != nil:
			tag = "err"
		}
		o.Count("ondata-" + tag)
		// property oracle: accepted exactly when its hash was outstanding
		o.Check((err == nil) == requested || (err != nil && err != merkle.ErrNoRequester), "ondata-accepts-iff-requested",
			"OnData(%x…) err=%v but requested=%v", h[:4], err, requested)
		if err != nil {
			return r.render(tag)
		}
		distinct := map[db.BucketID]bool{}
		for _, b := range bkts {
			distinct[b] = true
		}
		if len(distinct) > 1 {
			o.Count(fmt.Sprintf("served-both-buckets-first-%s-delivered-as-%s", c20BktDigit(bkts[0]), c20BktDigit(bucket)))
		} else if len(bkts) > 0 && bkts[0] != bucket {
			o.Count("served-delivered-as-other-bucket")
		}
		r.served[string(h)]++
		if r.served[string(h)] == 2 {
			o.Count("key-served-twice-for-different-buckets")
		}
		// refs asked for by the served requesters, from the harness's own parser (cross-checks
		// the model's decoder)
		return r.render(tag) + " refs=" + c20RefsWire(v, r.mode, bkts)
	case len(t) == 1 && t[0] == "finish" && r.started:
		un := r.b.UnresolvedCount()
		if err := r.b.Flush(true); err != nil {
			return "err"
		}
		srcOf := func(bkt db.BucketID) map[string][]byte {
			switch {
			case bkt == db.MerkleTrie:
				return r.src.trie
			case bkt == db.BytesByHash && r.obj:
				return r.src.blobs
			}
			return nil
		}
		// oracle 1: nothing but requested data is stored: every stored key is the hash of its
		// value, and is part of the trusted state *of that bucket*
		nstored := 0
		for bkt, m := range r.dst.sets {
			o.Check(bkt == db.MerkleTrie || (r.obj && bkt == db.BytesByHash) || len(m) == 0, "stored-in-foreign-bucket", "bucket %q received %d entries", bkt, len(m))
			for k, v := range m {
				nstored++
				o.Check(bytes.Equal(crypto.SHA3Sum256(v), []byte(k)), "stored-key-is-hash-of-value", "stored %x is not sha3 of its value", k)
				_, inTrie := r.src.trie[k]
				_, inBlobs := r.src.blobs[k]
				o.Check(inTrie || inBlobs, "stored-unrequested-data", "stored key %x (bucket %q) is not part of the trusted state", k, bkt)
				if inTrie || inBlobs {
					_, here := srcOf(bkt)[k]
					o.Check(here, "stored-in-wrong-bucket", "key %x stored in bucket %q where the trusted state does not have it", k, bkt)
				}
			}
		}
		// oracle 2: no outstanding requests <=> each bucket of the store holds the complete
		// trusted state of that bucket (trie nodes in MerkleTrie, referenced blobs in BytesByHash)
		complete := true
		have := 0
		for _, bkt := range []db.BucketID{db.MerkleTrie, db.BytesByHash} {
			for k, v := range srcOf(bkt) {
				if got, ok := r.dst.sets[bkt][k]; ok && bytes.Equal(got, v) {
					have++
				} else {
					complete = false
				}
			}
		}
		o.Check((un == 0) == complete, "unresolved-zero-iff-complete", "unresolved=%d but complete=%v (stored %d of %d (bucket,key) pairs of the trusted state)", un, complete, have, r.src.size())
		if un == 0 {
			// oracle 3: rebuilt state has the trusted root and contents (fresh trie over the raw destination db)
			if r.mode == c20ModeWS {
				r.checkWorld(o)
				o.Count("finished-complete")
				return fmt.Sprintf("complete %d", nstored)
			}
			got := map[string][]byte{}
			if r.obj {
				tr := ompt.NewImmutableForObject(r.dst.Database, r.src.root, c20ObjType)
				bkb, _ := r.dst.Database.GetBucket(db.BytesByHash)
				for it := tr.Iterator(); it.Has(); it.Next() {
					ob, k, err := it.Get()
					if err != nil {
						o.Check(false, "rebuilt-trie-unreadable", "iterator error %v", err)
						break
					}
					got[string(k)] = ob.Bytes()
					if h := c20ValRef(ob.Bytes()); h != nil {
						bv, _ := bkb.Get(h)
						o.Check(bytes.Equal(bv, r.src.blobs[string(h)]) && bv != nil, "rebuilt-state-misses-referenced-data", "sync finished but data %x referenced by key %x is not in the store", h[:4], k)
					}
				}
			} else {
				tr := ompt.NewImmutable(r.dst.Database, r.src.root)
				for it := tr.Iterator(); it.Has(); it.Next() {
					v, k, err := it.Get()
					if err != nil {
						o.Check(false, "rebuilt-trie-unreadable", "iterator error %v", err)
						break
					}
					got[string(k)] = v
				}
			}
			same := len(got) == len(r.pairs)
			for k, v := range r.pairs {
				if !bytes.Equal(got[k], v) {
					same = false
				}
			}
			o.Check(same, "rebuilt-contents-differ", "rebuilt trie has %d pairs, source %d", len(got), len(r.pairs))
			o.Count("finished-complete")
			return fmt.Sprintf("complete %d", nstored)
		}
		o.Count("finished-incomplete")
		return fmt.Sprintf("incomplete %d %d", un, nstored)
	}
	return "bad-op"
}

// checkWorld reopens the synced database as a world snapshot and reads back everything the
// trusted state holds: balances, storage values, code of current and next contracts, object
// graphs, API info.
func (r *c20Runner) checkWorld(o *Oracle) {
	wss := state.NewWorldSnapshot(r.dst.Database, r.src.root, nil, nil, nil)
	for _, a := range r.accts {
		ass := wss.GetAccountSnapshot(a.id)
		if ass == nil {
			o.Check(false, "rebuilt-account-missing", "account %x (%s) is not in the rebuilt state", a.id, a.stage)
			continue
		}
		o.Check(ass.GetBalance().Int64() == a.bal && ass.IsContract() == (a.stage != "eoa"), "rebuilt-contents-differ", "account %x: balance %v contract %v", a.id, ass.GetBalance(), ass.IsContract())
		last := map[string][]byte{}
		for _, kv := range a.kv {
			last[string(kv[0])] = kv[1]
		}
		for k, v := range last {
			got, err := ass.GetValue([]byte(k))
			o.Check(err == nil && bytes.Equal(got, v), "rebuilt-storage-differs", "account %x key %x: got %x err %v", a.id, k, got, err)
		}
		var cur, next []byte
		switch a.stage {
		case "cur":
			cur = a.codeA
		case "curnext", "currej":
			cur, next = a.codeA, a.codeB
		case "next", "rejected":
			next = a.codeA
		}
		chk := func(name string, c state.ContractSnapshot, exp []byte) {
			if exp == nil {
				o.Check(c == nil, "rebuilt-contents-differ", "account %x has an unexpected %s contract", a.id, name)
				return
			}
			if c == nil {
				o.Check(false, "rebuilt-contents-differ", "account %x (%s) has no %s contract", a.id, a.stage, name)
				return
			}
			code, err := c.Code()
			o.Check(err == nil && bytes.Equal(code, exp), "rebuilt-state-misses-referenced-data", "sync finished but the code of the %s contract of account %x (stage %s) cannot be read: %v", name, a.id, a.stage, err)
		}
		chk("current", ass.Contract(), cur)
		chk("next", ass.NextContract(), next)
		if a.graph != nil {
			_, _, data, err := ass.GetObjGraph(a.codeID, true)
			o.Check(err == nil && bytes.Equal(data, a.graph), "rebuilt-state-misses-referenced-data", "sync finished but the object graph of account %x cannot be read: %v", a.id, err)
		}
		if a.api {
			info, err := ass.APIInfo()
			o.Check(err == nil && info != nil && info.Equal(c20APIInfo(a)), "rebuilt-state-misses-referenced-data", "sync finished but the API info of account %x cannot be read: %v", a.id, err)
		}
	}
}

func c20Bucket(n int) string {
	switch {
	case n == 0:
		return "0"
	case n < 4:
		return "1-3"
	case n < 16:
		return "4-15"
	case n < 64:
		return "16-63"
	}
	return "64+"
}
