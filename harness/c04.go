//go:build c04 || all

package main

import (
	"bytes"
	"encoding/hex"
	"fmt"
	"strconv"
	"strings"

	"github.com/icon-project/goloop/common/codec"
	"github.com/icon-project/goloop/common/crypto"
	"github.com/icon-project/goloop/common/wallet"
	"github.com/icon-project/goloop/consensus"
	"github.com/icon-project/goloop/module"
)

func init() {
	Register(&Prop{ID: "C04", Gen: c04Gen, New: func() Runner { return &c04Runner{} }})
}

// ---------------------------------------------------------------- generator

func c04Gen(g *Gen) {
	for i := 0; i < g.N; i++ {
		g.Emit("reset")
		n := g.Pick(0, 1, 2, 3, 3, 4, 4, 5, 6, 6, 7, 7, 8, 9, 9, 10, 10, 1+g.Intn(10))
		g.Emit("new %d", n)
		L := 5 + g.Intn(50)
		if g.Tier == "thorough" && g.Intn(4) == 0 {
			L += g.Intn(200)
		}
		// a small palette of decisions; `lead` is favoured so that +2/3 happens
		pal := []int{0, 1, 2, 3, 4, 5}
		g.R.Shuffle(len(pal), func(a, b int) { pal[a], pal[b] = pal[b], pal[a] })
		np := 1 + g.Intn(4)
		leadBias := g.Pick(10, 25, 40, 60, 85)
		flip := g.Intn(L + 1) // from here on another digest is favoured (conflicting re-votes)
		for k := 0; k < L; k++ {
			switch x := g.Intn(100); {
			case x < 70:
				idx := 0
				if n > 0 {
					idx = g.Intn(n)
				}
				if g.Intn(60) == 0 {
					idx = n + g.Intn(2) // out of range: Go panics
				}
				lead := pal[0]
				if k >= flip {
					lead = pal[np%len(pal)]
				}
				d := lead
				if g.Intn(100) >= leadBias {
					d = pal[g.Intn(np+1)%len(pal)]
				}
				h := 5
				if g.Intn(25) == 0 {
					h = 6
				}
				r := 0
				if g.Intn(12) == 0 {
					r = g.Intn(3)
				}
				t := 1
				if g.Intn(15) == 0 {
					t = 0
				}
				ts := 100 + g.Intn(4)
				if g.Intn(3) == 0 {
					ts = 100
				}
				g.Emit("add %d %d %d %d %d %d", idx, h, r, t, d, ts)
			case x < 92:
				g.Emit("get")
			default:
				g.Emit("has")
			}
		}
		g.Emit("get")
		g.Emit("has")
	}
}

// ---------------------------------------------------------------- shared test material

var c04Wallets []module.Wallet

func c04Wallet(i int) module.Wallet {
	for len(c04Wallets) <= i {
		sk, err := crypto.ParsePrivateKey(crypto.SHA3Sum256([]byte(fmt.Sprintf("verif-c04-key-%d", len(c04Wallets)))))
		if err != nil {
			panic(err)
		}
		w, _ := wallet.NewFromPrivateKey(sk)
		c04Wallets = append(c04Wallets, w)
	}
	return c04Wallets[i]
}

// decision id -> (block id, part set id); d == 0 is the nil vote of network 1
func c04Decision(d int) ([]byte, *consensus.PartSetID) {
	if d == 0 {
		return codec.MustMarshalToBytes(int32(1)), nil
	}
	bid := crypto.SHA3Sum256([]byte(fmt.Sprintf("verif-c04-block-%d", d>>1)))
	psid := &consensus.PartSetID{Count: uint16(1 + d%3), Hash: crypto.SHA3Sum256([]byte(fmt.Sprintf("verif-c04-ps-%d", d)))}
	return bid, psid
}

var c04VoteCache = map[string]*consensus.VoteMessage{}
var c04DigestID = map[string]int{}

func c04Vote(i, h, r, t, d int, ts int64) *consensus.VoteMessage {
	key := fmt.Sprintf("%d/%d/%d/%d/%d/%d", i, h, r, t, d, ts)
	if v, ok := c04VoteCache[key]; ok {
		return v
	}
	bid, psid := c04Decision(d)
	v := consensus.VerifSignedVote(c04Wallet(i), consensus.VoteType(t), int64(h), int32(r), bid, psid, 0, 0, ts)
	if len(c04VoteCache) > 200000 {
		c04VoteCache = map[string]*consensus.VoteMessage{}
	}
	c04VoteCache[key] = v
	c04DigestID[hex.EncodeToString(consensus.VerifVoteDigest(v))] = d
	return v
}

func c04DigestName(dg []byte) string {
	if d, ok := c04DigestID[hex.EncodeToString(dg)]; ok {
		return strconv.Itoa(d)
	}
	return "?" + hex.EncodeToString(dg)
}

// ---------------------------------------------------------------- runner

type c04Runner struct {
	vs *consensus.VerifVoteSet
	n  int
	// oracle memory: decision seen at a `get`, and its support at that time
	decided    []byte
	decidedCnt int
}

func (r *c04Runner) set() *consensus.VerifVoteSet {
	if r.vs == nil {
		r.vs = consensus.VerifNewVoteSet(0)
		r.n = 0
	}
	return r.vs
}

func c04JoinOr(xs []string, sep string) string {
	if len(xs) == 0 {
		return "-"
	}
	return strings.Join(xs, sep)
}

func (r *c04Runner) dump() string {
	vs := r.set()
	var ctr, mask, slots []string
	for _, c := range vs.Counters() {
		ctr = append(ctr, fmt.Sprintf("%s:%d", c04DigestName(c.Digest), c.Count))
	}
	for i := 0; i < vs.Len(); i++ {
		if vs.MaskGet(i) {
			mask = append(mask, "1")
		} else {
			mask = append(mask, "0")
		}
		m := vs.Msg(i)
		if m == nil {
			slots = append(slots, "_")
		} else {
			slots = append(slots, fmt.Sprintf("%d/%d/%d/%s/%d", m.Height, m.Round, m.Type, c04DigestName(consensus.VerifVoteDigest(m)), m.Timestamp))
		}
	}
	return fmt.Sprintf("mi=%d cnt=%d rnd=%d ctr=%s mask=%s slots=%s", vs.MaxIndex(), vs.Count(), vs.Round(),
		c04JoinOr(ctr, ","), c04JoinOr(mask, ""), c04JoinOr(slots, ","))
}

// recount the slots of the real vote set, independently of its counters
func (r *c04Runner) recount() (map[string]int, int) {
	vs := r.set()
	cnt := map[string]int{}
	filled := 0
	for i := 0; i < vs.Len(); i++ {
		if m := vs.Msg(i); m != nil {
			filled++
			cnt[string(consensus.VerifVoteDigest(m))]++
		}
	}
	return cnt, filled
}

// structural oracle: evaluated after every op, reads only raw state (no cache mutation)
func (r *c04Runner) checkState(o *Oracle) {
	vs := r.set()
	cnt, filled := r.recount()
	o.Check(vs.Count() == filled, "c04-count-not-filled-slots", "count=%d, filled slots=%d", vs.Count(), filled)
	seen := map[string]bool{}
	okc := true
	for _, c := range vs.Counters() {
		k := string(c.Digest)
		if seen[k] || c.Count <= 0 || cnt[k] != c.Count {
			okc = false
		}
		seen[k] = true
	}
	for k := range cnt {
		if !seen[k] {
			okc = false
		}
	}
	o.Check(okc, "c04-counters-differ-from-recount", "counters %v vs recount of slots (%s)", vs.Counters(), r.dump())
	for i := 0; i < vs.Len(); i++ {
		if vs.MaskGet(i) != (vs.Msg(i) != nil) {
			o.Check(false, "c04-mask-differs-from-slots", "mask bit %d", i)
		}
	}
	if r.decided != nil {
		// sticky: the support of a reported decision never shrinks
		c := cnt[string(r.decided)]
		o.Check(c >= r.decidedCnt && 3*c > 2*r.n, "c04-decision-lost-support",
			"decision %s had %d votes, now %d of %d", c04DigestName(r.decided), r.decidedCnt, c, r.n)
		if c > r.decidedCnt {
			r.decidedCnt = c
		}
	}
}

func (r *c04Runner) Step(t []string, o *Oracle) string {
	if len(t) == 0 {
		return "bad-op"
	}
	switch t[0] {
	case "new":
		if len(t) != 2 {
			return "bad-op"
		}
		n, err := strconv.Atoi(t[1])
		if err != nil || n < 0 || n > 64 {
			return "bad-op"
		}
		r.vs = consensus.VerifNewVoteSet(n)
		r.n = n
		r.decided = nil
		o.Count(fmt.Sprintf("n=%d", n))
		return "ok"
	case "add":
		if len(t) != 7 {
			return "bad-op"
		}
		var a [6]int
		for i := range a {
			v, err := strconv.Atoi(t[i+1])
			if err != nil || (i != 2 && i != 5 && v < 0) {
				return "bad-op"
			}
			a[i] = v
		}
		if a[3] > 255 {
			return "bad-op"
		}
		vs := r.set()
		widx := a[0]
		if widx > 70 {
			widx = 70
		}
		v := c04Vote(widx, a[1], a[2], a[3], a[4], int64(a[5]))
		if a[0] >= vs.Len() {
			o.Count("add-out-of-range")
		}
		before := make([]*consensus.VoteMessage, vs.Len())
		for i := range before {
			before[i] = vs.Msg(i)
		}
		added := vs.Add(a[0], v) // panics when out of range (caught by the harness)
		same := true
		for i := range before {
			if before[i] != vs.Msg(i) {
				same = false
			}
		}
		if added {
			if before[a[0]] == nil {
				o.Count("add-fresh")
			} else {
				o.Count("add-replace")
			}
			o.Check(vs.Msg(a[0]) == v, "c04-added-vote-not-stored", "slot %d", a[0])
		} else {
			if before[a[0]] != nil && before[a[0]].EqualExceptSigs(v) {
				o.Count("add-refused-duplicate")
			} else {
				o.Count("add-refused-sticky")
			}
			o.Check(same, "c04-refused-add-changed-slots", "add returned false but slots changed")
		}
		r.checkState(o)
		if added {
			return "1 " + r.dump()
		}
		return "0 " + r.dump()
	case "get":
		vs := r.set()
		rdd, psid, ok := vs.Decision()
		psid2, ok2 := vs.PartSetID()
		cnt, _ := r.recount()
		var maj []byte
		nmaj := 0
		for k, c := range cnt {
			if 3*c > 2*r.n {
				maj = []byte(k)
				nmaj++
			}
		}
		o.Check(nmaj <= 1, "c04-two-majorities", "two digests with +2/3 of %d", r.n)
		if ok {
			o.Count("get-decision")
			o.Check(nmaj == 1 && bytes.Equal(maj, rdd), "c04-decision-without-two-thirds",
				"reported %s with %d of %d slots (%s)", c04DigestName(rdd), cnt[string(rdd)], r.n, r.dump())
			// the part set id is the one of the votes carrying that digest
			for i := 0; i < vs.Len(); i++ {
				if m := vs.Msg(i); m != nil && bytes.Equal(consensus.VerifVoteDigest(m), rdd) {
					o.Check(m.BlockPartSetIDAndNTSVoteCount.ID().Equal(psid), "c04-decision-wrong-partset", "psid %v", psid)
					break
				}
			}
			o.Check(ok2 && psid2.Equal(psid), "c04-partsetid-differs", "getOverTwoThirdsPartSetID differs")
			o.Check(vs.VoteListForOverTwoThirdsLen() == cnt[string(rdd)], "c04-votelist-size", "voteListForOverTwoThirds has %d, recount %d", vs.VoteListForOverTwoThirdsLen(), cnt[string(rdd)])
			if r.decided != nil {
				o.Check(bytes.Equal(r.decided, rdd), "c04-decision-changed", "decision %s replaced by %s", c04DigestName(r.decided), c04DigestName(rdd))
			}
			if d, known := c04DigestID[hex.EncodeToString(rdd)]; known && d == 0 {
				o.Count("get-decision-nil")
			}
			r.decided = rdd
			if cnt[string(rdd)] > r.decidedCnt || r.decidedCnt == 0 {
				r.decidedCnt = cnt[string(rdd)]
			}
		} else {
			o.Count("get-none")
			o.Check(nmaj == 0, "c04-two-thirds-not-reported", "%s has %d of %d slots but no decision reported (%s)", c04DigestName(maj), cnt[string(maj)], r.n, r.dump())
			o.Check(rdd == nil && psid == nil && !ok2 && psid2 == nil, "c04-none-with-values", "not ok but values returned")
			o.Check(r.decided == nil, "c04-decision-removed", "decision %s disappeared", c04DigestName(r.decided))
		}
		r.checkState(o)
		if ok {
			return fmt.Sprintf("dec %s mi=%d", c04DigestName(rdd), vs.MaxIndex())
		}
		return fmt.Sprintf("no mi=%d", vs.MaxIndex())
	case "has":
		vs := r.set()
		h := vs.HasOverTwoThirds()
		_, filled := r.recount()
		o.Check(h == (3*filled > 2*r.n), "c04-has-two-thirds-wrong", "hasOverTwoThirds=%v with %d of %d", h, filled, r.n)
		o.Check(vs.VoteListLen() == filled, "c04-votelist-len", "voteList has %d, filled %d", vs.VoteListLen(), filled)
		if h {
			o.Count("has-true")
			return "1"
		}
		o.Count("has-false")
		return "0"
	}
	return "bad-op"
}
