#!/usr/bin/env python3
"""
verify_mutant.py Cxx k [--no-suite] [--check-only]

Confirms a seeded change produced by an independent sub-agent (in /tmp/mut/Cxx-k-out) in a
fresh scratch worktree of /repo HEAD:
  1. patch applies, `go build ./...` succeeds
  2. the existing test suite still passes (same failing set as the unchanged tree)
  3. the demonstration fails with the change and passes without it
  4. runs `VERIF_REPO=<worktree> ./check Cxx quick` (hook files and uncommitted fixes of /repo's
     working tree are copied into the worktree first) and records whether the check catches it
Keeps the change as /verif/seeded/Cxx-k/{patch.diff,demo/,meta.json}. Removes the worktree.
"""
import json, os, re, shutil, subprocess, sys, time

pid, k = sys.argv[1], sys.argv[2]
opts = set(sys.argv[3:])
OUT = "/tmp/mut/%s-%s-out" % (pid, k)
WT = "/tmp/mutv/%s-%s" % (pid, k)
DEST = "/verif/seeded/%s-%s" % (pid, k)
ENV = dict(os.environ, GOFLAGS="-mod=mod", GOPROXY="off", GOSUMDB="off", GOTOOLCHAIN="local")


def sh(cmd, cwd=None, timeout=3600, env=ENV):
    p = subprocess.run(cmd, shell=True, cwd=cwd, env=env, stdout=subprocess.PIPE, stderr=subprocess.STDOUT, timeout=timeout)
    return p.returncode, p.stdout.decode("utf-8", "replace")


def failing(log):
    pk = set(re.findall(r"^(?:FAIL|---\s*FAIL:?)\s+(\S+)", log, re.M))
    return sorted(x for x in pk if x and x != "FAIL" and "/" not in x)


meta = json.load(open(os.path.join(OUT, "meta.json")))
res = {"property": pid, "variant": k, "agent_meta": meta, "verified_at": time.strftime("%Y-%m-%dT%H:%M:%S")}
os.makedirs("/tmp/mutv", exist_ok=True)
if os.path.isdir(WT):
    sh("git -C /repo worktree remove --force %s" % WT)
rc, o = sh("git -C /repo worktree add --detach %s HEAD" % WT)
assert rc == 0, o
try:
    # bring over the uncommitted state of /repo that belongs to the framework: hook files and fix diffs
    rc, o = sh("git -C /repo status --porcelain")
    for line in o.splitlines():
        st, path = line[:2], line[3:]
        src = os.path.join("/repo", path)
        if os.path.isfile(src):
            os.makedirs(os.path.dirname(os.path.join(WT, path)), exist_ok=True)
            shutil.copyfile(src, os.path.join(WT, path))
    rc, o = sh("git apply --whitespace=nowarn %s" % os.path.join(OUT, "patch.diff"), cwd=WT)
    res["patch_applies"] = rc == 0
    if rc != 0:
        res["error"] = o[-2000:]
        raise SystemExit
    rc, o = sh("go build ./...", cwd=WT)
    res["builds"] = rc == 0
    if rc != 0:
        res["error"] = o[-2000:]
        raise SystemExit
    if "--check-only" not in opts:
        # demo: copy files, must FAIL with the change
        demo = os.path.join(OUT, "demo")
        demo_files = []
        for root, _, files in os.walk(demo):
            for f in files:
                rel = os.path.relpath(os.path.join(root, f), demo)
                os.makedirs(os.path.dirname(os.path.join(WT, rel)) or WT, exist_ok=True)
                shutil.copyfile(os.path.join(root, f), os.path.join(WT, rel))
                demo_files.append(rel)
        res["demo_files"] = demo_files
        cmd = meta.get("demo_cmd", "")
        cmd = re.sub(r"/tmp/mut/%s-%s\b" % (pid, k), WT, cmd)
        cmd = re.sub(r"^\s*cd\s+\S+\s*&&\s*", "", cmd)
        res["demo_cmd"] = cmd
        rc1, o1 = sh(cmd, cwd=WT)
        res["demo_fails_with_change"] = rc1 != 0
        sh("git apply -R --whitespace=nowarn %s" % os.path.join(OUT, "patch.diff"), cwd=WT)
        rc2, o2 = sh(cmd, cwd=WT)
        res["demo_passes_without_change"] = rc2 == 0
        if rc2 != 0:
            res["demo_without_log"] = o2[-1500:]
        sh("git apply --whitespace=nowarn %s" % os.path.join(OUT, "patch.diff"), cwd=WT)
        for f in demo_files:
            os.remove(os.path.join(WT, f))
        if "--no-suite" not in opts:
            t0 = time.time()
            rc, o = sh("go test -vet=off -count=1 -timeout 25m ./... 2>&1 | grep -E '^(FAIL|ok|---)' ", cwd=WT, timeout=3000)
            fl = failing(o)
            base = failing(open("/verif/seeded/_baseline-suite.log").read()) if os.path.exists("/verif/seeded/_baseline-suite.log") else []
            # tests that fail here but not on the unchanged tree: rerun alone (timing-based tests flake under load)
            pend, pkg_of = [], {}
            for line in o.splitlines():
                m1 = re.match(r"^--- FAIL: (\S+)", line)
                m2 = re.match(r"^FAIL\s+(\S+)\s", line)
                if m1:
                    pend.append(m1.group(1))
                elif m2:
                    for t in pend:
                        pkg_of[t] = m2.group(1)
                    pend = []
            flaky = []
            for t in [x for x in fl if x not in base and x in pkg_of]:
                pk = pkg_of[t].replace("github.com/icon-project/goloop", ".")
                for _ in range(2):
                    rc3, o3 = sh("go test -vet=off -count=1 -run '^%s$' %s" % (t.split("/")[0], pk), cwd=WT, timeout=1200)
                    if rc3 == 0:
                        flaky.append(t)
                        break
            res["suite_failing"] = fl
            res["suite_flaky_passed_on_rerun"] = flaky
            res["suite_failing_baseline"] = base
            res["suite_ok"] = set(fl) - set(flaky) <= set(base)
            res["suite_wall_s"] = round(time.time() - t0)
    # run our check against the changed tree
    t0 = time.time()
    rc, o = sh("VERIF_REPO=%s ./check %s quick" % (WT, pid), cwd="/verif", timeout=3000, env=dict(os.environ))
    res["check_quick_exit"] = rc
    res["check_quick_tail"] = o[-1500:]
    res["check_quick_violation_line"] = next((l for l in o.splitlines() if l.startswith("VIOLATION")), None)
    res["check_quick_wall_s"] = round(time.time() - t0)
    res["caught_by_quick"] = rc == 1 and res["check_quick_violation_line"] is not None
    if not res["caught_by_quick"] and "--thorough" in opts:
        rc, o = sh("VERIF_REPO=%s ./check %s thorough" % (WT, pid), cwd="/verif", timeout=6000, env=dict(os.environ))
        res["check_thorough_exit"] = rc
        res["check_thorough_violation_line"] = next((l for l in o.splitlines() if l.startswith("VIOLATION")), None)
        res["caught_by_thorough"] = rc == 1
finally:
    sh("git -C /repo worktree remove --force %s" % WT)
    os.makedirs(DEST, exist_ok=True)
    if os.path.exists(os.path.join(OUT, "patch.diff")):
        shutil.copyfile(os.path.join(OUT, "patch.diff"), os.path.join(DEST, "patch.diff"))
    if os.path.isdir(os.path.join(OUT, "demo")):
        shutil.rmtree(os.path.join(DEST, "demo"), ignore_errors=True)
        shutil.copytree(os.path.join(OUT, "demo"), os.path.join(DEST, "demo"))
    prev = {}
    if os.path.exists(os.path.join(DEST, "meta.json")):
        prev = json.load(open(os.path.join(DEST, "meta.json")))
    if "--check-only" in opts:
        for key in ("demo_fails_with_change", "demo_passes_without_change", "suite_ok", "suite_failing", "suite_failing_baseline", "demo_cmd", "demo_files", "suite_wall_s"):
            if key in prev:
                res[key] = prev[key]
    hist = prev.get("history", [])
    if not hist and "caught_by_quick" in prev:
        hist = [{"at": prev.get("verified_at"), "caught_by_quick": prev.get("caught_by_quick"), "line": prev.get("check_quick_violation_line")}]
    if "caught_by_quick" in res:
        hist.append({"at": res["verified_at"], "caught_by_quick": res.get("caught_by_quick"), "line": res.get("check_quick_violation_line")})
    res["history"] = hist
    json.dump(res, open(os.path.join(DEST, "meta.json"), "w"), indent=1)
    print(json.dumps({k2: v for k2, v in res.items() if k2 not in ("agent_meta", "check_quick_tail")}, indent=1))
