#!/usr/bin/env python3
"""Regenerates /verif/MANIFEST.json from lean/registry/C*.json (one file per property).
A property is claimed when its registry file has "claimed": true."""
import json, os, glob
V = os.path.dirname(os.path.dirname(os.path.abspath(__file__)))
props = [json.loads(l) for l in open(os.path.join(V, "properties.jsonl"))]
regs = {}
for p in glob.glob(os.path.join(V, "lean", "registry", "C*.json")):
    r = json.load(open(p))
    regs[r["id"]] = r
baseline = json.load(open("/root/.vp/BASELINE.json"))["cmd"] if os.path.exists("/root/.vp/BASELINE.json") else ""
hooks_commits = []
hc = os.path.join(V, "hooks_commits.txt")
if os.path.exists(hc):
    hooks_commits = [l.split()[0] for l in open(hc) if l.strip() and not l.startswith("#")]
checks, na = [], []
for p in props:
    pid = p["id"]
    r = regs.get(pid)
    if r and r.get("claimed"):
        partial = [t["name"].split(".")[-1] for t in r.get("theorems", []) if t.get("kind") == "partial"]
        checks.append({
            "property_id": pid,
            "quick_cmd": "./check %s quick" % pid,
            "thorough_cmd": "./check %s thorough" % pid,
            "evidence_file": "/verif/evidence/%s.json" % pid,
            "replay_cmd_template": "./check %s --replay {path}" % pid,
            "engine": "lean-proof+correspondence",
            "level_claimed": {
                "category": "proof",
                "text": r.get("level_text", "Lean 4 theorems about a hand-written model of the anchored code, tied to the source by a differential correspondence run on every check"),
                "design_ref": r.get("design_ref", "DESIGN.md section 6, " + pid),
            },
            "level_note": r.get("level_note", "") or ("trusted: Lean kernel, axioms propext/Classical.choice/Quot.sound at most, the Go harness and its generators; modelled not verified: " + "; ".join(r.get("modelled_not_verified", [])) + ("; partial theorems: " + ", ".join(partial) if partial else "")),
            "technique": r.get("technique", "Lean 4 machine-checked proof over a hand-written model + model/implementation correspondence (differential) check"),
        })
    else:
        na.append({"property_id": pid, "reason": (r or {}).get("na_reason", "no check is registered yet: the Lean model/theorems and correspondence harness for this property have not been built in this round (not a claim that the technique cannot apply)")})
m = {
    "version": 1,
    "setup_cmd": "cd /verif && ./check --setup",
    "hooks": {
        "guard": "verif",
        "enable": "go build -tags verif (the harness module /verif/harness replaces github.com/icon-project/goloop with /repo)",
        "baseline_off_cmd": baseline,
        "source_commits": hooks_commits,
        "add_only": True,
    },
    "engines": [{
        "name": "lean-proof+correspondence", "path": "/verif/check",
        "serves_properties": [c["property_id"] for c in checks],
        "kind_free_text": "Lean 4 theorems (lake build + #print axioms audit + token audit, leanchecker in the thorough tier) over executable models; Go harness runs the real code and the compiled model on the same generated op sequences and evaluates the property on the implementation",
    }],
    "checks": checks,
    "not_applicable": na,
    "notes": "Every claimed check is `./check <id> quick|thorough`; see DESIGN.md. known_findings.json lists recorded/fixed defects.",
}
json.dump(m, open(os.path.join(V, "MANIFEST.json"), "w"), indent=1)
print("claimed:", [c["property_id"] for c in checks])
