#!/usr/bin/env python3
"""Prints the prompt for a seeded-change sub-agent for property Cxx (given ONLY the property record and a scratch worktree)."""
import json, sys, os, subprocess
pid, k = sys.argv[1], (sys.argv[2] if len(sys.argv) > 2 else "1")
rec = next(json.loads(l) for l in open("/verif/properties.jsonl") if json.loads(l)["id"] == pid)
wt = "/tmp/mut/%s-%s" % (pid, k)
out = "/tmp/mut/%s-%s-out" % (pid, k)
if not os.path.isdir(wt):
    subprocess.run(["git", "-C", "/repo", "worktree", "add", "--detach", wt, "HEAD"], check=True, stdout=subprocess.DEVNULL, stderr=subprocess.DEVNULL)
os.makedirs(out, exist_ok=True)
variant = {
 "1": "",
 "2": "Prefer a change that needs a MULTI-STEP history or a particular crash/fault point or interleaving to manifest, or two cooperating sites that each look fine alone. ",
 "3": "Prefer a change in glue code around the core mechanism (parsing, option handling, conversions, caching, boundary conditions at unusual sizes) rather than in its most obvious line. ",
 "4": "Prefer a change made of TWO cooperating sites that each look fine alone (e.g. an invariant established in one function and relied on in another; a field updated in one path but not in its sibling path; an optimisation/cache/buffer reuse that is only wrong after a particular earlier call), or an error/rollback path that leaves partial state. Do not touch the single most obvious comparison or threshold. ",
 "5": "Prefer a change that only matters under concurrency or re-entrancy (a lock scope narrowed, a check moved outside a critical section, a shared buffer, an early return that skips an unlock/notify, ordering of two effects) if the property quantifies over schedules or crash points; otherwise prefer a state-dependent slip that needs an unusual but legal history of API calls (reset/reuse of an object, calls in an unexpected but allowed order, zero/empty/maximum-size values). ",
}.get(k, "")
print(f"""You are helping to evaluate how well a verification tool detects subtle regressions in a Go code base. You get one semantic property of the system and a scratch copy of the repository; your job is to write a realistic code change that BREAKS the property while everything still compiles and the existing tests still pass.

Repository: icon-project/goloop (ICON 2.0 blockchain node in Go), as a scratch git worktree at {wt} . Work ONLY inside {wt} and {out}; do not look at or touch /repo or /verif or any other directory (the point is that your change is independent of the tool under evaluation). No network. In every shell call: `export GOFLAGS=-mod=mod GOPROXY=off GOSUMDB=off GOTOOLCHAIN=local`.

The property (one JSON record):
{json.dumps(rec, indent=1)}

What to produce:
1. A small source change (a few lines, non-test .go files only) to the code in {wt} that makes the property false. It must be REALISTIC — the kind of slip a developer makes in a refactor, optimisation or feature change (off-by-one, wrong variable/receiver, dropped or weakened condition, reordered steps, missing sync/flush, stale cache, wrong boundary, partial update) — not sabotage like deleting a function body. It must need something SPECIFIC to manifest: a particular interleaving, a crash or fault at a particular point, a multi-step sequence of operations, an unusual input or size, or two cooperating sites that each look fine alone; ordinary use / the common path must not expose it at once. {variant}
2. It must still compile (`go build ./...` in {wt}) and the EXISTING tests must still pass: run `go test -vet=off -count=1` for every package you touched and for the packages most likely to notice (the ones listed in the property's anchors and their direct users); if an existing test fails, choose a different change.
3. A demonstration: a new Go test file (e.g. `<pkg>/zz_seeded_demo_test.go`) or a tiny program that FAILS with your change and PASSES on the original code. Verify both directions yourself with `git diff -- <source files> > p.diff; git apply -R p.diff; <run demo: must pass>; git apply p.diff; <run demo: must fail>` (do NOT use `git stash`, `git checkout` of branches, or `git commit`: the git store is shared with other worktrees).
4. Write to {out}/ : `patch.diff` (= `git diff` of the source change ONLY, without the demo file; must apply with `git apply` on a clean checkout), the demo file(s) copied under the same relative path they have in the repo (e.g. {out}/demo/consensus/zz_seeded_demo_test.go), and `meta.json` with keys: property, summary (what was changed and why it breaks the property), needs_to_manifest (what specific input/sequence/interleaving/crash is required), files_changed, demo_cmd (exact command to run the demo from the repo root), commands_run (what you ran to check build + tests, with results).
Do not commit anything. Leave the worktree with your change and demo applied. Your final message: a 5-line summary (what, where, how it manifests, demo command, tests run).""")
