import json,glob,os
for d in sorted(glob.glob('/verif/seeded/*/meta.json')):
    m=json.load(open(d))
    print(os.path.basename(os.path.dirname(d)), 'suite_ok=%s demo=%s/%s caught_quick=%s %s'%(m.get('suite_ok'),m.get('demo_fails_with_change'),m.get('demo_passes_without_change'),m.get('caught_by_quick'),(m.get('check_quick_violation_line') or '')[-40:]), m.get('error','')[:100])
