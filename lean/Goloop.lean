import Goloop.Base.Bytes
import Goloop.Base.Proto
