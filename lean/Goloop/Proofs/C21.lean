import Goloop.Model.C21
import Goloop.Props.C24
namespace Goloop.C21.Proofs
open Goloop Goloop.C21

theorem byteOfNat_toNat (v : Nat) : (byteOfNat v).toNat = v % 256 := by
  simp [byteOfNat]

theorem ofNat_toNat (n : Nat) (h : n < 256) : (UInt8.ofNat n).toNat = n := by
  simp [Nat.mod_eq_of_lt h]

theorem pow_pos256 (n : Nat) : 0 < 256 ^ n := Nat.pow_pos (by decide)

/-! ### the size field of long strings -/

theorem countLoop_spec : ∀ (f b cnt : Nat), b < 256 ^ f →
    ∃ k, countLoop f b cnt = cnt + k ∧ k ≤ f ∧ b < 256 ^ k ∧ (1 ≤ k → 256 ^ (k - 1) ≤ b)
  | 0, b, cnt, h => by
    refine ⟨0, by simp [countLoop], by omega, by simpa using h, by omega⟩
  | f + 1, b, cnt, h => by
    unfold countLoop
    by_cases hb : b > 0
    · simp only [hb, if_true]
      have h' : b / 256 < 256 ^ f := by rw [Nat.pow_succ] at h; omega
      obtain ⟨k, he, hk, hlt, hlow⟩ := countLoop_spec f (b / 256) (cnt + 1) h'
      refine ⟨k + 1, by rw [he]; omega, by omega, ?_, ?_⟩
      · rw [Nat.pow_succ]; omega
      · intro _
        simp only [Nat.add_sub_cancel]
        cases k with
        | zero => simp; omega
        | succ k' =>
          have := hlow (by omega)
          simp only [Nat.add_sub_cancel] at this
          rw [Nat.pow_succ]; omega
    · simp only [hb, if_false]
      have : b = 0 := by omega
      subst this
      exact ⟨0, by simp, by omega, by simp, by omega⟩

/-- the number of size bytes is minimal and at most 8 for Go lengths -/
theorem countBytes_spec (n : Nat) (h1 : 1 ≤ n) (h : n ≤ maxInt) :
    1 ≤ countBytesForSize n ∧ countBytesForSize n ≤ 8 ∧
    n < 256 ^ countBytesForSize n ∧ 256 ^ (countBytesForSize n - 1) ≤ n := by
  unfold countBytesForSize
  have hm : maxInt < 256 ^ 8 := by decide
  have h8 : n / 256 < 256 ^ 8 := by omega
  obtain ⟨k, he, hk, hlt, hlow⟩ := countLoop_spec 8 (n / 256) 1 h8
  rw [he]
  have hlow' : 256 ^ k ≤ n := by
    cases k with
    | zero => simpa using h1
    | succ k' =>
      have := hlow (by omega)
      simp only [Nat.add_sub_cancel] at this
      rw [Nat.pow_succ]; omega
  have hk7 : k ≤ 7 := by
    by_cases hk8 : k ≤ 7
    · exact hk8
    · have : 256 ^ 8 ≤ 256 ^ k := Nat.pow_le_pow_right (by decide) (by omega)
      omega
  refine ⟨by omega, by omega, ?_, ?_⟩
  · rw [Nat.add_comm 1 k, Nat.pow_succ]; omega
  · simpa [Nat.add_comm 1 k] using hlow'

theorem beFixed_length (k n : Nat) : (beFixed k n).length = k := by
  induction k generalizing n with
  | zero => rfl
  | succ k ih => simp [beFixed, ih]

theorem beFixed_beNat (k n : Nat) : beNat (beFixed k n) = n % 256 ^ k := by
  induction k generalizing n with
  | zero => simp [beFixed, beNat, Nat.mod_one]
  | succ k ih =>
    simp only [beFixed]
    rw [beNat_append_singleton, ih, byteOfNat_toNat, Nat.pow_succ, Nat.mul_comm (256 ^ k) 256, Nat.mod_mul]
    omega

theorem beFixed_head (k n : Nat) : ∃ r, beFixed (k + 1) n = byteOfNat (n / 256 ^ k) :: r := by
  induction k generalizing n with
  | zero => exact ⟨[], by simp [beFixed]⟩
  | succ k ih =>
    obtain ⟨r, hr⟩ := ih (n / 256)
    refine ⟨r ++ [byteOfNat n], ?_⟩
    rw [beFixed, hr, Nat.div_div_eq_div_mul, Nat.pow_succ, Nat.mul_comm 256 (256 ^ k)]
    simp

/-! ### one part: parse ∘ encode -/

/-- a part is short enough to be a Go slice -/
def Small (p : Bytes) : Prop := p.length ≤ maxInt

theorem enc_single (x : UInt8) (hx : x.toNat < 0x80) : rlpEncodeBytes [x] = [x] := by
  simp [rlpEncodeBytes, hx]

theorem enc_short (p : Bytes) (h1 : ¬ ∃ x, p = [x] ∧ x.toNat < 0x80) (hshort : p.length ≤ 55) :
    rlpEncodeBytes p = UInt8.ofNat (0x80 + p.length) :: p := by
  unfold rlpEncodeBytes
  match p, h1, hshort with
  | [x], h1, _ =>
    have : ¬ x.toNat < 0x80 := fun hx => h1 ⟨x, rfl, hx⟩
    simp [this]
  | [], _, _ => simp
  | a :: b :: r, _, hshort => simp only [hshort, if_true]

theorem enc_long (p : Bytes) (hlong : ¬ p.length ≤ 55) :
    rlpEncodeBytes p = UInt8.ofNat (0x80 + 55 + countBytesForSize p.length) ::
                   (beFixed (countBytesForSize p.length) p.length ++ p) := by
  unfold rlpEncodeBytes
  match p, hlong with
  | [x], hlong => simp at hlong
  | [], hlong => simp at hlong
  | a :: b :: r, hlong => simp only [hlong, if_false]

theorem parse_enc (p rest : Bytes) (hs : Small p) :
    rlpParseBytes (rlpEncodeBytes p ++ rest) = some (p, rest) := by
  by_cases h1 : ∃ x, p = [x] ∧ x.toNat < 0x80
  · obtain ⟨x, rfl, hx⟩ := h1
    rw [enc_single x hx]
    simp [rlpParseBytes, hx]
  · by_cases hshort : p.length ≤ 55
    · rw [enc_short p h1 hshort]
      have e := ofNat_toNat (0x80 + p.length) (by omega)
      simp only [List.cons_append, rlpParseBytes, e]
      have c1 : ¬ (0x80 + p.length < 0x80) := by omega
      have c2 : 0x80 + p.length < 0xB8 := by omega
      have c3 : 0x80 + p.length - 0x80 = p.length := by omega
      simp only [c1, c2, c3, if_true, if_false]
      have c4 : ¬ (p ++ rest).length < p.length := by simp
      simp [c4]
    · rw [enc_long p hshort]
      have hn1 : 1 ≤ p.length := by omega
      obtain ⟨t1, t8, tlt, tlow⟩ := countBytes_spec p.length hn1 hs
      generalize htl : countBytesForSize p.length = ts at *
      have e := ofNat_toNat (0x80 + 55 + ts) (by omega)
      simp only [List.cons_append, rlpParseBytes, e]
      have c1 : ¬ (0x80 + 55 + ts < 0x80) := by omega
      have c2 : ¬ (0x80 + 55 + ts < 0xB8) := by omega
      have c3 : 0x80 + 55 + ts < 0xC0 := by omega
      have c4 : 0x80 + 55 + ts - 0xb7 = ts := by omega
      simp only [c1, c2, c3, c4, if_true, if_false]
      -- the size field
      have hlen := beFixed_length ts p.length
      have hsz : rlpReadSize (beFixed ts p.length ++ p ++ rest) ts = some p.length := by
        unfold rlpReadSize
        have d1 : ¬ ts > (beFixed ts p.length ++ p ++ rest).length := by
          simp only [List.length_append, hlen]; omega
        have d2 : (beFixed ts p.length ++ p ++ rest).take ts = beFixed ts p.length := by
          rw [List.append_assoc, List.take_left' hlen]
        simp only [d1, if_false, d2, beFixed_beNat, Nat.mod_eq_of_lt tlt]
        obtain ⟨k, hk⟩ : ∃ k, ts = k + 1 := ⟨ts - 1, by omega⟩
        subst hk
        obtain ⟨r, hr⟩ := beFixed_head k p.length
        have hhead : ¬ (beFixed (k + 1) p.length ++ p ++ rest).head? = some 0 := by
          rw [hr]
          simp only [List.cons_append, List.head?_cons, Option.some.injEq]
          intro h0
          have := congrArg UInt8.toNat h0
          rw [byteOfNat_toNat] at this
          simp only [Nat.add_sub_cancel] at tlow
          have hdiv : 1 ≤ p.length / 256 ^ k := (Nat.le_div_iff_mul_le (pow_pos256 k)).mpr (by omega)
          have hdlt : p.length / 256 ^ k < 256 := by
            rw [Nat.div_lt_iff_lt_mul (pow_pos256 k)]
            rw [Nat.pow_succ] at tlt; omega
          have : (p.length / 256 ^ k) % 256 = p.length / 256 ^ k := Nat.mod_eq_of_lt hdlt
          simp at *
          omega
        have d3 : ¬ p.length < 56 := by omega
        have d4 : ¬ p.length > maxInt := by unfold Small at hs; omega
        have hcond : ¬ (p.length < 56 ∨ (beFixed (k + 1) p.length ++ p ++ rest).head? = some 0 ∨ p.length > maxInt) := by
          intro h
          rcases h with h | h | h
          · exact d3 h
          · exact hhead h
          · exact d4 h
        rw [if_neg hcond]
      rw [hsz]
      simp only
      have d5 : (beFixed ts p.length ++ p ++ rest).drop ts = p ++ rest := by
        rw [List.append_assoc, List.drop_left' hlen]
      rw [d5]
      have d6 : ¬ (p ++ rest).length < p.length := by simp
      simp [d6]


/-! ### composite keys -/

def AllSmall (ps : List Bytes) : Prop := ∀ p ∈ ps, Small p

theorem enc_ne_nil (p : Bytes) : rlpEncodeBytes p ≠ [] := by
  by_cases h1 : ∃ x, p = [x] ∧ x.toNat < 0x80
  · obtain ⟨x, rfl, hx⟩ := h1; rw [enc_single x hx]; simp
  · by_cases hshort : p.length ≤ 55
    · rw [enc_short p h1 hshort]; simp
    · rw [enc_long p hshort]; simp

theorem enc_prefix_free (p q r1 r2 : Bytes) (hp : Small p) (hq : Small q)
    (h : rlpEncodeBytes p ++ r1 = rlpEncodeBytes q ++ r2) : p = q ∧ r1 = r2 := by
  have e1 := parse_enc p r1 hp
  have e2 := parse_enc q r2 hq
  rw [h, e2] at e1
  simp only [Option.some.injEq, Prod.mk.injEq] at e1
  exact ⟨e1.1.symm, e1.2.symm⟩

theorem splitKeysF_encode (ps : List Bytes) (hs : AllSmall ps) (fuel : Nat)
    (hf : (encodeParts ps).length ≤ fuel) : splitKeysF fuel (encodeParts ps) = some ps := by
  induction ps generalizing fuel with
  | nil => cases fuel <;> simp [encodeParts, splitKeysF]
  | cons p ps ih =>
    have hp : Small p := hs p (List.mem_cons_self)
    have hps : AllSmall ps := fun q hq => hs q (List.mem_cons_of_mem _ hq)
    simp only [encodeParts] at hf ⊢
    obtain ⟨t, r, hte⟩ : ∃ t r, rlpEncodeBytes p = t :: r := by
      cases he : rlpEncodeBytes p with
      | nil => exact absurd he (enc_ne_nil p)
      | cons t r => exact ⟨t, r, rfl⟩
    cases fuel with
    | zero => rw [hte] at hf; simp at hf
    | succ f =>
      have hlen : (encodeParts ps).length ≤ f := by
        rw [hte] at hf; simp only [List.length_append, List.length_cons] at hf; omega
      have hpar := parse_enc p (encodeParts ps) hp
      rw [hte] at hpar ⊢
      simp only [List.cons_append] at hpar ⊢
      simp only [splitKeysF, hpar, ih hps f hlen]

/-- **splitKeys_appendKeys**: `SplitKeys` inverts the part coding of `AppendKeys` -/
theorem splitKeys_encodeParts (ps : List Bytes) (hs : AllSmall ps) :
    splitKeys (encodeParts ps) = some ps :=
  splitKeysF_encode ps hs _ (Nat.le_refl _)

theorem encodeParts_injective (ps qs : List Bytes) (hp : AllSmall ps) (hq : AllSmall qs)
    (h : encodeParts ps = encodeParts qs) : ps = qs := by
  have e1 := splitKeys_encodeParts ps hp
  have e2 := splitKeys_encodeParts qs hq
  rw [h, e2] at e1
  exact (Option.some.inj e1).symm

theorem encodeParts_append (a b : List Bytes) : encodeParts (a ++ b) = encodeParts a ++ encodeParts b := by
  induction a with
  | nil => simp [encodeParts]
  | cons x xs ih => simp [encodeParts, ih]

theorem appendKeysB_append (k : Bytes) (a b : List Bytes) :
    appendKeysB (appendKeysB k a) b = appendKeysB k (a ++ b) := by
  simp [appendKeysB, encodeParts_append]

theorem appendKeysB_injective (k : Bytes) (ps qs : List Bytes) (hp : AllSmall ps) (hq : AllSmall qs)
    (h : appendKeysB k ps = appendKeysB k qs) : ps = qs := by
  unfold appendKeysB at h
  exact encodeParts_injective ps qs hp hq (List.append_cancel_left h)


/-! ### Int64ToBytes on non-negative values (array sizes and indices) -/

theorem byteOfInt_nat (v : Nat) : (byteOfInt (v : Int)).toNat = v % 256 := by
  unfold byteOfInt
  show (UInt8.ofNat (((v : Int) % 256).toNat)).toNat = _
  have h : ((v : Int) % 256).toNat = v % 256 := by omega
  rw [h]; simp

theorem int64Loop_nonneg : ∀ (f v : Nat) (acc : Bytes), v < 128 * 256 ^ f →
    ∃ pre, int64Loop 0 (f + 1) (v : Int) acc = pre ++ acc ∧ pre.length ≤ f + 1 ∧ beNat pre = v ∧
      ∃ a r, pre = a :: r ∧ a.toNat < 128
  | f, v, acc, hlt => by
    unfold int64Loop
    have hemod : (v : Int).emod 128 = (v : Int) % 128 := rfl
    by_cases hstop : v < 128
    · have hc : (v : Int) - (v : Int).emod 128 = 0 := by rw [hemod]; omega
      simp only [hc, if_true]
      refine ⟨[byteOfInt v], rfl, by simp, ?_, byteOfInt v, [], rfl, ?_⟩
      · simp [beNat, byteOfInt_nat]; omega
      · rw [byteOfInt_nat]; omega
    · have hc : ¬ ((v : Int) - (v : Int).emod 128 = 0) := by rw [hemod]; omega
      simp only [hc, if_false]
      cases f with
      | zero => simp at hlt; omega
      | succ g =>
        have hdiv : (v : Int) / 256 = ((v / 256 : Nat) : Int) := by omega
        rw [hdiv]
        have hlt' : v / 256 < 128 * 256 ^ g := by rw [Nat.pow_succ] at hlt; omega
        obtain ⟨pre, he, hl, hv, a, r, hp, ha⟩ := int64Loop_nonneg g (v / 256) (byteOfInt v :: acc) hlt'
        refine ⟨pre ++ [byteOfInt v], by rw [he]; simp, by simp; omega, ?_, a, r ++ [byteOfInt v], by simp [hp], ha⟩
        rw [beNat_append_singleton, hv, byteOfInt_nat]; omega

theorem int64_nonneg_spec (n : Nat) (h : n < 2 ^ 63) :
    ∃ a r, int64ToBytes (n : Int) = a :: r ∧ beNat (a :: r) = n ∧ (a :: r).length ≤ 8 ∧ a.toNat < 128 := by
  unfold int64ToBytes
  by_cases h0 : n = 0
  · subst h0; exact ⟨0, [], by simp, by simp [beNat], by simp, by decide⟩
  · have hz : ¬ ((n : Int) = 0) := by omega
    have hneg : ¬ ((n : Int) < 0) := by omega
    simp only [hz, hneg, if_false]
    have hlt : n < 128 * 256 ^ 7 := by
      have : (128 : Nat) * 256 ^ 7 = 2 ^ 63 := by decide
      omega
    obtain ⟨pre, he, hl, hv, a, r, hp, ha⟩ := int64Loop_nonneg 7 n [] hlt
    simp only [List.append_nil] at he
    subst hp
    exact ⟨a, r, he, hv, hl, ha⟩

/-- size round trip: `Size()` after `size.Set(n)` -/
theorem safeBytesToInt64_int64ToBytes (n : Nat) (h : n < 2 ^ 63) :
    safeBytesToInt64 (int64ToBytes (n : Int)) = some (n : Int) := by
  obtain ⟨a, r, he, hv, hl, ha⟩ := int64_nonneg_spec n h
  rw [he]
  unfold safeBytesToInt64
  have h1 : ¬ (a :: r).length > 8 := by omega
  have h2 : ¬ a.toNat ≥ 128 := by omega
  simp only [h1, h2, if_false, hv]

theorem int64ToBytes_inj_nonneg (i j : Nat) (hi : i < 2 ^ 63) (hj : j < 2 ^ 63)
    (h : int64ToBytes (i : Int) = int64ToBytes (j : Int)) : i = j := by
  have e1 := safeBytesToInt64_int64ToBytes i hi
  have e2 := safeBytesToInt64_int64ToBytes j hj
  rw [h, e2] at e1
  have := Option.some.inj e1
  omega

theorem int64ToBytes_small (n : Nat) (h : n < 2 ^ 63) : Small (int64ToBytes (n : Int)) := by
  obtain ⟨a, r, he, _, hl, _⟩ := int64_nonneg_spec n h
  rw [he]; unfold Small maxInt; omega

theorem int64ToBytes_ne_nil (n : Nat) (h : n < 2 ^ 63) : int64ToBytes (n : Int) ≠ [] := by
  obtain ⟨a, r, he, _, _, _⟩ := int64_nonneg_spec n h
  rw [he]; simp

/-! ### the store -/

theorem sget_sdel (s : Store) (k k' : Bytes) :
    sget (sdel s k) k' = if k = k' then none else sget s k' := by
  induction s with
  | nil => simp [sdel, sget]
  | cons e r ih =>
    obtain ⟨ke, ve⟩ := e
    unfold sdel at ih ⊢
    by_cases h1 : ke = k
    · subst h1
      simp only [List.filter_cons, ne_eq, not_true_eq_false, decide_false, Bool.false_eq_true, if_false]
      rw [ih]
      by_cases h2 : ke = k'
      · simp [h2]
      · simp [h2, sget]
    · simp only [List.filter_cons, ne_eq, h1, not_false_eq_true, decide_true, if_true]
      by_cases h2 : k = k'
      · subst h2
        simp only [sget, h1, if_false, if_true]
        rw [ih]; simp
      · simp only [sget, h2, if_false]
        rw [ih]; simp [h2]

theorem sget_sset (s : Store) (k k' : Bytes) (v : Bytes) :
    sget (sset s k v) k' = if k = k' then some v else sget s k' := by
  unfold sset
  by_cases h : k = k'
  · simp [sget, h]
  · simp only [sget, h, if_false]
    rw [sget_sdel]; simp [h]


/-! ### ArrayDB -/

theorem arrSize_of_slot (H : Bytes → Bytes) (kb : KB) (s : Store) (n : Nat) (hn : n < 2 ^ 63)
    (h : sget s (sizeKey H kb) = some (int64ToBytes (n : Int))) : arrSize H s kb = some (n : Int) := by
  unfold arrSize; rw [h]; simp only [Option.getD_some]
  exact safeBytesToInt64_int64ToBytes n hn

theorem arr_put (H : Bytes → Bytes) (kb : KB) (s : Store) (l : List Bytes) (v : Bytes)
    (hk : ArrKeysOk H kb) (hr : ArrRep H kb s l) (hb : l.length + 1 < 2 ^ 63) :
    ∃ s', arrPut H s kb v = some s' ∧ ArrRep H kb s' (l ++ [v]) ∧
      ∀ k, ArrForeign H kb k → sget s' k = sget s k := by
  obtain ⟨hsz, hel⟩ := hr
  have hcast : ((l.length : Nat) : Int) + 1 = ((l.length + 1 : Nat) : Int) := by omega
  refine ⟨sset (sset s (elemKey H kb l.length) v) (sizeKey H kb) (int64ToBytes ((l.length : Int) + 1)),
    by simp only [arrPut, hsz], ⟨?_, ?_⟩, ?_⟩
  · rw [hcast]
    have := arrSize_of_slot H kb (sset (sset s (elemKey H kb l.length) v) (sizeKey H kb)
      (int64ToBytes ((l.length + 1 : Nat) : Int))) (l.length + 1) hb (by rw [sget_sset]; simp)
    simpa using this
  · intro i hi
    simp only [List.length_append, List.length_cons, List.length_nil] at hi
    have hi63 : i < 2 ^ 63 := by omega
    simp only [arrGet]
    rw [sget_sset, if_neg (fun e => hk.2 i hi63 e.symm), sget_sset]
    by_cases he : i = l.length
    · subst he; simp
    · have hne : ¬ elemKey H kb (l.length : Int) = elemKey H kb (i : Int) :=
        fun e => he (hk.1 l.length i (by omega) hi63 e).symm
      rw [if_neg hne]
      have hil : i < l.length := by omega
      have := hel i hil
      simp only [arrGet] at this
      rw [this, List.getElem?_append_left hil]
  · intro k hf
    rw [sget_sset, if_neg (fun e => hf.1 e.symm), sget_sset,
      if_neg (fun e => hf.2 l.length (by omega) e.symm)]

theorem arr_set (H : Bytes → Bytes) (kb : KB) (s : Store) (l : List Bytes) (i : Int) (v : Bytes)
    (hk : ArrKeysOk H kb) (hr : ArrRep H kb s l) (hb : l.length < 2 ^ 63) :
    (arrStep H kb s (.set i v)).2 = (listStep l (.set i v)).2 ∧
    ArrRep H kb (arrStep H kb s (.set i v)).1 (listStep l (.set i v)).1 ∧
    ∀ k, ArrForeign H kb k → sget (arrStep H kb s (.set i v)).1 k = sget s k := by
  obtain ⟨hsz, hel⟩ := hr
  simp only [arrStep, arrSet, hsz, listStep]
  by_cases hout : i < 0 ∨ i ≥ (l.length : Int)
  · simp only [hout, if_true]
    exact ⟨by simp, ⟨hsz, hel⟩, by simp⟩
  · simp only [hout, if_false, if_true]
    have hi0 : 0 ≤ i := by omega
    obtain ⟨n, rfl⟩ : ∃ n : Nat, i = (n : Int) := ⟨i.toNat, by omega⟩
    have hn : n < l.length := by omega
    have hn63 : n < 2 ^ 63 := by omega
    refine ⟨trivial, ⟨?_, ?_⟩, ?_⟩
    · simp only [List.length_set]
      unfold arrSize
      rw [sget_sset, if_neg (hk.2 n hn63)]
      exact hsz
    · intro j hj
      simp only [List.length_set] at hj
      simp only [arrGet, Int.toNat_natCast]
      rw [sget_sset]
      by_cases he : n = j
      · subst he; simp [hn]
      · have hne : ¬ elemKey H kb (n : Int) = elemKey H kb (j : Int) :=
          fun e => he (hk.1 n j hn63 (by omega) e)
        rw [if_neg hne]
        have := hel j hj
        simp only [arrGet] at this
        rw [this, List.getElem?_set_ne he]
    · intro k hf
      rw [sget_sset, if_neg (fun e => hf.2 n hn63 e.symm)]

theorem arr_pop (H : Bytes → Bytes) (kb : KB) (s : Store) (l : List Bytes)
    (hk : ArrKeysOk H kb) (hr : ArrRep H kb s l) (hb : l.length < 2 ^ 63) :
    (arrStep H kb s .pop).2 = (listStep l .pop).2 ∧
    ArrRep H kb (arrStep H kb s .pop).1 (listStep l .pop).1 ∧
    ∀ k, ArrForeign H kb k → sget (arrStep H kb s .pop).1 k = sget s k := by
  obtain ⟨hsz, hel⟩ := hr
  simp only [arrStep, arrPop, hsz, listStep]
  by_cases h0 : l.length = 0
  · have hl : l = [] := List.length_eq_zero_iff.mp h0
    subst hl
    simp only [List.length_nil, Int.natCast_zero, if_true, List.getLast?_nil]
    exact ⟨by simp, ⟨hsz, hel⟩, by simp⟩
  · have hne0 : ¬ ((l.length : Int) = 0) := by omega
    simp only [hne0, if_false]
    have hcast : (l.length : Int) - 1 = ((l.length - 1 : Nat) : Int) := by omega
    rw [hcast]
    have hlast : l.length - 1 < l.length := by omega
    have hget := hel (l.length - 1) hlast
    simp only [arrGet] at hget
    have hgl : l.getLast? = l[l.length - 1]? := List.getLast?_eq_getElem?
    obtain ⟨x, hx⟩ : ∃ x, l[l.length - 1]? = some x := ⟨l[l.length - 1], List.getElem?_eq_getElem hlast⟩
    rw [hgl, hx]
    simp only
    have h63 : l.length - 1 < 2 ^ 63 := by omega
    by_cases h1 : (l.length : Int) > 1
    · simp only [h1, if_true]
      refine ⟨by rw [hget, hx], ⟨?_, ?_⟩, ?_⟩
      · simp only [List.length_dropLast]
        exact arrSize_of_slot H kb _ (l.length - 1) h63 (by rw [sget_sset]; simp)
      · intro j hj
        simp only [List.length_dropLast] at hj
        have hj63 : j < 2 ^ 63 := by omega
        simp only [arrGet]
        rw [sget_sset, if_neg (fun e => hk.2 j hj63 e.symm), sget_sdel]
        have hne : ¬ elemKey H kb ((l.length - 1 : Nat) : Int) = elemKey H kb (j : Int) :=
          fun e => by have := hk.1 (l.length - 1) j h63 hj63 e; omega
        rw [if_neg hne]
        have := hel j (by omega)
        simp only [arrGet] at this
        rw [this, List.getElem?_dropLast]
        simp [hj]
      · intro k hf
        rw [sget_sset, if_neg (fun e => hf.1 e.symm), sget_sdel, if_neg (fun e => hf.2 _ h63 e.symm)]
    · simp only [h1, if_false]
      have hlen1 : l.length = 1 := by omega
      refine ⟨by rw [hget, hx], ⟨?_, ?_⟩, ?_⟩
      · simp only [List.length_dropLast, hlen1]
        unfold arrSize
        rw [sget_sdel]; simp [safeBytesToInt64]
      · intro j hj
        simp only [List.length_dropLast, hlen1] at hj
        omega
      · intro k hf
        rw [sget_sdel, if_neg (fun e => hf.1 e.symm), sget_sdel, if_neg (fun e => hf.2 _ h63 e.symm)]

theorem arr_step (H : Bytes → Bytes) (kb : KB) (s : Store) (l : List Bytes) (o : ArrOp)
    (hk : ArrKeysOk H kb) (hr : ArrRep H kb s l) (hb : l.length + 1 < 2 ^ 63) :
    (arrStep H kb s o).2 = (listStep l o).2 ∧
    ArrRep H kb (arrStep H kb s o).1 (listStep l o).1 ∧
    ∀ k, ArrForeign H kb k → sget (arrStep H kb s o).1 k = sget s k := by
  cases o with
  | put v =>
    obtain ⟨s', he, hr', hf⟩ := arr_put H kb s l v hk hr hb
    simp only [arrStep, he, listStep]
    exact ⟨trivial, hr', hf⟩
  | pop => exact arr_pop H kb s l hk hr (by omega)
  | set i v => exact arr_set H kb s l i v hk hr (by omega)

theorem listStep_length (l : List Bytes) (o : ArrOp) : (listStep l o).1.length ≤ l.length + 1 := by
  cases o with
  | put v => simp [listStep]
  | pop =>
    simp only [listStep]
    cases l.getLast? <;> simp <;> omega
  | set i v =>
    simp only [listStep]
    split <;> simp

theorem arr_run (H : Bytes → Bytes) (kb : KB) (ops : List ArrOp) (s : Store) (l : List Bytes)
    (hk : ArrKeysOk H kb) (hr : ArrRep H kb s l) (hb : l.length + ops.length < 2 ^ 63) :
    (arrRun H kb s ops).2 = (listRun l ops).2 ∧
    ArrRep H kb (arrRun H kb s ops).1 (listRun l ops).1 ∧
    ∀ k, ArrForeign H kb k → sget (arrRun H kb s ops).1 k = sget s k := by
  induction ops generalizing s l with
  | nil => exact ⟨by simp [arrRun, listRun], hr, by simp [arrRun]⟩
  | cons o r ih =>
    simp only [List.length_cons] at hb
    obtain ⟨h1, h2, h3⟩ := arr_step H kb s l o hk hr (by omega)
    have hlen := listStep_length l o
    obtain ⟨g1, g2, g3⟩ := ih (arrStep H kb s o).1 (listStep l o).1 h2 (by omega)
    simp only [arrRun, listRun]
    refine ⟨by rw [h1, g1], g2, fun k hf => by rw [g3 k hf, h3 k hf]⟩


/-! ### key sets of the builders -/

theorem appendKeysB_single_ne (b x : Bytes) : appendKeysB b [x] ≠ b := by
  intro h
  have := congrArg List.length h
  simp only [appendKeysB, encodeParts, List.length_append, List.append_nil] at this
  have hne := enc_ne_nil x
  cases he : rlpEncodeBytes x with
  | nil => exact hne he
  | cons t r => rw [he] at this; simp at this

theorem appendKeysB_single_inj (b x y : Bytes) (hx : Small x) (hy : Small y)
    (h : appendKeysB b [x] = appendKeysB b [y]) : x = y := by
  have := appendKeysB_injective b [x] [y] (by intro p hp; simp at hp; subst hp; exact hx)
    (by intro p hp; simp at hp; subst hp; exact hy) h
  simpa using this

theorem arrKeysOk_rlp (H : Bytes → Bytes) (b : Bytes) : ArrKeysOk H (.rlp b) := by
  constructor
  · intro i j hi hj h
    simp only [elemKey, KB.append, KB.build] at h
    exact int64ToBytes_inj_nonneg i j hi hj
      (appendKeysB_single_inj b _ _ (int64ToBytes_small i hi) (int64ToBytes_small j hj) h)
  · intro i hi h
    simp only [elemKey, sizeKey, KB.append, KB.build] at h
    exact appendKeysB_single_ne b _ h

theorem arrKeysOk_raw (H : Bytes → Bytes) (b : Bytes) : ArrKeysOk H (.raw b) := by
  constructor
  · intro i j hi hj h
    simp only [elemKey, KB.append, KB.build, appendRawKeysB, concatParts, List.append_nil] at h
    exact int64ToBytes_inj_nonneg i j hi hj (List.append_cancel_left h)
  · intro i hi h
    simp only [elemKey, sizeKey, KB.append, KB.build, appendRawKeysB, concatParts, List.append_nil] at h
    have := congrArg List.length h
    simp only [List.length_append] at this
    have hne := int64ToBytes_ne_nil i hi
    cases he : int64ToBytes (i : Int) with
    | nil => exact hne he
    | cons t r => rw [he] at this; simp at this

/-- the pre-hash keys of one array -/
def ArrPre (pre : Bytes) (x : Bytes) : Prop :=
  x = pre ∨ ∃ i : Nat, i < 2 ^ 63 ∧ x = appendKeysB pre [int64ToBytes (i : Int)]

theorem arrKeysOk_hash (H : Bytes → Bytes) (pre : Bytes) (hH : HInjOn H (ArrPre pre)) :
    ArrKeysOk H (.hash pre) := by
  constructor
  · intro i j hi hj h
    simp only [elemKey, KB.append, KB.build] at h
    have := hH _ _ (Or.inr ⟨i, hi, rfl⟩) (Or.inr ⟨j, hj, rfl⟩) h
    exact int64ToBytes_inj_nonneg i j hi hj
      (appendKeysB_single_inj pre _ _ (int64ToBytes_small i hi) (int64ToBytes_small j hj) this)
  · intro i hi h
    simp only [elemKey, sizeKey, KB.append, KB.build] at h
    exact appendKeysB_single_ne pre _ (hH _ _ (Or.inr ⟨i, hi, rfl⟩) (Or.inl rfl) h)

theorem arrKeysOk_phash (H : Bytes → Bytes) (rp hp : Bytes) (hH : HInjOn H (ArrPre hp))
    (hlen : ∀ x, Small (H x)) : ArrKeysOk H (.phash rp hp) := by
  constructor
  · intro i j hi hj h
    simp only [elemKey, KB.append, KB.build] at h
    have h1 := appendKeysB_single_inj rp _ _ (hlen _) (hlen _) h
    have := hH _ _ (Or.inr ⟨i, hi, rfl⟩) (Or.inr ⟨j, hj, rfl⟩) h1
    exact int64ToBytes_inj_nonneg i j hi hj
      (appendKeysB_single_inj hp _ _ (int64ToBytes_small i hi) (int64ToBytes_small j hj) this)
  · intro i hi h
    simp only [elemKey, sizeKey, KB.append, KB.build] at h
    have h1 := appendKeysB_single_inj rp _ _ (hlen _) (hlen _) h
    exact appendKeysB_single_ne hp _ (hH _ _ (Or.inr ⟨i, hi, rfl⟩) (Or.inl rfl) h1)

/-! ### DictDB -/

theorem dictKeysOk_rlp (H : Bytes → Bytes) (b : Bytes) (depth : Int) :
    DictKeysOk H ⟨.rlp b, depth⟩ AllSmall := by
  intro ks ks' h1 h2 h
  simp only [entryKey, KB.append, KB.build] at h
  exact appendKeysB_injective b ks ks' h1 h2 h

theorem dictKeysOk_hash (H : Bytes → Bytes) (pre : Bytes) (depth : Int)
    (hH : HInjOn H (fun x => ∃ ks, AllSmall ks ∧ x = appendKeysB pre ks)) :
    DictKeysOk H ⟨.hash pre, depth⟩ AllSmall := by
  intro ks ks' h1 h2 h
  simp only [entryKey, KB.append, KB.build] at h
  exact appendKeysB_injective pre ks ks' h1 h2 (hH _ _ ⟨ks, h1, rfl⟩ ⟨ks', h2, rfl⟩ h)

theorem dict_get_set (H : Bytes → Bytes) (d : Dict) (P : List Bytes → Prop) (s : Store)
    (ks ks' : List Bytes) (v : Bytes) (hk : DictKeysOk H d P) (h1 : P ks) (h2 : P ks')
    (hl : (ks.length : Int) = d.depth) (hl' : (ks'.length : Int) = d.depth) :
    (dictSet H s d ks v).2 = true ∧
    dictGet H (dictSet H s d ks v).1 d ks' = if ks = ks' then some v else dictGet H s d ks' := by
  have c1 : ¬ ((ks.length : Int) + 1 ≠ d.depth + 1) := by omega
  have c2 : ¬ ((ks'.length : Int) ≠ d.depth) := by omega
  simp only [dictSet, c1, if_false, dictGet, c2, sget_sset, true_and]
  by_cases he : ks = ks'
  · subst he; simp
  · have : ¬ (d.kb.append ks).build H = (d.kb.append ks').build H := fun e => he (hk ks ks' h1 h2 e)
    simp [he, this]

theorem dict_get_del (H : Bytes → Bytes) (d : Dict) (P : List Bytes → Prop) (s : Store)
    (ks ks' : List Bytes) (hk : DictKeysOk H d P) (h1 : P ks) (h2 : P ks')
    (hl : (ks.length : Int) = d.depth) (hl' : (ks'.length : Int) = d.depth) :
    (dictDel H s d ks).2 = true ∧
    dictGet H (dictDel H s d ks).1 d ks' = if ks = ks' then none else dictGet H s d ks' := by
  have c1 : ¬ ((ks.length : Int) ≠ d.depth) := by omega
  have c2 : ¬ ((ks'.length : Int) ≠ d.depth) := by omega
  simp only [dictDel, c1, if_false, dictGet, c2, sget_sdel, true_and]
  by_cases he : ks = ks'
  · subst he; simp
  · have : ¬ (d.kb.append ks).build H = (d.kb.append ks').build H := fun e => he (hk ks ks' h1 h2 e)
    simp [he, this]

def DictOpOk (d : Dict) (P : List Bytes → Prop) : DictOp → Prop
  | .set ks _ => P ks ∧ (ks.length : Int) = d.depth
  | .del ks => P ks ∧ (ks.length : Int) = d.depth

theorem dict_run (H : Bytes → Bytes) (d : Dict) (P : List Bytes → Prop) (ops : List DictOp) (s : Store)
    (hk : DictKeysOk H d P) (hok : ∀ o ∈ ops, DictOpOk d P o)
    (ks : List Bytes) (h2 : P ks) (hl : (ks.length : Int) = d.depth) :
    dictGet H (ops.foldl (dictStep H d) s) d ks =
      (ops.foldl mapStep (fun k => dictGet H s d k)) ks := by
  induction ops generalizing s with
  | nil => rfl
  | cons o r ih =>
    simp only [List.foldl_cons]
    rw [ih (dictStep H d s o) (fun o' ho' => hok o' (List.mem_cons_of_mem _ ho'))]
    have ho := hok o (List.mem_cons_self)
    -- the two starting maps agree on every valid key tuple; foldl only ever looks at `ks`-shaped keys
    have hagree : ∀ k, P k → (k.length : Int) = d.depth →
        dictGet H (dictStep H d s o) d k = mapStep (fun k => dictGet H s d k) o k := by
      intro k hk2 hkl
      cases o with
      | set a v => exact (dict_get_set H d P s a k v hk ho.1 hk2 ho.2 hkl).2
      | del a => exact (dict_get_del H d P s a k hk ho.1 hk2 ho.2 hkl).2
    -- generalise: folding the same ops over two maps that agree on valid keys agrees on valid keys
    have hfold : ∀ (r : List DictOp) (m1 m2 : List Bytes → Option Bytes),
        (∀ k, P k → (k.length : Int) = d.depth → m1 k = m2 k) →
        ∀ k, P k → (k.length : Int) = d.depth → (r.foldl mapStep m1) k = (r.foldl mapStep m2) k := by
      intro r
      induction r with
      | nil => intro m1 m2 h k a b; exact h k a b
      | cons o' r' ih' =>
        intro m1 m2 h k a b
        simp only [List.foldl_cons]
        apply ih' (mapStep m1 o') (mapStep m2 o') _ k a b
        intro k' a' b'
        cases o' with
        | set x v =>
          simp only [mapStep]
          split
          · rfl
          · exact h k' a' b'
        | del x =>
          simp only [mapStep]
          split
          · rfl
          · exact h k' a' b'
    exact hfold r _ _ hagree ks h2 hl

theorem kb_append_append (kb : KB) (a b : List Bytes) : (kb.append a).append b = kb.append (a ++ b) := by
  have hc : ∀ (x y : List Bytes), concatParts (x ++ y) = concatParts x ++ concatParts y := by
    intro x y; induction x with
    | nil => simp [concatParts]
    | cons p ps ih => simp [concatParts, ih]
  cases kb with
  | hash pre => simp [KB.append, appendKeysB_append]
  | phash rp hp => simp [KB.append, appendKeysB_append]
  | rlp x => simp [KB.append, appendKeysB_append]
  | raw x => simp [KB.append, appendRawKeysB, hc]

/-! ### container paths -/

theorem prekey_eq_iff (pre : Bytes) (p q : Path) (hp : AllSmall p.parts) (hq : AllSmall q.parts) :
    p.preKey pre = q.preKey pre ↔ p.parts = q.parts := by
  constructor
  · intro h; exact appendKeysB_injective pre _ _ hp hq h
  · intro h; simp [Path.preKey, h]

/-! ### the integer encoders are those of C24 (`common/intconv`), whose round-trip theorems give injectivity -/

theorem int64Loop_eq_c24 (t : Int) : ∀ (f : Nat) (v : Int) (acc : Bytes),
    int64Loop t f v acc = Goloop.C24.int64Loop t f v acc
  | 0, _, _ => rfl
  | f + 1, v, acc => by
    simp only [int64Loop, Goloop.C24.int64Loop, byteOfInt, Goloop.C24.byteOfInt,
      int64Loop_eq_c24 t f]

theorem int64ToBytes_eq_c24 (v : Int) : int64ToBytes v = Goloop.C24.int64ToBytes v := by
  simp only [int64ToBytes, Goloop.C24.int64ToBytes, int64Loop_eq_c24]

theorem natBytesAux_eq_c24 : ∀ (f v : Nat) (acc : Bytes),
    natBytesAux f v acc = Goloop.C24.natBytesAux f v acc
  | 0, _, _ => rfl
  | f + 1, v, acc => by
    simp only [natBytesAux, Goloop.C24.natBytesAux, byteOfNat, Goloop.C24.byteOfNat,
      natBytesAux_eq_c24 f]

theorem natBytes_eq_c24 (v : Nat) : natBytes v = Goloop.C24.natBytes v := by
  simp only [natBytes, Goloop.C24.natBytes, natBytesAux_eq_c24]

theorem bitLen_eq_c24 (v : Nat) : bitLen v = Goloop.C24.bitLen v := rfl

theorem bigIntToBytes_eq_c24 (i : Int) : bigIntToBytes i = Goloop.C24.bigIntToBytes i := by
  simp only [bigIntToBytes, Goloop.C24.bigIntToBytes, natBytes_eq_c24, bitLen_eq_c24]

/-- `Int64ToBytes` is injective on the whole int64 range (negative values included) -/
theorem int64ToBytes_inj (i j : Int) (hi : -(2:Int)^63 ≤ i ∧ i < (2:Int)^63)
    (hj : -(2:Int)^63 ≤ j ∧ j < (2:Int)^63) (h : int64ToBytes i = int64ToBytes j) : i = j := by
  rw [int64ToBytes_eq_c24, int64ToBytes_eq_c24] at h
  have e1 := Goloop.C24.int64_roundtrip i hi
  have e2 := Goloop.C24.int64_roundtrip j hj
  rw [h, e2] at e1
  exact (Option.some.inj e1).symm

/-- `BigIntToBytes` is injective on all integers -/
theorem bigIntToBytes_inj (i j : Int) (h : bigIntToBytes i = bigIntToBytes j) : i = j := by
  rw [bigIntToBytes_eq_c24, bigIntToBytes_eq_c24] at h
  have e := congrArg Goloop.C24.bigIntSetBytes h
  rwa [Goloop.C24.big_roundtrip, Goloop.C24.big_roundtrip] at e

/-- on the int64 range `ToBytes` of an `int` and of a `*big.Int` with the same value coincide -/
theorem int64ToBytes_eq_bigIntToBytes (v : Int) (h : -(2:Int)^63 ≤ v ∧ v < (2:Int)^63) :
    int64ToBytes v = bigIntToBytes v := by
  rw [int64ToBytes_eq_c24, bigIntToBytes_eq_c24]; exact Goloop.C24.int64_eq_big v h

end Goloop.C21.Proofs
