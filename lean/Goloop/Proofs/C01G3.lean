/-
  Proofs/C01G3 — G3 (the lock rule) and the Finalize rule for the transcribed machine (no crash).

  G3: after the machine signed a non-nil precommit (h, r, b), it signs a prevote (h, r', x) with
  r < r' and x ≠ b (nil included) only if, BEFORE signing it, it knew +2/3 prevotes of distinct
  validators (h, r'', y) for some r < r'' ≤ r' and some y ≠ b (nil included).
  Finalize: a `finalize h b` effect is emitted only when +2/3 precommits (h, r, b) of distinct
  validators for ONE round r are known to the machine.

  The invariant `H3` is about lockedBlock / lockedRound: every own non-nil precommit (r, b) of the
  current height is *covered*: the machine is still locked on b with lockedRound ≥ r, or an unlocking
  polka (r'' > r, y ≠ b) is known.  All trace-level statements (g3, g2) speak about the messages
  signed strictly before the vote in question (`pre`), so the timing is exact.
-/
import Goloop.Proofs.C01G2
namespace Goloop.C01

/-! ### known quorums -/

/-- +2/3 distinct validators whose vote (h, t, r, y) the machine knows of (`y` may be nil) -/
def quorumKnown (L : List VoteRec) (n : Nat) (sent : List Msg) (h : Nat) (t : VType) (r : Nat)
    (y : Option Blk) : Prop :=
  (List.range n).countP (fun i => decide (Known L sent ⟨i, h, t, r, y⟩)) > n * 2 / 3

theorem polkaKnown_iff_quorumKnown (L : List VoteRec) (n : Nat) (sent : List Msg) (h r : Nat) (b : Blk) :
    polkaKnown L n sent h r b ↔ quorumKnown L n sent h .prevote r (some b) := Iff.rfl

theorem quorumKnown_mono {L L' : List VoteRec} {n : Nat} {sent sent' : List Msg} {h : Nat} {t : VType}
    {r : Nat} {y : Option Blk} (hL : ∀ x, x ∈ L → x ∈ L') (hs : ∀ m, m ∈ sent → m ∈ sent')
    (hq : quorumKnown L n sent h t r y) : quorumKnown L' n sent' h t r y := by
  unfold quorumKnown at *
  have := countP_mono_imp (List.range n)
    (fun i => decide (Known L sent ⟨i, h, t, r, y⟩))
    (fun i => decide (Known L' sent' ⟨i, h, t, r, y⟩))
    (by
      intro x hx
      simp only [decide_eq_true_eq] at hx ⊢
      rcases hx with hx | hx
      · exact Or.inl (hL _ hx)
      · exact Or.inr (hs _ hx))
  omega

theorem quorumKnown_append {L : List VoteRec} {n : Nat} {sent : List Msg} (ms : List Msg) {h : Nat} {t : VType}
    {r : Nat} {y : Option Blk} (hq : quorumKnown L n sent h t r y) : quorumKnown L n (sent ++ ms) h t r y :=
  quorumKnown_mono (fun _ hx => hx) (fun _ hm => List.mem_append_left _ hm) hq

/-- a +2/3 decision of a vote set of the machine is a known quorum -/
theorem quorum_of_decision {L : List VoteRec} (s : S) (hh : H2 L s) (r : Nat) (t : VType) (y : Option Blk)
    (hd : (votesFor s.hvs r t).decision s.n = some y) :
    quorumKnown L s.n (sentOf s.eff) s.height t r y := by
  have hcnt := decision_count _ _ _ hd
  unfold quorumKnown
  refine Nat.lt_of_lt_of_le hcnt (countFor_le s.n _ y _ (hh.hv _ _).1 ?_)
  intro e he heq
  simp only [decide_eq_true_eq]
  have := (hh.hv r t).2 e he
  rw [heq] at this
  exact this

/-! ### the invariant -/

/-- own non-nil precommit (r, b) of the current height is covered -/
def Covered (L : List VoteRec) (s : S) (R r : Nat) (b : Blk) : Prop :=
  (s.locked.map (·.1) = some b ∧ (r : Int) ≤ s.lockedRound) ∨
  ∃ r'' y, r < r'' ∧ r'' ≤ R ∧ y ≠ some b ∧ quorumKnown L s.n (sentOf s.eff) s.height .prevote r'' y

def LockInv (L : List VoteRec) (R : Nat) (s : S) : Prop :=
  s.stuck = false → ∀ v b, Msg.vote v ∈ sentOf s.eff → v.typ = .precommit → v.val = some b →
    v.height = s.height → Covered L s R v.round b

/-- an ImportBlock callback of the current round that may still sign the prevote: not locked -/
def ImpInv (s : S) : Prop :=
  s.stuck = false → ∀ b, s.pend = .import_ s.height s.round b → s.step ≤ stPrevoteWait → s.locked = none

/-- in step commit the block being committed has a known +2/3 precommit quorum of one round -/
def ComInv (L : List VoteRec) (s : S) : Prop :=
  s.stuck = false → s.step = stCommit →
    ∃ r b, s.cur.id = some b ∧ quorumKnown L s.n (sentOf s.eff) s.height .precommit r (some b)

theorem append_singleton_eq_append_cons {α : Type} {l pre post : List α} {m x : α}
    (h : l ++ [m] = pre ++ x :: post) :
    (post = [] ∧ pre = l ∧ x = m) ∨ (∃ post', post = post' ++ [m] ∧ l = pre ++ x :: post') := by
  rcases List.eq_nil_or_concat post with rfl | ⟨post', y, rfl⟩
  · left
    have := List.append_inj' h (by simp)
    simp at this
    exact ⟨rfl, this.1.symm, this.2.symm⟩
  · right
    have h' : l ++ [m] = (pre ++ x :: post') ++ [y] := by simpa using h
    have := List.append_inj' h' (by simp)
    simp at this
    refine ⟨post', by simp [this.2], this.1⟩

/-! ### trace facts about effects other than signed messages, stated PREFIX-WISE (closed under the
    crash cut): the Finalize rule and "every vote list written to a WAL holds known votes" -/

/-- a vote list written to a WAL: every vote was known to the machine, all votes of one height -/
def VLOk (L : List VoteRec) (sent : List Msg) (vs : List VoteRec) : Prop :=
  (∀ v, v ∈ vs → Known L sent v) ∧ ∀ v, v ∈ vs → ∀ v', v' ∈ vs → v.height = v'.height

structure T3 (L : List VoteRec) (n : Nat) (eff : List Eff) : Prop where
  /-- the Finalize rule: the commit quorum was known BEFORE the Finalize effect -/
  fin : ∀ pre h b post, eff = pre ++ Eff.finalize h b :: post →
        ∃ r, quorumKnown L n (sentOf pre) h .precommit r (some b)
  wl : ∀ pre w vs post, eff = pre ++ Eff.write w (.voteList vs) :: post → VLOk L (sentOf pre) vs

theorem t3_nil (L : List VoteRec) (n : Nat) : T3 L n [] :=
  ⟨by intro pre h b post hd; simp at hd, by intro pre w vs post hd; simp at hd⟩

theorem t3_append {L : List VoteRec} {n : Nat} {eff : List Eff} (e : Eff) (ht : T3 L n eff)
    (hf : ∀ h b, e = .finalize h b → ∃ r, quorumKnown L n (sentOf eff) h .precommit r (some b))
    (hw : ∀ w vs, e = .write w (.voteList vs) → VLOk L (sentOf eff) vs) : T3 L n (eff ++ [e]) := by
  refine ⟨?_, ?_⟩
  · intro pre h b post hd
    rcases append_singleton_eq_append_cons hd with ⟨_, rfl, hm⟩ | ⟨post', _, hd'⟩
    · exact hf h b hm.symm
    · exact ht.fin pre h b post' hd'
  · intro pre w vs post hd
    rcases append_singleton_eq_append_cons hd with ⟨_, rfl, hm⟩ | ⟨post', _, hd'⟩
    · exact hw w vs hm.symm
    · exact ht.wl pre w vs post' hd'

/-- closed under cutting the trace anywhere -/
theorem t3_take {L : List VoteRec} {n : Nat} {eff : List Eff} (c : Nat) (ht : T3 L n eff) :
    T3 L n (eff.take c) := by
  have he : eff = eff.take c ++ eff.drop c := (List.take_append_drop c eff).symm
  refine ⟨?_, ?_⟩
  · intro pre h b post hd
    exact ht.fin pre h b (post ++ eff.drop c) (by have h' := he; rw [hd] at h'; simpa using h')
  · intro pre w vs post hd
    exact ht.wl pre w vs (post ++ eff.drop c) (by have h' := he; rw [hd] at h'; simpa using h')

theorem t3_mono_L {L L' : List VoteRec} {n : Nat} {eff : List Eff} (hL : ∀ x, x ∈ L → x ∈ L')
    (ht : T3 L n eff) : T3 L' n eff := by
  refine ⟨?_, ?_⟩
  · intro pre h b post hd
    obtain ⟨r, hq⟩ := ht.fin pre h b post hd
    exact ⟨r, quorumKnown_mono hL (fun _ h => h) hq⟩
  · intro pre w vs post hd
    obtain ⟨h1, h2⟩ := ht.wl pre w vs post hd
    refine ⟨fun v hv => ?_, h2⟩
    rcases h1 v hv with h | h
    · exact Or.inl (hL _ h)
    · exact Or.inr h

theorem mem_finalizedOf {eff : List Eff} {h : Nat} {b : Blk} (hm : (h, b) ∈ finalizedOf eff) :
    ∃ pre post, eff = pre ++ Eff.finalize h b :: post := by
  induction eff with
  | nil => simp [finalizedOf] at hm
  | cons e t ih =>
    cases e with
    | finalize h' b' =>
      simp only [finalizedOf, List.mem_cons, Prod.mk.injEq] at hm
      rcases hm with ⟨rfl, rfl⟩ | hm
      · exact ⟨[], t, rfl⟩
      · obtain ⟨pre, post, hd⟩ := ih hm
        exact ⟨_ :: pre, post, by rw [hd]; rfl⟩
    | write w r => obtain ⟨pre, post, hd⟩ := ih (by simpa [finalizedOf] using hm); exact ⟨_ :: pre, post, by rw [hd]; rfl⟩
    | sync w => obtain ⟨pre, post, hd⟩ := ih (by simpa [finalizedOf] using hm); exact ⟨_ :: pre, post, by rw [hd]; rfl⟩
    | send m => obtain ⟨pre, post, hd⟩ := ih (by simpa [finalizedOf] using hm); exact ⟨_ :: pre, post, by rw [hd]; rfl⟩
    | crash k => obtain ⟨pre, post, hd⟩ := ih (by simpa [finalizedOf] using hm); exact ⟨_ :: pre, post, by rw [hd]; rfl⟩

structure H3 (L : List VoteRec) (base : List Eff) (R : Nat) (s : S) : Prop where
  /-- the trace only grows (`base` = the trace at the beginning of the event) -/
  pre : base <+: s.eff
  lock : LockInv L R s
  imp : ImpInv s
  com : ComInv L s
  /-- G3, exact timing: `pre` = the messages signed strictly before the prevote `w` -/
  g3 : ∀ pre w post, sentOf s.eff = pre ++ Msg.vote w :: post → w.typ = .prevote →
        ∀ v b, Msg.vote v ∈ pre → v.typ = .precommit → v.val = some b → v.height = w.height →
          v.round < w.round → w.val ≠ some b →
          ∃ r'' y, v.round < r'' ∧ r'' ≤ w.round ∧ y ≠ some b ∧
            quorumKnown L s.n pre w.height .prevote r'' y
  /-- G2, exact timing -/
  g2 : ∀ pre v post b, sentOf s.eff = pre ++ Msg.vote v :: post → v.typ = .precommit → v.val = some b →
        quorumKnown L s.n pre v.height .prevote v.round (some b)
  /-- every Finalize effect had a known +2/3 precommit quorum of one round; WAL vote lists hold known
      votes — both prefix-wise -/
  tr : T3 L s.n s.eff

/-- the Finalize rule in the non-prefix form -/
theorem H3.fin {L : List VoteRec} {base : List Eff} {R : Nat} {s : S} (hh : H3 L base R s) (h : Nat) (b : Blk)
    (hm : (h, b) ∈ finalizedOf s.eff) : ∃ r, quorumKnown L s.n (sentOf s.eff) h .precommit r (some b) := by
  obtain ⟨pre, post, hd⟩ := mem_finalizedOf hm
  obtain ⟨r, hq⟩ := hh.tr.fin pre h b post hd
  refine ⟨r, quorumKnown_mono (fun _ h => h) ?_ hq⟩
  intro m hm
  rw [hd, sentOf_append]
  exact List.mem_append_left _ hm

theorem finalizedOf_append' (a b : List Eff) : finalizedOf (a ++ b) = finalizedOf a ++ finalizedOf b := by
  induction a with
  | nil => rfl
  | cons e t ih => cases e <;> simp [finalizedOf, ih]

@[simp] theorem finOf_emit_write (s : S) (w : Wal) (r : Rec) : finalizedOf (s.emit (.write w r)).eff = finalizedOf s.eff := by
  simp [S.emit, finalizedOf_append', finalizedOf]
@[simp] theorem finOf_emit_sync (s : S) (w : Wal) : finalizedOf (s.emit (.sync w)).eff = finalizedOf s.eff := by
  simp [S.emit, finalizedOf_append', finalizedOf]
@[simp] theorem finOf_emit_send (s : S) (m : Msg) : finalizedOf (s.emit (.send m)).eff = finalizedOf s.eff := by
  simp [S.emit, finalizedOf_append', finalizedOf]
@[simp] theorem finOf_emit_fin (s : S) (h b : Nat) : finalizedOf (s.emit (.finalize h b)).eff = finalizedOf s.eff ++ [(h, b)] := by
  simp [S.emit, finalizedOf_append', finalizedOf]

/-- the fields of the state the trace-level part of H3 depends on -/
def tproj (s : S) : Nat × List Eff := (s.n, s.eff)

/-- the fields `Covered` / `LockInv` depend on (besides `stuck`) -/
def kproj (s : S) : Nat × Nat × Option Blk × Int × List Msg :=
  (s.n, s.height, s.locked.map (·.1), s.lockedRound, sentOf s.eff)

section
variable {L : List VoteRec} {base : List Eff}

theorem covered_of_kproj {s s' : S} {R R' r : Nat} {b : Blk} (h : kproj s' = kproj s) (hR : R ≤ R')
    (hc : Covered L s R r b) : Covered L s' R' r b := by
  unfold kproj at h
  simp only [Prod.mk.injEq] at h
  obtain ⟨h1, h2, h3, h4, h5⟩ := h
  unfold Covered at *
  rw [h1, h2, h3, h4, h5]
  rcases hc with hc | ⟨r'', y, a1, a2, a3, a4⟩
  · exact Or.inl hc
  · exact Or.inr ⟨r'', y, a1, by omega, a3, a4⟩

theorem lockInv_of_kproj {s s' : S} {R R' : Nat} (h : kproj s' = kproj s) (hR : R ≤ R')
    (hst : s'.stuck = false → s.stuck = false) (hl : LockInv L R s) : LockInv L R' s' := by
  intro hs v b hv ht hval hht
  have e5 : sentOf s'.eff = sentOf s.eff := by
    have := congrArg (fun p => p.2.2.2.2) h; exact this
  have e2 : s'.height = s.height := by
    have := congrArg (fun p => p.2.1) h; exact this
  rw [e5] at hv
  rw [e2] at hht
  exact covered_of_kproj h hR (hl (hst hs) v b hv ht hval hht)

/-- general constructor: the trace-level fields are inherited, the state-level fields are supplied -/
theorem h3_build {s s' : S} {R R' : Nat} (hh : H3 L base R s) (ht : tproj s' = tproj s)
    (hlock : LockInv L R' s') (himp : ImpInv s') (hcom : ComInv L s') : H3 L base R' s' := by
  unfold tproj at ht
  simp only [Prod.mk.injEq] at ht
  obtain ⟨h1, h2⟩ := ht
  exact ⟨by rw [h2]; exact hh.pre, hlock, himp, hcom, by rw [h1, h2]; exact hh.g3,
    by rw [h1, h2]; exact hh.g2, by rw [h1, h2]; exact hh.tr⟩

/-- not in step commit (or stuck): ComInv is vacuous -/
def NC (s : S) : Prop := s.stuck = true ∨ s.step ≠ stCommit

theorem comInv_of_nc {s : S} (h : NC s) : ComInv L s := by
  intro hs hst
  rcases h with h | h
  · rw [h] at hs; cases hs
  · exact absurd hst h

/-- frame lemma: only fields outside the invariant (or `stuck`, or step / cur outside step commit) change -/
theorem h3_frame {s s' : S} {R R' : Nat} (hh : H3 L base R s) (hR : R ≤ R')
    (ht : tproj s' = tproj s) (hk : kproj s' = kproj s)
    (hst : s'.stuck = false → s.stuck = false)
    (himp : ImpInv s') (hcom : ComInv L s') : H3 L base R' s' :=
  h3_build hh ht (lockInv_of_kproj hk hR hst hh.lock) himp hcom


/-- the fields `ImpInv` depends on (besides step / stuck) -/
def iproj (s : S) : Nat × Nat × Pend × Option (Blk × Bool) := (s.height, s.round, s.pend, s.locked)

/-- the fields `ComInv` depends on (besides step / stuck) -/
def cproj (s : S) : Nat × Nat × Option Blk × List Msg := (s.n, s.height, s.cur.id, sentOf s.eff)

theorem impInv_of_iproj {s s' : S} (h : iproj s' = iproj s)
    (hst : s'.stuck = false → s.stuck = false ∧ (s'.step ≤ stPrevoteWait → s.step ≤ stPrevoteWait))
    (hi : ImpInv s) : ImpInv s' := by
  unfold iproj at h
  simp only [Prod.mk.injEq] at h
  obtain ⟨h1, h2, h3, h4⟩ := h
  intro hs b hp h5
  rw [h1, h2, h3] at hp
  rw [h4]
  exact hi (hst hs).1 b hp ((hst hs).2 h5)

theorem comInv_of_cproj {s s' : S} (h : cproj s' = cproj s)
    (hst : s'.stuck = false → s.stuck = false ∧ (s'.step = stCommit → s.step = stCommit))
    (hc : ComInv L s) : ComInv L s' := by
  unfold cproj at h
  simp only [Prod.mk.injEq] at h
  obtain ⟨h1, h2, h3, h4⟩ := h
  intro hs h8
  rw [h1, h2, h3, h4]
  exact hc (hst hs).1 ((hst hs).2 h8)

/-- nothing the invariant looks at changes, except that step / stuck move "forward" -/
theorem h3_same {s s' : S} {R R' : Nat} (hh : H3 L base R s) (hR : R ≤ R')
    (ht : tproj s' = tproj s) (hk : kproj s' = kproj s) (hi : iproj s' = iproj s) (hc : cproj s' = cproj s)
    (hst : s'.stuck = false → s.stuck = false ∧ (s'.step ≤ stPrevoteWait → s.step ≤ stPrevoteWait) ∧
      (s'.step = stCommit → s.step = stCommit)) : H3 L base R' s' :=
  h3_frame hh hR ht hk (fun h => (hst h).1)
    (impInv_of_iproj hi (fun h => ⟨(hst h).1, (hst h).2.1⟩) hh.imp)
    (comInv_of_cproj hc (fun h => ⟨(hst h).1, (hst h).2.2⟩) hh.com)

/-- `cur` (and fields outside the invariant) change while not in step commit -/
theorem h3_nc {s s' : S} {R : Nat} (hh : H3 L base R s)
    (ht : tproj s' = tproj s) (hk : kproj s' = kproj s) (hi : iproj s' = iproj s)
    (hst : s'.stuck = false → s.stuck = false ∧ (s'.step ≤ stPrevoteWait → s.step ≤ stPrevoteWait))
    (hnc : NC s') : H3 L base R s' :=
  h3_frame hh (Nat.le_refl _) ht hk (fun h => (hst h).1) (impInv_of_iproj hi hst hh.imp) (comInv_of_nc hnc)

theorem h3_mono_R {s : S} {R R' : Nat} (hh : H3 L base R s) (hR : R ≤ R') : H3 L base R' s :=
  h3_same hh hR rfl rfl rfl rfl (fun h => ⟨h, id, id⟩)

theorem h3_stuck {s : S} {R : Nat} (hh : H3 L base R s) : H3 L base R { s with stuck := true } :=
  h3_same (s := s) hh (Nat.le_refl _) rfl rfl rfl rfl (fun h => by cases h)

/-- re-basing: `base` only occurs in the prefix field -/
theorem h3_rebase {s : S} {R : Nat} (base' : List Eff) (hp : base' <+: s.eff) (hh : H3 L base R s) :
    H3 L base' R s :=
  ⟨hp, hh.lock, hh.imp, hh.com, hh.g3, hh.g2, hh.tr⟩

/-! ### resetForNewStep / Round / Height -/

theorem rfs_spec (s : S) (tgt : Nat) (h0 : tgt ≠ 0) (h2 : tgt ≠ 2) :
    tproj (s.resetForNewStep tgt) = tproj s ∧ kproj (s.resetForNewStep tgt) = kproj s ∧
    iproj (s.resetForNewStep tgt) = iproj s ∧ cproj (s.resetForNewStep tgt) = cproj s ∧
    ((s.resetForNewStep tgt).stuck = true ∨
      ((s.resetForNewStep tgt).stuck = s.stuck ∧ s.step < tgt ∧ (s.resetForNewStep tgt).step = tgt)) := by
  unfold S.resetForNewStep S.beginStep S.endStep
  simp only []
  split
  · rename_i h
    exact ⟨rfl, rfl, rfl, rfl, Or.inr ⟨rfl, validTransition_lt h h0 h2, rfl⟩⟩
  · exact ⟨rfl, rfl, rfl, rfl, Or.inl rfl⟩

theorem h3_rfs {R : Nat} (s : S) (tgt : Nat) (h0 : tgt ≠ 0) (h2 : tgt ≠ 2) (h8 : tgt ≠ stCommit)
    (hh : H3 L base R s) : H3 L base R (s.resetForNewStep tgt) := by
  obtain ⟨e1, e2, e3, e4, e5⟩ := rfs_spec s tgt h0 h2
  apply h3_same hh (Nat.le_refl _) e1 e2 e3 e4
  intro hs
  rcases e5 with e5 | ⟨a1, a2, a3⟩
  · rw [e5] at hs; cases hs
  · refine ⟨by rw [← a1]; exact hs, ?_, ?_⟩
    · intro h5; rw [a3] at h5; omega
    · intro h; rw [a3] at h; exact absurd h h8

theorem nc_rfs (s : S) (tgt : Nat) (h0 : tgt ≠ 0) (h2 : tgt ≠ 2) (h8 : tgt ≠ stCommit) :
    NC (s.resetForNewStep tgt) := by
  rcases (rfs_spec s tgt h0 h2).2.2.2.2 with e5 | ⟨_, _, a3⟩
  · exact Or.inl e5
  · right; rw [a3]; exact h8


theorem rfr_spec (s : S) (r : Nat) :
    tproj (s.resetForNewRound r) = tproj s ∧ kproj (s.resetForNewRound r) = kproj s ∧
    (s.resetForNewRound r).height = s.height ∧ (s.resetForNewRound r).round = r ∧
    (s.resetForNewRound r).pend = s.pend ∧ (s.resetForNewRound r).locked = s.locked ∧
    ((s.resetForNewRound r).stuck = false → s.stuck = false) ∧ NC (s.resetForNewRound r) := by
  unfold S.resetForNewRound S.beginStep S.resetRound_ S.endStep
  simp only []
  split
  · exact ⟨rfl, rfl, rfl, rfl, rfl, rfl, id, Or.inr (by simp [stNewRound, stCommit])⟩
  · exact ⟨rfl, rfl, rfl, rfl, rfl, rfl, fun h => by simp at h, Or.inl rfl⟩

theorem h3_rfr {R : Nat} (s : S) (r : Nat) (hc : Core s) (hr : s.round < r) (hR : R ≤ r)
    (hh : H3 L base R s) : H3 L base r (s.resetForNewRound r) := by
  obtain ⟨e1, e2, e3, e4, e5, e6, e7, e8⟩ := rfr_spec s r
  refine h3_frame hh hR e1 e2 e7 ?_ (comInv_of_nc e8)
  intro hs b hp _
  rw [e3, e4, e5] at hp
  have := hc.pnd s.height r 4 5 (by simp [ctrl, hp, pendWin])
  simp only [ctrl] at this
  omega

theorem rfh_spec (s : S) (h : Nat) :
    tproj (s.resetForNewHeight h) = tproj s ∧
    (s.resetForNewHeight h).height = h ∧ (s.resetForNewHeight h).round = 0 ∧
    (s.resetForNewHeight h).pend = s.pend ∧
    ((s.resetForNewHeight h).stuck = false → s.stuck = false) ∧ NC (s.resetForNewHeight h) := by
  unfold S.resetForNewHeight S.beginStep S.resetRound_ S.endStep
  simp only []
  split
  · exact ⟨rfl, rfl, rfl, rfl, id, Or.inr (by simp [stNewHeight, stCommit])⟩
  · exact ⟨rfl, rfl, rfl, rfl, fun h => by simp at h, Or.inl rfl⟩

theorem h3_rfh {R : Nat} (s : S) (hc : Core s) (hh : H3 L base R s) :
    H3 L base 0 (s.resetForNewHeight (s.height + 1)) := by
  obtain ⟨e1, e2, e3, e4, e5, e6⟩ := rfh_spec s (s.height + 1)
  refine h3_build hh e1 ?_ ?_ (comInv_of_nc e6)
  · intro hs v b hv _ _ hht
    have e : sentOf (s.resetForNewHeight (s.height + 1)).eff = sentOf s.eff := by
      have : (s.resetForNewHeight (s.height + 1)).eff = s.eff := congrArg (fun p => p.2) e1
      rw [this]
    rw [e] at hv
    have := hc.bnd (.vote v) hv
    rw [e2] at hht
    unfold lexLe at this
    simp only [ctrl, msgKey, voteKey] at this
    omega
  · intro hs b hp _
    rw [e2, e3, e4] at hp
    have := hc.pnd (s.height + 1) 0 4 5 (by simp [ctrl, hp, pendWin])
    simp only [ctrl] at this
    omega

theorem h3_emit {R : Nat} (s : S) (e : Eff) (he : ∀ m, e ≠ .send m) (hf : ∀ h b, e ≠ .finalize h b)
    (hw : ∀ w vs, e = .write w (.voteList vs) → VLOk L (sentOf s.eff) vs)
    (hh : H3 L base R s) : H3 L base R (s.emit e) := by
  have hs : sentOf (s.emit e).eff = sentOf s.eff := by
    unfold S.emit; simp only [sentOf_append]; cases e <;> simp [sentOf] at he ⊢
  refine ⟨List.IsPrefix.trans hh.pre (List.prefix_append _ _), ?_, ?_, ?_, by rw [hs]; exact hh.g3,
    by rw [hs]; exact hh.g2, ?_⟩
  · exact lockInv_of_kproj (s := s) (by unfold kproj; rw [hs]; rfl) (Nat.le_refl _) id hh.lock
  · exact impInv_of_iproj (s := s) rfl (fun h => ⟨h, id⟩) hh.imp
  · exact comInv_of_cproj (s := s) (by unfold cproj; rw [hs]; rfl) (fun h => ⟨h, id⟩) hh.com
  · exact t3_append e hh.tr (fun h b h' => absurd h' (hf h b)) hw

theorem covered_send {s : S} (m : Msg) {R r : Nat} {b : Blk} (hc : Covered L s R r b) :
    Covered L (s.emit (.send m)) R r b := by
  unfold Covered at *
  rcases hc with hc | ⟨r'', y, a1, a2, a3, a4⟩
  · exact Or.inl hc
  · refine Or.inr ⟨r'', y, a1, a2, a3, ?_⟩
    rw [sentOf_emit_send]
    exact quorumKnown_append [m] a4

/-- signing a message -/
theorem h3_send {R : Nat} (s : S) (m : Msg) (hh : H3 L base R s)
    (hnl : s.stuck = false → ∀ v b, m = .vote v → v.typ = .precommit → v.val = some b → v.height = s.height →
      Covered L s R v.round b)
    (hn3 : ∀ w, m = .vote w → w.typ = .prevote → ∀ v b, Msg.vote v ∈ sentOf s.eff → v.typ = .precommit →
      v.val = some b → v.height = w.height → v.round < w.round → w.val ≠ some b →
      ∃ r'' y, v.round < r'' ∧ r'' ≤ w.round ∧ y ≠ some b ∧
        quorumKnown L s.n (sentOf s.eff) w.height .prevote r'' y)
    (hn2 : ∀ v b, m = .vote v → v.typ = .precommit → v.val = some b →
      quorumKnown L s.n (sentOf s.eff) v.height .prevote v.round (some b)) :
    H3 L base R (s.emit (.send m)) := by
  have hs : sentOf (s.emit (.send m)).eff = sentOf s.eff ++ [m] := by simp
  refine ⟨?_, ?_, ?_, ?_, ?_, ?_, ?_⟩
  · exact List.IsPrefix.trans hh.pre (List.prefix_append _ _)
  · intro hst v b hv ht hval hht
    rw [hs] at hv
    apply covered_send
    rcases List.mem_append.mp hv with h | h
    · exact hh.lock hst v b h ht hval hht
    · simp at h
      exact hnl hst v b h.symm ht hval hht
  · exact impInv_of_iproj (s := s) rfl (fun h => ⟨h, id⟩) hh.imp
  · intro hst h8
    obtain ⟨r, b, h1, h2⟩ := hh.com hst h8
    exact ⟨r, b, h1, by rw [hs]; exact quorumKnown_append [m] h2⟩
  · intro pre w post hd ht v b hv hvt hval hht hr hne
    rw [hs] at hd
    rcases append_singleton_eq_append_cons hd with ⟨_, rfl, hm⟩ | ⟨post', _, hd'⟩
    · exact hn3 w hm.symm ht v b hv hvt hval hht hr hne
    · exact hh.g3 pre w post' hd' ht v b hv hvt hval hht hr hne
  · intro pre v post b hd ht hval
    rw [hs] at hd
    rcases append_singleton_eq_append_cons hd with ⟨_, rfl, hm⟩ | ⟨post', _, hd'⟩
    · exact hn2 v b hm.symm ht hval
    · exact hh.g2 pre v post' b hd' ht hval
  · exact t3_append (.send m) hh.tr (by intro h b h'; cases h') (by intro w vs h'; cases h')

theorem h3_sendProposal {R : Nat} (s : S) (b : Blk) (pol : Int) (hh : H3 L base R s) :
    H3 L base R (s.sendProposal b pol) := by
  unfold S.sendProposal
  split
  · exact hh
  have h1 := h3_emit s (.write .round (.msg (.proposal s.me s.height s.round b pol))) (by intro m; simp)
    (by intro h b; simp) (by intro w vs h'; cases h') hh
  have h2 := h3_emit _ (.sync .round) (by intro m; simp) (by intro h b; simp) (by intro w vs h'; cases h') h1
  exact h3_send _ _ h2 (by intro _ v b' hm; cases hm) (by intro w hm; cases hm) (by intro v b' hm; cases hm)


/-- what `sendVote` needs to know about the lock: a prevote is for the locked block (if any); a non-nil
    precommit is for the block locked in this very round -/
def PV (s : S) (t : VType) (v : Option Blk) : Prop :=
  (t = .prevote → ∀ b, s.locked.map (·.1) = some b → v = some b) ∧
  (t = .precommit → ∀ b, v = some b → s.locked.map (·.1) = some b ∧ s.lockedRound = (s.round : Int))

theorem h3_send_vote (s : S) (t : VType) (v : Option Blk) (hst : s.stuck = false)
    (hh : H3 L base s.round s)
    (hq : t = .precommit → ∀ b, v = some b →
      quorumKnown L s.n (sentOf s.eff) s.height .prevote s.round (some b))
    (hpv : PV s t v) :
    H3 L base s.round (s.emit (.send (.vote ⟨s.me, s.height, t, s.round, v⟩))) := by
  apply h3_send _ _ hh
  · intro _ v' b hm ht hval _
    cases hm
    simp only [] at ht hval
    obtain ⟨h1, h2⟩ := hpv.2 ht b hval
    left
    exact ⟨h1, by simp only []; omega⟩
  · intro w hm ht v0 b0 hv0 hvt hval hht hr hne
    cases hm
    simp only [] at ht hht hr hne ⊢
    rcases hh.lock hst v0 b0 hv0 hvt hval hht with ⟨h1, _⟩ | h
    · exact absurd (hpv.1 ht b0 h1) hne
    · exact h
  · intro v' b hm ht hval
    cases hm
    simp only [] at ht hval ⊢
    exact hq ht b hval

theorem h3_pend {R : Nat} (s : S) (p : Pend) (hp : s.stuck = false → ∀ b, p = .import_ s.height s.round b → s.locked = none)
    (hh : H3 L base R s) : H3 L base R { s with pend := p } := by
  refine h3_frame (s := s) hh (Nat.le_refl _) rfl rfl id ?_ (comInv_of_cproj (s := s) rfl (fun h => ⟨h, id⟩) hh.com)
  intro hs b hb _
  exact hp hs b hb

theorem h3_unlock_polka {R : Nat} (s : S) (mr : Nat) (psid : Option Blk) (hh : H3 L base R s) (hnc : NC s)
    (hq : quorumKnown L s.n (sentOf s.eff) s.height .prevote mr psid)
    (hlr : s.lockedRound < (mr : Int)) (hne : (s.locked.map (·.1)) ≠ psid) :
    H3 L base (max R mr) s.unlock := by
  refine h3_build (s := s) hh rfl ?_ ?_ (comInv_of_nc hnc)
  · intro hs v b hv ht hval hht
    rcases hh.lock hs v b hv ht hval hht with ⟨h1, h2⟩ | ⟨r'', y, a1, a2, a3, a4⟩
    · right
      refine ⟨mr, psid, by omega, Nat.le_max_right _ _, ?_, hq⟩
      intro h; rw [h] at hne; exact hne h1
    · right
      exact ⟨r'', y, a1, Nat.le_trans a2 (Nat.le_max_left _ _), a3, a4⟩
  · intro _ _ _ _; rfl

theorem h3_prevoteDecision (s : S) (mr : Nat) (h2 : H2 L s) (hh : H3 L base s.round s)
    (hstep : s.step < stCommit) :
    H3 L base (max s.round mr) (s.prevoteDecision mr ((votesFor s.hvs mr .prevote).decision s.n)) := by
  have hnc : NC s := Or.inr (by omega)
  unfold S.prevoteDecision
  cases hd : (votesFor s.hvs mr .prevote).decision s.n with
  | none => exact h3_mono_R hh (Nat.le_max_left _ _)
  | some psid =>
    simp only []
    have hq := quorum_of_decision s h2 mr .prevote psid hd
    have h1 : H3 L base (max s.round mr)
        (if (decide (s.lockedRound < (mr : Int)) && s.locked.isSome && (s.locked.map (·.1)) != psid) = true
         then s.unlock else s) := by
      split
      · rename_i hc
        simp only [Bool.and_eq_true, decide_eq_true_eq, bne_iff_ne, ne_eq] at hc
        exact h3_unlock_polka s mr psid hh hnc hq hc.1.1 hc.2
      · exact h3_mono_R hh (Nat.le_max_left _ _)
    have hnc1 : NC (if (decide (s.lockedRound < (mr : Int)) && s.locked.isSome && (s.locked.map (·.1)) != psid) = true
         then s.unlock else s) := by
      split
      · exact Or.inr (by show s.step ≠ stCommit; omega)
      · exact hnc
    generalize (if (decide (s.lockedRound < (mr : Int)) && s.locked.isSome && (s.locked.map (·.1)) != psid) = true
         then s.unlock else s) = s1 at h1 hnc1 ⊢
    cases psid with
    | none => exact h1
    | some b =>
      simp only []
      split
      · exact h3_nc (s := s1) h1 rfl rfl rfl (fun h => ⟨h, id⟩) hnc1
      · exact h1

/-- enterPrecommit changes the lock on a +2/3 prevote decision `y` of the current round -/
theorem h3_setlock (s : S) (lk : Option (Blk × Bool)) (lr : Int) (y : Option Blk)
    (hh : H3 L base s.round s) (hf : Fresh s stPrecommit) (hnc : NC s)
    (hq : s.stuck = false → quorumKnown L s.n (sentOf s.eff) s.height .prevote s.round y)
    (hy : ∀ b, y = some b → s.locked.map (·.1) = some b → lk.map (·.1) = some b ∧ lr = (s.round : Int)) :
    H3 L base s.round { s with lockedRound := lr, locked := lk } := by
  refine h3_build (s := s) hh rfl ?_ ?_ (comInv_of_nc hnc)
  · intro hs v b hv ht hval hht
    have hs' : s.stuck = false := hs
    rcases hf with hf | ⟨_, hf, _⟩
    · rw [hf] at hs'; cases hs'
    have hlt := hf _ hv
    have hr : v.round < s.round := by
      unfold lexLt at hlt
      simp only [msgKey, voteKey, mstepOf, ht] at hlt
      have hht' : v.height = s.height := hht
      unfold stPrecommit at hlt
      omega
    rcases hh.lock hs' v b hv ht hval hht with ⟨h1, h2⟩ | h
    · by_cases hyb : y = some b
      · left
        obtain ⟨a1, a2⟩ := hy b hyb h1
        exact ⟨a1, by simp only []; omega⟩
      · right
        exact ⟨s.round, y, hr, Nat.le_refl _, hyb, hq hs'⟩
    · exact Or.inr h
  · intro hs b _ h5
    have hs' : s.stuck = false := hs
    rcases hf with hf | ⟨h6, _, _⟩
    · rw [hf] at hs'; cases hs'
    · have h5' : s.step ≤ stPrevoteWait := h5
      unfold stPrecommit at h6; unfold stPrevoteWait at h5'; omega

/-- the block held in `cur` has a known +2/3 precommit quorum of one round (whatever the step) -/
def ComQ (L : List VoteRec) (s : S) : Prop :=
  s.stuck = false →
    ∃ r b, s.cur.id = some b ∧ quorumKnown L s.n (sentOf s.eff) s.height .precommit r (some b)

/-- the Finalize effect: allowed when the block in `cur` has a known commit quorum -/
theorem h3_finalize' {R : Nat} (s : S) (b : Blk) (hst : s.stuck = false) (h8 : ComQ L s)
    (hcur : s.cur.id = some b) (hh : H3 L base R s) :
    H3 L base R (s.emit (.finalize s.height b)) := by
  have hs : sentOf (s.emit (.finalize s.height b)).eff = sentOf s.eff := by simp
  refine ⟨List.IsPrefix.trans hh.pre (List.prefix_append _ _), ?_, ?_, ?_, by rw [hs]; exact hh.g3,
    by rw [hs]; exact hh.g2, ?_⟩
  · exact lockInv_of_kproj (s := s) (by unfold kproj; rw [hs]; rfl) (Nat.le_refl _) id hh.lock
  · exact impInv_of_iproj (s := s) rfl (fun h => ⟨h, id⟩) hh.imp
  · exact comInv_of_cproj (s := s) (by unfold cproj; rw [hs]; rfl) (fun h => ⟨h, id⟩) hh.com
  · refine t3_append _ hh.tr ?_ (by intro w vs h'; cases h')
    intro h b' he
    cases he
    obtain ⟨r, b'', h1, h2⟩ := h8 hst
    rw [hcur] at h1
    cases h1
    exact ⟨r, h2⟩

theorem h3_finalize {R : Nat} (s : S) (b : Blk) (hst : s.stuck = false) (h8 : ComQ L s)
    (hcur : s.cur.id = some b) (hh : H3 L base R s) :
    H3 L base R { s.emit (.finalize s.height b) with dbHeight := s.height } :=
  h3_same (s := s.emit (.finalize s.height b)) (h3_finalize' s b hst h8 hcur hh) (Nat.le_refl _) rfl rfl rfl rfl
    (fun h => ⟨h, id, id⟩)

end
end Goloop.C01
