/-
  Proofs/C01G2 — G2 for the transcribed machine (no crash): a non-nil precommit (h, r, b) is only
  signed when +2/3 prevotes (h, r, b) of distinct validators are known to the machine — each of them
  either delivered to it by a `vote` event or signed by itself.
-/
import Goloop.Proofs.C01G1
import Mathlib.Data.List.Nodup
import Mathlib.Data.List.Perm.Subperm
namespace Goloop.C01

/-! ### vote sets -/

def VoteSet.WF (n : Nat) (vs : VoteSet) : Prop :=
  (vs.votes.map (·.1)).Nodup ∧ ∀ e ∈ vs.votes, e.1 < n

theorem lookup_none_iff {α β : Type} [BEq α] [LawfulBEq α] (l : List (α × β)) (k : α) :
    l.lookup k = none ↔ k ∉ l.map (·.1) := by
  induction l with
  | nil => simp
  | cons e t ih =>
    obtain ⟨a, b⟩ := e
    simp only [List.lookup_cons, List.map_cons, List.mem_cons]
    by_cases h : k == a
    · have hk : k = a := by simpa using h
      simp [h, hk]
    · have hk : ¬ k = a := by simpa using h
      simp only [h]; rw [ih]; simp [hk]

theorem VoteSet.add_wf (n : Nat) (vs : VoteSet) (i : Nat) (v : Option Blk) (hw : vs.WF n) (hi : i < n) :
    (vs.add n i v).2.WF n := by
  unfold VoteSet.add VoteSet.get
  split
  · split
    · exact hw
    · split
      · exact hw
      · refine ⟨?_, ?_⟩
        · simp only [List.map_append, List.map_cons, List.map_nil]
          rw [List.nodup_append]
          refine ⟨?_, by simp, ?_⟩
          · exact (hw.1.sublist ((List.filter_sublist).map _))
          · intro a ha b hb
            simp at hb; subst hb
            simp only [List.mem_map, List.mem_filter] at ha
            obtain ⟨e, ⟨_, he⟩, rfl⟩ := ha
            simpa using he
        · intro e he
          rcases List.mem_append.mp he with h | h
          · exact hw.2 e (List.mem_of_mem_filter h)
          · simp at h; subst h; exact hi
  · rename_i hnone
    refine ⟨?_, ?_⟩
    · simp only [List.map_append, List.map_cons, List.map_nil]
      rw [List.nodup_append]
      refine ⟨hw.1, by simp, ?_⟩
      intro a ha b hb
      simp at hb; subst hb
      have := (lookup_none_iff vs.votes b).mp hnone
      intro hab; subst hab; exact this ha
    · intro e he
      rcases List.mem_append.mp he with h | h
      · exact hw.2 e h
      · simp at h; subst h; exact hi

/-- every entry of the new set is an old entry or the added vote -/
theorem VoteSet.add_mem (n : Nat) (vs : VoteSet) (i : Nat) (v : Option Blk) (e : Nat × Option Blk)
    (he : e ∈ (vs.add n i v).2.votes) : e ∈ vs.votes ∨ e = (i, v) := by
  unfold VoteSet.add at he
  split at he
  · split at he
    · exact Or.inl he
    · split at he
      · exact Or.inl he
      · rcases List.mem_append.mp he with h | h
        · exact Or.inl (List.mem_of_mem_filter h)
        · simp at h; exact Or.inr h
  · rcases List.mem_append.mp he with h | h
    · exact Or.inl h
    · simp at h; exact Or.inr h

theorem decision_count (n : Nat) (vs : VoteSet) (b : Option Blk) (h : vs.decision n = some b) :
    vs.countFor b > n * 2 / 3 := by
  unfold VoteSet.decision at h
  obtain ⟨e, _, he⟩ := List.exists_of_findSome?_eq_some h
  split at he
  · cases he; assumption
  · cases he

/-- a nodup list of naturals below n all satisfying p is no longer than the count of p below n -/
theorem nodup_length_le_countP (n : Nat) (Q : List Nat) (p : Nat → Bool) (hq : Q.Nodup)
    (hlt : ∀ i ∈ Q, i < n) (hp : ∀ i ∈ Q, p i = true) : Q.length ≤ (List.range n).countP p := by
  rw [List.countP_eq_length_filter]
  apply List.Subperm.length_le
  apply List.subperm_of_subset hq
  intro i hi
  simp only [List.mem_filter, List.mem_range]
  exact ⟨hlt i hi, hp i hi⟩

/-- the validators recorded with value `b` in a well-formed set: distinct, below n, at least countFor -/
theorem countFor_le (n : Nat) (vs : VoteSet) (b : Option Blk) (p : Nat → Bool) (hw : vs.WF n)
    (hp : ∀ e ∈ vs.votes, e.2 = b → p e.1 = true) : vs.countFor b ≤ (List.range n).countP p := by
  unfold VoteSet.countFor
  rw [List.countP_eq_length_filter]
  have hsub : ((vs.votes.filter (fun e => e.2 == b)).map (·.1)).Nodup :=
    hw.1.sublist ((List.filter_sublist).map _)
  rw [← List.length_map (f := (·.1))]
  apply nodup_length_le_countP n _ p hsub
  · intro i hi
    simp only [List.mem_map, List.mem_filter] at hi
    obtain ⟨e, ⟨he, _⟩, rfl⟩ := hi
    exact hw.2 e he
  · intro i hi
    simp only [List.mem_map, List.mem_filter] at hi
    obtain ⟨e, ⟨he, hb⟩, rfl⟩ := hi
    exact hp e he (by simpa using hb)

end Goloop.C01
