/-
  Proofs/C01G2 — G2 for the transcribed machine (no crash): a non-nil precommit (h, r, b) is only
  signed when +2/3 prevotes (h, r, b) of distinct validators are known to the machine — each of them
  either delivered to it by a `vote` event or signed by itself.
-/
import Goloop.Proofs.C01G1
import Goloop.Proofs.C01Abs
import Mathlib.Data.List.Nodup
import Mathlib.Data.List.Perm.Subperm
namespace Goloop.C01

/-! ### vote sets -/

def VoteSet.WF (n : Nat) (vs : VoteSet) : Prop :=
  (vs.votes.map (·.1)).Nodup ∧ ∀ e ∈ vs.votes, e.1 < n

theorem lookup_none_iff {α β : Type} [BEq α] [LawfulBEq α] (l : List (α × β)) (k : α) :
    l.lookup k = none ↔ k ∉ l.map (·.1) := by
  induction l with
  | nil => simp
  | cons e t ih =>
    obtain ⟨a, b⟩ := e
    simp only [List.lookup_cons, List.map_cons, List.mem_cons]
    by_cases h : k == a
    · have hk : k = a := by simpa using h
      simp [h, hk]
    · have hk : ¬ k = a := by simpa using h
      simp only [h]; rw [ih]; simp [hk]

theorem VoteSet.add_wf (n : Nat) (vs : VoteSet) (i : Nat) (v : Option Blk) (hw : vs.WF n) (hi : i < n) :
    (vs.add n i v).2.WF n := by
  unfold VoteSet.add VoteSet.get
  split
  · split
    · exact hw
    · split
      · exact hw
      · refine ⟨?_, ?_⟩
        · simp only [List.map_append, List.map_cons, List.map_nil]
          rw [List.nodup_append]
          refine ⟨?_, by simp, ?_⟩
          · exact (hw.1.sublist ((List.filter_sublist).map _))
          · intro a ha b hb
            simp at hb; subst hb
            simp only [List.mem_map, List.mem_filter] at ha
            obtain ⟨e, ⟨_, he⟩, rfl⟩ := ha
            simpa using he
        · intro e he
          rcases List.mem_append.mp he with h | h
          · exact hw.2 e (List.mem_of_mem_filter h)
          · simp at h; subst h; exact hi
  · rename_i hnone
    refine ⟨?_, ?_⟩
    · simp only [List.map_append, List.map_cons, List.map_nil]
      rw [List.nodup_append]
      refine ⟨hw.1, by simp, ?_⟩
      intro a ha b hb
      simp at hb; subst hb
      have := (lookup_none_iff vs.votes b).mp hnone
      intro hab; subst hab; exact this ha
    · intro e he
      rcases List.mem_append.mp he with h | h
      · exact hw.2 e h
      · simp at h; subst h; exact hi

/-- every entry of the new set is an old entry or the added vote -/
theorem VoteSet.add_mem (n : Nat) (vs : VoteSet) (i : Nat) (v : Option Blk) (e : Nat × Option Blk)
    (he : e ∈ (vs.add n i v).2.votes) : e ∈ vs.votes ∨ e = (i, v) := by
  unfold VoteSet.add at he
  split at he
  · split at he
    · exact Or.inl he
    · split at he
      · exact Or.inl he
      · rcases List.mem_append.mp he with h | h
        · exact Or.inl (List.mem_of_mem_filter h)
        · simp at h; exact Or.inr h
  · rcases List.mem_append.mp he with h | h
    · exact Or.inl h
    · simp at h; exact Or.inr h

theorem decision_count (n : Nat) (vs : VoteSet) (b : Option Blk) (h : vs.decision n = some b) :
    vs.countFor b > n * 2 / 3 := by
  unfold VoteSet.decision at h
  obtain ⟨e, _, he⟩ := List.exists_of_findSome?_eq_some h
  split at he
  · cases he; assumption
  · cases he

/-- a nodup list of naturals below n all satisfying p is no longer than the count of p below n -/
theorem nodup_length_le_countP (n : Nat) (Q : List Nat) (p : Nat → Bool) (hq : Q.Nodup)
    (hlt : ∀ i ∈ Q, i < n) (hp : ∀ i ∈ Q, p i = true) : Q.length ≤ (List.range n).countP p := by
  rw [List.countP_eq_length_filter]
  apply List.Subperm.length_le
  apply List.subperm_of_subset hq
  intro i hi
  simp only [List.mem_filter, List.mem_range]
  exact ⟨hlt i hi, hp i hi⟩

/-- the validators recorded with value `b` in a well-formed set: distinct, below n, at least countFor -/
theorem countFor_le (n : Nat) (vs : VoteSet) (b : Option Blk) (p : Nat → Bool) (hw : vs.WF n)
    (hp : ∀ e ∈ vs.votes, e.2 = b → p e.1 = true) : vs.countFor b ≤ (List.range n).countP p := by
  unfold VoteSet.countFor
  rw [List.countP_eq_length_filter]
  have hsub : ((vs.votes.filter (fun e => e.2 == b)).map (·.1)).Nodup :=
    hw.1.sublist ((List.filter_sublist).map _)
  rw [← List.length_map (f := (·.1))]
  apply nodup_length_le_countP n _ p hsub
  · intro i hi
    simp only [List.mem_map, List.mem_filter] at hi
    obtain ⟨e, ⟨he, _⟩, rfl⟩ := hi
    exact hw.2 e he
  · intro i hi
    simp only [List.mem_map, List.mem_filter] at hi
    obtain ⟨e, ⟨he, hb⟩, rfl⟩ := hi
    exact hp e he (by simpa using hb)


/-! ### height vote sets -/

theorem lookup_filter_key {α β : Type} [BEq α] [LawfulBEq α] (l : List (α × β)) (q : α → Bool) (k : α) :
    (l.filter (fun e => q e.1)).lookup k = if q k then l.lookup k else none := by
  induction l with
  | nil => simp
  | cons e t ih =>
    obtain ⟨a, b⟩ := e
    simp only [List.filter_cons]
    by_cases hqa : q a
    · simp only [hqa, if_true, List.lookup_cons]
      by_cases hk : k == a
      · have : k = a := by simpa using hk
        subst this; simp [hqa]
      · simp only [hk]; exact ih
    · simp only [hqa, Bool.false_eq_true, if_false, List.lookup_cons]
      rw [ih]
      by_cases hk : k == a
      · have : k = a := by simpa using hk
        subst this; simp [hqa]
      · simp [hk]

theorem votesFor_nil (r : Nat) (t : VType) : votesFor [] r t = {} := rfl

theorem wf_empty (n : Nat) : VoteSet.WF n {} := ⟨by simp, by intro e he; simp at he⟩

theorem votesFor_hvsPut (h : HVS) (r : Nat) (t : VType) (vs : VoteSet) (r' : Nat) (t' : VType) :
    votesFor (hvsPut h r t vs) r' t' = if (r', t') = (r, t) then vs else votesFor h r' t' := by
  unfold votesFor hvsPut
  simp only [List.lookup_cons]
  by_cases hk : (r', t') = (r, t)
  · simp [hk]
  · have hb : ((r', t') == (r, t)) = false := by simpa using hk
    simp only [hb, hk, if_false]
    rw [lookup_filter_key h (fun k => k != (r, t)) (r', t')]
    simp [hk]

theorem votesFor_removeLower (h : HVS) (lo ex : Int) (r : Nat) (t : VType) :
    votesFor (removeLowerRoundExcept h lo ex) r t = votesFor h r t ∨
    votesFor (removeLowerRoundExcept h lo ex) r t = {} := by
  unfold votesFor removeLowerRoundExcept
  rw [lookup_filter_key h (fun k => !(decide ((k.1 : Int) < lo) && decide ((k.1 : Int) ≠ ex))) (r, t)]
  split
  · left; rfl
  · right; rfl

/-! ### the G2 invariant -/

/-- a vote the machine knows of: delivered by an event (`L`) or signed by itself -/
def Known (L : List VoteRec) (sent : List Msg) (v : VoteRec) : Prop := v ∈ L ∨ Msg.vote v ∈ sent

instance (L : List VoteRec) (sent : List Msg) (v : VoteRec) : Decidable (Known L sent v) := by
  unfold Known; infer_instance

/-- +2/3 distinct validators whose prevote (h, r, b) the machine knows of -/
def polkaKnown (L : List VoteRec) (n : Nat) (sent : List Msg) (h r : Nat) (b : Blk) : Prop :=
  (List.range n).countP (fun i => decide (Known L sent ⟨i, h, .prevote, r, some b⟩)) > n * 2 / 3

structure H2 (L : List VoteRec) (s : S) : Prop where
  hv : ∀ r t, (votesFor s.hvs r t).WF s.n ∧
        ∀ e ∈ (votesFor s.hvs r t).votes, Known L (sentOf s.eff) ⟨e.1, s.height, t, r, e.2⟩
  g2 : ∀ v b, Msg.vote v ∈ sentOf s.eff → v.typ = .precommit → v.val = some b →
        polkaKnown L s.n (sentOf s.eff) v.height v.round b

/-- the fields H2 depends on -/
def gproj (s : S) : Nat × Nat × HVS × List Msg := (s.n, s.height, s.hvs, sentOf s.eff)

theorem h2_of_gproj_eq {L : List VoteRec} {s s' : S} (h : gproj s' = gproj s) (hh : H2 L s) : H2 L s' := by
  unfold gproj at h
  simp only [Prod.mk.injEq] at h
  obtain ⟨h1, h2, h3, h4⟩ := h
  exact ⟨by rw [h1, h2, h3, h4]; exact hh.hv, by rw [h1, h4]; exact hh.g2⟩

theorem known_mono {L : List VoteRec} {sent : List Msg} (m : Msg) {v : VoteRec} (h : Known L sent v) :
    Known L (sent ++ [m]) v := by
  rcases h with h | h
  · exact Or.inl h
  · exact Or.inr (List.mem_append_left _ h)

theorem polkaKnown_mono {L : List VoteRec} {n : Nat} {sent : List Msg} (m : Msg) {h r : Nat} {b : Blk}
    (hp : polkaKnown L n sent h r b) : polkaKnown L n (sent ++ [m]) h r b := by
  unfold polkaKnown at *
  have := countP_mono_imp (List.range n)
    (fun i => decide (Known L sent ⟨i, h, .prevote, r, some b⟩))
    (fun i => decide (Known L (sent ++ [m]) ⟨i, h, .prevote, r, some b⟩))
    (by intro x hx; simp only [decide_eq_true_eq] at hx ⊢; exact known_mono m hx)
  omega


section
variable {L : List VoteRec}

theorem h2_rfs (s : S) (st : Nat) (hh : H2 L s) : H2 L (s.resetForNewStep st) := by
  apply h2_of_gproj_eq _ hh
  unfold S.resetForNewStep S.beginStep S.endStep; simp only []; split <;> rfl

theorem h2_stuck (s : S) (hh : H2 L s) : H2 L { s with stuck := true } := h2_of_gproj_eq (s := s) rfl hh

theorem h2_filter (s : S) (lo ex : Int) (hh : H2 L s) :
    H2 L { s with hvs := removeLowerRoundExcept s.hvs lo ex } := by
  refine ⟨?_, hh.g2⟩
  intro r t
  show (votesFor (removeLowerRoundExcept s.hvs lo ex) r t).WF s.n ∧ _
  rcases votesFor_removeLower s.hvs lo ex r t with h | h
  · show (votesFor (removeLowerRoundExcept s.hvs lo ex) r t).WF s.n ∧
      ∀ e ∈ (votesFor (removeLowerRoundExcept s.hvs lo ex) r t).votes, Known L (sentOf s.eff) ⟨e.1, s.height, t, r, e.2⟩
    rw [h]; exact hh.hv r t
  · show (votesFor (removeLowerRoundExcept s.hvs lo ex) r t).WF s.n ∧
      ∀ e ∈ (votesFor (removeLowerRoundExcept s.hvs lo ex) r t).votes, Known L (sentOf s.eff) ⟨e.1, s.height, t, r, e.2⟩
    rw [h]; exact ⟨wf_empty _, by intro e he; simp at he⟩

theorem h2_rfr (s : S) (r : Nat) (hh : H2 L s) : H2 L (s.resetForNewRound r) := by
  have h1 := h2_filter s ((r : Int) - 1) s.lockedRound hh
  apply h2_of_gproj_eq _ h1
  unfold S.resetForNewRound S.beginStep S.resetRound_ S.endStep; simp only []; split <;> rfl

theorem h2_rfh (s : S) (h : Nat) (hh : H2 L s) : H2 L (s.resetForNewHeight h) := by
  have h1 : H2 L { s with height := h, hvs := [] } := by
    refine ⟨?_, hh.g2⟩
    intro r t
    exact ⟨wf_empty _, by intro e he; simp [votesFor] at he⟩
  apply h2_of_gproj_eq _ h1
  unfold S.resetForNewHeight S.beginStep S.resetRound_ S.endStep removeLowerRoundExcept
  simp only []; split <;> rfl

theorem h2_emit (s : S) (e : Eff) (he : ∀ m, e ≠ .send m) (hh : H2 L s) : H2 L (s.emit e) := by
  apply h2_of_gproj_eq _ hh
  unfold gproj S.emit
  simp only [sentOf_append]
  cases e <;> simp [sentOf] at he ⊢

theorem h2_send (s : S) (m : Msg) (hh : H2 L s)
    (hm : ∀ v b, m = .vote v → v.typ = .precommit → v.val = some b →
      polkaKnown L s.n (sentOf s.eff ++ [m]) v.height v.round b) : H2 L (s.emit (.send m)) := by
  have hs : sentOf (s.emit (.send m)).eff = sentOf s.eff ++ [m] := by simp
  refine ⟨?_, ?_⟩
  · intro r t
    rw [hs]
    exact ⟨(hh.hv r t).1, fun e he => known_mono m ((hh.hv r t).2 e he)⟩
  · intro v b hv ht hval
    rw [hs] at hv ⊢
    rcases List.mem_append.mp hv with h | h
    · exact polkaKnown_mono m (hh.g2 v b h ht hval)
    · simp at h; exact hm v b h.symm ht hval

theorem h2_hvsAdd (s : S) (m : VoteRec) (hh : H2 L s) (hlt : m.signer < s.n) (hht : m.height = s.height)
    (hk : Known L (sentOf s.eff) m) : H2 L (s.hvsAdd m).2 := by
  unfold S.hvsAdd
  simp only []
  split
  · refine ⟨?_, hh.g2⟩
    intro r t
    show (votesFor (hvsPut s.hvs m.round m.typ _) r t).WF s.n ∧ ∀ e ∈ (votesFor (hvsPut s.hvs m.round m.typ _) r t).votes, _
    rw [votesFor_hvsPut]
    split
    · rename_i heq
      simp only [Prod.mk.injEq] at heq
      obtain ⟨rfl, rfl⟩ := heq
      refine ⟨VoteSet.add_wf _ _ _ _ (hh.hv _ _).1 hlt, ?_⟩
      intro e he
      rcases VoteSet.add_mem _ _ _ _ e he with h | h
      · exact (hh.hv _ _).2 e h
      · subst h
        have : (⟨m.signer, s.height, m.typ, m.round, m.val⟩ : VoteRec) = m := by
          cases m; simp at hht; subst hht; rfl
        show Known L (sentOf s.eff) ⟨m.signer, s.height, m.typ, m.round, m.val⟩
        rw [this]; exact hk
    · exact hh.hv r t
  · exact hh

/-- the precondition under which `sendVote` may sign a non-nil precommit -/
def PC (s : S) (t : VType) (v : Option Blk) : Prop :=
  t = .precommit → ∀ b, v = some b → (votesFor s.hvs s.round .prevote).decision s.n = some (some b)

structure IH2 (L : List VoteRec) (f : Nat) : Prop where
  recvVote : ∀ s m, H2 L s → Known L (sentOf s.eff) m → H2 L (recvVote f s m)
  sendVote : ∀ s t v, H2 L s → PC s t v → H2 L (sendVote f s t v)
  handlePrevote : ∀ s mr, H2 L s → H2 L (handlePrevote f s mr)
  handlePrecommit : ∀ s mr, H2 L s → H2 L (handlePrecommit f s mr)
  enterPropose : ∀ s, H2 L s → H2 L (enterPropose f s)
  enterPrevote : ∀ s, H2 L s → H2 L (enterPrevote f s)
  enterPrevoteWait : ∀ s, H2 L s → H2 L (enterPrevoteWait f s)
  enterPrecommit : ∀ s, H2 L s → H2 L (enterPrecommit f s)
  enterPrecommitWait : ∀ s, H2 L s → H2 L (enterPrecommitWait f s)
  enterCommit : ∀ s b r, H2 L s → H2 L (enterCommit f s b r)
  commitAndEnterNewHeight : ∀ s, H2 L s → H2 L (commitAndEnterNewHeight f s)
  enterNewHeight : ∀ s, H2 L s → H2 L (enterNewHeight f s)
  enterNewRound : ∀ s, H2 L s → H2 L (enterNewRound f s)

theorem ih2_zero : IH2 L 0 := by
  constructor
  · intro s m h _; unfold Goloop.C01.recvVote; exact h2_stuck _ h
  · intro s t v h _; unfold Goloop.C01.sendVote; exact h2_stuck _ h
  · intro s m h; unfold Goloop.C01.handlePrevote; exact h2_stuck _ h
  · intro s m h; unfold Goloop.C01.handlePrecommit; exact h2_stuck _ h
  · intro s h; unfold Goloop.C01.enterPropose; exact h2_stuck _ h
  · intro s h; unfold Goloop.C01.enterPrevote; exact h2_stuck _ h
  · intro s h; unfold Goloop.C01.enterPrevoteWait; exact h2_stuck _ h
  · intro s h; unfold Goloop.C01.enterPrecommit; exact h2_stuck _ h
  · intro s h; unfold Goloop.C01.enterPrecommitWait; exact h2_stuck _ h
  · intro s b r h; unfold Goloop.C01.enterCommit; exact h2_stuck _ h
  · intro s h; unfold Goloop.C01.commitAndEnterNewHeight; exact h2_stuck _ h
  · intro s h; unfold Goloop.C01.enterNewHeight; exact h2_stuck _ h
  · intro s h; unfold Goloop.C01.enterNewRound; exact h2_stuck _ h

theorem s2_recvVote (f : Nat) (ih : IH2 L f) (s : S) (m : VoteRec) (hh : H2 L s)
    (hk : Known L (sentOf s.eff) m) : H2 L (recvVote (f+1) s m) := by
  unfold Goloop.C01.recvVote
  split
  · exact hh
  split
  · exact hh
  rename_i hht
  split
  · exact hh
  rename_i hlt
  have hh' : H2 L (s.hvsAdd m).2 :=
    h2_hvsAdd s m hh (by omega) (by simpa using hht) hk
  generalize s.hvsAdd m = pr at hh' ⊢
  obtain ⟨added, s'⟩ := pr
  simp only [] at hh' ⊢
  split
  · exact hh'
  split
  · exact hh'
  split
  · exact ih.handlePrevote _ _ hh'
  · exact ih.handlePrecommit _ _ hh'

theorem s2_sendVote (f : Nat) (ih : IH2 L f) (s : S) (t : VType) (v : Option Blk) (hh : H2 L s)
    (hpc : PC s t v) : H2 L (sendVote (f+1) s t v) := by
  unfold Goloop.C01.sendVote
  split
  · exact hh
  split
  · exact hh
  simp only []
  have h1 := h2_emit s (.write .round (.msg (.vote ⟨s.me, s.height, t, s.round, v⟩))) (by intro m; simp) hh
  have h2 := h2_emit _ (.sync .round) (by intro m; simp) h1
  have h3 : H2 L (((s.emit (.write .round (.msg (.vote ⟨s.me, s.height, t, s.round, v⟩)))).emit (.sync .round)).emit
      (.send (.vote ⟨s.me, s.height, t, s.round, v⟩))) := by
    apply h2_send _ _ h2
    intro v' b hm ht hval
    cases hm
    simp only [] at ht hval
    have hd := hpc ht b hval
    have hcnt := decision_count _ _ _ hd
    show polkaKnown L s.n _ s.height s.round b
    unfold polkaKnown
    refine Nat.lt_of_lt_of_le hcnt (countFor_le s.n _ (some b) _ (hh.hv _ _).1 ?_)
    intro e he heq
    simp only [decide_eq_true_eq]
    have := (hh.hv s.round .prevote).2 e he
    rw [heq] at this
    apply known_mono
    simpa using this
  apply ih.recvVote _ _ h3
  right
  simp


theorem gproj_prevoteDecision (s : S) (mr : Nat) (d : Option (Option Blk)) :
    gproj (s.prevoteDecision mr d) = gproj s := by
  unfold S.prevoteDecision S.unlock
  cases d with
  | none => rfl
  | some psid =>
    cases psid with
    | none => simp only []; split <;> rfl
    | some b => simp only []; split <;> split <;> rfl

theorem s2_handlePrevote (f : Nat) (ih : IH2 L f) (s : S) (mr : Nat) (hh : H2 L s) :
    H2 L (handlePrevote (f+1) s mr) := by
  unfold Goloop.C01.handlePrevote
  split
  · exact hh
  split
  · exact hh
  simp only []
  have hh' : H2 L (s.prevoteDecision mr ((votesFor s.hvs mr .prevote).decision s.n)) :=
    h2_of_gproj_eq (gproj_prevoteDecision _ _ _) hh
  generalize s.prevoteDecision mr ((votesFor s.hvs mr .prevote).decision s.n) = s1 at hh' ⊢
  split
  · exact ih.enterPrevote _ hh'
  split
  · exact ih.enterPrevote _ hh'
  split
  · exact ih.enterPrevoteWait _ hh'
  split
  · split
    · exact ih.enterPrecommit _ hh'
    · exact hh'
  split
  · exact ih.enterPrevote _ (h2_rfr _ _ hh')
  · exact hh'

theorem s2_handlePrecommit (f : Nat) (ih : IH2 L f) (s : S) (mr : Nat) (hh : H2 L s) :
    H2 L (handlePrecommit (f+1) s mr) := by
  unfold Goloop.C01.handlePrecommit
  split
  · exact hh
  simp only []
  split
  · split
    · exact ih.enterCommit _ _ _ hh
    · exact hh
  split
  · exact ih.enterPrecommit _ hh
  split
  · exact ih.enterPrecommitWait _ hh
  split
  · split
    · exact ih.enterCommit _ _ _ hh
    · exact ih.enterNewRound _ hh
    · exact hh
  split
  · exact ih.enterPrecommit _ (h2_rfr _ _ hh)
  · exact hh

theorem s2_enterNewRound (f : Nat) (ih : IH2 L f) (s : S) (hh : H2 L s) : H2 L (enterNewRound (f+1) s) := by
  unfold Goloop.C01.enterNewRound
  split
  · exact hh
  exact ih.enterPropose _ (h2_rfr _ _ hh)

theorem s2_enterNewHeight (f : Nat) (ih : IH2 L f) (s : S) (hh : H2 L s) : H2 L (enterNewHeight (f+1) s) := by
  unfold Goloop.C01.enterNewHeight
  split
  · exact hh
  exact ih.enterPropose _ (h2_rfs _ _ (h2_rfh _ _ hh))

theorem s2_commitAndEnterNewHeight (f : Nat) (ih : IH2 L f) (s : S) (hh : H2 L s) :
    H2 L (commitAndEnterNewHeight (f+1) s) := by
  unfold Goloop.C01.commitAndEnterNewHeight
  split
  · exact hh
  split
  · split
    · exact h2_of_gproj_eq (s := s) rfl hh
    · exact ih.enterNewHeight _
        (h2_of_gproj_eq (s := s.emit (.finalize s.height _)) rfl (h2_emit _ _ (by intro m; simp) hh))
  · exact h2_stuck _ hh

theorem s2_enterCommit (f : Nat) (ih : IH2 L f) (s : S) (b r : Nat) (hh : H2 L s) :
    H2 L (enterCommit (f+1) s b r) := by
  unfold Goloop.C01.enterCommit
  split
  · exact hh
  simp only []
  have h1 := h2_rfs s stCommit hh
  generalize s.resetForNewStep stCommit = s1 at h1 ⊢
  have h2 : H2 L ({ s1 with commitRound := (r : Int) }) := h2_of_gproj_eq (s := s1) rfl h1
  have h3 := h2_emit _ (.write .commit (.voteList (voteListOf { s1 with commitRound := (r : Int) } r .precommit))) (by intro m; simp) h2
  have h4 := h2_emit _ (.sync .commit) (by intro m; simp) h3
  generalize (({ s1 with commitRound := (r : Int) }.emit (.write .commit (.voteList (voteListOf { s1 with commitRound := (r : Int) } r .precommit)))).emit (.sync .commit)) = s2 at h4 ⊢
  split
  · split
    · exact ih.commitAndEnterNewHeight _ (h2_of_gproj_eq (s := s2) rfl h4)
    · exact h2_of_gproj_eq (s := s2) rfl h4
  · split
    · exact ih.commitAndEnterNewHeight _ (h2_of_gproj_eq (s := s2) rfl h4)
    · exact h2_of_gproj_eq (s := s2) rfl h4

theorem s2_enterPrecommitWait (f : Nat) (ih : IH2 L f) (s : S) (hh : H2 L s) :
    H2 L (enterPrecommitWait (f+1) s) := by
  unfold Goloop.C01.enterPrecommitWait
  split
  · exact hh
  simp only []
  have h1 := h2_rfs s stPrecommitWait hh
  generalize s.resetForNewStep stPrecommitWait = s1 at h1 ⊢
  have h2 := h2_emit s1 (.write .round (.voteList (voteListOf s1 s1.round .precommit))) (by intro m; simp) h1
  generalize (s1.emit (.write .round (.voteList (voteListOf s1 s1.round .precommit)))) = s2 at h2 ⊢
  split
  · exact ih.enterCommit _ _ _ h2
  · exact ih.enterNewRound _ h2
  · exact h2_of_gproj_eq (s := s2) rfl h2

theorem s2_enterPrevoteWait (f : Nat) (ih : IH2 L f) (s : S) (hh : H2 L s) :
    H2 L (enterPrevoteWait (f+1) s) := by
  unfold Goloop.C01.enterPrevoteWait
  split
  · exact hh
  simp only []
  have h1 := h2_rfs s stPrevoteWait hh
  generalize s.resetForNewStep stPrevoteWait = s1 at h1 ⊢
  have h2 := h2_emit s1 (.write .round (.voteList (voteListOf s1 s1.round .prevote))) (by intro m; simp) h1
  generalize (s1.emit (.write .round (.voteList (voteListOf s1 s1.round .prevote)))) = s2 at h2 ⊢
  split
  · exact ih.enterPrecommit _ h2
  · exact h2_of_gproj_eq (s := s2) rfl h2

theorem h2_sendProposal (s : S) (b : Blk) (pol : Int) (hh : H2 L s) : H2 L (s.sendProposal b pol) := by
  unfold S.sendProposal
  split
  · exact hh
  have h1 := h2_emit s (.write .round (.msg (.proposal s.me s.height s.round b pol))) (by intro m; simp) hh
  have h2 := h2_emit _ (.sync .round) (by intro m; simp) h1
  exact h2_send _ _ h2 (by intro v b' hm; cases hm)

theorem s2_enterPropose (f : Nat) (ih : IH2 L f) (s : S) (hh : H2 L s) : H2 L (enterPropose (f+1) s) := by
  unfold Goloop.C01.enterPropose
  split
  · exact hh
  simp only []
  have h1 := h2_rfs s stPropose hh
  generalize s.resetForNewStep stPropose = s1 at h1 ⊢
  have h2 : H2 L { s1 with timer := true } := h2_of_gproj_eq (s := s1) rfl h1
  split
  · split
    · exact h2_of_gproj_eq (s := S.sendProposal { s1 with timer := true } _ _) rfl (h2_sendProposal _ _ _ h2)
    · exact h2_of_gproj_eq (s := s1) rfl h1
  · split
    · exact ih.enterPrevote _ h2
    · exact h2

theorem t2_prevote (f : Nat) (ih : IH2 L f) (x : S) (hx : H2 L x) :
    H2 L (if x.step == stPrevote then
            if (votesFor x.hvs x.round .prevote).hasOverTwoThirds x.n then enterPrevoteWait f x else x
          else x) := by
  split
  · split
    · exact ih.enterPrevoteWait _ hx
    · exact hx
  · exact hx

theorem t2_precommit (f : Nat) (ih : IH2 L f) (x : S) (hx : H2 L x) :
    H2 L (if x.step == stPrecommit then
            if (votesFor x.hvs x.round .precommit).hasOverTwoThirds x.n then enterPrecommitWait f x else x
          else x) := by
  split
  · split
    · exact ih.enterPrecommitWait _ hx
    · exact hx
  · exact hx

theorem pc_prevote (s : S) (v : Option Blk) : PC s .prevote v := by intro h; cases h
theorem pc_nil (s : S) (t : VType) : PC s t none := by intro _ b h; cases h

theorem s2_enterPrevote (f : Nat) (ih : IH2 L f) (s : S) (hh : H2 L s) : H2 L (enterPrevote (f+1) s) := by
  unfold Goloop.C01.enterPrevote
  split
  · exact hh
  simp only []
  have h1 := h2_rfs s stPrevote hh
  generalize s.resetForNewStep stPrevote = s1 at h1 ⊢
  apply t2_prevote f ih
  split
  · exact ih.sendVote _ _ _ h1 (pc_prevote _ _)
  · split
    · split
      · exact ih.sendVote _ _ _ h1 (pc_prevote _ _)
      · split
        · exact ih.sendVote _ _ _ h1 (pc_prevote _ _)
        · exact h2_of_gproj_eq (s := s1) rfl h1
    · exact ih.sendVote _ _ _ h1 (pc_prevote _ _)

theorem s2_enterPrecommit (f : Nat) (ih : IH2 L f) (s : S) (hh : H2 L s) : H2 L (enterPrecommit (f+1) s) := by
  unfold Goloop.C01.enterPrecommit
  split
  · exact hh
  simp only []
  have h1 := h2_rfs s stPrecommit hh
  generalize s.resetForNewStep stPrecommit = s1 at h1 ⊢
  apply t2_precommit f ih
  split
  · exact ih.sendVote _ _ _ h1 (pc_nil _ _)
  · exact ih.sendVote _ _ _ (h2_of_gproj_eq (s := s1) rfl h1) (pc_nil _ _)
  · rename_i b hd
    have hpc : ∀ s' : S, s'.hvs = s1.hvs → s'.round = s1.round → s'.n = s1.n → PC s' .precommit (some b) := by
      intro s' e1 e2 e3 _ b' hb'
      cases hb'
      rw [e1, e2, e3]; exact hd
    split
    · exact ih.sendVote _ _ _ (h2_of_gproj_eq (s := s1) rfl h1) (hpc _ rfl rfl rfl)
    · split
      · apply ih.sendVote
        · apply h2_emit _ _ (by intro m; simp)
          apply h2_emit _ _ (by intro m; simp)
          apply h2_emit _ _ (by intro m; simp)
          exact h2_of_gproj_eq (s := s1) rfl h1
        · exact hpc _ rfl rfl rfl
      · exact ih.sendVote _ _ _ (h2_of_gproj_eq (s := s1) rfl h1) (pc_nil _ _)

theorem ih2_all (L : List VoteRec) : ∀ f, IH2 L f := by
  intro f
  induction f with
  | zero => exact ih2_zero
  | succ f ih =>
    exact ⟨s2_recvVote f ih, s2_sendVote f ih, s2_handlePrevote f ih, s2_handlePrecommit f ih,
      s2_enterPropose f ih, s2_enterPrevote f ih, s2_enterPrevoteWait f ih, s2_enterPrecommit f ih,
      s2_enterPrecommitWait f ih, s2_enterCommit f ih, s2_commitAndEnterNewHeight f ih,
      s2_enterNewHeight f ih, s2_enterNewRound f ih⟩


/-! ### events -/

theorem e2_recvProposal (s : S) (sg h r : Nat) (b : Blk) (pol : Int) (hh : H2 L s) :
    H2 L (recvProposal s sg h r b pol) := by
  unfold recvProposal
  split
  · exact hh
  split
  · exact hh
  split
  · exact hh
  split
  · exact hh
  split
  · exact hh
  split
  · exact hh
  simp only []
  split
  · split
    · exact (ih2_all L _).enterPrevote _ (h2_of_gproj_eq (s := s) rfl hh)
    · exact h2_of_gproj_eq (s := s) rfl hh
  · split
    · exact (ih2_all L _).enterPrevote _ (h2_of_gproj_eq (s := s) rfl hh)
    · exact h2_of_gproj_eq (s := s) rfl hh

theorem e2_recvBlockPart (s : S) (h : Nat) (b : Blk) (hh : H2 L s) : H2 L (recvBlockPart s h b) := by
  unfold recvBlockPart
  split
  · exact hh
  simp only []
  have h1 : H2 L (if (decide (s.height ≤ h) && decide (h < s.height + 3) && !s.bpm.contains b) = true
      then { s with bpm := s.bpm ++ [b] } else s) := by
    split
    · exact h2_of_gproj_eq (s := s) rfl hh
    · exact hh
  generalize (if (decide (s.height ≤ h) && decide (h < s.height + 3) && !s.bpm.contains b) = true
      then { s with bpm := s.bpm ++ [b] } else s) = s1 at h1 ⊢
  split
  · exact h1
  split
  · exact h1
  split
  · exact h1
  split
  · exact (ih2_all L _).enterPrevote _ (h2_of_gproj_eq (s := s1) rfl h1)
  split
  · exact (ih2_all L _).commitAndEnterNewHeight _ (h2_of_gproj_eq (s := s1) rfl h1)
  · exact h2_of_gproj_eq (s := s1) rfl h1

theorem e2_recvVote (s : S) (m : VoteRec) (hh : H2 L s) (hm : m ∈ L) : H2 L (recvVoteEv s m) := by
  unfold recvVoteEv
  split
  · exact hh
  · exact (ih2_all L _).recvVote _ _ hh (Or.inl hm)

theorem e2_timeout (s : S) (st : Nat) (hh : H2 L s) : H2 L (timeout s st) := by
  unfold timeout
  split
  · exact hh
  split
  · exact (ih2_all L _).enterPrevote _ hh
  split
  · exact (ih2_all L _).enterPrecommit _ hh
  split
  · exact (ih2_all L _).enterNewRound _ hh
  · exact hh

theorem gproj_markValidated (s : S) (ib : Blk) : gproj (s.markValidated ib) = gproj s := by
  unfold S.markValidated
  split
  · split <;> rfl
  · rfl

theorem e2_async (s : S) (hh : H2 L s) : H2 L (async s) := by
  unfold async
  split
  · exact hh
  have hn : H2 L { s with pend := .none } := h2_of_gproj_eq (s := s) rfl hh
  split
  · exact hh
  · unfold asyncPropose
    split
    · exact hn
    · exact (ih2_all L _).enterPrevote _
        (h2_of_gproj_eq (s := S.sendProposal { s with pend := .none } _ _) rfl (h2_sendProposal _ _ _ hn))
  · rename_i h r ib _
    unfold asyncImport
    split
    · exact hn
    have h1 : H2 L (S.markValidated { s with pend := .none } ib) :=
      h2_of_gproj_eq (gproj_markValidated _ _) hn
    simp only []
    split
    · split
      · exact (ih2_all L _).sendVote _ _ _ h1 (pc_prevote _ _)
      · exact h2_stuck _ h1
    · exact h1
  · unfold asyncCommit
    split
    · exact hn
    split
    · rename_i b v _
      exact (ih2_all L _).enterNewHeight _
        (h2_of_gproj_eq (s := S.emit { s with pend := .none, cur := .full b true } (.finalize s.height b)) rfl
          (h2_emit _ _ (by intro m; simp) (h2_of_gproj_eq (s := s) rfl hh)))
    · exact h2_stuck _ hn

theorem h2_of_nosent (s : S) (hs : sentOf s.eff = []) (hv : s.hvs = []) : H2 L s := by
  refine ⟨?_, ?_⟩
  · intro r t; rw [hv]; exact ⟨wf_empty _, by intro e he; simp [votesFor] at he⟩
  · intro v b hm; rw [hs] at hm; cases hm

theorem e2_start_fresh (s : S) (he : s.eff = []) (hns : s.started = false) : H2 L (start s) := by
  unfold start
  rw [if_neg (by simp [hns])]
  simp only [he]
  have hk := rfh_keep ({ n := s.n, me := s.me, dbHeight := s.dbHeight, eff := [], bpm := [], stuck := s.stuck } : S)
    (s.dbHeight + 1)
  have hhv : (({ n := s.n, me := s.me, dbHeight := s.dbHeight, eff := [], bpm := [], stuck := s.stuck } : S).resetForNewHeight
    (s.dbHeight + 1)).hvs = [] := by
    unfold S.resetForNewHeight S.beginStep S.resetRound_ S.endStep removeLowerRoundExcept
    simp only []; split <;> rfl
  generalize (({ n := s.n, me := s.me, dbHeight := s.dbHeight, eff := [], bpm := [], stuck := s.stuck } : S).resetForNewHeight
    (s.dbHeight + 1)) = s1 at hk hhv ⊢
  have he1 : s1.eff = [] := hk.1
  simp only [he1, walDurable_nil, applyRoundWAL_nil, applyLockWAL_nil, applyCommitWAL_nil]
  have hc : ∀ x : S, sentOf x.eff = [] → x.hvs = [] → H2 L x := h2_of_nosent
  split
  · exact (ih2_all L _).enterPropose _ (h2_rfs _ _ (hc _ rfl hhv))
  split
  · exact (ih2_all L _).enterPropose _ (hc _ rfl hhv)
  split
  · exact (ih2_all L _).enterPrevote _ (hc _ rfl hhv)
  split
  · split
    · exact (ih2_all L _).enterPrevoteWait _ (hc _ rfl hhv)
    · exact hc _ rfl hhv
  split
  · split
    · exact (ih2_all L _).enterPrecommitWait _ (hc _ rfl hhv)
    · exact hc _ rfl hhv
  · exact hc _ rfl hhv

theorem run_h2 (s : S) (evs : List Event) (hn : ∀ e ∈ evs, e.noCrash)
    (hl : ∀ m, Event.vote m ∈ evs → m ∈ L) (hh : H2 L s) : H2 L (run s evs) := by
  induction evs generalizing s with
  | nil => exact hh
  | cons e t ih =>
    unfold run
    apply ih _ (fun e' he' => hn e' (List.mem_cons_of_mem _ he')) (fun m hm => hl m (List.mem_cons_of_mem _ hm))
    have hne := hn e List.mem_cons_self
    cases e with
    | start => exact absurd hne (by simp [Event.noCrash])
    | crash c k => exact absurd hne (by simp [Event.noCrash])
    | proposal sg h r b pol => exact e2_recvProposal s sg h r b pol hh
    | blockPart h b => exact e2_recvBlockPart s h b hh
    | vote m => exact e2_recvVote s m hh (hl m List.mem_cons_self)
    | timeout st => exact e2_timeout s st hh
    | async => exact e2_async s hh

end
end Goloop.C01
