/-
  Proofs/C17Defs: specification-level definitions shared by the C17/C18 proofs
  (normal form, in-order entries, decoded view of a serialised node).
-/
import Goloop.Model.C17
import Goloop.Model.C18
namespace Goloop.C17

/-- number of entries held directly by a branch: live children + (1 if it has a value) -/
def branchArity (ch : Fin 16 → Node) (v : Option Bytes) : Nat :=
  (live ch).length + (if v.isSome then 1 else 0)

/-- normal form of a non-empty node: extension keys non-empty and followed by a branch;
    every branch holds at least two entries; children are empty or in normal form. -/
def NFn : Node → Prop
  | .empty => False
  | .leaf _ _ => True
  | .ext ks nx => ks ≠ [] ∧ (∃ c w, nx = .branch c w) ∧ NFn nx
  | .branch ch v => (∀ i, (ch i) = .empty ∨ NFn (ch i)) ∧ 2 ≤ branchArity ch v

/-- normal form of a trie root -/
def NF (t : Node) : Prop := t = .empty ∨ NFn t

/-- the stored pairs in key order, keys relative to the node -/
def entries : Node → List (List Nibble × Bytes)
  | .empty => []
  | .leaf ks v => [(ks, v)]
  | .ext ks nx => (entries nx).map fun e => (ks ++ e.1, e.2)
  | .branch ch v =>
    (match v with | some x => [([], x)] | none => []) ++
      (List.finRange 16).flatMap fun i => (entries (ch i)).map fun e => (i :: e.1, e.2)

/-- no empty value is stored at a branch node (the values a reload would drop) -/
def NoEmptyBranchVal : Node → Prop
  | .empty => True
  | .leaf _ _ => True
  | .ext _ nx => NoEmptyBranchVal nx
  | .branch ch v => v ≠ some [] ∧ ∀ i, NoEmptyBranchVal (ch i)

end Goloop.C17

namespace Goloop.C18
open Goloop.C17

/-- what `deserialize` returns for `serialize H n`: children that serialise to more than
    32 bytes appear as hash references, nil children as `.nil`, the rest embedded;
    an empty branch value is read back as none. -/
def toP (H : Bytes → Bytes) : Node → PNode
  | .empty => .nil
  | .leaf ks v => .leaf ks v
  | .ext ks nx =>
    .ext ks (if (serialize H nx).length > 32 then .hash (H (serialize H nx)) else toP H nx)
  | .branch ch v =>
    .branch (fun i => if (serialize H (ch i)).length > 32 then .hash (H (serialize H (ch i)))
                      else toP H (ch i))
      (match v with | some [] => none | w => w)

/-- all stored values are shorter than 2^64 bytes (RLP long form fits 8 length bytes) -/
def SmallVals : Node → Prop
  | .empty => True
  | .leaf _ v => v.length < 2 ^ 64
  | .ext _ nx => SmallVals nx
  | .branch ch v => (∀ x, v = some x → x.length < 2 ^ 64) ∧ ∀ i, SmallVals (ch i)

end Goloop.C18
