/-
  Proofs/C01Abs — quorum intersection and abstract agreement for the message soup.
-/
import Goloop.Model.C01Abs
namespace Goloop.C01

theorem over23_iff (n k : Nat) : over23 n k ↔ 3 * k > 2 * n := by
  unfold over23; omega

/-! ### counting -/

theorem countP_incl_excl (l : List Nat) (p q : Nat → Bool) :
    l.countP p + l.countP q = l.countP (fun x => p x || q x) + l.countP (fun x => p x && q x) := by
  induction l with
  | nil => simp
  | cons a t ih =>
    simp only [List.countP_cons]
    cases hp : p a <;> cases hq : q a <;> simp <;> omega

theorem countP_inter_gt (l : List Nat) (p q byz : Nat → Bool)
    (h : l.countP (fun x => p x && q x) > l.countP byz) :
    ∃ x ∈ l, p x = true ∧ q x = true ∧ byz x = false := by
  induction l with
  | nil => simp at h
  | cons a t ih =>
    simp only [List.countP_cons] at h
    by_cases hpa : (p a && q a) = true
    · cases hb : byz a
      · simp only [Bool.and_eq_true] at hpa
        exact ⟨a, List.mem_cons_self, hpa.1, hpa.2, hb⟩
      · simp [hpa, hb] at h
        obtain ⟨x, hx, r⟩ := ih (by omega)
        exact ⟨x, List.mem_cons_of_mem _ hx, r⟩
    · have hpa' : (p a && q a) = false := by simpa using hpa
      simp only [hpa'] at h
      have : t.countP (fun x => p x && q x) > t.countP byz := by
        cases hb : byz a <;> simp [hb] at h <;> omega
      obtain ⟨x, hx, r⟩ := ih this
      exact ⟨x, List.mem_cons_of_mem _ hx, r⟩

theorem quorum_intersection (n : Nat) (byz p q : Nat → Bool) (hb : fewByz n byz)
    (hp : over23 n ((List.range n).countP p)) (hq : over23 n ((List.range n).countP q)) :
    ∃ i, i < n ∧ p i = true ∧ q i = true ∧ byz i = false := by
  rw [over23_iff] at hp hq
  unfold fewByz at hb
  have ie := countP_incl_excl (List.range n) p q
  have le : (List.range n).countP (fun x => p x || q x) ≤ n := by
    have := List.countP_le_length (p := fun x => p x || q x) (l := List.range n)
    simpa using this
  obtain ⟨x, hx, r⟩ := countP_inter_gt (List.range n) p q byz (by omega)
  exact ⟨x, List.mem_range.mp hx, r⟩

theorem quorum_has_correct (n : Nat) (byz p : Nat → Bool) (hb : fewByz n byz)
    (hp : over23 n ((List.range n).countP p)) :
    ∃ i, i < n ∧ p i = true ∧ byz i = false := by
  obtain ⟨i, hi, h1, _, h3⟩ := quorum_intersection n byz p p hb hp hp
  exact ⟨i, hi, h1, h3⟩

/-! ### monotonicity of the soup -/

theorem countP_mono_imp (l : List Nat) (p q : Nat → Bool) (h : ∀ x, p x = true → q x = true) :
    l.countP p ≤ l.countP q := by
  induction l with
  | nil => simp
  | cons a t ih =>
    simp only [List.countP_cons]
    cases hp : p a
    · simp; omega
    · simp [h a hp]; omega

theorem voters_mono (n : Nat) (S S' : List Vote) (t : VType) (r : Nat) (v : Option Nat)
    (h : ∀ x ∈ S, x ∈ S') : voters n S t r v ≤ voters n S' t r v := by
  unfold voters
  apply countP_mono_imp
  intro x hx
  simp only [decide_eq_true_eq] at hx ⊢
  exact h _ hx

theorem polka_mono (n : Nat) (S S' : List Vote) (r : Nat) (v : Option Nat)
    (h : ∀ x ∈ S, x ∈ S') (hp : polka n S r v) : polka n S' r v := by
  unfold polka over23 at *
  have := voters_mono n S S' .prevote r v h
  omega

theorem take_sub (H : List Vote) (s t : Nat) (h : s ≤ t) : ∀ x ∈ H.take s, x ∈ H.take t := by
  intro x hx
  rw [List.mem_take_iff_getElem] at hx ⊢
  obtain ⟨i, hi, rfl⟩ := hx
  exact ⟨i, by omega, rfl⟩

theorem polka_take_mono (n : Nat) (H : List Vote) (s t r : Nat) (v : Option Nat) (h : s ≤ t)
    (hp : polka n (H.take s) r v) : polka n (H.take t) r v :=
  polka_mono n _ _ r v (take_sub H s t h) hp

theorem polka_of_take (n : Nat) (H : List Vote) (t r : Nat) (v : Option Nat)
    (hp : polka n (H.take t) r v) : polka n H r v :=
  polka_mono n _ _ r v (fun _ hx => List.mem_of_mem_take hx) hp

theorem not_polka_nil (n r : Nat) (v : Option Nat) : ¬ polka n [] r v := by
  unfold polka over23 voters
  simp

/-! ### the "first offending polka in time" argument -/

/-- If +2/3 precommitted `b` in round `r1`, no polka for anything else (nil included) can ever
    appear in a later round. -/
theorem no_offending_polka (n : Nat) (byz : Nat → Bool) (H : List Vote)
    (hb : fewByz n byz) (G : Guarantees n byz H) (r1 b1 : Nat) (c1 : commitQ n H r1 b1) :
    ∀ t r'' y, r1 < r'' → y ≠ some b1 → ¬ polka n (H.take t) r'' y := by
  intro t
  induction t using Nat.strongRecOn with
  | _ t ih =>
    intro r'' y hr hy hp
    -- a correct validator in both quorums
    obtain ⟨i, _, hpi, hqi, hbi⟩ := quorum_intersection n byz
      (fun i => decide ((⟨i, .prevote, r'', y⟩ : Vote) ∈ H.take t))
      (fun i => decide ((⟨i, .precommit, r1, some b1⟩ : Vote) ∈ H)) hb hp c1
    simp only [decide_eq_true_eq] at hpi hqi
    -- positions
    rw [List.mem_take_iff_getElem] at hpi
    obtain ⟨s, hs, hws⟩ := hpi
    have hs' : s < H.length := by omega
    have hst : s < t := by omega
    have hw : H[s]? = some (⟨i, .prevote, r'', y⟩ : Vote) := by
      rw [List.getElem?_eq_getElem hs', hws]
    obtain ⟨s', hs'l, hvs⟩ := List.mem_iff_getElem.mp hqi
    have hv : H[s']? = some (⟨i, .precommit, r1, some b1⟩ : Vote) := by
      rw [List.getElem?_eq_getElem hs'l, hvs]
    -- the precommit comes first (G0), so G3 applies
    have hlt : s' < s := by
      rcases Nat.lt_trichotomy s' s with h | h | h
      · exact h
      · subst h; rw [hv] at hw; cases hw
      · have := G.g0 s s' _ _ h hw hv rfl hbi
        simp at this; omega
    obtain ⟨r3, y3, h1, _, h3, h4⟩ :=
      G.g3 s' s _ _ b1 hlt hv hw rfl hbi rfl rfl rfl hr hy
    exact ih s hst r3 y3 h1 h3 h4

theorem agreement_le (n : Nat) (byz : Nat → Bool) (H : List Vote)
    (hb : fewByz n byz) (G : Guarantees n byz H)
    (r1 b1 r2 b2 : Nat) (hle : r1 ≤ r2) (c1 : commitQ n H r1 b1) (c2 : commitQ n H r2 b2) :
    b1 = b2 := by
  rcases Nat.eq_or_lt_of_le hle with heq | hlt
  · -- same round: a correct validator precommitted both
    subst heq
    obtain ⟨i, _, hpi, hqi, hbi⟩ := quorum_intersection n byz
      (fun i => decide ((⟨i, .precommit, r1, some b1⟩ : Vote) ∈ H))
      (fun i => decide ((⟨i, .precommit, r1, some b2⟩ : Vote) ∈ H)) hb c1 c2
    simp only [decide_eq_true_eq] at hpi hqi
    have := G.g1 _ _ hpi hqi rfl hbi rfl rfl
    simpa using this
  · -- later round: its precommits need a polka (G2), which would be offending
    by_cases hbb : b2 = b1
    · exact hbb.symm
    · exfalso
      obtain ⟨j, _, hpj, hbj⟩ := quorum_has_correct n byz
        (fun i => decide ((⟨i, .precommit, r2, some b2⟩ : Vote) ∈ H)) hb c2
      simp only [decide_eq_true_eq] at hpj
      obtain ⟨t, htl, hvt⟩ := List.mem_iff_getElem.mp hpj
      have hv : H[t]? = some (⟨j, .precommit, r2, some b2⟩ : Vote) := by
        rw [List.getElem?_eq_getElem htl, hvt]
      have hp := G.g2 t _ b2 hv hbj rfl rfl
      exact no_offending_polka n byz H hb G r1 b1 c1 t r2 (some b2) hlt
        (by intro h; exact hbb (Option.some.inj h)) hp

/-- **Abstract agreement.**  For every history of the message soup (any length, any number of
    validators, any number of rounds, Byzantine validators voting arbitrarily) in which the correct
    validators keep G0–G3, two commit quorums (+2/3 precommits in one round) name the same block. -/
theorem agreement_abs (n : Nat) (byz : Nat → Bool) (H : List Vote)
    (hb : fewByz n byz) (G : Guarantees n byz H)
    (r1 b1 r2 b2 : Nat) (c1 : commitQ n H r1 b1) (c2 : commitQ n H r2 b2) : b1 = b2 := by
  rcases Nat.le_total r1 r2 with h | h
  · exact agreement_le n byz H hb G r1 b1 r2 b2 h c1 c2
  · exact (agreement_le n byz H hb G r2 b2 r1 b1 h c2 c1).symm

end Goloop.C01
