/-
  Proofs/C10: helper lemmas for the C10 theorems (invariant of the concurrent
  executor's transition system, termination measure, sequential loop).
-/
import Goloop.Model.C10
namespace Goloop.C10.Proofs
open Goloop.C10

/-! ### per-transaction loops -/

theorem workerIter_again_lt {t : Tx} {i k : Nat} (h : workerIter t i k = .again) : k < retryCount := by
  unfold workerIter at h
  split at h <;> try contradiction
  split at h <;> try contradiction
  omega

theorem seqIter_again_lt {t : Tx} {i k : Nat} (h : seqIter t i k = .again) : k < retryCount := by
  unfold seqIter at h
  split at h <;> try contradiction
  split at h <;> try contradiction
  split at h <;> try contradiction
  omega

/-- from an attempt whose handler exists, the worker loop and the sequential loop agree -/
theorem wFrom_eq_seqFrom (t : Tx) (i : Nat) : ∀ f k, t.att k ≠ .hfail → wFrom t i f k = seqFrom t i f k := by
  intro f
  induction f with
  | zero => intro k _; rfl
  | succ f ih =>
    intro k hk
    unfold wFrom seqFrom workerIter seqIter
    simp only [hk, if_false]
    cases hres : (t.att k).res with
    | succ => rfl
    | fail => rfl
    | retry =>
      simp only
      by_cases hge : k ≥ retryCount
      · simp [hge]
      · simp only [hge, if_false]
        by_cases hh : t.att (k + 1) = .hfail
        · simp only [hh, if_true]
          cases f with
          | zero => rfl
          | succ f' => simp [seqFrom, seqIter, hh]
        · simp only [hh, if_false]
          exact ih (k + 1) hh

theorem txPar_eq_txSeq (t : Tx) (i : Nat) (hp : t.prep = false) : txPar t i = txSeq t i := by
  unfold txPar txSeq
  by_cases h0 : t.att 0 = .hfail
  · simp [h0, seqFrom, seqIter]
  · simp only [h0, if_false, hp]
    exact wFrom_eq_seqFrom t i _ 0 h0

theorem txPar_ok_prep {t : Tx} {i k : Nat} (h : txPar t i = .ok k) : t.prep = false := by
  unfold txPar at h
  split at h; · contradiction
  split at h; · contradiction
  simp_all

/-! ### sequential executor -/

theorem seqLoop_ok : ∀ (txs : List Tx) (cnt : Nat) (buf out : Buf),
    cnt + txs.length ≤ buf.length → seqLoop txs cnt buf = .ok out →
    out.length = buf.length ∧ (∀ p, p < cnt → out[p]? = buf[p]?) ∧
    ∀ j (h : j < txs.length), ∃ k, out[cnt + j]? = some (some k) ∧ txSeq txs[j] (cnt + j) = .ok k := by
  intro txs
  induction txs with
  | nil =>
    intro cnt buf out _ h
    simp [seqLoop] at h
    subst h
    simp
  | cons t rest ih =>
    intro cnt buf out hlen h
    simp only [seqLoop] at h
    cases hr : txSeq t cnt with
    | error e => simp [hr] at h
    | ok k =>
      simp only [hr] at h
      simp only [List.length_cons] at hlen
      have := ih (cnt + 1) (buf.set cnt (some k)) out (by simp; omega) h
      obtain ⟨h1, h2, h3⟩ := this
      refine ⟨by simpa using h1, ?_, ?_⟩
      · intro p hp
        rw [h2 p (by omega), List.getElem?_set_ne (by omega)]
      · intro j hj
        cases j with
        | zero =>
          refine ⟨k, ?_, by simpa using hr⟩
          rw [Nat.add_zero, h2 cnt (by omega), List.getElem?_set_self (by omega)]
        | succ j =>
          simp only [List.length_cons] at hj
          obtain ⟨k', hk1, hk2⟩ := h3 j (by omega)
          refine ⟨k', ?_, ?_⟩
          · rw [← hk1]; congr 1; omega
          · simp only [List.getElem_cons_succ]
            rw [← hk2]; congr 1; omega

theorem seqLoop_error : ∀ (txs : List Tx) (cnt : Nat) (buf : Buf) (e : Err),
    seqLoop txs cnt buf = .error e →
    ∃ j, ∃ h : j < txs.length, txSeq txs[j] (cnt + j) = .error e ∧
      ∀ j' (h' : j' < j), ∃ k, txSeq (txs[j']'(by omega)) (cnt + j') = .ok k := by
  intro txs
  induction txs with
  | nil => intro cnt buf e h; simp [seqLoop] at h
  | cons t rest ih =>
    intro cnt buf e h
    simp only [seqLoop] at h
    cases hr : txSeq t cnt with
    | error e' =>
      simp only [hr] at h
      injection h with h; subst h
      exact ⟨0, by simp, by simpa using hr, by intro j' h'; omega⟩
    | ok k =>
      simp only [hr] at h
      obtain ⟨j, hj, hj1, hj2⟩ := ih (cnt + 1) _ e h
      refine ⟨j + 1, by simp; omega, ?_, ?_⟩
      · simp only [List.getElem_cons_succ]
        rw [← hj1]; congr 1; omega
      · intro j' h'
        cases j' with
        | zero => exact ⟨k, by simpa using hr⟩
        | succ j' =>
          obtain ⟨k', hk'⟩ := hj2 j' (by omega)
          refine ⟨k', ?_⟩
          simp only [List.getElem_cons_succ]
          rw [← hk']; congr 1; omega

theorem seqLoop_not_stuck : ∀ (txs : List Tx) (cnt : Nat) (buf : Buf), seqLoop txs cnt buf ≠ .stuck := by
  intro txs
  induction txs with
  | nil => intro cnt buf; simp [seqLoop]
  | cons t rest ih =>
    intro cnt buf
    simp only [seqLoop]
    cases txSeq t cnt with
    | error e => simp
    | ok k => exact ih _ _

/-! ### concurrent executor: invariant -/

theorem upd_same {α : Type} (f : Nat → α) (i : Nat) (v : α) : upd f i v i = v := by simp [upd]
theorem upd_ne {α : Type} (f : Nat → α) {i j : Nat} (v : α) (h : j ≠ i) : upd f i v j = f j := by
  simp [upd, h]

/-- facts about finished / running workers and the latch (independent of the dispatcher) -/
structure Core (c : Cfg) (ws : Nat → WSt) (latch : Option Err) (buf : Nat → Option Nat) : Prop where
  done : ∀ j, j < c.n → ws j = .done →
    (∃ k, buf j = some k ∧ txPar (c.tx j) j = .ok k) ∨
    (latch ≠ none ∧ ∃ e, txPar (c.tx j) j = .error e)
  blk : ∀ j k, j < c.n → ws j = .blocked k →
    k ≤ retryCount ∧ txPar (c.tx j) j = wFrom (c.tx j) j (retryCount + 1 - k) k
  lat : ∀ e, latch = some e → ∃ j, j < c.n ∧ txPar (c.tx j) j = .error e

theorem txPar_launch {t : Tx} {i : Nat} (h0 : t.att 0 ≠ .hfail) (hp : t.prep = false) :
    txPar t i = wFrom t i (retryCount + 1 - 0) 0 := by
  simp [txPar, h0, hp]

theorem core_launch {c : Cfg} {ws latch buf} (h : Core c ws latch buf) {i : Nat}
    (h0 : (c.tx i).att 0 ≠ .hfail) (hp : (c.tx i).prep = false) :
    Core c (upd ws i (.blocked 0)) latch buf := by
  refine ⟨?_, ?_, h.lat⟩
  · intro j hj hd
    by_cases hji : j = i
    · subst hji; simp [upd_same] at hd
    · rw [upd_ne _ _ hji] at hd; exact h.done j hj hd
  · intro j k hj hb
    by_cases hji : j = i
    · subst hji
      rw [upd_same] at hb
      injection hb with hb; subst hb
      exact ⟨Nat.zero_le _, txPar_launch h0 hp⟩
    · rw [upd_ne _ _ hji] at hb; exact h.blk j k hj hb

theorem wFrom_unfold (t : Tx) (i k : Nat) (hk : k ≤ retryCount) :
    wFrom t i (retryCount + 1 - k) k =
      match workerIter t i k with
      | .receipt r => .ok r
      | .report e => .error e
      | .again => wFrom t i (retryCount + 1 - (k + 1)) (k + 1) := by
  have : retryCount + 1 - k = (retryCount + 1 - (k + 1)) + 1 := by omega
  rw [this, wFrom]
  rfl

theorem core_again {c : Cfg} {ws latch buf} (h : Core c ws latch buf) {j k : Nat} (hj : j < c.n)
    (hb : ws j = .blocked k) (hi : workerIter (c.tx j) j k = .again) :
    Core c (upd ws j (.blocked (k + 1))) latch buf := by
  obtain ⟨hk, htx⟩ := h.blk j k hj hb
  have hlt := workerIter_again_lt hi
  refine ⟨?_, ?_, h.lat⟩
  · intro j' hj' hd
    by_cases hji : j' = j
    · subst hji; simp [upd_same] at hd
    · rw [upd_ne _ _ hji] at hd; exact h.done j' hj' hd
  · intro j' k' hj' hb'
    by_cases hji : j' = j
    · subst hji
      rw [upd_same] at hb'
      injection hb' with hb'; subst hb'
      refine ⟨by omega, ?_⟩
      rw [htx, wFrom_unfold _ _ _ hk, hi]
    · rw [upd_ne _ _ hji] at hb'; exact h.blk j' k' hj' hb'

theorem core_receipt {c : Cfg} {ws latch buf} (h : Core c ws latch buf) {j k r : Nat} (hj : j < c.n)
    (hb : ws j = .blocked k) (hi : workerIter (c.tx j) j k = .receipt r) :
    Core c (upd ws j .done) latch (upd buf j (some r)) := by
  obtain ⟨hk, htx⟩ := h.blk j k hj hb
  refine ⟨?_, ?_, h.lat⟩
  · intro j' hj' hd
    by_cases hji : j' = j
    · subst hji
      left
      refine ⟨r, upd_same _ _ _, ?_⟩
      rw [htx, wFrom_unfold _ _ _ hk, hi]
    · rw [upd_ne _ _ hji] at hd
      rw [upd_ne _ _ hji]
      exact h.done j' hj' hd
  · intro j' k' hj' hb'
    by_cases hji : j' = j
    · subst hji; simp [upd_same] at hb'
    · rw [upd_ne _ _ hji] at hb'; exact h.blk j' k' hj' hb'

theorem report_fixed_ne_none (latch : Option Err) (e : Err) : report true latch e ≠ none := by
  cases latch <;> simp [report]

theorem report_fixed_cases (latch : Option Err) (e x : Err) (h : report true latch e = some x) :
    latch = some x ∨ (latch = none ∧ x = e) := by
  cases latch with
  | none => simp [report] at h; exact Or.inr ⟨rfl, h.symm⟩
  | some y => simp [report] at h; exact Or.inl (by rw [h])

theorem core_report {c : Cfg} {ws latch buf} (h : Core c ws latch buf) {j k : Nat} {e : Err} (hj : j < c.n)
    (hb : ws j = .blocked k) (hi : workerIter (c.tx j) j k = .report e) :
    Core c (upd ws j .done) (report true latch e) buf := by
  obtain ⟨hk, htx⟩ := h.blk j k hj hb
  have herr : txPar (c.tx j) j = .error e := by rw [htx, wFrom_unfold _ _ _ hk, hi]
  refine ⟨?_, ?_, ?_⟩
  · intro j' hj' hd
    by_cases hji : j' = j
    · subst hji
      exact Or.inr ⟨report_fixed_ne_none _ _, e, herr⟩
    · rw [upd_ne _ _ hji] at hd
      rcases h.done j' hj' hd with h1 | ⟨_, h2⟩
      · exact Or.inl h1
      · exact Or.inr ⟨report_fixed_ne_none _ _, h2⟩
  · intro j' k' hj' hb'
    by_cases hji : j' = j
    · subst hji; simp [upd_same] at hb'
    · rw [upd_ne _ _ hji] at hb'; exact h.blk j' k' hj' hb'
  · intro x hx
    rcases report_fixed_cases _ _ _ hx with h1 | ⟨_, h2⟩
    · exact h.lat x h1
    · subst h2; exact ⟨j, hj, herr⟩

/-! ### sums over the worker table -/

def sumTo (f : Nat → Nat) : Nat → Nat
  | 0 => 0
  | n + 1 => sumTo f n + f n

theorem sumTo_upd_ge {α : Type} (f : Nat → α) (g : α → Nat) (i : Nat) (v : α) :
    ∀ n, n ≤ i → sumTo (fun j => g (upd f i v j)) n = sumTo (fun j => g (f j)) n := by
  intro n
  induction n with
  | zero => intro _; rfl
  | succ n ih =>
    intro h
    simp only [sumTo]
    rw [ih (by omega), upd_ne _ _ (by omega)]

theorem sumTo_upd {α : Type} (f : Nat → α) (g : α → Nat) (i : Nat) (v : α) :
    ∀ n, i < n → sumTo (fun j => g (upd f i v j)) n + g (f i) = sumTo (fun j => g (f j)) n + g v := by
  intro n
  induction n with
  | zero => intro h; omega
  | succ n ih =>
    intro h
    simp only [sumTo]
    by_cases hi : i = n
    · subst hi
      rw [sumTo_upd_ge f g i v i (Nat.le_refl _), upd_same]
      omega
    · rw [upd_ne _ _ (by omega)]
      have := ih (by omega)
      omega

theorem sumTo_zero (f : Nat → Nat) (h : ∀ j, f j = 0) : ∀ n, sumTo f n = 0 := by
  intro n
  induction n with
  | zero => rfl
  | succ n ih => simp [sumTo, ih, h]

theorem sumTo_pos (f : Nat → Nat) : ∀ n, 0 < sumTo f n → ∃ j, j < n ∧ 0 < f j := by
  intro n
  induction n with
  | zero => intro h; simp [sumTo] at h
  | succ n ih =>
    intro h
    simp only [sumTo] at h
    by_cases hn : 0 < f n
    · exact ⟨n, by omega, hn⟩
    · obtain ⟨j, hj, hf⟩ := ih (by omega)
      exact ⟨j, by omega, hf⟩

theorem sumTo_ge (f : Nat → Nat) : ∀ n j, j < n → f j ≤ sumTo f n := by
  intro n
  induction n with
  | zero => intro j h; omega
  | succ n ih =>
    intro j h
    simp only [sumTo]
    by_cases hj : j = n
    · subst hj; omega
    · have := ih j (by omega); omega

def nbW : WSt → Nat
  | .blocked _ => 1
  | _ => 0

/-- weight of a worker in the termination measure -/
def wm : WSt → Nat
  | .idle => retryCount + 3
  | .blocked k => retryCount + 1 - k
  | .done => 0

def dw : Disp → Nat
  | .gate _ => 1
  | _ => 0

def nb (c : Cfg) (ws : Nat → WSt) : Nat := sumTo (fun j => nbW (ws j)) c.n
def wsum (c : Cfg) (ws : Nat → WSt) : Nat := sumTo (fun j => wm (ws j)) c.n
def mu (c : Cfg) (s : PS) : Nat := wsum c s.ws + dw s.disp

/-! ### dispatcher position -/

def PosAt (ws : Nat → WSt) (i : Nat) : Prop :=
  (∀ j, j < i → ws j ≠ .idle) ∧ (∀ j, i ≤ j → ws j = .idle)

def Pos (c : Cfg) (disp : Disp) (tokens : Nat) (ws : Nat → WSt) (latch : Option Err) : Prop :=
  match disp with
  | .gate i => i < c.n ∧ PosAt ws i ∧ tokens + nb c ws = c.level
  | .ready i => i < c.n ∧ PosAt ws i ∧ tokens = 0 ∧ nb c ws = c.level ∧
      (c.tx i).att 0 ≠ .hfail ∧ (c.tx i).prep = false
  | .realize => (∀ j, j < c.n → ws j ≠ .idle) ∧ ∃ j, j < c.n ∧ isBlocked (ws j) = true
  | .fin none => (∀ j, j < c.n → ws j = .done) ∧ latch = none
  | .fin (some e) => ∃ j, j < c.n ∧ txPar (c.tx j) j = .error e

def Inv (c : Cfg) (s : PS) : Prop :=
  Core c s.ws s.latch s.buf ∧ Pos c s.disp s.tokens s.ws s.latch

def isFin (s : PS) : Prop := ∃ r, s.disp = .fin r

theorem noneBlocked_false {c : Cfg} {s : PS} (h : noneBlocked c s = false) :
    ∃ j, j < c.n ∧ isBlocked (s.ws j) = true := by
  unfold noneBlocked at h
  rw [List.all_eq_false] at h
  obtain ⟨j, hj, hb⟩ := h
  refine ⟨j, List.mem_range.mp hj, ?_⟩
  simpa using hb

theorem noneBlocked_true {c : Cfg} {s : PS} (h : noneBlocked c s = true) :
    ∀ j, j < c.n → isBlocked (s.ws j) = false := by
  unfold noneBlocked at h
  rw [List.all_eq_true] at h
  intro j hj
  have := h j (List.mem_range.mpr hj)
  simpa using this

theorem not_idle_not_blocked_done {w : WSt} (h1 : w ≠ .idle) (h2 : isBlocked w = false) : w = .done := by
  cases w <;> simp_all [isBlocked]

/-- entering / re-evaluating the final wait -/
theorem inv_tryRealize {c : Cfg} (hf : c.fixed = true) {s : PS}
    (hc : Core c s.ws s.latch s.buf) (hd : s.disp = .realize) (hni : ∀ j, j < c.n → s.ws j ≠ .idle) :
    Inv c (tryRealize c s) ∧ wsum c (tryRealize c s).ws = wsum c s.ws ∧ dw (tryRealize c s).disp = 0 := by
  by_cases hnb : noneBlocked c s = true
  · have e : tryRealize c s = { s with disp := .fin s.latch } := by simp [tryRealize, hnb, hf]
    rw [e]
    refine ⟨⟨hc, ?_⟩, rfl, rfl⟩
    show Pos c (.fin s.latch) s.tokens s.ws s.latch
    cases hl : s.latch with
    | none =>
      exact ⟨fun j hj => not_idle_not_blocked_done (hni j hj) (noneBlocked_true hnb j hj), rfl⟩
    | some e =>
      exact hc.lat e hl
  · have hnb' : noneBlocked c s = false := by simpa using hnb
    have e : tryRealize c s = s := by simp [tryRealize, hnb']
    rw [e]
    refine ⟨⟨hc, ?_⟩, rfl, by rw [hd]; rfl⟩
    rw [hd]
    exact ⟨hni, noneBlocked_false hnb'⟩

/-- the loop head for index `i` -/
theorem inv_head {c : Cfg} (hf : c.fixed = true) {s : PS} {i : Nat}
    (hc : Core c s.ws s.latch s.buf) (hi : i ≤ c.n) (hp : PosAt s.ws i)
    (ht : s.tokens + nb c s.ws = c.level) :
    Inv c (head c s i) ∧ wsum c (head c s i).ws = wsum c s.ws ∧ dw (head c s i).disp ≤ 1 := by
  unfold head
  by_cases hge : i ≥ c.n
  · simp only [hge, if_true]
    have hin : i = c.n := by omega
    have := inv_tryRealize hf (s := { s with disp := .realize }) hc rfl
      (fun j hj => hp.1 j (by omega))
    exact ⟨this.1, this.2.1, by rw [this.2.2]; omega⟩
  · simp only [hge, if_false]
    cases hl : s.latch with
    | some e =>
      refine ⟨⟨by simpa [hl] using hc, ?_⟩, rfl, by simp [dw]⟩
      simp only [Pos]
      exact hc.lat e hl
    | none =>
      refine ⟨⟨by simpa [hl] using hc, ?_⟩, rfl, by simp [dw]⟩
      simp only [Pos]
      exact ⟨by omega, hp, ht⟩

theorem posAt_idle {ws : Nat → WSt} {i : Nat} (hp : PosAt ws i) : ws i = .idle := hp.2 i (Nat.le_refl _)

theorem posAt_launch {ws : Nat → WSt} {i : Nat} (hp : PosAt ws i) : PosAt (upd ws i (.blocked 0)) (i + 1) := by
  refine ⟨?_, ?_⟩
  · intro j hj
    by_cases hji : j = i
    · subst hji; simp [upd_same]
    · rw [upd_ne _ _ hji]; exact hp.1 j (by omega)
  · intro j hj
    rw [upd_ne _ _ (by omega)]; exact hp.2 j (by omega)

/-- `ec.Ready()` succeeded for index `i` -/
theorem inv_launch {c : Cfg} (hf : c.fixed = true) {s : PS} {i : Nat}
    (hc : Core c s.ws s.latch s.buf) (hi : i < c.n) (hp : PosAt s.ws i)
    (h0 : (c.tx i).att 0 ≠ .hfail) (hpr : (c.tx i).prep = false)
    (htok : s.tokens > 0) (ht : s.tokens + nb c s.ws = c.level) :
    Inv c (launch c s i) ∧ wsum c (launch c s i).ws + 2 = wsum c s.ws ∧ dw (launch c s i).disp ≤ 1 := by
  unfold launch
  have hidle := posAt_idle hp
  have hnb : nb c (upd s.ws i (.blocked 0)) = nb c s.ws + 1 := by
    have := sumTo_upd s.ws nbW i (.blocked 0) c.n hi
    have e1 : nbW (s.ws i) = 0 := by rw [hidle]; rfl
    have e2 : nbW (.blocked 0) = 1 := rfl
    rw [e1, e2] at this
    simpa [nb] using this
  have hws : wsum c (upd s.ws i (.blocked 0)) + 2 = wsum c s.ws := by
    have := sumTo_upd s.ws wm i (.blocked 0) c.n hi
    have e1 : wm (s.ws i) = retryCount + 3 := by rw [hidle]; rfl
    have e2 : wm (.blocked 0) = retryCount + 1 := rfl
    rw [e1, e2] at this
    simp only [wsum]
    omega
  have := inv_head hf (s := { s with tokens := s.tokens - 1, ws := upd s.ws i (.blocked 0) }) (i := i + 1)
    (core_launch hc h0 hpr) (by omega) (posAt_launch hp) (by simp only [hnb]; omega)
  refine ⟨this.1, ?_, this.2.2⟩
  rw [this.2.1]; exact hws

theorem txPar_hfail {t : Tx} {i : Nat} (h : t.att 0 = .hfail) : txPar t i = .error (i, 0) := by
  simp [txPar, h]

theorem txPar_prep {t : Tx} {i : Nat} (h0 : t.att 0 ≠ .hfail) (h : t.prep = true) :
    txPar t i = .error (i, prepCode) := by
  simp [txPar, h0, h]

/-- a dispatcher step -/
theorem inv_stepD {c : Cfg} (hf : c.fixed = true) {s : PS} {i : Nat} (h : Inv c s) (hd : s.disp = .gate i) :
    Inv c (stepD c s i) ∧ (isFin (stepD c s i) ∨ mu c (stepD c s i) < mu c s) := by
  obtain ⟨hc, hp⟩ := h
  rw [hd] at hp
  obtain ⟨hi, hpa, ht⟩ := hp
  have hmu : mu c s = wsum c s.ws + 1 := by simp [mu, hd, dw]
  unfold stepD
  by_cases h0 : (c.tx i).att 0 = .hfail
  · simp only [h0, if_true]
    exact ⟨⟨hc, ⟨i, hi, txPar_hfail h0⟩⟩, Or.inl ⟨_, rfl⟩⟩
  · simp only [h0, if_false]
    by_cases hpr : (c.tx i).prep = true
    · simp only [hpr, if_true]
      exact ⟨⟨hc, ⟨i, hi, txPar_prep h0 hpr⟩⟩, Or.inl ⟨_, rfl⟩⟩
    · have hpr' : (c.tx i).prep = false := by simpa using hpr
      simp only [hpr', Bool.false_eq_true, if_false]
      by_cases htok : s.tokens > 0
      · simp only [htok, if_true]
        have := inv_launch hf hc hi hpa h0 hpr' htok ht
        refine ⟨this.1, Or.inr ?_⟩
        simp only [mu] at hmu ⊢
        omega
      · simp only [htok, if_false]
        refine ⟨⟨hc, ?_⟩, Or.inr ?_⟩
        · have ht0 : s.tokens = 0 := by omega
          have hnbl : nb c s.ws = c.level := by omega
          exact ⟨hi, hpa, ht0, hnbl, h0, hpr'⟩
        · simp [mu, hd, dw]

theorem posAt_upd {ws : Nat → WSt} {i j : Nat} {v : WSt} (hp : PosAt ws i)
    (hw : ws j ≠ .idle) (hv : v ≠ .idle) : PosAt (upd ws j v) i := by
  refine ⟨?_, ?_⟩
  · intro j' hj'
    by_cases hji : j' = j
    · subst hji; rw [upd_same]; exact hv
    · rw [upd_ne _ _ hji]; exact hp.1 j' hj'
  · intro j' hj'
    have hji : j' ≠ j := by
      intro h; subst h; exact hw (hp.2 j' hj')
    rw [upd_ne _ _ hji]; exact hp.2 j' hj'

theorem wm_blocked_pos {k : Nat} (hk : k ≤ retryCount) : 1 ≤ wm (.blocked k) := by
  simp only [wm]; omega

/-- worker `j` leaves its loop -/
theorem inv_finish {c : Cfg} (hf : c.fixed = true) {s : PS} {j k : Nat} {l0 : Option Err} (hj : j < c.n)
    (hb : s.ws j = .blocked k) (hk : k ≤ retryCount)
    (hc : Core c (upd s.ws j .done) s.latch s.buf)
    (hp : Pos c s.disp s.tokens s.ws l0) (hnf : ¬ isFin s) :
    Inv c (finishWorker c s j) ∧ mu c (finishWorker c s j) < mu c s := by
  have hnb : nb c (upd s.ws j .done) + 1 = nb c s.ws := by
    have := sumTo_upd s.ws nbW j .done c.n hj
    have e1 : nbW (s.ws j) = 1 := by rw [hb]; rfl
    have e2 : nbW .done = 0 := rfl
    rw [e1, e2] at this
    simpa [nb] using this
  have hws : wsum c (upd s.ws j .done) + 1 ≤ wsum c s.ws := by
    have := sumTo_upd s.ws wm j .done c.n hj
    have e1 : 1 ≤ wm (s.ws j) := by rw [hb]; exact wm_blocked_pos hk
    have e2 : wm .done = 0 := rfl
    rw [e2] at this
    simp only [wsum]
    omega
  have hnidle : s.ws j ≠ .idle := by rw [hb]; simp
  unfold finishWorker
  cases hd : s.disp with
  | fin r => exact absurd ⟨r, hd⟩ hnf
  | gate i =>
    rw [hd] at hp
    obtain ⟨hi, hpa, ht⟩ := hp
    refine ⟨⟨hc, ?_⟩, ?_⟩
    · show Pos c (.gate i) (s.tokens + 1) (upd s.ws j .done) s.latch
      exact ⟨hi, posAt_upd hpa hnidle (by simp), by omega⟩
    · simp only [mu, hd, dw]; omega
  | ready i =>
    rw [hd] at hp
    obtain ⟨hi, hpa, ht0, hnbl, h0, hpr⟩ := hp
    have := inv_launch hf (s := { s with disp := .ready i, ws := upd s.ws j .done, tokens := s.tokens + 1 }) (i := i)
      hc hi (posAt_upd hpa hnidle (by simp)) h0 hpr (by show s.tokens + 1 > 0; omega)
      (by show s.tokens + 1 + nb c (upd s.ws j .done) = c.level; omega)
    refine ⟨this.1, ?_⟩
    have h2 := this.2.1
    have h3 := this.2.2
    simp only [mu, hd, dw] at h2 h3 ⊢
    omega
  | realize =>
    rw [hd] at hp
    obtain ⟨hni, _⟩ := hp
    have := inv_tryRealize hf (s := { s with disp := .realize, ws := upd s.ws j .done, tokens := s.tokens + 1 }) hc rfl
      (by
        intro j' hj'
        show upd s.ws j .done j' ≠ .idle
        by_cases hji : j' = j
        · subst hji; rw [upd_same]; simp
        · rw [upd_ne _ _ hji]; exact hni j' hj')
    refine ⟨this.1, ?_⟩
    have h2 := this.2.1
    have h3 := this.2.2
    simp only [mu, hd, dw] at h2 h3 ⊢
    omega

theorem pos_again {c : Cfg} {d : Disp} {t : Nat} {ws : Nat → WSt} {l : Option Err} {j k : Nat}
    (hj : j < c.n) (hb : ws j = .blocked k) (hp : Pos c d t ws l) :
    Pos c d t (upd ws j (.blocked (k + 1))) l := by
  have hnb : nb c (upd ws j (.blocked (k + 1))) = nb c ws := by
    have := sumTo_upd ws nbW j (.blocked (k + 1)) c.n hj
    have e1 : nbW (ws j) = 1 := by rw [hb]; rfl
    have e2 : nbW (.blocked (k + 1)) = 1 := rfl
    rw [e1, e2] at this
    simp only [nb]; omega
  have hnidle : ws j ≠ .idle := by rw [hb]; simp
  cases d with
  | gate i =>
    obtain ⟨hi, hpa, ht⟩ := hp
    exact ⟨hi, posAt_upd hpa hnidle (by simp), by rw [hnb]; exact ht⟩
  | ready i =>
    obtain ⟨hi, hpa, ht0, hnbl, h0, hpr⟩ := hp
    exact ⟨hi, posAt_upd hpa hnidle (by simp), ht0, by rw [hnb]; exact hnbl, h0, hpr⟩
  | realize =>
    obtain ⟨hni, _⟩ := hp
    refine ⟨?_, j, hj, by rw [upd_same]; rfl⟩
    intro j' hj'
    by_cases hji : j' = j
    · subst hji; rw [upd_same]; simp
    · rw [upd_ne _ _ hji]; exact hni j' hj'
  | fin r =>
    cases r with
    | none =>
      obtain ⟨hall, _⟩ := hp
      have := hall j hj
      rw [hb] at this
      cases this
    | some e => exact hp

/-- a worker step -/
theorem inv_stepW {c : Cfg} (hf : c.fixed = true) {s : PS} {j k : Nat} (h : Inv c s) (hj : j < c.n)
    (hb : s.ws j = .blocked k) (hnf : ¬ isFin s) :
    Inv c (stepW c s j k) ∧ mu c (stepW c s j k) < mu c s := by
  obtain ⟨hc, hp⟩ := h
  obtain ⟨hk, _⟩ := hc.blk j k hj hb
  unfold stepW
  cases hi : workerIter (c.tx j) j k with
  | again =>
    simp only
    refine ⟨⟨core_again hc hj hb hi, pos_again hj hb hp⟩, ?_⟩
    have hlt := workerIter_again_lt hi
    have := sumTo_upd s.ws wm j (.blocked (k + 1)) c.n hj
    have e1 : wm (s.ws j) = retryCount + 1 - k := by rw [hb]; rfl
    have e2 : wm (.blocked (k + 1)) = retryCount + 1 - (k + 1) := rfl
    rw [e1, e2] at this
    simp only [mu, wsum]
    omega
  | receipt r =>
    simp only
    exact inv_finish hf (s := { s with execs := s.execs + 1, buf := upd s.buf j (some r) }) (l0 := s.latch)
      hj hb hk (core_receipt hc hj hb hi) hp (by intro ⟨r', hr'⟩; exact hnf ⟨r', hr'⟩)
  | report e =>
    simp only [hf]
    exact inv_finish hf (s := { s with execs := s.execs + 1, latch := report true s.latch e }) (l0 := s.latch)
      hj hb hk (core_report hc hj hb hi) hp (by intro ⟨r', hr'⟩; exact hnf ⟨r', hr'⟩)

/-! ### scheduling -/

theorem enabled_mem_W {c : Cfg} {s : PS} {j : Nat} (h : Act.W j ∈ enabled c s) :
    j < c.n ∧ isBlocked (s.ws j) = true := by
  unfold enabled at h
  rw [List.mem_append] at h
  rcases h with h | h
  · split at h <;> simp at h
  · rw [List.mem_filterMap] at h
    obtain ⟨j', hj', hh⟩ := h
    split at hh
    · rename_i hb
      injection hh with hh; injection hh with hh; subst hh
      exact ⟨List.mem_range.mp hj', hb⟩
    · contradiction

theorem enabled_mem_D {c : Cfg} {s : PS} (h : Act.D ∈ enabled c s) : ∃ i, s.disp = .gate i := by
  unfold enabled at h
  rw [List.mem_append] at h
  rcases h with h | h
  · split at h
    · rename_i i hd; exact ⟨i, hd⟩
    · simp at h
  · rw [List.mem_filterMap] at h
    obtain ⟨j', _, hh⟩ := h
    split at hh <;> simp at hh

theorem W_mem_enabled {c : Cfg} {s : PS} {j : Nat} (hj : j < c.n) (hb : isBlocked (s.ws j) = true) :
    Act.W j ∈ enabled c s := by
  unfold enabled
  rw [List.mem_append]
  right
  rw [List.mem_filterMap]
  exact ⟨j, List.mem_range.mpr hj, by simp [hb]⟩

theorem blocked_of_isBlocked {w : WSt} (h : isBlocked w = true) : ∃ k, w = .blocked k := by
  cases w <;> simp_all [isBlocked]

theorem exists_blocked {c : Cfg} {s : PS} (hl : c.level ≥ 1) (h : Inv c s) (hnf : ¬ isFin s)
    (hng : ∀ i, s.disp ≠ .gate i) : ∃ j, j < c.n ∧ isBlocked (s.ws j) = true := by
  obtain ⟨_, hp⟩ := h
  cases hd : s.disp with
  | gate i => exact absurd hd (hng i)
  | fin r => exact absurd ⟨r, hd⟩ hnf
  | realize => rw [hd] at hp; exact hp.2
  | ready i =>
    rw [hd] at hp
    obtain ⟨_, _, _, hnbl, _, _⟩ := hp
    have : 0 < sumTo (fun j => nbW (s.ws j)) c.n := by
      have h1 : nb c s.ws ≥ 1 := by omega
      simp only [nb] at h1
      omega
    obtain ⟨j, hj, hpos⟩ := sumTo_pos _ _ this
    refine ⟨j, hj, ?_⟩
    cases hw : s.ws j <;> simp_all [nbW, isBlocked]

/-- no deadlock: a state that has not returned has an enabled action -/
theorem enabled_ne_nil {c : Cfg} {s : PS} (hl : c.level ≥ 1) (h : Inv c s) (hnf : ¬ isFin s) :
    enabled c s ≠ [] := by
  by_cases hg : ∃ i, s.disp = .gate i
  · obtain ⟨i, hd⟩ := hg
    unfold enabled
    simp [hd]
  · obtain ⟨j, hj, hb⟩ := exists_blocked hl h hnf (by intro i hd; exact hg ⟨i, hd⟩)
    exact List.ne_nil_of_mem (W_mem_enabled hj hb)

theorem inv_doAct {c : Cfg} (hf : c.fixed = true) {s : PS} {a : Act} (h : Inv c s) (hnf : ¬ isFin s)
    (ha : a ∈ enabled c s) :
    Inv c (doAct c s a) ∧ (isFin (doAct c s a) ∨ mu c (doAct c s a) < mu c s) := by
  cases a with
  | D =>
    obtain ⟨i, hd⟩ := enabled_mem_D ha
    simp only [doAct, hd]
    exact inv_stepD hf h hd
  | W j =>
    obtain ⟨hj, hb⟩ := enabled_mem_W ha
    obtain ⟨k, hk⟩ := blocked_of_isBlocked hb
    simp only [doAct, hk]
    have := inv_stepW hf h hj hk hnf
    exact ⟨this.1, Or.inr this.2⟩

theorem step_fin {c : Cfg} {s : PS} (h : isFin s) (tok : Nat) : step c s tok = s := by
  obtain ⟨r, hr⟩ := h
  simp [step, hr]

theorem inv_step {c : Cfg} (hf : c.fixed = true) (hl : c.level ≥ 1) {s : PS} (h : Inv c s) (hnf : ¬ isFin s)
    (tok : Nat) :
    Inv c (step c s tok) ∧ (isFin (step c s tok) ∨ mu c (step c s tok) < mu c s) := by
  have hne := enabled_ne_nil hl h hnf
  have hlen : 0 < (enabled c s).length := List.length_pos_iff.mpr hne
  have hlt : tok % (enabled c s).length < (enabled c s).length := Nat.mod_lt _ hlen
  have hget : (enabled c s)[tok % (enabled c s).length]? = some ((enabled c s)[tok % (enabled c s).length]) :=
    List.getElem?_eq_getElem hlt
  have hmem : (enabled c s)[tok % (enabled c s).length] ∈ enabled c s := List.getElem_mem hlt
  unfold step
  split
  · rename_i r hd; exact absurd ⟨r, hd⟩ hnf
  · rw [hget]
    exact inv_doAct hf h hnf hmem

theorem runFuel_fin {c : Cfg} : ∀ (f : Nat) (s : PS) (sched : List Nat), isFin s → runFuel c f s sched = s := by
  intro f
  induction f with
  | zero => intro s sched _; rfl
  | succ f ih =>
    intro s sched h
    cases sched with
    | nil => simp only [runFuel]; rw [step_fin h]; exact ih s [] h
    | cons t r => simp only [runFuel]; rw [step_fin h]; exact ih s r h

theorem mu_pos {c : Cfg} {s : PS} (hl : c.level ≥ 1) (h : Inv c s) (hnf : ¬ isFin s) : 0 < mu c s := by
  by_cases hg : ∃ i, s.disp = .gate i
  · obtain ⟨i, hd⟩ := hg
    simp [mu, hd, dw]
  · obtain ⟨j, hj, hb⟩ := exists_blocked hl h hnf (by intro i hd; exact hg ⟨i, hd⟩)
    obtain ⟨k, hk⟩ := blocked_of_isBlocked hb
    obtain ⟨hkr, _⟩ := h.1.blk j k hj hk
    have h1 := sumTo_ge (fun j => wm (s.ws j)) c.n j hj
    have h2 : 1 ≤ wm (s.ws j) := by rw [hk]; exact wm_blocked_pos hkr
    simp only [mu, wsum]
    omega

/-- every schedule leads to a returned dispatcher within `mu` steps, through invariant states -/
theorem runFuel_spec {c : Cfg} (hf : c.fixed = true) (hl : c.level ≥ 1) :
    ∀ (f : Nat) (s : PS) (sched : List Nat), Inv c s → mu c s ≤ f →
      Inv c (runFuel c f s sched) ∧ isFin (runFuel c f s sched) := by
  intro f
  induction f with
  | zero =>
    intro s sched h hm
    by_cases hfin : isFin s
    · exact ⟨h, hfin⟩
    · have := mu_pos hl h hfin; omega
  | succ f ih =>
    intro s sched h hm
    by_cases hfin : isFin s
    · rw [runFuel_fin _ _ _ hfin]; exact ⟨h, hfin⟩
    · cases sched with
      | nil =>
        simp only [runFuel]
        have := inv_step hf hl h hfin 0
        rcases this.2 with h2 | h2
        · rw [runFuel_fin _ _ _ h2]; exact ⟨this.1, h2⟩
        · exact ih _ _ this.1 (by omega)
      | cons t r =>
        simp only [runFuel]
        have := inv_step hf hl h hfin t
        rcases this.2 with h2 | h2
        · rw [runFuel_fin _ _ _ h2]; exact ⟨this.1, h2⟩
        · exact ih _ _ this.1 (by omega)

theorem sumTo_const (v : Nat) : ∀ n, sumTo (fun _ => v) n = n * v := by
  intro n
  induction n with
  | zero => simp [sumTo]
  | succ n ih => simp [sumTo, ih, Nat.succ_mul]

theorem inv_init {c : Cfg} (hf : c.fixed = true) : Inv c (init c) ∧ mu c (init c) ≤ bound c := by
  have hcore : Core c (fun _ => WSt.idle) none (fun _ => none) :=
    ⟨fun j _ h => (by cases h), fun j k _ h => (by cases h), fun e h => (by cases h)⟩
  have hpa : PosAt (fun _ => WSt.idle) 0 := ⟨by intro j h; omega, by intro j _; rfl⟩
  have hnb : nb c (fun _ => WSt.idle) = 0 := by
    simp only [nb]; exact sumTo_zero _ (by intro j; rfl) _
  have := inv_head hf (s := ⟨.gate 0, c.level, fun _ => .idle, none, fun _ => none, 0⟩) (i := 0)
    hcore (Nat.zero_le _) hpa (by show c.level + nb c (fun _ => WSt.idle) = c.level; rw [hnb]; rfl)
  refine ⟨this.1, ?_⟩
  have h2 := this.2.1
  have h3 := this.2.2
  have hw : wsum c (fun _ => WSt.idle) = c.n * (retryCount + 3) := by
    simp only [wsum]; exact sumTo_const _ _
  simp only [mu, bound, init]
  simp only at h2
  omega

end Goloop.C10.Proofs
