/-
  Proofs/C13: byte-layout lemmas (core) and the algebra behind ECDSA sign / recover / verify
  (Mathlib: a module over a field, instantiated with ZMod q).
-/
import Goloop.Model.C13
import Mathlib.Algebra.Field.ZMod
import Mathlib.Algebra.Module.Defs
namespace Goloop.C13.Proofs
open Goloop Goloop.C13

theorem flag_there_back (x : UInt8) : recoverFlagToCompatible (recoverFlagToECDSA x) = x :=
  UInt8.add_sub_cancel x 27

theorem flag_back_there (x : UInt8) : recoverFlagToECDSA (recoverFlagToCompatible x) = x :=
  UInt8.sub_add_cancel x 27

theorem take_append_last (b : Bytes) (h : b.length = 65) : b.take 64 ++ [b.getD 64 0] = b := by
  have h2 : b.drop 64 = [b.getD 64 0] := by
    have hl : (b.drop 64).length = 1 := by simp [h]
    match hd : b.drop 64, hl with
    | [x], _ =>
      have : b.getD 64 0 = x := by
        have := List.getElem?_drop (xs := b) (i := 64) (j := 0)
        rw [hd] at this
        simp at this
        simp [List.getD, ← this]
      rw [this]
  conv => rhs; rw [← List.take_append_drop 64 b, h2]

theorem parse65 (b : Bytes) (h : b.length = 65) :
    parseSignature b = some (recoverFlagToECDSA (b.getD 64 0) :: b.take 64) := by
  simp [parseSignature, h]

theorem parse64 (b : Bytes) (h : b.length = 64) : parseSignature b = some b := by
  simp [parseSignature, h]

theorem parse_other (b : Bytes) (h64 : b.length ≠ 64) (h65 : b.length ≠ 65) :
    parseSignature b = none := by
  simp only [parseSignature, h64, h65, if_false]
  split <;> rfl

/-! ### algebra: a module over a field -/

section algebra
variable {K M : Type*} [Field K] [AddCommGroup M] [Module K M]

/-- sign, then recover: `r⁻¹ • (s • R − z • G) = d • G` -/
theorem recover_of_sign (G : M) (d z k r : K) (hk : k ≠ 0) (hr : r ≠ 0) :
    r⁻¹ • ((k⁻¹ * (z + r * d)) • (k • G) - z • G) = d • G := by
  have h1 : (k⁻¹ * (z + r * d)) • (k • G) = (z + r * d) • G := by
    rw [smul_smul]
    congr 1
    rw [mul_comm, ← mul_assoc, mul_inv_cancel₀ hk, one_mul]
  rw [h1, add_smul, add_sub_cancel_left, smul_smul, ← mul_assoc, inv_mul_cancel₀ hr, one_mul]

/-- the verification equation holds for a key `Q` exactly when `Q` is the recovered key -/
theorem verify_iff_recovered (G R Q : M) (z r s : K) (hr : r ≠ 0) (hs : s ≠ 0) :
    (z * s⁻¹) • G + (r * s⁻¹) • Q = R ↔ Q = r⁻¹ • (s • R - z • G) := by
  constructor
  · intro h
    have h2 : s • R = z • G + r • Q := by
      rw [← h, smul_add, smul_smul, smul_smul]
      congr 1
      · congr 1; rw [mul_comm, mul_assoc, inv_mul_cancel₀ hs, mul_one]
      · congr 1; rw [mul_comm, mul_assoc, inv_mul_cancel₀ hs, mul_one]
    rw [h2, add_sub_cancel_left, smul_smul, inv_mul_cancel₀ hr, one_smul]
  · intro h
    have h2 : r • Q = s • R - z • G := by
      rw [h, smul_smul, mul_inv_cancel₀ hr, one_smul]
    have h3 : (r * s⁻¹) • Q = s⁻¹ • (s • R - z • G) := by
      rw [← h2, smul_smul, mul_comm]
    rw [h3, smul_sub, smul_smul, smul_smul, inv_mul_cancel₀ hs, one_smul, mul_comm]
    exact add_sub_cancel _ _

end algebra
end Goloop.C13.Proofs
