/-
  Proofs/C04 — helper lemmas for the vote set model.
-/
import Goloop.Model.C04
namespace Goloop.C04.Proofs
open Goloop.C04

/-- Go's `k > n*2/3` (integer division) is the exact rational comparison `3k > 2n`. -/
theorem threshold_iff (k n : Nat) : k > n * 2 / 3 ↔ 3 * k > 2 * n := by omega

/-! ### counters: the list is a faithful table of a recount function `f` -/

/-- `cs` tabulates `f`: distinct digests, every counter positive and equal to `f`, every digest
    with `f d > 0` present. -/
structure Good (cs : List Counter) (f : Nat → Nat) : Prop where
  nodup : (cs.map (·.d)).Nodup
  sound : ∀ c ∈ cs, 0 < c.cnt ∧ c.cnt = f c.d
  complete : ∀ d, 0 < f d → ∃ c ∈ cs, c.d = d

theorem Good.congr {cs : List Counter} {f g : Nat → Nat} (h : Good cs f) (e : ∀ x, f x = g x) : Good cs g :=
  ⟨h.nodup, fun c hc => ⟨(h.sound c hc).1, by rw [← e]; exact (h.sound c hc).2⟩,
   fun d hd => h.complete d (by rw [e]; exact hd)⟩

theorem Good.perm {cs cs' : List Counter} {f : Nat → Nat} (h : Good cs f) (p : cs'.Perm cs) : Good cs' f :=
  ⟨(p.map _).nodup_iff.2 h.nodup, fun c hc => h.sound c (p.mem_iff.1 hc),
   fun d hd => let ⟨c, hc, e⟩ := h.complete d hd; ⟨c, p.mem_iff.2 hc, e⟩⟩

theorem findCounter_none {cs : List Counter} {d : Nat} (h : findCounter cs d = none) :
    ∀ x ∈ cs, x.d ≠ d := by
  induction cs with
  | nil => simp
  | cons c cs ih =>
    unfold findCounter at h ih
    rw [List.findIdx?_cons] at h
    by_cases hc : (c.d == d) = true
    · simp [hc] at h
    · simp only [hc, if_false, Option.map_eq_none_iff, Bool.false_eq_true] at h
      intro x hx
      rcases List.mem_cons.1 hx with e | e
      · subst e; simpa using hc
      · exact ih h x e

theorem findCounter_some {cs : List Counter} {d i : Nat} (h : findCounter cs d = some i) :
    ∃ a c b, cs = a ++ c :: b ∧ a.length = i ∧ c.d = d ∧ ∀ x ∈ a, x.d ≠ d := by
  induction cs generalizing i with
  | nil => simp [findCounter] at h
  | cons c cs ih =>
    unfold findCounter at h ih
    rw [List.findIdx?_cons] at h
    by_cases hc : (c.d == d) = true
    · simp only [hc, if_true, Option.some.injEq] at h
      exact ⟨[], c, cs, rfl, by simpa using h, by simpa using hc, by simp⟩
    · simp only [hc, if_false, Bool.false_eq_true] at h
      cases hf : List.findIdx? (fun c => c.d == d) cs with
      | none => simp [hf] at h
      | some j =>
        rw [hf] at h
        simp only [Option.map_some, Option.some.injEq] at h
        obtain ⟨a, c', b, e1, e2, e3, e4⟩ := ih hf
        refine ⟨c :: a, c', b, by rw [e1]; rfl, by simp [e2, h], e3, ?_⟩
        intro x hx
        rcases List.mem_cons.1 hx with e | e
        · subst e; simpa using hc
        · exact e4 x e

theorem findCounter_split {a b : List Counter} {c : Counter} {d : Nat}
    (hc : c.d = d) (ha : ∀ x ∈ a, x.d ≠ d) : findCounter (a ++ c :: b) d = some a.length := by
  induction a with
  | nil => simp [findCounter, List.findIdx?_cons, hc]
  | cons x a ih =>
    have hx : (x.d == d) = false := by simpa using ha x List.mem_cons_self
    have := ih (fun y hy => ha y (List.mem_cons_of_mem _ hy))
    unfold findCounter at this ⊢
    simp only [List.cons_append, List.findIdx?_cons, hx, Bool.false_eq_true, if_false, this,
      Option.map_some, List.length_cons]

theorem getElem?_split {α : Type} (a b : List α) (c : α) : (a ++ c :: b)[a.length]? = some c := by
  rw [List.getElem?_append_right (Nat.le_refl _)]
  simp

theorem set_split {α : Type} (a b : List α) (c y : α) : (a ++ c :: b).set a.length y = a ++ y :: b := by
  rw [List.set_append]
  simp

theorem dropLast_perm {α : Type} (b : List α) (c l : α) (hl : (c :: b).getLast? = some l) :
    ((l :: b).dropLast).Perm b := by
  cases hb : b.getLast? with
  | none =>
    have : b = [] := List.getLast?_eq_none_iff.1 hb
    subst this
    simp
  | some z =>
    obtain ⟨ys, e⟩ := List.getLast?_eq_some_iff.1 hb
    subst e
    have hz : z = l := by
      have : (c :: (ys ++ [z])) = (c :: ys) ++ [z] := rfl
      rw [this, List.getLast?_concat] at hl
      simpa using hl
    subst hz
    have : (z :: (ys ++ [z])) = (z :: ys) ++ [z] := rfl
    rw [this, List.dropLast_concat]
    exact (List.perm_append_singleton z ys).symm

/-- what the swap-remove produces -/
theorem swapRemove_perm {α : Type} (a b : List α) (c l : α)
    (hl : (a ++ c :: b).getLast? = some l) :
    ((a ++ c :: b).set a.length l).dropLast.Perm (a ++ b) := by
  rw [set_split]
  rw [List.dropLast_append_cons]
  apply List.Perm.append_left
  apply dropLast_perm b c l
  rw [List.getLast?_append] at hl
  cases h : (c :: b).getLast? with
  | none => simp at h
  | some z => rw [h] at hl; simpa using hl

theorem decCounter_perm (a b : List Counter) (c : Counter) (d : Nat)
    (hc : c.d = d) (ha : ∀ x ∈ a, x.d ≠ d) :
    (decCounter (a ++ c :: b) d).Perm
      (if c.cnt - 1 = 0 then a ++ b else a ++ { c with cnt := c.cnt - 1 } :: b) := by
  unfold decCounter
  rw [findCounter_split hc ha]
  simp only [getElem?_split]
  by_cases h0 : c.cnt - 1 = 0
  · simp only [h0, if_true]
    cases hl : (a ++ c :: b).getLast? with
    | none => simp at hl
    | some l => exact swapRemove_perm a b c l hl
  · simp only [h0, if_false]
    rw [set_split]

theorem incCounter_found (a b : List Counter) (c : Counter) (d : Nat)
    (hc : c.d = d) (ha : ∀ x ∈ a, x.d ≠ d) :
    incCounter (a ++ c :: b) d = a ++ { c with cnt := c.cnt + 1 } :: b := by
  unfold incCounter
  rw [findCounter_split hc ha]
  simp only [getElem?_split]
  rw [set_split]

theorem good_split {a b : List Counter} {c : Counter} {f : Nat → Nat} (h : Good (a ++ c :: b) f) :
    (∀ x ∈ a, x.d ≠ c.d) ∧ (∀ x ∈ b, x.d ≠ c.d) := by
  have := h.nodup
  simp only [List.map_append, List.map_cons] at this
  rw [List.nodup_append] at this
  obtain ⟨_, h2, h3⟩ := this
  rw [List.nodup_cons] at h2
  constructor
  · intro x hx e
    exact h3 x.d (List.mem_map.2 ⟨x, hx, rfl⟩) c.d List.mem_cons_self e
  · intro x hx e
    exact h2.1 (e ▸ List.mem_map.2 ⟨x, hx, rfl⟩)

/-- removing one vote for `d` (present at least once) -/
theorem dec_good {cs : List Counter} {f : Nat → Nat} {d : Nat} (h : Good cs f) (hd : 0 < f d) :
    Good (decCounter cs d) (fun x => if x = d then f d - 1 else f x) := by
  obtain ⟨c0, hc0, e0⟩ := h.complete d hd
  cases hf : findCounter cs d with
  | none => exact absurd e0 (findCounter_none hf c0 hc0)
  | some i =>
    obtain ⟨a, c, b, rfl, _, hcd, ha⟩ := findCounter_some hf
    obtain ⟨hna, hnb⟩ := good_split h
    have hcs := h.sound c (by simp)
    apply Good.perm _ (decCounter_perm a b c d hcd ha)
    have hnd := h.nodup
    by_cases h0 : c.cnt - 1 = 0
    · simp only [h0, if_true]
      refine ⟨?_, ?_, ?_⟩
      · simp only [List.map_append, List.map_cons] at hnd ⊢
        rw [List.nodup_append] at hnd ⊢
        refine ⟨hnd.1, (List.nodup_cons.1 hnd.2.1).2, ?_⟩
        intro x hx y hy
        exact hnd.2.2 x hx y (List.mem_cons_of_mem _ hy)
      · intro x hx
        have hx' : x ∈ a ++ c :: b := by
          rcases List.mem_append.1 hx with e | e
          · exact List.mem_append_left _ e
          · exact List.mem_append_right _ (List.mem_cons_of_mem _ e)
        have hxd : x.d ≠ d := by
          rcases List.mem_append.1 hx with e | e
          · exact ha x e
          · rw [← hcd]; exact hnb x e
        simp only [hxd, if_false]
        exact h.sound x hx'
      · intro x hx
        by_cases hxd : x = d
        · subst hxd
          simp only [if_true] at hx
          rw [hcd] at hcs
          omega
        · simp only [hxd, if_false] at hx
          obtain ⟨y, hy, ey⟩ := h.complete x hx
          refine ⟨y, ?_, ey⟩
          rcases List.mem_append.1 hy with e | e
          · exact List.mem_append_left _ e
          · rcases List.mem_cons.1 e with e | e
            · subst e; exact absurd (ey.symm.trans hcd) hxd
            · exact List.mem_append_right _ e
    · simp only [h0, if_false]
      refine ⟨?_, ?_, ?_⟩
      · simpa using hnd
      · intro x hx
        rcases List.mem_append.1 hx with e | e
        · have hxd : x.d ≠ d := ha x e
          simp only [hxd, if_false]
          exact h.sound x (List.mem_append_left _ e)
        · rcases List.mem_cons.1 e with e | e
          · subst e
            simp only [hcd, if_true]
            rw [hcd] at hcs
            omega
          · have hxd : x.d ≠ d := by rw [← hcd]; exact hnb x e
            simp only [hxd, if_false]
            exact h.sound x (List.mem_append_right _ (List.mem_cons_of_mem _ e))
      · intro x hx
        by_cases hxd : x = d
        · subst hxd
          exact ⟨{ c with cnt := c.cnt - 1 }, by simp, hcd⟩
        · simp only [hxd, if_false] at hx
          obtain ⟨y, hy, ey⟩ := h.complete x hx
          refine ⟨y, ?_, ey⟩
          rcases List.mem_append.1 hy with e | e
          · exact List.mem_append_left _ e
          · rcases List.mem_cons.1 e with e | e
            · subst e; exact absurd (ey.symm.trans hcd) hxd
            · exact List.mem_append_right _ (List.mem_cons_of_mem _ e)

/-- adding one vote for `d` -/
theorem inc_good {cs : List Counter} {f : Nat → Nat} {d : Nat} (h : Good cs f) :
    Good (incCounter cs d) (fun x => if x = d then f d + 1 else f x) := by
  cases hf : findCounter cs d with
  | none =>
    have hnone := findCounter_none hf
    have hfd : f d = 0 := by
      cases hz : f d with
      | zero => rfl
      | succ k =>
        obtain ⟨c, hc, e⟩ := h.complete d (by omega)
        exact absurd e (hnone c hc)
    unfold incCounter
    rw [hf]
    refine ⟨?_, ?_, ?_⟩
    · simp only [List.map_append, List.map_cons, List.map_nil]
      rw [List.nodup_append]
      refine ⟨h.nodup, by simp, ?_⟩
      intro x hx y hy e
      obtain ⟨c, hc, ec⟩ := List.mem_map.1 hx
      have : y = d := by simpa using hy
      exact hnone c hc (by rw [ec, e, this])
    · intro x hx
      rcases List.mem_append.1 hx with e | e
      · have hxd : x.d ≠ d := hnone x e
        simp only [hxd, if_false]
        exact h.sound x e
      · have : x = ⟨d, 1⟩ := by simpa using e
        subst this
        simp [hfd]
    · intro x hx
      by_cases hxd : x = d
      · subst hxd; exact ⟨⟨x, 1⟩, by simp, rfl⟩
      · simp only [hxd, if_false] at hx
        obtain ⟨y, hy, ey⟩ := h.complete x hx
        exact ⟨y, List.mem_append_left _ hy, ey⟩
  | some i =>
    obtain ⟨a, c, b, rfl, _, hcd, ha⟩ := findCounter_some hf
    obtain ⟨hna, hnb⟩ := good_split h
    have hcs := h.sound c (by simp)
    rw [incCounter_found a b c d hcd ha]
    refine ⟨?_, ?_, ?_⟩
    · simpa using h.nodup
    · intro x hx
      rcases List.mem_append.1 hx with e | e
      · have hxd : x.d ≠ d := ha x e
        simp only [hxd, if_false]
        exact h.sound x (List.mem_append_left _ e)
      · rcases List.mem_cons.1 e with e | e
        · subst e
          simp only [hcd, if_true]
          rw [hcd] at hcs
          omega
        · have hxd : x.d ≠ d := by rw [← hcd]; exact hnb x e
          simp only [hxd, if_false]
          exact h.sound x (List.mem_append_right _ (List.mem_cons_of_mem _ e))
    · intro x hx
      by_cases hxd : x = d
      · subst hxd
        exact ⟨{ c with cnt := c.cnt + 1 }, by simp, hcd⟩
      · simp only [hxd, if_false] at hx
        obtain ⟨y, hy, ey⟩ := h.complete x hx
        refine ⟨y, ?_, ey⟩
        rcases List.mem_append.1 hy with e | e
        · exact List.mem_append_left _ e
        · rcases List.mem_cons.1 e with e | e
          · subst e; exact absurd (ey.symm.trans hcd) hxd
          · exact List.mem_append_right _ (List.mem_cons_of_mem _ e)


/-! ### the argmax loop -/

theorem argmax_spec (cs : List Counter) : ∀ (i : Nat) (mi : Option Nat) (mx : Nat),
    mx ≤ (argmaxLoop cs i mi mx).2 ∧
    (∀ c ∈ cs, c.cnt ≤ (argmaxLoop cs i mi mx).2) ∧
    (((argmaxLoop cs i mi mx).2 = mx ∧ (argmaxLoop cs i mi mx).1 = mi) ∨
     (mx < (argmaxLoop cs i mi mx).2 ∧
      ∃ j c, (argmaxLoop cs i mi mx).1 = some (i + j) ∧ cs[j]? = some c ∧ c.cnt = (argmaxLoop cs i mi mx).2)) := by
  induction cs with
  | nil => intro i mi mx; simp [argmaxLoop]
  | cons c cs ih =>
    intro i mi mx
    unfold argmaxLoop
    by_cases h : c.cnt > mx
    · simp only [h, if_true]
      obtain ⟨h1, h2, h3⟩ := ih (i + 1) (some i) c.cnt
      refine ⟨by omega, ?_, Or.inr ⟨by omega, ?_⟩⟩
      · intro x hx
        rcases List.mem_cons.1 hx with e | e
        · subst e; exact h1
        · exact h2 x e
      · rcases h3 with ⟨e1, e2⟩ | ⟨_, j, c', e1, e2, e3⟩
        · exact ⟨0, c, by simpa using e2, by simp, e1.symm⟩
        · exact ⟨j + 1, c', by rw [e1]; congr 1; omega, by simpa using e2, e3⟩
    · simp only [h, if_false]
      obtain ⟨h1, h2, h3⟩ := ih (i + 1) mi mx
      refine ⟨h1, ?_, ?_⟩
      · intro x hx
        rcases List.mem_cons.1 hx with e | e
        · subst e; omega
        · exact h2 x e
      · rcases h3 with e | ⟨e0, j, c', e1, e2, e3⟩
        · exact Or.inl e
        · exact Or.inr ⟨e0, j + 1, c', by rw [e1]; congr 1; omega, by simpa using e2, e3⟩

/-- result of the loop from scratch -/
def amax (cs : List Counter) : Option Nat × Nat := argmaxLoop cs 0 none 0

theorem amax_spec (cs : List Counter) :
    (∀ c ∈ cs, c.cnt ≤ (amax cs).2) ∧
    (((amax cs).2 = 0 ∧ (amax cs).1 = none) ∨
     (0 < (amax cs).2 ∧ ∃ j c, (amax cs).1 = some j ∧ cs[j]? = some c ∧ c.cnt = (amax cs).2)) := by
  obtain ⟨_, h2, h3⟩ := argmax_spec cs 0 none 0
  refine ⟨h2, ?_⟩
  rcases h3 with h | ⟨h0, j, c, e1, e2, e3⟩
  · exact Or.inl h
  · exact Or.inr ⟨h0, j, c, by unfold amax; simpa using e1, e2, e3⟩

/-! ### slot counting -/

def isD (d : Nat) (o : Option Vote) : Bool := match o with | some v => v.d == d | none => false

theorem countSlots_eq (l : List (Option Vote)) (d : Nat) : countSlots l d = l.countP (isD d) := rfl

theorem countSlots_le (l : List (Option Vote)) (d : Nat) : countSlots l d ≤ l.length :=
  List.countP_le_length

theorem isD_two (o : Option Vote) (d d' : Nat) (h : d ≠ d') :
    (if isD d o = true then 1 else 0) + (if isD d' o = true then 1 else 0) ≤ 1 := by
  cases o with
  | none => simp [isD]
  | some v =>
    by_cases h1 : v.d = d
    · have h2 : ¬ v.d = d' := fun e => h (h1.symm.trans e)
      have e1 : isD d (some v) = true := by simp [isD, h1]
      have e2 : isD d' (some v) = false := by simp [isD, h2]
      simp [e1, e2]
    · have e1 : isD d (some v) = false := by simp [isD, h1]
      simp only [e1, Bool.false_eq_true, if_false, Nat.zero_add]
      split <;> omega

theorem countSlots_two (l : List (Option Vote)) (d d' : Nat) (h : d ≠ d') :
    countSlots l d + countSlots l d' ≤ l.length := by
  induction l with
  | nil => simp [countSlots]
  | cons o l ih =>
    simp only [countSlots_eq, List.countP_cons, List.length_cons] at ih ⊢
    have := isD_two o d d' h
    omega

theorem countSlots_le_filled (l : List (Option Vote)) (d : Nat) : countSlots l d ≤ filled l := by
  unfold filled
  rw [countSlots_eq]
  apply List.countP_mono_left
  intro o _ h
  cases o with
  | none => simp [isD] at h
  | some v => rfl

theorem countSlots_set (l : List (Option Vote)) (i : Nat) (old : Option Vote) (v : Vote) (d : Nat)
    (h : l[i]? = some old) :
    countSlots (l.set i (some v)) d + (if isD d old then 1 else 0) =
      countSlots l d + (if v.d = d then 1 else 0) := by
  have hlt : i < l.length := by
    rcases Nat.lt_or_ge i l.length with h' | h'
    · exact h'
    · rw [List.getElem?_eq_none h'] at h; cases h
  have hget : l[i] = old := by
    rw [List.getElem?_eq_getElem hlt] at h; simpa using h
  rw [countSlots_eq, countSlots_eq, List.countP_set hlt, hget]
  have hpos : (if isD d old = true then 1 else 0) ≤ l.countP (isD d) := by
    by_cases ho : isD d old = true
    · simp only [ho, if_true]
      apply List.countP_pos_iff.2
      exact ⟨old, hget ▸ List.getElem_mem hlt, ho⟩
    · simp [ho]
  by_cases hv : v.d = d
  · have : isD d (some v) = true := by simp [isD, hv]
    simp only [this, if_true, hv]
    omega
  · have : isD d (some v) = false := by simp [isD, hv]
    simp only [this, hv, if_false, Bool.false_eq_true]
    omega

theorem filled_set (l : List (Option Vote)) (i : Nat) (old : Option Vote) (v : Vote)
    (h : l[i]? = some old) :
    filled (l.set i (some v)) + (if old.isSome then 1 else 0) = filled l + 1 := by
  have hlt : i < l.length := by
    rcases Nat.lt_or_ge i l.length with h' | h'
    · exact h'
    · rw [List.getElem?_eq_none h'] at h; cases h
  have hget : l[i] = old := by
    rw [List.getElem?_eq_getElem hlt] at h; simpa using h
  unfold filled
  rw [List.countP_set hlt, hget]
  have hpos : (if old.isSome = true then 1 else 0) ≤ l.countP (fun o => o.isSome) := by
    by_cases ho : old.isSome = true
    · simp only [ho, if_true]
      apply List.countP_pos_iff.2
      exact ⟨old, hget ▸ List.getElem_mem hlt, ho⟩
    · simp [ho]
  simp only [Option.isSome_some, if_true]
  omega


/-! ### the invariant of `voteSet` -/

structure Inv (s : VS) : Prop where
  good : Good s.counters (countSlots s.slots)
  count : s.count = filled s.slots
  cache : s.maxIndex = none ∨ s.maxIndex = (amax s.counters).1
  mask : s.mask = s.slots.map (·.isSome)

/-- the decision recomputed from the counters, ignoring the cache -/
def pureDec (cs : List Counter) (n : Nat) : Dec :=
  if (amax cs).2 > n * 2 / 3 then
    match (amax cs).1 with
    | some i => match cs[i]? with
      | some c => Dec.decided c.d
      | none => Dec.panic
    | none => Dec.panic
  else Dec.no

theorem getDecision_eq (s : VS) (h : s.maxIndex = none ∨ s.maxIndex = (amax s.counters).1) :
    getDecision s = ({ s with maxIndex := (amax s.counters).1 }, pureDec s.counters s.slots.length) := by
  unfold getDecision pureDec
  cases hm : s.maxIndex with
  | none =>
    simp only
    show (if (amax s.counters).2 > _ then _ else _) = _
    by_cases ht : (amax s.counters).2 > s.slots.length * 2 / 3
    · simp only [ht, if_true]
      cases h1 : (amax s.counters).1 with
      | none => simp only [amax] at h1; simp [h1, amax]
      | some i =>
        cases h2 : s.counters[i]? with
        | none => simp only [amax] at h1; simp [h1, h2, amax]
        | some c => simp only [amax] at h1; simp [h1, h2, amax]
    · simp only [ht, if_false]; simp [amax]
  | some i =>
    rw [hm] at h
    have hi : (amax s.counters).1 = some i := by
      rcases h with h | h
      · cases h
      · exact h.symm
    obtain ⟨_, hs⟩ := amax_spec s.counters
    rcases hs with ⟨_, e⟩ | ⟨h0, j, c, e1, e2, e3⟩
    · rw [e] at hi; cases hi
    · rw [hi] at e1
      have : i = j := by simpa using e1
      subst this
      have hseq : { s with maxIndex := some i } = s := by
        cases s; simp_all
      simp only [e2, hi, hseq, ← e3]
      by_cases ht : c.cnt > s.slots.length * 2 / 3
      · simp [ht]
      · simp [ht]

theorem pureDec_spec {cs : List Counter} {f : Nat → Nat} {n : Nat} (hg : Good cs f)
    (h2 : ∀ d d', d ≠ d' → f d + f d' ≤ n) :
    pureDec cs n ≠ Dec.panic ∧ ∀ d, (pureDec cs n = Dec.decided d ↔ 3 * f d > 2 * n) := by
  obtain ⟨hle, hs⟩ := amax_spec cs
  unfold pureDec
  by_cases ht : (amax cs).2 > n * 2 / 3
  · simp only [ht, if_true]
    rcases hs with ⟨e, _⟩ | ⟨h0, j, c, e1, e2, e3⟩
    · omega
    · have hc : c ∈ cs := List.mem_of_getElem? e2
      have hcs := hg.sound c hc
      simp only [e1, e2]
      refine ⟨by simp, ?_⟩
      intro d
      constructor
      · intro h
        have : c.d = d := by simpa using h
        subst this
        omega
      · intro h
        by_cases hd : c.d = d
        · rw [hd]
        · have := h2 c.d d hd
          omega
  · simp only [ht, if_false]
    refine ⟨by simp, ?_⟩
    intro d
    constructor
    · intro h; cases h
    · intro h
      have hpos : 0 < f d := by omega
      obtain ⟨c, hc, e⟩ := hg.complete d hpos
      have := hle c hc
      have := (hg.sound c hc).2
      rw [e] at this
      omega

theorem inv_new (n : Nat) : Inv (C04.new n) := by
  have hz : ∀ d, countSlots (List.replicate n (none : Option Vote)) d = 0 := by
    intro d
    rw [countSlots_eq, List.countP_eq_zero]
    intro o ho
    rw [List.eq_of_mem_replicate ho]
    simp [isD]
  refine ⟨⟨by simp [C04.new], by simp [C04.new], ?_⟩, ?_, Or.inl rfl, ?_⟩
  · intro d hd
    simp only [C04.new] at hd
    rw [hz d] at hd
    omega
  · simp only [C04.new, filled]
    symm
    rw [List.countP_eq_zero]
    intro o ho
    rw [List.eq_of_mem_replicate ho]
    simp
  · simp [C04.new]

theorem inv_getDecision {s : VS} (h : Inv s) : Inv (getDecision s).1 := by
  rw [getDecision_eq s h.cache]
  exact ⟨h.good, h.count, Or.inr rfl, h.mask⟩

theorem slot_pos {l : List (Option Vote)} {i : Nat} {o : Vote} (h : l[i]? = some (some o)) :
    0 < countSlots l o.d := by
  rw [countSlots_eq]
  apply List.countP_pos_iff.2
  exact ⟨some o, List.mem_of_getElem? h, by simp [isD]⟩

theorem inv_place {s : VS} (h : Inv s) (index : Nat) (v : Vote) (old : Option Vote)
    (hold : s.slots[index]? = some old) : Inv (place s index v old) := by
  have hcs := fun d => countSlots_set s.slots index old v d hold
  have hfs := filled_set s.slots index old v hold
  refine ⟨?_, ?_, Or.inl rfl, ?_⟩
  · cases old with
    | none =>
      simp only [place]
      apply (inc_good (d := v.d) h.good).congr
      intro x
      have := hcs x
      simp only [isD, Bool.false_eq_true, if_false] at this
      by_cases hx : x = v.d
      · subst hx; simp at this ⊢; omega
      · have hx' : ¬ v.d = x := fun e => hx e.symm
        simp only [hx, hx', if_false] at this ⊢
        omega
    | some o =>
      simp only [place]
      have hpos := slot_pos hold
      apply (inc_good (d := v.d) (dec_good h.good hpos)).congr
      intro x
      have := hcs x
      have hv := hcs v.d
      have ho := hcs o.d
      simp only [isD, beq_iff_eq] at this hv ho
      by_cases hx : x = v.d
      · subst hx
        by_cases hvo : v.d = o.d
        · simp only [hvo, if_true] at this hv ho ⊢; omega
        · have hov : ¬ o.d = v.d := fun e => hvo e.symm
          simp only [hvo, hov, if_true, if_false] at this hv ho ⊢; omega
      · have hx' : ¬ v.d = x := fun e => hx e.symm
        by_cases hxo : x = o.d
        · subst hxo
          simp only [hx, hx', if_true, if_false] at this ⊢; omega
        · have hox : ¬ o.d = x := fun e => hxo e.symm
          simp only [hx, hx', hxo, hox, if_false] at this ⊢; omega
  · cases old with
    | none =>
      simp only [place]
      simp only [Option.isSome_none, Bool.false_eq_true, if_false] at hfs
      rw [h.count]; omega
    | some o =>
      simp only [place]
      simp only [Option.isSome_some, if_true] at hfs
      have := slot_pos hold
      have := countSlots_le_filled s.slots o.d
      rw [h.count]; omega
  · simp only [place]
    rw [h.mask, List.map_set]
    rfl

/-- `add` keeps the invariant -/
theorem inv_add {s s' : VS} {i : Nat} {v : Vote} {b : Bool} (h : Inv s)
    (ha : add s i v = some (s', b)) : Inv s' := by
  unfold add at ha
  cases hs : s.slots[i]? with
  | none => simp [hs] at ha
  | some old =>
    rw [hs] at ha
    cases old with
    | none =>
      simp only [Option.some.injEq, Prod.mk.injEq] at ha
      rw [← ha.1]
      exact inv_place h i v none hs
    | some o =>
      simp only at ha
      by_cases he : equalExceptSigs o v = true
      · simp only [he, if_true, Option.some.injEq, Prod.mk.injEq] at ha
        rw [← ha.1]; exact h
      · simp only [he, Bool.false_eq_true, if_false] at ha
        have hg := inv_getDecision h
        have hslots : (getDecision s).1.slots = s.slots := by
          rw [getDecision_eq s h.cache]
        have hs' : (getDecision s).1.slots[i]? = some (some o) := by rw [hslots]; exact hs
        cases hd : (getDecision s).2 with
        | panic => simp [hd] at ha
        | no =>
          simp only [hd, Bool.false_eq_true, if_false, Option.some.injEq, Prod.mk.injEq] at ha
          rw [← ha.1]
          exact inv_place hg i v (some o) hs'
        | decided rdd =>
          simp only [hd] at ha
          by_cases hr : rdd = o.d
          · simp only [hr, if_true, Option.some.injEq, Prod.mk.injEq] at ha
            rw [← ha.1]; exact hg
          · simp only [hr, if_false, Option.some.injEq, Prod.mk.injEq] at ha
            rw [← ha.1]
            exact inv_place hg i v (some o) hs'

theorem decision_eq {s : VS} (h : Inv s) : decision s = pureDec s.counters s.slots.length := by
  unfold decision
  rw [getDecision_eq s h.cache]

theorem decision_spec {s : VS} (h : Inv s) :
    decision s ≠ Dec.panic ∧
    ∀ d, (decision s = Dec.decided d ↔ 3 * countSlots s.slots d > 2 * s.slots.length) := by
  rw [decision_eq h]
  exact pureDec_spec h.good (fun d d' hne => countSlots_two s.slots d d' hne)

/-- `add` on a valid slot never panics -/
theorem add_some {s : VS} (h : Inv s) (i : Nat) (v : Vote) (hi : i < s.slots.length) :
    ∃ r, add s i v = some r := by
  unfold add
  rw [List.getElem?_eq_getElem hi]
  cases s.slots[i] with
  | none => exact ⟨_, rfl⟩
  | some o =>
    simp only
    by_cases he : equalExceptSigs o v = true
    · simp [he]
    · simp only [he]
      have hnp := (decision_spec h).1
      unfold decision at hnp
      cases hd : (getDecision s).2 with
      | panic => exact absurd hd hnp
      | no => simp
      | decided rdd =>
        simp only
        by_cases hr : rdd = o.d
        · simp [hr]
        · simp [hr]

/-- one `add` never lowers the support of a digest that has +2/3, and keeps the number of slots -/
theorem add_mono {s s' : VS} {i : Nat} {v : Vote} {b : Bool} {d : Nat} (h : Inv s)
    (hmaj : 3 * countSlots s.slots d > 2 * s.slots.length)
    (ha : add s i v = some (s', b)) :
    s'.slots.length = s.slots.length ∧ countSlots s.slots d ≤ countSlots s'.slots d := by
  unfold add at ha
  cases hs : s.slots[i]? with
  | none => simp [hs] at ha
  | some old =>
    rw [hs] at ha
    cases old with
    | none =>
      simp only [Option.some.injEq, Prod.mk.injEq] at ha
      rw [← ha.1]
      have := countSlots_set s.slots i none v d hs
      simp only [isD, Bool.false_eq_true, if_false] at this
      simp only [place, List.length_set]
      exact ⟨trivial, by omega⟩
    | some o =>
      simp only at ha
      by_cases he : equalExceptSigs o v = true
      · simp only [he, if_true, Option.some.injEq, Prod.mk.injEq] at ha
        rw [← ha.1]; exact ⟨rfl, Nat.le_refl _⟩
      · simp only [he, Bool.false_eq_true, if_false] at ha
        have hge := getDecision_eq s h.cache
        have hdec : (getDecision s).2 = Dec.decided d := by
          have := ((decision_spec h).2 d).2 hmaj
          unfold decision at this
          exact this
        rw [hdec] at ha
        simp only at ha
        by_cases hr : d = o.d
        · simp only [hr, if_true, Option.some.injEq, Prod.mk.injEq] at ha
          rw [← ha.1, hge]
          exact ⟨rfl, Nat.le_refl _⟩
        · simp only [hr, if_false, Option.some.injEq, Prod.mk.injEq] at ha
          rw [← ha.1, hge]
          simp only [place, List.length_set]
          have := countSlots_set s.slots i (some o) v d hs
          have hod : ¬ o.d = d := fun e => hr e.symm
          simp only [isD, beq_iff_eq, hod, if_false] at this
          exact ⟨trivial, by omega⟩

theorem addAll_cons_some {s s' : VS} {i : Nat} {v : Vote} {b : Bool} (rest : List (Nat × Vote))
    (h : add s i v = some (s', b)) : addAll s ((i, v) :: rest) = addAll s' rest := by
  simp [addAll, h]

theorem addAll_cons_none {s : VS} {i : Nat} {v : Vote} (rest : List (Nat × Vote))
    (h : add s i v = none) : addAll s ((i, v) :: rest) = addAll s rest := by
  simp [addAll, h]

theorem inv_addAll {s : VS} (h : Inv s) (ops : List (Nat × Vote)) : Inv (addAll s ops) := by
  induction ops generalizing s with
  | nil => exact h
  | cons op rest ih =>
    obtain ⟨i, v⟩ := op
    cases ha : add s i v with
    | none => rw [addAll_cons_none rest ha]; exact ih h
    | some r =>
      obtain ⟨s', b⟩ := r
      rw [addAll_cons_some rest ha]
      exact ih (inv_add h ha)

theorem addAll_mono {s : VS} (h : Inv s) (d : Nat)
    (hmaj : 3 * countSlots s.slots d > 2 * s.slots.length) (ops : List (Nat × Vote)) :
    (addAll s ops).slots.length = s.slots.length ∧
      countSlots s.slots d ≤ countSlots (addAll s ops).slots d := by
  induction ops generalizing s with
  | nil => simp [addAll]
  | cons op rest ih =>
    obtain ⟨i, v⟩ := op
    cases ha : add s i v with
    | none => rw [addAll_cons_none rest ha]; exact ih h hmaj
    | some r =>
      obtain ⟨s', b⟩ := r
      rw [addAll_cons_some rest ha]
      obtain ⟨h1, h2⟩ := add_mono h hmaj ha
      obtain ⟨h3, h4⟩ := ih (inv_add h ha) (by rw [h1]; omega)
      exact ⟨by rw [h3, h1], by omega⟩

theorem new_slots_length (n : Nat) : (C04.new n).slots.length = n := by simp [C04.new]

/-- `add` never changes the number of slots -/
theorem add_length {s s' : VS} {i : Nat} {v : Vote} {b : Bool} (h : Inv s)
    (ha : add s i v = some (s', b)) : s'.slots.length = s.slots.length := by
  unfold add at ha
  cases hs : s.slots[i]? with
  | none => simp [hs] at ha
  | some old =>
    rw [hs] at ha
    have hge := getDecision_eq s h.cache
    cases old with
    | none =>
      simp only [Option.some.injEq, Prod.mk.injEq] at ha
      rw [← ha.1]; simp [place]
    | some o =>
      simp only at ha
      by_cases he : equalExceptSigs o v = true
      · simp only [he, if_true, Option.some.injEq, Prod.mk.injEq] at ha
        rw [← ha.1]
      · simp only [he, Bool.false_eq_true, if_false] at ha
        cases hd : (getDecision s).2 with
        | panic => simp [hd] at ha
        | no =>
          simp only [hd, Option.some.injEq, Prod.mk.injEq] at ha
          rw [← ha.1, hge]; simp [place]
        | decided rdd =>
          simp only [hd] at ha
          by_cases hr : rdd = o.d
          · simp only [hr, if_true, Option.some.injEq, Prod.mk.injEq] at ha
            rw [← ha.1, hge]
          · simp only [hr, if_false, Option.some.injEq, Prod.mk.injEq] at ha
            rw [← ha.1, hge]; simp [place]

theorem addAll_length {s : VS} (h : Inv s) (ops : List (Nat × Vote)) :
    (addAll s ops).slots.length = s.slots.length := by
  induction ops generalizing s with
  | nil => rfl
  | cons op rest ih =>
    obtain ⟨i, v⟩ := op
    cases ha : add s i v with
    | none => rw [addAll_cons_none rest ha]; exact ih h
    | some r =>
      obtain ⟨s', b⟩ := r
      rw [addAll_cons_some rest ha, ih (inv_add h ha)]
      exact add_length h ha


end Goloop.C04.Proofs

namespace Goloop.C04
/-- what callers do with a vote set: add a vote to a slot, or ask for the +2/3 decision
    (which updates the `maxIndex` cache). -/
inductive Op where
  | add (i : Nat) (v : Vote)
  | get
deriving Repr

def stepOp (s : VS) : Op → VS
  | Op.add i v => match add s i v with
    | some r => r.1
    | none => s          -- Go panicked (slot out of range): nothing was modified
  | Op.get => (getDecision s).1

def run (s : VS) : List Op → VS
  | [] => s
  | op :: rest => run (stepOp s op) rest

/-- states reachable from `newVoteSet(n)` -/
def Reachable (n : Nat) (s : VS) : Prop := ∃ ops, s = run (C04.new n) ops
end Goloop.C04

namespace Goloop.C04.Proofs
open Goloop.C04

theorem inv_step {s : VS} (h : Inv s) (op : Op) : Inv (stepOp s op) := by
  cases op with
  | get => exact inv_getDecision h
  | add i v =>
    simp only [stepOp]
    cases ha : add s i v with
    | none => exact h
    | some r => obtain ⟨s', b⟩ := r; exact inv_add h ha

theorem step_mono {s : VS} (h : Inv s) (d : Nat)
    (hmaj : 3 * countSlots s.slots d > 2 * s.slots.length) (op : Op) :
    (stepOp s op).slots.length = s.slots.length ∧
      countSlots s.slots d ≤ countSlots (stepOp s op).slots d := by
  cases op with
  | get =>
    simp only [stepOp]
    rw [getDecision_eq s h.cache]
    exact ⟨rfl, Nat.le_refl _⟩
  | add i v =>
    simp only [stepOp]
    cases ha : add s i v with
    | none => exact ⟨rfl, Nat.le_refl _⟩
    | some r => obtain ⟨s', b⟩ := r; exact add_mono h hmaj ha

theorem step_length {s : VS} (h : Inv s) (op : Op) : (stepOp s op).slots.length = s.slots.length := by
  cases op with
  | get =>
    simp only [stepOp]
    rw [getDecision_eq s h.cache]
  | add i v =>
    simp only [stepOp]
    cases ha : add s i v with
    | none => rfl
    | some r => obtain ⟨s', b⟩ := r; exact add_length h ha

theorem inv_run {s : VS} (h : Inv s) (ops : List Op) : Inv (run s ops) := by
  induction ops generalizing s with
  | nil => exact h
  | cons op rest ih => exact ih (inv_step h op)

theorem run_length {s : VS} (h : Inv s) (ops : List Op) : (run s ops).slots.length = s.slots.length := by
  induction ops generalizing s with
  | nil => rfl
  | cons op rest ih =>
    show (run (stepOp s op) rest).slots.length = _
    rw [ih (inv_step h op), step_length h op]

theorem run_mono {s : VS} (h : Inv s) (d : Nat)
    (hmaj : 3 * countSlots s.slots d > 2 * s.slots.length) (ops : List Op) :
    (run s ops).slots.length = s.slots.length ∧
      countSlots s.slots d ≤ countSlots (run s ops).slots d := by
  induction ops generalizing s with
  | nil => exact ⟨rfl, Nat.le_refl _⟩
  | cons op rest ih =>
    show (run (stepOp s op) rest).slots.length = _ ∧ _ ≤ countSlots (run (stepOp s op) rest).slots d
    obtain ⟨h1, h2⟩ := step_mono h d hmaj op
    obtain ⟨h3, h4⟩ := ih (inv_step h op) (by rw [h1]; omega)
    exact ⟨by rw [h3, h1], by omega⟩

theorem run_append (s : VS) (a b : List Op) : run s (a ++ b) = run (run s a) b := by
  induction a generalizing s with
  | nil => rfl
  | cons op rest ih => exact ih (stepOp s op)

theorem reachable_inv {n : Nat} {s : VS} (h : Reachable n s) : Inv s ∧ s.slots.length = n := by
  obtain ⟨ops, rfl⟩ := h
  exact ⟨inv_run (inv_new n) ops, by rw [run_length (inv_new n) ops, new_slots_length]⟩

end Goloop.C04.Proofs
