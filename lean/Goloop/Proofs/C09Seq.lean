/-
  Proofs/C09Seq: the sequential reference, cut into per-transaction prefixes.
-/
import Goloop.Proofs.C09Lock
namespace Goloop.C09.Proofs
open Goloop.C09

theorem getD_set {α : Type} (l : List α) (i j : Nat) (x d : α) :
    (l.set i x).getD j d = if i = j ∧ i < l.length then x else l.getD j d := by
  simp only [List.getD_eq_getElem?_getD, List.getElem?_set]
  by_cases h : i = j
  · subst h
    by_cases hl : i < l.length
    · simp [hl]
    · have : l[i]? = none := by simp; omega
      simp [hl, this]
  · simp [h]

/-- the blocks the code supports (and the harness generates) -/
structure Supported (txs : List Tx) : Prop where
  /-- no world READ lock request (no handler of the repository makes one) -/
  noWorldRead : ∀ t ∈ txs, ∀ r ∈ t.reqs, ¬ (r.acct = none ∧ r.lock = .read)
  /-- a world write locker accesses the state before it commits (ctx.UpdateSystemInfo()) -/
  worldTouches : ∀ i, i < txs.length → (lkAt txs i).world = 2 → (txAt txs i).prog ≠ []
  /-- writes go to accounts the transaction may write or did not declare (nil) -/
  valid : ∀ i, i < txs.length → validTx (lkAt txs i) (txAt txs i) = true

theorem world_cases {txs : List Tx} (hs : Supported txs) {i : Nat} (h : i < txs.length) :
    (lkAt txs i).world = 0 ∨ (lkAt txs i).world = 2 := by
  rw [lkAt_world h]
  apply worldLockOf_noRead
  intro r hr
  rw [txAt_lt h] at hr
  exact hs.noWorldRead _ (List.getElem_mem h) r hr

/-- access of a writer / a non-writer -/
theorem access_writer {txs : List Tx} (hs : Supported txs) {i : Nat} (h : i < txs.length) {a : Nat}
    (hw : writer txs i a = true) :
    access (lkAt txs i) a = .worldW ∧ (lkAt txs i).world = 2 ∨
    access (lkAt txs i) a = .rw (dep txs i a) ∧ (lkAt txs i).world = 0 := by
  rcases world_cases hs h with h0 | h2
  · exact Or.inr ⟨((access_noWorld h h0 a).1 hw).1, h0⟩
  · exact Or.inl ⟨access_world h2 a, h2⟩

theorem access_nonwriter {txs : List Tx} (hs : Supported txs) {i : Nat} (h : i < txs.length) {a : Nat}
    (hw : writer txs i a = false) :
    access (lkAt txs i) a = .ro (dep txs i a) ∨ access (lkAt txs i) a = .nil := by
  rcases world_cases hs h with h0 | h2
  · exact (access_noWorld h h0 a).2 hw
  · rw [writer_of_world h h2 a] at hw; cases hw

/-- a write step of a non-writer is a write to an undeclared account: nothing happens -/
theorem nonwriter_write_undeclared {txs : List Tx} (hs : Supported txs) {i : Nat} (h : i < txs.length) {a : Nat}
    (hw : writer txs i a = false) (hmem : Step.w a ∈ (txAt txs i).prog) :
    declaredBy (lkAt txs i) a = false := by
  have hv := hs.valid i h
  unfold validTx at hv
  rw [List.all_eq_true] at hv
  have := hv _ hmem
  rcases access_nonwriter hs h hw with hro | hnil
  · simp [hro] at this
  · simp [declaredBy, hnil]

/-! ### stepOn -/

theorem stepOn_length (i : Nat) (decl : Nat → Bool) (st : Step) (store : List Nat) (l : Local) :
    (stepOn i decl st store l).1.length = store.length := by
  unfold stepOn
  split
  · rfl
  · cases st <;> simp

theorem stepOn_getD_read (i : Nat) (decl : Nat → Bool) (b : Nat) (store : List Nat) (l : Local) :
    (stepOn i decl (.r b) store l).1 = store := by
  unfold stepOn
  split <;> rfl

theorem stepOn_getD_other (i : Nat) (decl : Nat → Bool) (st : Step) (store : List Nat) (l : Local) (a : Nat)
    (h : st.acct ≠ a ∨ decl st.acct = false) :
    (stepOn i decl st store l).1.getD a 0 = store.getD a 0 := by
  unfold stepOn
  by_cases hd : decl st.acct = true
  · simp only [hd, Bool.not_true, Bool.false_eq_true, if_false]
    cases st with
    | r b => rfl
    | w b =>
      simp only
      rw [getD_set]
      have : ¬ b = a := by
        rcases h with h | h
        · exact h
        · have hd2 : decl b = true := hd
          have h2 : decl b = false := h
          rw [hd2] at h2; cases h2
      simp [this]
  · simp [hd]

/-- the local part of a step on a declared account only depends on the value of that account -/
theorem stepOn_local (i : Nat) (decl decl' : Nat → Bool) (st : Step) (store store' : List Nat) (l : Local)
    (hd : decl st.acct = true) (hd' : decl' st.acct = true)
    (hv : store.getD st.acct 0 = store'.getD st.acct 0) :
    (stepOn i decl st store l).2 = (stepOn i decl' st store' l).2 := by
  unfold stepOn
  simp only [hd, hd', Bool.not_true, Bool.false_eq_true, if_false]
  cases st with
  | r b =>
    have hv' : store.getD b 0 = store'.getD b 0 := hv
    simp only [hv']
  | w b => rfl

theorem stepOn_undeclared (i : Nat) (decl : Nat → Bool) (st : Step) (store : List Nat) (l : Local)
    (hd : decl st.acct = false) :
    stepOn i decl st store l = (store, { l with obs := l.obs ++ [none] }) := by
  simp [stepOn, hd]

/-- value of an account after a step on a declared account -/
theorem stepOn_getD_self (i : Nat) (decl decl' : Nat → Bool) (st : Step) (store store' : List Nat) (l : Local)
    (hd : decl st.acct = true) (hd' : decl' st.acct = true)
    (hv : store.getD st.acct 0 = store'.getD st.acct 0) (hl : store.length = store'.length) :
    (stepOn i decl st store l).1.getD st.acct 0 = (stepOn i decl' st store' l).1.getD st.acct 0 := by
  unfold stepOn
  simp only [hd, hd', Bool.not_true, Bool.false_eq_true, if_false]
  cases st with
  | r b => exact hv
  | w b =>
    simp only [Step.acct] at hv ⊢
    rw [getD_set, getD_set, hl, hv]

/-! ### prefixes of the sequential run -/

def partialRun (i : Nat) (lk : Locks) (prog : List Step) (store : List Nat) (k : Nat) : List Nat × Local :=
  (prog.take k).foldl (fun (p : List Nat × Local) st => stepOn i (declaredBy lk) st p.1 p.2) (store, ⟨0, []⟩)

theorem partialRun_zero (i : Nat) (lk : Locks) (prog : List Step) (store : List Nat) :
    partialRun i lk prog store 0 = (store, ⟨0, []⟩) := by simp [partialRun]

theorem partialRun_succ (i : Nat) (lk : Locks) (prog : List Step) (store : List Nat) (k : Nat) (st : Step)
    (h : prog[k]? = some st) :
    partialRun i lk prog store (k + 1) =
      stepOn i (declaredBy lk) st (partialRun i lk prog store k).1 (partialRun i lk prog store k).2 := by
  unfold partialRun
  rw [List.take_add_one, h]
  simp [List.foldl_append]

theorem partialRun_full (i : Nat) (lk : Locks) (prog : List Step) (store : List Nat) (k : Nat)
    (h : prog.length ≤ k) : partialRun i lk prog store k = runTxSeq i lk prog store := by
  unfold partialRun runTxSeq
  rw [List.take_of_length_le h]

theorem partialRun_length (i : Nat) (lk : Locks) (prog : List Step) (store : List Nat) (k : Nat) :
    (partialRun i lk prog store k).1.length = store.length := by
  induction k with
  | zero => simp [partialRun_zero]
  | succ k ih =>
    cases h : prog[k]? with
    | none =>
      have hk : prog.length ≤ k := by simpa using h
      rw [partialRun_full _ _ _ _ _ (by omega), ← partialRun_full _ _ _ _ k hk]; exact ih
    | some st => rw [partialRun_succ _ _ _ _ _ _ h, stepOn_length]; exact ih

/-- store before transaction `i` in the sequential execution -/
def seqState (txs : List Tx) (init : List Nat) : Nat → List Nat
  | 0 => init
  | i + 1 => (runTxSeq i (lkAt txs i) (txAt txs i).prog (seqState txs init i)).1

/-- sequential run of transaction `i` after its first `k` steps -/
def P (txs : List Tx) (init : List Nat) (i k : Nat) : List Nat × Local :=
  partialRun i (lkAt txs i) (txAt txs i).prog (seqState txs init i) k

theorem P_full (txs : List Tx) (init : List Nat) (i k : Nat) (h : (txAt txs i).prog.length ≤ k) :
    (P txs init i k).1 = seqState txs init (i + 1) := by
  unfold P
  rw [partialRun_full _ _ _ _ _ h]
  rfl

theorem seqState_length (txs : List Tx) (init : List Nat) (i : Nat) : (seqState txs init i).length = init.length := by
  induction i with
  | zero => rfl
  | succ i ih =>
    rw [← P_full txs init i _ (Nat.le_refl _)]
    unfold P
    rw [partialRun_length]; exact ih

theorem P_length (txs : List Tx) (init : List Nat) (i k : Nat) : (P txs init i k).1.length = init.length := by
  unfold P; rw [partialRun_length, seqState_length]

/-- a transaction that may not write `a` never changes `a` -/
theorem P_nonwriter {txs : List Tx} (hs : Supported txs) (init : List Nat) {i : Nat} (h : i < txs.length) {a : Nat}
    (hw : writer txs i a = false) (k : Nat) :
    (P txs init i k).1.getD a 0 = (seqState txs init i).getD a 0 := by
  induction k with
  | zero => simp [P, partialRun_zero]
  | succ k ih =>
    cases hst : (txAt txs i).prog[k]? with
    | none =>
      have hk : (txAt txs i).prog.length ≤ k := by simpa using hst
      rw [P_full _ _ _ _ (by omega), ← P_full _ _ _ k hk]; exact ih
    | some st =>
      unfold P at ih ⊢
      rw [partialRun_succ _ _ _ _ _ _ hst]
      cases st with
      | r b => rw [stepOn_getD_read]; exact ih
      | w b =>
        rw [stepOn_getD_other _ _ _ _ _ a, ih]
        by_cases hba : b = a
        · subst hba
          right
          exact nonwriter_write_undeclared hs h hw (List.mem_of_getElem? hst)
        · left; exact hba

theorem seqState_nonwriter {txs : List Tx} (hs : Supported txs) (init : List Nat) {i : Nat} (h : i < txs.length)
    {a : Nat} (hw : writer txs i a = false) :
    (seqState txs init (i + 1)).getD a 0 = (seqState txs init i).getD a 0 := by
  rw [← P_full txs init i _ (Nat.le_refl _)]
  exact P_nonwriter hs init h hw _

/-- between two points of the block with no writer of `a` in between, `a` keeps its value -/
theorem seqState_const {txs : List Tx} (hs : Supported txs) (init : List Nat) (a lo : Nat) :
    ∀ hi, lo ≤ hi → hi ≤ txs.length → (∀ j, lo ≤ j → j < hi → writer txs j a = false) →
      (seqState txs init hi).getD a 0 = (seqState txs init lo).getD a 0 := by
  intro hi
  induction hi with
  | zero => intro h _ _; have : lo = 0 := by omega
            subst this; rfl
  | succ hi ih =>
    intro hle hlen hnw
    by_cases heq : lo = hi + 1
    · subst heq; rfl
    · rw [seqState_nonwriter hs init (by omega) (hnw hi (by omega) (by omega))]
      exact ih (by omega) (by omega) (fun j h1 h2 => hnw j h1 (by omega))

end Goloop.C09.Proofs
