import Goloop.Model.C29
namespace Goloop.C29.Proofs
open Goloop Goloop.C29

variable {σ : Type}

/-- the signature `s` at index `i` recovers to validator `i`. -/
def Good (rec : σ → Option Bytes) (vals : List Bytes) (i : Nat) (s : σ) : Prop :=
  ∃ a, rec s = some a ∧ vals[i]? = some a

theorem verifyPart_ok (rec : σ → Option Bytes) (vals : List Bytes) (i : Nat) (s : σ) (j : Nat) :
    verifyPart rec vals (i : Int) s = .ok j ↔ j = i ∧ Good rec vals i s := by
  unfold verifyPart Good
  by_cases hi : ((i : Int) < 0 ∨ (i : Int) ≥ (vals.length : Int))
  · simp only [hi, if_true]
    constructor
    · intro h; cases h
    · rintro ⟨_, a, _, ha⟩
      have : i < vals.length := by
        have := List.getElem?_eq_some_iff.mp ha
        exact this.1
      omega
  · simp only [hi, if_false]
    cases hr : rec s with
    | none => simp
    | some a =>
      simp only [Int.toNat_natCast]
      by_cases hv : vals[i]? = some a
      · simp [hv]; exact eq_comm
      · simp only [ne_eq, hv, not_false_eq_true, if_true]
        constructor
        · intro h; split at h <;> cases h
        · rintro ⟨_, b, hb, hb'⟩
          cases hb; exact absurd hb' hv

theorem verifyPart_ok_idx (rec : σ → Option Bytes) (vals : List Bytes) (i : Nat) (s : σ) (j : Nat)
    (h : verifyPart rec vals (i : Int) s = .ok j) : j = i :=
  ((verifyPart_ok rec vals i s j).mp h).1

theorem present_cons_none (rest : List (Option σ)) : present (none :: rest) = present rest := by
  simp [present]

theorem present_cons_some (s : σ) (rest : List (Option σ)) :
    present (some s :: rest) = present rest + 1 := by
  simp [present]

/-- characterisation of the loop; in particular the `duplicated` branch is dead. -/
theorem loop_ok (rec : σ → Option Bytes) (vals : List Bytes) :
    ∀ (sigs : List (Option σ)) (i : Nat) (seen : List Nat) (valid v : Nat),
      (∀ j ∈ seen, j < i) →
      (verifyLoop rec vals sigs i seen valid = .ok v ↔
        (∀ k s, sigs[k]? = some (some s) → Good rec vals (i + k) s) ∧ v = valid + present sigs)
  | [], i, seen, valid, v, _ => by
    simp [verifyLoop, present]; exact eq_comm
  | none :: rest, i, seen, valid, v, hs => by
    simp only [verifyLoop]
    rw [loop_ok rec vals rest (i + 1) seen valid v (fun j hj => Nat.lt_succ_of_lt (hs j hj))]
    rw [present_cons_none]
    constructor
    · rintro ⟨h, hv⟩
      refine ⟨?_, hv⟩
      intro k s hk
      cases k with
      | zero => simp at hk
      | succ k =>
        have := h k s (by simpa using hk)
        have e : i + 1 + k = i + (k + 1) := by omega
        rwa [e] at this
    · rintro ⟨h, hv⟩
      refine ⟨?_, hv⟩
      intro k s hk
      have := h (k + 1) s (by simpa using hk)
      have e : i + 1 + k = i + (k + 1) := by omega
      rwa [e]
  | some sig :: rest, i, seen, valid, v, hs => by
    simp only [verifyLoop]
    cases hp : verifyPart rec vals (i : Int) sig with
    | error e =>
      simp only []
      constructor
      · intro h; cases h
      · rintro ⟨h, _⟩
        have g := h 0 sig (by simp)
        have := (verifyPart_ok rec vals i sig i).mpr ⟨rfl, by simpa using g⟩
        rw [hp] at this; cases this
    | ok idx =>
      have hidx : idx = i := verifyPart_ok_idx rec vals i sig idx hp
      subst hidx
      have hg : Good rec vals idx sig := ((verifyPart_ok rec vals idx sig idx).mp hp).2
      have hnot : idx ∉ seen := fun hm => Nat.lt_irrefl _ (hs idx hm)
      simp only [hnot, if_false]
      rw [loop_ok rec vals rest (idx + 1) (idx :: seen) (valid + 1) v (by
        intro j hj
        rcases List.mem_cons.mp hj with h | h
        · omega
        · exact Nat.lt_succ_of_lt (hs j h))]
      rw [present_cons_some]
      constructor
      · rintro ⟨h, hv⟩
        refine ⟨?_, by omega⟩
        intro k s hk
        cases k with
        | zero =>
          simp at hk; subst hk; simpa using hg
        | succ k =>
          have := h k s (by simpa using hk)
          have e : idx + 1 + k = idx + (k + 1) := by omega
          rwa [e] at this
      · rintro ⟨h, hv⟩
        refine ⟨?_, by omega⟩
        intro k s hk
        have := h (k + 1) s (by simpa using hk)
        have e : idx + 1 + k = idx + (k + 1) := by omega
        rwa [e]

/-- the loop never reports `duplicated`. -/
theorem loop_never_duplicated (rec : σ → Option Bytes) (vals : List Bytes) :
    ∀ (sigs : List (Option σ)) (i : Nat) (seen : List Nat) (valid : Nat),
      (∀ j ∈ seen, j < i) → verifyLoop rec vals sigs i seen valid ≠ .error .duplicated
  | [], _, _, _, _ => by simp [verifyLoop]
  | none :: rest, i, seen, valid, hs => by
    simp only [verifyLoop]
    exact loop_never_duplicated rec vals rest (i + 1) seen valid
      (fun j hj => Nat.lt_succ_of_lt (hs j hj))
  | some sig :: rest, i, seen, valid, hs => by
    simp only [verifyLoop]
    cases hp : verifyPart rec vals (i : Int) sig with
    | error e =>
      simp only []
      intro h
      injection h with h
      subst h
      unfold verifyPart at hp
      repeat' split at hp
      all_goals cases hp
    | ok idx =>
      have hidx : idx = i := verifyPart_ok_idx rec vals i sig idx hp
      subst hidx
      have hnot : idx ∉ seen := fun hm => Nat.lt_irrefl _ (hs idx hm)
      simp only [hnot, if_false]
      exact loop_never_duplicated rec vals rest (idx + 1) (idx :: seen) (valid + 1) (by
        intro j hj
        rcases List.mem_cons.mp hj with h | h
        · omega
        · exact Nat.lt_succ_of_lt (hs j h))

theorem threshold_iff (k n : Nat) : ¬ (k ≤ 2 * n / 3) ↔ 3 * k > 2 * n := by omega

theorem verify_iff (rec : σ → Option Bytes) (vals : List Bytes) (sigs : List (Option σ)) :
    verify rec vals sigs = none ↔
      (∀ (i : Nat) (s : σ), sigs[i]? = some (some s) → Good rec vals i s) ∧
      3 * present sigs > 2 * vals.length := by
  unfold verify
  cases hl : verifyLoop rec vals sigs 0 [] 0 with
  | error e =>
    simp only []
    constructor
    · intro h; cases h
    · rintro ⟨h, _⟩
      have := (loop_ok rec vals sigs 0 [] 0 (present sigs) (by simp)).mpr
        ⟨by simpa using h, by simp⟩
      rw [hl] at this; cases this
  | ok v =>
    have := (loop_ok rec vals sigs 0 [] 0 v (by simp)).mp hl
    obtain ⟨hg, hv⟩ := this
    simp only [Nat.zero_add] at hg hv
    subst hv
    simp only []
    constructor
    · intro h
      refine ⟨hg, ?_⟩
      by_cases hc : present sigs ≤ 2 * vals.length / 3
      · simp [hc] at h
      · exact (threshold_iff _ _).mp hc
    · rintro ⟨_, ht⟩
      have : ¬ (present sigs ≤ 2 * vals.length / 3) := (threshold_iff _ _).mpr ht
      simp [this]

/-- the validators that signed: validator `i` for each occupied slot `i`. -/
def signers (vals : List Bytes) (sigs : List (Option σ)) : List Bytes :=
  (vals.zip sigs).filterMap (fun p => if p.2.isSome then some p.1 else none)

theorem signers_sublist : ∀ (vals : List Bytes) (sigs : List (Option σ)),
    (signers vals sigs).Sublist vals
  | [], _ => by simp [signers]
  | _ :: _, [] => by simp [signers]
  | v :: vs, s :: ss => by
    have ih := signers_sublist vs ss
    unfold signers at ih ⊢
    simp only [List.zip_cons_cons, List.filterMap_cons]
    cases s with
    | none => simpa using ih.cons v
    | some x => simpa using ih.cons_cons v

theorem signers_nodup (vals : List Bytes) (sigs : List (Option σ)) (h : vals.Nodup) :
    (signers vals sigs).Nodup := (signers_sublist vals sigs).nodup h

theorem signers_length : ∀ (vals : List Bytes) (sigs : List (Option σ)),
    (∀ (i : Nat) (s : σ), sigs[i]? = some (some s) → i < vals.length) →
    (signers vals sigs).length = present sigs
  | _, [], _ => by simp [signers, present]
  | [], s :: ss, h => by
    have hall : ∀ x ∈ (s :: ss), x = none := by
      intro x hx
      cases x with
      | none => rfl
      | some y =>
        obtain ⟨i, hi, he⟩ := List.mem_iff_getElem.mp hx
        have := h i y (by rw [List.getElem?_eq_getElem hi, he])
        simp at this
    have : (s :: ss).filter Option.isSome = [] := by
      apply List.filter_eq_nil_iff.mpr
      intro x hx; rw [hall x hx]; simp
    simp [signers, present, this]
  | v :: vs, s :: ss, h => by
    have ih := signers_length vs ss (fun i x hx => by
      have := h (i + 1) x (by simpa using hx)
      simpa using this)
    unfold signers at ih ⊢
    simp only [List.zip_cons_cons, List.filterMap_cons]
    cases s with
    | none => simpa [present] using ih
    | some x => simp [present] at ih ⊢; exact ih

/-! ### proofContextMap.Verify -/

/-- the `k`-th proof is a valid proof, in the sense of `verify`, for the context registered for
    network type `ntid`, over the decision built from that same `ntid` and section hash `h`. -/
def GoodFor (pcm : Int → Option Ctx) (decode : Bytes → Option (List (Option σ)))
    (rec : Nat → Bytes → σ → Option Bytes) (src : Option Bytes) (height round : Int)
    (proofs : List Bytes) (k : Nat) (ntid : Int) (h : Option Bytes) : Prop :=
  ∃ ctx sigs, pcm ntid = some ctx ∧ decode (proofs.getD k []) = some sigs ∧
    verify (rec ctx.uid (Decision.bytes
      { src := src, ntid := ntid, height := height, round := round, ntsHash := h })) ctx.vals sigs = none

theorem mapLoop_iff (pcm : Int → Option Ctx) (decode : Bytes → Option (List (Option σ)))
    (rec : Nat → Bytes → σ → Option Bytes) (src : Option Bytes) (height round : Int)
    (proofs : List Bytes) :
    ∀ (digests : List (Int × Option Bytes)) (i : Nat),
      verifyMapLoop pcm decode rec src height round proofs digests i = none ↔
      ∀ (k : Nat) (ntid : Int) (h : Option Bytes), (registered pcm digests)[k]? = some (ntid, h) →
        GoodFor pcm decode rec src height round proofs (i + k) ntid h
  | [], i => by simp [verifyMapLoop, registered]
  | (ntid, h) :: rest, i => by
    unfold verifyMapLoop
    cases hp : pcm ntid with
    | none =>
      have hr : registered pcm ((ntid, h) :: rest) = registered pcm rest := by
        simp [registered, hp]
      simp only [hr]
      exact mapLoop_iff pcm decode rec src height round proofs rest i
    | some ctx =>
      have hr : registered pcm ((ntid, h) :: rest) = (ntid, h) :: registered pcm rest := by
        simp [registered, hp]
      simp only [hr]
      cases hd : decode (proofs.getD i []) with
      | none =>
        simp only []
        constructor
        · intro hc; cases hc
        · intro hall
          obtain ⟨ctx', sigs, _, h2, _⟩ := hall 0 ntid h (by simp)
          simp only [Nat.add_zero] at h2
          rw [hd] at h2; cases h2
      | some sigs =>
        simp only []
        cases hv : verify (rec ctx.uid (Decision.bytes
            { src := src, ntid := ntid, height := height, round := round, ntsHash := h })) ctx.vals sigs with
        | some e =>
          simp only []
          constructor
          · intro hc; cases hc
          · intro hall
            obtain ⟨ctx', sigs', h1, h2, h3⟩ := hall 0 ntid h (by simp)
            simp only [Nat.add_zero] at h2
            rw [hp] at h1; cases h1
            rw [hd] at h2; cases h2
            rw [hv] at h3; cases h3
        | none =>
          simp only []
          rw [mapLoop_iff pcm decode rec src height round proofs rest (i + 1)]
          constructor
          · intro hall k ntid' h' hk
            cases k with
            | zero =>
              simp at hk
              obtain ⟨rfl, rfl⟩ := hk
              exact ⟨ctx, sigs, hp, by simpa using hd, hv⟩
            | succ k =>
              have := hall k ntid' h' (by simpa using hk)
              have e : i + 1 + k = i + (k + 1) := by omega
              rwa [e] at this
          · intro hall k ntid' h' hk
            have := hall (k + 1) ntid' h' (by simpa using hk)
            have e : i + 1 + k = i + (k + 1) := by omega
            rwa [e]

theorem verifyMap_iff (pcm : Int → Option Ctx) (decode : Bytes → Option (List (Option σ)))
    (rec : Nat → Bytes → σ → Option Bytes) (src : Option Bytes) (height round : Int)
    (digests : List (Int × Option Bytes)) (proofs : List Bytes) :
    verifyMap pcm decode rec src height round digests proofs = none ↔
      (registered pcm digests).length = proofs.length ∧
      ∀ (k : Nat) (ntid : Int) (h : Option Bytes), (registered pcm digests)[k]? = some (ntid, h) →
        GoodFor pcm decode rec src height round proofs k ntid h := by
  unfold verifyMap
  by_cases hl : (registered pcm digests).length = proofs.length
  · rw [if_neg (by simp [hl])]
    rw [mapLoop_iff]
    simp [hl]
  · rw [if_pos hl]
    simp [hl]

end Goloop.C29.Proofs
