/-
  Proofs/C07: helper lemmas for Props/C07 (median of vote timestamps, import guards).
-/
import Goloop.Model.C07
namespace Goloop.C07.Proofs
open Goloop.C07

/-! ### wrap64 -/

theorem wrap64_id (x : Int) (h1 : -(2 ^ 63 : Int) ≤ x) (h2 : x < 2 ^ 63) : wrap64 x = x := by
  unfold wrap64
  have : (x + 2 ^ 63) % 2 ^ 64 = x + 2 ^ 63 := Int.emod_eq_of_lt (by omega) (by omega)
  omega

/-! ### sorting -/

theorem sortTs_perm (l : List Int) : (sortTs l).Perm l := List.mergeSort_perm l _

theorem sortTs_sorted (l : List Int) : (sortTs l).Pairwise (fun a b => a ≤ b) := by
  have h := List.pairwise_mergeSort (le := fun (a b : Int) => decide (a ≤ b))
    (by intro a b c hab hbc; simp only [decide_eq_true_eq] at *; omega)
    (by intro a b; simp only [Bool.or_eq_true, decide_eq_true_eq]; omega) l
  unfold sortTs
  exact h.imp (by intro a b hab; simpa using hab)

theorem sorted_unique {s t : List Int} (hp : s.Perm t)
    (hs : s.Pairwise (fun a b => a ≤ b)) (ht : t.Pairwise (fun a b => a ≤ b)) : s = t :=
  List.Perm.eq_of_pairwise (le := fun a b => a ≤ b) (by intro a b _ _ h1 h2; omega) hs ht hp

theorem sortTs_unique {s l : List Int} (hp : s.Perm l) (hs : s.Pairwise (fun a b => a ≤ b)) :
    s = sortTs l :=
  sorted_unique (hp.trans (sortTs_perm l).symm) hs (sortTs_sorted l)

theorem sortTs_congr {l l' : List Int} (h : l.Perm l') : sortTs l = sortTs l' :=
  sortTs_unique ((sortTs_perm l).trans h) (sortTs_sorted l)

theorem sortTs_of_sorted {l : List Int} (hs : l.Pairwise (fun a b => a ≤ b)) : sortTs l = l :=
  (sortTs_unique (List.Perm.refl l) hs).symm

theorem sortTs_length (l : List Int) : (sortTs l).length = l.length := (sortTs_perm l).length_eq

theorem median_perm {l l' : List Int} (h : l.Perm l') : median l = median l' := by
  unfold median
  rw [sortTs_congr h, h.length_eq]

/-- evaluation of `median` on a list that is already ascending (used for concrete examples:
    `mergeSort` is defined by well-founded recursion and does not reduce under `decide`) -/
theorem median_of_sorted {l : List Int} (hs : l.Pairwise (fun a b => a ≤ b)) :
    median l =
      if l.length = 0 then 0
      else if l.length % 2 = 1 then l.getD (l.length / 2) 0
      else (wrap64 (l.getD (l.length / 2 - 1) 0 + l.getD (l.length / 2) 0)).tdiv 2 := by
  unfold median
  rw [sortTs_of_sorted hs]

/-! ### elements of the sorted list -/

theorem getD_mem_of_lt {s : List Int} {i : Nat} (h : i < s.length) : s.getD i 0 ∈ s := by
  simp only [List.getD_eq_getElem?_getD, List.getElem?_eq_getElem h, Option.getD_some]
  exact List.getElem_mem h

theorem sorted_getD_mem (l : List Int) {i : Nat} (h : i < l.length) : (sortTs l).getD i 0 ∈ l := by
  have := getD_mem_of_lt (s := sortTs l) (i := i) (by rw [sortTs_length]; exact h)
  exact (sortTs_perm l).mem_iff.mp this

/-! ### truncated mean -/

theorem tdiv2_bounds (a b lo hi : Int) (ha : lo ≤ a ∧ a ≤ hi) (hb : lo ≤ b ∧ b ≤ hi) :
    lo ≤ (a + b).tdiv 2 ∧ (a + b).tdiv 2 ≤ hi := by
  by_cases h : 0 ≤ a + b
  · rw [Int.tdiv_eq_ediv_of_nonneg h]; omega
  · have hneg : a + b = -(-(a + b)) := by omega
    rw [hneg, Int.neg_tdiv, Int.tdiv_eq_ediv_of_nonneg (by omega)]
    omega

/-! ### the median formula -/

theorem median_formula (ts : List Int) (hne : ts ≠ [])
    (hb : ∀ t ∈ ts, -(2 ^ 62 : Int) ≤ t ∧ t < 2 ^ 62) :
    median ts =
      if ts.length % 2 = 1 then (sortTs ts).getD (ts.length / 2) 0
      else ((sortTs ts).getD (ts.length / 2 - 1) 0 + (sortTs ts).getD (ts.length / 2) 0).tdiv 2 := by
  have hlen : ts.length ≠ 0 := by
    intro h; exact hne (List.eq_nil_of_length_eq_zero h)
  unfold median
  simp only [hlen, if_false]
  split
  · rfl
  · rename_i hodd
    have h1 := hb _ (sorted_getD_mem ts (i := ts.length / 2 - 1) (by omega))
    have h2 := hb _ (sorted_getD_mem ts (i := ts.length / 2) (by omega))
    rw [wrap64_id _ (by omega) (by omega)]

theorem median_between (ts : List Int) (hne : ts ≠ [])
    (hb : ∀ t ∈ ts, -(2 ^ 62 : Int) ≤ t ∧ t < 2 ^ 62)
    (lo hi : Int) (h : ∀ t ∈ ts, lo ≤ t ∧ t ≤ hi) : lo ≤ median ts ∧ median ts ≤ hi := by
  have hlen : ts.length ≠ 0 := by
    intro h; exact hne (List.eq_nil_of_length_eq_zero h)
  rw [median_formula ts hne hb]
  split
  · exact h _ (sorted_getD_mem ts (by omega))
  · exact tdiv2_bounds _ _ lo hi (h _ (sorted_getD_mem ts (by omega))) (h _ (sorted_getD_mem ts (by omega)))

/-! ### import guards -/

variable {ι : Type} [DecidableEq ι]

theorem lookup_some {nmap : List (Blk ι)} {id : ι} {p : Blk ι} (h : lookup nmap id = some p) :
    p ∈ nmap ∧ p.id = id := by
  unfold lookup at h
  refine ⟨List.mem_of_find?_eq_some h, ?_⟩
  have := List.find?_some h
  simpa using this

omit [DecidableEq ι] in
theorem verifyTimestamp_accept_iff (b : Cand ι) (p : Blk ι) :
    verifyTimestamp b p = .accept ↔ (b.height ≤ 1 ∨ (b.ts = median b.votes ∧ p.ts < b.ts)) := by
  unfold verifyTimestamp
  split
  · rename_i h
    constructor
    · intro e; cases e
    · intro e
      rcases e with e | ⟨e1, _⟩
      · omega
      · exact absurd e1 h.2
  · rename_i h1
    split
    · rename_i h2
      constructor
      · intro e; cases e
      · intro e
        rcases e with e | ⟨_, e2⟩
        · omega
        · omega
    · rename_i h2
      constructor
      · intro _
        by_cases hh : b.height ≤ 1
        · left; exact hh
        · right
          constructor
          · apply Classical.byContradiction
            intro hne
            exact h1 ⟨by omega, hne⟩
          · apply Classical.byContradiction
            intro hle
            exact h2 ⟨by omega, by omega⟩
      · intro _; rfl

theorem verifyNewBlock_accept_iff (certOk : Blk ι → Cand ι → Bool) (b : Cand ι) (p : Blk ι)
    (hp : -(2 ^ 63 : Int) ≤ p.height ∧ p.height < 2 ^ 63 - 1) :
    verifyNewBlock certOk b p = .accept ↔
      (b.version = p.nextVersion ∧ b.height = p.height + 1 ∧ b.prevID = p.id ∧ certOk p b = true ∧
        (b.height ≤ 1 ∨ (b.ts = median b.votes ∧ p.ts < b.ts))) := by
  unfold verifyNewBlock
  rw [wrap64_id _ (by omega) (by omega)]
  by_cases h1 : b.version = p.nextVersion
  · by_cases h2 : b.height = p.height + 1
    · by_cases h3 : b.prevID = p.id
      · by_cases h4 : certOk p b = true
        · simp only [h1, h2, h3, h4, ne_eq, not_true_eq_false, if_false, Bool.not_true, true_and]
          have := verifyTimestamp_accept_iff b p
          rw [h2] at this
          simpa using this
        · simp [h1, h2, h3, h4]
      · simp [h1, h2, h3]
    · simp [h1, h2]
  · simp [h1]

end Goloop.C07.Proofs
