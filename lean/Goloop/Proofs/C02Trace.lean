/-
  Proofs/C02Trace — facts about effect traces (Model/C01: `walState`, `sentOf`, `finalizedOf`):
  durable-before-send and the height bound, both closed under taking prefixes (= crash points).
-/
import Goloop.Proofs.C01G1
namespace Goloop.C01

/-- one effect applied to the (synced, buffered) pair of WAL `w` -/
def walStep (w : Wal) (st : List Rec × List Rec) : Eff → List Rec × List Rec
  | .write w' r => if w' = w then (st.1, st.2 ++ [r]) else st
  | .sync w' => if w' = w then (st.1 ++ st.2, []) else st
  | .crash k => (st.1 ++ st.2.take k, [])
  | _ => st

theorem walGo_append (w : Wal) (st : List Rec × List Rec) (es : List Eff) (e : Eff) :
    walGo w st (es ++ [e]) = walStep w (walGo w st es) e := by
  induction es generalizing st with
  | nil => cases e <;> simp [walGo, walStep] <;> split <;> rfl
  | cons a t ih =>
    cases a <;> simp only [List.cons_append, walGo] <;> (try split) <;> exact ih _

theorem walState_append (w : Wal) (es : List Eff) (e : Eff) :
    walState w (es ++ [e]) = walStep w (walState w es) e := walGo_append w _ es e

/-- the synced part only grows -/
theorem walDurable_mono (w : Wal) (es : List Eff) (e : Eff) (r : Rec)
    (h : r ∈ walDurable w es) : r ∈ walDurable w (es ++ [e]) := by
  unfold walDurable at *
  rw [walState_append]
  cases e <;> simp only [walStep] <;> (try split) <;> simp [h]

theorem walDurable_write_sync (w : Wal) (es : List Eff) (r : Rec) :
    r ∈ walDurable w ((es ++ [.write w r]) ++ [.sync w]) := by
  unfold walDurable
  rw [walState_append, walState_append]
  simp [walStep]

theorem finalizedOf_append (a b : List Eff) : finalizedOf (a ++ b) = finalizedOf a ++ finalizedOf b := by
  induction a with
  | nil => rfl
  | cons e t ih => cases e <;> simp [finalizedOf, ih]

theorem foldl_max_ge (l : List (Nat × Blk)) (a : Nat) : a ≤ l.foldl (fun a p => max a p.1) a := by
  induction l generalizing a with
  | nil => simp
  | cons x t ih => simp only [List.foldl_cons]; exact Nat.le_trans (Nat.le_max_left _ _) (ih _)

theorem lastFin_append_le (es : List Eff) (e : Eff) :
    lastFinalizedHeight es ≤ lastFinalizedHeight (es ++ [e]) := by
  unfold lastFinalizedHeight
  rw [finalizedOf_append, List.foldl_append]
  exact foldl_max_ge _ _

theorem lastFin_append_fin (es : List Eff) (h b : Nat) :
    lastFinalizedHeight (es ++ [.finalize h b]) = max (lastFinalizedHeight es) h := by
  unfold lastFinalizedHeight
  rw [finalizedOf_append, List.foldl_append]
  simp [finalizedOf]

theorem lastFin_append_other (es : List Eff) (e : Eff) (he : ∀ h b, e ≠ .finalize h b) :
    lastFinalizedHeight (es ++ [e]) = lastFinalizedHeight es := by
  unfold lastFinalizedHeight
  rw [finalizedOf_append]
  cases e <;> simp [finalizedOf] at he ⊢

/-- durable before send: every signed message handed to the network is in the synced round WAL -/
def DBS (es : List Eff) : Prop := ∀ m, m ∈ sentOf es → Rec.msg m ∈ walDurable .round es

def msgHeight : Msg → Nat
  | .proposal _ h _ _ _ => h
  | .vote v => v.height

def msgSigner : Msg → Nat
  | .proposal sg _ _ _ _ => sg
  | .vote v => v.signer

/-- messages are only signed for a height at most one above the last finalized one -/
def HB (es : List Eff) : Prop :=
  ∀ m, m ∈ sentOf es → msgHeight m ≤ lastFinalizedHeight es + 1

/-- trace invariant, closed under prefixes (crash points) -/
structure TraceInv (me n : Nat) (es : List Eff) : Prop where
  dbs : ∀ p, DBS (es.take p)
  hb : ∀ p, HB (es.take p)
  sg : ∀ m, m ∈ sentOf es → msgSigner m = me ∧ (∀ v, m = .vote v → me < n)

theorem take_append_one (es : List Eff) (e : Eff) (p : Nat) :
    (es ++ [e]).take p = es.take p ∨ (es ++ [e]).take p = es ++ [e] := by
  by_cases h : p ≤ es.length
  · left; rw [List.take_append_of_le_length h]
  · right; rw [List.take_of_length_le (by simp; omega)]

theorem sentOf_nonsend (es : List Eff) (e : Eff) (he : ∀ m, e ≠ .send m) : sentOf (es ++ [e]) = sentOf es := by
  rw [sentOf_append]; cases e <;> simp [sentOf] at he ⊢

theorem traceInv_nil (me n : Nat) : TraceInv me n [] := by
  refine ⟨?_, ?_, ?_⟩
  · intro p m hm; simp [sentOf] at hm
  · intro p v hv; simp [sentOf] at hv
  · intro v hv; simp [sentOf] at hv

theorem traceInv_take (me n : Nat) (es : List Eff) (c : Nat) (h : TraceInv me n es) :
    TraceInv me n (es.take c) := by
  refine ⟨?_, ?_, ?_⟩
  · intro p; rw [List.take_take]; exact h.dbs _
  · intro p; rw [List.take_take]; exact h.hb _
  · intro v hv
    apply h.sg v
    have : es = es.take c ++ es.drop c := (List.take_append_drop c es).symm
    rw [this, sentOf_append]
    exact List.mem_append_left _ hv

theorem traceInv_append_nonsend (me n : Nat) (es : List Eff) (e : Eff) (he : ∀ m, e ≠ .send m)
    (h : TraceInv me n es) : TraceInv me n (es ++ [e]) := by
  have hfull := h.dbs es.length
  have hbfull := h.hb es.length
  rw [List.take_length] at hfull hbfull
  refine ⟨?_, ?_, ?_⟩
  · intro p
    rcases take_append_one es e p with h1 | h1 <;> rw [h1]
    · exact h.dbs p
    · intro m hm
      rw [sentOf_nonsend es e he] at hm
      exact walDurable_mono _ _ _ _ (hfull m hm)
  · intro p
    rcases take_append_one es e p with h1 | h1 <;> rw [h1]
    · exact h.hb p
    · intro v hv
      rw [sentOf_nonsend es e he] at hv
      have := hbfull v hv
      have := lastFin_append_le es e
      omega
  · intro v hv
    rw [sentOf_nonsend es e he] at hv
    exact h.sg v hv

/-- appending `send m` right after `write round m; sync round` -/
theorem traceInv_append_send (me n : Nat) (es : List Eff) (m : Msg)
    (h : TraceInv me n ((es ++ [.write .round (.msg m)]) ++ [.sync .round]))
    (hv : msgSigner m = me ∧ (∀ v, m = .vote v → me < n) ∧
      msgHeight m ≤ lastFinalizedHeight ((es ++ [.write .round (.msg m)]) ++ [.sync .round]) + 1) :
    TraceInv me n (((es ++ [.write .round (.msg m)]) ++ [.sync .round]) ++ [.send m]) := by
  generalize hes : ((es ++ [.write .round (.msg m)]) ++ [.sync .round]) = es2 at h hv ⊢
  have hin : Rec.msg m ∈ walDurable .round es2 := by rw [← hes]; exact walDurable_write_sync _ _ _
  have hfull := h.dbs es2.length
  have hbfull := h.hb es2.length
  rw [List.take_length] at hfull hbfull
  have hs : sentOf (es2 ++ [.send m]) = sentOf es2 ++ [m] := by rw [sentOf_append]; simp [sentOf]
  refine ⟨?_, ?_, ?_⟩
  · intro p
    rcases take_append_one es2 (.send m) p with h1 | h1 <;> rw [h1]
    · exact h.dbs p
    · intro m' hm'
      rw [hs] at hm'
      apply walDurable_mono
      rcases List.mem_append.mp hm' with h2 | h2
      · exact hfull m' h2
      · simp at h2; subst h2; exact hin
  · intro p
    rcases take_append_one es2 (.send m) p with h1 | h1 <;> rw [h1]
    · exact h.hb p
    · intro v hv'
      rw [hs] at hv'
      have hl := lastFin_append_le es2 (.send m)
      rcases List.mem_append.mp hv' with h2 | h2
      · have := hbfull v h2; omega
      · simp at h2; subst h2; have := hv.2.2; omega
  · intro v hv'
    rw [hs] at hv'
    rcases List.mem_append.mp hv' with h2 | h2
    · exact h.sg v h2
    · simp at h2; subst h2; exact ⟨hv.1, hv.2.1⟩

end Goloop.C01
