/-
  Proofs/C06 — helper lemmas for the double-sign evidence model.
-/
import Goloop.Model.C06
namespace Goloop.C06.Proofs
open Goloop.C06

theorem matchNID_iff (a b : Nat) : matchNID a b = true ↔ (a = 0 ∨ b = 0 ∨ a = b) := by
  unfold matchNID
  split <;> simp_all
  omega

theorem voteConflict_iff (v v2 : Vote) :
    voteConflict v v2 = true ↔
      v.signer = v2.signer ∧ v.c.h = v2.c.h ∧ v.c.r = v2.c.r ∧ v.c.t = v2.c.t ∧
      (v.c.nid = 0 ∨ v2.c.nid = 0 ∨ v.c.nid = v2.c.nid) ∧ v.c ≠ v2.c := by
  unfold voteConflict
  by_cases hm : matchNID v.c.nid v2.c.nid = true
  · have hm' := (matchNID_iff _ _).1 hm
    simp only [hm, Bool.not_true, Bool.false_eq_true, if_false]
    constructor
    · intro h
      split at h
      · simp at h
      · rename_i hne
        simp only [Bool.or_eq_true, bne_iff_ne, ne_eq, not_or, Decidable.not_not] at hne
        obtain ⟨⟨⟨h1, h2⟩, h3⟩, h4⟩ := hne
        refine ⟨h4.symm, h2.symm, h3.symm, h1.symm, hm', ?_⟩
        simpa using h
    · rintro ⟨h1, h2, h3, h4, _, h6⟩
      have : (v2.c.t != v.c.t || v2.c.h != v.c.h || v2.c.r != v.c.r || v2.signer != v.signer) = false := by
        simp [h1, h2, h3, h4]
      simp [this, h6]
  · have hm' : ¬ (v.c.nid = 0 ∨ v2.c.nid = 0 ∨ v.c.nid = v2.c.nid) := fun h => hm ((matchNID_iff _ _).2 h)
    have hmf : matchNID v.c.nid v2.c.nid = false := by simpa using hm
    simp only [hmf, Bool.not_false, if_true, Bool.false_eq_true, false_iff]
    intro h
    exact hm' h.2.2.2.2.1

theorem propConflict_iff (d d2 : Proposal) :
    propConflict d d2 = true ↔
      d.signer = d2.signer ∧ d.c.h = d2.c.h ∧ d.c.r = d2.c.r ∧
      (d.c.nid = 0 ∨ d2.c.nid = 0 ∨ d.c.nid = d2.c.nid) ∧ d.c ≠ d2.c := by
  unfold propConflict
  by_cases hm : matchNID d.c.nid d2.c.nid = true
  · have hm' := (matchNID_iff _ _).1 hm
    simp only [hm, Bool.not_true, Bool.false_eq_true, if_false]
    constructor
    · intro h
      split at h
      · simp at h
      · rename_i hne
        simp only [Bool.or_eq_true, bne_iff_ne, ne_eq, not_or, Decidable.not_not] at hne
        obtain ⟨⟨h1, h2⟩, h3⟩ := hne
        refine ⟨h3.symm, h1, h2, hm', ?_⟩
        simpa using h
    · rintro ⟨h1, h2, h3, _, h5⟩
      have : (d.c.h != d2.c.h || d.c.r != d2.c.r || d2.signer != d.signer) = false := by
        simp [h1, h2, h3]
      simp [this, h5]
  · have hm' : ¬ (d.c.nid = 0 ∨ d2.c.nid = 0 ∨ d.c.nid = d2.c.nid) := fun h => hm ((matchNID_iff _ _).2 h)
    have hmf : matchNID d.c.nid d2.c.nid = false := by simpa using hm
    simp only [hmf, Bool.not_false, if_true, Bool.false_eq_true, false_iff]
    intro h
    exact hm' h.2.2.2.1

end Goloop.C06.Proofs

namespace Goloop.C06
/-- network id read by `IsConflictWith` -/
def DS.nid : DS → Nat
  | DS.vote v => v.c.nid
  | DS.prop p => p.c.nid

/-- reports produced by feeding a sequence of messages to the log -/
def runLog : Log → List DS → List (DS × DS)
  | _, [] => []
  | l, m :: rest =>
    match (logMsg l m).2 with
    | some r => r :: runLog (logMsg l m).1 rest
    | none => runLog (logMsg l m).1 rest
end Goloop.C06

namespace Goloop.C06.Proofs
open Goloop.C06

theorem get_mem (l : Log) (k : Key) (o : DS) (h : l.get k = some o) : ∃ e ∈ l, e.2 = o := by
  unfold Log.get at h
  split at h
  · rename_i e he
    exact ⟨e, List.mem_of_find?_eq_some he, by simpa using h⟩
  · simp at h

theorem put_mem (l : Log) (k : Key) (m : DS) (e : Key × DS) (h : e ∈ l.put k m) : e = (k, m) ∨ e ∈ l := by
  unfold Log.put at h
  rcases List.mem_cons.1 h with h | h
  · exact Or.inl h
  · exact Or.inr (List.mem_filter.1 h).1

/-- one step: the report (if any) is (stored message, new message) and is a conflict;
    everything stored afterwards was stored before or is the new message. -/
theorem logMsg_spec (l : Log) (m : DS) :
    (∀ r, (logMsg l m).2 = some r → r.2 = m ∧ conflict r.1 r.2 = true ∧ ∃ e ∈ l, e.2 = r.1) ∧
    (∀ e ∈ (logMsg l m).1, e.2 = m ∨ e ∈ l) := by
  cases m with
  | vote v =>
    simp only [logMsg, logVote]
    cases hg : l.get (keyOf (DS.vote v)) with
    | none =>
      refine ⟨by simp, ?_⟩
      intro e he
      rcases put_mem _ _ _ _ he with h | h
      · exact Or.inl (by rw [h])
      · exact Or.inr h
    | some o =>
      by_cases hc : conflict o (DS.vote v) = true
      · simp only [hc, if_true]
        refine ⟨?_, fun e he => Or.inr he⟩
        intro r hr
        have : r = (o, DS.vote v) := by simpa using hr.symm
        subst this
        exact ⟨rfl, hc, get_mem _ _ _ hg⟩
      · simp only [hc]
        refine ⟨by simp, ?_⟩
        intro e he
        rcases put_mem _ _ _ _ he with h | h
        · exact Or.inl (by rw [h])
        · exact Or.inr h
  | prop p =>
    simp only [logMsg, logProp]
    cases hg : l.get (keyOf (DS.prop p)) with
    | none =>
      refine ⟨by simp, ?_⟩
      intro e he
      rcases put_mem _ _ _ _ he with h | h
      · exact Or.inl (by rw [h])
      · exact Or.inr h
    | some o =>
      by_cases hc : conflict o (DS.prop p) = true
      · simp only [hc, if_true]
        refine ⟨?_, fun e he => Or.inr he⟩
        intro r hr
        have : r = (o, DS.prop p) := by simpa using hr.symm
        subst this
        exact ⟨rfl, hc, get_mem _ _ _ hg⟩
      · simp only [hc]
        exact ⟨by simp, fun e he => Or.inr he⟩

theorem runLog_spec (msgs : List DS) : ∀ (l : Log) (hist : List DS), (∀ e ∈ l, e.2 ∈ hist) →
    ∀ r ∈ runLog l msgs, conflict r.1 r.2 = true ∧ (r.1 ∈ hist ∨ r.1 ∈ msgs) ∧ r.2 ∈ msgs := by
  induction msgs with
  | nil => intro l hist _ r hr; simp [runLog] at hr
  | cons m rest ih =>
    intro l hist hinv r hr
    have hs := logMsg_spec l m
    have hinv' : ∀ e ∈ (logMsg l m).1, e.2 ∈ m :: hist := by
      intro e he
      rcases hs.2 e he with h | h
      · rw [h]; exact List.mem_cons_self
      · exact List.mem_cons_of_mem _ (hinv e h)
    have tail : r ∈ runLog (logMsg l m).1 rest →
        conflict r.1 r.2 = true ∧ (r.1 ∈ hist ∨ r.1 ∈ m :: rest) ∧ r.2 ∈ m :: rest := by
      intro h
      obtain ⟨h1, h2, h3⟩ := ih _ (m :: hist) hinv' r h
      refine ⟨h1, ?_, List.mem_cons_of_mem _ h3⟩
      rcases h2 with h2 | h2
      · rcases List.mem_cons.1 h2 with h2 | h2
        · exact Or.inr (h2 ▸ List.mem_cons_self)
        · exact Or.inl h2
      · exact Or.inr (List.mem_cons_of_mem _ h2)
    unfold runLog at hr
    cases hrep : (logMsg l m).2 with
    | none =>
      rw [hrep] at hr
      exact tail hr
    | some r0 =>
      rw [hrep] at hr
      rcases List.mem_cons.1 hr with h | h
      · subst h
        obtain ⟨h1, h2, e, he, h3⟩ := hs.1 r hrep
        refine ⟨h2, Or.inl (h3 ▸ hinv e he), ?_⟩
        rw [h1]; exact List.mem_cons_self
      · exact tail h


/-! ### report acceptance path -/

theorem decodeReport_some_iff (r : Report) (d1 d2 : DS) (c : List Nat) :
    decodeReport r = some (d1, d2, c) ↔
      ∃ i1 i2, r.items = [i1, i2] ∧ r.ord ≠ 2 ∧ r.tag ≠ Tag.other ∧
        decodeItem r.tag i1 = some d1 ∧ decodeItem r.tag i2 = some d2 ∧ r.ctx = some c := by
  unfold decodeReport
  constructor
  · intro h
    split at h
    · rename_i i1 i2 hit
      refine ⟨i1, i2, hit, ?_⟩
      by_cases ho : r.ord = 2
      · simp [ho] at h
      · simp only [ho, if_false] at h
        cases h1 : decodeItem r.tag i1 with
        | none => simp [h1] at h
        | some a =>
          cases h2 : decodeItem r.tag i2 with
          | none => simp [h1, h2] at h
          | some b =>
            simp only [h1, h2] at h
            by_cases ht : r.tag = Tag.other
            · simp [ht] at h
            · simp only [ht, if_false] at h
              cases hc : r.ctx with
              | none => simp [hc] at h
              | some c' =>
                simp only [hc, Option.some.injEq, Prod.mk.injEq] at h
                obtain ⟨e1, e2, e3⟩ := h
                subst e1 e2 e3
                exact ⟨ho, ht, rfl, rfl, rfl⟩
    · simp at h
  · rintro ⟨i1, i2, hit, ho, ht, h1, h2, hc⟩
    simp [hit, ho, ht, h1, h2, hc]

theorem conflict_same_kind {d1 d2 : DS} (h : conflict d1 d2 = true) :
    (∃ v v2, d1 = DS.vote v ∧ d2 = DS.vote v2) ∨ (∃ p p2, d1 = DS.prop p ∧ d2 = DS.prop p2) := by
  cases d1 <;> cases d2 <;> simp [conflict] at h ⊢

theorem handler_ok_iff (r : Report) (e : Env) :
    handler r e = Hnd.ok ↔
      r.sender = From.none ∧ e.callOk = true ∧
      ∃ d1 d2 c, decodeReport r = some (d1, d2, c) ∧ conflict d1 d2 = true ∧
        d1.height ≤ e.blockHeight ∧ d1.signer ∈ c ∧ histGet e.history (d1.height - 2) = some c := by
  unfold handler
  by_cases hs : r.sender = From.none
  · simp only [hs, bne_self_eq_false, Bool.false_eq_true, if_false, true_and]
    cases hd : decodeReport r with
    | none => simp
    | some t =>
      obtain ⟨d1, d2, c⟩ := t
      simp only [Option.some.injEq, Prod.mk.injEq]
      by_cases hc : conflict d1 d2 = true
      · by_cases hf : d1.height > e.blockHeight
        · simp only [hc, hf, Bool.not_true, Bool.false_eq_true, if_false, if_true]
          constructor
          · intro h; cases h
          · rintro ⟨_, a, b, c', ⟨e1, e2, e3⟩, _, hle, _⟩
            subst e1; omega
        · by_cases hm : c.contains d1.signer = true
          · by_cases hh : histGet e.history (d1.height - 2) = some c
            · cases hk : e.callOk with
              | true =>
                simp only [hc, hf, hm, hh, Bool.not_true, Bool.false_eq_true, if_false, bne_self_eq_false, if_true, true_and]
                exact ⟨fun _ => ⟨d1, d2, c, ⟨rfl, rfl, rfl⟩, hc, by omega, by simpa using hm, hh⟩, fun _ => trivial⟩
              | false =>
                have hm' : d1.signer ∈ c := by simpa using hm
                simp [hc, hf, hm', hh]
            · have hne : (histGet e.history (d1.height - 2) != some c) = true := by simpa using hh
              simp only [hc, hf, hm, hne, Bool.not_true, Bool.false_eq_true, if_false, if_true]
              constructor
              · intro h; cases h
              · rintro ⟨_, a, b, c', ⟨e1, e2, e3⟩, _, _, _, hh'⟩
                subst e1 e3; exact absurd hh' hh
          · simp only [hc, hf, hm, Bool.not_true, Bool.not_false, Bool.false_eq_true, if_false, if_true]
            constructor
            · intro h; cases h
            · rintro ⟨_, a, b, c', ⟨e1, e2, e3⟩, _, _, hin, _⟩
              subst e1 e3
              exact absurd (by simpa using hin) hm
      · have hcf : conflict d1 d2 = false := by simpa using hc
        simp only [hcf, Bool.not_false, if_true]
        constructor
        · intro h; cases h
        · rintro ⟨_, a, b, c', ⟨e1, e2, e3⟩, hc', _⟩
          subst e1 e2; rw [hcf] at hc'; cases hc'
  · have : (r.sender != From.none) = true := by simpa using hs
    simp [this, hs]

theorem preValidate_ok_iff (r : Report) (e : Env) :
    preValidate r e = Pre.ok ↔
      e.revOn = true ∧ r.sender = From.none ∧
      ∃ d1 d2 c, decodeReport r = some (d1, d2, c) ∧ conflict d1 d2 = true ∧ d1.signer ∈ c := by
  unfold preValidate
  cases hr : e.revOn with
  | false => simp
  | true =>
    by_cases hs : r.sender = From.none
    · simp only [hs, Bool.not_true, Bool.false_eq_true, if_false, bne_self_eq_false, true_and]
      cases hd : decodeReport r with
      | none => simp
      | some t =>
        obtain ⟨d1, d2, c⟩ := t
        simp only [Option.some.injEq, Prod.mk.injEq]
        by_cases hc : conflict d1 d2 = true
        · by_cases hm : c.contains d1.signer = true
          · simp only [hc, hm, Bool.not_true, Bool.or_self, Bool.false_eq_true, if_false, true_iff]
            exact ⟨d1, d2, c, ⟨rfl, rfl, rfl⟩, hc, by simpa using hm⟩
          · simp only [hc, hm, Bool.not_true, Bool.not_false, Bool.or_true, if_true]
            constructor
            · intro h; cases h
            · rintro ⟨a, b, c', ⟨e1, e2, e3⟩, _, hin⟩
              subst e1 e3
              exact absurd (by simpa using hin) hm
        · have hcf : conflict d1 d2 = false := by simpa using hc
          simp only [hcf, Bool.not_false, Bool.true_or, if_true]
          constructor
          · intro h; cases h
          · rintro ⟨a, b, c', ⟨e1, e2, e3⟩, hc', _⟩
            subst e1 e2; rw [hcf] at hc'; cases hc'
    · have : (r.sender != From.none) = true := by simpa using hs
      simp [this, hs]

end Goloop.C06.Proofs
