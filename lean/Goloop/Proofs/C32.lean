import Goloop.Model.C32
namespace Goloop.C32.Proofs
open Goloop Goloop.C32

variable {PK : Type}

/-- `VerifySignature` returns `ok id` exactly when key and signature parse, the signature
    verifies over `sha3 content` under that key, and `id` is derived from that key. -/
theorem verifySignature_ok_iff (c : Crypto PK) (pub sig content id : Bytes) :
    verifySignature c pub sig content = .ok id ↔
      ∃ pk rs, c.parsePub pub = some pk ∧ parseSig sig = some rs ∧
        c.verify rs (c.sha3 content) pk = true ∧ id = c.idOf pk := by
  unfold verifySignature
  cases hp : c.parsePub pub with
  | none => simp
  | some pk =>
    cases hs : parseSig sig with
    | none => simp
    | some rs =>
      cases hv : c.verify rs (c.sha3 content) pk with
      | false => simp [hv]
      | true =>
        simp only [hv, Bool.not_true, Bool.false_eq_true, if_false]
        constructor
        · intro h; injection h with h; exact ⟨pk, rs, rfl, rfl, hv, h.symm⟩
        · rintro ⟨pk', rs', h1, h2, _, h4⟩
          injection h1 with h1; subst h1; rw [h4]

/-- the message `m` carried key `pub` and signature `sig`. -/
def Carries (m : Msg) (pub sig : Bytes) : Prop :=
  m = .signatureRequest pub sig ∨ m = .signatureResponse pub sig false

/-- what "verified in this session" means for a state. -/
def Verified (c : Crypto PK) (cfg : Config) (s : PeerSt) (pub sig : Bytes) : Prop :=
  ∃ x pk rs, s.extra = some x ∧ c.parsePub pub = some pk ∧ parseSig sig = some rs ∧
    c.verify rs (c.sha3 x) pk = true ∧ s.id = some (c.idOf pk) ∧
    (s.inbound = true → c.idOf pk ≠ cfg.self)

/-- while the handshake waits for a signature message, the session secret is set. -/
def Inv (s : PeerSt) : Prop :=
  s.closed = false → s.handed = false →
    ∀ b, (s.wait = some (.sigReq, b) ∨ s.wait = some (.sigResp, b)) → s.extra.isSome = true

/-- server side waits for requests, client side for responses. -/
def Side (s : PeerSt) : Prop :=
  s.closed = false → s.handed = false →
    (s.inbound = true → ∃ b, s.wait = some (.secReq, b) ∨ s.wait = some (.sigReq, b)) ∧
    (s.inbound = false → ∃ b, s.wait = some (.secResp, b) ∨ s.wait = some (.sigResp, b))

theorem frozen (c : Crypto PK) (cfg : Config) (s : PeerSt) (m : Msg)
    (h : s.closed = true ∨ s.handed = true) : onPacket c cfg s m = (s, []) := by
  unfold onPacket
  rw [if_pos h]

theorem checkWait_some (s s1 : PeerSt) (sub : Sub) (h : checkWait s sub = some s1) :
    s1.inbound = s.inbound ∧ s1.extra = s.extra ∧ s1.id = s.id ∧ s1.closed = s.closed ∧
    s1.handed = s.handed ∧ (s.wait = none ∨ (s.wait = some (sub, false) ∧ s1.wait = some (sub, true))) := by
  unfold checkWait at h
  cases hw : s.wait with
  | none => rw [hw] at h; injection h with h; subst h; simp [hw]
  | some wp =>
    obtain ⟨w, pr⟩ := wp
    rw [hw] at h
    simp only at h
    split at h
    · rename_i hc
      injection h with h; subst h
      simp only [Bool.and_eq_true, Bool.not_eq_eq_eq_not, Bool.not_true, beq_iff_eq] at hc
      obtain ⟨h1, h2⟩ := hc
      subst h1 h2
      simp
    · cases h

theorem onPacket_nosub (c : Crypto PK) (cfg : Config) (s : PeerSt) (m : Msg)
    (hcl : s.closed = false) (hn : s.handed = false) (hsub : m.sub = none) :
    onPacket c cfg s m = (close s, []) := by
  unfold onPacket
  rw [if_neg (by simp [hcl, hn])]
  simp only [hsub]

theorem onPacket_badwait (c : Crypto PK) (cfg : Config) (s : PeerSt) (m : Msg) (sub : Sub)
    (hcl : s.closed = false) (hn : s.handed = false) (hsub : m.sub = some sub)
    (hcw : checkWait s sub = none) : onPacket c cfg s m = (close s, []) := by
  unfold onPacket
  rw [if_neg (by simp [hcl, hn])]
  simp only [hsub, hcw]

theorem onPacket_open (c : Crypto PK) (cfg : Config) (s s1 : PeerSt) (m : Msg) (sub : Sub)
    (hcl : s.closed = false) (hn : s.handed = false) (hsub : m.sub = some sub)
    (hcw : checkWait s sub = some s1) :
    onPacket c cfg s m = dispatch c cfg s1 m := by
  unfold onPacket
  rw [if_neg (by simp [hcl, hn])]
  simp only [hsub, hcw]

theorem hsreq_fields (cfg : Config) (s : PeerSt) (suites aeads : List Nat) (param : Bytes) :
    let r := (handleSecureRequest cfg s suites aeads param).1
    r.handed = s.handed ∧ r.inbound = s.inbound ∧ r.id = s.id ∧
    (r.closed = false → r.wait = some (.sigReq, false) ∧ r.extra.isSome = true) := by
  unfold handleSecureRequest
  simp only []
  repeat' split
  all_goals simp_all [close]

theorem hsresp_fields (cfg : Config) (s : PeerSt) (suite aead : Nat) (param : Bytes) (e : Bool) :
    let r := (handleSecureResponse cfg s suite aead param e).1
    r.handed = s.handed ∧ r.inbound = s.inbound ∧ r.id = s.id ∧
    (r.closed = false → r.wait = some (.sigResp, false) ∧ r.extra.isSome = true) := by
  unfold handleSecureResponse
  repeat' split
  all_goals simp_all [close]

/-- one step: if the peer is handed over by this packet, the packet carried a key and a
    signature that verified over this session's secret, and the id is the key's id. -/
theorem step_handed (c : Crypto PK) (cfg : Config) (s : PeerSt) (m : Msg)
    (hinv : Inv s) (hside : Side s) (hn : s.handed = false)
    (hh : (onPacket c cfg s m).1.handed = true) :
    ∃ pub sig, Carries m pub sig ∧ Verified c cfg (onPacket c cfg s m).1 pub sig := by
  by_cases hcl : s.closed = true
  · rw [frozen c cfg s m (Or.inl hcl), hn] at hh; cases hh
  have hcl' : s.closed = false := by simpa using hcl
  cases hsub : m.sub with
  | none => rw [onPacket_nosub c cfg s m hcl' hn hsub] at hh; simp [close, hn] at hh
  | some sub =>
    cases hcw : checkWait s sub with
    | none => rw [onPacket_badwait c cfg s m sub hcl' hn hsub hcw] at hh; simp [close, hn] at hh
    | some s1 =>
      rw [onPacket_open c cfg s s1 m sub hcl' hn hsub hcw] at hh ⊢
      obtain ⟨e1, e2, e3, e4, e5, e6⟩ := checkWait_some s s1 sub hcw
      have hn1 : s1.handed = false := by rw [e5]; exact hn
      have hwait : s.wait = some (sub, false) := by
        rcases e6 with h | h
        · obtain ⟨hs1, hs2⟩ := hside hcl' hn
          cases hi : s.inbound with
          | true => obtain ⟨b, hb⟩ := hs1 hi; rw [h] at hb; rcases hb with hb | hb <;> cases hb
          | false => obtain ⟨b, hb⟩ := hs2 hi; rw [h] at hb; rcases hb with hb | hb <;> cases hb
        · exact h.1
      cases m with
      | garbage _ => simp [dispatch, close, hn1] at hh
      | unknownSub => simp [Msg.sub] at hsub
      | secureRequest suites aeads param =>
        exfalso
        have := (hsreq_fields cfg s1 suites aeads param).1
        simp only [dispatch] at hh
        rw [this, hn1] at hh; cases hh
      | secureResponse suite aead param e =>
        exfalso
        have := (hsresp_fields cfg s1 suite aead param e).1
        simp only [dispatch] at hh
        rw [this, hn1] at hh; cases hh
      | signatureRequest pub sig =>
        simp only [Msg.sub] at hsub
        injection hsub with hsub; subst hsub
        have hx : s.extra.isSome = true := hinv hcl' hn false (Or.inl hwait)
        obtain ⟨x, hx⟩ := Option.isSome_iff_exists.mp hx
        have hx1 : s1.extra = some x := by rw [e2]; exact hx
        refine ⟨pub, sig, Or.inl rfl, ?_⟩
        simp only [dispatch, handleSignatureRequest] at hh ⊢
        cases hv : verifySignature c pub sig (s1.extra.getD []) with
        | badKey => rw [hv] at hh; simp [close, hn1] at hh
        | badSig => rw [hv] at hh; simp [close, hn1] at hh
        | invalid id => rw [hv] at hh; simp [close, hn1] at hh
        | ok id =>
          rw [hv] at hh
          simp only at hh ⊢
          by_cases hself : id = cfg.self
          · rw [if_pos hself] at hh; simp [close, hn1] at hh
          · rw [if_neg hself]
            rw [hx1] at hv
            obtain ⟨pk, rs, h1, h2, h3, h4⟩ := (verifySignature_ok_iff c pub sig x id).mp hv
            exact ⟨x, pk, rs, hx1, h1, h2, h3, by simp [h4], fun _ => by rw [← h4]; exact hself⟩
      | signatureResponse pub sig e =>
        simp only [Msg.sub] at hsub
        injection hsub with hsub; subst hsub
        have hx : s.extra.isSome = true := hinv hcl' hn false (Or.inr hwait)
        obtain ⟨x, hx⟩ := Option.isSome_iff_exists.mp hx
        have hx1 : s1.extra = some x := by rw [e2]; exact hx
        have hinb : s.inbound = false := by
          cases hi : s.inbound with
          | false => rfl
          | true =>
            obtain ⟨b, hb⟩ := (hside hcl' hn).1 hi
            rw [hwait] at hb; rcases hb with hb | hb <;> cases hb
        simp only [dispatch, handleSignatureResponse] at hh ⊢
        cases e with
        | true => simp [close, hn1] at hh
        | false =>
          simp only [Bool.false_eq_true, if_false] at hh ⊢
          refine ⟨pub, sig, Or.inr rfl, ?_⟩
          cases hv : verifySignature c pub sig (s1.extra.getD []) with
          | badKey => rw [hv] at hh; simp [close, hn1] at hh
          | badSig => rw [hv] at hh; simp [close, hn1] at hh
          | invalid id => rw [hv] at hh; simp [close, hn1] at hh
          | ok id =>
            simp only
            rw [hx1] at hv
            obtain ⟨pk, rs, h1, h2, h3, h4⟩ := (verifySignature_ok_iff c pub sig x id).mp hv
            exact ⟨x, pk, rs, hx1, h1, h2, h3, by simp [h4],
              fun hi => by rw [e1, hinb] at hi; cases hi⟩

theorem hsigreq_fields (c : Crypto PK) (cfg : Config) (s : PeerSt) (pub sig : Bytes) :
    let r := (handleSignatureRequest c cfg s pub sig).1
    (r.closed = true ∨ r.handed = true) ∧ r.inbound = s.inbound ∧ r.extra = s.extra := by
  unfold handleSignatureRequest
  repeat' split
  all_goals simp_all [close]

theorem hsigresp_fields (c : Crypto PK) (s : PeerSt) (pub sig : Bytes) (e : Bool) :
    let r := (handleSignatureResponse c s pub sig e).1
    (r.closed = true ∨ r.handed = true) ∧ r.inbound = s.inbound ∧ r.extra = s.extra := by
  unfold handleSignatureResponse
  repeat' split
  all_goals simp_all [close]

theorem inv_onPeer (inbound : Bool) : Inv (onPeer inbound).1 ∧ Side (onPeer inbound).1 := by
  cases inbound <;> simp [onPeer, Inv, Side]

theorem inv_step (c : Crypto PK) (cfg : Config) (s : PeerSt) (m : Msg)
    (hinv : Inv s) (hside : Side s) :
    Inv (onPacket c cfg s m).1 ∧ Side (onPacket c cfg s m).1 := by
  by_cases hfr : s.closed = true ∨ s.handed = true
  · rw [frozen c cfg s m hfr]; exact ⟨hinv, hside⟩
  have hcl : s.closed = false := by
    cases h : s.closed with
    | true => exact absurd (Or.inl h) hfr
    | false => rfl
  have hn : s.handed = false := by
    cases h : s.handed with
    | true => exact absurd (Or.inr h) hfr
    | false => rfl
  have closedOK : ∀ t : PeerSt, t.closed = true → Inv t ∧ Side t := by
    intro t ht
    unfold Inv Side
    constructor <;> (intro hc; rw [ht] at hc; cases hc)
  have handedOK : ∀ t : PeerSt, t.handed = true → Inv t ∧ Side t := by
    intro t ht
    unfold Inv Side
    constructor <;> (intro _ hc; rw [ht] at hc; cases hc)
  cases hsub : m.sub with
  | none => rw [onPacket_nosub c cfg s m hcl hn hsub]; exact closedOK _ rfl
  | some sub =>
    cases hcw : checkWait s sub with
    | none => rw [onPacket_badwait c cfg s m sub hcl hn hsub hcw]; exact closedOK _ rfl
    | some s1 =>
      rw [onPacket_open c cfg s s1 m sub hcl hn hsub hcw]
      obtain ⟨e1, e2, e3, e4, e5, e6⟩ := checkWait_some s s1 sub hcw
      have hwait : s.wait = some (sub, false) := by
        rcases e6 with h | h
        · obtain ⟨hs1, hs2⟩ := hside hcl hn
          cases hi : s.inbound with
          | true => obtain ⟨b, hb⟩ := hs1 hi; rw [h] at hb; rcases hb with hb | hb <;> cases hb
          | false => obtain ⟨b, hb⟩ := hs2 hi; rw [h] at hb; rcases hb with hb | hb <;> cases hb
        · exact h.1
      cases m with
      | garbage _ => exact closedOK _ rfl
      | unknownSub => exact closedOK _ rfl
      | secureRequest suites aeads param =>
        simp only [Msg.sub] at hsub
        injection hsub with hsub; subst hsub
        obtain ⟨f1, f2, _, f4⟩ := hsreq_fields cfg s1 suites aeads param
        simp only [dispatch]
        have hinb : s.inbound = true := by
          cases hi : s.inbound with
          | true => rfl
          | false =>
            obtain ⟨b, hb⟩ := (hside hcl hn).2 hi
            rw [hwait] at hb; rcases hb with hb | hb <;> cases hb
        unfold Inv Side
        refine ⟨fun h1 _ _ _ => (f4 h1).2, fun h1 _ => ⟨fun _ => ⟨false, Or.inr (f4 h1).1⟩, ?_⟩⟩
        intro hi; rw [f2, e1, hinb] at hi; cases hi
      | secureResponse suite aead param e =>
        simp only [Msg.sub] at hsub
        injection hsub with hsub; subst hsub
        obtain ⟨f1, f2, _, f4⟩ := hsresp_fields cfg s1 suite aead param e
        simp only [dispatch]
        have hinb : s.inbound = false := by
          cases hi : s.inbound with
          | false => rfl
          | true =>
            obtain ⟨b, hb⟩ := (hside hcl hn).1 hi
            rw [hwait] at hb; rcases hb with hb | hb <;> cases hb
        unfold Inv Side
        refine ⟨fun h1 _ _ _ => (f4 h1).2, fun h1 _ => ⟨?_, fun _ => ⟨false, Or.inr (f4 h1).1⟩⟩⟩
        intro hi; rw [f2, e1, hinb] at hi; cases hi
      | signatureRequest pub sig =>
        obtain ⟨f1, _, _⟩ := hsigreq_fields c cfg s1 pub sig
        simp only [dispatch]
        rcases f1 with f | f
        · exact closedOK _ f
        · exact handedOK _ f
      | signatureResponse pub sig e =>
        obtain ⟨f1, _, _⟩ := hsigresp_fields c s1 pub sig e
        simp only [dispatch]
        rcases f1 with f | f
        · exact closedOK _ f
        · exact handedOK _ f

/-- along a whole session: hand-over implies that some received message carried a key and a
    signature verified over this session's secret, and the id is that key's id. -/
theorem run_handed (c : Crypto PK) (cfg : Config) :
    ∀ (ms : List Msg) (s : PeerSt), Inv s → Side s → s.handed = false →
      (run c cfg s ms).handed = true →
      ∃ m ∈ ms, ∃ pub sig, Carries m pub sig ∧ Verified c cfg (run c cfg s ms) pub sig
  | [], s, _, _, hn, hh => by simp [run, hn] at hh
  | m :: ms, s, hinv, hside, hn, hh => by
    simp only [run] at hh ⊢
    obtain ⟨hinv', hside'⟩ := inv_step c cfg s m hinv hside
    cases hstep : (onPacket c cfg s m).1.handed with
    | true =>
      obtain ⟨pub, sig, hc, hv⟩ := step_handed c cfg s m hinv hside hn hstep
      have hfro : ∀ ms', run c cfg (onPacket c cfg s m).1 ms' = (onPacket c cfg s m).1 := by
        intro ms'
        induction ms' with
        | nil => rfl
        | cons a as ih => simp only [run]; rw [frozen c cfg _ a (Or.inr hstep)]; exact ih
      rw [hfro ms]
      exact ⟨m, List.mem_cons_self, pub, sig, hc, hv⟩
    | false =>
      obtain ⟨m', hm', rest⟩ := run_handed c cfg ms _ hinv' hside' hstep hh
      exact ⟨m', List.mem_cons_of_mem _ hm', rest⟩

/-! ### failing branches: an id on a peer object means "handed over (verified)" or "closed" -/

/-- `p.ID()` is non-nil only on peers that were handed over or are closed; never both. -/
def IdInv (s : PeerSt) : Prop :=
  (s.id.isSome = true → s.closed = true ∨ s.handed = true) ∧ ¬ (s.closed = true ∧ s.handed = true)

theorem idInv_onPeer (inbound : Bool) : IdInv (onPeer inbound).1 := by
  cases inbound <;> simp [onPeer, IdInv]

theorem close_idInv (s : PeerSt) (hn : s.handed = false) : IdInv (close s) := by
  simp [IdInv, close, hn]

theorem hsigreq_idInv (c : Crypto PK) (cfg : Config) (s : PeerSt) (pub sig : Bytes)
    (hc : s.closed = false) (hn : s.handed = false) :
    IdInv (handleSignatureRequest c cfg s pub sig).1 := by
  unfold handleSignatureRequest IdInv
  repeat' split
  all_goals simp_all [close]

theorem hsigresp_idInv (c : Crypto PK) (s : PeerSt) (pub sig : Bytes) (e : Bool)
    (hi : IdInv s) (hc : s.closed = false) (hn : s.handed = false) :
    IdInv (handleSignatureResponse c s pub sig e).1 := by
  unfold IdInv at hi
  unfold handleSignatureResponse IdInv
  repeat' split
  all_goals simp_all [close]

theorem idInv_step (c : Crypto PK) (cfg : Config) (s : PeerSt) (m : Msg) (hi : IdInv s) :
    IdInv (onPacket c cfg s m).1 := by
  by_cases hfr : s.closed = true ∨ s.handed = true
  · rw [frozen c cfg s m hfr]; exact hi
  have hcl : s.closed = false := by
    cases h : s.closed with
    | true => exact absurd (Or.inl h) hfr
    | false => rfl
  have hn : s.handed = false := by
    cases h : s.handed with
    | true => exact absurd (Or.inr h) hfr
    | false => rfl
  cases hsub : m.sub with
  | none => rw [onPacket_nosub c cfg s m hcl hn hsub]; exact close_idInv s hn
  | some sub =>
    cases hcw : checkWait s sub with
    | none => rw [onPacket_badwait c cfg s m sub hcl hn hsub hcw]; exact close_idInv s hn
    | some s1 =>
      rw [onPacket_open c cfg s s1 m sub hcl hn hsub hcw]
      obtain ⟨_, _, e3, e4, e5, _⟩ := checkWait_some s s1 sub hcw
      have hn1 : s1.handed = false := by rw [e5]; exact hn
      have hc1 : s1.closed = false := by rw [e4]; exact hcl
      have hi1 : IdInv s1 := by unfold IdInv at hi ⊢; rw [e3, e4, e5]; exact hi
      cases m with
      | garbage _ => exact close_idInv s1 hn1
      | unknownSub => exact close_idInv s1 hn1
      | secureRequest suites aeads param =>
        obtain ⟨f1, _, f3, _⟩ := hsreq_fields cfg s1 suites aeads param
        simp only [dispatch]
        unfold IdInv at hi1 ⊢
        rw [f1, f3, hn1]
        refine ⟨fun h => ?_, by simp⟩
        have := hi1.1 h
        rw [hc1, hn1] at this; simp at this
      | secureResponse suite aead param e =>
        obtain ⟨f1, _, f3, _⟩ := hsresp_fields cfg s1 suite aead param e
        simp only [dispatch]
        unfold IdInv at hi1 ⊢
        rw [f1, f3, hn1]
        refine ⟨fun h => ?_, by simp⟩
        have := hi1.1 h
        rw [hc1, hn1] at this; simp at this
      | signatureRequest pub sig => exact hsigreq_idInv c cfg s1 pub sig hc1 hn1
      | signatureResponse pub sig e => exact hsigresp_idInv c s1 pub sig e hi1 hc1 hn1

theorem idInv_run (c : Crypto PK) (cfg : Config) :
    ∀ (ms : List Msg) (s : PeerSt), IdInv s → IdInv (run c cfg s ms)
  | [], _, h => h
  | m :: ms, s, h => idInv_run c cfg ms _ (idInv_step c cfg s m h)

theorem run_closed_stays (c : Crypto PK) (cfg : Config) :
    ∀ (ms : List Msg) (s : PeerSt), s.closed = true → run c cfg s ms = s
  | [], _, _ => rfl
  | m :: ms, s, h => by
    simp only [run]; rw [frozen c cfg s m (Or.inl h)]; exact run_closed_stays c cfg ms s h

theorem run_append (c : Crypto PK) (cfg : Config) :
    ∀ (ms ms' : List Msg) (s : PeerSt), run c cfg s (ms ++ ms') = run c cfg (run c cfg s ms) ms'
  | [], _, _ => rfl
  | m :: ms, ms', s => by simp only [List.cons_append, run]; exact run_append c cfg ms ms' _

/-- exact outcome of an in-sequence signature request on the accepting side. -/
theorem sigreq_outcome (c : Crypto PK) (cfg : Config) (s : PeerSt) (pub sig : Bytes)
    (hcl : s.closed = false) (hn : s.handed = false) (hw : s.wait = some (.sigReq, false)) :
    let r := (onPacket c cfg s (.signatureRequest pub sig)).1
    match verifySignature c pub sig (s.extra.getD []) with
    | .badKey => r.closed = true ∧ r.handed = false ∧ r.id = none
    | .badSig => r.closed = true ∧ r.handed = false ∧ r.id = none
    | .invalid id => r.closed = true ∧ r.handed = false ∧ r.id = some id
    | .ok id => if id = cfg.self then r.closed = true ∧ r.handed = false ∧ r.id = some id
                else r.closed = false ∧ r.handed = true ∧ r.id = some id := by
  have hcw : checkWait s .sigReq = some { s with wait := some (.sigReq, true) } := by
    unfold checkWait; rw [hw]; simp
  rw [onPacket_open c cfg s _ (.signatureRequest pub sig) .sigReq hcl hn rfl hcw]
  simp only [dispatch, handleSignatureRequest]
  cases hv : verifySignature c pub sig (s.extra.getD []) with
  | badKey => simp [close, hn]
  | badSig => simp [close, hn]
  | invalid id => simp [close, hn]
  | ok id =>
    simp only
    by_cases hs : id = cfg.self
    · simp [hs, close, hn]
    · simp [hs, hcl]

end Goloop.C32.Proofs
