/-
  Proofs/C03: helper lemmas for the WAL property theorems (Props/C03.lean).
-/
import Goloop.Model.C03
namespace Goloop.C03.Proofs
open Goloop Goloop.C03

/-! ### bytes -/

theorem be32_length (n : Nat) : (be32 n).length = 4 := rfl

theorem beNat_be32 (n : Nat) : beNat (be32 n) = n % 2 ^ 32 := by
  simp only [be32, beNat, List.foldl_cons, List.foldl_nil, UInt8.toNat_ofNat']
  omega

theorem frame_length (crc : Bytes → UInt32) (p : Bytes) : (frame crc p).length = 8 + p.length := by
  simp [frame, be32_length]; omega

theorem frames_append (crc : Bytes → UInt32) (a b : List Bytes) :
    frames crc (a ++ b) = frames crc a ++ frames crc b := by
  induction a with
  | nil => simp [frames]
  | cons x xs ih => simp [frames, ih]

theorem frames_length_ge (crc : Bytes → UInt32) (l : List Bytes) : 8 * l.length ≤ (frames crc l).length := by
  induction l with
  | nil => simp [frames]
  | cons x xs ih => simp [frames, frame_length]; omega

/-! ### one ReadBytes on a whole / torn frame -/

theorem readBytes_frame (crc : Bytes → UInt32) (p t : Bytes) (hp : p.length + 8 < 2 ^ 32) :
    readBytes crc (frame crc p ++ t) = .ok (p, t) := by
  have h4a : (be32 (crc p).toNat).length = 4 := rfl
  have h4b : (be32 p.length).length = 4 := rfl
  have hs : frame crc p ++ t = be32 (crc p).toNat ++ (be32 p.length ++ (p ++ t)) := by
    simp [frame]
  have htake : (frame crc p ++ t).take 4 = be32 (crc p).toNat := by
    rw [hs]; exact List.take_left' h4a
  have hdrop4 : (frame crc p ++ t).drop 4 = be32 p.length ++ (p ++ t) := by
    rw [hs]; exact List.drop_left' h4a
  have hdrop8 : (frame crc p ++ t).drop 8 = p ++ t := by
    have : 8 = 4 + 4 := rfl
    rw [this, ← List.drop_drop, hdrop4]; exact List.drop_left' h4b
  have hlen : beNat (((frame crc p ++ t).drop 4).take 4) = p.length := by
    rw [hdrop4, List.take_left' h4b, beNat_be32]; omega
  have hcrc : beNat ((frame crc p ++ t).take 4) = (crc p).toNat := by
    rw [htake, beNat_be32]
    have := (crc p).toNat_lt
    omega
  have hl : (frame crc p ++ t).length = 8 + p.length + t.length := by
    simp [frame_length]
  simp only [readBytes, headerLen, hlen, hcrc, hdrop8, hl]
  simp
  rw [if_neg (by omega), if_neg (by omega)]

theorem readBytes_torn (crc : Bytes → UInt32) (p : Bytes) (j : Nat) (hp : p.length + 8 < 2 ^ 32)
    (hj : j < (frame crc p).length) :
    readBytes crc ((frame crc p).take j) = .error (if j = 0 then .eof else .unexpectedEOF) := by
  rw [frame_length] at hj
  have hlenT : ((frame crc p).take j).length = j := by
    simp [frame_length]; omega
  by_cases h8 : j < 8
  · unfold readBytes
    simp only [hlenT, headerLen]
    by_cases h0 : j = 0
    · simp [h0]
    · simp [h0, h8]
  · have h4a : (be32 (crc p).toNat).length = 4 := rfl
    have h4b : (be32 p.length).length = 4 := rfl
    have hs : (frame crc p).take j = be32 (crc p).toNat ++ (be32 p.length ++ p.take (j - 8)) := by
      simp only [frame, List.append_assoc]
      rw [List.take_append, List.take_append]
      simp only [h4a, h4b]
      rw [List.take_of_length_le (by simp [h4a]; omega), List.take_of_length_le (by simp [h4b]; omega)]
      rw [show j - 4 - 4 = j - 8 by omega]
    have hdrop4 : ((frame crc p).take j).drop 4 = be32 p.length ++ p.take (j - 8) := by
      rw [hs]; exact List.drop_left' h4a
    have hdrop8 : ((frame crc p).take j).drop 8 = p.take (j - 8) := by
      have : 8 = 4 + 4 := rfl
      rw [this, ← List.drop_drop, hdrop4]; exact List.drop_left' h4b
    have hlen : beNat ((((frame crc p).take j).drop 4).take 4) = p.length := by
      rw [hdrop4, List.take_left' h4b, beNat_be32]; omega
    simp only [readBytes, headerLen, hlen, hdrop8, hlenT]
    have : j ≠ 0 := by omega
    simp [this, h8]
    omega

/-! ### the recovery loop on any byte prefix of a well-formed stream -/

theorem readAllF_prefix (crc : Bytes → UInt32) : ∀ (log : List Bytes) (S : Bytes) (fuel : Nat),
    (∀ p ∈ log, p.length + 8 < 2 ^ 32) → S <+: frames crc log → S.length < fuel →
    ∃ m e, m ≤ log.length
      ∧ readAllF crc fuel S = (log.take m, (frames crc (log.take m)).length, e)
      ∧ frames crc (log.take m) <+: S
      ∧ (e = .eof → S = frames crc (log.take m))
      ∧ (∀ n, n ≤ log.length → (frames crc (log.take n)).length ≤ S.length → n ≤ m) := by
  intro log
  induction log with
  | nil =>
    intro S fuel _ hpre hfuel
    have hS : S = [] := by simpa [frames] using hpre
    subst hS
    obtain ⟨f, rfl⟩ : ∃ f, fuel = f + 1 := ⟨fuel - 1, by simp at hfuel; omega⟩
    refine ⟨0, .eof, by simp, ?_, by simp [frames], by simp [frames], by simp⟩
    simp [readAllF, readBytes, frames]
  | cons p rest ih =>
    intro S fuel hsmall hpre hfuel
    have hp : p.length + 8 < 2 ^ 32 := hsmall p (by simp)
    have hrest : ∀ q ∈ rest, q.length + 8 < 2 ^ 32 := fun q hq => hsmall q (by simp [hq])
    obtain ⟨f, rfl⟩ : ∃ f, fuel = f + 1 := ⟨fuel - 1, by omega⟩
    have hFl := frame_length crc p
    have hStake : S = (frame crc p ++ frames crc rest).take S.length := by
      have := List.prefix_iff_eq_take.mp hpre
      simpa [frames] using this
    by_cases hlt : S.length < (frame crc p).length
    · -- torn first frame
      have hS : S = (frame crc p).take S.length := by
        rw [List.take_append_of_le_length (by omega)] at hStake
        exact hStake
      have hrb := readBytes_torn crc p S.length hp hlt
      rw [← hS] at hrb
      refine ⟨0, (if S.length = 0 then .eof else .unexpectedEOF), by simp, ?_, by simp [frames], ?_, ?_⟩
      · simp [readAllF, hrb, frames]
      · intro he
        by_cases h0 : S.length = 0
        · simpa [frames] using h0
        · simp [h0] at he
      · intro n hn hlen
        cases n with
        | zero => omega
        | succ n' =>
          simp [frames] at hlen
          omega
    · -- whole first frame
      have hS : S = frame crc p ++ (frames crc rest).take (S.length - (frame crc p).length) := by
        conv => lhs; rw [hStake]
        rw [List.take_append, List.take_of_length_le (by omega)]
      generalize hS' : (frames crc rest).take (S.length - (frame crc p).length) = S' at hS
      have hpre' : S' <+: frames crc rest := by rw [← hS']; exact List.take_prefix _ _
      have hlenS : S.length = (frame crc p).length + S'.length := by rw [hS]; simp
      obtain ⟨m', e', hm', hread, hpf, heof, hmax⟩ := ih S' f hrest hpre' (by omega)
      have hrb := readBytes_frame crc p S' hp
      refine ⟨m' + 1, e', by simp; omega, ?_, ?_, ?_, ?_⟩
      · rw [hS]
        simp only [readAllF, hrb, hread, List.take_succ_cons, frames, List.length_append, hFl, headerLen]
        rw [Nat.mod_eq_of_lt (by omega)]
      · rw [hS]
        simp only [List.take_succ_cons, frames]
        exact (List.prefix_append_right_inj _).mpr hpf
      · intro he
        rw [hS, heof he]
        simp [frames]
      · intro n hn hlen
        cases n with
        | zero => omega
        | succ n' =>
          simp only [List.take_succ_cons, frames, List.length_append, List.length_cons] at hlen hn
          have := hmax n' (by omega) (by omega)
          omega

theorem readAll_prefix (crc : Bytes → UInt32) (log : List Bytes) (S : Bytes)
    (hsmall : ∀ p ∈ log, p.length + 8 < 2 ^ 32) (hpre : S <+: frames crc log) :
    ∃ m e, m ≤ log.length
      ∧ readAll crc S = (log.take m, (frames crc (log.take m)).length, e)
      ∧ frames crc (log.take m) <+: S
      ∧ (e = .eof → S = frames crc (log.take m))
      ∧ (∀ n, n ≤ log.length → (frames crc (log.take n)).length ≤ S.length → n ≤ m) :=
  readAllF_prefix crc log S (S.length + 1) hsmall hpre (by omega)

/-! ### corrupted records (CRC mismatch path) -/

theorem readBytes_rejects (crc : Bytes → UInt32) (B : Bytes) (h : CrcRejects crc B) :
    ∃ e, readBytes crc B = .error e ∧ (B ≠ [] → e ≠ .eof) := by
  unfold readBytes
  split
  · rename_i h0
    exact ⟨.eof, rfl, fun hne => absurd (List.eq_nil_of_length_eq_zero h0) hne⟩
  · split
    · exact ⟨.unexpectedEOF, rfl, fun _ => by simp⟩
    · simp only
      split
      · exact ⟨.unexpectedEOF, rfl, fun _ => by simp⟩
      · split
        · exact ⟨.corrupted, rfl, fun _ => by simp⟩
        · rename_i hcrc
          exact absurd h (by simpa [CrcRejects] using hcrc)

theorem readAllF_frames_append (crc : Bytes → UInt32) (B : Bytes) (hB : CrcRejects crc B) :
    ∀ (A : List Bytes) (fuel : Nat), (∀ p ∈ A, p.length + 8 < 2 ^ 32) →
      (frames crc A ++ B).length < fuel →
      (readAllF crc fuel (frames crc A ++ B)).1 = A
      ∧ (readAllF crc fuel (frames crc A ++ B)).2.1 = (frames crc A).length
      ∧ (B ≠ [] → (readAllF crc fuel (frames crc A ++ B)).2.2 ≠ .eof) := by
  intro A
  induction A with
  | nil =>
    intro fuel _ hf
    obtain ⟨f, rfl⟩ : ∃ f, fuel = f + 1 := ⟨fuel - 1, by omega⟩
    obtain ⟨e, he, hne⟩ := readBytes_rejects crc B hB
    simp only [frames, List.nil_append, readAllF, he]
    exact ⟨trivial, rfl, hne⟩
  | cons p rest ih =>
    intro fuel hsmall hf
    obtain ⟨f, rfl⟩ : ∃ f, fuel = f + 1 := ⟨fuel - 1, by omega⟩
    have hp : p.length + 8 < 2 ^ 32 := hsmall p (by simp)
    have hFl := frame_length crc p
    simp only [frames, List.append_assoc, List.length_append] at hf ⊢
    have hrb := readBytes_frame crc p (frames crc rest ++ B) hp
    obtain ⟨h1, h2, h3⟩ := ih f (fun q hq => hsmall q (by simp [hq])) (by simp only [List.length_append]; omega)
    simp only [readAllF, hrb, h1, h2, headerLen, hFl]
    refine ⟨trivial, ?_, h3⟩
    rw [Nat.mod_eq_of_lt (by omega)]

theorem readAll_frames_append (crc : Bytes → UInt32) (A : List Bytes) (B : Bytes)
    (hA : ∀ p ∈ A, p.length + 8 < 2 ^ 32) (hB : CrcRejects crc B) :
    (readAll crc (frames crc A ++ B)).1 = A
    ∧ (readAll crc (frames crc A ++ B)).2.1 = (frames crc A).length
    ∧ (B ≠ [] → (readAll crc (frames crc A ++ B)).2.2 ≠ .eof) :=
  readAllF_frames_append crc B hB A _ hA (by omega)

/-- an altered frame (payload and/or stored checksum changed, length field consistent with the payload)
    whose alteration the checksum detects is rejected -/
theorem altered_frame_rejects (crc : Bytes → UInt32) (c : Nat) (p' T : Bytes) (hp : p'.length + 8 < 2 ^ 32)
    (hdet : (crc p').toNat ≠ c % 2 ^ 32) : CrcRejects crc (be32 c ++ be32 p'.length ++ p' ++ T) := by
  have h4a : (be32 c).length = 4 := rfl
  have h4b : (be32 p'.length).length = 4 := rfl
  have hs : be32 c ++ be32 p'.length ++ p' ++ T = be32 c ++ (be32 p'.length ++ (p' ++ T)) := by simp
  unfold CrcRejects
  rw [hs, List.take_left' h4a, beNat_be32, List.drop_left' h4a, List.take_left' h4b, beNat_be32]
  have h8 : (be32 c ++ (be32 p'.length ++ (p' ++ T))).drop headerLen = p' ++ T := by
    have : headerLen = 4 + 4 := rfl
    rw [this, ← List.drop_drop, List.drop_left' h4a, List.drop_left' h4b]
  rw [h8, Nat.mod_eq_of_lt (by omega), List.take_left' rfl]
  exact hdet

/-! ### CloseAndRepair -/

theorem repairLoop_flatten : ∀ (fs : List Bytes) (v : Nat), v ≤ fs.flatten.length →
    (repairLoop v fs).flatten = fs.flatten.take v := by
  intro fs
  induction fs with
  | nil => intro v _; simp [repairLoop]
  | cons s rest ih =>
    intro v hv
    simp only [List.flatten_cons, List.length_append] at hv
    by_cases hle : v ≤ s.length
    · simp only [repairLoop, hle, if_true, List.flatten_cons, List.flatten_nil, List.append_nil]
      rw [List.take_append_of_le_length hle]
      by_cases hlt : v < s.length
      · simp [hlt]
      · have : v = s.length := by omega
        simp [this]
    · simp only [repairLoop, hle, if_false, List.flatten_cons]
      have hs : s.take v = s := List.take_of_length_le (by omega)
      rw [ih (v - s.length) (by omega), List.take_append, hs]

theorem repairLoop_ne_nil (fs : List Bytes) (v : Nat) (h : fs ≠ []) : repairLoop v fs ≠ [] := by
  cases fs with
  | nil => exact absurd rfl h
  | cons s rest =>
    simp only [repairLoop]
    split <;> simp


theorem repairLoop_dropLast_prefix : ∀ (fs : List Bytes) (v : Nat),
    (repairLoop v fs).dropLast <+: fs.dropLast := by
  intro fs
  induction fs with
  | nil => intro v; simp [repairLoop]
  | cons s rest ih =>
    intro v
    by_cases hle : v ≤ s.length
    · simp [repairLoop, hle]
    · simp only [repairLoop, hle, if_false]
      cases rest with
      | nil => simp [repairLoop]
      | cons t rest' =>
        have hne := repairLoop_ne_nil (t :: rest') (v - s.length) (by simp)
        rw [List.dropLast_cons_of_ne_nil hne, List.dropLast_cons_of_ne_nil (by simp)]
        exact (List.prefix_cons_inj _).mpr (ih _)

/-! ### segments made of whole frames -/

/-- a byte string that is the concatenation of whole frames -/
def Whole (crc : Bytes → UInt32) (s : Bytes) : Prop :=
  ∃ gs : List Bytes, (∀ p ∈ gs, p.length + 8 < 2 ^ 32) ∧ s = frames crc gs

theorem readAll_frames (crc : Bytes → UInt32) (a : List Bytes) (ha : ∀ p ∈ a, p.length + 8 < 2 ^ 32) :
    (readAll crc (frames crc a)).1 = a := by
  obtain ⟨m, e, hm, hread, _, _, hmax⟩ := readAll_prefix crc a (frames crc a) ha (List.prefix_refl _)
  have : a.length ≤ m := hmax a.length (Nat.le_refl _) (by simp)
  rw [hread]
  exact List.take_of_length_le this

theorem frames_prefix (crc : Bytes → UInt32) (a b : List Bytes)
    (ha : ∀ p ∈ a, p.length + 8 < 2 ^ 32) (hb : ∀ p ∈ b, p.length + 8 < 2 ^ 32)
    (h : frames crc a <+: frames crc b) : a <+: b := by
  obtain ⟨m, e, hm, hread, _, _, _⟩ := readAll_prefix crc b (frames crc a) hb h
  have h1 := readAll_frames crc a ha
  rw [hread] at h1
  simp only at h1
  rw [← h1]; exact List.take_prefix _ _

theorem whole_rest (crc : Bytes → UInt32) (G L : List Bytes) (X : Bytes)
    (hG : ∀ p ∈ G, p.length + 8 < 2 ^ 32) (hL : ∀ p ∈ L, p.length + 8 < 2 ^ 32)
    (h : frames crc G ++ X = frames crc L) : ∃ L', L = G ++ L' ∧ X = frames crc L' := by
  have hp : frames crc G <+: frames crc L := ⟨X, h⟩
  obtain ⟨L', hL'⟩ := frames_prefix crc G L hG hL hp
  refine ⟨L', hL'.symm, ?_⟩
  rw [← hL', frames_append] at h
  exact List.append_cancel_left h

theorem flatten_whole (crc : Bytes → UInt32) : ∀ l : List Bytes, (∀ s ∈ l, Whole crc s) →
    Whole crc l.flatten := by
  intro l
  induction l with
  | nil => intro _; exact ⟨[], by simp, by simp [frames]⟩
  | cons s rest ih =>
    intro h
    obtain ⟨g1, hg1, he1⟩ := h s (by simp)
    obtain ⟨g2, hg2, he2⟩ := ih (fun t ht => h t (by simp [ht]))
    refine ⟨g1 ++ g2, ?_, ?_⟩
    · intro p hp
      rcases List.mem_append.mp hp with hp | hp
      · exact hg1 p hp
      · exact hg2 p hp
    · simp [frames_append, he1, he2]

theorem prefix_drop {α : Type} (a b : List α) (k : Nat) (h : a <+: b) : a.drop k <+: b.drop k := by
  obtain ⟨t, rfl⟩ := h
  by_cases hk : k ≤ a.length
  · rw [List.drop_append_of_le_length hk]; exact List.prefix_append _ _
  · rw [List.drop_of_length_le (by omega)]; exact List.nil_prefix

/-! ### bufio -/

theorem bufWrite_spec (file buf p : Bytes) :
    (bufWrite file buf p).1 ++ (bufWrite file buf p).2 = file ++ (buf ++ p)
    ∧ file.length ≤ (bufWrite file buf p).1.length := by
  unfold bufWrite
  split
  · simp
  · split
    · rename_i h0
      have : buf = [] := List.eq_nil_of_length_eq_zero h0
      simp [this]
    · simp only
      split
      · constructor
        · simp [List.append_assoc, List.take_append_drop]
        · simp
      · constructor
        · simp [List.append_assoc, List.take_append_drop]
        · simp

/-! ### invariant tying the files to the bookkeeping -/

structure Inv (crc : Bytes → UInt32) (w : Writer) (g : Ghost) : Prop where
  stream : w.older.flatten ++ (w.tail ++ w.buf) = frames crc g.log
  syncedLe : w.synced ≤ w.tail.length
  durable : (frames crc (g.log.take g.nsynced)).length ≤ w.older.flatten.length + w.synced
  nLe : g.nsynced ≤ g.log.length
  small : ∀ p ∈ g.log, p.length + 8 < 2 ^ 32
  whole : ∀ s ∈ w.older, Whole crc s

theorem init_inv (crc : Bytes → UInt32) (cfg : Cfg) : Inv crc (Sys.init cfg) {} := by
  constructor <;> simp [Sys.init, openWriter, frames]

theorem openWriter_spec (cfg : Cfg) (d : Disk) (hne : d.files ≠ []) :
    (openWriter cfg d).older ++ [(openWriter cfg d).tail] = d.files
    ∧ (openWriter cfg d).buf = []
    ∧ (openWriter cfg d).synced = (openWriter cfg d).tail.length
    ∧ (openWriter cfg d).cfg = cfg := by
  unfold openWriter
  cases h : d.files.getLast? with
  | none => exact absurd (List.getLast?_eq_none_iff.mp h) hne
  | some t =>
    obtain ⟨ys, hys⟩ := List.getLast?_eq_some_iff.mp h
    simp [hys]

theorem recover_spec (crc : Bytes → UInt32) (d : Disk) (log : List Bytes) (n : Nat)
    (hne : d.files ≠ []) (hpre : d.files.flatten <+: frames crc log)
    (hsmall : ∀ p ∈ log, p.length + 8 < 2 ^ 32)
    (hdur : (frames crc (log.take n)).length ≤ d.files.flatten.length) (hn : n ≤ log.length) :
    ∃ m e d', recover crc d = some (log.take m, e, d') ∧ n ≤ m ∧ m ≤ log.length
      ∧ d'.files ≠ [] ∧ d'.files.flatten = frames crc (log.take m)
      ∧ d'.files.dropLast <+: d.files.dropLast := by
  obtain ⟨m, e, hm, hread, hpf, heof, hmax⟩ := readAll_prefix crc log d.files.flatten hsmall hpre
  have hnm : n ≤ m := hmax n hn hdur
  unfold recover
  rw [if_neg hne]
  simp only [hread]
  cases e with
  | eof => exact ⟨m, .eof, d, rfl, hnm, hm, hne, heof rfl, List.prefix_refl _⟩
  | unexpectedEOF =>
    refine ⟨m, .unexpectedEOF, _, rfl, hnm, hm, repairLoop_ne_nil _ _ hne, ?_, repairLoop_dropLast_prefix _ _⟩
    simp only
    rw [repairLoop_flatten _ _ hpf.length_le]
    exact (List.prefix_iff_eq_take.mp hpf).symm
  | corrupted =>
    refine ⟨m, .corrupted, _, rfl, hnm, hm, repairLoop_ne_nil _ _ hne, ?_, repairLoop_dropLast_prefix _ _⟩
    simp only
    rw [repairLoop_flatten _ _ hpf.length_le]
    exact (List.prefix_iff_eq_take.mp hpf).symm

theorem recoverReopen_spec (crc : Bytes → UInt32) (cfg : Cfg) (d : Disk) (log : List Bytes) (n : Nat)
    (hne : d.files ≠ []) (hpre : d.files.flatten <+: frames crc log)
    (hsmall : ∀ p ∈ log, p.length + 8 < 2 ^ 32)
    (hdur : (frames crc (log.take n)).length ≤ d.files.flatten.length) (hn : n ≤ log.length)
    (hwhole : ∀ s ∈ d.files.dropLast, Whole crc s) :
    ∃ m, n ≤ m ∧ m ≤ log.length ∧ (recoverReopen crc cfg d).2 = log.take m
      ∧ Inv crc (recoverReopen crc cfg d).1 { log := log.take m, nsynced := m }
      ∧ (recoverReopen crc cfg d).1.cfg = cfg := by
  obtain ⟨m, e, d', hrec, hnm, hm, hne', hflat, hdl⟩ := recover_spec crc d log n hne hpre hsmall hdur hn
  refine ⟨m, hnm, hm, by simp [recoverReopen, hrec], ?_, ?_⟩
  · simp only [recoverReopen, hrec]
    obtain ⟨hfiles, hbuf, hsync, _⟩ := openWriter_spec cfg d' hne'
    have hfl : (openWriter cfg d').older.flatten ++ (openWriter cfg d').tail = frames crc (log.take m) := by
      rw [← hflat, ← hfiles]; simp
    constructor
    · simp [hbuf, hfl]
    · omega
    · simp only [List.take_take, Nat.min_self]
      rw [← hfl, hsync]; simp
    · simp; omega
    · intro p hp; exact hsmall p (List.mem_of_mem_take hp)
    · intro s hs
      have hdl' : d'.files.dropLast = (openWriter cfg d').older := by
        rw [← hfiles]; simp
      rw [← hdl'] at hs
      exact hwhole s (hdl.subset hs)
  · simp only [recoverReopen, hrec]
    exact (openWriter_spec cfg d' hne').2.2.2

theorem crashRecover_spec (crc : Bytes → UInt32) (w : Writer) (g : Ghost) (k : Nat) (h : Inv crc w g) :
    ∃ m, g.nsynced ≤ m ∧ m ≤ g.log.length ∧ (stepOp crc w (.crashRecover k)).2 = g.log.take m
      ∧ Inv crc (stepOp crc w (.crashRecover k)).1 { log := g.log.take m, nsynced := m }
      ∧ (stepOp crc w (.crashRecover k)).1.cfg = w.cfg := by
  have hlen : w.synced ≤ (w.tail ++ w.buf).length := by
    have := h.syncedLe; simp; omega
  apply recoverReopen_spec crc w.cfg (w.crash k) g.log g.nsynced
  · simp [Writer.crash]
  · simp only [Writer.crash, List.flatten_append, List.flatten_cons, List.flatten_nil, List.append_nil]
    rw [← h.stream]
    exact (List.prefix_append_right_inj _).mpr (List.take_prefix _ _)
  · exact h.small
  · have := h.durable
    simp only [Writer.crash, List.flatten_append, List.flatten_cons, List.flatten_nil, List.append_nil,
      List.length_append, List.length_take]
    simp only [List.length_append] at hlen
    omega
  · exact h.nLe
  · intro s hs
    simp only [Writer.crash, List.dropLast_concat] at hs
    exact h.whole s hs

theorem restart_spec (crc : Bytes → UInt32) (w : Writer) (g : Ghost) (h : Inv crc w g) :
    (stepOp crc w .restart).2 = g.log
      ∧ Inv crc (stepOp crc w .restart).1 { log := g.log, nsynced := g.log.length }
      ∧ (stepOp crc w .restart).1.cfg = w.cfg := by
  have hs : (w.close).files.flatten = frames crc g.log := by
    simp [Writer.close, Writer.sync, Writer.disk, Writer.files, ← h.stream]
  obtain ⟨m, hnm, hm, hr, hinv, hcfg⟩ := recoverReopen_spec crc w.cfg w.close g.log g.log.length
    (by simp [Writer.close, Writer.sync, Writer.disk, Writer.files])
    (by rw [hs]; exact List.prefix_refl _) h.small (by rw [hs]; simp) (Nat.le_refl _)
    (by
      intro s hs'
      simp only [Writer.close, Writer.sync, Writer.disk, Writer.files, List.dropLast_concat] at hs'
      exact h.whole s hs')
  have : m = g.log.length := by omega
  subst this
  simp only [List.take_length] at hr hinv
  exact ⟨hr, hinv, hcfg⟩


/-! ### steps preserve the invariant -/

theorem write_inv (crc : Bytes → UInt32) (w : Writer) (g : Ghost) (p : Bytes) (h : Inv crc w g)
    (hp : p.length + 8 < 2 ^ 32) : Inv crc (w.write crc p) { g with log := g.log ++ [p] } := by
  obtain ⟨hcat, hlen⟩ := bufWrite_spec w.tail w.buf (frame crc p)
  constructor
  · simp only [Writer.write]
    rw [hcat, frames_append, ← h.stream]
    simp [frames]
  · simp only [Writer.write]
    have := h.syncedLe
    omega
  · simp only [Writer.write]
    rw [List.take_append_of_le_length h.nLe]
    exact h.durable
  · simp; have := h.nLe; omega
  · intro q hq
    simp only [List.mem_append, List.mem_singleton] at hq
    rcases hq with hq | rfl
    · exact h.small q hq
    · exact hp
  · exact h.whole

theorem sync_inv (crc : Bytes → UInt32) (w : Writer) (g : Ghost) (h : Inv crc w g) :
    Inv crc w.sync { g with nsynced := g.log.length } := by
  constructor
  · simp only [Writer.sync, List.append_nil]; exact h.stream
  · simp [Writer.sync]
  · simp only [Writer.sync, List.take_length]
    rw [← h.stream]; simp
  · simp
  · exact h.small
  · exact h.whole

theorem shift_inv (crc : Bytes → UInt32) (w : Writer) (g : Ghost) (h : Inv crc w g) :
    Inv crc w.shift { g with nsynced := g.log.length } := by
  constructor
  · simp only [Writer.shift, Writer.sync, List.append_nil]
    rw [← h.stream]; simp
  · simp [Writer.shift]
  · simp only [Writer.shift, Writer.sync, List.take_length]
    rw [← h.stream]; simp
  · simp
  · exact h.small
  · intro s hs
    simp only [Writer.shift, Writer.sync, List.mem_append, List.mem_singleton] at hs
    rcases hs with hs | rfl
    · exact h.whole s hs
    · obtain ⟨G, hG, hGe⟩ := flatten_whole crc w.older h.whole
      have hst := h.stream
      rw [hGe] at hst
      obtain ⟨L', hL, hX⟩ := whole_rest crc G g.log _ hG h.small hst
      refine ⟨L', ?_, hX⟩
      intro p hp
      exact h.small p (by rw [hL]; simp [hp])

/-- removing the `j` oldest segments removes exactly the records they hold -/
theorem dropSegs_inv (crc : Bytes → UInt32) (b w' : Writer) (g : Ghost) (j rt : Nat) (h : Inv crc b g)
    (ho : w'.older = b.older.drop j) (ht : w'.tail = b.tail) (hb : w'.buf = b.buf)
    (hs : w'.synced = b.synced) :
    Inv crc w' { log := g.log.drop (readAll crc (b.older.take j).flatten).1.length,
                 nsynced := g.nsynced - (readAll crc (b.older.take j).flatten).1.length,
                 retired := rt } := by
  obtain ⟨G, hG, hGe⟩ := flatten_whole crc (b.older.take j) (fun s hs => h.whole s (List.mem_of_mem_take hs))
  have hr : (readAll crc (b.older.take j).flatten).1.length = G.length := by
    rw [hGe, readAll_frames crc G hG]
  have hsplit : b.older.flatten = frames crc G ++ (b.older.drop j).flatten := by
    rw [← hGe, ← List.flatten_append, List.take_append_drop]
  have hst := h.stream
  rw [hsplit, List.append_assoc] at hst
  obtain ⟨L', hL, hX⟩ := whole_rest crc G g.log _ hG h.small hst
  have hdrop : g.log.drop G.length = L' := by rw [hL]; exact List.drop_left' rfl
  have hdur := h.durable
  have hnle := h.nLe
  rw [hr, hdrop]
  constructor
  · simp only [ho, ht, hb]; exact hX
  · rw [hs, ht]; exact h.syncedLe
  · simp only [ho, hs]
    by_cases hn : g.nsynced ≤ G.length
    · have : g.nsynced - G.length = 0 := by omega
      simp [this, frames]
    · have htake : g.log.take g.nsynced = G ++ L'.take (g.nsynced - G.length) := by
        rw [hL, List.take_append, List.take_of_length_le (by omega)]
      rw [htake, frames_append, hsplit] at hdur
      simp only [List.length_append] at hdur
      omega
  · simp only
    rw [hL] at hnle
    simp only [List.length_append] at hnle
    omega
  · intro p hp
    exact h.small p (by rw [hL]; simp [hp])
  · intro s hs'
    rw [ho] at hs'
    exact h.whole s (List.mem_of_mem_drop hs')

theorem retireLoop_spec (limit : Nat) : ∀ (l : List Bytes) (total : Nat),
    (retireLoop limit total l).1 ≤ l.length
    ∧ ((retireLoop limit total l).2 ≤ limit
       ∨ ((retireLoop limit total l).1 = l.length
          ∧ (retireLoop limit total l).2 = total - (l.map List.length).sum)) := by
  intro l
  induction l with
  | nil => intro total; simp [retireLoop]
  | cons s rest ih =>
    intro total
    by_cases h : total > limit
    · simp only [retireLoop, h, if_true, List.length_cons, List.map_cons, List.sum_cons]
      obtain ⟨h1, h2⟩ := ih (total - s.length)
      refine ⟨by omega, ?_⟩
      rcases h2 with h2 | ⟨h2, h3⟩
      · exact .inl h2
      · exact .inr ⟨by omega, by rw [h3]; omega⟩
    · simp only [retireLoop, h, if_false]
      exact ⟨by omega, .inl (by omega)⟩

theorem housekeep_spec (w : Writer) :
    ∃ j, j ≤ (hkBase w).older.length
      ∧ w.housekeep.older = (hkBase w).older.drop j
      ∧ w.housekeep.head = (hkBase w).head + j
      ∧ w.housekeep.tail = (hkBase w).tail
      ∧ w.housekeep.buf = (hkBase w).buf
      ∧ w.housekeep.synced = (hkBase w).synced := by
  refine ⟨(retireLoop w.cfg.totalLimit (w.files.map List.length).sum (hkBase w).older).1,
    (retireLoop_spec _ _ _).1, ?_⟩
  unfold Writer.housekeep hkBase
  simp only
  repeat' split
  all_goals simp

theorem hkBase_inv (crc : Bytes → UInt32) (w : Writer) (g : Ghost) (h : Inv crc w g) :
    Inv crc (hkBase w)
      { g with nsynced := if w.tail.length > w.cfg.fileLimit ∨ (w.dirty && w.cfg.syncDue) = true
                          then g.log.length else g.nsynced } := by
  unfold hkBase
  by_cases h1 : w.tail.length > w.cfg.fileLimit
  · simp only [h1, if_true, true_or]
    exact shift_inv crc w g h
  · by_cases h2 : (w.dirty && w.cfg.syncDue) = true
    · simp only [h1, h2, if_false, if_true, or_true]
      exact sync_inv crc w g h
    · simp only [h1, h2, if_false]
      exact h

theorem housekeep_inv (crc : Bytes → UInt32) (w : Writer) (g : Ghost) (h : Inv crc w g) :
    Inv crc w.housekeep (stepGhost crc w g .housekeep) := by
  obtain ⟨j, hj, ho, hh, ht, hb, hs⟩ := housekeep_spec w
  have hjeq : w.housekeep.head - (hkBase w).head = j := by omega
  have := dropSegs_inv crc (hkBase w) w.housekeep _ j
    (g.retired + (readAll crc ((hkBase w).older.take j).flatten).1.length) (hkBase_inv crc w g h) ho ht hb hs
  simp only [stepGhost, hjeq]
  exact this

theorem take_prefix_take {α : Type} (l : List α) (a b : Nat) (h : a ≤ b) : l.take a <+: l.take b := by
  have : l.take a = (l.take b).take a := by rw [List.take_take, Nat.min_eq_left h]
  rw [this]; exact List.take_prefix _ _

/-! ### crash points inside Shift and inside CloseAndRepair -/

/-- what a recovery needs from the disk it finds (relative to the bookkeeping `log`, `n`) -/
structure Pre (crc : Bytes → UInt32) (d : Disk) (log : List Bytes) (n : Nat) : Prop where
  ne : d.files ≠ []
  pre : d.files.flatten <+: frames crc log
  dur : (frames crc (log.take n)).length ≤ d.files.flatten.length
  whole : ∀ s ∈ d.files.dropLast, Whole crc s

theorem frames_take_mono (crc : Bytes → UInt32) (log : List Bytes) (a b : Nat) (h : a ≤ b) :
    (frames crc (log.take a)).length ≤ (frames crc (log.take b)).length := by
  obtain ⟨t, ht⟩ := take_prefix_take log a b h
  rw [← ht, frames_append]; simp

theorem Pre.weaken {crc : Bytes → UInt32} {d : Disk} {log : List Bytes} {n n' : Nat}
    (h : Pre crc d log n') (hn : n ≤ n') : Pre crc d log n :=
  ⟨h.ne, h.pre, Nat.le_trans (frames_take_mono crc log n n' hn) h.dur, h.whole⟩

theorem crash_pre (crc : Bytes → UInt32) (w : Writer) (g : Ghost) (k : Nat) (h : Inv crc w g) :
    Pre crc (w.crash k) g.log g.nsynced := by
  have hlen : w.synced ≤ (w.tail ++ w.buf).length := by
    have := h.syncedLe; simp; omega
  constructor
  · simp [Writer.crash]
  · simp only [Writer.crash, List.flatten_append, List.flatten_cons, List.flatten_nil, List.append_nil]
    rw [← h.stream]
    exact (List.prefix_append_right_inj _).mpr (List.take_prefix _ _)
  · have := h.durable
    simp only [Writer.crash, List.flatten_append, List.flatten_cons, List.flatten_nil, List.append_nil,
      List.length_append, List.length_take]
    simp only [List.length_append] at hlen
    omega
  · intro s hs
    simp only [Writer.crash, List.dropLast_concat] at hs
    exact h.whole s hs

theorem crashAt_pre (crc : Bytes → UInt32) (w : Writer) (g : Ghost) (p : CrashPoint) (h : Inv crc w g) :
    Pre crc (w.crashAt p) g.log g.nsynced := by
  cases p with
  | appending k => exact crash_pre crc w g k h
  | inShift j k =>
    simp only [Writer.crashAt, Writer.crashInShift]
    split
    · exact crash_pre crc w g k h
    · split
      · exact (crash_pre crc w.sync _ 0 (sync_inv crc w g h)).weaken h.nLe
      · exact (crash_pre crc w.shift _ 0 (shift_inv crc w g h)).weaken h.nLe

theorem flatten_prefix {α : Type} (a b : List (List α)) (h : a <+: b) : a.flatten <+: b.flatten := by
  obtain ⟨t, rfl⟩ := h
  simp

theorem dropLast_prefix_of_prefix {α : Type} (a b : List α) (h : a <+: b) : a.dropLast <+: b.dropLast := by
  obtain ⟨t, rfl⟩ := h
  by_cases ht : t = []
  · subst ht; simp
  · rw [List.dropLast_append_of_ne_nil ht]
    exact (List.dropLast_prefix a).trans (List.prefix_append _ _)

theorem cutIndex_spec : ∀ (fs : List Bytes) (v : Nat), v ≤ fs.flatten.length → fs ≠ [] →
    cutIndex v fs < fs.length ∧ v ≤ (fs.take (cutIndex v fs + 1)).flatten.length := by
  intro fs
  induction fs with
  | nil => intro v _ h; exact absurd rfl h
  | cons s rest ih =>
    intro v hv _
    simp only [List.flatten_cons, List.length_append] at hv
    by_cases hle : v ≤ s.length
    · simp [cutIndex, hle]
    · have hrest : rest ≠ [] := by
        intro h0; subst h0; simp at hv; omega
      obtain ⟨h1, h2⟩ := ih (v - s.length) (by omega) hrest
      simp only [cutIndex, hle, if_false, List.length_cons]
      refine ⟨by omega, ?_⟩
      rw [show 1 + cutIndex (v - s.length) rest + 1 = (cutIndex (v - s.length) rest + 1) + 1 by omega,
        List.take_succ_cons]
      simp only [List.flatten_cons, List.length_append]
      omega

theorem readAll_records_between (crc : Bytes → UInt32) (log : List Bytes) (S X : Bytes)
    (hsmall : ∀ p ∈ log, p.length + 8 < 2 ^ 32) (hS : S <+: frames crc log) (hX : X <+: S)
    (hge : (frames crc (readAll crc S).1).length ≤ X.length) :
    (readAll crc X).1 = (readAll crc S).1 := by
  obtain ⟨m, e, hm, hread, hpf, _, hmax⟩ := readAll_prefix crc log S hsmall hS
  obtain ⟨m', e', hm', hread', hpf', _, hmax'⟩ := readAll_prefix crc log X hsmall (hX.trans hS)
  rw [hread] at hge
  have h1 : m ≤ m' := hmax' m hm hge
  have h2 : m' ≤ m := hmax m' hm' (Nat.le_trans hpf'.length_le hX.length_le)
  have : m = m' := by omega
  subst this
  rw [hread, hread']

/-- a recovery that dies inside CloseAndRepair leaves a disk from which recovery works as before,
    and on which the read loop finds the same records -/
theorem recoverPartial_spec (crc : Bytes → UInt32) (d : Disk) (log : List Bytes) (n j : Nat)
    (h : Pre crc d log n) (hsmall : ∀ p ∈ log, p.length + 8 < 2 ^ 32) (hn : n ≤ log.length) :
    Pre crc (recoverPartial crc j d) log n
    ∧ (readAll crc (recoverPartial crc j d).files.flatten).1 = (readAll crc d.files.flatten).1 := by
  obtain ⟨m, e, hm, hread, hpf, heof, hmax⟩ := readAll_prefix crc log d.files.flatten hsmall h.pre
  have hnm : n ≤ m := hmax n hn h.dur
  have hv : (frames crc (log.take m)).length ≤ d.files.flatten.length := hpf.length_le
  have hdurv : (frames crc (log.take n)).length ≤ (frames crc (log.take m)).length :=
    frames_take_mono crc log n m hnm
  unfold recoverPartial
  rw [if_neg h.ne]
  simp only [hread]
  have hrec1 : (readAll crc d.files.flatten).1 = log.take m := by rw [hread]
  have key : Pre crc { d with files := repairPartial (frames crc (log.take m)).length j d.files } log n
      ∧ (readAll crc (repairPartial (frames crc (log.take m)).length j d.files).flatten).1
          = (readAll crc d.files.flatten).1 := by
    unfold repairPartial
    split
    · -- only removes of trailing segments happened
      rename_i hj
      obtain ⟨hc1, hc2⟩ := cutIndex_spec d.files _ hv h.ne
      have hq : cutIndex (frames crc (log.take m)).length d.files + 1 ≤ d.files.length - j := by omega
      have hpre1 : d.files.take (cutIndex (frames crc (log.take m)).length d.files + 1)
          <+: d.files.take (d.files.length - j) := take_prefix_take _ _ _ hq
      have hlen := (flatten_prefix _ _ hpre1).length_le
      refine ⟨?_, readAll_records_between crc log _ _ hsmall h.pre
        (flatten_prefix _ _ (List.take_prefix _ _)) (by rw [hrec1]; omega)⟩
      constructor
      · simp only
        intro h0
        have := congrArg List.length h0
        simp at this
        omega
      · exact (flatten_prefix _ _ (List.take_prefix _ _)).trans h.pre
      · simp only; omega
      · intro s hs
        exact h.whole s ((dropLast_prefix_of_prefix _ _ (List.take_prefix _ _)).subset hs)
    · -- the repair completed
      refine ⟨?_, readAll_records_between crc log _ _ hsmall h.pre
        (by rw [repairLoop_flatten _ _ hv]; exact List.take_prefix _ _)
        (by rw [hrec1, repairLoop_flatten _ _ hv, List.length_take]; omega)⟩
      constructor
      · exact repairLoop_ne_nil _ _ h.ne
      · simp only
        rw [repairLoop_flatten _ _ hv, ← List.prefix_iff_eq_take.mp hpf]
        obtain ⟨t, ht⟩ := List.take_prefix m log
        refine ⟨frames crc t, ?_⟩
        rw [← frames_append, ht]
      · simp only
        rw [repairLoop_flatten _ _ hv, ← List.prefix_iff_eq_take.mp hpf]
        exact hdurv
      · intro s hs
        exact h.whole s ((repairLoop_dropLast_prefix _ _).subset hs)
  cases e with
  | eof => exact ⟨h, hrec1⟩
  | unexpectedEOF => exact ⟨key.1, key.2.trans hrec1⟩
  | corrupted => exact ⟨key.1, key.2.trans hrec1⟩

theorem recoverPartial_pre (crc : Bytes → UInt32) (d : Disk) (log : List Bytes) (n j : Nat)
    (h : Pre crc d log n) (hsmall : ∀ p ∈ log, p.length + 8 < 2 ^ 32) (hn : n ≤ log.length) :
    Pre crc (recoverPartial crc j d) log n := (recoverPartial_spec crc d log n j h hsmall hn).1

theorem recoverPartials_pre (crc : Bytes → UInt32) (log : List Bytes) (n : Nat)
    (hsmall : ∀ p ∈ log, p.length + 8 < 2 ^ 32) (hn : n ≤ log.length) :
    ∀ (js : List Nat) (d : Disk), Pre crc d log n →
      Pre crc (js.foldl (fun d j => recoverPartial crc j d) d) log n
      ∧ (readAll crc (js.foldl (fun d j => recoverPartial crc j d) d).files.flatten).1
          = (readAll crc d.files.flatten).1 := by
  intro js
  induction js with
  | nil => intro d h; exact ⟨h, rfl⟩
  | cons j js ih =>
    intro d h
    simp only [List.foldl_cons]
    obtain ⟨h1, h2⟩ := recoverPartial_spec crc d log n j h hsmall hn
    obtain ⟨h3, h4⟩ := ih _ h1
    exact ⟨h3, h4.trans h2⟩

theorem recoverReopen_snd (crc : Bytes → UInt32) (cfg : Cfg) (d : Disk) (hne : d.files ≠ []) :
    (recoverReopen crc cfg d).2 = (readAll crc d.files.flatten).1 := by
  unfold recoverReopen recover
  rw [if_neg hne]
  simp only
  generalize (readAll crc d.files.flatten).2.2 = e
  cases e <;> rfl

theorem crashAt_spec (crc : Bytes → UInt32) (w : Writer) (g : Ghost) (p : CrashPoint) (js : List Nat)
    (h : Inv crc w g) :
    ∃ m, g.nsynced ≤ m ∧ m ≤ g.log.length ∧ (stepOp crc w (.crashAt p js)).2 = g.log.take m
      ∧ Inv crc (stepOp crc w (.crashAt p js)).1 { log := g.log.take m, nsynced := m }
      ∧ (stepOp crc w (.crashAt p js)).1.cfg = w.cfg := by
  have hp := (recoverPartials_pre crc g.log g.nsynced h.small h.nLe js _ (crashAt_pre crc w g p h)).1
  exact recoverReopen_spec crc w.cfg _ g.log g.nsynced hp.ne hp.pre h.small hp.dur h.nLe hp.whole

/-- interrupted repairs do not change what the recovery that completes returns -/
theorem crashAt_resumable (crc : Bytes → UInt32) (w : Writer) (g : Ghost) (p : CrashPoint) (js : List Nat)
    (h : Inv crc w g) :
    (stepOp crc w (.crashAt p js)).2 = (stepOp crc w (.crashAt p [])).2 := by
  have h0 := crashAt_pre crc w g p h
  obtain ⟨hp, hrec⟩ := recoverPartials_pre crc g.log g.nsynced h.small h.nLe js _ h0
  simp only [stepOp, List.foldl_nil]
  rw [recoverReopen_snd crc _ _ hp.ne, recoverReopen_snd crc _ _ h0.ne, hrec]

/-- every crash op: the recovery returns `log.take m` for some `m` between `nsynced` and the length -/
theorem crashOp_spec (crc : Bytes → UInt32) (w : Writer) (g : Ghost) (op : Op) (hop : op.isCrash)
    (h : Inv crc w g) :
    ∃ m, g.nsynced ≤ m ∧ m ≤ g.log.length ∧ (stepOp crc w op).2 = g.log.take m
      ∧ Inv crc (stepOp crc w op).1 { log := g.log.take m, nsynced := m } := by
  cases op with
  | crashRecover k =>
    obtain ⟨m, a, b, c, d, _⟩ := crashRecover_spec crc w g k h
    exact ⟨m, a, b, c, d⟩
  | crashAt p js =>
    obtain ⟨m, a, b, c, d, _⟩ := crashAt_spec crc w g p js h
    exact ⟨m, a, b, c, d⟩
  | write _ => exact absurd hop (by simp [Op.isCrash])
  | sync => exact absurd hop (by simp [Op.isCrash])
  | shift => exact absurd hop (by simp [Op.isCrash])
  | housekeep => exact absurd hop (by simp [Op.isCrash])
  | restart => exact absurd hop (by simp [Op.isCrash])

theorem step_inv (crc : Bytes → UInt32) (w : Writer) (g : Ghost) (op : Op) (h : Inv crc w g)
    (hop : op.plain) : Inv crc (stepOp crc w op).1 (stepGhost crc w g op) := by
  cases op with
  | write p => exact write_inv crc w g p h hop
  | sync => exact sync_inv crc w g h
  | shift => exact shift_inv crc w g h
  | housekeep => exact housekeep_inv crc w g h
  | crashRecover k =>
    obtain ⟨m, _, hm, hr, hinv, _⟩ := crashRecover_spec crc w g k h
    simp only [stepGhost, hr, List.length_take, Nat.min_eq_left hm]
    exact ⟨hinv.stream, hinv.syncedLe, hinv.durable, hinv.nLe, hinv.small, hinv.whole⟩
  | crashAt p js =>
    obtain ⟨m, _, hm, hr, hinv, _⟩ := crashAt_spec crc w g p js h
    simp only [stepGhost, hr, List.length_take, Nat.min_eq_left hm]
    exact ⟨hinv.stream, hinv.syncedLe, hinv.durable, hinv.nLe, hinv.small, hinv.whole⟩
  | restart =>
    obtain ⟨hr, hinv, _⟩ := restart_spec crc w g h
    simp only [stepGhost, hr]
    exact ⟨hinv.stream, hinv.syncedLe, hinv.durable, hinv.nLe, hinv.small, hinv.whole⟩

theorem step_retired_le (crc : Bytes → UInt32) (w : Writer) (g : Ghost) (op : Op) :
    g.retired ≤ (stepGhost crc w g op).retired := by
  cases op <;> simp [stepGhost]

theorem step_retired_eq (crc : Bytes → UInt32) (w : Writer) (g : Ghost) (op : Op) (hop : op ≠ .housekeep) :
    (stepGhost crc w g op).retired = g.retired := by
  cases op <;> simp_all [stepGhost]

/-- the durable prefix only ever grows, except for the records removed by retention -/
theorem step_durable_mono (crc : Bytes → UInt32) (w : Writer) (g : Ghost) (op : Op) (h : Inv crc w g) :
    g.durable.drop ((stepGhost crc w g op).retired - g.retired) <+: (stepGhost crc w g op).durable := by
  cases op with
  | write p =>
    simp only [stepGhost, Ghost.durable, Nat.sub_self, List.drop_zero]
    rw [List.take_append_of_le_length h.nLe]
    exact List.prefix_refl _
  | sync => simp only [stepGhost, Ghost.durable, List.take_length, Nat.sub_self, List.drop_zero]; exact List.take_prefix _ _
  | shift => simp only [stepGhost, Ghost.durable, List.take_length, Nat.sub_self, List.drop_zero]; exact List.take_prefix _ _
  | housekeep =>
    simp only [stepGhost, Ghost.durable, Nat.add_sub_cancel_left]
    rw [List.drop_take]
    apply take_prefix_take
    have := h.nLe
    split <;> omega
  | crashRecover k =>
    obtain ⟨m, hnm, hm, hr, _, _⟩ := crashRecover_spec crc w g k h
    simp only [stepGhost, hr, Ghost.durable, List.take_length, Nat.sub_self, List.drop_zero]
    exact take_prefix_take _ _ _ hnm
  | crashAt p js =>
    obtain ⟨m, hnm, hm, hr, _, _⟩ := crashAt_spec crc w g p js h
    simp only [stepGhost, hr, Ghost.durable, List.take_length, Nat.sub_self, List.drop_zero]
    exact take_prefix_take _ _ _ hnm
  | restart =>
    obtain ⟨hr, _, _⟩ := restart_spec crc w g h
    simp only [stepGhost, hr, Ghost.durable, List.take_length, Nat.sub_self, List.drop_zero]
    exact List.take_prefix _ _

theorem step_log_sub (crc : Bytes → UInt32) (w : Writer) (g : Ghost) (op : Op) (h : Inv crc w g) :
    ∀ x ∈ (stepGhost crc w g op).log, x ∈ g.log ∨ op = .write x := by
  intro x hx
  cases op with
  | write p =>
    simp only [stepGhost, List.mem_append, List.mem_singleton] at hx
    rcases hx with hx | rfl
    · exact .inl hx
    · exact .inr rfl
  | sync => exact .inl hx
  | shift => exact .inl hx
  | housekeep =>
    simp only [stepGhost] at hx
    exact .inl (List.mem_of_mem_drop hx)
  | crashRecover k =>
    obtain ⟨m, _, _, hr, _, _⟩ := crashRecover_spec crc w g k h
    simp only [stepGhost, hr] at hx
    exact .inl (List.mem_of_mem_take hx)
  | crashAt p js =>
    obtain ⟨m, _, _, hr, _, _⟩ := crashAt_spec crc w g p js h
    simp only [stepGhost, hr] at hx
    exact .inl (List.mem_of_mem_take hx)
  | restart =>
    obtain ⟨hr, _, _⟩ := restart_spec crc w g h
    simp only [stepGhost, hr] at hx
    exact .inl hx

/-! ### histories -/

theorem runG_fst (crc : Bytes → UInt32) : ∀ (ops : List Op) (w : Sys) (g : Ghost),
    (runG crc w g ops).1 = run crc w ops := by
  intro ops
  induction ops with
  | nil => intro w g; rfl
  | cons op ops ih => intro w g; simp [runG, run, ih]

theorem runG_append (crc : Bytes → UInt32) : ∀ (a b : List Op) (w : Sys) (g : Ghost),
    runG crc w g (a ++ b) = runG crc (runG crc w g a).1 (runG crc w g a).2 b := by
  intro a
  induction a with
  | nil => intro b w g; rfl
  | cons op ops ih => intro b w g; simp [runG, ih]

theorem runG_inv (crc : Bytes → UInt32) : ∀ (ops : List Op) (w : Sys) (g : Ghost),
    Inv crc w g → (∀ op ∈ ops, op.plain) →
    Inv crc (runG crc w g ops).1 (runG crc w g ops).2 := by
  intro ops
  induction ops with
  | nil => intro w g h _; exact h
  | cons op ops ih =>
    intro w g h hp
    simp only [runG]
    exact ih _ _ (step_inv crc w g op h (hp op (by simp))) (fun o ho => hp o (by simp [ho]))

theorem runG_retired_le (crc : Bytes → UInt32) : ∀ (ops : List Op) (w : Sys) (g : Ghost),
    g.retired ≤ (runG crc w g ops).2.retired := by
  intro ops
  induction ops with
  | nil => intro w g; exact Nat.le_refl _
  | cons op ops ih =>
    intro w g
    simp only [runG]
    exact Nat.le_trans (step_retired_le crc w g op) (ih _ _)

theorem runG_retired_eq (crc : Bytes → UInt32) : ∀ (ops : List Op) (w : Sys) (g : Ghost),
    (∀ op ∈ ops, op ≠ .housekeep) → (runG crc w g ops).2.retired = g.retired := by
  intro ops
  induction ops with
  | nil => intro w g _; rfl
  | cons op ops ih =>
    intro w g h
    simp only [runG]
    rw [ih _ _ (fun o ho => h o (by simp [ho])), step_retired_eq crc w g op (h op (by simp))]

theorem runG_durable_mono (crc : Bytes → UInt32) : ∀ (ops : List Op) (w : Sys) (g : Ghost),
    Inv crc w g → (∀ op ∈ ops, op.plain) →
    g.durable.drop ((runG crc w g ops).2.retired - g.retired) <+: (runG crc w g ops).2.durable := by
  intro ops
  induction ops with
  | nil => intro w g _ _; simp [runG]
  | cons op ops ih =>
    intro w g h hp
    simp only [runG]
    have h1 := step_durable_mono crc w g op h
    have h2 := ih _ _ (step_inv crc w g op h (hp op (by simp))) (fun o ho => hp o (by simp [ho]))
    have hle1 := step_retired_le crc w g op
    have hle2 := runG_retired_le crc ops (stepOp crc w op).1 (stepGhost crc w g op)
    have h3 := prefix_drop _ _ ((runG crc (stepOp crc w op).1 (stepGhost crc w g op) ops).2.retired
      - (stepGhost crc w g op).retired) h1
    rw [List.drop_drop] at h3
    have heq : (runG crc (stepOp crc w op).1 (stepGhost crc w g op) ops).2.retired - g.retired
        = (stepGhost crc w g op).retired - g.retired
          + ((runG crc (stepOp crc w op).1 (stepGhost crc w g op) ops).2.retired - (stepGhost crc w g op).retired) := by
      omega
    rw [heq]
    exact h3.trans h2

theorem runG_log_sub (crc : Bytes → UInt32) : ∀ (ops : List Op) (w : Sys) (g : Ghost),
    Inv crc w g → (∀ op ∈ ops, op.plain) →
    ∀ x ∈ (runG crc w g ops).2.log, x ∈ g.log ∨ Op.write x ∈ ops := by
  intro ops
  induction ops with
  | nil => intro w g _ _ x hx; exact .inl hx
  | cons op ops ih =>
    intro w g h hp x hx
    simp only [runG] at hx
    rcases ih _ _ (step_inv crc w g op h (hp op (by simp))) (fun o ho => hp o (by simp [ho])) x hx with h1 | h1
    · rcases step_log_sub crc w g op h x h1 with h2 | h2
      · exact .inl h2
      · exact .inr (by simp [h2])
    · exact .inr (by simp [h1])

theorem runG_writes (crc : Bytes → UInt32) : ∀ (ps : List Bytes) (w : Sys) (g : Ghost),
    (runG crc w g (ps.map Op.write)).2 = { g with log := g.log ++ ps } := by
  intro ps
  induction ps with
  | nil => intro w g; simp [runG]
  | cons p ps ih => intro w g; simp [runG, ih, stepGhost]


/-! ### housekeeping -/

theorem cfg_hkBase (w : Writer) : (hkBase w).cfg = w.cfg := by
  unfold hkBase; split
  · rfl
  · split <;> rfl

theorem housekeep_keeps_tail (w : Writer) (hcfg : w.cfg.fileLimit ≤ w.cfg.totalLimit)
    (hu : w.tailUnlinked = false) : w.housekeep.tailUnlinked = false := by
  have hspec := retireLoop_spec w.cfg.totalLimit (hkBase w).older (w.files.map List.length).sum
  have hkey : ¬ ((retireLoop w.cfg.totalLimit (w.files.map List.length).sum (hkBase w).older).1 = (hkBase w).older.length
      ∧ (retireLoop w.cfg.totalLimit (w.files.map List.length).sum (hkBase w).older).2 > w.cfg.totalLimit) := by
    rintro ⟨_, h2⟩
    rcases hspec.2 with h | ⟨_, h3⟩
    · omega
    · rw [h3] at h2
      unfold hkBase at h2
      simp only [Writer.files, List.map_append, List.sum_append, List.map_cons, List.map_nil,
        List.sum_cons, List.sum_nil] at h2
      split at h2
      · simp [Writer.shift, Writer.sync] at h2
      · rename_i hle
        split at h2 <;> simp [Writer.sync] at h2 <;> omega
  have hb : (hkBase w).tailUnlinked = false := by
    unfold hkBase; split
    · simpa [Writer.shift, Writer.sync] using hu
    · split
      · simpa [Writer.sync] using hu
      · exact hu
  have : w.housekeep = { hkBase w with
      head := (hkBase w).head + (retireLoop w.cfg.totalLimit (w.files.map List.length).sum (hkBase w).older).1,
      older := (hkBase w).older.drop (retireLoop w.cfg.totalLimit (w.files.map List.length).sum (hkBase w).older).1 } := by
    unfold Writer.housekeep
    simp only
    rw [if_neg]
    · rfl
    · exact hkey
  rw [this]
  exact hb


theorem housekeep_cfg (w : Writer) : w.housekeep.cfg = w.cfg := by
  unfold Writer.housekeep
  simp only
  repeat' split
  all_goals simp [Writer.shift, Writer.sync]

theorem openWriter_flags (cfg : Cfg) (d : Disk) :
    (openWriter cfg d).cfg = cfg ∧ (openWriter cfg d).tailUnlinked = false := by
  unfold openWriter; split <;> exact ⟨rfl, rfl⟩

theorem recoverReopen_flags (crc : Bytes → UInt32) (cfg : Cfg) (d : Disk) :
    (recoverReopen crc cfg d).1.cfg = cfg ∧ (recoverReopen crc cfg d).1.tailUnlinked = false := by
  unfold recoverReopen; split <;> exact openWriter_flags _ _

theorem recoverReopen_buf (crc : Bytes → UInt32) (cfg : Cfg) (d : Disk) :
    (recoverReopen crc cfg d).1.buf = [] := by
  unfold recoverReopen openWriter
  split <;> (simp only; split <;> rfl)

theorem crashOp_buf (crc : Bytes → UInt32) (w : Writer) (op : Op) (hop : op.isCrash) :
    (stepOp crc w op).1.buf = [] := by
  cases op <;> first | exact recoverReopen_buf _ _ _ | exact absurd hop (by simp [Op.isCrash])

theorem stepGhost_crash (crc : Bytes → UInt32) (w : Writer) (g : Ghost) (op : Op) (hop : op.isCrash) :
    stepGhost crc w g op
      = { g with log := (stepOp crc w op).2, nsynced := (stepOp crc w op).2.length } := by
  cases op <;> first | rfl | exact absurd hop (by simp [Op.isCrash])

theorem isCrash_plain (op : Op) (hop : op.isCrash) : op.plain := by
  cases op <;> simp_all [Op.plain, Op.isCrash]

theorem step_flags (crc : Bytes → UInt32) (cfg : Cfg) (w : Writer) (op : Op)
    (hcfg : cfg.fileLimit ≤ cfg.totalLimit) (h : w.cfg = cfg ∧ w.tailUnlinked = false) :
    (stepOp crc w op).1.cfg = cfg ∧ (stepOp crc w op).1.tailUnlinked = false := by
  cases op with
  | write p => simpa [stepOp, Writer.write] using h
  | sync => simpa [stepOp, Writer.sync] using h
  | shift => simpa [stepOp, Writer.shift, Writer.sync] using h
  | housekeep =>
    refine ⟨by simp only [stepOp]; rw [housekeep_cfg]; exact h.1, ?_⟩
    exact housekeep_keeps_tail w (by rw [h.1]; exact hcfg) h.2
  | crashRecover k => simp only [stepOp]; rw [h.1]; exact recoverReopen_flags _ _ _
  | crashAt p js => simp only [stepOp]; rw [h.1]; exact recoverReopen_flags _ _ _
  | restart => simp only [stepOp]; rw [h.1]; exact recoverReopen_flags _ _ _

theorem run_flags (crc : Bytes → UInt32) (cfg : Cfg) (hcfg : cfg.fileLimit ≤ cfg.totalLimit) :
    ∀ (ops : List Op) (w : Writer), (w.cfg = cfg ∧ w.tailUnlinked = false) →
    (run crc w ops).cfg = cfg ∧ (run crc w ops).tailUnlinked = false := by
  intro ops
  induction ops with
  | nil => intro w h; exact h
  | cons op ops ih => intro w h; exact ih _ (step_flags crc cfg w op hcfg h)

end Goloop.C03.Proofs
