/-
  Proofs/C35Input: the facts `TermWF` assumes about the state after `processEvents`, derived from
  the model's own event processing and a decidable well-formedness predicate on the RAW input.
-/
import Goloop.Proofs.C35
set_option linter.unusedSimpArgs false
set_option linter.unusedVariables false
namespace Goloop.C35.Proofs
open Goloop.C35

/-! ### `p.preps[key]` as an association list: getPRep / setPRep -/

theorem getPRep_setPRep (ps : List PRep) (q : PRep) (k : Nat) :
    getPRep (setPRep ps q) k = if q.owner = k then some q else getPRep ps k := by
  induction ps with
  | nil =>
    by_cases h : q.owner = k <;> simp [setPRep, getPRep, List.find?_cons, h]
  | cons p ps ih =>
    simp only [setPRep]
    by_cases hpq : p.owner = q.owner
    · simp only [hpq, beq_self_eq_true, if_true]
      by_cases h : q.owner = k
      · simp [getPRep, List.find?_cons, h]
      · have h' : ¬ p.owner = k := by rw [hpq]; exact h
        simp [getPRep, List.find?_cons, h, h']
    · have hb : (p.owner == q.owner) = false := by simpa using hpq
      simp only [hb, Bool.false_eq_true, if_false]
      by_cases hp : p.owner = k
      · have hq : ¬ q.owner = k := by intro h; exact hpq (by rw [hp, h])
        simp [getPRep, List.find?_cons, hp, hq]
      · have : getPRep (p :: setPRep ps q) k = getPRep (setPRep ps q) k := by
          simp [getPRep, List.find?_cons, hp]
        rw [this, ih]
        have : getPRep (p :: ps) k = getPRep ps k := by simp [getPRep, List.find?_cons, hp]
        rw [this]

theorem getPRep_owner {ps : List PRep} {k : Nat} {p : PRep} (h : getPRep ps k = some p) : p.owner = k := by
  have := List.find?_some h
  simpa using this

theorem getPRep_mem {ps : List PRep} {k : Nat} {p : PRep} (h : getPRep ps k = some p) : p ∈ ps :=
  List.mem_of_find?_eq_some h

theorem getPRep_none {ps : List PRep} {k : Nat} : getPRep ps k = none ↔ k ∉ ps.map (·.owner) := by
  simp only [getPRep, List.find?_eq_none, List.mem_map, not_exists, not_and]
  constructor
  · intro h p hp he; exact h p hp (by simp [he])
  · intro h p hp he; exact h p hp (by simpa using he)

theorem getPRep_of_mem_nodup : ∀ (ps : List PRep), (ps.map (·.owner)).Nodup → ∀ p ∈ ps, getPRep ps p.owner = some p := by
  intro ps
  induction ps with
  | nil => intro _ p hp; cases hp
  | cons a ps ih =>
    intro hnd p hp
    simp only [List.map_cons, List.nodup_cons, List.mem_map, not_exists, not_and] at hnd
    rcases List.mem_cons.mp hp with rfl | hm
    · simp [getPRep, List.find?_cons]
    · have hne : ¬ a.owner = p.owner := fun h => hnd.1 p hm h.symm
      have : getPRep (a :: ps) p.owner = getPRep ps p.owner := by simp [getPRep, List.find?_cons, hne]
      rw [this]; exact ih hnd.2 p hm

theorem owners_setPRep (ps : List PRep) (q : PRep) :
    (setPRep ps q).map (·.owner) =
      if q.owner ∈ ps.map (·.owner) then ps.map (·.owner) else ps.map (·.owner) ++ [q.owner] := by
  induction ps with
  | nil => simp [setPRep]
  | cons p ps ih =>
    simp only [setPRep]
    by_cases hpq : p.owner = q.owner
    · simp [hpq]
    · have hb : (p.owner == q.owner) = false := by simpa using hpq
      have hne : ¬ q.owner = p.owner := fun h => hpq h.symm
      simp only [hb, Bool.false_eq_true, if_false, List.map_cons, ih, List.mem_cons, hne, false_or]
      split <;> simp

theorem nodup_setPRep (ps : List PRep) (q : PRep) (h : (ps.map (·.owner)).Nodup) :
    ((setPRep ps q).map (·.owner)).Nodup := by
  rw [owners_setPRep]
  split
  · exact h
  · rename_i hn
    rw [List.nodup_append]
    refine ⟨h, by simp, ?_⟩
    intro a ha b hb
    simp at hb; subst hb
    intro e; subst e; exact hn ha

theorem mem_setPRep {ps : List PRep} {q x : PRep} (h : x ∈ setPRep ps q) : x = q ∨ x ∈ ps := by
  induction ps with
  | nil => simp [setPRep] at h; exact Or.inl h
  | cons p ps ih =>
    simp only [setPRep] at h
    split at h
    · rcases List.mem_cons.mp h with h | h
      · exact Or.inl h
      · exact Or.inr (List.mem_cons_of_mem _ h)
    · rcases List.mem_cons.mp h with h | h
      · exact Or.inr (by simp [h])
      · rcases ih h with h | h
        · exact Or.inl h
        · exact Or.inr (List.mem_cons_of_mem _ h)

theorem setPRep_append_of_not_mem (ps : List PRep) (q : PRep) (h : q.owner ∉ ps.map (·.owner)) :
    setPRep ps q = ps ++ [q] := by
  induction ps with
  | nil => rfl
  | cons p ps ih =>
    simp only [List.map_cons, List.mem_cons, not_or] at h
    have hb : (p.owner == q.owner) = false := by
      have : ¬ p.owner = q.owner := fun e => h.1 e.symm
      simpa using this
    simp only [setPRep, hb, Bool.false_eq_true, if_false, List.cons_append, ih h.2]

end Goloop.C35.Proofs

namespace Goloop.C35.Proofs
open Goloop.C35

/-! ### one P-Rep's entry along the events (P-Rep side bookkeeping) -/

/-- the entry `PRepInfo.ApplyVote` creates for an unknown target -/
def zeroPRep (br : Int) (k : Nat) : PRep := newPRep br k esDisablePermanent 0 0 0 false

/-- the entry of `k`, or the entry that would be created for it -/
def entryOf (pi : PRepInfo) (k : Nat) : PRep := (getPRep pi.preps k).getD (zeroPRep pi.br k)

def setSt (s : Nat) (p : PRep) : PRep := { p with status := s }

theorem calcPower_zero (br : Int) : calcPower br 0 0 = 0 := by
  unfold calcPower; split <;> simp

theorem applyVote_setSt (s : Nat) (p : PRep) (b : Bool) (a per br : Int) :
    (setSt s p).applyVote b a per br = setSt s (p.applyVote b a per br) := by
  cases b <;> simp only [PRep.applyVote, setSt, PRep.votedValue, Bool.false_eq_true, if_true, if_false] <;>
    (split <;> rfl)

theorem applyVote_static (p : PRep) (b : Bool) (a per br : Int) :
    let q := p.applyVote b a per br
    q.owner = p.owner ∧ q.status = p.status ∧ q.rank = p.rank ∧ q.ranked = p.ranked ∧ q.rate = p.rate ∧
    q.pubkey = p.pubkey ∧ q.commission = p.commission ∧ q.voterReward = p.voterReward ∧ q.wage = p.wage := by
  cases b <;> simp only [PRep.applyVote, Bool.false_eq_true, if_true, if_false] <;>
    (split <;> exact ⟨rfl, rfl, rfl, rfl, rfl, rfl, rfl, rfl, rfl⟩)

theorem applyVote_votes (p : PRep) (b : Bool) (a per br : Int) :
    let q := p.applyVote b a per br
    q.delegated = (if b then p.delegated else p.delegated + a) ∧
    q.bonded = (if b then p.bonded + a else p.bonded) ∧ q.votedValue = p.votedValue + a := by
  cases b <;> simp only [PRep.applyVote, PRep.votedValue, Bool.false_eq_true, if_true, if_false] <;>
    (split <;> refine ⟨rfl, rfl, ?_⟩ <;> simp only [] <;> omega)

theorem runVotes_setSt (L br : Int) (s : Nat) : ∀ (evs : List (Bool × Int × Int)) (p : PRep),
    runVotes L br (setSt s p) evs = setSt s (runVotes L br p evs) := by
  intro evs
  induction evs with
  | nil => intro p; rfl
  | cons e rest ih =>
    intro p
    obtain ⟨b, a, o⟩ := e
    simp only [runVotes, applyVote_setSt, ih]

theorem runVotes_append (L br : Int) : ∀ (e1 e2 : List (Bool × Int × Int)) (p : PRep),
    runVotes L br p (e1 ++ e2) = runVotes L br (runVotes L br p e1) e2 := by
  intro e1
  induction e1 with
  | nil => intro e2 p; rfl
  | cons e rest ih =>
    intro e2 p
    obtain ⟨b, a, o⟩ := e
    simp only [List.cons_append, runVotes, ih]

theorem br_of_cfg {pi pi' : PRepInfo} (h : cfg pi' = cfg pi) :
    pi'.br = pi.br ∧ pi'.offsetLimit = pi.offsetLimit ∧ pi'.elected = pi.elected := by
  simp only [cfg, Prod.mk.injEq] at h
  exact ⟨h.2.2, h.2.1, h.1⟩

theorem getPRep_add (pi : PRepInfo) (k' st : Nat) (k : Nat) :
    getPRep (pi.add k' st 0 0 0 false).preps k =
      if k' = k then some (setSt st (zeroPRep pi.br k')) else getPRep pi.preps k := by
  simp only [PRepInfo.add, getPRep_setPRep]
  rfl

/-- `PRepInfo.ApplyVote` for one vote, seen from key `k` -/
theorem getPRep_applyVote1 (pi : PRepInfo) (b : Bool) (o : Int) (v : Nat × Int) (k : Nat) :
    getPRep (pi.applyVote1 b o v).preps k =
      if v.1 = k then some ((entryOf pi v.1).applyVote b v.2 ((pi.offsetLimit : Int) - o) pi.br)
      else getPRep pi.preps k := by
  unfold PRepInfo.applyVote1
  cases hg : getPRep pi.preps v.1 with
  | some p =>
    simp only [hg, getPRep_setPRep]
    have hown : (p.applyVote b v.2 ((pi.offsetLimit : Int) - o) pi.br).owner = v.1 :=
      (applyVote_static p b _ _ _).1.trans (getPRep_owner hg)
    simp only [hown, entryOf, hg, Option.getD_some]
  | none =>
    have h1 : getPRep (pi.add v.1 esDisablePermanent 0 0 0 false).preps v.1 =
        some (zeroPRep pi.br v.1) := by
      rw [getPRep_add]; simp [setSt, zeroPRep, newPRep]
    simp only [h1, getPRep_setPRep]
    have hown : ((zeroPRep pi.br v.1).applyVote b v.2 ((pi.offsetLimit : Int) - o) pi.br).owner = v.1 :=
      (applyVote_static _ b _ _ _).1
    simp only [hown, entryOf, hg, Option.getD_none]
    by_cases hk : v.1 = k
    · simp only [hk, if_true]
    · simp only [hk, if_false, getPRep_add]

theorem entryOf_applyVote1 (pi : PRepInfo) (b : Bool) (o : Int) (v : Nat × Int) (k : Nat) :
    entryOf (pi.applyVote1 b o v) k =
      if v.1 = k then (entryOf pi k).applyVote b v.2 ((pi.offsetLimit : Int) - o) pi.br else entryOf pi k := by
  have hc := br_of_cfg (cfg_applyVote1 pi b o v)
  unfold entryOf
  rw [getPRep_applyVote1, hc.1]
  by_cases hk : v.1 = k
  · subst hk; simp [entryOf]
  · simp [hk]

/-- the votes of one event that go to `k`, as `(isBond, amount, offset)` -/
def votesOfEvent (k : Nat) (b : Bool) (o : Int) (vs : Votes) : List (Bool × Int × Int) :=
  (vs.filter (fun v => v.1 == k)).map (fun v => (b, v.2, o))

theorem entryOf_applyVote (b : Bool) (o : Int) (k : Nat) : ∀ (vs : Votes) (pi : PRepInfo),
    entryOf (pi.applyVote b vs o) k =
      runVotes (pi.offsetLimit : Int) pi.br (entryOf pi k) (votesOfEvent k b o vs) := by
  intro vs
  induction vs with
  | nil => intro pi; rfl
  | cons v rest ih =>
    intro pi
    have hc := br_of_cfg (cfg_applyVote1 pi b o v)
    show entryOf ((pi.applyVote1 b o v).applyVote b rest o) k = _
    rw [ih, entryOf_applyVote1, hc.1, hc.2.1]
    by_cases hk : v.1 = k
    · have hb : (v.1 == k) = true := by simpa using hk
      rw [if_pos hk]
      simp only [votesOfEvent, List.filter_cons, hb, if_true, List.map_cons, runVotes]
    · have hb : (v.1 == k) = false := by simpa using hk
      rw [if_neg hk]
      simp only [votesOfEvent, List.filter_cons, hb, Bool.false_eq_true, if_false]

theorem getPRep_setStatus (pi : PRepInfo) (t s k : Nat) :
    getPRep (pi.setStatus t s).preps k =
      if t = k then some (setSt s (entryOf pi t)) else getPRep pi.preps k := by
  unfold PRepInfo.setStatus
  cases hg : getPRep pi.preps t with
  | some p =>
    simp only [getPRep_setPRep, entryOf, hg, Option.getD_some]
    have ho : p.owner = t := getPRep_owner hg
    subst ho; rfl
  | none =>
    simp only [getPRep_add, entryOf, hg, Option.getD_none]

theorem entryOf_setStatus (pi : PRepInfo) (t s k : Nat) :
    entryOf (pi.setStatus t s) k = if t = k then setSt s (entryOf pi k) else entryOf pi k := by
  have hc := br_of_cfg (cfg_setStatus pi t s)
  unfold entryOf
  rw [getPRep_setStatus, hc.1]
  by_cases hk : t = k
  · subst hk; simp [entryOf]
  · simp [hk]

/-- all votes for `k` in the event list, in order, as `(isBond, amount, offset)` -/
def voteEvents (k : Nat) : List Event → List (Bool × Int × Int)
  | [] => []
  | .enable _ _ _ :: rest => voteEvents k rest
  | .vote b o _ vs :: rest => votesOfEvent k b (o : Int) vs ++ voteEvents k rest

/-- **P-Rep side bookkeeping**: after all events the entry of `k` is, up to its status, the entry
    it had before with `PRep.ApplyVote` applied for every vote to `k`, in order. -/
theorem entryOf_events (k : Nat) : ∀ (evs : List Event) (pi : PRepInfo),
    ∃ s, entryOf (evs.foldl applyEvent pi) k =
      setSt s (runVotes (pi.offsetLimit : Int) pi.br (entryOf pi k) (voteEvents k evs)) := by
  intro evs
  induction evs with
  | nil => intro pi; exact ⟨(entryOf pi k).status, rfl⟩
  | cons e rest ih =>
    intro pi
    have hc := br_of_cfg (cfg_applyEvent pi e)
    obtain ⟨s, hs⟩ := ih (applyEvent pi e)
    rw [hc.1, hc.2.1] at hs
    simp only [List.foldl_cons]
    cases e with
    | enable o t st =>
      simp only [applyEvent, voteEvents] at hs ⊢
      rw [hs, entryOf_setStatus]
      by_cases hk : t = k
      · simp only [hk, if_true, runVotes_setSt]
        exact ⟨s, rfl⟩
      · simp only [hk, if_false]; exact ⟨s, rfl⟩
    | vote b o f vs =>
      simp only [applyEvent, voteEvents] at hs ⊢
      rw [hs, entryOf_applyVote, runVotes_append]
      exact ⟨s, rfl⟩

end Goloop.C35.Proofs

namespace Goloop.C35.Proofs
open Goloop.C35

/-! ### non-negativity along the votes of one P-Rep, from conditions on the raw vote list -/

/-- the running Voted totals of one P-Rep never go negative: `bonded ≥ 0` and
    `delegated + bonded ≥ 0` initially and after every vote `(isBond, amount, offset)` -/
def totalsOk : Int → Int → List (Bool × Int × Int) → Bool
  | d, b, [] => decide (0 ≤ b) && decide (0 ≤ d + b)
  | d, b, (isB, a, _) :: rest =>
    decide (0 ≤ b) && decide (0 ≤ d + b) && (if isB then totalsOk d (b + a) rest else totalsOk (d + a) b rest)

/-- offsets non-decreasing from `o` on and at most `L` -/
def offsetsOk (L : Int) : Int → List (Bool × Int × Int) → Bool
  | _, [] => true
  | o, (_, _, o') :: rest => decide (o ≤ o') && decide (o' ≤ L) && offsetsOk L o' rest

theorem totalsOk_head (d b : Int) (evs : List (Bool × Int × Int)) (h : totalsOk d b evs = true) :
    0 ≤ b ∧ 0 ≤ d + b := by
  cases evs with
  | nil => simpa [totalsOk] using h
  | cons e rest =>
    obtain ⟨isB, a, o⟩ := e
    simp only [totalsOk, Bool.and_eq_true, decide_eq_true_eq] at h
    exact h.1

theorem calcPower_bounds (br b v : Int) (hbr : 0 ≤ br) (hb : 0 ≤ b) (hv : 0 ≤ v) :
    0 ≤ calcPower br b v ∧ calcPower br b v ≤ v := by
  unfold calcPower
  split
  · omega
  · have : 0 ≤ b * denom / br := Int.ediv_nonneg (Int.mul_nonneg hb (by simp [denom])) hbr
    omega

theorem applyVote_inSync (p : PRep) (b : Bool) (a per br : Int) :
    let q := p.applyVote b a per br
    q.power = calcPower br q.bonded q.votedValue := by
  intro q
  have h1 := applyVote_power p b a per br
  have h2 := applyVote_votes p b a per br
  show (p.applyVote b a per br).power = calcPower br (p.applyVote b a per br).bonded (p.applyVote b a per br).votedValue
  rw [h1, h2.2.1, h2.2.2]

theorem accSlack_step (p : PRep) (b : Bool) (a br L o o' : Int)
    (hw : p.power ≤ p.votedValue) (ho : o ≤ o')
    (hinv : (p.votedValue - p.power) * (L - o) ≤ p.accVoted - p.accPower) :
    ((p.applyVote b a (L - o') br).votedValue - (p.applyVote b a (L - o') br).power) * (L - o') ≤
      (p.applyVote b a (L - o') br).accVoted - (p.applyVote b a (L - o') br).accPower := by
  rw [applyVote_accVoted, applyVote_accPower, (applyVote_votes p b a (L - o') br).2.2]
  generalize (p.applyVote b a (L - o') br).power = pw'
  have hm : (p.votedValue - p.power) * (L - o') ≤ (p.votedValue - p.power) * (L - o) :=
    Int.mul_le_mul_of_nonneg_left (by omega) (by omega)
  have e : (p.votedValue + a - pw') * (L - o') =
      (p.votedValue - p.power) * (L - o') + a * (L - o') - (pw' - p.power) * (L - o') := by
    rw [← Int.add_mul, ← Int.sub_mul]; congr 1; omega
  rw [e]; omega

/-- starting invariant of an entry at offset `o`: power in sync with the totals,
    `power·(L−o) ≤ accumulatedPower`, `(voted−power)·(L−o) ≤ accumulatedVoted − accumulatedPower` -/
def InitOk (L br o : Int) (p : PRep) : Prop :=
  p.power = calcPower br p.bonded p.votedValue ∧ p.power * (L - o) ≤ p.accPower ∧
  (p.votedValue - p.power) * (L - o) ≤ p.accVoted - p.accPower

theorem runVotes_facts (L br : Int) (hbr : 0 ≤ br) : ∀ (evs : List (Bool × Int × Int)) (p : PRep) (o : Int),
    o ≤ L → offsetsOk L o evs = true → totalsOk p.delegated p.bonded evs = true → InitOk L br o p →
    0 ≤ (runVotes L br p evs).accPower ∧ (runVotes L br p evs).accPower ≤ (runVotes L br p evs).accVoted := by
  intro evs
  induction evs with
  | nil =>
    intro p o hoL _ ht ⟨hs, h1, h2⟩
    have ⟨tb, tv⟩ := totalsOk_head _ _ _ ht
    have ⟨c1, c2⟩ := calcPower_bounds br p.bonded p.votedValue hbr tb tv
    rw [← hs] at c1 c2
    have n1 : 0 ≤ p.power * (L - o) := Int.mul_nonneg c1 (by omega)
    have n2 : 0 ≤ (p.votedValue - p.power) * (L - o) := Int.mul_nonneg (by omega) (by omega)
    simp only [runVotes]
    constructor <;> omega
  | cons e rest ih =>
    intro p o hoL hof ht ⟨hs, h1, h2⟩
    obtain ⟨b, a, o'⟩ := e
    have ⟨tb, tv⟩ := totalsOk_head _ _ _ ht
    have ⟨c1, c2⟩ := calcPower_bounds br p.bonded p.votedValue hbr tb tv
    rw [← hs] at c1 c2
    simp only [offsetsOk, Bool.and_eq_true, decide_eq_true_eq] at hof
    obtain ⟨⟨ho1, ho2⟩, ho3⟩ := hof
    simp only [totalsOk, Bool.and_eq_true, decide_eq_true_eq] at ht
    have hv := applyVote_votes p b a (L - o') br
    have ht' : totalsOk (p.applyVote b a (L - o') br).delegated (p.applyVote b a (L - o') br).bonded rest = true := by
      rw [hv.1, hv.2.1]
      cases b <;> simpa using ht.2
    simp only [runVotes]
    exact ih _ o' ho2 ho3 ht'
      ⟨applyVote_inSync p b a (L - o') br, accPower_step p b a br L o o' c1 ho1 h1,
       accSlack_step p b a br L o o' c2 ho1 h2⟩

theorem runVotes_accVoted (L br : Int) : ∀ (evs : List (Bool × Int × Int)) (p : PRep),
    (runVotes L br p evs).accVoted = p.accVoted + sumInt (evs.map (fun e => e.2.1 * (L - e.2.2))) := by
  intro evs
  induction evs with
  | nil => intro p; simp [runVotes, sumInt]
  | cons e rest ih =>
    intro p
    obtain ⟨b, a, o⟩ := e
    simp only [runVotes, List.map_cons, sumInt_cons, ih, applyVote_accVoted]
    omega

theorem runVotes_static (L br : Int) : ∀ (evs : List (Bool × Int × Int)) (p : PRep),
    let q := runVotes L br p evs
    q.owner = p.owner ∧ q.status = p.status ∧ q.rank = p.rank ∧ q.ranked = p.ranked ∧ q.rate = p.rate ∧
    q.pubkey = p.pubkey ∧ q.commission = p.commission ∧ q.voterReward = p.voterReward ∧ q.wage = p.wage := by
  intro evs
  induction evs with
  | nil => intro p; exact ⟨rfl, rfl, rfl, rfl, rfl, rfl, rfl, rfl, rfl⟩
  | cons e rest ih =>
    intro p
    obtain ⟨b, a, o⟩ := e
    have h1 := ih (p.applyVote b a (L - o) br)
    have h2 := applyVote_static p b a (L - o) br
    simp only [runVotes] at h1 ⊢
    simp only [] at h1 h2
    obtain ⟨a1, a2, a3, a4, a5, a6, a7, a8, a9⟩ := h1
    obtain ⟨b1, b2, b3, b4, b5, b6, b7, b8, b9⟩ := h2
    exact ⟨a1.trans b1, a2.trans b2, a3.trans b3, a4.trans b4, a5.trans b5, a6.trans b6, a7.trans b7,
      a8.trans b8, a9.trans b9⟩

/-! offsets of the event list -/

/-- the vote events' offsets are non-decreasing (from `o` on) and at most `L` -/
def eventOffsetsOk (L : Nat) : Nat → List Event → Bool
  | _, [] => true
  | o, .enable _ _ _ :: rest => eventOffsetsOk L o rest
  | o, .vote _ o' _ _ :: rest => decide (o ≤ o') && decide (o' ≤ L) && eventOffsetsOk L o' rest

theorem offsetsOk_mono (L : Int) (evs : List (Bool × Int × Int)) (o o' : Int) (h : o ≤ o')
    (hv : offsetsOk L o' evs = true) : offsetsOk L o evs = true := by
  cases evs with
  | nil => rfl
  | cons e rest =>
    obtain ⟨b, a, o2⟩ := e
    simp only [offsetsOk, Bool.and_eq_true, decide_eq_true_eq] at hv ⊢
    exact ⟨⟨by omega, hv.1.2⟩, hv.2⟩

theorem offsetsOk_const_append (L o' : Int) (b : Bool) (hle : o' ≤ L) (rest : List (Bool × Int × Int))
    (hr : offsetsOk L o' rest = true) : ∀ (vs : Votes) (o : Int), o ≤ o' →
    offsetsOk L o (vs.map (fun v => (b, v.2, o')) ++ rest) = true := by
  intro vs
  induction vs with
  | nil => intro o ho; exact offsetsOk_mono L rest o o' ho hr
  | cons v vs ih =>
    intro o ho
    simp only [List.map_cons, List.cons_append, offsetsOk, Bool.and_eq_true, decide_eq_true_eq]
    exact ⟨⟨ho, hle⟩, ih o' (Int.le_refl _)⟩

theorem voteEvents_offsetsOk (k L : Nat) : ∀ (evs : List Event) (o : Nat), eventOffsetsOk L o evs = true →
    offsetsOk (L : Int) (o : Int) (voteEvents k evs) = true := by
  intro evs
  induction evs with
  | nil => intro o _; rfl
  | cons e rest ih =>
    intro o h
    cases e with
    | enable o1 t s => exact ih o h
    | vote b o' f vs =>
      simp only [eventOffsetsOk, Bool.and_eq_true, decide_eq_true_eq] at h
      simp only [voteEvents, votesOfEvent]
      exact offsetsOk_const_append (L : Int) (o' : Int) b (by omega) _ (ih o' h.2) _ (o : Int) (by omega)

end Goloop.C35.Proofs

namespace Goloop.C35.Proofs
open Goloop.C35

/-! ### summation over the voter set: every vote event is counted exactly once -/

theorem votesTo_flatten (k : Nat) : ∀ (ls : List Votes), votesTo k ls.flatten = sumInt (ls.map (votesTo k)) := by
  intro ls
  induction ls with
  | nil => rfl
  | cons l ls ih => simp only [List.flatten_cons, votesTo_append, List.map_cons, sumInt_cons, ih]

theorem sumInt_map_mul_const {α} (l : List α) (f : α → Int) (c : Int) :
    sumInt (l.map (fun x => f x * c)) = sumInt (l.map f) * c := by
  induction l with
  | nil => simp [sumInt]
  | cons a l ih => simp only [List.map_cons, sumInt_cons, ih, Int.add_mul]

theorem sumInt_ite_not_mem (V : List Nat) (f : Nat) (c : Int) (hf : f ∉ V) :
    sumInt (V.map (fun v => if f == v then c else 0)) = 0 := by
  induction V with
  | nil => rfl
  | cons a V ih =>
    simp only [List.mem_cons, not_or] at hf
    have : (f == a) = false := by simpa using hf.1
    simp only [List.map_cons, sumInt_cons, this, Bool.false_eq_true, if_false, ih hf.2]; omega

theorem sumInt_ite_mem_nodup (V : List Nat) (f : Nat) (c : Int) (hnd : V.Nodup) (hf : f ∈ V) :
    sumInt (V.map (fun v => if f == v then c else 0)) = c := by
  induction V with
  | nil => cases hf
  | cons a V ih =>
    simp only [List.nodup_cons] at hnd
    simp only [List.map_cons, sumInt_cons]
    by_cases h : f = a
    · subst h
      simp only [beq_self_eq_true, if_true, sumInt_ite_not_mem V f c hnd.1]; omega
    · have hb : (f == a) = false := by simpa using h
      have hm : f ∈ V := by
        rcases List.mem_cons.mp hf with h' | h'
        · exact absurd h' h
        · exact h'
      simp only [hb, Bool.false_eq_true, if_false, ih hnd.2 hm]; omega

theorem evSum_cons (k : Nat) (L : Int) (e : Bool × Nat × Votes) (rest : List (Bool × Nat × Votes)) :
    evSum k L (e :: rest) = votesTo k e.2.2 * (L - (e.2.1 : Int)) + evSum k L rest := rfl

theorem sum_votesOfEvent (k : Nat) (b : Bool) (o L : Int) (vs : Votes) :
    sumInt ((votesOfEvent k b o vs).map (fun e => e.2.1 * (L - e.2.2))) = votesTo k vs * (L - o) := by
  simp only [votesOfEvent, List.map_map, votesTo, votesFor]
  rw [← sumInt_map_mul_const]
  rfl

/-- Σ over a duplicate-free voter list containing every sender of (votes to `k`)·(L − offset) of
    the voter's own events = Σ over all votes to `k` in the event list -/
theorem sum_evSum_eq (k : Nat) (L : Int) (V : List Nat) (hnd : V.Nodup) : ∀ (evs : List Event),
    (∀ b o f vs, Event.vote b o f vs ∈ evs → f ∈ V) →
    sumInt (V.map (fun v => evSum k L (eventsOf evs v))) =
      sumInt ((voteEvents k evs).map (fun e => e.2.1 * (L - e.2.2))) := by
  intro evs
  induction evs with
  | nil =>
    intro _
    have : (fun v => evSum k L (eventsOf [] v)) = fun _ => (0:Int) := by funext v; rfl
    rw [this, sumInt_map_zero]; rfl
  | cons e rest ih =>
    intro hs
    have ih' := ih (fun b o f vs hm => hs b o f vs (List.mem_cons_of_mem _ hm))
    cases e with
    | enable o t s =>
      have : (fun v => evSum k L (eventsOf (Event.enable o t s :: rest) v)) = fun v => evSum k L (eventsOf rest v) := by
        funext v; simp [eventsOf, List.filterMap_cons]
      rw [this, ih']; rfl
    | vote b o f vs =>
      have hf : f ∈ V := hs b o f vs (by simp)
      have : (fun v => evSum k L (eventsOf (Event.vote b o f vs :: rest) v)) =
          fun v => (if f == v then votesTo k vs * (L - (o : Int)) else 0) + evSum k L (eventsOf rest v) := by
        funext v
        by_cases h : (f == v) = true
        · simp only [eventsOf, List.filterMap_cons, h, if_true, evSum_cons]
        · have h' : (f == v) = false := by simpa using h
          simp only [eventsOf, List.filterMap_cons, h', Bool.false_eq_true, if_false]; omega
      rw [this, sumInt_map_add, ih', sumInt_ite_mem_nodup V f _ hnd hf]
      simp only [voteEvents, List.map_append, sumInt_append, sum_votesOfEvent]

theorem nodup_eraseDups : ∀ (n : Nat) (l : List Nat), l.length ≤ n → l.eraseDups.Nodup := by
  intro n
  induction n with
  | zero =>
    intro l h
    have : l = [] := List.eq_nil_of_length_eq_zero (by omega)
    subst this; simp
  | succ n ih =>
    intro l h
    cases l with
    | nil => simp
    | cons a as =>
      rw [List.eraseDups_cons, List.nodup_cons]
      constructor
      · intro hm
        rw [List.mem_eraseDups, List.mem_filter] at hm
        simp at hm
      · apply ih
        have := List.length_filter_le (fun b => !b == a) as
        simp only [List.length_cons] at h
        omega

/-- P-Reps' view of the voters: Σ over the voter set of the base delegation+bond to `k` -/
def baseVotes (i : Input) (k : Nat) : Int :=
  sumInt ((voterSet i).map (fun v => votesTo k (lookupVotes i.delegating v) + votesTo k (lookupVotes i.bonding v)))

theorem voterSet_nodup (i : Input) (hd : (i.delegating.map (·.1)).Nodup) (hb : (i.bonding.map (·.1)).Nodup) :
    (voterSet i).Nodup := by
  unfold voterSet
  simp only []
  have h1 : ((i.delegating.filter (fun e => !e.2.isEmpty)).map (·.1)).Nodup :=
    List.Nodup.sublist (List.Sublist.map _ List.filter_sublist) hd
  have h2 : ((i.bonding.filter (fun e => !e.2.isEmpty)).map (·.1)).Nodup :=
    List.Nodup.sublist (List.Sublist.map _ List.filter_sublist) hb
  have h3 : (eventSenders i.events).Nodup := nodup_eraseDups _ _ (Nat.le_refl _)
  rw [List.nodup_append, List.nodup_append]
  refine ⟨⟨h1, List.Nodup.sublist List.filter_sublist h2, ?_⟩, List.Nodup.sublist List.filter_sublist h3, ?_⟩
  · intro a ha b hb' e
    subst e
    rw [List.mem_filter] at hb'
    have := hb'.2
    simp only [Bool.not_eq_true', List.contains_eq_mem, decide_eq_false_iff_not] at this
    exact this ha
  · intro a ha b hb' e
    subst e
    rw [List.mem_filter] at hb'
    have := hb'.2
    simp only [Bool.and_eq_true, Bool.not_eq_true', List.contains_eq_mem, decide_eq_false_iff_not] at this
    rcases List.mem_append.mp ha with h | h
    · exact this.1 h
    · simp only [List.contains_eq_mem] at h
      exact this.2 h

theorem sender_mem_voterSet (i : Input) (b : Bool) (o f : Nat) (vs : Votes) (h : Event.vote b o f vs ∈ i.events) :
    f ∈ voterSet i := by
  have hs : f ∈ eventSenders i.events := by
    unfold eventSenders
    rw [List.mem_eraseDups, List.mem_filterMap]
    exact ⟨_, h, rfl⟩
  unfold voterSet
  simp only [List.mem_append, List.mem_filter]
  by_cases h1 : f ∈ (i.delegating.filter (fun e => !e.2.isEmpty)).map (·.1)
  · exact Or.inl (Or.inl h1)
  · by_cases h2 : f ∈ ((i.bonding.filter (fun e => !e.2.isEmpty)).map (·.1)).filter
        (fun k => !((i.delegating.filter (fun e => !e.2.isEmpty)).map (·.1)).contains k)
    · rw [List.mem_filter] at h2
      exact Or.inl (Or.inr h2)
    · refine Or.inr ⟨hs, ?_⟩
      simp only [Bool.and_eq_true, Bool.not_eq_true', List.contains_eq_mem, decide_eq_false_iff_not]
      simp only [List.contains_eq_mem] at h2
      exact ⟨h1, h2⟩

/-- **voter side total**: what all visited voters together hold for `k` -/
theorem votesTo_allVotes (i : Input) (k : Nat) (hd : (i.delegating.map (·.1)).Nodup)
    (hb : (i.bonding.map (·.1)).Nodup) :
    votesTo k (allVotes i) = baseVotes i k * ((i.offsetLimit : Int) + 1) +
      sumInt ((voteEvents k i.events).map (fun e => e.2.1 * ((i.offsetLimit : Int) - e.2.2))) := by
  unfold allVotes
  rw [votesTo_flatten, List.map_map]
  have : (votesTo k ∘ voterAV i) = fun v =>
      (votesTo k (lookupVotes i.delegating v) + votesTo k (lookupVotes i.bonding v)) * ((i.offsetLimit : Int) + 1) +
      evSum k (i.offsetLimit : Int) (eventsOf i.events v) := by
    funext v; exact voterAV_votesTo i v k
  rw [this, sumInt_map_add, sumInt_map_mul_const,
    sum_evSum_eq k _ _ (voterSet_nodup i hd hb) i.events (fun b o f vs h => sender_mem_voterSet i b o f vs h)]
  rfl

end Goloop.C35.Proofs

namespace Goloop.C35.Proofs
open Goloop.C35

/-! ### the loaded PRepInfo (`loadPRepInfo`: Add each Voted record, Sort, InitAccumulated) -/

def mkLoaded (br : Int) (r : PRep) : PRep := newPRep br r.owner r.status r.delegated r.bonded r.rate r.pubkey

def initAcc (e : Nat) (T : Int) (p : PRep) : PRep :=
  if p.inElected e then { p with accVoted := p.votedValue * T, accPower := p.power * T } else p

theorem foldl_add_preps (br : Int) : ∀ (l : List PRep) (pi : PRepInfo), pi.br = br →
    ((pi.preps.map (·.owner)) ++ l.map (·.owner)).Nodup →
    (l.foldl (fun pi p => pi.add p.owner p.status p.delegated p.bonded p.rate p.pubkey) pi).preps =
      pi.preps ++ l.map (mkLoaded br) := by
  intro l
  induction l with
  | nil => intro pi _ _; simp
  | cons r l ih =>
    intro pi hbr hnd
    simp only [List.foldl_cons]
    have hnot : r.owner ∉ pi.preps.map (·.owner) := by
      rw [List.nodup_append] at hnd
      intro hm
      exact hnd.2.2 _ hm _ (by simp) rfl
    have hp : (pi.add r.owner r.status r.delegated r.bonded r.rate r.pubkey).preps = pi.preps ++ [mkLoaded br r] := by
      simp only [PRepInfo.add]
      rw [setPRep_append_of_not_mem _ (newPRep pi.br r.owner r.status r.delegated r.bonded r.rate r.pubkey) hnot, hbr]
      rfl
    rw [ih _ (by simpa [PRepInfo.add] using hbr) (by
      rw [hp]
      simp only [List.map_append, List.map_cons, List.map_nil, List.append_assoc, List.cons_append, List.nil_append]
      exact hnd), hp]
    simp [mkLoaded]

theorem insertSorted_perm (p : PRep) : ∀ (l : List PRep), (insertSorted p l).Perm (p :: l) := by
  intro l
  induction l with
  | nil => exact List.Perm.refl _
  | cons q qs ih =>
    simp only [insertSorted]
    split
    · exact List.Perm.refl _
    · exact (List.Perm.cons q ih).trans (List.Perm.swap p q qs)

theorem sortPReps_perm : ∀ (l : List PRep), (sortPReps l).Perm l := by
  intro l
  induction l with
  | nil => exact List.Perm.refl _
  | cons p ps ih =>
    simp only [sortPReps, List.foldr_cons]
    exact (insertSorted_perm p _).trans (List.Perm.cons p ih)

theorem assignRanks_owners : ∀ (l : List PRep) (s : Nat), (assignRanks s l).map (·.owner) = l.map (·.owner) := by
  intro l
  induction l with
  | nil => intro s; rfl
  | cons p ps ih => intro s; simp only [assignRanks, List.map_cons, ih]

theorem assignRanks_mem : ∀ (l : List PRep) (s : Nat) (q : PRep), q ∈ assignRanks s l →
    ∃ p ∈ l, ∃ r, q = { p with rank := r, ranked := true } := by
  intro l
  induction l with
  | nil => intro s q h; cases h
  | cons p ps ih =>
    intro s q h
    simp only [assignRanks, List.mem_cons] at h
    rcases h with h | h
    · exact ⟨p, by simp, s, h⟩
    · obtain ⟨p', hp', r, hr⟩ := ih _ q h
      exact ⟨p', by simp [hp'], r, hr⟩

theorem assignRanks_count (e : Nat) : ∀ (l : List PRep) (s : Nat),
    ((assignRanks s l).filter (fun p => p.inElected e)).length ≤ e - s := by
  intro l
  induction l with
  | nil => intro s; simp [assignRanks]
  | cons p ps ih =>
    intro s
    simp only [assignRanks, List.filter_cons]
    have := ih (s + 1)
    by_cases h : s < e
    · simp only [PRep.inElected, h, decide_true, Bool.and_self, if_true, List.length_cons]
      simp only [PRep.inElected] at this
      omega
    · simp only [PRep.inElected, h, decide_false, Bool.and_false, Bool.false_eq_true, if_false]
      simp only [PRep.inElected] at this
      omega

theorem initAcc_inElected (e e' : Nat) (T : Int) (p : PRep) : (initAcc e T p).inElected e' = p.inElected e' := by
  unfold initAcc; split <;> rfl

theorem initAcc_owner (e : Nat) (T : Int) (p : PRep) : (initAcc e T p).owner = p.owner := by
  unfold initAcc; split <;> rfl

theorem load_preps (i : Input) (hnd : (i.voteds.map (·.owner)).Nodup) :
    (loadPRepInfo i).preps =
      (assignRanks 0 (sortPReps ((i.voteds.filter (fun p => !votedIsEmpty p)).map (mkLoaded i.br)))).map
        (initAcc i.elected ((i.offsetLimit : Int) + 1)) := by
  have hnd' : ((i.voteds.filter (fun p => !votedIsEmpty p)).map (·.owner)).Nodup :=
    List.Nodup.sublist (List.Sublist.map _ List.filter_sublist) hnd
  have hc := br_of_cfg (cfg_foldl (fun (pi : PRepInfo) (p : PRep) => pi.add p.owner p.status p.delegated p.bonded p.rate p.pubkey)
    (fun pi p => cfg_add pi _ _ _ _ _ _) (i.voteds.filter (fun p => !votedIsEmpty p))
    ({ elected := i.elected, br := i.br, offsetLimit := i.offsetLimit } : PRepInfo))
  have hp := foldl_add_preps i.br (i.voteds.filter (fun p => !votedIsEmpty p))
    ({ elected := i.elected, br := i.br, offsetLimit := i.offsetLimit } : PRepInfo) rfl (by simpa using hnd')
  simp only [loadPRepInfo, PRepInfo.initAccumulated, PRepInfo.sort, PRepInfo.termPeriod, hp, hc.2.1, hc.2.2,
    List.nil_append]
  rfl

theorem load_nodup (i : Input) (hnd : (i.voteds.map (·.owner)).Nodup) :
    ((loadPRepInfo i).preps.map (·.owner)).Nodup := by
  rw [load_preps i hnd, List.map_map]
  have : ((fun (p : PRep) => p.owner) ∘ initAcc i.elected ((i.offsetLimit : Int) + 1)) = fun p => p.owner := by
    funext p; exact initAcc_owner _ _ p
  rw [this, assignRanks_owners]
  have hnd' : ((i.voteds.filter (fun p => !votedIsEmpty p)).map (·.owner)).Nodup :=
    List.Nodup.sublist (List.Sublist.map _ List.filter_sublist) hnd
  have hperm := (sortPReps_perm ((i.voteds.filter (fun p => !votedIsEmpty p)).map (mkLoaded i.br))).map (·.owner)
  rw [hperm.nodup_iff, List.map_map]
  exact hnd'

theorem load_count (i : Input) (hnd : (i.voteds.map (·.owner)).Nodup) :
    ((loadPRepInfo i).preps.filter (fun p => p.inElected i.elected)).length ≤ i.elected := by
  rw [load_preps i hnd, List.filter_map, List.length_map]
  have : ((fun (p : PRep) => p.inElected i.elected) ∘ initAcc i.elected ((i.offsetLimit : Int) + 1)) =
      fun p => p.inElected i.elected := by
    funext p; exact initAcc_inElected _ _ _ p
  rw [this]
  have := assignRanks_count i.elected (sortPReps ((i.voteds.filter (fun p => !votedIsEmpty p)).map (mkLoaded i.br))) 0
  omega

theorem load_mem (i : Input) (hnd : (i.voteds.map (·.owner)).Nodup) (p : PRep) (hp : p ∈ (loadPRepInfo i).preps) :
    ∃ r ∈ i.voteds, votedIsEmpty r = false ∧ ∃ rk,
      p = initAcc i.elected ((i.offsetLimit : Int) + 1) { mkLoaded i.br r with rank := rk, ranked := true } := by
  rw [load_preps i hnd, List.mem_map] at hp
  obtain ⟨p1, hp1, rfl⟩ := hp
  obtain ⟨p2, hp2, rk, rfl⟩ := assignRanks_mem _ _ _ hp1
  rw [(sortPReps_perm _).mem_iff, List.mem_map] at hp2
  obtain ⟨r, hr, rfl⟩ := hp2
  rw [List.mem_filter] at hr
  exact ⟨r, hr.1, by simpa using hr.2, rk, rfl⟩

theorem load_none (i : Input) (hnd : (i.voteds.map (·.owner)).Nodup) (k : Nat)
    (h : getPRep (loadPRepInfo i).preps k = none) : ∀ r ∈ i.voteds, r.owner = k → votedIsEmpty r = true := by
  intro r hr hk
  rw [getPRep_none, load_preps i hnd, List.map_map] at h
  have : ((fun (p : PRep) => p.owner) ∘ initAcc i.elected ((i.offsetLimit : Int) + 1)) = fun p => p.owner := by
    funext p; exact initAcc_owner _ _ p
  rw [this, assignRanks_owners] at h
  have hperm := (sortPReps_perm ((i.voteds.filter (fun p => !votedIsEmpty p)).map (mkLoaded i.br))).map (·.owner)
  rw [hperm.mem_iff, List.map_map] at h
  cases he : votedIsEmpty r with
  | true => rfl
  | false =>
    exfalso; apply h
    rw [List.mem_map]
    exact ⟨r, List.mem_filter.mpr ⟨hr, by simp [he]⟩, hk⟩

end Goloop.C35.Proofs

namespace Goloop.C35.Proofs
open Goloop.C35

/-! ### list-level invariants of the event processing: distinct owners, ranked entries -/

theorem nodup_applyVote1 (pi : PRepInfo) (b : Bool) (o : Int) (v : Nat × Int)
    (h : (pi.preps.map (·.owner)).Nodup) : ((pi.applyVote1 b o v).preps.map (·.owner)).Nodup := by
  unfold PRepInfo.applyVote1
  cases hg : getPRep pi.preps v.1 with
  | some p => simp only [hg]; exact nodup_setPRep _ _ h
  | none =>
    simp only []
    split
    · exact nodup_setPRep _ _ (nodup_setPRep _ _ h)
    · exact nodup_setPRep _ _ h

theorem nodup_setStatus (pi : PRepInfo) (t s : Nat) (h : (pi.preps.map (·.owner)).Nodup) :
    ((pi.setStatus t s).preps.map (·.owner)).Nodup := by
  unfold PRepInfo.setStatus
  split <;> exact nodup_setPRep _ _ h

theorem nodup_applyEvent (pi : PRepInfo) (e : Event) (h : (pi.preps.map (·.owner)).Nodup) :
    ((applyEvent pi e).preps.map (·.owner)).Nodup := by
  cases e with
  | enable o t s => exact nodup_setStatus pi t s h
  | vote b o f vs =>
    simp only [applyEvent, PRepInfo.applyVote]
    have : ∀ (vs : Votes) (pi : PRepInfo), (pi.preps.map (·.owner)).Nodup →
        ((vs.foldl (fun pi v => pi.applyVote1 b (o : Int) v) pi).preps.map (·.owner)).Nodup := by
      intro vs
      induction vs with
      | nil => intro pi h; exact h
      | cons v vs ih => intro pi h; exact ih _ (nodup_applyVote1 pi b _ v h)
    exact this vs pi h

theorem nodup_events : ∀ (evs : List Event) (pi : PRepInfo), (pi.preps.map (·.owner)).Nodup →
    ((evs.foldl applyEvent pi).preps.map (·.owner)).Nodup := by
  intro evs
  induction evs with
  | nil => intro pi h; exact h
  | cons e rest ih => intro pi h; exact ih _ (nodup_applyEvent pi e h)

/-- number of entries ranked below `e` -/
def cnt (e : Nat) (ps : List PRep) : Nat := (ps.filter (fun p => p.inElected e)).length

theorem cnt_setPRep (e : Nat) (q : PRep) : ∀ (ps : List PRep),
    (∀ p, getPRep ps q.owner = some p → p.inElected e = q.inElected e) →
    (getPRep ps q.owner = none → q.inElected e = false) → cnt e (setPRep ps q) = cnt e ps := by
  intro ps
  induction ps with
  | nil =>
    intro _ h2
    have := h2 rfl
    simp [setPRep, cnt, this]
  | cons p ps ih =>
    intro h1 h2
    simp only [setPRep]
    by_cases hpq : p.owner = q.owner
    · have hg : getPRep (p :: ps) q.owner = some p := by simp [getPRep, List.find?_cons, hpq]
      have := h1 p hg
      simp only [hpq, beq_self_eq_true, if_true, cnt, List.filter_cons, this]
      split <;> simp
    · have hb : (p.owner == q.owner) = false := by simpa using hpq
      have hg : getPRep (p :: ps) q.owner = getPRep ps q.owner := by simp [getPRep, List.find?_cons, hpq]
      rw [hg] at h1 h2
      have := ih h1 h2
      simp only [hb, Bool.false_eq_true, if_false, cnt, List.filter_cons] at this ⊢
      split <;> simp [this]

theorem applyVote_inElected (p : PRep) (b : Bool) (a per br : Int) (e : Nat) :
    (p.applyVote b a per br).inElected e = p.inElected e := by
  have h := applyVote_static p b a per br
  simp only [] at h
  simp only [PRep.inElected, h.2.2.1, h.2.2.2.1]

theorem cnt_applyVote1 (e : Nat) (pi : PRepInfo) (b : Bool) (o : Int) (v : Nat × Int) :
    cnt e (pi.applyVote1 b o v).preps = cnt e pi.preps := by
  unfold PRepInfo.applyVote1
  cases hg : getPRep pi.preps v.1 with
  | some p =>
    simp only [hg]
    have hown : (p.applyVote b v.2 ((pi.offsetLimit : Int) - o) pi.br).owner = v.1 :=
      (applyVote_static p b _ _ _).1.trans (getPRep_owner hg)
    apply cnt_setPRep
    · intro p' hp'
      rw [hown, hg] at hp'
      cases hp'
      exact (applyVote_inElected p b _ _ _ e).symm
    · intro hn; rw [hown, hg] at hn; cases hn
  | none =>
    have h1 : getPRep (pi.add v.1 esDisablePermanent 0 0 0 false).preps v.1 = some (zeroPRep pi.br v.1) := by
      rw [getPRep_add]; simp [setSt, zeroPRep, newPRep]
    simp only [h1]
    have hown : ((zeroPRep pi.br v.1).applyVote b v.2 ((pi.offsetLimit : Int) - o) pi.br).owner = v.1 :=
      (applyVote_static _ b _ _ _).1
    have c1 : cnt e (pi.add v.1 esDisablePermanent 0 0 0 false).preps = cnt e pi.preps := by
      simp only [PRepInfo.add]
      apply cnt_setPRep
      · intro p' hp'
        have : getPRep pi.preps v.1 = some p' := hp'
        rw [hg] at this; cases this
      · intro _; rfl
    rw [← c1]
    apply cnt_setPRep
    · intro p' hp'
      rw [hown, h1] at hp'
      cases hp'
      exact (applyVote_inElected _ b _ _ _ e).symm
    · intro hn; rw [hown, h1] at hn; cases hn

theorem cnt_setStatus (e : Nat) (pi : PRepInfo) (t s : Nat) : cnt e (pi.setStatus t s).preps = cnt e pi.preps := by
  unfold PRepInfo.setStatus
  cases hg : getPRep pi.preps t with
  | some p =>
    simp only []
    have ho : p.owner = t := getPRep_owner hg
    apply cnt_setPRep
    · intro p' hp'
      have : getPRep pi.preps p.owner = some p' := hp'
      rw [ho, hg] at this; cases this; rfl
    · intro hn
      have : getPRep pi.preps p.owner = none := hn
      rw [ho, hg] at this; cases this
  | none =>
    simp only [PRepInfo.add]
    apply cnt_setPRep
    · intro p' hp'
      have : getPRep pi.preps t = some p' := hp'
      rw [hg] at this; cases this
    · intro _; rfl

theorem cnt_events (e : Nat) : ∀ (evs : List Event) (pi : PRepInfo),
    cnt e (evs.foldl applyEvent pi).preps = cnt e pi.preps := by
  intro evs
  induction evs with
  | nil => intro pi; rfl
  | cons ev rest ih =>
    intro pi
    simp only [List.foldl_cons]
    rw [ih]
    cases ev with
    | enable o t s => exact cnt_setStatus e pi t s
    | vote b o f vs =>
      simp only [applyEvent, PRepInfo.applyVote]
      have : ∀ (vs : Votes) (pi : PRepInfo),
          cnt e (vs.foldl (fun pi v => pi.applyVote1 b (o : Int) v) pi).preps = cnt e pi.preps := by
        intro vs
        induction vs with
        | nil => intro pi; rfl
        | cons v vs ih2 => intro pi; simp only [List.foldl_cons]; rw [ih2, cnt_applyVote1]
      exact this vs pi

/-! every owner after the events was loaded or is the target of an event -/

def eventTargets : List Event → List Nat
  | [] => []
  | .enable _ t _ :: rest => t :: eventTargets rest
  | .vote _ _ _ vs :: rest => vs.map (·.1) ++ eventTargets rest

theorem some_applyVote (b : Bool) (o : Int) (k : Nat) : ∀ (vs : Votes) (pi : PRepInfo),
    (getPRep (pi.applyVote b vs o).preps k).isSome = true → (getPRep pi.preps k).isSome = true ∨ k ∈ vs.map (·.1) := by
  intro vs
  induction vs with
  | nil => intro pi h; exact Or.inl h
  | cons v vs ih =>
    intro pi h
    rcases ih (pi.applyVote1 b o v) h with h' | h'
    · rw [getPRep_applyVote1] at h'
      by_cases hk : v.1 = k
      · exact Or.inr (by simp [hk])
      · simp only [hk, if_false] at h'; exact Or.inl h'
    · exact Or.inr (by simp only [List.map_cons, List.mem_cons]; exact Or.inr h')

theorem some_events (k : Nat) : ∀ (evs : List Event) (pi : PRepInfo),
    (getPRep (evs.foldl applyEvent pi).preps k).isSome = true →
    (getPRep pi.preps k).isSome = true ∨ k ∈ eventTargets evs := by
  intro evs
  induction evs with
  | nil => intro pi h; exact Or.inl h
  | cons e rest ih =>
    intro pi h
    rcases ih (applyEvent pi e) h with h' | h'
    · cases e with
      | enable o t s =>
        simp only [applyEvent, getPRep_setStatus] at h'
        by_cases hk : t = k
        · exact Or.inr (by simp [eventTargets, hk])
        · simp only [hk, if_false] at h'; exact Or.inl h'
      | vote b o f vs =>
        rcases some_applyVote b (o : Int) k vs pi h' with h2 | h2
        · exact Or.inl h2
        · exact Or.inr (by simp only [eventTargets, List.mem_append]; exact Or.inl h2)
    · right
      cases e with
      | enable o t s => simp only [eventTargets, List.mem_cons]; exact Or.inr h'
      | vote b o f vs => simp only [eventTargets, List.mem_append]; exact Or.inr h'

end Goloop.C35.Proofs

namespace Goloop.C35.Proofs
open Goloop.C35

/-! ### well-formedness of the RAW input and what it gives for the loaded entries -/

/-- delegated / bonded amount of the Voted record of `k` in the base reward state (0 if none) -/
def baseDelegated (i : Input) (k : Nat) : Int := match getPRep i.voteds k with | some r => r.delegated | none => 0
def baseBonded (i : Input) (k : Nat) : Int := match getPRep i.voteds k with | some r => r.bonded | none => 0

/-- every address that can own a P-Rep entry: Voted records and event targets -/
def prepKeys (i : Input) : List Nat := i.voteds.map (·.owner) ++ eventTargets i.events

/-- **well-formedness of the raw input** (reward database + event list of the term), decidable:
    non-negative bond requirement / fund / rates; one Voted record per owner with commission rate
    in [0,100%]; one Delegating / Bonding record per voter; vote-event offsets non-decreasing and
    within the term; for every possible P-Rep address the running Voted totals (base record plus
    the votes of the event list, in order) never go negative; and the Voted records are consistent
    with the voters' records: what the voters hold for `k` is at most `delegated+bonded` of `k`. -/
def InputWF (i : Input) : Prop :=
  0 ≤ i.br ∧ 0 ≤ i.iglobal ∧ 0 ≤ i.iprepRate ∧ 0 ≤ i.iwageRate ∧
  (i.voteds.map (·.owner)).Nodup ∧ (∀ r ∈ i.voteds, 0 ≤ r.rate ∧ r.rate ≤ 10000) ∧
  (i.delegating.map (·.1)).Nodup ∧ (i.bonding.map (·.1)).Nodup ∧
  eventOffsetsOk i.offsetLimit 0 i.events = true ∧
  (∀ k ∈ prepKeys i, totalsOk (baseDelegated i k) (baseBonded i k) (voteEvents k i.events) = true) ∧
  (∀ k ∈ prepKeys i, baseVotes i k ≤ baseDelegated i k + baseBonded i k)

instance (i : Input) : Decidable (InputWF i) := by unfold InputWF; infer_instance

/-- what the proof needs of the entry of `k` right after `loadPRepInfo` -/
structure StartOk (i : Input) (k : Nat) (p0 : PRep) : Prop where
  clean : p0.commission = 0 ∧ p0.voterReward = 0 ∧ p0.wage = 0
  rate : 0 ≤ p0.rate ∧ p0.rate ≤ 10000
  deleg : p0.delegated = baseDelegated i k
  bond : p0.bonded = baseBonded i k
  init : p0.rank < i.elected → InitOk (i.offsetLimit : Int) i.br (-1) p0 ∧
    baseVotes i k * ((i.offsetLimit : Int) + 1) ≤ p0.accVoted

theorem startOk (i : Input) (wf : InputWF i) (k : Nat) (hk : k ∈ prepKeys i) :
    StartOk i k (entryOf (loadPRepInfo i) k) := by
  obtain ⟨hbr, _, _, _, hnd, hrates, _, _, _, _, hcons⟩ := wf
  have hT : (0:Int) ≤ (i.offsetLimit : Int) + 1 := by omega
  have hL : ∀ x : Int, x * ((i.offsetLimit : Int) - -1) = x * ((i.offsetLimit : Int) + 1) := by
    intro x; rw [show ((i.offsetLimit : Int) - -1) = (i.offsetLimit : Int) + 1 by omega]
  cases hg : getPRep (loadPRepInfo i).preps k with
  | some p0 =>
    have he : entryOf (loadPRepInfo i) k = p0 := by simp [entryOf, hg]
    rw [he]
    obtain ⟨r, hr, _, rk, hp0⟩ := load_mem i hnd p0 (getPRep_mem hg)
    have hown : r.owner = k := by
      have := getPRep_owner hg
      rw [hp0, initAcc_owner] at this
      exact this
    have hv : getPRep i.voteds k = some r := by rw [← hown]; exact getPRep_of_mem_nodup _ hnd r hr
    have hbd : baseDelegated i k = r.delegated := by simp [baseDelegated, hv]
    have hbb : baseBonded i k = r.bonded := by simp [baseBonded, hv]
    have hc := hcons k hk
    rw [hbd, hbb] at hc
    rw [hp0]
    unfold initAcc
    by_cases hin : ({ mkLoaded i.br r with rank := rk, ranked := true } : PRep).inElected i.elected = true
    · rw [if_pos hin]
      refine ⟨⟨rfl, rfl, rfl⟩, hrates r hr, by rw [hbd]; rfl, by rw [hbb]; rfl, ?_⟩
      intro _
      refine ⟨⟨rfl, ?_, ?_⟩, ?_⟩
      · rw [hL]; exact Int.le_refl _
      · rw [hL, Int.sub_mul]; exact Int.le_refl _
      · exact Int.mul_le_mul_of_nonneg_right hc hT
    · rw [if_neg hin]
      refine ⟨⟨rfl, rfl, rfl⟩, hrates r hr, by rw [hbd]; rfl, by rw [hbb]; rfl, ?_⟩
      intro hlt
      exfalso; apply hin
      simp only [PRep.inElected, Bool.true_and, decide_eq_true_eq]
      exact hlt
  | none =>
    have hbr0 : (loadPRepInfo i).br = i.br := by
      have := cfg_load i
      simp only [cfg, Prod.mk.injEq] at this
      exact this.2.2
    have he : entryOf (loadPRepInfo i) k = zeroPRep i.br k := by simp [entryOf, hg, hbr0]
    rw [he]
    have hz : baseDelegated i k = 0 ∧ baseBonded i k = 0 := by
      cases hv : getPRep i.voteds k with
      | none => simp [baseDelegated, baseBonded, hv]
      | some r =>
        have hemp := load_none i hnd k hg r (getPRep_mem hv) (getPRep_owner hv)
        simp only [votedIsEmpty, Bool.and_eq_true, beq_iff_eq] at hemp
        simp [baseDelegated, baseBonded, hv, hemp.1.1.2, hemp.1.2]
    have hc := hcons k hk
    rw [hz.1, hz.2] at hc
    have hpw : (zeroPRep i.br k).power = 0 := by
      show calcPower i.br 0 (0 + 0) = 0
      simp [calcPower_zero]
    refine ⟨⟨rfl, rfl, rfl⟩, ⟨by show (0:Int) ≤ 0; omega, by show (0:Int) ≤ 10000; omega⟩, ?_, ?_, ?_⟩
    · rw [hz.1]; rfl
    · rw [hz.2]; rfl
    · intro _
      refine ⟨⟨rfl, ?_, ?_⟩, ?_⟩
      · rw [hpw]; show 0 * _ ≤ (0:Int); simp
      · rw [hpw]; show ((0 + 0 : Int) - 0) * _ ≤ (0:Int) - 0; simp
      · show _ ≤ (0:Int)
        have := Int.mul_le_mul_of_nonneg_right (show baseVotes i k ≤ 0 by omega) hT
        simpa using this

theorem owner_mem_prepKeys (i : Input) (hnd : (i.voteds.map (·.owner)).Nodup) (p : PRep)
    (hp : p ∈ (prepInfoAfterEvents i).preps) : p.owner ∈ prepKeys i := by
  have hp' : p ∈ (i.events.foldl applyEvent (loadPRepInfo i)).preps := hp
  have hndf := nodup_events i.events _ (load_nodup i hnd)
  have hg := getPRep_of_mem_nodup _ hndf p hp'
  unfold prepKeys
  rw [List.mem_append]
  rcases some_events p.owner i.events (loadPRepInfo i) (by rw [hg]; rfl) with h | h
  · left
    cases hg0 : getPRep (loadPRepInfo i).preps p.owner with
    | none => rw [hg0] at h; cases h
    | some p0 =>
      obtain ⟨r, hr, _, rk, hp0⟩ := load_mem i hnd p0 (getPRep_mem hg0)
      have := getPRep_owner hg0
      rw [hp0, initAcc_owner] at this
      rw [List.mem_map]
      exact ⟨r, hr, this⟩
  · exact Or.inr h

/-- every entry after the events = its loaded (or fresh) entry with the votes to it applied -/
theorem final_entry (i : Input) (wf : InputWF i) (p : PRep) (hp : p ∈ (prepInfoAfterEvents i).preps) :
    ∃ s p0, StartOk i p.owner p0 ∧
      p = setSt s (runVotes (i.offsetLimit : Int) i.br p0 (voteEvents p.owner i.events)) := by
  have hnd := wf.2.2.2.2.1
  have hp' : p ∈ (i.events.foldl applyEvent (loadPRepInfo i)).preps := hp
  have hndf := nodup_events i.events _ (load_nodup i hnd)
  have hg := getPRep_of_mem_nodup _ hndf p hp'
  have he : entryOf (i.events.foldl applyEvent (loadPRepInfo i)) p.owner = p := by simp [entryOf, hg]
  obtain ⟨s, hs⟩ := entryOf_events p.owner i.events (loadPRepInfo i)
  have hc := cfg_load i
  simp only [cfg, Prod.mk.injEq] at hc
  rw [he, hc.2.1, hc.2.2] at hs
  have hk := owner_mem_prepKeys i hnd p hp
  exact ⟨s, _, startOk i wf p.owner hk, hs⟩

theorem final_facts (i : Input) (wf : InputWF i) (p : PRep) (hp : p ∈ (prepInfoAfterEvents i).preps) :
    (p.commission = 0 ∧ p.voterReward = 0 ∧ p.wage = 0) ∧ (0 ≤ p.rate ∧ p.rate ≤ 10000) ∧
    (p.rank < i.elected → 0 ≤ p.accPower ∧ p.accPower ≤ p.accVoted ∧ votesTo p.owner (allVotes i) ≤ p.accVoted) := by
  obtain ⟨s, p0, st, hpe⟩ := final_entry i wf p hp
  obtain ⟨hbr, _, _, _, hnd, _, hdn, hbn, hoff, htot, _⟩ := wf
  have hstat := runVotes_static (i.offsetLimit : Int) i.br (voteEvents p.owner i.events) p0
  simp only [] at hstat
  obtain ⟨_, _, s3, _, s5, _, s7, s8, s9⟩ := hstat
  generalize hq : runVotes (i.offsetLimit : Int) i.br p0 (voteEvents p.owner i.events) = q at *
  have e1 : p.commission = q.commission := by rw [hpe]; rfl
  have e2 : p.voterReward = q.voterReward := by rw [hpe]; rfl
  have e3 : p.wage = q.wage := by rw [hpe]; rfl
  have e4 : p.rate = q.rate := by rw [hpe]; rfl
  have e5 : p.rank = q.rank := by rw [hpe]; rfl
  have e6 : p.accPower = q.accPower := by rw [hpe]; rfl
  have e7 : p.accVoted = q.accVoted := by rw [hpe]; rfl
  refine ⟨⟨by rw [e1, s7]; exact st.clean.1, by rw [e2, s8]; exact st.clean.2.1, by rw [e3, s9]; exact st.clean.2.2⟩,
    by rw [e4, s5]; exact st.rate, ?_⟩
  intro hlt
  rw [e5, s3] at hlt
  obtain ⟨hinit, hbase⟩ := st.init hlt
  have hkey := owner_mem_prepKeys i hnd p hp
  have ht := htot p.owner hkey
  rw [← st.deleg, ← st.bond] at ht
  have ho : offsetsOk (i.offsetLimit : Int) (-1) (voteEvents p.owner i.events) = true :=
    offsetsOk_mono _ _ (-1) ((0 : Nat) : Int) (by omega) (voteEvents_offsetsOk p.owner i.offsetLimit i.events 0 hoff)
  have hf := runVotes_facts (i.offsetLimit : Int) i.br hbr (voteEvents p.owner i.events) p0 (-1) (by omega) ho ht hinit
  have hav := runVotes_accVoted (i.offsetLimit : Int) i.br (voteEvents p.owner i.events) p0
  rw [hq] at hf hav
  rw [e6, e7]
  refine ⟨hf.1, hf.2, ?_⟩
  rw [votesTo_allVotes i p.owner hdn hbn, hav]
  omega

end Goloop.C35.Proofs

namespace Goloop.C35.Proofs
open Goloop.C35

theorem rateMul_nonneg (rate v : Int) (hr : 0 ≤ rate) (hv : 0 ≤ v) : 0 ≤ rateMul rate v := by
  unfold rateMul
  rw [Int.tdiv_eq_ediv_of_nonneg (Int.mul_nonneg hv hr)]
  exact Int.ediv_nonneg (Int.mul_nonneg hv hr) (by simp [denom])

/-- **everything `TermWF` assumes about the state after `processEvents` follows from `InputWF`** -/
theorem termWF_of_inputWF (i : Input) (wf : InputWF i) : TermWF i := by
  have hc := cfg_after i
  simp only [cfg, Prod.mk.injEq] at hc
  obtain ⟨hel, _, _⟩ := hc
  have hnd := wf.2.2.2.2.1
  have hinE : ∀ p : PRep, p.inElected i.elected = true → p.rank < i.elected := by
    intro p h
    simp only [PRep.inElected, Bool.and_eq_true, decide_eq_true_eq] at h
    exact h.2
  have hrw : ∀ p : PRep, p.isRewardable i.elected = true → p.rank < i.elected ∧ 0 < p.accPower := by
    intro p h
    simp only [PRep.isRewardable, Bool.and_eq_true, decide_eq_true_eq] at h
    exact ⟨h.1.2, h.2⟩
  refine ⟨⟨?_, ?_, ?_, ?_, ?_⟩, ?_, ?_, ?_, ?_⟩
  · intro p hp; exact (final_facts i wf p hp).1
  · intro p hp hin
    rw [hel] at hin
    exact ((final_facts i wf p hp).2.2 (hinE p hin)).1
  · intro p hp; exact (final_facts i wf p hp).2.1
  · rfl
  · rw [hel]
    have h1 := cnt_events i.elected i.events (loadPRepInfo i)
    have h2 := load_count i hnd
    have : (List.filter (fun p => p.inElected i.elected) (prepInfoAfterEvents i).preps).length =
        cnt i.elected (i.events.foldl applyEvent (loadPRepInfo i)).preps := rfl
    rw [this, h1]
    exact h2
  · exact nodup_events i.events _ (load_nodup i hnd)
  · exact ⟨rateMul_nonneg _ _ wf.2.2.1 wf.2.1, rateMul_nonneg _ _ wf.2.2.2.1 wf.2.1⟩
  · intro p hp hr
    obtain ⟨h1, h2⟩ := hrw p hr
    have := (final_facts i wf p hp).2.2 h1
    omega
  · intro p hp hr
    obtain ⟨h1, _⟩ := hrw p hr
    exact ((final_facts i wf p hp).2.2 h1).2.2

end Goloop.C35.Proofs
