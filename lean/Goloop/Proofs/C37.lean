import Goloop.Model.C37
namespace Goloop.C37.Proofs
open Goloop Goloop.C37

/-- what `candLoop` appends to `acc` validates from the state it started in, is inside the
    window, was not included before, and is a sublist of the pool -/
theorem candLoop_spec (e : Env) (has : Nat → Int → Bool) (mb mc : Nat) :
    ∀ (pool : List Tx) (b : Bal) (acc : List Tx) (sz : Nat),
      ∃ sel, (candLoop e has mb mc pool b acc sz).1 = acc ++ sel ∧
        (validateTxs e sel b).isSome = true ∧
        (∀ tx ∈ sel, inWindow e tx = true ∧ has tx.id tx.ts = false) ∧
        sel.Sublist pool
  | [], b, acc, sz => ⟨[], by simp [candLoop, validateTxs]⟩
  | tx :: rest, b, acc, sz => by
    unfold candLoop
    by_cases hg : (decide (sz < mb) && decide (acc.length < mc)) = true
    · simp only [hg, Bool.not_true, Bool.false_eq_true, if_false]
      by_cases hw : inWindow e tx = true
      · simp only [hw, Bool.not_true, Bool.false_eq_true, if_false]
        by_cases hh : has tx.id tx.ts = true
        · simp only [hh, if_true]
          obtain ⟨sel, h1, h2, h3, h4⟩ := candLoop_spec e has mb mc rest b acc sz
          exact ⟨sel, h1, h2, h3, h4.cons tx⟩
        · simp only [hh, if_false]
          cases hp : preValidate e b tx with
          | none =>
            simp only
            obtain ⟨sel, h1, h2, h3, h4⟩ := candLoop_spec e has mb mc rest b acc sz
            exact ⟨sel, h1, h2, h3, h4.cons tx⟩
          | some b' =>
            simp only
            by_cases hs : sz + tx.size > mb
            · simp only [hs, if_true]
              exact ⟨[], by simp [validateTxs]⟩
            · simp only [hs, if_false]
              obtain ⟨sel, h1, h2, h3, h4⟩ :=
                candLoop_spec e has mb mc rest b' (acc ++ [tx]) (sz + tx.size)
              refine ⟨tx :: sel, by simp [h1], ?_, ?_, h4.cons₂ tx⟩
              · simp [validateTxs, hw, hp, h2]
              · intro x hx
                rcases List.mem_cons.mp hx with rfl | hx
                · exact ⟨hw, by simpa using hh⟩
                · exact h3 x hx
      · simp only [hw, Bool.not_false, if_true]
        obtain ⟨sel, h1, h2, h3, h4⟩ := candLoop_spec e has mb mc rest b acc sz
        exact ⟨sel, h1, h2, h3, h4.cons tx⟩
    · simp only [hg, Bool.not_false, if_true]
      exact ⟨[], by simp [validateTxs]⟩

theorem idsFresh_of (has : Nat → Int → Bool) : ∀ (l : List Tx) (seen : List Nat),
    (∀ tx ∈ l, has tx.id tx.ts = false) → (l.map (·.id)).Nodup → (∀ tx ∈ l, tx.id ∉ seen) →
    idsFresh has l seen = true
  | [], _, _, _, _ => rfl
  | tx :: rest, seen, h1, h2, h3 => by
    simp only [List.map_cons, List.nodup_cons] at h2
    have ih := idsFresh_of has rest (seen ++ [tx.id]) (fun x hx => h1 x (List.mem_cons_of_mem _ hx)) h2.2
      (by
        intro x hx hin
        rcases List.mem_append.mp hin with hin | hin
        · exact h3 x (List.mem_cons_of_mem _ hx) hin
        · simp only [List.mem_singleton] at hin
          exact h2.1 (List.mem_map.mpr ⟨x, hx, hin⟩))
    have hs : tx.id ∉ seen := h3 tx (List.mem_cons_self)
    simp [idsFresh, hs, h1 tx (List.mem_cons_self), ih]

theorem poolAdd_nodup (l : List Tx) (tx : Tx) (h : (l.map (·.id)).Nodup) :
    ((poolAdd l tx).map (·.id)).Nodup := by
  unfold poolAdd
  by_cases hany : l.any (fun x => x.id == tx.id) = true
  · simp only [hany, if_true]; exact h
  · simp only [hany, if_false]
    have hnot : tx.id ∉ l.map (·.id) := by
      intro hin
      obtain ⟨x, hx, hxe⟩ := List.mem_map.mp hin
      exact hany (List.any_eq_true.mpr ⟨x, hx, by simp [hxe]⟩)
    have hcons : ((tx :: l).map (·.id)).Nodup := by
      simp only [List.map_cons, List.nodup_cons]; exact ⟨hnot, h⟩
    cases findPos tx l.reverse 0 none with
    | none =>
      simp only
      have hp : (l ++ [tx]).Perm (tx :: l) := by
        have := List.perm_middle (a := tx) (l₁ := l) (l₂ := [])
        simpa using this
      exact (hp.map _).nodup_iff.mpr hcons
    | some k =>
      simp only
      have hp : (List.take (l.length - 1 - k) l ++ [tx] ++ List.drop (l.length - 1 - k) l).Perm (tx :: l) := by
        have := List.perm_middle (a := tx) (l₁ := l.take (l.length - 1 - k)) (l₂ := l.drop (l.length - 1 - k))
        simpa [List.take_append_drop] using this
      exact (hp.map _).nodup_iff.mpr hcons

theorem poolOf_nodup : ∀ (txs acc : List Tx), (acc.map (·.id)).Nodup → ((poolOf txs acc).map (·.id)).Nodup
  | [], acc, h => h
  | tx :: rest, acc, h => poolOf_nodup rest (poolAdd acc tx) (poolAdd_nodup acc tx h)

end Goloop.C37.Proofs
