/-
  Proofs/C09Retry: the retry pattern preserves the invariant of `Sim`.
-/
import Goloop.Proofs.C09Ser
import Goloop.Model.C09Retry
namespace Goloop.C09.Proofs
open Goloop.C09

/-- all earlier writers of `a` are committed -/
def smallerDone (txs : List Tx) (s : Sim) (i a : Nat) : Prop :=
  ∀ j, j < i → writer txs j a = true → (stOf s j).committed = true

/-- event `reset`: the transaction is back at its start, the store is back to the sequential
    value before the transaction on exactly the accounts that are the transaction's -/
theorem inv_reset {txs : List Tx} {init : List Nat} {s : Sim} (h : Inv txs init s) {i : Nat} (hi : i < txs.length)
    (hc : (stOf s i).committed = false) (real' : List Nat) (hlen' : real'.length = init.length)
    (hR1 : ∀ a, writer txs i a = true → smallerDone txs s i a →
      real'.getD a 0 = (seqState txs init i).getD a 0)
    (hR2 : ∀ a, ¬ (writer txs i a = true ∧ smallerDone txs s i a) → real'.getD a 0 = s.real.getD a 0) :
    Inv txs init { s with real := real', sts := s.sts.set i { stOf s i with pc := 0, loc := ⟨0, []⟩ } } := by
  have hlen : i < s.sts.length := by rw [h.lenS]; exact hi
  have hstq := fun j => stOf_set s i { stOf s i with pc := 0, loc := ⟨0, []⟩ } hlen j real' s.snaps
  have hcomm : ∀ j, (stOf { s with real := real', sts := s.sts.set i { stOf s i with pc := 0, loc := ⟨0, []⟩ } } j).committed
      = (stOf s j).committed := by
    intro j; rw [hstq]; by_cases hji : j = i <;> simp [hji]
  have hpcN : ∀ j, j ≠ i → (stOf { s with real := real', sts := s.sts.set i { stOf s i with pc := 0, loc := ⟨0, []⟩ } } j).pc
      = (stOf s j).pc := by
    intro j hji; rw [hstq]; simp [hji]
  have hpcI : (stOf { s with real := real', sts := s.sts.set i { stOf s i with pc := 0, loc := ⟨0, []⟩ } } i).pc = 0 := by
    rw [hstq]; simp
  have hP0 : P txs init i 0 = (seqState txs init i, ⟨0, []⟩) := by simp [P, partialRun_zero]
  refine ⟨by simp [h.lenS], h.lenN, hlen', h.initEq, ?_, ?_, ?_, ?_, ?_, ?_, ?_, ?_, ?_⟩
  · intro j hj; by_cases hji : j = i
    · subst hji; rw [hpcI]; exact Nat.zero_le _
    · rw [hpcN j hji]; exact h.pcLe j hj
  · intro j hj; rw [hstq]; by_cases hji : j = i
    · subst hji; simp [hP0]
    · simp [hji]; exact h.loc j hj
  · intro j hj hcj; rw [hcomm] at hcj; by_cases hji : j = i
    · subst hji; rw [hc] at hcj; cases hcj
    · rw [hpcN j hji]; exact h.commPc j hj hcj
  · intro a w hw hwa hcw hsw
    rw [hcomm] at hcw
    have hsw' : smallerDone txs s w a := fun j hj hja => by have := hsw j hj hja; rwa [hcomm] at this
    show real'.getD a 0 = _
    by_cases hwi : w = i
    · subst hwi
      rw [hpcI, hP0]; exact hR1 a hwa hsw'
    · rw [hpcN w hwi]
      rw [hR2 a ?_]
      · exact h.own a w hw hwa hcw hsw'
      · rintro ⟨hia, hsi⟩
        exact hwi (owner_unique (init := init) hia hc hsi hwa hcw hsw')
  · intro a hall
    have hall' : ∀ j, j < txs.length → writer txs j a = true → (stOf s j).committed = true :=
      fun j hj hja => by have := hall j hj hja; rwa [hcomm] at this
    show real'.getD a 0 = _
    rw [hR2 a ?_]
    · exact h.fin a hall'
    · rintro ⟨hia, _⟩
      have := hall' i hi hia
      rw [hc] at this; cases this
  · intro j hj hcj a hja; rw [hcomm] at hcj; exact h.snap j hj hcj a hja
  · intro a j j' hj hja hcj hlt' hja'
    rw [hcomm] at hcj ⊢
    exact h.closed a j j' hj hja hcj hlt' hja'
  · intro j hj hw hpos k hk
    rw [hcomm]
    by_cases hji : j = i
    · subst hji; rw [hpcI] at hpos; cases hpos
    · rw [hpcN j hji] at hpos
      exact h.worldStarted j hj hw hpos k hk
  · intro a w j hw hwa hjw hja hcj
    rw [hcomm] at hcj
    by_cases hwi : w = i
    · subst hwi; rw [hpcI, hP0]
    · rw [hpcN w hwi]
      exact h.untouched a w j hw hwa hjw hja hcj

/-! ### shape of `fire` -/

theorem fire_shape (txs : List Tx) (lks : List Locks) (s : Sim) (i : Nat) :
    ∃ (real' : List Nat) (snaps' : List (Option (List Nat))) (st' : TxSt),
      fire txs lks s i = { s with real := real', snaps := snaps', sts := s.sts.set i st' } ∧
      st'.pc = (if ((txs.getD i ⟨[], []⟩).prog[(s.sts.getD i {}).pc]?).isSome then (s.sts.getD i {}).pc + 1
                else (s.sts.getD i {}).pc) ∧
      ((s.sts.getD i {}).committed = true → st'.committed = true) := by
  unfold fire
  simp only
  cases hst : (txs.getD i ⟨[], []⟩).prog[(s.sts.getD i {}).pc]? with
  | none => exact ⟨_, _, _, rfl, by simp, by intro _; rfl⟩
  | some step =>
    simp only
    cases access (lks.getD i ⟨0, []⟩) step.acct <;>
      exact ⟨_, _, _, rfl, by simp, by intro h; exact h⟩

theorem stOf_fire_other (txs : List Tx) (lks : List Locks) (s : Sim) {i j : Nat} (hji : j ≠ i) :
    stOf (fire txs lks s i) j = stOf s j := by
  obtain ⟨real', snaps', st', he, _, _⟩ := fire_shape txs lks s i
  rw [he]
  unfold stOf
  simp only
  rw [getD_set]
  have : ¬ i = j := fun h => hji h.symm
  simp [this]

theorem fire_mono (txs : List Tx) (lks : List Locks) (s : Sim) (i j : Nat)
    (h : (stOf s j).committed = true) : (stOf (fire txs lks s i) j).committed = true := by
  by_cases hji : j = i
  · subst hji
    obtain ⟨real', snaps', st', he, _, hc⟩ := fire_shape txs lks s j
    rw [he]
    unfold stOf
    simp only
    rw [getD_set]
    by_cases hl : j < s.sts.length
    · simp only [true_and, hl, if_true]; exact hc h
    · simp only [hl, and_false, if_false]; exact h
  · rw [stOf_fire_other txs lks s hji]; exact h

theorem pc_fire_self (txs : List Tx) (lks : List Locks) (s : Sim) {i : Nat} (hl : i < s.sts.length) :
    (stOf (fire txs lks s i) i).pc =
      (if ((txAt txs i).prog[(stOf s i).pc]?).isSome then (stOf s i).pc + 1 else (stOf s i).pc) := by
  obtain ⟨real', snaps', st', he, hpc, _⟩ := fire_shape txs lks s i
  rw [he]
  unfold stOf
  simp only
  rw [getD_set]
  simp only [true_and, hl, if_true]
  exact hpc

/-! ### restore -/

theorem restore_length (l : List (Nat × Nat)) : ∀ real : List Nat, (restore real l).length = real.length := by
  induction l with
  | nil => intro real; rfl
  | cons p rest ih => intro real; simp only [restore, List.foldl_cons] at ih ⊢; rw [ih]; simp

theorem restore_noKey (a : Nat) (l : List (Nat × Nat)) : ∀ real : List Nat, hasKey l a = false →
    (restore real l).getD a 0 = real.getD a 0 := by
  induction l with
  | nil => intro real _; rfl
  | cons p rest ih =>
    intro real hk
    simp only [hasKey, List.any_cons, Bool.or_eq_false_iff, decide_eq_false_iff_not] at hk
    simp only [restore, List.foldl_cons] at ih ⊢
    rw [ih _ (by simpa [hasKey] using hk.2), getD_set]
    simp [hk.1]

theorem restore_keep (a v : Nat) (l : List (Nat × Nat)) : ∀ real : List Nat,
    (∀ p ∈ l, p.1 = a → p.2 = v) → real.getD a 0 = v → (restore real l).getD a 0 = v := by
  induction l with
  | nil => intro real _ h; exact h
  | cons p rest ih =>
    intro real hv h
    simp only [restore, List.foldl_cons] at ih ⊢
    apply ih _ (fun q hq => hv q (List.mem_cons_of_mem _ hq))
    rw [getD_set]
    by_cases hp : p.1 = a ∧ p.1 < real.length
    · rw [if_pos hp]; exact hv p List.mem_cons_self hp.1
    · rw [if_neg hp]; exact h

theorem restore_key (a v : Nat) (l : List (Nat × Nat)) : ∀ real : List Nat,
    (∀ p ∈ l, p.1 = a → p.2 = v) → hasKey l a = true → (real.length ≤ a → real.getD a 0 = v) →
    (restore real l).getD a 0 = v := by
  induction l with
  | nil => intro real _ hk; simp [hasKey] at hk
  | cons p rest ih =>
    intro real hv hk hout
    simp only [restore, List.foldl_cons] at ih ⊢
    by_cases hp : p.1 = a
    · apply restore_keep a v rest _ (fun q hq => hv q (List.mem_cons_of_mem _ hq))
      rw [getD_set]
      by_cases hl : p.1 < real.length
      · rw [if_pos ⟨hp, hl⟩]; exact hv p List.mem_cons_self hp
      · rw [if_neg (fun h => hl h.2)]; exact hout (by omega)
    · have hk' : hasKey rest a = true := by
        simp only [hasKey, List.any_cons, Bool.or_eq_true, decide_eq_true_eq] at hk
        rcases hk with h1 | h1
        · exact absurd h1 hp
        · simpa [hasKey] using h1
      apply ih _ (fun q hq => hv q (List.mem_cons_of_mem _ hq)) hk'
      intro hlen
      rw [getD_set, if_neg (fun h => hp h.1)]
      exact hout (by simpa using hlen)

/-! ### invariant of the retry layer -/

theorem las_write_writer {txs : List Tx} {i : Nat} (hi : i < txs.length) {l : Las}
    (hl : l ∈ (lkAt txs i).las) (hw : l.lock = .write) : writer txs i l.acct = true := by
  rw [lkAt_eq hi] at hl
  unfold applyLockRequests at hl
  by_cases h2 : worldLockOf (txAt txs i).reqs = 2
  · simp [h2] at hl
  · simp only [h2, if_false, List.mem_map] at hl
    obtain ⟨⟨a, k⟩, hm, rfl⟩ := hl
    simp only at hw
    subst hw
    have hlt : worldLockOf (txAt txs i).reqs < 2 := by have := worldLockOf_le (txAt txs i).reqs; omega
    have hh : hasW (acctMap (worldLockOf (txAt txs i).reqs) (txAt txs i).reqs) a = true := by
      unfold hasW
      rw [List.any_eq_true]
      exact ⟨(a, .write), hm, by simp⟩
    rw [hasW_acctMap _ hlt] at hh
    simp [writer, mayWrite_eq, hh]

theorem rsOf_set (r : RSim) (sim' : Sim) (i : Nat) (st' : RSt) (h : i < r.rs.length) (j : Nat) :
    rsOf { sim := sim', rs := r.rs.set i st' } j = if j = i then st' else rsOf r j := by
  unfold rsOf
  simp only
  rw [getD_set]
  by_cases hji : j = i
  · subst hji; simp [h]
  · have : ¬ i = j := fun h => hji h.symm
    simp [hji, this]

structure RInv (txs : List Tx) (retry : List Bool) (init : List Nat) (r : RSim) : Prop where
  inv : Inv txs init r.sim
  lenRS : r.rs.length = txs.length
  notSnapped : ∀ i, i < txs.length → retry.getD i false = true → (rsOf r i).snapped = false →
    (stOf r.sim i).pc = 0
  wsnapOk : ∀ i, i < txs.length → ∀ σ, (rsOf r i).wsnap = some σ →
    σ.length = init.length ∧ (∀ a, σ.getD a 0 = (seqState txs init i).getD a 0) ∧
    (∀ j, j < i → (stOf r.sim j).committed = true)
  wsnapSome : ∀ i, i < txs.length → (rsOf r i).snapped = true → (lkAt txs i).world = 2 →
    ∃ σ, (rsOf r i).wsnap = some σ
  startOk : ∀ i, i < txs.length → retry.getD i false = true → ∀ p ∈ (rsOf r i).start,
    writer txs i p.1 = true ∧ p.2 = (seqState txs init i).getD p.1 0 ∧ smallerDone txs r.sim i p.1
  startCover : ∀ i, i < txs.length → retry.getD i false = true → (lkAt txs i).world = 0 →
    ∀ a, writer txs i a = true → hasKey (rsOf r i).start a = false →
    (P txs init i (stOf r.sim i).pc).1.getD a 0 = (seqState txs init i).getD a 0

theorem smallerDone_mono {txs : List Tx} {s s' : Sim} {i a : Nat}
    (hm : ∀ j, (stOf s j).committed = true → (stOf s' j).committed = true)
    (h : smallerDone txs s i a) : smallerDone txs s' i a :=
  fun j hj hja => hm j (h j hj hja)

theorem hasKey_true {l : List (Nat × Nat)} {a : Nat} (h : hasKey l a = true) : ∃ p ∈ l, p.1 = a := by
  unfold hasKey at h
  rw [List.any_eq_true] at h
  obtain ⟨p, hp, hpa⟩ := h
  exact ⟨p, hp, by simpa using hpa⟩

/-- value of an account the transaction owns and has not touched since its start -/
theorem own_start {txs : List Tx} {init : List Nat} {s : Sim} (h : Inv txs init s) {i : Nat} (hi : i < txs.length)
    (hc : (stOf s i).committed = false) {a : Nat} (hw : writer txs i a = true) (hsm : smallerDone txs s i a)
    (hP : (P txs init i (stOf s i).pc).1.getD a 0 = (seqState txs init i).getD a 0) :
    s.real.getD a 0 = (seqState txs init i).getD a 0 := by
  rw [h.own a i hi hw hc hsm, hP]

theorem rinv_snap {txs : List Tx} (hs : Supported txs) {retry : List Bool} {init : List Nat} {r : RSim}
    (h : RInv txs retry init r) {i : Nat}
    (hen : enabledEv true txs retry (build txs) r (.snap i) = true) :
    RInv txs retry init (fireEv txs (build txs) r (.snap i)) := by
  simp only [enabledEv, Bool.and_eq_true, decide_eq_true_eq, Bool.not_eq_true'] at hen
  obtain ⟨⟨⟨⟨hi, hret⟩, hns⟩, hnc⟩, hg⟩ := hen
  have hnc' : (stOf r.sim i).committed = false := hnc
  have hpc0 := h.notSnapped i hi hret hns
  have hP0 : P txs init i 0 = (seqState txs init i, ⟨0, []⟩) := by simp [P, partialRun_zero]
  have hlen : i < r.rs.length := by rw [h.lenRS]; exact hi
  simp only [fireEv]
  generalize hst' : (if (List.getD (build txs) i ⟨0, []⟩).world = 2 then
      ({ rsOf r i with snapped := true, wsnap := some r.sim.real } : RSt)
    else { rsOf r i with snapped := true, start := startEntries (List.getD (build txs) i ⟨0, []⟩) r.sim.real }) = st'
  have hq := fun j => rsOf_set r r.sim i st' hlen j
  have hworld : (lkAt txs i).world = 2 ∨ (lkAt txs i).world = 0 := (world_cases hs hi).symm
  refine ⟨h.inv, by simp [h.lenRS], ?_, ?_, ?_, ?_, ?_⟩
  · intro j hj hrj hsj
    rw [hq] at hsj
    by_cases hji : j = i
    · subst hji; exact hpc0
    · simp only [hji, if_false] at hsj; exact h.notSnapped j hj hrj hsj
  · intro j hj σ hσ
    rw [hq] at hσ
    by_cases hji : j = i
    · subst hji
      simp only [if_true] at hσ
      rw [← hst'] at hσ
      rcases hworld with h2 | h0
      · have h2' : (List.getD (build txs) j ⟨0, []⟩).world = 2 := h2
        simp only [h2', if_true, Option.some.injEq] at hσ
        subst hσ
        have hall : ∀ k, k < j → (stOf r.sim k).committed = true := by
          rw [if_pos (And.intro h2' trivial)] at hg
          exact (allBefore_iff r.sim j).mp hg
        refine ⟨h.inv.lenR, ?_, hall⟩
        intro a
        have := own_start h.inv hj hnc' (writer_of_world hj h2 a) (fun k hk _ => hall k hk)
          (by rw [hpc0, hP0])
        exact this
      · have h0' : ¬ (List.getD (build txs) j ⟨0, []⟩).world = 2 := by
          have : (List.getD (build txs) j ⟨0, []⟩).world = 0 := h0
          omega
        simp only [h0', if_false] at hσ
        exact h.wsnapOk j hj σ hσ
    · simp only [hji, if_false] at hσ; exact h.wsnapOk j hj σ hσ
  · intro j hj hsj hw
    rw [hq]
    by_cases hji : j = i
    · subst hji
      have h2' : (List.getD (build txs) j ⟨0, []⟩).world = 2 := hw
      simp only [if_true]
      rw [← hst', if_pos h2']
      exact ⟨_, rfl⟩
    · rw [hq] at hsj
      simp only [hji, if_false] at hsj ⊢
      exact h.wsnapSome j hj hsj hw
  · intro j hj hrj p hp
    rw [hq] at hp
    by_cases hji : j = i
    · subst hji
      simp only [if_true] at hp
      rw [← hst'] at hp
      by_cases h2' : (List.getD (build txs) j ⟨0, []⟩).world = 2
      · simp only [h2', if_true] at hp
        exact h.startOk j hj hrj p hp
      · simp only [h2', if_false, startEntries, List.mem_filterMap] at hp
        obtain ⟨l, hl, hlp⟩ := hp
        split at hlp
        · rename_i hcond
          injection hlp with hlp
          subst hlp
          have hl' : l ∈ (lkAt txs j).las := hl
          have hwr := las_write_writer hj hl' hcond.1
          have hdep : dep txs j l.acct = none := by rw [← las_dep hj hl']; exact hcond.2
          have hsm : smallerDone txs r.sim j l.acct := by
            intro k hk hka
            have := (dep_spec (txs := txs) (i := j) (by omega) l.acct).2 hdep k hk
            rw [hka] at this; cases this
          refine ⟨hwr, ?_, hsm⟩
          exact own_start h.inv hj hnc' hwr hsm (by rw [hpc0, hP0])
        · cases hlp
    · simp only [hji, if_false] at hp; exact h.startOk j hj hrj p hp
  · intro j hj hrj hw0 a hwa hk
    by_cases hji : j = i
    · subst hji; rw [hpc0, hP0]
    · rw [hq] at hk
      simp only [hji, if_false] at hk
      exact h.startCover j hj hrj hw0 a hwa hk

theorem rinv_reset {txs : List Tx} (hs : Supported txs) {retry : List Bool} {init : List Nat} {r : RSim}
    (h : RInv txs retry init r) {i : Nat}
    (hen : enabledEv true txs retry (build txs) r (.reset i) = true) :
    RInv txs retry init (fireEv txs (build txs) r (.reset i)) := by
  simp only [enabledEv, Bool.and_eq_true, decide_eq_true_eq, Bool.not_eq_true'] at hen
  obtain ⟨⟨⟨⟨hi, hret⟩, hsn⟩, _⟩, hnc⟩ := hen
  have hnc' : (stOf r.sim i).committed = false := hnc
  have hlen : i < r.rs.length := by rw [h.lenRS]; exact hi
  have hlenS : i < r.sim.sts.length := by rw [h.inv.lenS]; exact hi
  simp only [fireEv]
  generalize hreal : (if (List.getD (build txs) i ⟨0, []⟩).world = 2 then (rsOf r i).wsnap.getD r.sim.real
      else restore r.sim.real (rsOf r i).start) = real'
  have hspec : real'.length = init.length ∧
      (∀ a, writer txs i a = true → smallerDone txs r.sim i a →
        real'.getD a 0 = (seqState txs init i).getD a 0) ∧
      (∀ a, ¬ (writer txs i a = true ∧ smallerDone txs r.sim i a) → real'.getD a 0 = r.sim.real.getD a 0) := by
    rcases world_cases hs hi with h0 | h2
    · have h2' : ¬ (List.getD (build txs) i ⟨0, []⟩).world = 2 := by
        have : (List.getD (build txs) i ⟨0, []⟩).world = 0 := h0
        omega
      rw [if_neg h2'] at hreal
      subst hreal
      have hso := h.startOk i hi hret
      refine ⟨by rw [restore_length]; exact h.inv.lenR, ?_, ?_⟩
      · intro a hwa hsm
        by_cases hk : hasKey (rsOf r i).start a = true
        · apply restore_key a _ _ _ (fun p hp hpa => by rw [(hso p hp).2.1, hpa]) hk
          intro hout
          have e1 : r.sim.real.getD a 0 = 0 := by
            simp [List.getD_eq_getElem?_getD, List.getElem?_eq_none hout]
          have e2 : (seqState txs init i).getD a 0 = 0 := by
            have : (seqState txs init i).length ≤ a := by rw [seqState_length, ← h.inv.lenR]; exact hout
            simp [List.getD_eq_getElem?_getD, List.getElem?_eq_none this]
          rw [e1, e2]
        · have hk' : hasKey (rsOf r i).start a = false := by simpa using hk
          rw [restore_noKey a _ _ hk']
          exact own_start h.inv hi hnc' hwa hsm (h.startCover i hi hret h0 a hwa hk')
      · intro a hneg
        apply restore_noKey
        cases hk : hasKey (rsOf r i).start a
        · rfl
        · obtain ⟨p, hp, hpa⟩ := hasKey_true hk
          have := hso p hp
          rw [hpa] at this
          exact absurd ⟨this.1, this.2.2⟩ hneg
    · have h2' : (List.getD (build txs) i ⟨0, []⟩).world = 2 := h2
      obtain ⟨σ, hσ⟩ := h.wsnapSome i hi hsn h2
      obtain ⟨hl, hv, hall⟩ := h.wsnapOk i hi σ hσ
      rw [if_pos h2', hσ] at hreal
      simp only [Option.getD_some] at hreal
      subst hreal
      refine ⟨hl, fun a _ _ => hv a, ?_⟩
      intro a hneg
      exact absurd ⟨writer_of_world hi h2 a, fun k hk _ => hall k hk⟩ hneg
  obtain ⟨hl', hR1, hR2⟩ := hspec
  have hinv := inv_reset h.inv hi hnc' real' hl' hR1 hR2
  have hsq := fun j => stOf_set r.sim i { stOf r.sim i with pc := 0, loc := ⟨0, []⟩ } hlenS j real' r.sim.snaps
  have hq := fun j => rsOf_set r { r.sim with real := real', sts := r.sim.sts.set i { stOf r.sim i with pc := 0, loc := ⟨0, []⟩ } } i
    { rsOf r i with rerun := true } hlen j
  have hcomm : ∀ j, (stOf { r.sim with real := real', sts := r.sim.sts.set i { stOf r.sim i with pc := 0, loc := ⟨0, []⟩ } } j).committed
      = (stOf r.sim j).committed := by
    intro j; rw [hsq]; by_cases hji : j = i <;> simp [hji]
  have hP0 : P txs init i 0 = (seqState txs init i, ⟨0, []⟩) := by simp [P, partialRun_zero]
  show RInv txs retry init
    { sim := { r.sim with real := real', sts := r.sim.sts.set i { stOf r.sim i with pc := 0, loc := ⟨0, []⟩ } },
      rs := r.rs.set i { rsOf r i with rerun := true } }
  refine ⟨hinv, by simp [h.lenRS], ?_, ?_, ?_, ?_, ?_⟩
  · intro j hj hrj hsj
    rw [hq] at hsj
    rw [hsq]
    by_cases hji : j = i
    · subst hji; simp
    · simp only [hji, if_false] at hsj ⊢; exact h.notSnapped j hj hrj hsj
  · intro j hj σ hσ
    rw [hq] at hσ
    have hσ' : (rsOf r j).wsnap = some σ := by
      by_cases hji : j = i
      · subst hji; simpa using hσ
      · simpa [hji] using hσ
    obtain ⟨a1, a2, a3⟩ := h.wsnapOk j hj σ hσ'
    exact ⟨a1, a2, fun k hk => by rw [hcomm]; exact a3 k hk⟩
  · intro j hj hsj hw
    rw [hq] at hsj ⊢
    by_cases hji : j = i
    · subst hji
      simp only [if_true] at hsj ⊢
      exact h.wsnapSome j hj hsj hw
    · simp only [hji, if_false] at hsj ⊢
      exact h.wsnapSome j hj hsj hw
  · intro j hj hrj p hp
    rw [hq] at hp
    have hp' : p ∈ (rsOf r j).start := by
      by_cases hji : j = i
      · subst hji; simpa using hp
      · simpa [hji] using hp
    obtain ⟨a1, a2, a3⟩ := h.startOk j hj hrj p hp'
    exact ⟨a1, a2, fun k hk hka => by rw [hcomm]; exact a3 k hk hka⟩
  · intro j hj hrj hw0 a hwa hk
    rw [hsq]
    by_cases hji : j = i
    · subst hji; simp [hP0]
    · rw [hq] at hk
      simp only [hji, if_false] at hk ⊢
      exact h.startCover j hj hrj hw0 a hwa hk

theorem hasKey_append (l : List (Nat × Nat)) (b v a : Nat) :
    hasKey (l ++ [(b, v)]) a = (hasKey l a || decide (b = a)) := by
  simp [hasKey, List.any_append]

theorem enabledTx_uncommitted {txs : List Tx} {s : Sim} {i : Nat}
    (h : enabledTx txs (build txs) s i = true) : (stOf s i).committed = false := by
  rw [enabledTx_eq] at h
  cases hc : (stOf s i).committed
  · rfl
  · simp [hc] at h

theorem fireEv_act_shape (txs : List Tx) (r : RSim) (i : Nat) :
    ∃ st' : RSt, fireEv txs (build txs) r (.act i) = { sim := fire txs (build txs) r.sim i, rs := r.rs.set i st' } ∧
      (st'.snapped = (rsOf r i).snapped ∧ st'.wsnap = (rsOf r i).wsnap ∧
      (st'.start = (rsOf r i).start ∨
        ∃ step d, (txAt txs i).prog[(stOf r.sim i).pc]? = some step ∧ access (lkAt txs i) step.acct = .rw d ∧
          hasKey (rsOf r i).start step.acct = false ∧
          st'.start = (rsOf r i).start ++ [(step.acct, r.sim.real.getD step.acct 0)]) ∧
      (∀ step d, (txAt txs i).prog[(stOf r.sim i).pc]? = some step → access (lkAt txs i) step.acct = .rw d →
          hasKey st'.start step.acct = true)) := by
  simp only [fireEv]
  cases hp : (List.getD txs i ⟨[], []⟩).prog[(r.sim.sts.getD i {}).pc]? with
  | none =>
    have hp' : (txAt txs i).prog[(stOf r.sim i).pc]? = none := hp
    exact ⟨_, rfl, rfl, rfl, Or.inl rfl, by intro step d h; rw [hp'] at h; cases h⟩
  | some step =>
    have hp' : (txAt txs i).prog[(stOf r.sim i).pc]? = some step := hp
    simp only
    cases hacc : access (List.getD (build txs) i ⟨0, []⟩) step.acct with
    | rw d =>
      have hacc' : access (lkAt txs i) step.acct = .rw d := hacc
      simp only
      by_cases hk : hasKey (rsOf r i).start step.acct = true
      · rw [if_pos hk]
        refine ⟨_, rfl, rfl, rfl, Or.inl rfl, ?_⟩
        intro step2 d2 h2 _
        rw [hp'] at h2; injection h2 with h2; subst h2; exact hk
      · have hk' : hasKey (rsOf r i).start step.acct = false := by simpa using hk
        rw [if_neg hk]
        refine ⟨_, rfl, rfl, rfl, Or.inr ⟨step, d, hp', hacc', hk', rfl⟩, ?_⟩
        intro step2 d2 h2 _
        rw [hp'] at h2; injection h2 with h2; subst h2
        rw [hasKey_append]; simp
    | worldW | roBase | nil | ro d =>
      have hacc' : access (lkAt txs i) step.acct = _ := hacc
      simp only
      refine ⟨_, rfl, rfl, rfl, Or.inl rfl, ?_⟩
      intro step2 d2 h2 h3
      rw [hp'] at h2; injection h2 with h2; subst h2
      rw [hacc'] at h3; cases h3

theorem rinv_act {txs : List Tx} (hs : Supported txs) {retry : List Bool} {init : List Nat} {r : RSim}
    (h : RInv txs retry init r) {i : Nat}
    (hen : enabledEv true txs retry (build txs) r (.act i) = true) :
    RInv txs retry init (fireEv txs (build txs) r (.act i)) := by
  simp only [enabledEv, Bool.and_eq_true, decide_eq_true_eq, Bool.or_eq_true, Bool.not_eq_true'] at hen
  obtain ⟨⟨hi, hena⟩, hretry⟩ := hen
  have hnc := enabledTx_uncommitted hena
  have hlen : i < r.rs.length := by rw [h.lenRS]; exact hi
  have hlenS : i < r.sim.sts.length := by rw [h.inv.lenS]; exact hi
  have hinv' := inv_fire hs h.inv hi hena
  have hother := fun j (hji : j ≠ i) => stOf_fire_other txs (build txs) r.sim hji
  have hmono := fun j => fire_mono txs (build txs) r.sim i j
  have hpcI := pc_fire_self txs (build txs) r.sim hlenS
  obtain ⟨st', hshape, hfacts⟩ := fireEv_act_shape txs r i
  rw [hshape]
  obtain ⟨hsnp, hwsn, hstart, hkey⟩ := hfacts
  have hq := fun j => rsOf_set r (fire txs (build txs) r.sim i) i st' hlen j
  have hsub : ∀ p, p ∈ (rsOf r i).start → p ∈ st'.start := by
    intro p hp
    rcases hstart with h1 | ⟨_, _, _, _, _, h1⟩
    · rw [h1]; exact hp
    · rw [h1]; exact List.mem_append_left _ hp
  refine ⟨hinv', by simp [h.lenRS], ?_, ?_, ?_, ?_, ?_⟩
  · intro j hj hrj hsj
    rw [hq] at hsj
    by_cases hji : j = i
    · subst hji
      simp only [if_true] at hsj
      rw [hsnp] at hsj
      rcases hretry with h1 | ⟨h1, _⟩
      · rw [hrj] at h1; cases h1
      · rw [hsj] at h1; cases h1
    · simp only [hji, if_false] at hsj
      rw [hother j hji]; exact h.notSnapped j hj hrj hsj
  · intro j hj σ hσ
    rw [hq] at hσ
    have hσ' : (rsOf r j).wsnap = some σ := by
      by_cases hji : j = i
      · subst hji; simp only [if_true] at hσ; rw [← hwsn]; exact hσ
      · simpa [hji] using hσ
    obtain ⟨a1, a2, a3⟩ := h.wsnapOk j hj σ hσ'
    exact ⟨a1, a2, fun k hk => hmono k (a3 k hk)⟩
  · intro j hj hsj hw
    rw [hq] at hsj ⊢
    by_cases hji : j = i
    · subst hji
      simp only [if_true] at hsj ⊢
      rw [hsnp] at hsj
      rw [hwsn]; exact h.wsnapSome j hj hsj hw
    · simp only [hji, if_false] at hsj ⊢
      exact h.wsnapSome j hj hsj hw
  · intro j hj hrj p hp
    rw [hq] at hp
    by_cases hji : j = i
    · subst hji
      simp only [if_true] at hp
      have hold : p ∈ (rsOf r j).start → _ := fun hp' => by
        obtain ⟨a1, a2, a3⟩ := h.startOk j hj hrj p hp'
        exact (⟨a1, a2, smallerDone_mono hmono a3⟩ :
          writer txs j p.1 = true ∧ p.2 = (seqState txs init j).getD p.1 0 ∧
            smallerDone txs (fire txs (build txs) r.sim j) j p.1)
      rcases hstart with h1 | ⟨step, d, hstp, hacc, hnk, h1⟩
      · rw [h1] at hp; exact hold hp
      · rw [h1, List.mem_append] at hp
        rcases hp with hp | hp
        · exact hold hp
        · simp only [List.mem_singleton] at hp
          subst hp
          have hwr := (writer_of_access hs hj).1 d hacc
          have hw0 : (lkAt txs j).world = 0 := by
            rcases access_writer hs hj hwr with ⟨h1, _⟩ | ⟨_, h0⟩
            · rw [hacc] at h1; cases h1
            · exact h0
          have hdd := access_entry hj (Or.inl hacc)
          have hdep : depOK r.sim (dep txs j step.acct) = true := by
            have hen2 := hena
            rw [enabledTx_eq] at hen2
            simp only [hnc, Bool.false_eq_true, if_false, hstp, hacc] at hen2
            rw [← hdd]; exact hen2
          have hsm : smallerDone txs r.sim j step.acct := smaller_writers h.inv hj _ hdep
          refine ⟨hwr, ?_, smallerDone_mono hmono hsm⟩
          exact own_start h.inv hj hnc hwr hsm (h.startCover j hj hrj hw0 _ hwr hnk)
    · simp only [hji, if_false] at hp
      obtain ⟨a1, a2, a3⟩ := h.startOk j hj hrj p hp
      exact ⟨a1, a2, smallerDone_mono hmono a3⟩
  · intro j hj hrj hw0 a hwa hk
    rw [hq] at hk
    by_cases hji : j = i
    · subst hji
      simp only [if_true] at hk
      have hkold : hasKey (rsOf r j).start a = false := by
        cases hko : hasKey (rsOf r j).start a
        · rfl
        · obtain ⟨p, hp, hpa⟩ := hasKey_true hko
          have : hasKey st'.start a = true := by
            unfold hasKey; rw [List.any_eq_true]; exact ⟨p, hsub p hp, by simp [hpa]⟩
          rw [hk] at this; cases this
      have hold := h.startCover j hj hrj hw0 a hwa hkold
      rw [hpcI]
      cases hstp : (txAt txs j).prog[(stOf r.sim j).pc]? with
      | none => simpa using hold
      | some step =>
        simp only [Option.isSome_some, if_true]
        have eP : P txs init j ((stOf r.sim j).pc + 1) =
            stepOn j (declaredBy (lkAt txs j)) step (P txs init j (stOf r.sim j).pc).1 (P txs init j (stOf r.sim j).pc).2 := by
          unfold P; exact partialRun_succ _ _ _ _ _ _ hstp
        have hne : step.acct ≠ a := by
          intro heq
          rcases access_writer hs hj hwa with ⟨_, h2⟩ | ⟨hacc, _⟩
          · omega
          · rw [← heq] at hacc
            have := hkey step _ hstp hacc
            rw [heq, hk] at this; cases this
        rw [eP, stepOn_getD_other _ _ _ _ _ a (Or.inl hne)]
        exact hold
    · simp only [hji, if_false] at hk
      rw [hother j hji]
      exact h.startCover j hj hrj hw0 a hwa hk

theorem rsOf_rInit (nacc : Nat) (txs : List Tx) (i : Nat) : rsOf (rInit nacc txs) i = {} := by
  unfold rsOf rInit
  simp only [List.getD_eq_getElem?_getD, List.getElem?_map]
  cases txs[i]? <;> rfl

theorem rinv_init {txs : List Tx} (hs : Supported txs) (retry : List Bool) (nacc : Nat) :
    RInv txs retry (initBal nacc) (rInit nacc txs) := by
  have hst : ∀ i, stOf (rInit nacc txs).sim i = {} := stOf_simInit nacc txs
  have hrs := rsOf_rInit nacc txs
  refine ⟨inv_init hs nacc, by simp [rInit], ?_, ?_, ?_, ?_, ?_⟩
  · intro i _ _ _; rw [hst]
  · intro i _ σ hσ; rw [hrs] at hσ; cases hσ
  · intro i _ hsn; rw [hrs] at hsn; cases hsn
  · intro i _ _ p hp; rw [hrs] at hp; cases hp
  · intro i _ _ _ a _ _; rw [hst]; simp [P, partialRun_zero]

/-- the retry invariant holds in every state reached by a schedule of enabled events -/
theorem rinv_run {txs : List Tx} (hs : Supported txs) {retry : List Bool} {init : List Nat} :
    ∀ (evs : List Ev) (r r' : RSim), RInv txs retry init r →
      runEv true txs retry (build txs) evs r = some r' → RInv txs retry init r' := by
  intro evs
  induction evs with
  | nil => intro r r' h hr; simp [runEv] at hr; subst hr; exact h
  | cons e rest ih =>
    intro r r' h hr
    simp only [runEv] at hr
    split at hr
    · rename_i hen
      have h' : RInv txs retry init (fireEv txs (build txs) r e) := by
        cases e with
        | snap i => exact rinv_snap hs h hen
        | act i => exact rinv_act hs h hen
        | reset i => exact rinv_reset hs h hen
      exact ih _ _ h' hr
    · cases hr

end Goloop.C09.Proofs
