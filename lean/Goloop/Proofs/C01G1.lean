/-
  Proofs/C01G1 — the running step machine (Model/C01, no crash) sends its votes with strictly
  increasing (height, round, step) keys: G0 + G1 of DESIGN §6 C01, heart of C02.
-/
import Goloop.Proofs.C01Val
namespace Goloop.C01

theorem lexLe_trans {a b c : Key} (h1 : lexLe a b) (h2 : lexLe b c) : lexLe a c := by
  unfold lexLe at *; omega

theorem lexLt_of_le_lt {a b c : Key} (h1 : lexLe a b) (h2 : lexLt b c) : lexLt a c := by
  unfold lexLe lexLt at *; omega

theorem core_of_ctrl_eq {s s' : S} (h : ctrl s' = ctrl s) (hc : Core s) : Core s' := by
  unfold Core; rw [h]; exact hc

/-- monotone control update: same sent, same pend, key does not decrease, stuck only gets set -/
theorem coreC_mono {c c' : Ctrl} (hc : CoreC c) (hs : c'.sent = c.sent) (hp : c'.pend = c.pend)
    (hk : lexLe (c.height, c.round, c.step) (c'.height, c'.round, c'.step))
    (hst : c'.stuck = false → c.stuck = false) : CoreC c' := by
  have hk' := hk
  unfold lexLe at hk'
  simp only [] at hk'
  refine ⟨?_, ?_, ?_, ?_⟩
  · intro v hv
    rw [hs] at hv
    exact lexLe_trans (hc.bnd v hv) hk
  · rw [hs]; exact hc.inc
  · intro hst' lo hi hb
    unfold pendCurrent at hb
    rw [hp] at hb
    have hpn := hc.pnd _ _ _ _ hb
    have hcur : c'.height = c.height ∧ c'.round = c.round := by omega
    have himp := hc.imp (hst hst') lo hi (by unfold pendCurrent; rw [hb, hcur.1, hcur.2])
    refine ⟨by omega, ?_⟩
    intro h5 v hv
    rw [hs] at hv
    have := himp.2 (by omega) v hv
    rw [hcur.1, hcur.2]; exact this
  · intro h r lo hi hb
    rw [hp] at hb
    have := hc.pnd _ _ _ _ hb
    omega

theorem coreC_pend {c c' : Ctrl} (hc : CoreC c) (hs : c'.sent = c.sent)
    (hh : c'.height = c.height) (hr : c'.round = c.round) (hst : c'.step = c.step)
    (hp : pendWin c'.pend = none) : CoreC c' := by
  refine ⟨?_, ?_, ?_, ?_⟩
  · intro v hv; rw [hs] at hv; rw [hh, hr, hst]; exact hc.bnd v hv
  · rw [hs]; exact hc.inc
  · intro _ lo hi hb; unfold pendCurrent at hb; rw [hp] at hb; cases hb
  · intro h r lo hi hb; rw [hp] at hb; cases hb

/-- "fresh for step-key `to`": nothing with a key ≥ (height, round, to) has been signed, the machine is
    at or past `to`, and no outstanding callback of this round could still sign that key -/
def Fresh (s : S) (to : Nat) : Prop :=
  s.stuck = true ∨
  (to ≤ s.step ∧ (∀ m, m ∈ sentOf s.eff → lexLt (msgKey m) (s.height, s.round, to)) ∧
   (∀ lo hi, pendCurrent (ctrl s) lo hi → s.step ≤ hi → to < lo))

theorem pendWin_cases (p : Pend) (h r lo hi : Nat) (hw : pendWin p = some (h, r, lo, hi)) :
    (lo = 4 ∧ hi = 5) ∨ (lo = 3 ∧ hi = 3) := by
  cases p <;> simp [pendWin] at hw <;> omega

theorem validTransition_lt {a b : Nat} (h : validTransition a b = true) (h0 : b ≠ 0) (h2 : b ≠ 2) : a < b := by
  unfold validTransition stNewHeight stNewRound at h
  simp [h0, h2] at h
  exact h

theorem rfs_ctrl (s : S) (to : Nat) (h0 : to ≠ 0) (h2 : to ≠ 2) :
    (ctrl (s.resetForNewStep to) = { ctrl s with stuck := true }) ∨
    (s.step < to ∧ ctrl (s.resetForNewStep to) = { ctrl s with step := to }) := by
  unfold S.resetForNewStep S.beginStep S.endStep
  simp only []
  split
  · rename_i h
    right
    exact ⟨validTransition_lt h h0 h2, rfl⟩
  · left; rfl

theorem core_rfs (s : S) (to : Nat) (h0 : to ≠ 0) (h2 : to ≠ 2) (hc : Core s) :
    Core (s.resetForNewStep to) := by
  unfold Core
  rcases rfs_ctrl s to h0 h2 with h | ⟨hlt, h⟩
  · rw [h]; exact coreC_mono hc rfl rfl (by unfold lexLe; simp) (by simp)
  · have hlt' : (ctrl s).step < to := hlt
    rw [h]; exact coreC_mono hc rfl rfl (by unfold lexLe; simp; omega) (by simp)

theorem fresh_rfs (s : S) (to : Nat) (h4 : to = 3 ∨ to = 4 ∨ to = 6) (hc : Core s) (hs : s.stuck = false) :
    Fresh (s.resetForNewStep to) to := by
  unfold Fresh
  rcases rfs_ctrl s to (by omega) (by omega) with h | ⟨hlt, h⟩
  · left
    have := congrArg Ctrl.stuck h
    simpa [ctrl] using this
  · right
    have e1 := congrArg Ctrl.step h
    have e2 := congrArg Ctrl.sent h
    have e3 := congrArg Ctrl.height h
    have e4 := congrArg Ctrl.round h
    simp only [ctrl] at e1 e2 e3 e4
    refine ⟨by omega, ?_, ?_⟩
    · intro v hv
      rw [e2] at hv
      have := hc.bnd v hv
      rw [e3, e4]
      unfold lexLe at this; unfold lexLt
      simp only [ctrl] at this ⊢
      omega
    · intro lo hi hb hle
      rw [h] at hb
      unfold pendCurrent at hb
      simp only [ctrl] at hb
      have hw := pendWin_cases _ _ _ _ _ hb
      have := (hc.imp (by simpa [ctrl] using hs) lo hi (by unfold pendCurrent; simpa [ctrl] using hb)).1
      simp only [ctrl] at this
      omega

theorem core_rfr (s : S) (r : Nat) (hr : s.round < r) (hc : Core s) : Core (s.resetForNewRound r) := by
  unfold Core S.resetForNewRound S.beginStep S.resetRound_ S.endStep
  simp only []
  split
  · exact coreC_mono hc rfl rfl (by unfold lexLe; simp [ctrl]; omega) (by simp [ctrl])
  · exact coreC_mono hc rfl rfl (by unfold lexLe; simp [ctrl]; omega) (by simp [ctrl])

theorem core_rfh (s : S) (hc : Core s) : Core (s.resetForNewHeight (s.height + 1)) := by
  unfold Core S.resetForNewHeight S.beginStep S.resetRound_ S.endStep
  simp only []
  split
  · exact coreC_mono hc rfl rfl (by unfold lexLe; simp [ctrl]) (by simp [ctrl])
  · exact coreC_mono hc rfl rfl (by unfold lexLe; simp [ctrl]) (by simp [ctrl])

theorem core_stuck (s : S) (hc : Core s) : Core { s with stuck := true } :=
  coreC_mono hc rfl rfl (by unfold lexLe; simp [ctrl]) (by simp [ctrl])

theorem core_set_pend (s : S) (p : Pend) (hp : pendWin p = none) (hc : Core s) :
    Core { s with pend := p } :=
  coreC_pend hc rfl rfl rfl rfl hp

/-- arming a callback that will sign with step-key `lo` (import: 4, propose: 3) at a fresh point -/
theorem core_set_pendwin (s : S) (p : Pend) (lo hi : Nat) (hw : pendWin p = some (s.height, s.round, lo, hi))
    (hc : Core s) (hf : Fresh s lo) : Core { s with pend := p } := by
  unfold Core
  refine ⟨?_, ?_, ?_, ?_⟩
  · exact hc.bnd
  · exact hc.inc
  · intro hst lo' hi' hb
    unfold pendCurrent at hb
    simp only [ctrl] at hb
    rw [hw] at hb
    simp only [Option.some.injEq, Prod.mk.injEq] at hb
    obtain ⟨_, _, rfl, rfl⟩ := hb
    rcases hf with h | ⟨h1, h2, _⟩
    · simp [ctrl] at hst; rw [h] at hst; cases hst
    · exact ⟨h1, fun _ => h2⟩
  · intro h r lo' hi' hb
    simp only [ctrl] at hb
    rw [hw] at hb
    simp only [Option.some.injEq, Prod.mk.injEq] at hb
    obtain ⟨rfl, rfl, _, _⟩ := hb
    simp [ctrl]

theorem core_emit_nonsend (s : S) (e : Eff) (he : ∀ m, e ≠ .send m) (hc : Core s) : Core (s.emit e) := by
  apply core_of_ctrl_eq _ hc
  unfold ctrl S.emit
  simp only [sentOf_append]
  cases e <;> simp [sentOf] at he ⊢

theorem fresh_emit_nonsend (s : S) (e : Eff) (he : ∀ m, e ≠ .send m) (to : Nat) (hf : Fresh s to) :
    Fresh (s.emit e) to := by
  have hctrl : ctrl (s.emit e) = ctrl s := by
    unfold ctrl S.emit
    simp only [sentOf_append]
    cases e <;> simp [sentOf] at he ⊢
  have hs : sentOf (s.emit e).eff = sentOf s.eff := congrArg Ctrl.sent hctrl
  unfold Fresh at *
  rw [hctrl, hs]
  exact hf

/-- signing a message with step-key `to` of the current round at a fresh point -/
theorem coreC_send {c c' : Ctrl} (hc : CoreC c) (m : Msg) (to : Nat)
    (hs : c'.sent = c.sent ++ [m])
    (hh : c'.height = c.height) (hr : c'.round = c.round) (hst : c'.step = c.step)
    (hp : c'.pend = c.pend) (hk : c'.stuck = c.stuck)
    (hm : msgKey m = (c.height, c.round, to))
    (hle : to ≤ c.step)
    (hfr : ∀ v, v ∈ c.sent → lexLt (msgKey v) (c.height, c.round, to))
    (hni : ∀ lo hi, pendCurrent c lo hi → c.step ≤ hi → to < lo) : CoreC c' := by
  refine ⟨?_, ?_, ?_, ?_⟩
  · intro v hv; rw [hs] at hv; rw [hh, hr, hst]
    rcases List.mem_append.mp hv with h | h
    · exact hc.bnd v h
    · simp at h; subst h; rw [hm]; unfold lexLe; simp; omega
  · rw [hs, List.pairwise_append]
    refine ⟨hc.inc, by simp, ?_⟩
    intro x hx y hy
    simp at hy; subst hy
    unfold msgLt; rw [hm]; exact hfr x hx
  · intro hst' lo hi hb
    unfold pendCurrent at hb
    rw [hp, hh, hr] at hb
    have h0 := hc.imp (by rw [← hk]; exact hst') lo hi hb
    rw [hst, hh, hr]
    refine ⟨h0.1, fun h5 v hv => ?_⟩
    rw [hs] at hv
    rcases List.mem_append.mp hv with h | h
    · exact h0.2 h5 v h
    · simp at h; subst h; rw [hm]
      have := hni lo hi hb h5
      unfold lexLt; simp; omega
  · intro h r lo hi hb; rw [hp] at hb; rw [hh, hr]; exact hc.pnd _ _ _ _ hb

theorem core_emit_send (s : S) (m : Msg) (to : Nat) (hc : Core s) (hst : s.stuck = false)
    (hf : Fresh s to) (hm : msgKey m = (s.height, s.round, to)) : Core (s.emit (.send m)) := by
  rcases hf with h | ⟨h1, h2, h3⟩
  · rw [h] at hst; cases hst
  · exact coreC_send hc m to (by simp [ctrl]) rfl rfl rfl rfl rfl hm h1 h2 h3

theorem core_emit_send_vote (s : S) (t : VType) (v : Option Blk) (hc : Core s) (hst : s.stuck = false)
    (hf : Fresh s (mstepOf t)) :
    Core (s.emit (.send (.vote ⟨s.me, s.height, t, s.round, v⟩))) :=
  core_emit_send s _ _ hc hst hf rfl

theorem core_sendProposal (s : S) (b : Blk) (pol : Int) (hc : Core s) (hf : Fresh s stPropose) :
    Core (s.sendProposal b pol) := by
  unfold S.sendProposal
  split
  · exact hc
  rename_i hst
  have h1 := core_emit_nonsend s (.write .round (.msg (.proposal s.me s.height s.round b pol))) (by intro m; simp) hc
  have f1 := fresh_emit_nonsend s (.write .round (.msg (.proposal s.me s.height s.round b pol))) (by intro m; simp) _ hf
  have h2 := core_emit_nonsend _ (.sync .round) (by intro m; simp) h1
  have f2 := fresh_emit_nonsend _ (.sync .round) (by intro m; simp) _ f1
  exact core_emit_send _ _ _ h2 (by simpa [S.emit] using hst) f2 rfl

theorem ctrl_hvsAdd (s : S) (m : VoteRec) : ctrl (s.hvsAdd m).2 = ctrl s := by
  unfold S.hvsAdd
  simp only []
  split <;> rfl

theorem stuck_emit (s : S) (e : Eff) : (s.emit e).stuck = s.stuck := rfl

theorem fresh_of_ctrl {s s' : S} (h : ctrl s' = ctrl s) (to : Nat) (hf : Fresh s to) : Fresh s' to := by
  have e1 : s'.stuck = s.stuck := congrArg Ctrl.stuck h
  have e2 : s'.step = s.step := congrArg Ctrl.step h
  have e3 : sentOf s'.eff = sentOf s.eff := congrArg Ctrl.sent h
  have e4 : s'.height = s.height := congrArg Ctrl.height h
  have e5 : s'.round = s.round := congrArg Ctrl.round h
  unfold Fresh at *
  rw [e1, e2, e3, e4, e5, h]
  exact hf

structure IH (f : Nat) : Prop where
  recvVote : ∀ s m, Core s → Core (recvVote f s m)
  sendVote : ∀ s t v, Core s → Fresh s (mstepOf t) → Core (sendVote f s t v)
  handlePrevote : ∀ s mr, Core s → Core (handlePrevote f s mr)
  handlePrecommit : ∀ s mr, Core s → Core (handlePrecommit f s mr)
  enterPropose : ∀ s, Core s → Core (enterPropose f s)
  enterPrevote : ∀ s, Core s → Core (enterPrevote f s)
  enterPrevoteWait : ∀ s, Core s → Core (enterPrevoteWait f s)
  enterPrecommit : ∀ s, Core s → Core (enterPrecommit f s)
  enterPrecommitWait : ∀ s, Core s → Core (enterPrecommitWait f s)
  enterCommit : ∀ s b r, Core s → Core (enterCommit f s b r)
  commitAndEnterNewHeight : ∀ s, Core s → Core (commitAndEnterNewHeight f s)
  enterNewHeight : ∀ s, Core s → Core (enterNewHeight f s)
  enterNewRound : ∀ s, Core s → Core (enterNewRound f s)

theorem ih_zero : IH 0 := by
  constructor <;> intros <;> (first
    | (unfold Goloop.C01.recvVote; apply core_stuck; assumption)
    | (unfold Goloop.C01.sendVote; apply core_stuck; assumption)
    | (unfold Goloop.C01.handlePrevote; apply core_stuck; assumption)
    | (unfold Goloop.C01.handlePrecommit; apply core_stuck; assumption)
    | (unfold Goloop.C01.enterPropose; apply core_stuck; assumption)
    | (unfold Goloop.C01.enterPrevote; apply core_stuck; assumption)
    | (unfold Goloop.C01.enterPrevoteWait; apply core_stuck; assumption)
    | (unfold Goloop.C01.enterPrecommit; apply core_stuck; assumption)
    | (unfold Goloop.C01.enterPrecommitWait; apply core_stuck; assumption)
    | (unfold Goloop.C01.enterCommit; apply core_stuck; assumption)
    | (unfold Goloop.C01.commitAndEnterNewHeight; apply core_stuck; assumption)
    | (unfold Goloop.C01.enterNewHeight; apply core_stuck; assumption)
    | (unfold Goloop.C01.enterNewRound; apply core_stuck; assumption))

theorem step_recvVote (f : Nat) (ih : IH f) (s : S) (m : VoteRec) (hc : Core s) :
    Core (recvVote (f+1) s m) := by
  unfold Goloop.C01.recvVote
  split
  · exact hc
  split
  · exact hc
  split
  · exact hc
  have hk := ctrl_hvsAdd s m
  have hc' : Core (s.hvsAdd m).2 := core_of_ctrl_eq hk hc
  generalize s.hvsAdd m = pr at hc' ⊢
  obtain ⟨added, s'⟩ := pr
  simp only [] at hc' ⊢
  split
  · exact hc'
  split
  · exact hc'
  split
  · exact ih.handlePrevote _ _ hc'
  · exact ih.handlePrecommit _ _ hc'

theorem step_sendVote (f : Nat) (ih : IH f) (s : S) (t : VType) (v : Option Blk) (hc : Core s)
    (hf : Fresh s (mstepOf t)) : Core (sendVote (f+1) s t v) := by
  unfold Goloop.C01.sendVote
  split
  · exact hc
  rename_i hst
  split
  · exact hc
  simp only []
  apply ih.recvVote
  have h1 := core_emit_nonsend s (.write .round (.msg (.vote ⟨s.me, s.height, t, s.round, v⟩))) (by intro m; simp) hc
  have f1 := fresh_emit_nonsend s (.write .round (.msg (.vote ⟨s.me, s.height, t, s.round, v⟩))) (by intro m; simp) _ hf
  have h2 := core_emit_nonsend _ (.sync .round) (by intro m; simp) h1
  have f2 := fresh_emit_nonsend _ (.sync .round) (by intro m; simp) _ f1
  exact core_emit_send_vote _ t v h2 (by simpa [stuck_emit] using hst) f2


theorem ctrl_prevoteDecision (s : S) (mr : Nat) (d : Option (Option Blk)) :
    ctrl (s.prevoteDecision mr d) = ctrl s := by
  unfold S.prevoteDecision S.unlock
  cases d with
  | none => rfl
  | some psid =>
    cases psid with
    | none => simp only []; split <;> rfl
    | some b => simp only []; split <;> split <;> rfl

theorem step_handlePrevote (f : Nat) (ih : IH f) (s : S) (mr : Nat) (hc : Core s) :
    Core (handlePrevote (f+1) s mr) := by
  unfold Goloop.C01.handlePrevote
  split
  · exact hc
  split
  · exact hc
  simp only []
  have hk := ctrl_prevoteDecision s mr ((votesFor s.hvs mr .prevote).decision s.n)
  have hc' : Core (s.prevoteDecision mr ((votesFor s.hvs mr .prevote).decision s.n)) := core_of_ctrl_eq hk hc
  have hr : (s.prevoteDecision mr ((votesFor s.hvs mr .prevote).decision s.n)).round = s.round :=
    congrArg Ctrl.round hk
  generalize s.prevoteDecision mr ((votesFor s.hvs mr .prevote).decision s.n) = s1 at hc' hr ⊢
  split
  · exact ih.enterPrevote _ hc'
  split
  · exact ih.enterPrevote _ hc'
  split
  · exact ih.enterPrevoteWait _ hc'
  split
  · split
    · exact ih.enterPrecommit _ hc'
    · exact hc'
  split
  · rename_i h
    simp only [Bool.and_eq_true, decide_eq_true_eq] at h
    exact ih.enterPrevote _ (core_rfr _ _ h.1 hc')
  · exact hc'

theorem step_handlePrecommit (f : Nat) (ih : IH f) (s : S) (mr : Nat) (hc : Core s) :
    Core (handlePrecommit (f+1) s mr) := by
  unfold Goloop.C01.handlePrecommit
  split
  · exact hc
  simp only []
  split
  · split
    · exact ih.enterCommit _ _ _ hc
    · exact hc
  split
  · exact ih.enterPrecommit _ hc
  split
  · exact ih.enterPrecommitWait _ hc
  split
  · split
    · exact ih.enterCommit _ _ _ hc
    · exact ih.enterNewRound _ hc
    · exact hc
  split
  · rename_i h
    simp only [Bool.and_eq_true, decide_eq_true_eq] at h
    exact ih.enterPrecommit _ (core_rfr _ _ h.1 hc)
  · exact hc

theorem step_enterNewRound (f : Nat) (ih : IH f) (s : S) (hc : Core s) :
    Core (enterNewRound (f+1) s) := by
  unfold Goloop.C01.enterNewRound
  split
  · exact hc
  exact ih.enterPropose _ (core_rfr _ _ (Nat.lt_succ_self _) hc)

theorem step_enterNewHeight (f : Nat) (ih : IH f) (s : S) (hc : Core s) :
    Core (enterNewHeight (f+1) s) := by
  unfold Goloop.C01.enterNewHeight
  split
  · exact hc
  exact ih.enterPropose _ (core_rfs _ _ (by decide) (by decide) (core_rfh _ hc))

theorem core_finalize (s : S) (b : Blk) (hc : Core s) :
    Core { s.emit (.finalize s.height b) with dbHeight := s.height } :=
  core_emit_nonsend s (.finalize s.height b) (by intro m; simp) hc

theorem step_commitAndEnterNewHeight (f : Nat) (ih : IH f) (s : S) (hc : Core s) :
    Core (commitAndEnterNewHeight (f+1) s) := by
  unfold Goloop.C01.commitAndEnterNewHeight
  split
  · exact hc
  split
  · split
    · exact core_set_pend _ _ rfl hc
    · exact ih.enterNewHeight _ (core_finalize _ _ hc)
  · exact core_stuck _ hc

theorem step_enterCommit (f : Nat) (ih : IH f) (s : S) (b r : Nat) (hc : Core s) :
    Core (enterCommit (f+1) s b r) := by
  unfold Goloop.C01.enterCommit
  split
  · exact hc
  simp only []
  have h1 := core_rfs s stCommit (by decide) (by decide) hc
  generalize s.resetForNewStep stCommit = s1 at h1 ⊢
  have h2 : Core ({ s1 with commitRound := (r : Int) }) := h1
  have h3 := core_emit_nonsend _ (.write .commit (.voteList (voteListOf { s1 with commitRound := (r : Int) } r .precommit))) (by intro m; simp) h2
  have h4 := core_emit_nonsend _ (.sync .commit) (by intro m; simp) h3
  generalize (({ s1 with commitRound := (r : Int) }.emit (.write .commit (.voteList (voteListOf { s1 with commitRound := (r : Int) } r .precommit)))).emit (.sync .commit)) = s2 at h4 ⊢
  split
  · split
    · exact ih.commitAndEnterNewHeight _ h4
    · exact h4
  · split
    · exact ih.commitAndEnterNewHeight _ h4
    · exact h4


theorem step_enterPrecommitWait (f : Nat) (ih : IH f) (s : S) (hc : Core s) :
    Core (enterPrecommitWait (f+1) s) := by
  unfold Goloop.C01.enterPrecommitWait
  split
  · exact hc
  simp only []
  have h1 := core_rfs s stPrecommitWait (by decide) (by decide) hc
  generalize s.resetForNewStep stPrecommitWait = s1 at h1 ⊢
  have h2 := core_emit_nonsend s1 (.write .round (.voteList (voteListOf s1 s1.round .precommit))) (by intro m; simp) h1
  generalize (s1.emit (.write .round (.voteList (voteListOf s1 s1.round .precommit)))) = s2 at h2 ⊢
  split
  · exact ih.enterCommit _ _ _ h2
  · exact ih.enterNewRound _ h2
  · exact h2

theorem step_enterPrevoteWait (f : Nat) (ih : IH f) (s : S) (hc : Core s) :
    Core (enterPrevoteWait (f+1) s) := by
  unfold Goloop.C01.enterPrevoteWait
  split
  · exact hc
  simp only []
  have h1 := core_rfs s stPrevoteWait (by decide) (by decide) hc
  generalize s.resetForNewStep stPrevoteWait = s1 at h1 ⊢
  have h2 := core_emit_nonsend s1 (.write .round (.voteList (voteListOf s1 s1.round .prevote))) (by intro m; simp) h1
  generalize (s1.emit (.write .round (.voteList (voteListOf s1 s1.round .prevote)))) = s2 at h2 ⊢
  split
  · exact ih.enterPrecommit _ h2
  · exact h2

theorem step_enterPropose (f : Nat) (ih : IH f) (s : S) (hc : Core s) :
    Core (enterPropose (f+1) s) := by
  unfold Goloop.C01.enterPropose
  split
  · exact hc
  rename_i hst
  simp only []
  have h1 := core_rfs s stPropose (by decide) (by decide) hc
  have f1 : Fresh (s.resetForNewStep stPropose) stPropose :=
    fresh_rfs s stPropose (Or.inl rfl) hc (by simpa using hst)
  generalize s.resetForNewStep stPropose = s1 at h1 f1 ⊢
  have h2 : Core { s1 with timer := true } := h1
  have f2 : Fresh { s1 with timer := true } stPropose := fresh_of_ctrl (s := s1) rfl _ f1
  split
  · split
    · exact core_of_ctrl_eq (s := S.sendProposal { s1 with timer := true } _ _) rfl
        (core_sendProposal _ _ _ h2 f2)
    · exact core_of_ctrl_eq (s := { s1 with pend := .propose s1.height s1.round }) rfl
        (core_set_pendwin s1 _ 3 3 rfl h1 f1)
  · split
    · exact ih.enterPrevote _ h2
    · exact h2

/-- the common tail of enterPrevote / enterPrecommit: the double check of the vote count -/
theorem tail_prevote (f : Nat) (ih : IH f) (x : S) (hx : Core x) :
    Core (if x.step == stPrevote then
            if (votesFor x.hvs x.round .prevote).hasOverTwoThirds x.n then enterPrevoteWait f x else x
          else x) := by
  split
  · split
    · exact ih.enterPrevoteWait _ hx
    · exact hx
  · exact hx

theorem tail_precommit (f : Nat) (ih : IH f) (x : S) (hx : Core x) :
    Core (if x.step == stPrecommit then
            if (votesFor x.hvs x.round .precommit).hasOverTwoThirds x.n then enterPrecommitWait f x else x
          else x) := by
  split
  · split
    · exact ih.enterPrecommitWait _ hx
    · exact hx
  · exact hx

theorem step_enterPrevote (f : Nat) (ih : IH f) (s : S) (hc : Core s) :
    Core (enterPrevote (f+1) s) := by
  unfold Goloop.C01.enterPrevote
  split
  · exact hc
  rename_i hst
  simp only []
  have h1 := core_rfs s stPrevote (by decide) (by decide) hc
  have f1 : Fresh (s.resetForNewStep stPrevote) (mstepOf .prevote) :=
    fresh_rfs s stPrevote (Or.inr (Or.inl rfl)) hc (by simpa using hst)
  generalize s.resetForNewStep stPrevote = s1 at h1 f1 ⊢
  apply tail_prevote f ih
  split
  · exact ih.sendVote _ _ _ h1 f1
  · split
    · split
      · exact ih.sendVote _ _ _ h1 f1
      · split
        · exact ih.sendVote _ _ _ h1 f1
        · exact core_set_pendwin _ _ 4 5 rfl h1 f1
    · exact ih.sendVote _ _ _ h1 f1

theorem step_enterPrecommit (f : Nat) (ih : IH f) (s : S) (hc : Core s) :
    Core (enterPrecommit (f+1) s) := by
  unfold Goloop.C01.enterPrecommit
  split
  · exact hc
  rename_i hst
  simp only []
  have h1 := core_rfs s stPrecommit (by decide) (by decide) hc
  have f1 : Fresh (s.resetForNewStep stPrecommit) (mstepOf .precommit) :=
    fresh_rfs s stPrecommit (Or.inr (Or.inr rfl)) hc (by simpa using hst)
  generalize s.resetForNewStep stPrecommit = s1 at h1 f1 ⊢
  apply tail_precommit f ih
  split
  · exact ih.sendVote _ _ _ h1 f1
  · exact ih.sendVote _ _ _ (core_of_ctrl_eq rfl h1) (fresh_of_ctrl (s := s1) rfl _ f1)
  · split
    · exact ih.sendVote _ _ _ (core_of_ctrl_eq (s := s1) rfl h1) (fresh_of_ctrl (s := s1) rfl _ f1)
    · split
      · apply ih.sendVote
        · apply core_emit_nonsend _ _ (by intro m; simp)
          apply core_emit_nonsend _ _ (by intro m; simp)
          apply core_emit_nonsend _ _ (by intro m; simp)
          exact core_of_ctrl_eq (s := s1) rfl h1
        · apply fresh_emit_nonsend _ _ (by intro m; simp)
          apply fresh_emit_nonsend _ _ (by intro m; simp)
          apply fresh_emit_nonsend _ _ (by intro m; simp)
          exact fresh_of_ctrl (s := s1) rfl _ f1
      · exact ih.sendVote _ _ _ (core_of_ctrl_eq (s := s1) rfl h1) (fresh_of_ctrl (s := s1) rfl _ f1)

theorem ih_all : ∀ f, IH f := by
  intro f
  induction f with
  | zero => exact ih_zero
  | succ f ih =>
    exact ⟨step_recvVote f ih, step_sendVote f ih, step_handlePrevote f ih, step_handlePrecommit f ih,
      step_enterPropose f ih, step_enterPrevote f ih, step_enterPrevoteWait f ih, step_enterPrecommit f ih,
      step_enterPrecommitWait f ih, step_enterCommit f ih, step_commitAndEnterNewHeight f ih,
      step_enterNewHeight f ih, step_enterNewRound f ih⟩


/-! ### events -/

theorem ev_recvProposal (s : S) (sg h r : Nat) (b : Blk) (pol : Int) (hc : Core s) :
    Core (recvProposal s sg h r b pol) := by
  unfold recvProposal
  split
  · exact hc
  split
  · exact hc
  split
  · exact hc
  split
  · exact hc
  split
  · exact hc
  split
  · exact hc
  simp only []
  split
  · split
    · exact (ih_all _).enterPrevote _ (core_of_ctrl_eq (s := s) rfl hc)
    · exact hc
  · split
    · exact (ih_all _).enterPrevote _ (core_of_ctrl_eq (s := s) rfl hc)
    · exact hc

theorem ev_recvBlockPart (s : S) (h : Nat) (b : Blk) (hc : Core s) : Core (recvBlockPart s h b) := by
  unfold recvBlockPart
  split
  · exact hc
  simp only []
  have h1 : Core (if (decide (s.height ≤ h) && decide (h < s.height + 3) && !s.bpm.contains b) = true
      then { s with bpm := s.bpm ++ [b] } else s) := by
    split
    · exact hc
    · exact hc
  generalize (if (decide (s.height ≤ h) && decide (h < s.height + 3) && !s.bpm.contains b) = true
      then { s with bpm := s.bpm ++ [b] } else s) = s1 at h1 ⊢
  split
  · exact h1
  split
  · exact h1
  split
  · exact h1
  split
  · exact (ih_all _).enterPrevote _ (core_of_ctrl_eq (s := s1) rfl h1)
  split
  · exact (ih_all _).commitAndEnterNewHeight _ (core_of_ctrl_eq (s := s1) rfl h1)
  · exact h1

theorem ev_recvVote (s : S) (m : VoteRec) (hc : Core s) : Core (recvVoteEv s m) := by
  unfold recvVoteEv
  split
  · exact hc
  · exact (ih_all _).recvVote _ _ hc

theorem ev_timeout (s : S) (st : Nat) (hc : Core s) : Core (timeout s st) := by
  unfold timeout
  split
  · exact hc
  split
  · exact (ih_all _).enterPrevote _ hc
  split
  · exact (ih_all _).enterPrecommit _ hc
  split
  · exact (ih_all _).enterNewRound _ hc
  · exact hc

theorem ctrl_markValidated (s : S) (ib : Blk) : ctrl (s.markValidated ib) = ctrl s := by
  unfold S.markValidated
  split
  · split <;> rfl
  · rfl

theorem ev_asyncPropose (s : S) (h r : Nat) (hc : Core s)
    (hf : s.height = h → s.round = r → s.step = stPropose → Fresh s stPropose) :
    Core (asyncPropose s h r) := by
  unfold asyncPropose
  split
  · exact hc
  rename_i hcond
  simp only [Bool.or_eq_true, bne_iff_ne, ne_eq, not_or, Decidable.not_not] at hcond
  exact (ih_all _).enterPrevote _
    (core_of_ctrl_eq (s := S.sendProposal s (ownBlk s h r) (-1)) rfl
      (core_sendProposal _ _ _ hc (hf hcond.1.1 hcond.1.2 hcond.2)))

theorem ev_asyncCommit (s : S) (h r : Nat) (hc : Core s) : Core (asyncCommit s h r) := by
  unfold asyncCommit
  split
  · exact hc
  split
  · exact (ih_all _).enterNewHeight _ (core_finalize _ _ (core_of_ctrl_eq (s := s) rfl hc))
  · exact core_stuck _ hc

/-- the import callback may send the round's prevote: nothing was sent for it yet -/
theorem ev_asyncImport (s : S) (h r : Nat) (ib : Blk) (hc : Core s)
    (hf : s.height = h → s.round = r → s.step ≤ stPrevoteWait → Fresh s (mstepOf .prevote)) :
    Core (asyncImport s h r ib) := by
  unfold asyncImport
  split
  · exact hc
  rename_i hcond
  simp only [Bool.or_eq_true, bne_iff_ne, ne_eq, decide_eq_true_eq, not_or, Decidable.not_not] at hcond
  have hk := ctrl_markValidated s ib
  have hc1 : Core (s.markValidated ib) := core_of_ctrl_eq hk hc
  have hstep : (s.markValidated ib).step = s.step := congrArg Ctrl.step hk
  simp only []
  split
  · rename_i h5
    rw [hstep] at h5
    have f1 : Fresh (s.markValidated ib) (mstepOf .prevote) :=
      fresh_of_ctrl hk _ (hf hcond.1.1 hcond.1.2 (by simpa using h5))
    split
    · exact (ih_all _).sendVote _ _ _ hc1 f1
    · exact core_stuck _ hc1
  · exact hc1

/-- what the invariant gives for an armed callback once `pend` is cleared -/
theorem fresh_of_pend (s : S) (lo hi : Nat) (hc : Core s)
    (hw : pendWin s.pend = some (s.height, s.round, lo, hi)) (hle : s.step ≤ hi) :
    Fresh { s with pend := .none } lo := by
  cases hst : s.stuck
  · right
    have hi' := hc.imp (by simpa [ctrl] using hst) lo hi (by unfold pendCurrent; simpa [ctrl] using hw)
    simp only [ctrl] at hi'
    refine ⟨hi'.1, hi'.2 hle, ?_⟩
    intro lo' hi'' hb
    unfold pendCurrent at hb
    simp [ctrl, pendWin] at hb
  · left; rfl

theorem ev_async (s : S) (hc : Core s) : Core (async s) := by
  unfold async
  split
  · exact hc
  have hn : Core { s with pend := .none } := core_set_pend s .none rfl hc
  split
  · exact hc
  · rename_i h r hp
    apply ev_asyncPropose _ _ _ hn
    intro hh hr h3
    simp only [] at hh hr h3
    exact fresh_of_pend s 3 3 hc (by rw [hp, hh, hr]; rfl) (by rw [h3]; decide)
  · rename_i h r ib hp
    apply ev_asyncImport _ _ _ _ hn
    intro hh hr h5
    simp only [] at hh hr h5
    exact fresh_of_pend s 4 5 hc (by rw [hp, hh, hr]; rfl) h5
  · exact ev_asyncCommit _ _ _ hn

/-! ### start (first start: nothing in the WALs) and whole runs without crash -/

theorem core_of_nosent (s : S) (hs : sentOf s.eff = []) (hp : s.pend = .none) : Core s := by
  unfold Core
  refine ⟨?_, ?_, ?_, ?_⟩
  · intro v hv; simp [ctrl, hs] at hv
  · simp [ctrl, hs]
  · intro _ lo hi hb; unfold pendCurrent at hb; simp [ctrl, hp, pendWin] at hb
  · intro h r lo hi hb; simp [ctrl, hp, pendWin] at hb

@[simp] theorem walDurable_nil (w : Wal) : walDurable w [] = [] := rfl
@[simp] theorem applyRoundWAL_nil (s : S) : applyRoundWAL s [] = s := by unfold applyRoundWAL; rfl
@[simp] theorem applyLockWAL_nil (s : S) : applyLockWAL s none none [] = s := by unfold applyLockWAL; rfl
@[simp] theorem applyCommitWAL_nil (s : S) : applyCommitWAL s [] = s := by unfold applyCommitWAL; rfl

theorem rfh_keep (s : S) (h : Nat) :
    (s.resetForNewHeight h).eff = s.eff ∧ (s.resetForNewHeight h).pend = s.pend := by
  unfold S.resetForNewHeight S.beginStep S.resetRound_ S.endStep
  simp only []
  split <;> exact ⟨rfl, rfl⟩

theorem ev_start_fresh (s : S) (he : s.eff = []) (hns : s.started = false) : Core (start s) := by
  unfold start
  rw [if_neg (by simp [hns])]
  simp only [he]
  have hk := rfh_keep ({ n := s.n, me := s.me, dbHeight := s.dbHeight, eff := [], bpm := [], stuck := s.stuck } : S)
    (s.dbHeight + 1)
  generalize (({ n := s.n, me := s.me, dbHeight := s.dbHeight, eff := [], bpm := [], stuck := s.stuck } : S).resetForNewHeight
    (s.dbHeight + 1)) = s1 at hk ⊢
  have he1 : s1.eff = [] := hk.1
  simp only [he1, walDurable_nil, applyRoundWAL_nil, applyLockWAL_nil, applyCommitWAL_nil]
  have hp1 : s1.pend = .none := hk.2
  have hc : ∀ x : S, sentOf x.eff = [] → x.pend = .none → Core x := core_of_nosent
  split
  · exact (ih_all _).enterPropose _ (core_rfs _ _ (by decide) (by decide) (hc _ rfl hp1))
  split
  · exact (ih_all _).enterPropose _ (hc _ rfl hp1)
  split
  · exact (ih_all _).enterPrevote _ (hc _ rfl hp1)
  split
  · split
    · exact (ih_all _).enterPrevoteWait _ (hc _ rfl hp1)
    · exact hc _ rfl hp1
  split
  · split
    · exact (ih_all _).enterPrecommitWait _ (hc _ rfl hp1)
    · exact hc _ rfl hp1
  · exact hc _ rfl hp1

/-- crash-free event -/
def Event.noCrash : Event → Prop
  | .crash _ _ => False
  | .start => False          -- a second `start` only follows a crash
  | _ => True

theorem vstep_core (s : S) (e : Event) (hn : e.noCrash) (hc : Core s) : Core (vstep s e) := by
  cases e with
  | start => exact absurd hn (by simp [Event.noCrash])
  | proposal sg h r b pol => exact ev_recvProposal s sg h r b pol hc
  | blockPart h b => exact ev_recvBlockPart s h b hc
  | vote m => exact ev_recvVote s m hc
  | timeout st => exact ev_timeout s st hc
  | async => exact ev_async s hc
  | crash c k => exact absurd hn (by simp [Event.noCrash])

theorem run_core (s : S) (evs : List Event) (hn : ∀ e ∈ evs, e.noCrash) (hc : Core s) : Core (run s evs) := by
  induction evs generalizing s with
  | nil => exact hc
  | cons e t ih =>
    unfold run
    exact ih _ (fun e' he' => hn e' (List.mem_cons_of_mem _ he')) (vstep_core s e (hn e List.mem_cons_self) hc)

theorem lexLt_irrefl (a : Key) : ¬ lexLt a a := by unfold lexLt; omega

theorem pairwise_msgLt_unique_msg {l : List Msg} (hp : l.Pairwise msgLt) {a b : Msg}
    (ha : a ∈ l) (hb : b ∈ l) (hk : msgKey a = msgKey b) : a = b := by
  induction l with
  | nil => cases ha
  | cons x t ih =>
    rw [List.pairwise_cons] at hp
    rcases List.mem_cons.mp ha with h1 | h1 <;> rcases List.mem_cons.mp hb with h2 | h2
    · rw [h1, h2]
    · have := hp.1 _ h2; rw [← h1] at this; unfold msgLt at this; rw [hk] at this
      exact absurd this (lexLt_irrefl _)
    · have := hp.1 _ h1; rw [← h2] at this; unfold msgLt at this; rw [hk] at this
      exact absurd this (lexLt_irrefl _)
    · exact ih hp.2 h1 h2

theorem pairwise_msgLt_unique {l : List Msg} (hp : l.Pairwise msgLt) {v w : VoteRec}
    (hv : Msg.vote v ∈ l) (hw : Msg.vote w ∈ l) (hk : voteKey v = voteKey w) : v = w :=
  Msg.vote.inj (pairwise_msgLt_unique_msg hp hv hw hk)

end Goloop.C01
