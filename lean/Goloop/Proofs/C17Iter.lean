/-
  Proofs/C17Iter: the iterator / Filter stack machine of mpt.go yields exactly the stored
  pairs, in ascending key order, and the prefix filter yields exactly the pairs whose key
  has the prefix.

  Helper lemmas live in `Goloop.C17.Iter` (to avoid clashes with Proofs/C17), the main
  theorems in `Goloop.C17`.
-/
import Goloop.Proofs.C17Defs
namespace Goloop.C17

namespace Iter

/-! ### common prefix length -/

theorem cpl_append_left (ks r : List Nibble) : cpl (ks ++ r) ks = ks.length := by
  induction ks with
  | nil => cases r <;> simp [cpl]
  | cons a p ih => simp [cpl, ih]

theorem cpl_lt_iff (k ks : List Nibble) : cpl k ks < ks.length ↔ ¬ ks <+: k := by
  induction ks generalizing k with
  | nil => cases k <;> simp [cpl]
  | cons b ks ih =>
    cases k with
    | nil => simp [cpl]
    | cons a k =>
      by_cases hab : a = b
      · subst hab
        simp [cpl, List.cons_prefix_cons, ih]
      · have hba : ¬ b = a := fun h => hab h.symm
        simp [cpl, hab, hba, List.cons_prefix_cons]

end Iter

/-! ### Stage 1: membership in `entries` is `get` -/

theorem mem_entries_iff (t : Node) (k : List Nibble) (v : Bytes) :
    (k, v) ∈ entries t ↔ get t k = some v := by
  induction t generalizing k with
  | empty => simp [entries, get]
  | leaf ks x =>
    simp only [entries, get, List.mem_singleton, Prod.mk.injEq]
    split <;> simp_all [eq_comm]
  | ext ks nx ih =>
    simp only [entries, get, List.mem_map, Prod.mk.injEq]
    by_cases hp : ks <+: k
    · obtain ⟨r, rfl⟩ := hp
      have hlt : ¬ cpl (ks ++ r) ks < ks.length := by
        rw [Iter.cpl_lt_iff]; simp
      rw [if_neg hlt, Iter.cpl_append_left, List.drop_left, ← ih]
      constructor
      · rintro ⟨⟨a, b⟩, hm, h1, h2⟩
        simp only [List.append_cancel_left_eq] at h1
        subst h1 h2
        exact hm
      · intro hm
        exact ⟨(r, v), hm, rfl, rfl⟩
    · have hlt : cpl k ks < ks.length := (Iter.cpl_lt_iff k ks).2 hp
      rw [if_pos hlt]
      constructor
      · rintro ⟨⟨a, b⟩, _, h1, _⟩
        exact absurd ⟨a, h1⟩ hp
      · intro h; cases h
  | branch ch w ih =>
    cases k with
    | nil =>
      cases w <;> simp [entries, get, eq_comm]
    | cons i r =>
      have : ((i :: r, v) ∈ (List.finRange 16).flatMap fun j =>
          (entries (ch j)).map fun e => (j :: e.1, e.2)) ↔ (r, v) ∈ entries (ch i) := by
        simp only [List.mem_flatMap, List.mem_map, Prod.mk.injEq, List.cons.injEq]
        constructor
        · rintro ⟨j, _, ⟨a, b⟩, hm, ⟨h1, h2⟩, h3⟩
          subst h1 h2 h3
          exact hm
        · intro hm
          exact ⟨i, List.mem_finRange i, (r, v), hm, ⟨rfl, rfl⟩, rfl⟩
      cases w <;> simp [entries, get, this, ih]

/-! ### Stage 2: `entries` is strictly ascending in the lexicographic order on nibble lists

The order is the core `<` on `List (Fin 16)` (`List.Lex (· < ·)`). -/

namespace Iter

theorem append_lt_append_iff (ks a b : List Nibble) : ks ++ a < ks ++ b ↔ a < b := by
  induction ks with
  | nil => simp
  | cons x ks ih =>
    simp only [List.cons_append, List.cons_lt_cons_iff, ih]
    constructor
    · rintro (h | ⟨_, h⟩)
      · exact absurd h (Fin.lt_irrefl x)
      · exact h
    · intro h; exact Or.inr ⟨trivial, h⟩

end Iter

theorem entries_sorted (t : Node) : (entries t).Pairwise (fun a b => a.1 < b.1) := by
  induction t with
  | empty => simp [entries]
  | leaf ks x => simp [entries]
  | ext ks nx ih =>
    simp only [entries, List.pairwise_map, Iter.append_lt_append_iff]
    exact ih
  | branch ch w ih =>
    have hch : ((List.finRange 16).flatMap fun i =>
        (entries (ch i)).map fun e => (i :: e.1, e.2)).Pairwise (fun a b => a.1 < b.1) := by
      rw [List.pairwise_flatMap]
      refine ⟨?_, ?_⟩
      · intro i _
        rw [List.pairwise_map]
        refine (ih i).imp ?_
        intro a b h
        exact List.cons_lt_cons_iff.2 (Or.inr ⟨rfl, h⟩)
      · refine (List.pairwise_lt_finRange 16).imp ?_
        intro i j hij x hx y hy
        simp only [List.mem_map] at hx hy
        obtain ⟨a, _, rfl⟩ := hx
        obtain ⟨b, _, rfl⟩ := hy
        exact List.cons_lt_cons_iff.2 (Or.inl hij)
    simp only [entries]
    rw [List.pairwise_append]
    refine ⟨?_, hch, ?_⟩
    · cases w <;> simp
    · intro a ha b hb
      cases w with
      | none => simp at ha
      | some x =>
        simp only [List.mem_singleton] at ha
        subst ha
        simp only [List.mem_flatMap, List.mem_map] at hb
        obtain ⟨i, _, e, _, rfl⟩ := hb
        exact List.nil_lt_cons _ _

/-- strictly ascending keys: in particular no key occurs twice -/
theorem entries_keys_nodup (t : Node) : ((entries t).map (·.1)).Nodup := by
  rw [List.nodup_iff_pairwise_ne, List.pairwise_map]
  refine (entries_sorted t).imp ?_
  intro a b h he
  rw [he] at h
  exact List.lt_irrefl _ h

/-! ### Stage 3 / 5 core: the stack machine under an arbitrary nibble prefix -/

namespace Iter

/-- what one stack item contributes: the entries below it whose full key passes `q` -/
def outQ (q : List Nibble → Bool) (it : Item) : List (Bytes × Bytes) :=
  ((entries it.2).filter (fun e => q (it.1 ++ e.1))).map
    (fun e => (keysToBytes (it.1 ++ e.1), e.2))

/-- contribution of a stack item under the nibble prefix `P` -/
abbrev out (P : List Nibble) (it : Item) : List (Bytes × Bytes) := outQ P.isPrefixOf it

/-- the pair returned by one `Next()` step, as a list -/
def optOut : Option (List Nibble × Bytes) → List (Bytes × Bytes)
  | some kv => [(keysToBytes kv.1, kv.2)]
  | none => []

/-- total number of nodes below the stack: the fuel needed -/
def stSize (st : List Item) : Nat := (st.map (fun it => it.2.size)).sum

theorem stSize_nil : stSize [] = 0 := rfl
theorem stSize_cons (it : Item) (st : List Item) : stSize (it :: st) = it.2.size + stSize st := by
  simp [stSize]
theorem stSize_append (a b : List Item) : stSize (a ++ b) = stSize a + stSize b := by
  simp [stSize, List.sum_append]
theorem stSize_reverse (a : List Item) : stSize a.reverse = stSize a := by
  simp [stSize, List.sum_reverse]
theorem stSize_filter_le (p : Item → Bool) (a : List Item) : stSize (a.filter p) ≤ stSize a := by
  induction a with
  | nil => simp
  | cons x a ih =>
    simp only [List.filter_cons]
    split <;> simp only [stSize_cons] <;> omega

theorem filter_const_true {α : Type} (l : List α) : l.filter (fun _ => true) = l :=
  List.filter_eq_self.2 (by simp)

theorem flatMap_filter_of_nil {α β : Type} (p : α → Bool) (g : α → List β) (l : List α)
    (h : ∀ x, p x = false → g x = []) : (l.filter p).flatMap g = l.flatMap g := by
  induction l with
  | nil => rfl
  | cons x l ih =>
    simp only [List.filter_cons]
    cases hp : p x
    · simp [ih, h x hp]
    · simp [ih]

theorem iterRun_succ_cons (P : List Nibble) (f : Nat) (ii : Item) (st : List Item) :
    iterRun P (f + 1) (ii :: st) =
      optOut (iterTraverse P ii).2 ++ iterRun P f ((iterTraverse P ii).1.reverse ++ st) := by
  simp only [iterRun]
  split <;> simp_all [optOut]

/-- `checkPrefix pfx v true`: `v` and `pfx` are comparable in the prefix order -/
theorem checkPrefix_true_iff (P v : List Nibble) :
    checkPrefix P v true = true ↔ (v <+: P ∨ P <+: v) := by
  unfold checkPrefix
  by_cases hl : v.length < P.length
  · simp only [Bool.true_and, hl, decide_true, if_true, List.isPrefixOf_iff_prefix]
    constructor
    · exact Or.inl
    · rintro (h | h)
      · exact h
      · have := h.length_le; omega
  · simp only [Bool.true_and, hl, decide_false, Bool.false_eq_true, if_false,
      List.isPrefixOf_iff_prefix]
    constructor
    · exact Or.inr
    · rintro (h | h)
      · rw [h.eq_of_length_le (by omega)]
        exact List.prefix_refl _
      · exact h

theorem checkPrefix_false (P v : List Nibble) : checkPrefix P v false = P.isPrefixOf v := by
  simp [checkPrefix]

/-- a pruned item contributes nothing -/
theorem out_of_not_compat (P : List Nibble) (it : Item) (h : checkPrefix P it.1 true = false) :
    out P it = [] := by
  have hn : ¬ (it.1 <+: P ∨ P <+: it.1) := by
    rw [← checkPrefix_true_iff]; simp [h]
  simp only [out, outQ, List.map_eq_nil_iff, List.filter_eq_nil_iff, List.isPrefixOf_iff_prefix]
  intro e _ hp
  exact hn ((List.prefix_or_prefix_of_prefix (List.prefix_append it.1 e.1) hp))

/-- below an item whose key already has the prefix everything passes -/
theorem out_of_prefix (P : List Nibble) (it : Item) (h : P <+: it.1) :
    out P it = outQ (fun _ => true) it := by
  simp only [out, outQ]
  congr 1
  apply List.filter_congr
  intro e _
  simp only [List.isPrefixOf_iff_prefix]
  exact h.trans (List.prefix_append _ _)

/-- one `node.traverse`: the returned pair and the scheduled items together cover the item -/
theorem trav_out (q : List Nibble → Bool) (k : List Nibble) (n : Node) :
    optOut ((traverseNode k n).2.filter (fun kv => q kv.1)) ++
      (traverseNode k n).1.reverse.flatMap (outQ q) = outQ q (k, n) := by
  cases n with
  | empty => simp [traverseNode, outQ, entries, optOut]
  | leaf ks v =>
    simp only [traverseNode, outQ, entries, Option.filter_some, List.filter_cons]
    split <;> simp [optOut]
  | ext ks nx =>
    simp [traverseNode, outQ, entries, optOut, List.filter_map, Function.comp_def,
      List.append_assoc]
  | branch ch w =>
    have hch : (List.map (fun i => (k ++ [i], ch i))
          (List.filter (fun i => !(ch i).isEmpty) (List.finRange 16).reverse)).reverse.flatMap
            (outQ q) =
        (List.finRange 16).flatMap (fun i => outQ q (k ++ [i], ch i)) := by
      rw [← List.map_reverse, List.filter_reverse, List.reverse_reverse, List.flatMap_map]
      apply flatMap_filter_of_nil
      intro i hi
      cases hc : ch i <;> simp_all [Node.isEmpty, outQ, entries]
    simp only [traverseNode, hch]
    simp only [outQ, entries, List.filter_append, List.map_append, List.filter_flatMap,
      List.map_flatMap, List.filter_map, Function.comp_def, List.map_map, List.append_assoc,
      List.singleton_append]
    congr 1
    cases w with
    | none => simp [optOut]
    | some x =>
      simp only [Option.map_some, Option.filter_some, List.filter_cons, List.append_nil]
      split <;> simp [optOut]

/-- the key returned by `traverse` extends the item's key -/
theorem trav_key (k : List Nibble) (n : Node) (kv : List Nibble × Bytes)
    (h : (traverseNode k n).2 = some kv) : k <+: kv.1 := by
  cases n with
  | empty => simp [traverseNode] at h
  | leaf ks v =>
    simp only [traverseNode, Option.some.injEq] at h
    subst h; exact List.prefix_append _ _
  | ext ks nx => simp [traverseNode] at h
  | branch ch w =>
    cases w with
    | none => simp [traverseNode] at h
    | some x =>
      simp only [traverseNode, Option.map_some, Option.some.injEq] at h
      subst h; exact List.prefix_refl _

/-- the keys scheduled by `traverse` extend the item's key -/
theorem trav_sched_key (k : List Nibble) (n : Node) (it : Item)
    (h : it ∈ (traverseNode k n).1) : k <+: it.1 := by
  cases n with
  | empty => simp [traverseNode] at h
  | leaf ks v => simp [traverseNode] at h
  | ext ks nx =>
    simp only [traverseNode, List.mem_singleton] at h
    subst h; exact List.prefix_append _ _
  | branch ch w =>
    simp only [traverseNode, List.mem_map] at h
    obtain ⟨i, _, rfl⟩ := h
    exact List.prefix_append _ _

theorem trav_size (k : List Nibble) (n : Node) : stSize (traverseNode k n).1 + 1 ≤ n.size := by
  cases n with
  | empty => simp [traverseNode, stSize, Node.size]
  | leaf ks v => simp [traverseNode, stSize, Node.size]
  | ext ks nx => simp [traverseNode, stSize, Node.size]
  | branch ch w =>
    simp only [traverseNode, Node.size, Nat.add_le_add_iff_right]
    have h1 : ∀ l : List (Fin 16), stSize (l.map (fun i => (k ++ [i], ch i))) =
        (l.map (fun i => (ch i).size)).sum := by
      intro l; simp [stSize, Function.comp_def]
    have h2 : ∀ (p : Fin 16 → Bool) (l : List (Fin 16)),
        ((l.filter p).map (fun i => (ch i).size)).sum ≤ (l.map (fun i => (ch i).size)).sum := by
      intro p l
      induction l with
      | nil => simp
      | cons x l ih =>
        simp only [List.filter_cons]
        split <;> simp only [List.map_cons, List.sum_cons] <;> omega
    rw [h1]
    refine Nat.le_trans (h2 _ _) ?_
    rw [List.map_reverse, List.sum_reverse]
    exact Nat.le_refl _

theorem iterTraverse_of_prefix (P k : List Nibble) (n : Node) (hp : P <+: k) :
    iterTraverse P (k, n) = traverseNode k n := by
  have : P.isPrefixOf k = true := List.isPrefixOf_iff_prefix.2 hp
  simp [iterTraverse, checkPrefix_false, this]

theorem iterTraverse_of_not_prefix (P k : List Nibble) (n : Node) (hp : ¬ P <+: k) :
    iterTraverse P (k, n) =
      ((traverseNode k n).1.filter (fun it => checkPrefix P it.1 true),
       (traverseNode k n).2.filter (fun kv => P.isPrefixOf kv.1)) := by
  have hne : P ≠ [] := by rintro rfl; exact hp List.nil_prefix
  have hpf : P.isPrefixOf k = false := by
    rw [Bool.eq_false_iff, ne_eq, List.isPrefixOf_iff_prefix]; exact hp
  simp only [iterTraverse, checkPrefix_false, hne, ne_eq, not_false_eq_true, if_true, hpf,
    Bool.false_eq_true, if_false]
  cases (traverseNode k n).2 <;> simp [Option.filter_some]

/-- one `iterator.traverse` step covers exactly the item's contribution -/
theorem step_out (P k : List Nibble) (n : Node) :
    optOut (iterTraverse P (k, n)).2 ++ (iterTraverse P (k, n)).1.reverse.flatMap (out P) =
      out P (k, n) := by
  have hT := trav_out P.isPrefixOf k n
  unfold out
  by_cases hp : P <+: k
  · rw [iterTraverse_of_prefix P k n hp, ← hT]
    congr 1
    cases hr : (traverseNode k n).2 with
    | none => rfl
    | some kv =>
      have hk := trav_key k n kv hr
      have : P.isPrefixOf kv.1 = true := List.isPrefixOf_iff_prefix.2 (hp.trans hk)
      simp [Option.filter_some, this]
  · rw [iterTraverse_of_not_prefix P k n hp, ← hT]
    simp only
    rw [← List.filter_reverse,
      flatMap_filter_of_nil _ _ _ (fun it h => out_of_not_compat P it h)]

theorem step_size (P k : List Nibble) (n : Node) :
    stSize (iterTraverse P (k, n)).1 + 1 ≤ n.size := by
  have h := trav_size k n
  by_cases hp : P <+: k
  · rw [iterTraverse_of_prefix P k n hp]; exact h
  · rw [iterTraverse_of_not_prefix P k n hp]
    have := stSize_filter_le (fun it => checkPrefix P it.1 true) (traverseNode k n).1
    simp only
    omega

/-- the stack machine, for an arbitrary nibble prefix `P` (empty = no filter): with enough
    fuel it outputs, item by item from the top of the stack, the entries below the item whose
    full key starts with `P`. -/
theorem iterRun_eq (P : List Nibble) (fuel : Nat) (st : List Item) (h : stSize st ≤ fuel) :
    iterRun P fuel st = st.flatMap (out P) := by
  induction fuel generalizing st with
  | zero =>
    cases st with
    | nil => simp [iterRun]
    | cons it st =>
      rw [stSize_cons] at h
      have : 0 < it.2.size := by cases it.2 <;> simp [Node.size]
      omega
  | succ f ih =>
    cases st with
    | nil => simp [iterRun]
    | cons it st =>
      obtain ⟨k, n⟩ := it
      rw [iterRun_succ_cons, ih, List.flatMap_append, ← List.append_assoc, step_out,
        List.flatMap_cons]
      have := step_size P k n
      rw [stSize_cons] at h
      rw [stSize_append, stSize_reverse]
      simp only at h
      omega

end Iter

/-! ### Stage 3: the iterator without prefix -/

theorem iterRun_nil_eq (st : List Item) (fuel : Nat)
    (h : (st.map (fun it => it.2.size)).sum ≤ fuel) :
    iterRun [] fuel st =
      st.flatMap (fun it => (entries it.2).map (fun e => (keysToBytes (it.1 ++ e.1), e.2))) := by
  rw [Iter.iterRun_eq [] fuel st h]
  congr 1
  funext it
  simp [Iter.out, Iter.outQ, Iter.filter_const_true]

theorem filter_eq_entries (t : Node) (pfx : Bytes) :
    filter t pfx =
      ((entries t).filter (fun e => (bytesToNibs pfx).isPrefixOf e.1)).map
        (fun e => (keysToBytes e.1, e.2)) := by
  have h : iterRun (bytesToNibs pfx) (t.size + 1) [([], t)] =
      ((entries t).filter (fun e => (bytesToNibs pfx).isPrefixOf e.1)).map
        (fun e => (keysToBytes e.1, e.2)) := by
    rw [Iter.iterRun_eq _ _ _ (by simp [Iter.stSize])]
    simp [Iter.out, Iter.outQ]
  cases t with
  | empty => simp [filter, entries]
  | leaf ks v => simpa [filter] using h
  | ext ks nx => simpa [filter] using h
  | branch ch w => simpa [filter] using h

theorem iterator_eq (t : Node) : iterator t = (entries t).map (fun e => (keysToBytes e.1, e.2)) := by
  simp [iterator, filter_eq_entries, bytesToNibs, Iter.filter_const_true]

/-! ### Stage 4: byte level -/

namespace Iter

theorem ofNat_hi_lo (b : UInt8) : UInt8.ofNat ((hiNib b).val * 16 + (loNib b).val) = b := by
  apply UInt8.toNat_inj.1
  simp only [hiNib, loNib, UInt8.toNat_ofNat']
  have := b.toNat_lt
  omega

theorem hi_lo_eq_iff (x : UInt8) (a c : Nibble) :
    (hiNib x = a ∧ loNib x = c) ↔ x = UInt8.ofNat (a.val * 16 + c.val) := by
  constructor
  · rintro ⟨rfl, rfl⟩; exact (ofNat_hi_lo x).symm
  · rintro rfl
    simp only [hiNib, loNib, UInt8.toNat_ofNat', Fin.ext_iff]
    omega

theorem byte_lt_iff (x y : UInt8) :
    x < y ↔ hiNib x < hiNib y ∨ (hiNib x = hiNib y ∧ loNib x < loNib y) := by
  simp only [UInt8.lt_iff_toNat_lt, hiNib, loNib, Fin.lt_def, Fin.ext_iff]
  omega

theorem byte_eq_iff (x y : UInt8) :
    x = y ↔ hiNib x = hiNib y ∧ loNib x = loNib y := by
  simp only [← UInt8.toNat_inj, hiNib, loNib, Fin.ext_iff]
  omega

end Iter

theorem keysToBytes_bytesToNibs (kb : Bytes) : keysToBytes (bytesToNibs kb) = kb := by
  induction kb with
  | nil => rfl
  | cons b r ih => simp only [bytesToNibs, keysToBytes, ih, Iter.ofNat_hi_lo]

theorem bytesToNibs_injective (a b : Bytes) (h : bytesToNibs a = bytesToNibs b) : a = b := by
  rw [← keysToBytes_bytesToNibs a, ← keysToBytes_bytesToNibs b, h]

/-- `bytesToNibs` is strictly monotone (and reflects the order): lexicographic order on byte
    strings (bytes compared as unsigned numbers) vs lexicographic order on nibble lists. -/
theorem bytesToNibs_lt_iff (a b : Bytes) : bytesToNibs a < bytesToNibs b ↔ a < b := by
  induction a generalizing b with
  | nil => cases b <;> simp [bytesToNibs]
  | cons x a ih =>
    cases b with
    | nil => simp [bytesToNibs]
    | cons y b =>
      simp only [bytesToNibs, List.cons_lt_cons_iff, ih, Iter.byte_lt_iff, Iter.byte_eq_iff]
      grind

/-- nibble prefix vs byte prefix; holds for every nibble key (an odd trailing nibble is cut by
    `keysToBytes` but cannot matter as `bytesToNibs pfx` has even length) -/
theorem isPrefixOf_bytesToNibs (pfx : Bytes) (k : List Nibble) :
    (bytesToNibs pfx).isPrefixOf k = pfx.isPrefixOf (keysToBytes k) := by
  induction pfx generalizing k with
  | nil => simp [bytesToNibs]
  | cons b r ih =>
    match k with
    | [] => simp [bytesToNibs, keysToBytes]
    | [a] => simp [bytesToNibs, keysToBytes, List.isPrefixOf]
    | a :: c :: k' =>
      simp only [bytesToNibs, keysToBytes, List.isPrefixOf_cons_cons, ih]
      rw [← Bool.and_assoc, Bool.eq_iff_iff]
      simp only [Bool.and_eq_true, beq_iff_eq, Iter.hi_lo_eq_iff]

theorem iterator_sorted_complete (t : Node)
    (hk : ∀ k v, get t k = some v → ∃ kb : Bytes, k = bytesToNibs kb) :
    (iterator t).Pairwise (fun a b => a.1 < b.1) ∧
      ∀ kb v, (kb, v) ∈ iterator t ↔ get t (bytesToNibs kb) = some v := by
  rw [iterator_eq]
  constructor
  · rw [List.pairwise_map]
    refine (entries_sorted t).imp_of_mem ?_
    intro a b ha hb hab
    obtain ⟨ka, hka⟩ := hk a.1 a.2 ((mem_entries_iff t a.1 a.2).1 ha)
    obtain ⟨kb, hkb⟩ := hk b.1 b.2 ((mem_entries_iff t b.1 b.2).1 hb)
    rw [hka, hkb] at hab
    simp only [hka, hkb, keysToBytes_bytesToNibs]
    exact (bytesToNibs_lt_iff _ _).1 hab
  · intro kb v
    rw [← mem_entries_iff]
    simp only [List.mem_map, Prod.mk.injEq]
    constructor
    · rintro ⟨⟨k, v'⟩, hm, h1, h2⟩
      obtain ⟨kb', rfl⟩ := hk k v' ((mem_entries_iff t k v').1 hm)
      simp only [keysToBytes_bytesToNibs] at h1 h2
      subst h1 h2
      exact hm
    · intro hm
      exact ⟨(bytesToNibs kb, v), hm, keysToBytes_bytesToNibs kb, rfl⟩

/-! ### Stage 5: the prefix filter -/

/-- `Filter(prefix)` yields the iterator's pairs whose key has the byte prefix, in the same
    order.  No hypothesis on the trie is needed. -/
theorem filter_eq (t : Node) (pfx : Bytes) :
    filter t pfx = (iterator t).filter (fun e => pfx.isPrefixOf e.1) := by
  rw [filter_eq_entries, iterator_eq, List.filter_map]
  congr 1
  apply List.filter_congr
  intro e _
  simp [isPrefixOf_bytesToNibs]

theorem filter_sorted_complete (t : Node) (pfx : Bytes)
    (hk : ∀ k v, get t k = some v → ∃ kb : Bytes, k = bytesToNibs kb) :
    (filter t pfx).Pairwise (fun a b => a.1 < b.1) ∧
      ∀ kb v, (kb, v) ∈ filter t pfx ↔ pfx <+: kb ∧ get t (bytesToNibs kb) = some v := by
  obtain ⟨h1, h2⟩ := iterator_sorted_complete t hk
  rw [filter_eq]
  refine ⟨h1.filter _, ?_⟩
  intro kb v
  simp only [List.mem_filter, h2, List.isPrefixOf_iff_prefix]
  exact And.comm

/-! ### non-vacuity -/

namespace Iter

/-- a small trie holding the byte keys 12, 1234, 1235, 20 (one is a proper prefix of others) -/
def exTrie : Node :=
  set (set (set (set .empty (bytesToNibs [0x12, 0x34]) [1]) (bytesToNibs [0x12]) [2])
    (bytesToNibs [0x20]) [3]) (bytesToNibs [0x12, 0x35]) [4]

theorem exTrie_entries : entries exTrie =
    [(bytesToNibs [0x12], [2]), (bytesToNibs [0x12, 0x34], [1]), (bytesToNibs [0x12, 0x35], [4]),
     (bytesToNibs [0x20], [3])] := by decide

theorem exTrie_keys (k : List Nibble) (v : Bytes) (h : get exTrie k = some v) :
    ∃ kb : Bytes, k = bytesToNibs kb := by
  rw [← mem_entries_iff, exTrie_entries] at h
  simp only [List.mem_cons, Prod.mk.injEq, List.not_mem_nil, or_false] at h
  rcases h with ⟨rfl, _⟩ | ⟨rfl, _⟩ | ⟨rfl, _⟩ | ⟨rfl, _⟩ <;> exact ⟨_, rfl⟩

end Iter

example : (iterator Iter.exTrie).Pairwise (fun a b => a.1 < b.1) ∧
    ∀ kb v, (kb, v) ∈ iterator Iter.exTrie ↔ get Iter.exTrie (bytesToNibs kb) = some v :=
  iterator_sorted_complete Iter.exTrie Iter.exTrie_keys

example : iterator Iter.exTrie = [([0x12], [2]), ([0x12, 0x34], [1]), ([0x12, 0x35], [4]),
    ([0x20], [3])] := by decide

example : filter Iter.exTrie [0x12] = [([0x12], [2]), ([0x12, 0x34], [1]), ([0x12, 0x35], [4])] := by
  decide

/-- `iterRun_nil_eq` / `Iter.iterRun_eq`: the fuel hypothesis is satisfiable (and tight enough
    for `filter`, which uses `t.size + 1`) -/
example : ((([([], Iter.exTrie)] : List Item).map (fun it => it.2.size)).sum ≤
    Iter.exTrie.size + 1) := by simp

end Goloop.C17
