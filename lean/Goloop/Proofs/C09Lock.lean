/-
  Proofs/C09Lock: how a transaction reaches an account (`access`) in terms of its request list,
  for the virtual states built over a block (`build`).
-/
import Goloop.Proofs.C09
namespace Goloop.C09.Proofs
open Goloop.C09

/-- transaction `i` of the block (no requests, no program beyond the block) -/
def txAt (txs : List Tx) (i : Nat) : Tx := txs.getD i ⟨[], []⟩
/-- what applyLockRequests left in the virtual state of transaction `i` -/
def lkAt (txs : List Tx) (i : Nat) : Locks := (build txs).getD i ⟨0, []⟩
/-- the request list of transaction `i` lets it modify account `a` -/
def writer (txs : List Tx) (i a : Nat) : Bool := mayWrite (txAt txs i).reqs a
/-- the dependency the bookkeeping records for account `a` of transaction `i` -/
def dep (txs : List Tx) (i a : Nat) : Option Nat := lastWriter 0 (txs.take i) a

theorem txAt_lt {txs : List Tx} {i : Nat} (h : i < txs.length) : txAt txs i = txs[i] := by
  simp [txAt, List.getD_eq_getElem?_getD, h]

theorem writer_ge {txs : List Tx} {i a : Nat} (h : txs.length ≤ i) : writer txs i a = false := by
  simp [writer, txAt, List.getD_eq_getElem?_getD, h, mayWrite]

theorem build_length (txs : List Tx) : (build txs).length = txs.length := by
  unfold build
  generalize Ctx.empty = c
  generalize 0 = b
  induction txs generalizing c b with
  | nil => rfl
  | cons t rest ih => simp [buildFrom, ih]

theorem lkAt_eq {txs : List Tx} {i : Nat} (h : i < txs.length) :
    lkAt txs i = (applyLockRequests (ctxAfter Ctx.empty 0 (txs.take i)) i (txAt txs i).reqs).1 := by
  have := buildFrom_getElem txs Ctx.empty 0 i h
  simp only [Nat.zero_add] at this
  unfold lkAt build
  rw [List.getD_eq_getElem?_getD, this, txAt_lt h]
  rfl

theorem getLocker_prefix (txs : List Tx) (i a : Nat) :
    (ctxAfter Ctx.empty 0 (txs.take i)).getLocker a = dep txs i a := by
  rw [getLocker_ctxAfter]
  unfold dep
  cases lastWriter 0 (List.take i txs) a <;> simp [Ctx.getLocker, Ctx.empty]

/-- what `dep` means -/
theorem dep_spec {txs : List Tx} {i : Nat} (hi : i ≤ txs.length) (a : Nat) :
    (∀ k, dep txs i a = some k → k < i ∧ writer txs k a = true ∧
        ∀ j, k < j → j < i → writer txs j a = false) ∧
    (dep txs i a = none → ∀ j, j < i → writer txs j a = false) := by
  have hspec := lastWriter_spec' a (txs.take i) 0
  have hlen : (txs.take i).length = i := by simp; omega
  constructor
  · intro k hk
    obtain ⟨h1, _, h3, h4⟩ := hspec.1 k hk
    simp only [Nat.sub_zero] at h1 h3 h4
    rw [hlen] at h1
    refine ⟨h1, ?_, ?_⟩
    · simp only [List.getElem_take] at h3
      rw [writer, txAt_lt (by omega)]; exact h3
    · intro j hkj hji
      have := h4 j (by omega) hkj
      simp only [List.getElem_take] at this
      rw [writer, txAt_lt (by omega)]; exact this
  · intro hn j hj
    have := hspec.2 hn j (by omega)
    simp only [List.getElem_take] at this
    rw [writer, txAt_lt (by omega)]; exact this

/-! ### the per-account map: what `find?` sees -/

def lookW (m : List (Nat × Lk)) (a : Nat) : Bool :=
  match m.find? (fun p => p.1 = a) with
  | some (_, .write) => true
  | _ => false

theorem lookW_cons (b : Nat) (k : Lk) (rest : List (Nat × Lk)) (a : Nat) :
    lookW ((b, k) :: rest) a = if b = a then decide (k = .write) else lookW rest a := by
  unfold lookW
  by_cases h : b = a
  · subst h; cases k <;> simp
  · simp [h]

theorem lookW_addReq (m : List (Nat × Lk)) (a' : Nat) (l : Lk) (a : Nat) :
    lookW (addReq m a' l) a = (lookW m a || (decide (a' = a) && decide (l = .write))) := by
  induction m with
  | nil =>
    simp only [addReq, lookW_cons]
    by_cases h : a' = a <;> simp [h, lookW]
  | cons p rest ih =>
    obtain ⟨b, k⟩ := p
    simp only [addReq]
    by_cases hb : b = a'
    · subst hb
      simp only [if_true, lookW_cons]
      by_cases hba : b = a
      · subst hba; cases k <;> cases l <;> simp [Lk.num]
      · simp [hba]
    · simp only [hb, if_false, lookW_cons]
      by_cases hba : b = a
      · subst hba
        have : ¬ a' = b := fun h => hb h.symm
        simp [this]
      · simp [hba, ih]

theorem lookW_fold (wl : Nat) (hwl : wl < 2) (a : Nat) (reqs : List Req) : ∀ m0,
    lookW (reqs.foldl (acctStep wl) m0) a = (lookW m0 a || hasAcctW reqs a) := by
  induction reqs with
  | nil => intro m0; simp [hasAcctW]
  | cons q rest ih =>
    intro m0
    simp only [List.foldl_cons]
    rw [ih]
    unfold acctStep
    cases hq : q.acct with
    | none => simp [hasAcctW, hq]
    | some b =>
      simp only
      by_cases hle : q.lock.num ≤ wl
      · simp only [hle, if_true]
        have : q.lock ≠ .write := by
          intro h; rw [h] at hle; simp [Lk.num] at hle; omega
        simp [hasAcctW, hq, this]
      · simp only [hle, if_false]
        rw [lookW_addReq]
        simp only [hasAcctW, List.any_cons, hq, Option.some.injEq]
        simp [Bool.or_assoc]

theorem lookW_acctMap (wl : Nat) (hwl : wl < 2) (reqs : List Req) (a : Nat) :
    lookW (acctMap wl reqs) a = hasAcctW reqs a := by
  unfold acctMap
  rw [lookW_fold wl hwl a reqs []]
  simp [lookW]

/-! ### world lock values -/

theorem worldFold_noRead (reqs : List Req) (h : ∀ r ∈ reqs, ¬ (r.acct = none ∧ r.lock = .read)) :
    ∀ wl0, (wl0 = 0 ∨ wl0 = 2) →
      let r := reqs.foldl (fun wl r => if r.acct = none ∧ r.lock.num > wl then r.lock.num else wl) wl0
      r = 0 ∨ r = 2 := by
  induction reqs with
  | nil => intro wl0 h0; simpa using h0
  | cons q rest ih =>
    intro wl0 h0
    simp only [List.foldl_cons]
    have ih' := ih (fun r hr => h r (List.mem_cons_of_mem _ hr))
    by_cases hc : q.acct = none ∧ q.lock.num > wl0
    · simp only [hc, and_self, if_true]
      apply ih'
      have hq := h q List.mem_cons_self
      cases hl : q.lock with
      | read => exact absurd ⟨hc.1, hl⟩ hq
      | write => right; rfl
    · simp only [hc, if_false]
      exact ih' wl0 h0

theorem worldLockOf_noRead (reqs : List Req) (h : ∀ r ∈ reqs, ¬ (r.acct = none ∧ r.lock = .read)) :
    worldLockOf reqs = 0 ∨ worldLockOf reqs = 2 :=
  worldFold_noRead reqs h 0 (Or.inl rfl)

/-! ### access of a transaction of the block -/

theorem lkAt_world {txs : List Tx} {i : Nat} (h : i < txs.length) :
    (lkAt txs i).world = worldLockOf (txAt txs i).reqs := by
  rw [lkAt_eq h]
  unfold applyLockRequests
  by_cases hw : worldLockOf (txAt txs i).reqs = 2 <;> simp [hw]

theorem writer_of_world {txs : List Tx} {i : Nat} (h : i < txs.length) (hw : (lkAt txs i).world = 2) (a : Nat) :
    writer txs i a = true := by
  rw [lkAt_world h] at hw
  have := (worldLockOf_eq_two _).mp hw
  simp [writer, mayWrite_eq, this]

theorem access_world {txs : List Tx} {i : Nat} (hw : (lkAt txs i).world = 2) (a : Nat) :
    access (lkAt txs i) a = .worldW := by
  simp [access, hw]

/-- a transaction without world lock: its entry for an account it may write is a write entry
    depending on the last earlier writer; otherwise a read entry (same dependency) or nothing -/
theorem access_noWorld {txs : List Tx} {i : Nat} (h : i < txs.length) (hw : (lkAt txs i).world = 0) (a : Nat) :
    (writer txs i a = true →
      access (lkAt txs i) a = .rw (dep txs i a) ∧
      ∃ l ∈ (lkAt txs i).las, l.acct = a ∧ l.lock = .write ∧ l.depend = dep txs i a) ∧
    (writer txs i a = false →
      access (lkAt txs i) a = .ro (dep txs i a) ∨ access (lkAt txs i) a = .nil) := by
  have hwl : worldLockOf (txAt txs i).reqs = 0 := by rw [← lkAt_world h]; exact hw
  have hnw : hasWorldW (txAt txs i).reqs = false := by
    cases hh : hasWorldW (txAt txs i).reqs
    · rfl
    · have := (worldLockOf_eq_two _).mpr hh; omega
  have hwr : writer txs i a = hasAcctW (txAt txs i).reqs a := by
    simp [writer, mayWrite_eq, hnw]
  have hlk := lkAt_eq h
  unfold applyLockRequests at hlk
  simp only [hwl, Nat.reduceEqDiff, if_false] at hlk
  have hlook := lookW_acctMap 0 (by omega) (txAt txs i).reqs a
  generalize hm : acctMap 0 (txAt txs i).reqs = m at hlk hlook
  have hgl := getLocker_prefix txs i
  generalize hc : ctxAfter Ctx.empty 0 (List.take i txs) = c at hlk hgl
  have hfind : (lkAt txs i).las.find? (fun l => l.acct = a) =
      (m.find? (fun p => p.1 = a)).map (fun p => (⟨p.1, p.2, c.getLocker p.1⟩ : Las)) := by
    rw [hlk]
    simp only [List.find?_map]
    congr 1
  have hworld0 : (lkAt txs i).world = 0 := hw
  constructor
  · intro hwa
    rw [hwr, ← hlook] at hwa
    unfold lookW at hwa
    cases hf : m.find? (fun p => decide (p.1 = a)) with
    | none => simp [hf] at hwa
    | some p =>
      obtain ⟨b, k⟩ := p
      cases k with
      | read => simp [hf] at hwa
      | write =>
        have hb : b = a := by
          have := List.find?_some hf
          simpa using this
        subst hb
        rw [hf] at hfind
        simp only [Option.map_some] at hfind
        refine ⟨?_, ⟨b, .write, c.getLocker b⟩, List.mem_of_find?_eq_some hfind, rfl, rfl, hgl b⟩
        simp [access, hworld0, hfind, hgl b]
  · intro hwa
    rw [hwr, ← hlook] at hwa
    unfold lookW at hwa
    cases hf : m.find? (fun p => decide (p.1 = a)) with
    | none =>
      right
      rw [hf] at hfind
      simp [access, hworld0, hfind]
    | some p =>
      obtain ⟨b, k⟩ := p
      cases k with
      | write => simp [hf] at hwa
      | read =>
        left
        have hb : b = a := by
          have := List.find?_some hf
          simpa using this
        subst hb
        rw [hf] at hfind
        simp [access, hworld0, hfind, hgl b]

end Goloop.C09.Proofs
