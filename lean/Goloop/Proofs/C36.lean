/-
  Proofs/C36: helper lemmas for the Address text/byte forms.
-/
import Goloop.Model.C36
namespace Goloop.C36.Proofs
open Goloop Goloop.C36

/-! ### hex digits -/

theorem hexDigitB_toNat {n : Nat} (h : n < 16) : (hexDigitB n).toNat = hexDigitCode n := by
  unfold hexDigitB hexDigitCode
  split <;> simp <;> omega

theorem fromHexCode_digit {n : Nat} (h : n < 16) : fromHexCode (hexDigitCode n) = some n := by
  unfold fromHexCode hexDigitCode
  by_cases h10 : n < 10
  · simp only [h10, if_true]
    rw [if_pos (by omega)]; congr 1; omega
  · simp only [h10, if_false]
    rw [if_neg (by omega), if_pos (by omega)]; congr 1; omega

/-- a character that decodes and is neither upper-case nor non-ASCII is THE lower-case digit -/
theorem digit_of_fromHexCode {c : UInt8} {x : Nat} (h : fromHexCode c.toNat = some x)
    (hl : ¬ ((65 ≤ c.toNat ∧ c.toNat ≤ 90) ∨ c.toNat ≥ 128)) : x < 16 ∧ c = hexDigitB x := by
  unfold fromHexCode at h
  have hc := c.toNat_lt
  split at h
  · have hx := Option.some.inj h
    refine ⟨by omega, UInt8.toNat_inj.mp ?_⟩
    rw [hexDigitB_toNat (by omega)]; unfold hexDigitCode; rw [if_pos (by omega)]; omega
  · split at h
    · have hx := Option.some.inj h
      refine ⟨by omega, UInt8.toNat_inj.mp ?_⟩
      rw [hexDigitB_toNat (by omega)]; unfold hexDigitCode; rw [if_neg (by omega)]; omega
    · split at h
      · exfalso; apply hl; left; omega
      · cases h

theorem fromHexCode_lt {c x : Nat} (h : fromHexCode c = some x) : x < 16 := by
  unfold fromHexCode at h
  split at h
  · have := Option.some.inj h; omega
  · split at h
    · have := Option.some.inj h; omega
    · split at h
      · have := Option.some.inj h; omega
      · cases h

theorem digit_lower {n : Nat} (h : n < 16) :
    ¬ ((65 ≤ (hexDigitB n).toNat ∧ (hexDigitB n).toNat ≤ 90) ∨ (hexDigitB n).toNat ≥ 128) := by
  rw [hexDigitB_toNat h]; unfold hexDigitCode; split <;> omega

theorem isLowerHexB_iff (c : UInt8) :
    isLowerHexB c = true ↔ (∃ x, fromHexCode c.toNat = some x) ∧ ¬ ((65 ≤ c.toNat ∧ c.toNat ≤ 90) ∨ c.toNat ≥ 128) := by
  unfold isLowerHexB fromHexCode
  have hc := c.toNat_lt
  constructor
  · intro h
    simp only [decide_eq_true_eq] at h
    constructor
    · rcases h with h | h
      · exact ⟨_, by rw [if_pos h]⟩
      · exact ⟨_, by rw [if_neg (by omega), if_pos h]⟩
    · omega
  · rintro ⟨⟨x, hx⟩, hl⟩
    simp only [decide_eq_true_eq]
    split at hx
    · left; assumption
    · split at hx
      · right; assumption
      · split at hx
        · exfalso; apply hl; left; omega
        · cases hx

/-! ### hex strings -/

theorem hexEncodeB_cons (b : UInt8) (r : Bytes) :
    hexEncodeB (b :: r) = hexDigitB (b.toNat / 16) :: hexDigitB (b.toNat % 16) :: hexEncodeB r := by
  simp [hexEncodeB]

theorem hexEncodeB_length (bs : Bytes) : (hexEncodeB bs).length = 2 * bs.length := by
  induction bs with
  | nil => rfl
  | cons b r ih => rw [hexEncodeB_cons]; simp [ih]; omega

theorem byte_of_nibbles (b : UInt8) : UInt8.ofNat (b.toNat / 16 * 16 + b.toNat % 16) = b := by
  have : b.toNat / 16 * 16 + b.toNat % 16 = b.toNat := by omega
  rw [this]; exact UInt8.ofNat_toNat

theorem nibbles_of_byte {x y : Nat} (hx : x < 16) (hy : y < 16) :
    (UInt8.ofNat (x * 16 + y)).toNat / 16 = x ∧ (UInt8.ofNat (x * 16 + y)).toNat % 16 = y := by
  have : (UInt8.ofNat (x * 16 + y)).toNat = x * 16 + y := by simp; omega
  rw [this]; omega

theorem hexDecode_encode (bs : Bytes) : hexDecodeB (hexEncodeB bs) = some bs := by
  induction bs with
  | nil => rfl
  | cons b r ih =>
    have hb := b.toNat_lt
    rw [hexEncodeB_cons]
    unfold hexDecodeB
    rw [hexDigitB_toNat (by omega), hexDigitB_toNat (by omega : b.toNat % 16 < 16),
      fromHexCode_digit (by omega), fromHexCode_digit (by omega)]
    simp only [ih, byte_of_nibbles]

theorem lowerDiffers_encode (bs : Bytes) : lowerDiffers (hexEncodeB bs) = false := by
  unfold lowerDiffers
  rw [Bool.eq_false_iff]
  intro h
  rw [List.any_eq_true] at h
  obtain ⟨c, hc, hp⟩ := h
  unfold hexEncodeB at hc
  rw [List.mem_flatMap] at hc
  obtain ⟨b, _, hcb⟩ := hc
  have hb := b.toNat_lt
  simp only [decide_eq_true_eq] at hp
  simp only [List.mem_cons, List.not_mem_nil, or_false] at hcb
  rcases hcb with rfl | rfl
  · exact digit_lower (by omega) hp
  · exact digit_lower (by omega) hp

theorem lowerDiffers_cons (c : UInt8) (r : Bytes) :
    lowerDiffers (c :: r) = false ↔
      ¬ ((65 ≤ c.toNat ∧ c.toNat ≤ 90) ∨ c.toNat ≥ 128) ∧ lowerDiffers r = false := by
  unfold lowerDiffers
  simp only [List.any_cons, Bool.or_eq_false_iff, decide_eq_false_iff_not]

/-- decoding a lower-case string and re-encoding gives the string back; lengths match. -/
theorem hexEncode_decode : ∀ (s bs : Bytes), hexDecodeB s = some bs → lowerDiffers s = false →
    hexEncodeB bs = s
  | [], bs, h, _ => by
    simp [hexDecodeB] at h; subst h; rfl
  | [_], bs, h, _ => by simp [hexDecodeB] at h
  | a :: b :: rest, bs, h, hl => by
    unfold hexDecodeB at h
    rw [lowerDiffers_cons, lowerDiffers_cons] at hl
    obtain ⟨ha, hb, hr⟩ := hl
    split at h
    · rename_i x y hx hy
      split at h
      · rename_i r hrd
        have := Option.some.inj h; subst this
        obtain ⟨hx16, rfl⟩ := digit_of_fromHexCode hx ha
        obtain ⟨hy16, rfl⟩ := digit_of_fromHexCode hy hb
        rw [hexEncodeB_cons, (nibbles_of_byte hx16 hy16).1, (nibbles_of_byte hx16 hy16).2,
          hexEncode_decode rest r hrd hr]
      · cases h
    · cases h

theorem hexDecodeB_length : ∀ (s bs : Bytes), hexDecodeB s = some bs → s.length = 2 * bs.length
  | [], bs, h => by simp [hexDecodeB] at h; subst h; rfl
  | [_], bs, h => by simp [hexDecodeB] at h
  | a :: b :: rest, bs, h => by
    unfold hexDecodeB at h
    split at h
    · split at h
      · rename_i r hrd
        have := Option.some.inj h; subst this
        have := hexDecodeB_length rest r hrd
        simp; omega
      · cases h
    · cases h

/-- `hex.DecodeString` succeeds exactly on even-length strings of hex characters. -/
theorem hexDecodeB_isSome_iff : ∀ (s : Bytes),
    (∃ bs, hexDecodeB s = some bs) ↔ s.length % 2 = 0 ∧ ∀ c ∈ s, ∃ x, fromHexCode c.toNat = some x
  | [] => by simp [hexDecodeB]
  | [_] => by simp [hexDecodeB]
  | a :: b :: rest => by
    have ih := hexDecodeB_isSome_iff rest
    constructor
    · rintro ⟨bs, h⟩
      unfold hexDecodeB at h
      split at h
      · rename_i x y hx hy
        split at h
        · rename_i r hrd
          obtain ⟨hl, hc⟩ := ih.mp ⟨r, hrd⟩
          refine ⟨by simp; omega, ?_⟩
          intro c hcm
          simp only [List.mem_cons] at hcm
          rcases hcm with rfl | rfl | hcm
          · exact ⟨x, hx⟩
          · exact ⟨y, hy⟩
          · exact hc c hcm
        · cases h
      · cases h
    · rintro ⟨hl, hc⟩
      obtain ⟨x, hx⟩ := hc a (by simp)
      obtain ⟨y, hy⟩ := hc b (by simp)
      obtain ⟨r, hr⟩ := ih.mpr ⟨by simp at hl; omega, fun c hcm => hc c (by simp [hcm])⟩
      exact ⟨UInt8.ofNat (x * 16 + y) :: r, by unfold hexDecodeB; simp [hx, hy, hr]⟩

/-! ### setters -/

theorem setTypeAndID_20 (ic : Bool) (id : Bytes) (h : id.length = 20) :
    setTypeAndID ic id = (if ic then 1 else 0) :: id := by
  unfold setTypeAndID
  rw [if_neg (show ¬ id.length < 20 by omega)]
  congr 1
  have : id.take 20 = id.take id.length := by rw [h]
  rw [this, List.take_length]

theorem setTypeAndID_valid (ic : Bool) (id : Bytes) : Valid (setTypeAndID ic id) := by
  unfold setTypeAndID
  refine ⟨_, _, rfl, ?_, by cases ic <;> simp⟩
  split
  · simp; omega
  · simp; omega

theorem setBytes_bytes (a : Address) (h : Valid a) : setBytes (bytes a) = some a := by
  obtain ⟨t, id, rfl, hl, ht⟩ := h
  unfold setBytes bytes
  simp [hl, ht]

end Goloop.C36.Proofs
