import Goloop.Model.C20
namespace Goloop.C20
open Goloop

/-- `k` has some value in the store -/
def Has (store : List (Bytes × Bytes)) (k : Bytes) : Prop := ∃ v, (k, v) ∈ store

theorem has_iff (store : List (Bytes × Bytes)) (k : Bytes) : has store k = true ↔ Has store k := by
  unfold has Has
  simp only [List.any_eq_true, beq_iff_eq]
  constructor
  · rintro ⟨⟨k', v⟩, hm, rfl⟩; exact ⟨v, hm⟩
  · rintro ⟨v, hm⟩; exact ⟨(k, v), hm, rfl⟩

theorem Has.mono {st st' : List (Bytes × Bytes)} {k : Bytes} (h : ∀ e, e ∈ st → e ∈ st') :
    Has st k → Has st' k := fun ⟨v, hv⟩ => ⟨v, h _ hv⟩

/-! ### requestData / resolveRefs -/

theorem mem_insertAfter (l : List Bytes) (i : Nat) (k x : Bytes) :
    x ∈ insertAfter l i k ↔ x = k ∨ x ∈ l := by
  unfold insertAfter
  simp only [List.mem_append, List.mem_cons]
  constructor
  · rintro (h | h | h)
    · exact Or.inr (List.mem_of_mem_take h)
    · exact Or.inl h
    · exact Or.inr (List.mem_of_mem_drop h)
  · rintro (h | h)
    · exact Or.inr (Or.inl h)
    · have := List.take_append_drop (i + 1) l
      rw [← this] at h
      rcases List.mem_append.mp h with h | h
      · exact Or.inl h
      · exact Or.inr (Or.inr h)

theorem insertAfter_getElem? (l : List Bytes) (i j : Nat) (k : Bytes) (hj : j ≤ i) (hl : j < l.length) :
    (insertAfter l i k)[j]? = l[j]? := by
  unfold insertAfter
  have h1 : j < (l.take (i + 1)).length := by simp [List.length_take]; omega
  rw [List.getElem?_append_left h1, List.getElem?_take_of_lt (by omega)]

theorem nodup_insertAfter (l : List Bytes) (i : Nat) (k : Bytes) (hn : l.Nodup) (hk : k ∉ l) :
    (insertAfter l i k).Nodup := by
  unfold insertAfter
  have hsplit := List.take_append_drop (i + 1) l
  rw [← hsplit] at hn hk
  rw [List.nodup_append] at hn ⊢
  obtain ⟨h1, h2, h3⟩ := hn
  refine ⟨h1, ?_, ?_⟩
  · rw [List.nodup_cons]
    exact ⟨fun h => hk (List.mem_append.mpr (Or.inr h)), h2⟩
  · intro a ha b hb
    rcases List.mem_cons.mp hb with rfl | hb
    · intro hab; subst hab; exact hk (List.mem_append.mpr (Or.inl ha))
    · exact h3 a ha b hb

/-- the invariant on the mark: it is an index at or after `i` -/
def MarkGe (i : Nat) : Option Nat → Prop
  | none => False
  | some j => i ≤ j

theorem requestData_pos (reqs : List Bytes) (m : Option Nat) (k : Bytes) (h : k ∈ reqs) :
    requestData reqs m k = (reqs, m) := by
  simp [requestData, h]

theorem requestData_neg_none (reqs : List Bytes) (k : Bytes) (h : k ∉ reqs) :
    requestData reqs none k = (reqs ++ [k], none) := by
  simp [requestData, h]

theorem requestData_neg_some (reqs : List Bytes) (i : Nat) (k : Bytes) (h : k ∉ reqs) :
    requestData reqs (some i) k = (insertAfter reqs i k, some (i + 1)) := by
  simp [requestData, h]

theorem requestData_mem (reqs : List Bytes) (m : Option Nat) (k x : Bytes) :
    x ∈ (requestData reqs m k).1 ↔ x = k ∨ x ∈ reqs := by
  by_cases hk : k ∈ reqs
  · rw [requestData_pos _ _ _ hk]
    constructor
    · exact Or.inr
    · rintro (rfl | h); exact hk; exact h
  · cases m with
    | none => rw [requestData_neg_none _ _ hk]; simp [List.mem_append, or_comm]
    | some i => rw [requestData_neg_some _ _ _ hk]; exact mem_insertAfter reqs i k x

theorem requestData_nodup (reqs : List Bytes) (m : Option Nat) (k : Bytes) (hn : reqs.Nodup) :
    (requestData reqs m k).1.Nodup := by
  by_cases hk : k ∈ reqs
  · rw [requestData_pos _ _ _ hk]; exact hn
  · cases m with
    | none =>
      rw [requestData_neg_none _ _ hk]
      show (reqs ++ [k]).Nodup
      rw [List.nodup_append]
      refine ⟨hn, by simp, ?_⟩
      intro a ha b hb
      simp at hb; subst hb
      intro hab; subst hab; exact hk ha
    | some i => rw [requestData_neg_some _ _ _ hk]; exact nodup_insertAfter reqs i k hn hk

theorem requestData_keep (reqs : List Bytes) (m : Option Nat) (k : Bytes) (i : Nat)
    (hm : MarkGe i m) (hl : i < reqs.length) :
    (requestData reqs m k).1[i]? = reqs[i]? ∧ MarkGe i (requestData reqs m k).2 ∧
      i < (requestData reqs m k).1.length := by
  by_cases hk : k ∈ reqs
  · rw [requestData_pos _ _ _ hk]; exact ⟨rfl, hm, hl⟩
  · cases m with
    | none => exact absurd hm (by simp [MarkGe])
    | some j =>
      rw [requestData_neg_some _ _ _ hk]
      simp only [MarkGe] at hm
      refine ⟨insertAfter_getElem? reqs j i k hm hl, by simp only [MarkGe]; omega, ?_⟩
      show i < (insertAfter reqs j k).length
      unfold insertAfter
      simp [List.length_append, List.length_take, List.length_drop]; omega

theorem resolveRef_mem (st : List (Bytes × Bytes)) (acc : List Bytes × Option Nat) (c x : Bytes) :
    x ∈ acc.1 → x ∈ (resolveRef st acc c).1 := by
  intro h; unfold resolveRef
  split
  · exact h
  · exact (requestData_mem _ _ _ _).mpr (Or.inr h)

theorem resolveRef_new (st : List (Bytes × Bytes)) (acc : List Bytes × Option Nat) (c x : Bytes) :
    x ∈ (resolveRef st acc c).1 → x ∈ acc.1 ∨ (x = c ∧ ¬ Has st c) := by
  unfold resolveRef
  by_cases hh : has st c = true
  · simp only [hh, if_true]; exact Or.inl
  · simp only [hh]
    intro h
    rcases (requestData_mem _ _ _ _).mp h with rfl | h
    · exact Or.inr ⟨rfl, fun hH => hh ((has_iff st x).mpr hH)⟩
    · exact Or.inl h

theorem resolveRef_covers (st : List (Bytes × Bytes)) (acc : List Bytes × Option Nat) (c : Bytes) :
    Has st c ∨ c ∈ (resolveRef st acc c).1 := by
  unfold resolveRef
  by_cases hh : has st c = true
  · exact Or.inl ((has_iff st c).mp hh)
  · simp only [hh]
    exact Or.inr ((requestData_mem _ _ _ _).mpr (Or.inl rfl))

theorem resolveRef_nodup (st : List (Bytes × Bytes)) (acc : List Bytes × Option Nat) (c : Bytes)
    (hn : acc.1.Nodup) : (resolveRef st acc c).1.Nodup := by
  unfold resolveRef; split
  · exact hn
  · exact requestData_nodup _ _ _ hn

theorem resolveRef_keep (st : List (Bytes × Bytes)) (acc : List Bytes × Option Nat) (c : Bytes) (i : Nat)
    (hm : MarkGe i acc.2) (hl : i < acc.1.length) :
    (resolveRef st acc c).1[i]? = acc.1[i]? ∧ MarkGe i (resolveRef st acc c).2 ∧
      i < (resolveRef st acc c).1.length := by
  unfold resolveRef; split
  · exact ⟨rfl, hm, hl⟩
  · exact requestData_keep _ _ _ _ hm hl

theorem resolveRefs_cons (st : List (Bytes × Bytes)) (acc : List Bytes × Option Nat) (c : Bytes) (cs : List Bytes) :
    resolveRefs st acc (c :: cs) = resolveRefs st (resolveRef st acc c) cs := rfl

theorem resolveRefs_mem (st : List (Bytes × Bytes)) (cs : List Bytes) :
    ∀ (acc : List Bytes × Option Nat) (x : Bytes), x ∈ acc.1 → x ∈ (resolveRefs st acc cs).1 := by
  induction cs with
  | nil => intro acc x h; exact h
  | cons c cs ih =>
    intro acc x h
    rw [resolveRefs_cons]
    exact ih _ x (resolveRef_mem st acc c x h)

theorem resolveRefs_new (st : List (Bytes × Bytes)) (cs : List Bytes) :
    ∀ (acc : List Bytes × Option Nat) (x : Bytes), x ∈ (resolveRefs st acc cs).1 →
      x ∈ acc.1 ∨ (x ∈ cs ∧ ¬ Has st x) := by
  induction cs with
  | nil => intro acc x h; exact Or.inl h
  | cons c cs ih =>
    intro acc x h
    rw [resolveRefs_cons] at h
    rcases ih _ x h with h | ⟨h1, h2⟩
    · rcases resolveRef_new st acc c x h with h | ⟨rfl, h2⟩
      · exact Or.inl h
      · exact Or.inr ⟨List.mem_cons_self, h2⟩
    · exact Or.inr ⟨List.mem_cons_of_mem _ h1, h2⟩

theorem resolveRefs_covers (st : List (Bytes × Bytes)) (cs : List Bytes) :
    ∀ (acc : List Bytes × Option Nat) (c : Bytes), c ∈ cs → Has st c ∨ c ∈ (resolveRefs st acc cs).1 := by
  induction cs with
  | nil => intro acc c h; cases h
  | cons c0 cs ih =>
    intro acc c h
    rw [resolveRefs_cons]
    rcases List.mem_cons.mp h with rfl | h
    · rcases resolveRef_covers st acc c with h | h
      · exact Or.inl h
      · exact Or.inr (resolveRefs_mem st cs _ c h)
    · exact ih _ c h

theorem resolveRefs_nodup (st : List (Bytes × Bytes)) (cs : List Bytes) :
    ∀ (acc : List Bytes × Option Nat), acc.1.Nodup → (resolveRefs st acc cs).1.Nodup := by
  induction cs with
  | nil => intro acc h; exact h
  | cons c cs ih =>
    intro acc h
    rw [resolveRefs_cons]
    exact ih _ (resolveRef_nodup st acc c h)

theorem resolveRefs_keep (st : List (Bytes × Bytes)) (cs : List Bytes) (i : Nat) :
    ∀ (acc : List Bytes × Option Nat), MarkGe i acc.2 → i < acc.1.length →
      (resolveRefs st acc cs).1[i]? = acc.1[i]? := by
  induction cs with
  | nil => intro acc _ _; rfl
  | cons c cs ih =>
    intro acc hm hl
    rw [resolveRefs_cons]
    obtain ⟨h1, h2, h3⟩ := resolveRef_keep st acc c i hm hl
    rw [ih _ h2 h3, h1]

/-! ### erasing the served request -/

theorem mem_eraseIdx_nodup (l : List Bytes) (i : Nat) (k x : Bytes) (hn : l.Nodup) (hi : l[i]? = some k) :
    x ∈ l.eraseIdx i ↔ x ∈ l ∧ x ≠ k := by
  induction l generalizing i with
  | nil => simp at hi
  | cons a as ih =>
    rw [List.nodup_cons] at hn
    cases i with
    | zero =>
      simp only [List.getElem?_cons_zero, Option.some.injEq] at hi
      subst hi
      simp only [List.eraseIdx_cons_zero, List.mem_cons]
      constructor
      · intro h; exact ⟨Or.inr h, fun e => hn.1 (e ▸ h)⟩
      · rintro ⟨h | h, hne⟩
        · exact absurd h hne
        · exact h
    | succ j =>
      simp only [List.getElem?_cons_succ] at hi
      simp only [List.eraseIdx_cons_succ, List.mem_cons]
      have hk : k ∈ as := List.mem_of_getElem? hi
      rw [ih j hn.2 hi]
      constructor
      · rintro (rfl | ⟨h, hne⟩)
        · exact ⟨Or.inl rfl, fun e => hn.1 (e ▸ hk)⟩
        · exact ⟨Or.inr h, hne⟩
      · rintro ⟨rfl | h, hne⟩
        · exact Or.inl rfl
        · exact Or.inr ⟨h, hne⟩

theorem nodup_eraseIdx (l : List Bytes) (i : Nat) (hn : l.Nodup) : (l.eraseIdx i).Nodup :=
  hn.sublist (List.eraseIdx_sublist l i)

/-! ### the step, unfolded -/

theorem idxOf?_some {l : List Bytes} {k : Bytes} {i : Nat} (h : l.idxOf? k = some i) :
    l[i]? = some k := by
  induction l generalizing i with
  | nil => simp [List.idxOf?] at h
  | cons a as ih =>
    rw [List.idxOf?_cons] at h
    by_cases hak : a = k
    · subst hak
      simp at h
      subst h
      simp
    · have hak' : (a == k) = false := by simpa using hak
      cases hj : as.idxOf? k with
      | none => simp [hak', hj] at h
      | some j =>
        simp [hak', hj] at h
        subst h
        simpa using ih hj

theorem idxOf?_none {l : List Bytes} {k : Bytes} (h : l.idxOf? k = none) : k ∉ l := by
  induction l with
  | nil => simp
  | cons a as ih =>
    rw [List.idxOf?_cons] at h
    by_cases hak : a = k
    · subst hak; simp at h
    · have hak' : (a == k) = false := by simpa using hak
      cases hj : as.idxOf? k with
      | none =>
        have := ih hj
        simp only [List.mem_cons, not_or]
        exact ⟨fun e => hak e.symm, this⟩
      | some j => simp [hak', hj] at h

theorem idxOf?_mem {l : List Bytes} {k : Bytes} (h : k ∈ l) : ∃ i, l.idxOf? k = some i := by
  cases hi : l.idxOf? k with
  | none => exact absurd h (idxOf?_none hi)
  | some i => exact ⟨i, rfl⟩

/-- complete case analysis of one `OnData` -/
theorem onData_cases (cfg : Cfg) (s : St) (v : Bytes) :
    (cfg.H v ∉ s.reqs ∧ onData cfg s v = (s, .noRequester)) ∨
    (cfg.H v ∈ s.reqs ∧ cfg.refs v = none ∧
      onData cfg s v = ({ s with store := (cfg.H v, v) :: s.store }, .decodeError)) ∨
    (∃ i cs, s.reqs[i]? = some (cfg.H v) ∧ cfg.refs v = some cs ∧
      onData cfg s v =
        ({ store := (cfg.H v, v) :: s.store,
           reqs := (resolveRefs ((cfg.H v, v) :: s.store) (s.reqs, some i) cs).1.eraseIdx i,
           resolved := s.resolved + 1 }, .ok)) := by
  cases hi : s.reqs.idxOf? (cfg.H v) with
  | none => exact Or.inl ⟨idxOf?_none hi, by simp [onData, hi]⟩
  | some i =>
    have hmem : cfg.H v ∈ s.reqs := List.mem_of_getElem? (idxOf?_some hi)
    cases hr : cfg.refs v with
    | none => exact Or.inr (Or.inl ⟨hmem, rfl, by simp [onData, hi, hr]⟩)
    | some cs => exact Or.inr (Or.inr ⟨i, cs, idxOf?_some hi, rfl, by simp [onData, hi, hr]⟩)

/-! ### invariants -/

/-- reachability from the root through stored, decodable payloads -/
inductive Reach (cfg : Cfg) (store : List (Bytes × Bytes)) (root : Bytes) : Bytes → Prop
  | root : Reach cfg store root root
  | step {k v cs c} : Reach cfg store root k → (k, v) ∈ store → cfg.refs v = some cs → c ∈ cs →
      Reach cfg store root c

theorem Reach.mono {cfg : Cfg} {st st' : List (Bytes × Bytes)} {root k : Bytes}
    (h : ∀ e, e ∈ st → e ∈ st') (r : Reach cfg st root k) : Reach cfg st' root k := by
  induction r with
  | root => exact .root
  | step _ hm hr hc ih => exact .step ih (h _ hm) hr hc

/-- invariant that needs no assumption on what is delivered -/
structure Inv (cfg : Cfg) (root : Bytes) (s : St) : Prop where
  hashed : ∀ k v, (k, v) ∈ s.store → k = cfg.H v
  closed : ∀ k v cs, (k, v) ∈ s.store → cfg.refs v = some cs → ∀ c ∈ cs, Has s.store c ∨ c ∈ s.reqs
  rootOk : Has s.store root ∨ root ∈ s.reqs
  nodup : s.reqs.Nodup

theorem inv_start (cfg : Cfg) (root : Bytes) : Inv cfg root (start {} (some root)) := by
  have hs : start {} (some root) = { store := [], reqs := [root], resolved := 0 } := by
    simp [start, resolveRef, has, requestData]
  rw [hs]
  exact ⟨by simp, by simp, Or.inr (by simp), by simp⟩

theorem inv_onData (cfg : Cfg) (root : Bytes) (s : St) (v : Bytes) (h : Inv cfg root s) :
    Inv cfg root (onData cfg s v).1 := by
  rcases onData_cases cfg s v with ⟨_, he⟩ | ⟨_, hr, he⟩ | ⟨i, cs, hi, hr, he⟩
  · rw [he]; exact h
  · rw [he]
    have hsub : ∀ e, e ∈ s.store → e ∈ (cfg.H v, v) :: s.store := fun e he => List.mem_cons_of_mem _ he
    refine ⟨?_, ?_, ?_, h.nodup⟩
    · intro k w hm
      rcases List.mem_cons.mp hm with e | hm
      · cases e; rfl
      · exact h.hashed k w hm
    · intro k w cs hm hrw c hc
      rcases List.mem_cons.mp hm with e | hm
      · cases e; rw [hr] at hrw; cases hrw
      · rcases h.closed k w cs hm hrw c hc with h1 | h1
        · exact Or.inl (h1.mono hsub)
        · exact Or.inr h1
    · rcases h.rootOk with h1 | h1
      · exact Or.inl (h1.mono hsub)
      · exact Or.inr h1
  · rw [he]
    have hsub : ∀ e, e ∈ s.store → e ∈ (cfg.H v, v) :: s.store := fun e he => List.mem_cons_of_mem _ he
    have hil : i < s.reqs.length := by
      rcases List.getElem?_eq_some_iff.mp hi with ⟨hl, _⟩; exact hl
    have hkeep := resolveRefs_keep ((cfg.H v, v) :: s.store) cs i (s.reqs, some i) (by simp [MarkGe]) hil
    have hnd := resolveRefs_nodup ((cfg.H v, v) :: s.store) cs (s.reqs, some i) h.nodup
    have hkey : (resolveRefs ((cfg.H v, v) :: s.store) (s.reqs, some i) cs).1[i]? = some (cfg.H v) := by
      rw [hkeep]; exact hi
    have hhas : Has ((cfg.H v, v) :: s.store) (cfg.H v) := ⟨v, List.mem_cons_self⟩
    -- anything requested before or newly is still requested or is the key just stored
    have keep : ∀ x, x ∈ (resolveRefs ((cfg.H v, v) :: s.store) (s.reqs, some i) cs).1 →
        Has ((cfg.H v, v) :: s.store) x ∨
          x ∈ (resolveRefs ((cfg.H v, v) :: s.store) (s.reqs, some i) cs).1.eraseIdx i := by
      intro x hx
      by_cases hxk : x = cfg.H v
      · subst hxk; exact Or.inl hhas
      · exact Or.inr ((mem_eraseIdx_nodup _ i _ x hnd hkey).mpr ⟨hx, hxk⟩)
    refine ⟨?_, ?_, ?_, nodup_eraseIdx _ i hnd⟩
    · intro k w hm
      rcases List.mem_cons.mp hm with e | hm
      · cases e; rfl
      · exact h.hashed k w hm
    · intro k w cs' hm hrw c hc
      rcases List.mem_cons.mp hm with e | hm
      · cases e
        rw [hr] at hrw; cases hrw
        rcases resolveRefs_covers ((cfg.H v, v) :: s.store) cs (s.reqs, some i) c hc with h1 | h1
        · exact Or.inl h1
        · exact keep c h1
      · rcases h.closed k w cs' hm hrw c hc with h1 | h1
        · exact Or.inl (h1.mono hsub)
        · exact keep c (resolveRefs_mem _ cs _ c h1)
    · rcases h.rootOk with h1 | h1
      · exact Or.inl (h1.mono hsub)
      · exact keep root (resolveRefs_mem _ cs _ root h1)

theorem inv_runAll (cfg : Cfg) (root : Bytes) (vs : List Bytes) :
    ∀ s, Inv cfg root s → Inv cfg root (runAll cfg s vs) := by
  induction vs with
  | nil => intro s h; exact h
  | cons v vs ih => intro s h; exact ih _ (inv_onData cfg root s v h)

/-- no outstanding request ⇒ everything reachable from the root is stored -/
theorem closed_of_no_requests (cfg : Cfg) (root : Bytes) (s : St) (h : Inv cfg root s)
    (hz : s.reqs = []) : ∀ k, Reach cfg s.store root k → Has s.store k := by
  intro k r
  induction r with
  | root => rcases h.rootOk with h1 | h1; exact h1; rw [hz] at h1; cases h1
  | step _ hm hr hc _ =>
    rcases h.closed _ _ _ hm hr _ hc with h1 | h1
    · exact h1
    · rw [hz] at h1; cases h1

/-! ### with a trusted source -/

/-- the trusted state: a store closed under `refs`, hashed by `H`, one value per key -/
structure Src (cfg : Cfg) (src : List (Bytes × Bytes)) (root : Bytes) : Prop where
  hashed : ∀ k v, (k, v) ∈ src → k = cfg.H v
  functional : ∀ k v v', (k, v) ∈ src → (k, v') ∈ src → v = v'
  decodable : ∀ k v, (k, v) ∈ src → ∃ cs, cfg.refs v = some cs ∧ ∀ c ∈ cs, Has src c
  root : Has src root

/-- no delivered payload collides under `H` with a different payload of the source -/
def NoCollision (cfg : Cfg) (src : List (Bytes × Bytes)) (vs : List Bytes) : Prop :=
  ∀ v ∈ vs, ∀ k v', (k, v') ∈ src → cfg.H v = k → v = v'

structure Inv2 (cfg : Cfg) (src : List (Bytes × Bytes)) (root : Bytes) (s : St) : Prop where
  sub : ∀ e, e ∈ s.store → e ∈ src
  reqsSrc : ∀ k, k ∈ s.reqs → Has src k
  disjoint : ∀ k, k ∈ s.reqs → ¬ Has s.store k
  reqReach : ∀ k, k ∈ s.reqs → Reach cfg s.store root k

theorem inv2_start (cfg : Cfg) (src : List (Bytes × Bytes)) (root : Bytes) (hs : Src cfg src root) :
    Inv2 cfg src root (start {} (some root)) := by
  have he : start {} (some root) = { store := [], reqs := [root], resolved := 0 } := by
    simp [start, resolveRef, has, requestData]
  rw [he]
  refine ⟨by simp, ?_, ?_, ?_⟩
  · intro k hk; simp at hk; subst hk; exact hs.root
  · intro k _ ⟨v, hv⟩; simp at hv
  · intro k hk; simp at hk; subst hk; exact .root

theorem inv2_onData (cfg : Cfg) (src : List (Bytes × Bytes)) (root : Bytes) (hs : Src cfg src root)
    (s : St) (v : Bytes) (hnc : ∀ k v', (k, v') ∈ src → cfg.H v = k → v = v')
    (h1 : Inv cfg root s) (h : Inv2 cfg src root s) :
    Inv2 cfg src root (onData cfg s v).1 ∧ (onData cfg s v).2 ≠ .decodeError := by
  rcases onData_cases cfg s v with ⟨_, he⟩ | ⟨hmem, hr, _⟩ | ⟨i, cs, hi, hr, he⟩
  · rw [he]; exact ⟨h, by simp⟩
  · -- impossible: a requested hash is a source key, so the payload is the source's and decodes
    exfalso
    obtain ⟨v', hv'⟩ := h.reqsSrc _ hmem
    have : v = v' := hnc _ _ hv' rfl
    subst this
    obtain ⟨cs, hcs, _⟩ := hs.decodable _ _ hv'
    rw [hr] at hcs; cases hcs
  · rw [he]
    refine ⟨?_, by simp⟩
    have hmem : cfg.H v ∈ s.reqs := List.mem_of_getElem? hi
    obtain ⟨v', hv'⟩ := h.reqsSrc _ hmem
    have hvv : v = v' := hnc _ _ hv' rfl
    subst hvv
    obtain ⟨cs', hcs', hcl⟩ := hs.decodable _ _ hv'
    rw [hr] at hcs'; cases hcs'
    have hsub : ∀ e, e ∈ s.store → e ∈ (cfg.H v, v) :: s.store := fun e he => List.mem_cons_of_mem _ he
    have hil : i < s.reqs.length := by
      rcases List.getElem?_eq_some_iff.mp hi with ⟨hl, _⟩; exact hl
    have hkeep := resolveRefs_keep ((cfg.H v, v) :: s.store) cs i (s.reqs, some i) (by simp [MarkGe]) hil
    have hnd := resolveRefs_nodup ((cfg.H v, v) :: s.store) cs (s.reqs, some i) h1.nodup
    have hkey : (resolveRefs ((cfg.H v, v) :: s.store) (s.reqs, some i) cs).1[i]? = some (cfg.H v) := by
      rw [hkeep]; exact hi
    have hreachKey : Reach cfg ((cfg.H v, v) :: s.store) root (cfg.H v) := (h.reqReach _ hmem).mono hsub
    refine ⟨?_, ?_, ?_, ?_⟩
    · intro e hm
      rcases List.mem_cons.mp hm with e' | hm
      · subst e'; exact hv'
      · exact h.sub e hm
    · intro k hk
      have hk' := ((mem_eraseIdx_nodup _ i _ k hnd hkey).mp hk).1
      rcases resolveRefs_new _ cs _ k hk' with h2 | ⟨h2, _⟩
      · exact h.reqsSrc k h2
      · exact hcl k h2
    · intro k hk
      obtain ⟨hk', hne⟩ := (mem_eraseIdx_nodup _ i _ k hnd hkey).mp hk
      rcases resolveRefs_new _ cs _ k hk' with h2 | ⟨_, h2⟩
      · rintro ⟨w, hw⟩
        rcases List.mem_cons.mp hw with e | hw
        · cases e; exact hne rfl
        · exact h.disjoint k h2 ⟨w, hw⟩
      · exact h2
    · intro k hk
      have hk' := ((mem_eraseIdx_nodup _ i _ k hnd hkey).mp hk).1
      rcases resolveRefs_new _ cs _ k hk' with h2 | ⟨h2, _⟩
      · exact (h.reqReach k h2).mono hsub
      · exact .step hreachKey List.mem_cons_self hr h2

theorem inv2_runAll (cfg : Cfg) (src : List (Bytes × Bytes)) (root : Bytes) (hs : Src cfg src root)
    (vs : List Bytes) : ∀ s, NoCollision cfg src vs → Inv cfg root s → Inv2 cfg src root s →
      Inv2 cfg src root (runAll cfg s vs) := by
  induction vs with
  | nil => intro s _ _ h; exact h
  | cons v vs ih =>
    intro s hnc h1 h
    have hv := hnc v List.mem_cons_self
    exact ih _ (fun w hw => hnc w (List.mem_cons_of_mem _ hw)) (inv_onData cfg root s v h1)
      (inv2_onData cfg src root hs s v hv h1 h).1

end Goloop.C20
