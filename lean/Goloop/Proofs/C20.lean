import Goloop.Model.C20
namespace Goloop.C20
open Goloop

/-- (bucket, key) has some value in the store -/
def Has (store : List Entry) (p : Ref) : Prop := ∃ v, (p.1, p.2, v) ∈ store

/-- bucket `p.1` has an outstanding request for key `p.2` -/
def Pending (reqs : List Req) (p : Ref) : Prop := ∃ r ∈ reqs, r.key = p.2 ∧ p.1 ∈ r.bkts

/-- the keys of the outstanding requests, in list order -/
def keys (reqs : List Req) : List Bytes := reqs.map (·.key)

/-- every stored payload is accepted by the requester of its bucket -/
def AllDec (cfg : Cfg) (store : List Entry) : Prop := ∀ e ∈ store, (cfg.refs e.1 e.2.2).isSome = true

theorem Has.mono {st st' : List Entry} {p : Ref} (h : ∀ e, e ∈ st → e ∈ st') :
    Has st p → Has st' p := fun ⟨v, hv⟩ => ⟨v, h _ hv⟩

/-! ### lookup / present -/

theorem lookup_mem {store : List Entry} {p : Ref} {v : Bytes} (h : lookup store p = some v) :
    (p.1, p.2, v) ∈ store := by
  unfold lookup at h
  cases hf : store.find? (fun e => e.1 == p.1 && e.2.1 == p.2) with
  | none => rw [hf] at h; cases h
  | some e =>
    rw [hf] at h
    simp only [Option.map_some, Option.some.injEq] at h
    have hm := List.mem_of_find?_eq_some hf
    have hp := List.find?_some hf
    simp only [Bool.and_eq_true, beq_iff_eq] at hp
    obtain ⟨b, k, w⟩ := e
    simp only at hp h
    obtain ⟨rfl, rfl⟩ := hp
    subst h
    exact hm

theorem present_has {cfg : Cfg} {store : List Entry} {p : Ref} (h : present cfg store p = true) :
    Has store p := by
  unfold present at h
  cases hl : lookup store p with
  | none => rw [hl] at h; cases h
  | some v => exact ⟨v, lookup_mem hl⟩

theorem has_present {cfg : Cfg} {store : List Entry} {p : Ref} (hd : AllDec cfg store)
    (h : Has store p) : present cfg store p = true := by
  obtain ⟨v, hv⟩ := h
  unfold present
  cases hl : lookup store p with
  | none =>
    exfalso
    unfold lookup at hl
    simp only [Option.map_eq_none_iff] at hl
    have := List.find?_eq_none.mp hl _ hv
    simp at this
  | some w => exact hd _ (lookup_mem hl)

/-! ### request list operations -/

theorem mem_insertAfter {α : Type} (l : List α) (i : Nat) (k x : α) :
    x ∈ insertAfter l i k ↔ x = k ∨ x ∈ l := by
  unfold insertAfter
  simp only [List.mem_append, List.mem_cons]
  constructor
  · rintro (h | h | h)
    · exact Or.inr (List.mem_of_mem_take h)
    · exact Or.inl h
    · exact Or.inr (List.mem_of_mem_drop h)
  · rintro (h | h)
    · exact Or.inr (Or.inl h)
    · have := List.take_append_drop (i + 1) l
      rw [← this] at h
      rcases List.mem_append.mp h with h | h
      · exact Or.inl h
      · exact Or.inr (Or.inr h)

theorem nodup_insertAfter {α : Type} (l : List α) (i : Nat) (k : α) (hn : l.Nodup) (hk : k ∉ l) :
    (insertAfter l i k).Nodup := by
  unfold insertAfter
  have hsplit := List.take_append_drop (i + 1) l
  rw [← hsplit] at hn hk
  rw [List.nodup_append] at hn ⊢
  obtain ⟨h1, h2, h3⟩ := hn
  refine ⟨h1, ?_, ?_⟩
  · rw [List.nodup_cons]
    exact ⟨fun h => hk (List.mem_append.mpr (Or.inr h)), h2⟩
  · intro a ha b hb
    rcases List.mem_cons.mp hb with rfl | hb
    · intro hab; subst hab; exact hk (List.mem_append.mpr (Or.inl ha))
    · exact h3 a ha b hb

theorem keys_insertAfter (l : List Req) (i : Nat) (r : Req) :
    keys (insertAfter l i r) = insertAfter (keys l) i r.key := by
  simp [keys, insertAfter, List.map_take, List.map_drop]

theorem hasKey_iff (reqs : List Req) (k : Bytes) : hasKey reqs k = true ↔ k ∈ keys reqs := by
  unfold hasKey keys
  simp only [List.any_eq_true, beq_iff_eq, List.mem_map]

theorem keys_addBkt (reqs : List Req) (b : Bkt) (k : Bytes) : keys (addBkt reqs b k) = keys reqs := by
  unfold keys addBkt
  rw [List.map_map]
  apply List.map_congr_left
  intro r _
  simp only [Function.comp]
  split <;> rfl

theorem pending_addBkt (reqs : List Req) (b : Bkt) (k : Bytes) (p : Ref) :
    Pending (addBkt reqs b k) p ↔ Pending reqs p ∨ (p = (b, k) ∧ k ∈ keys reqs) := by
  unfold Pending addBkt
  constructor
  · rintro ⟨r', hm, hk, hb⟩
    obtain ⟨r, hr, rfl⟩ := List.mem_map.mp hm
    by_cases hrk : r.key = k
    · simp only [hrk, beq_self_eq_true, if_true] at hk hb
      rcases List.mem_append.mp hb with hb | hb
      · exact Or.inl ⟨r, hr, hrk.trans hk, hb⟩
      · simp only [List.mem_singleton] at hb
        refine Or.inr ⟨Prod.ext hb hk.symm, ?_⟩
        exact List.mem_map.mpr ⟨r, hr, hrk⟩
    · have : (r.key == k) = false := by simpa using hrk
      simp only [this] at hk hb
      exact Or.inl ⟨r, hr, hk, hb⟩
  · rintro (⟨r, hr, hk, hb⟩ | ⟨rfl, hk⟩)
    · refine ⟨_, List.mem_map.mpr ⟨r, hr, rfl⟩, ?_, ?_⟩
      · split <;> exact hk
      · split
        · exact List.mem_append.mpr (Or.inl hb)
        · exact hb
    · obtain ⟨r, hr, hrk⟩ := List.mem_map.mp hk
      refine ⟨_, List.mem_map.mpr ⟨r, hr, rfl⟩, ?_, ?_⟩
      · simp only [hrk, beq_self_eq_true, if_true]
      · simp only [hrk, beq_self_eq_true, if_true]
        exact List.mem_append.mpr (Or.inr (List.mem_singleton.mpr rfl))

theorem nonempty_addBkt (reqs : List Req) (b : Bkt) (k : Bytes) (h : ∀ r ∈ reqs, r.bkts ≠ []) :
    ∀ r ∈ addBkt reqs b k, r.bkts ≠ [] := by
  intro r' hm
  obtain ⟨r, hr, rfl⟩ := List.mem_map.mp hm
  split
  · simp
  · exact h r hr

theorem pending_new (l : List Req) (b : Bkt) (k : Bytes) (p : Ref) (hk : k ∉ keys l)
    (l' : List Req) (hl' : ∀ x, x ∈ l' ↔ x = ⟨k, [b]⟩ ∨ x ∈ l) :
    Pending l' p ↔ Pending l p ∨ p = (b, k) := by
  have _ := hk
  unfold Pending
  constructor
  · rintro ⟨r, hm, hrk, hb⟩
    rcases (hl' r).mp hm with rfl | hm
    · simp only [List.mem_singleton] at hb
      exact Or.inr (Prod.ext hb hrk.symm)
    · exact Or.inl ⟨r, hm, hrk, hb⟩
  · rintro (⟨r, hm, hrk, hb⟩ | rfl)
    · exact ⟨r, (hl' r).mpr (Or.inr hm), hrk, hb⟩
    · exact ⟨⟨k, [b]⟩, (hl' _).mpr (Or.inl rfl), rfl, List.mem_singleton.mpr rfl⟩

/-! ### requestData -/

theorem requestData_pos (reqs : List Req) (m : Option Nat) (b : Bkt) (k : Bytes) (h : k ∈ keys reqs) :
    requestData reqs m b k = (addBkt reqs b k, m) := by
  simp [requestData, (hasKey_iff reqs k).mpr h]

theorem requestData_neg_none (reqs : List Req) (b : Bkt) (k : Bytes) (h : k ∉ keys reqs) :
    requestData reqs none b k = (reqs ++ [⟨k, [b]⟩], none) := by
  have : hasKey reqs k = false := by
    cases hh : hasKey reqs k with
    | false => rfl
    | true => exact absurd ((hasKey_iff reqs k).mp hh) h
  simp [requestData, this]

theorem requestData_neg_some (reqs : List Req) (i : Nat) (b : Bkt) (k : Bytes) (h : k ∉ keys reqs) :
    requestData reqs (some i) b k = (insertAfter reqs i ⟨k, [b]⟩, some (i + 1)) := by
  have : hasKey reqs k = false := by
    cases hh : hasKey reqs k with
    | false => rfl
    | true => exact absurd ((hasKey_iff reqs k).mp hh) h
  simp [requestData, this]

theorem requestData_pending (reqs : List Req) (m : Option Nat) (b : Bkt) (k : Bytes) (p : Ref) :
    Pending (requestData reqs m b k).1 p ↔ Pending reqs p ∨ p = (b, k) := by
  by_cases hk : k ∈ keys reqs
  · rw [requestData_pos _ _ _ _ hk, pending_addBkt]
    constructor
    · rintro (h | ⟨h, _⟩)
      · exact Or.inl h
      · exact Or.inr h
    · rintro (h | h)
      · exact Or.inl h
      · exact Or.inr ⟨h, hk⟩
  · cases m with
    | none =>
      rw [requestData_neg_none _ _ _ hk]
      exact pending_new reqs b k p hk _ (by intro x; simp [List.mem_append, or_comm])
    | some i =>
      rw [requestData_neg_some _ _ _ _ hk]
      exact pending_new reqs b k p hk _ (fun x => mem_insertAfter reqs i _ x)

theorem requestData_nodup (reqs : List Req) (m : Option Nat) (b : Bkt) (k : Bytes)
    (hn : (keys reqs).Nodup) : (keys (requestData reqs m b k).1).Nodup := by
  by_cases hk : k ∈ keys reqs
  · rw [requestData_pos _ _ _ _ hk, keys_addBkt]; exact hn
  · cases m with
    | none =>
      rw [requestData_neg_none _ _ _ hk]
      show (keys (reqs ++ [⟨k, [b]⟩])).Nodup
      unfold keys at hn hk ⊢
      rw [List.map_append, List.nodup_append]
      refine ⟨hn, by simp, ?_⟩
      intro a ha c hc
      simp at hc; subst hc
      intro hab; subst hab; exact hk ha
    | some i =>
      rw [requestData_neg_some _ _ _ _ hk]
      show (keys (insertAfter reqs i ⟨k, [b]⟩)).Nodup
      rw [keys_insertAfter]
      exact nodup_insertAfter _ i k hn hk

theorem requestData_nonempty (reqs : List Req) (m : Option Nat) (b : Bkt) (k : Bytes)
    (h : ∀ r ∈ reqs, r.bkts ≠ []) : ∀ r ∈ (requestData reqs m b k).1, r.bkts ≠ [] := by
  by_cases hk : k ∈ keys reqs
  · rw [requestData_pos _ _ _ _ hk]; exact nonempty_addBkt reqs b k h
  · cases m with
    | none =>
      rw [requestData_neg_none _ _ _ hk]
      intro r hr
      rcases List.mem_append.mp hr with hr | hr
      · exact h r hr
      · simp at hr; subst hr; simp
    | some i =>
      rw [requestData_neg_some _ _ _ _ hk]
      intro r hr
      rcases (mem_insertAfter reqs i _ r).mp hr with rfl | hr
      · simp
      · exact h r hr

/-! ### resolveRef / resolveRefs -/

theorem resolveRef_mono (cfg : Cfg) (st : List Entry) (acc : List Req × Option Nat) (c p : Ref) :
    Pending acc.1 p → Pending (resolveRef cfg st acc c).1 p := by
  intro h; unfold resolveRef
  split
  · exact h
  · exact (requestData_pending _ _ _ _ _).mpr (Or.inl h)

theorem resolveRef_new (cfg : Cfg) (st : List Entry) (acc : List Req × Option Nat) (c p : Ref) :
    Pending (resolveRef cfg st acc c).1 p → Pending acc.1 p ∨ (p = c ∧ present cfg st c = false) := by
  unfold resolveRef
  by_cases hh : present cfg st c = true
  · rw [if_pos hh]; exact Or.inl
  · rw [if_neg hh]
    intro h
    rcases (requestData_pending _ _ _ _ _).mp h with h | h
    · exact Or.inl h
    · exact Or.inr ⟨h, by simpa using hh⟩

theorem resolveRef_covers (cfg : Cfg) (st : List Entry) (acc : List Req × Option Nat) (c : Ref) :
    Has st c ∨ Pending (resolveRef cfg st acc c).1 c := by
  unfold resolveRef
  by_cases hh : present cfg st c = true
  · exact Or.inl (present_has hh)
  · rw [if_neg hh]
    exact Or.inr ((requestData_pending _ _ _ _ _).mpr (Or.inr rfl))

theorem resolveRef_nodup (cfg : Cfg) (st : List Entry) (acc : List Req × Option Nat) (c : Ref)
    (hn : (keys acc.1).Nodup) : (keys (resolveRef cfg st acc c).1).Nodup := by
  unfold resolveRef; split
  · exact hn
  · exact requestData_nodup _ _ _ _ hn

theorem resolveRef_nonempty (cfg : Cfg) (st : List Entry) (acc : List Req × Option Nat) (c : Ref)
    (h : ∀ r ∈ acc.1, r.bkts ≠ []) : ∀ r ∈ (resolveRef cfg st acc c).1, r.bkts ≠ [] := by
  unfold resolveRef; split
  · exact h
  · exact requestData_nonempty _ _ _ _ h

theorem resolveRefs_cons (cfg : Cfg) (st : List Entry) (acc : List Req × Option Nat) (c : Ref)
    (cs : List Ref) :
    resolveRefs cfg st acc (c :: cs) = resolveRefs cfg st (resolveRef cfg st acc c) cs := rfl

theorem resolveRefs_mono (cfg : Cfg) (st : List Entry) (cs : List Ref) :
    ∀ (acc : List Req × Option Nat) (p : Ref), Pending acc.1 p → Pending (resolveRefs cfg st acc cs).1 p := by
  induction cs with
  | nil => intro acc p h; exact h
  | cons c cs ih =>
    intro acc p h
    rw [resolveRefs_cons]
    exact ih _ p (resolveRef_mono cfg st acc c p h)

theorem resolveRefs_new (cfg : Cfg) (st : List Entry) (cs : List Ref) :
    ∀ (acc : List Req × Option Nat) (p : Ref), Pending (resolveRefs cfg st acc cs).1 p →
      Pending acc.1 p ∨ (p ∈ cs ∧ present cfg st p = false) := by
  induction cs with
  | nil => intro acc p h; exact Or.inl h
  | cons c cs ih =>
    intro acc p h
    rw [resolveRefs_cons] at h
    rcases ih _ p h with h | ⟨h1, h2⟩
    · rcases resolveRef_new cfg st acc c p h with h | ⟨rfl, h2⟩
      · exact Or.inl h
      · exact Or.inr ⟨List.mem_cons_self, h2⟩
    · exact Or.inr ⟨List.mem_cons_of_mem _ h1, h2⟩

theorem resolveRefs_covers (cfg : Cfg) (st : List Entry) (cs : List Ref) :
    ∀ (acc : List Req × Option Nat) (c : Ref), c ∈ cs →
      Has st c ∨ Pending (resolveRefs cfg st acc cs).1 c := by
  induction cs with
  | nil => intro acc c h; cases h
  | cons c0 cs ih =>
    intro acc c h
    rw [resolveRefs_cons]
    rcases List.mem_cons.mp h with rfl | h
    · rcases resolveRef_covers cfg st acc c with h | h
      · exact Or.inl h
      · exact Or.inr (resolveRefs_mono cfg st cs _ c h)
    · exact ih _ c h

theorem resolveRefs_nodup (cfg : Cfg) (st : List Entry) (cs : List Ref) :
    ∀ (acc : List Req × Option Nat), (keys acc.1).Nodup → (keys (resolveRefs cfg st acc cs).1).Nodup := by
  induction cs with
  | nil => intro acc h; exact h
  | cons c cs ih =>
    intro acc h
    rw [resolveRefs_cons]
    exact ih _ (resolveRef_nodup cfg st acc c h)

theorem resolveRefs_nonempty (cfg : Cfg) (st : List Entry) (cs : List Ref) :
    ∀ (acc : List Req × Option Nat), (∀ r ∈ acc.1, r.bkts ≠ []) →
      ∀ r ∈ (resolveRefs cfg st acc cs).1, r.bkts ≠ [] := by
  induction cs with
  | nil => intro acc h; exact h
  | cons c cs ih =>
    intro acc h
    rw [resolveRefs_cons]
    exact ih _ (resolveRef_nonempty cfg st acc c h)

/-! ### the requester loop -/

theorem serve_nil (cfg : Cfg) (key value : Bytes) (st : List Entry) (acc : List Req × Option Nat) :
    serve cfg key value [] st acc = (st, acc, true) := rfl

theorem serve_cons_none (cfg : Cfg) (key value : Bytes) (b : Bkt) (bs : List Bkt) (st : List Entry)
    (acc : List Req × Option Nat) (h : cfg.refs b value = none) :
    serve cfg key value (b :: bs) st acc = ((b, key, value) :: st, acc, false) := by
  simp [serve, h]

theorem serve_cons_some (cfg : Cfg) (key value : Bytes) (b : Bkt) (bs : List Bkt) (st : List Entry)
    (acc : List Req × Option Nat) (ps : List Ref) (h : cfg.refs b value = some ps) :
    serve cfg key value (b :: bs) st acc =
      serve cfg key value bs ((b, key, value) :: st) (resolveRefs cfg ((b, key, value) :: st) acc ps) := by
  simp [serve, h]

/-- the loop only adds copies of the delivered payload, under the delivered key, into buckets of
    the request -/
theorem serve_store (cfg : Cfg) (key value : Bytes) (bkts : List Bkt) :
    ∀ (st : List Entry) (acc : List Req × Option Nat),
      ∃ bs : List Bkt, (serve cfg key value bkts st acc).1 = bs.map (fun b => (b, key, value)) ++ st ∧
        ∀ b ∈ bs, b ∈ bkts := by
  induction bkts with
  | nil => intro st acc; exact ⟨[], rfl, by simp⟩
  | cons b bs ih =>
    intro st acc
    cases hr : cfg.refs b value with
    | none =>
      rw [serve_cons_none _ _ _ _ _ _ _ hr]
      exact ⟨[b], rfl, by simp⟩
    | some ps =>
      rw [serve_cons_some _ _ _ _ _ _ _ ps hr]
      obtain ⟨bs', he, hb⟩ := ih ((b, key, value) :: st) (resolveRefs cfg ((b, key, value) :: st) acc ps)
      refine ⟨bs' ++ [b], ?_, ?_⟩
      · rw [he]; simp
      · intro x hx
        rcases List.mem_append.mp hx with hx | hx
        · exact List.mem_cons_of_mem _ (hb x hx)
        · simp at hx; subst hx; exact List.mem_cons_self

theorem serve_store_mono (cfg : Cfg) (key value : Bytes) (bkts : List Bkt) (st : List Entry)
    (acc : List Req × Option Nat) : ∀ e, e ∈ st → e ∈ (serve cfg key value bkts st acc).1 := by
  obtain ⟨bs, he, _⟩ := serve_store cfg key value bkts st acc
  intro e h; rw [he]; exact List.mem_append.mpr (Or.inr h)

theorem serve_store_new (cfg : Cfg) (key value : Bytes) (bkts : List Bkt) (st : List Entry)
    (acc : List Req × Option Nat) : ∀ e, e ∈ (serve cfg key value bkts st acc).1 →
      e ∈ st ∨ ∃ b ∈ bkts, e = (b, key, value) := by
  obtain ⟨bs, he, hb⟩ := serve_store cfg key value bkts st acc
  intro e h; rw [he] at h
  rcases List.mem_append.mp h with h | h
  · obtain ⟨b, hbm, rfl⟩ := List.mem_map.mp h
    exact Or.inr ⟨b, hb b hbm, rfl⟩
  · exact Or.inl h

theorem serve_mono (cfg : Cfg) (key value : Bytes) (bkts : List Bkt) :
    ∀ (st : List Entry) (acc : List Req × Option Nat) (p : Ref),
      Pending acc.1 p → Pending (serve cfg key value bkts st acc).2.1.1 p := by
  induction bkts with
  | nil => intro st acc p h; exact h
  | cons b bs ih =>
    intro st acc p h
    cases hr : cfg.refs b value with
    | none => rw [serve_cons_none _ _ _ _ _ _ _ hr]; exact h
    | some ps =>
      rw [serve_cons_some _ _ _ _ _ _ _ ps hr]
      exact ih _ _ p (resolveRefs_mono cfg _ ps acc p h)

theorem serve_nodup (cfg : Cfg) (key value : Bytes) (bkts : List Bkt) :
    ∀ (st : List Entry) (acc : List Req × Option Nat),
      (keys acc.1).Nodup → (keys (serve cfg key value bkts st acc).2.1.1).Nodup := by
  induction bkts with
  | nil => intro st acc h; exact h
  | cons b bs ih =>
    intro st acc h
    cases hr : cfg.refs b value with
    | none => rw [serve_cons_none _ _ _ _ _ _ _ hr]; exact h
    | some ps =>
      rw [serve_cons_some _ _ _ _ _ _ _ ps hr]
      exact ih _ _ (resolveRefs_nodup cfg _ ps acc h)

theorem serve_nonempty (cfg : Cfg) (key value : Bytes) (bkts : List Bkt) :
    ∀ (st : List Entry) (acc : List Req × Option Nat),
      (∀ r ∈ acc.1, r.bkts ≠ []) → ∀ r ∈ (serve cfg key value bkts st acc).2.1.1, r.bkts ≠ [] := by
  induction bkts with
  | nil => intro st acc h; exact h
  | cons b bs ih =>
    intro st acc h
    cases hr : cfg.refs b value with
    | none => rw [serve_cons_none _ _ _ _ _ _ _ hr]; exact h
    | some ps =>
      rw [serve_cons_some _ _ _ _ _ _ _ ps hr]
      exact ih _ _ (resolveRefs_nonempty cfg _ ps acc h)

/-- a loop that ran to its end served every bucket of the request -/
theorem serve_all (cfg : Cfg) (key value : Bytes) (bkts : List Bkt) :
    ∀ (st : List Entry) (acc : List Req × Option Nat),
      (serve cfg key value bkts st acc).2.2 = true →
        ∀ b ∈ bkts, (b, key, value) ∈ (serve cfg key value bkts st acc).1 := by
  induction bkts with
  | nil => intro st acc _ b hb; cases hb
  | cons b0 bs ih =>
    intro st acc hok b hb
    cases hr : cfg.refs b0 value with
    | none => rw [serve_cons_none _ _ _ _ _ _ _ hr] at hok; cases hok
    | some ps =>
      rw [serve_cons_some _ _ _ _ _ _ _ ps hr] at hok ⊢
      rcases List.mem_cons.mp hb with rfl | hb
      · exact serve_store_mono cfg key value bs _ _ _ List.mem_cons_self
      · exact ih _ _ hok b hb

/-- the loop fails exactly when some requester does not accept the payload -/
theorem serve_ok_of_dec (cfg : Cfg) (key value : Bytes) (bkts : List Bkt) :
    ∀ (st : List Entry) (acc : List Req × Option Nat),
      (∀ b ∈ bkts, (cfg.refs b value).isSome = true) → (serve cfg key value bkts st acc).2.2 = true := by
  induction bkts with
  | nil => intro st acc _; rfl
  | cons b0 bs ih =>
    intro st acc h
    cases hr : cfg.refs b0 value with
    | none => have := h b0 List.mem_cons_self; rw [hr] at this; cases this
    | some ps =>
      rw [serve_cons_some _ _ _ _ _ _ _ ps hr]
      exact ih _ _ (fun b hb => h b (List.mem_cons_of_mem _ hb))

/-- every copy the loop stored has all its references present or requested at the end of the loop -/
theorem serve_closed (cfg : Cfg) (key value : Bytes) (bkts : List Bkt) :
    ∀ (st : List Entry) (acc : List Req × Option Nat) (e : Entry),
      e ∈ (serve cfg key value bkts st acc).1 →
      e ∈ st ∨ (e.2.1 = key ∧ e.2.2 = value ∧ e.1 ∈ bkts ∧
        ∀ ps, cfg.refs e.1 value = some ps → ∀ c ∈ ps,
          Has (serve cfg key value bkts st acc).1 c ∨ Pending (serve cfg key value bkts st acc).2.1.1 c) := by
  induction bkts with
  | nil => intro st acc e h; exact Or.inl h
  | cons b bs ih =>
    intro st acc e h
    cases hr : cfg.refs b value with
    | none =>
      rw [serve_cons_none _ _ _ _ _ _ _ hr] at h ⊢
      rcases List.mem_cons.mp h with rfl | h
      · refine Or.inr ⟨rfl, rfl, List.mem_cons_self, ?_⟩
        intro ps hps; rw [hr] at hps; cases hps
      · exact Or.inl h
    | some ps =>
      rw [serve_cons_some _ _ _ _ _ _ _ ps hr] at h ⊢
      rcases ih _ _ e h with h1 | ⟨h1, h2, h3, h4⟩
      · rcases List.mem_cons.mp h1 with rfl | h1
        · refine Or.inr ⟨rfl, rfl, List.mem_cons_self, ?_⟩
          intro ps' hps' c hc
          rw [hr] at hps'; cases hps'
          rcases resolveRefs_covers cfg ((b, key, value) :: st) ps acc c hc with hc | hc
          · exact Or.inl (hc.mono (serve_store_mono cfg key value bs _ _))
          · exact Or.inr (serve_mono cfg key value bs _ _ c hc)
        · exact Or.inl h1
      · exact Or.inr ⟨h1, h2, List.mem_cons_of_mem _ h3, h4⟩

/-- with a store of accepted payloads: a request the loop added is a reference of the delivered
    payload (as decoded by a requester of the request) that was not stored before the loop -/
theorem serve_new (cfg : Cfg) (key value : Bytes) (bkts : List Bkt) :
    ∀ (st : List Entry) (acc : List Req × Option Nat) (p : Ref), AllDec cfg st →
      Pending (serve cfg key value bkts st acc).2.1.1 p →
      Pending acc.1 p ∨ ∃ b ∈ bkts, ∃ ps, cfg.refs b value = some ps ∧ p ∈ ps ∧ ¬ Has st p := by
  induction bkts with
  | nil => intro st acc p _ h; exact Or.inl h
  | cons b bs ih =>
    intro st acc p hd h
    cases hr : cfg.refs b value with
    | none => rw [serve_cons_none _ _ _ _ _ _ _ hr] at h; exact Or.inl h
    | some ps =>
      rw [serve_cons_some _ _ _ _ _ _ _ ps hr] at h
      have hd1 : AllDec cfg ((b, key, value) :: st) := by
        intro e he
        rcases List.mem_cons.mp he with rfl | he
        · simp [hr]
        · exact hd e he
      have hsub : ∀ e, e ∈ st → e ∈ (b, key, value) :: st := fun e he => List.mem_cons_of_mem _ he
      rcases ih _ _ p hd1 h with h1 | ⟨b', hb', ps', hps', hp, hn⟩
      · rcases resolveRefs_new cfg _ ps acc p h1 with h2 | ⟨h2, h3⟩
        · exact Or.inl h2
        · refine Or.inr ⟨b, List.mem_cons_self, ps, hr, h2, ?_⟩
          intro hh
          have := has_present hd1 (hh.mono hsub)
          rw [this] at h3; cases h3
      · exact Or.inr ⟨b', List.mem_cons_of_mem _ hb', ps', hps', hp, fun hh => hn (hh.mono hsub)⟩

/-! ### the request map: one request per key -/

theorem find_none_keys {l : List Req} {k : Bytes} (h : l.find? (·.key == k) = none) : k ∉ keys l := by
  intro hk
  obtain ⟨r, hr, hrk⟩ := List.mem_map.mp hk
  have := List.find?_eq_none.mp h r hr
  simp [hrk] at this

theorem find_some_key {l : List Req} {k : Bytes} {r : Req} (h : l.find? (·.key == k) = some r) :
    r ∈ l ∧ r.key = k := by
  refine ⟨List.mem_of_find?_eq_some h, ?_⟩
  have := List.find?_some h
  simpa using this

/-- with one request per key, the request found for `k` carries every bucket pending for `k` -/
theorem pending_find {l : List Req} {k : Bytes} {r : Req} (hn : (keys l).Nodup)
    (h : l.find? (·.key == k) = some r) (b : Bkt) (hp : Pending l (b, k)) : b ∈ r.bkts := by
  induction l with
  | nil => simp at h
  | cons a as ih =>
    unfold keys at hn
    rw [List.map_cons, List.nodup_cons] at hn
    obtain ⟨r', hm, hk, hb⟩ := hp
    by_cases hak : a.key = k
    · have : (a.key == k) = true := by simpa using hak
      rw [List.find?_cons, this] at h
      simp only [Option.some.injEq] at h
      subst h
      rcases List.mem_cons.mp hm with rfl | hm
      · exact hb
      · exfalso
        apply hn.1
        rw [hak]
        exact List.mem_map.mpr ⟨r', hm, hk⟩
    · have hf : (a.key == k) = false := by simpa using hak
      rw [List.find?_cons, hf] at h
      rcases List.mem_cons.mp hm with rfl | hm
      · exact absurd hk hak
      · exact ih hn.2 h ⟨r', hm, hk, hb⟩

/-- removing the served request: exactly the pendings of other keys remain -/
theorem pending_eraseP (l : List Req) (k : Bytes) (p : Ref) (hn : (keys l).Nodup) :
    Pending (l.eraseP (·.key == k)) p ↔ Pending l p ∧ p.2 ≠ k := by
  induction l with
  | nil => simp [Pending]
  | cons a as ih =>
    unfold keys at hn
    rw [List.map_cons, List.nodup_cons] at hn
    by_cases hak : a.key = k
    · have e : (a :: as).eraseP (·.key == k) = as := by simp [hak]
      rw [e]
      constructor
      · rintro ⟨r, hm, hk, hb⟩
        refine ⟨⟨r, List.mem_cons_of_mem _ hm, hk, hb⟩, ?_⟩
        intro hpk
        apply hn.1
        rw [hak, ← hpk, ← hk]
        exact List.mem_map.mpr ⟨r, hm, rfl⟩
      · rintro ⟨⟨r, hm, hk, hb⟩, hne⟩
        rcases List.mem_cons.mp hm with rfl | hm
        · exact absurd (hk.symm.trans hak) hne
        · exact ⟨r, hm, hk, hb⟩
    · have e : (a :: as).eraseP (·.key == k) = a :: as.eraseP (·.key == k) := by
        simp [hak]
      rw [e]
      constructor
      · rintro ⟨r, hm, hk, hb⟩
        rcases List.mem_cons.mp hm with rfl | hm
        · exact ⟨⟨r, List.mem_cons_self, hk, hb⟩, fun e => hak (hk.trans e)⟩
        · obtain ⟨⟨r', hm', hk', hb'⟩, hne⟩ := (ih hn.2).mp ⟨r, hm, hk, hb⟩
          exact ⟨⟨r', List.mem_cons_of_mem _ hm', hk', hb'⟩, hne⟩
      · rintro ⟨⟨r, hm, hk, hb⟩, hne⟩
        rcases List.mem_cons.mp hm with rfl | hm
        · exact ⟨r, List.mem_cons_self, hk, hb⟩
        · obtain ⟨r', hm', hk', hb'⟩ := (ih hn.2).mpr ⟨⟨r, hm, hk, hb⟩, hne⟩
          exact ⟨r', List.mem_cons_of_mem _ hm', hk', hb'⟩

theorem nodup_eraseP (l : List Req) (k : Bytes) (hn : (keys l).Nodup) :
    (keys (l.eraseP (·.key == k))).Nodup := by
  unfold keys at hn ⊢
  exact hn.sublist ((List.eraseP_sublist (l := l)).map _)

/-! ### the step, unfolded -/

/-- the state of the requester loop of `onData cfg s _ v` when the request found is `r` -/
def loop (cfg : Cfg) (s : St) (v : Bytes) (r : Req) :=
  serve cfg (cfg.H v) v r.bkts s.store (s.reqs, some (s.reqs.findIdx (·.key == cfg.H v)))

/-- complete case analysis of one `OnData` -/
theorem onData_cases (cfg : Cfg) (s : St) (bid : Bkt) (v : Bytes) :
    (cfg.H v ∉ keys s.reqs ∧ onData cfg s bid v = (s, .noRequester)) ∨
    (∃ r, r ∈ s.reqs ∧ r.key = cfg.H v ∧ s.reqs.find? (·.key == cfg.H v) = some r ∧
      (((loop cfg s v r).2.2 = false ∧
        onData cfg s bid v =
          ({ s with store := (loop cfg s v r).1, reqs := (loop cfg s v r).2.1.1 }, .decodeError)) ∨
       ((loop cfg s v r).2.2 = true ∧
        onData cfg s bid v =
          ({ store := (loop cfg s v r).1,
             reqs := (loop cfg s v r).2.1.1.eraseP (·.key == cfg.H v),
             resolved := s.resolved + 1 }, .ok)))) := by
  cases hf : s.reqs.find? (·.key == cfg.H v) with
  | none => exact Or.inl ⟨find_none_keys hf, by simp [onData, hf]⟩
  | some r =>
    obtain ⟨hm, hk⟩ := find_some_key hf
    refine Or.inr ⟨r, hm, hk, rfl, ?_⟩
    cases hok : (loop cfg s v r).2.2 with
    | false =>
      refine Or.inl ⟨rfl, ?_⟩
      unfold loop at hok
      simp [onData, hf, hok, loop]
    | true =>
      refine Or.inr ⟨rfl, ?_⟩
      unfold loop at hok
      simp [onData, hf, hok, loop]

/-! ### invariants -/

/-- reachability from the trie root (bucket 0) through stored, accepted payloads -/
inductive Reach (cfg : Cfg) (store : List Entry) (root : Bytes) : Ref → Prop
  | root : Reach cfg store root (0, root)
  | step {b k v ps c} : Reach cfg store root (b, k) → (b, k, v) ∈ store → cfg.refs b v = some ps →
      c ∈ ps → Reach cfg store root c

theorem Reach.mono {cfg : Cfg} {st st' : List Entry} {root : Bytes} {p : Ref}
    (h : ∀ e, e ∈ st → e ∈ st') (r : Reach cfg st root p) : Reach cfg st' root p := by
  induction r with
  | root => exact .root
  | step _ hm hr hc ih => exact .step ih (h _ hm) hr hc

/-- a payload never names its own hash as a reference into *another* bucket (it would have to
    contain its own hash) -/
def NoCrossSelfRef (cfg : Cfg) : Prop :=
  ∀ b v ps, cfg.refs b v = some ps → ∀ c ∈ ps, c.2 = cfg.H v → c.1 = b

/-- invariant that needs no assumption on what is delivered -/
structure Inv (cfg : Cfg) (root : Bytes) (s : St) : Prop where
  hashed : ∀ b k v, (b, k, v) ∈ s.store → k = cfg.H v
  closed : ∀ b k v ps, (b, k, v) ∈ s.store → cfg.refs b v = some ps →
    ∀ c ∈ ps, Has s.store c ∨ Pending s.reqs c
  rootOk : Has s.store (0, root) ∨ Pending s.reqs (0, root)
  nodup : (keys s.reqs).Nodup
  nonempty : ∀ r ∈ s.reqs, r.bkts ≠ []

theorem start_eq (cfg : Cfg) (root : Bytes) :
    start cfg {} (some root) = { store := [], reqs := [⟨root, [0]⟩], resolved := 0 } := by
  simp [start, resolveRef, present, lookup, requestData, hasKey]

theorem inv_start (cfg : Cfg) (root : Bytes) : Inv cfg root (start cfg {} (some root)) := by
  rw [start_eq]
  refine ⟨by simp, by simp, Or.inr ?_, by simp [keys], by simp⟩
  exact ⟨⟨root, [0]⟩, by simp, rfl, by simp⟩

theorem inv_onData (cfg : Cfg) (hself : NoCrossSelfRef cfg) (root : Bytes) (s : St) (bid : Bkt)
    (v : Bytes) (h : Inv cfg root s) : Inv cfg root (onData cfg s bid v).1 := by
  rcases onData_cases cfg s bid v with ⟨_, he⟩ | ⟨r, hrm, hrk, hf, ⟨hok, he⟩ | ⟨hok, he⟩⟩
  · rw [he]; exact h
  · -- a requester failed: the request stays, stores and requests made so far stay
    rw [he]
    have hsub : ∀ e, e ∈ s.store → e ∈ (loop cfg s v r).1 := serve_store_mono cfg _ _ _ _ _
    have hmono : ∀ p, Pending s.reqs p → Pending (loop cfg s v r).2.1.1 p :=
      serve_mono cfg _ _ _ _ (_, _)
    refine ⟨?_, ?_, ?_, ?_, ?_⟩
    · intro b k w hm
      rcases serve_store_new cfg (cfg.H v) v r.bkts s.store _ _ hm with hm | ⟨b', _, e⟩
      · exact h.hashed b k w hm
      · cases e; rfl
    · intro b k w ps hm hps c hc
      rcases serve_closed cfg (cfg.H v) v r.bkts s.store _ _ hm with hm | ⟨_, h2, _, h4⟩
      · rcases h.closed b k w ps hm hps c hc with h1 | h1
        · exact Or.inl (h1.mono hsub)
        · exact Or.inr (hmono c h1)
      · simp only at h2; subst h2
        exact h4 ps hps c hc
    · rcases h.rootOk with h1 | h1
      · exact Or.inl (h1.mono hsub)
      · exact Or.inr (hmono _ h1)
    · exact serve_nodup cfg _ _ _ _ _ h.nodup
    · exact serve_nonempty cfg _ _ _ _ _ h.nonempty
  · rw [he]
    have hsub : ∀ e, e ∈ s.store → e ∈ (loop cfg s v r).1 := serve_store_mono cfg _ _ _ _ _
    have hmono : ∀ p, Pending s.reqs p → Pending (loop cfg s v r).2.1.1 p :=
      serve_mono cfg _ _ _ _ (_, _)
    have hnd : (keys (loop cfg s v r).2.1.1).Nodup := serve_nodup cfg _ _ _ _ (_, _) h.nodup
    have hall : ∀ b ∈ r.bkts, (b, cfg.H v, v) ∈ (loop cfg s v r).1 := serve_all cfg _ _ _ _ _ hok
    -- anything pending before the removal is still pending or is a served (bucket, key)
    have keep : ∀ c : Ref, Pending (loop cfg s v r).2.1.1 c →
        (c.2 = cfg.H v → Has (loop cfg s v r).1 c) →
        Has (loop cfg s v r).1 c ∨ Pending ((loop cfg s v r).2.1.1.eraseP (·.key == cfg.H v)) c := by
      intro c hc hk
      by_cases hck : c.2 = cfg.H v
      · exact Or.inl (hk hck)
      · exact Or.inr ((pending_eraseP _ _ c hnd).mpr ⟨hc, hck⟩)
    -- an old pending under the served key belongs to the served request
    have old : ∀ c : Ref, Pending s.reqs c → c.2 = cfg.H v → Has (loop cfg s v r).1 c := by
      intro c hc hck
      have : c.1 ∈ r.bkts := pending_find h.nodup hf c.1 (by rw [← hck]; exact hc)
      exact ⟨v, by rw [hck]; exact hall _ this⟩
    refine ⟨?_, ?_, ?_, nodup_eraseP _ _ hnd, ?_⟩
    · intro b k w hm
      rcases serve_store_new cfg (cfg.H v) v r.bkts s.store _ _ hm with hm | ⟨b', _, e⟩
      · exact h.hashed b k w hm
      · cases e; rfl
    · intro b k w ps hm hps c hc
      rcases serve_closed cfg (cfg.H v) v r.bkts s.store _ _ hm with hm | ⟨_, h2, h3, h4⟩
      · rcases h.closed b k w ps hm hps c hc with h1 | h1
        · exact Or.inl (h1.mono hsub)
        · exact keep c (hmono c h1) (old c h1)
      · simp only at h2 h3; subst h2
        rcases h4 ps hps c hc with h1 | h1
        · exact Or.inl h1
        · refine keep c h1 ?_
          intro hck
          have hb : c.1 = b := hself b w ps hps c hc hck
          exact ⟨w, by rw [hck, hb]; exact hall b h3⟩
    · rcases h.rootOk with h1 | h1
      · exact Or.inl (h1.mono hsub)
      · exact keep _ (hmono _ h1) (old _ h1)
    · intro r' hr'
      exact serve_nonempty cfg _ _ _ _ _ h.nonempty r' (List.mem_of_mem_eraseP hr')

theorem inv_runAll (cfg : Cfg) (hself : NoCrossSelfRef cfg) (root : Bytes) (vs : List (Bkt × Bytes)) :
    ∀ s, Inv cfg root s → Inv cfg root (runAll cfg s vs) := by
  induction vs with
  | nil => intro s h; exact h
  | cons d vs ih => intro s h; exact ih _ (inv_onData cfg hself root s d.1 d.2 h)

/-- no outstanding request ⇒ everything reachable from the root is stored -/
theorem closed_of_no_requests (cfg : Cfg) (root : Bytes) (s : St) (h : Inv cfg root s)
    (hz : s.reqs = []) : ∀ p, Reach cfg s.store root p → Has s.store p := by
  have np : ∀ p, ¬ Pending s.reqs p := by
    rintro p ⟨r, hr, _⟩; rw [hz] at hr; cases hr
  intro p r
  induction r with
  | root => rcases h.rootOk with h1 | h1; exact h1; exact absurd h1 (np _)
  | step _ hm hr hc _ =>
    rcases h.closed _ _ _ _ hm hr _ hc with h1 | h1
    · exact h1
    · exact absurd h1 (np _)

/-! ### with a trusted source -/

/-- the trusted state: a per-bucket store closed under `refs`, hashed by `H`, one value per
    (bucket, key), holding the trie root in bucket 0 -/
structure Src (cfg : Cfg) (src : List Entry) (root : Bytes) : Prop where
  hashed : ∀ b k v, (b, k, v) ∈ src → k = cfg.H v
  functional : ∀ b k v v', (b, k, v) ∈ src → (b, k, v') ∈ src → v = v'
  decodable : ∀ b k v, (b, k, v) ∈ src → ∃ ps, cfg.refs b v = some ps ∧ ∀ c ∈ ps, Has src c
  root : Has src (0, root)

/-- no delivered payload collides under `H` with a different payload of the source -/
def NoCollision (cfg : Cfg) (src : List Entry) (vs : List (Bkt × Bytes)) : Prop :=
  ∀ d ∈ vs, ∀ b k v', (b, k, v') ∈ src → cfg.H d.2 = k → d.2 = v'

structure Inv2 (cfg : Cfg) (src : List Entry) (root : Bytes) (s : St) : Prop where
  sub : ∀ e, e ∈ s.store → e ∈ src
  reqsSrc : ∀ p, Pending s.reqs p → Has src p
  disjoint : ∀ p, Pending s.reqs p → ¬ Has s.store p
  reqReach : ∀ p, Pending s.reqs p → Reach cfg s.store root p

theorem allDec_of_sub {cfg : Cfg} {src : List Entry} {root : Bytes} (hs : Src cfg src root)
    {st : List Entry} (h : ∀ e, e ∈ st → e ∈ src) : AllDec cfg st := by
  intro e he
  obtain ⟨b, k, v⟩ := e
  obtain ⟨ps, hps, _⟩ := hs.decodable b k v (h _ he)
  simp [hps]

theorem inv2_start (cfg : Cfg) (src : List Entry) (root : Bytes) (hs : Src cfg src root) :
    Inv2 cfg src root (start cfg {} (some root)) := by
  rw [start_eq]
  have hp : ∀ p : Ref, Pending [(⟨root, [0]⟩ : Req)] p → p = (0, root) := by
    rintro ⟨b, k⟩ ⟨r, hr, hk, hb⟩
    simp only [List.mem_singleton] at hr
    subst hr
    simp only [List.mem_singleton] at hb
    simp only at hk
    rw [hb, ← hk]
  refine ⟨by simp, ?_, ?_, ?_⟩
  · intro p hpp; rw [hp p hpp]; exact hs.root
  · intro p _ ⟨v, hv⟩; simp at hv
  · intro p hpp; rw [hp p hpp]; exact .root

theorem inv2_onData (cfg : Cfg) (src : List Entry) (root : Bytes) (hs : Src cfg src root)
    (s : St) (bid : Bkt) (v : Bytes) (hnc : ∀ b k v', (b, k, v') ∈ src → cfg.H v = k → v = v')
    (h1 : Inv cfg root s) (h : Inv2 cfg src root s) :
    Inv2 cfg src root (onData cfg s bid v).1 ∧ (onData cfg s bid v).2 ≠ .decodeError := by
  rcases onData_cases cfg s bid v with ⟨_, he⟩ | ⟨r, hrm, hrk, hf, hcase⟩
  · rw [he]; exact ⟨h, by simp⟩
  · -- every bucket of the request is pending, so the payload is the source's in each of them
    have hsrc : ∀ b ∈ r.bkts, (b, cfg.H v, v) ∈ src := by
      intro b hb
      obtain ⟨v', hv'⟩ := h.reqsSrc (b, cfg.H v) ⟨r, hrm, hrk, hb⟩
      have : v = v' := hnc _ _ _ hv' rfl
      subst this
      exact hv'
    have hdec : ∀ b ∈ r.bkts, (cfg.refs b v).isSome = true := by
      intro b hb
      obtain ⟨ps, hps, _⟩ := hs.decodable _ _ _ (hsrc b hb)
      simp [hps]
    have hok : (loop cfg s v r).2.2 = true := serve_ok_of_dec cfg _ _ _ _ _ hdec
    rcases hcase with ⟨hbad, _⟩ | ⟨_, he⟩
    · rw [hok] at hbad; cases hbad
    rw [he]
    refine ⟨?_, by simp⟩
    have hsub : ∀ e, e ∈ s.store → e ∈ (loop cfg s v r).1 := serve_store_mono cfg _ _ _ _ _
    have hnd : (keys (loop cfg s v r).2.1.1).Nodup := serve_nodup cfg _ _ _ _ (_, _) h1.nodup
    have hall : ∀ b ∈ r.bkts, (b, cfg.H v, v) ∈ (loop cfg s v r).1 := serve_all cfg _ _ _ _ _ hok
    have hdecst : AllDec cfg s.store := allDec_of_sub hs h.sub
    -- what is pending after the step: pending before, or a fresh reference of the payload
    have after : ∀ p : Ref, Pending ((loop cfg s v r).2.1.1.eraseP (·.key == cfg.H v)) p →
        p.2 ≠ cfg.H v ∧ (Pending s.reqs p ∨
          ∃ b ∈ r.bkts, ∃ ps, cfg.refs b v = some ps ∧ p ∈ ps ∧ ¬ Has s.store p) := by
      intro p hp
      obtain ⟨hp1, hne⟩ := (pending_eraseP _ _ p hnd).mp hp
      exact ⟨hne, serve_new cfg (cfg.H v) v r.bkts s.store _ p hdecst hp1⟩
    refine ⟨?_, ?_, ?_, ?_⟩
    · intro e hm
      rcases serve_store_new cfg (cfg.H v) v r.bkts s.store _ _ hm with hm | ⟨b, hb, rfl⟩
      · exact h.sub e hm
      · exact hsrc b hb
    · intro p hp
      rcases (after p hp).2 with h2 | ⟨b, hb, ps, hps, hpm, _⟩
      · exact h.reqsSrc p h2
      · obtain ⟨ps', hps', hcl⟩ := hs.decodable _ _ _ (hsrc b hb)
        rw [hps] at hps'; cases hps'
        exact hcl p hpm
    · intro p hp
      obtain ⟨hne, h2⟩ := after p hp
      have hold : ¬ Has s.store p := by
        rcases h2 with h2 | ⟨_, _, _, _, _, h3⟩
        · exact h.disjoint p h2
        · exact h3
      rintro ⟨w, hw⟩
      rcases serve_store_new cfg (cfg.H v) v r.bkts s.store _ _ hw with hw | ⟨b, _, e⟩
      · exact hold ⟨w, hw⟩
      · exact hne (congrArg (·.2.1) e)
    · intro p hp
      rcases (after p hp).2 with h2 | ⟨b, hb, ps, hps, hpm, _⟩
      · exact (h.reqReach p h2).mono hsub
      · have hr : Reach cfg (loop cfg s v r).1 root (b, cfg.H v) :=
          (h.reqReach (b, cfg.H v) ⟨r, hrm, hrk, hb⟩).mono hsub
        exact .step hr (hall b hb) hps hpm

theorem inv2_runAll (cfg : Cfg) (hself : NoCrossSelfRef cfg) (src : List Entry) (root : Bytes)
    (hs : Src cfg src root) (vs : List (Bkt × Bytes)) :
    ∀ s, NoCollision cfg src vs → Inv cfg root s → Inv2 cfg src root s →
      Inv2 cfg src root (runAll cfg s vs) := by
  induction vs with
  | nil => intro s _ _ h; exact h
  | cons d vs ih =>
    intro s hnc h1 h
    have hv := hnc d List.mem_cons_self
    exact ih _ (fun w hw => hnc w (List.mem_cons_of_mem _ hw)) (inv_onData cfg hself root s d.1 d.2 h1)
      (inv2_onData cfg src root hs s d.1 d.2 hv h1 h).1

end Goloop.C20
