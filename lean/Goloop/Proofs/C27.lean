/-
  Proofs/C27: lemmas for the Merkle accumulator model.
-/
import Goloop.Model.C27
namespace Goloop.C27

/-! ### scratch buffers -/

theorem copyAt0 (buf src : Bytes) (h : src.length ≤ buf.length) :
    copyAt buf 0 src = src ++ buf.drop src.length := by
  unfold copyAt
  have : min src.length (buf.length - 0) = src.length := by omega
  rw [this]; simp

theorem copyAt32 (pre rest src : Bytes) (hp : pre.length = 32) (hs : src.length = 32) (hr : rest.length = 32) :
    copyAt (pre ++ rest) hashSize src = pre ++ src := by
  unfold copyAt hashSize
  have : min src.length ((pre ++ rest).length - 32) = 32 := by simp [hp, hr, hs]
  rw [this]
  have h1 : List.take 32 (pre ++ rest) = pre := by
    rw [List.take_append_of_le_length (by omega)]; exact List.take_of_length_le (by omega)
  have h2 : List.drop (32 + 32) (pre ++ rest) = [] := by
    apply List.drop_of_length_le; simp [hp, hr]
  rw [h1, h2, List.take_of_length_le (by omega)]; simp

/-- two copies of 32 bytes overwrite the whole 64 byte buffer -/
theorem copy2 (buf a b : Bytes) (hbuf : buf.length = 64) (ha : a.length = 32) (hb : b.length = 32) :
    copyAt (copyAt buf 0 a) hashSize b = a ++ b := by
  rw [copyAt0 buf a (by omega)]
  exact copyAt32 a _ b ha hb (by simp [hbuf, ha])

theorem ser_eq (a b : Bytes) (ha : a.length = 32) (hb : b.length = 32) : ser a b = a ++ b := by
  unfold ser
  exact copy2 _ a b (by simp [hashSize]) ha hb

/-! ### the verification fold on 32 byte values -/

/-- what `Verify` computes when every value is 32 bytes long -/
def foldHash (H : Bytes → Bytes) (ws : List Witness) (h : Bytes) : Bytes :=
  ws.foldl (fun h w => if w.dir = .left then H (w.hv ++ h) else H (h ++ w.hv)) h

def All32 (ws : List Witness) : Prop := ∀ w ∈ ws, w.hv.length = 32

theorem foldl_verifyStep (H : Bytes → Bytes) (hlen : ∀ x, (H x).length = 32)
    (ws : List Witness) (hw : All32 ws) (buf h : Bytes) (hbuf : buf.length = 64) (hh : h.length = 32) :
    (ws.foldl (verifyStep H) (buf, h)).2 = foldHash H ws h := by
  induction ws generalizing buf h with
  | nil => simp [foldHash]
  | cons w ws ih =>
    have hwl : w.hv.length = 32 := hw w (by simp)
    have hws : All32 ws := fun x hx => hw x (by simp [hx])
    simp only [List.foldl_cons, foldHash]
    unfold verifyStep
    by_cases hd : w.dir = .left
    · simp only [hd, if_true]
      rw [copy2 buf w.hv h hbuf hwl hh]
      exact ih hws _ _ (by simp [hwl, hh]) (hlen _)
    · simp only [hd, if_false]
      rw [copy2 buf h w.hv hbuf hh hwl]
      exact ih hws _ _ (by simp [hwl, hh]) (hlen _)

theorem verifyFold_eq (H : Bytes → Bytes) (hlen : ∀ x, (H x).length = 32)
    (ws : List Witness) (hw : All32 ws) (h : Bytes) (hh : h.length = 32) :
    verifyFold H ws h = foldHash H ws h := by
  unfold verifyFold
  exact foldl_verifyStep H hlen ws hw _ h (by simp [hashSize]) hh

theorem foldHash_append (H : Bytes → Bytes) (a b : List Witness) (h : Bytes) :
    foldHash H (a ++ b) h = foldHash H b (foldHash H a h) := by
  simp [foldHash, List.foldl_append]

/-! ### perfect in-memory trees -/

/-- `IsTree H d t ls`: `t` is a perfect, not yet flushed tree of height `d` built by `addNode` whose
    leaves, left to right, have the (32 byte) hashes `ls`. -/
inductive IsTree (H : Bytes → Bytes) : Nat → Node → List Bytes → Prop
  | leafHash (hv : Bytes) : hv.length = 32 → IsTree H 0 (.hash hv) [hv]
  | leafData (d : Bytes) : IsTree H 0 (.data (H d) false d) [H d]
  | branch (d : Nat) (l r : Node) (ls rs : List Bytes) :
      IsTree H d l ls → IsTree H d r rs →
      IsTree H (d + 1) (.branch (H (ser l.hashOf r.hashOf)) false l r) (ls ++ rs)

theorem IsTree.length {H d t ls} (h : IsTree H d t ls) : ls.length = 2 ^ d := by
  induction h with
  | leafHash => simp
  | leafData => simp
  | branch d l r ls rs _ _ ih1 ih2 => simp [ih1, ih2, Nat.pow_succ]; omega

theorem IsTree.hashLen {H d t ls} (hlen : ∀ x, (H x).length = 32) (h : IsTree H d t ls) :
    t.hashOf.length = 32 := by
  cases h with
  | leafHash hv h => simpa [Node.hashOf] using h
  | leafData => simp [Node.hashOf, hlen]
  | branch => simp [Node.hashOf, hlen]

/-- `WitnessFor` on a perfect in-memory tree: succeeds for every index, leaves the tree as it
    is, and the witness folds the leaf hash up to the root hash. -/
theorem witnessNode_isTree (H : Bytes → Bytes) (hlen : ∀ x, (H x).length = 32) (db : DB)
    {d : Nat} {t : Node} {ls : List Bytes} (ht : IsTree H d t ls) :
    ∀ (idx : Nat) (w : List Witness), idx < 2 ^ d →
      ∃ ws, witnessNode db d t idx w = (t, .ok (w ++ ws)) ∧ ws.length = d ∧ All32 ws ∧
        foldHash H ws (ls.getD idx []) = t.hashOf := by
  induction ht with
  | leafHash hv h =>
    intro idx w hi
    refine ⟨[], ?_, rfl, by simp [All32], ?_⟩
    · simp [witnessNode]
    · have : idx = 0 := by simpa using hi
      simp [foldHash, this, Node.hashOf]
  | leafData d =>
    intro idx w hi
    refine ⟨[], ?_, rfl, by simp [All32], ?_⟩
    · simp [witnessNode]
    · have : idx = 0 := by simpa using hi
      simp [foldHash, this, Node.hashOf]
  | branch d l r ls rs hl hr ihl ihr =>
    intro idx w hi
    have hll := hl.length
    have hrl := hr.length
    have hlh := hl.hashLen hlen
    have hrh := hr.hashLen hlen
    by_cases hlt : idx < 2 ^ d
    · obtain ⟨ws, h1, h2, h3, h4⟩ := ihl idx w hlt
      refine ⟨ws ++ [⟨.right, r.hashOf⟩], ?_, by simp [h2], ?_, ?_⟩
      · simp [witnessNode, hlt, h1]
      · intro x hx
        rcases List.mem_append.mp hx with hx | hx
        · exact h3 x hx
        · have : x = ⟨.right, r.hashOf⟩ := by simpa using hx
          simp [this, hrh]
      · rw [foldHash_append]
        have : (ls ++ rs).getD idx [] = ls.getD idx [] := by
          simp [List.getD_eq_getElem?_getD, List.getElem?_append_left (by omega : idx < ls.length)]
        rw [this, h4]
        show H (l.hashOf ++ r.hashOf) = H (ser l.hashOf r.hashOf)
        rw [ser_eq _ _ hlh hrh]
    · have hi' : idx - 2 ^ d < 2 ^ d := by rw [Nat.pow_succ] at hi; omega
      obtain ⟨ws, h1, h2, h3, h4⟩ := ihr (idx - 2 ^ d) w hi'
      refine ⟨ws ++ [⟨.left, l.hashOf⟩], ?_, by simp [h2], ?_, ?_⟩
      · simp [witnessNode, hlt, h1]
      · intro x hx
        rcases List.mem_append.mp hx with hx | hx
        · exact h3 x hx
        · have : x = ⟨.left, l.hashOf⟩ := by simpa using hx
          simp [this, hlh]
      · rw [foldHash_append]
        have : (ls ++ rs).getD idx [] = rs.getD (idx - 2 ^ d) [] := by
          simp [List.getD_eq_getElem?_getD, List.getElem?_append_right (by omega : ls.length ≤ idx), hll]
        rw [this, h4]
        show H (l.hashOf ++ r.hashOf) = H (ser l.hashOf r.hashOf)
        rw [ser_eq _ _ hlh hrh]

/-! ### the roots invariant -/

/-- `RootsInv H h rs items`: `rs = roots[h:]`; every occupied slot `h+i` holds a perfect tree of
    height `h+i`; the leaves of the higher slots come first: `items` is their concatenation. -/
def RootsInv (H : Bytes → Bytes) : Nat → List (Option Node) → List Bytes → Prop
  | _, [], items => items = []
  | h, none :: rest, items => RootsInv H (h + 1) rest items
  | h, some t :: rest, items => ∃ hi lo, items = hi ++ lo ∧ IsTree H h t lo ∧ RootsInv H (h + 1) rest hi

theorem isTree_mkBranch {H h l r ls rs} (hl : IsTree H h l ls) (hr : IsTree H h r rs) :
    IsTree H (h + 1) (mkBranch H l r) (ls ++ rs) := by
  unfold mkBranch; exact IsTree.branch h l r ls rs hl hr

theorem addNode_inv (H : Bytes → Bytes) :
    ∀ (rs : List (Option Node)) (h : Nat) (items : List Bytes) (n : Node) (ls : List Bytes) (w : List Witness),
      RootsInv H h rs items → IsTree H h n ls → RootsInv H h (addNode H rs n w).1 (items ++ ls) := by
  intro rs
  induction rs with
  | nil =>
    intro h items n ls w hinv hn
    simp only [RootsInv] at hinv
    subst hinv
    simp only [addNode, RootsInv]
    exact ⟨[], ls, by simp, hn, rfl⟩
  | cons r rest ih =>
    intro h items n ls w hinv hn
    cases r with
    | none =>
      simp only [addNode, RootsInv] at *
      exact ⟨items, ls, rfl, hn, hinv⟩
    | some root =>
      simp only [RootsInv] at hinv
      obtain ⟨hi, lo, he, ht, hr⟩ := hinv
      simp only [addNode, RootsInv]
      have := ih (h + 1) hi (mkBranch H root n) (lo ++ ls) (w ++ [⟨.left, root.hashOf⟩]) hr (isTree_mkBranch ht hn)
      simpa [he, List.append_assoc] using this

/-- the witness `addNode` returns folds the new node's hash up to the root it ends in -/
theorem addNode_witness (H : Bytes → Bytes) (hlen : ∀ x, (H x).length = 32) :
    ∀ (rs : List (Option Node)) (h : Nat) (items : List Bytes) (n : Node) (ls : List Bytes) (w0 : List Witness),
      RootsInv H h rs items → IsTree H h n ls →
      ∃ wk t', (addNode H rs n w0).2 = w0 ++ wk ∧ All32 wk ∧
        (addNode H rs n w0).1[wk.length]? = some (some t') ∧ foldHash H wk n.hashOf = t'.hashOf := by
  intro rs
  induction rs with
  | nil =>
    intro h items n ls w0 _ _
    exact ⟨[], n, by simp [addNode], by simp [All32], by simp [addNode], by simp [foldHash]⟩
  | cons r rest ih =>
    intro h items n ls w0 hinv hn
    cases r with
    | none => exact ⟨[], n, by simp [addNode], by simp [All32], by simp [addNode], by simp [foldHash]⟩
    | some root =>
      simp only [RootsInv] at hinv
      obtain ⟨hi, lo, _, ht, hr⟩ := hinv
      have hrh := ht.hashLen hlen
      have hnh := hn.hashLen hlen
      obtain ⟨wk, t', e1, e2, e3, e4⟩ := ih (h + 1) hi (mkBranch H root n) (lo ++ ls)
        (w0 ++ [⟨.left, root.hashOf⟩]) hr (isTree_mkBranch ht hn)
      refine ⟨⟨.left, root.hashOf⟩ :: wk, t', ?_, ?_, ?_, ?_⟩
      · simp only [addNode]; rw [e1]; simp
      · intro x hx
        simp only [List.mem_cons] at hx
        rcases hx with hx | hx
        · subst hx; exact hrh
        · exact e2 x hx
      · simp only [addNode, List.length_cons, List.getElem?_cons_succ]; exact e3
      · have : foldHash H (⟨.left, root.hashOf⟩ :: wk) n.hashOf = foldHash H wk (H (root.hashOf ++ n.hashOf)) := by
          simp [foldHash]
        rw [this, ← e4]
        congr 1
        show H (root.hashOf ++ n.hashOf) = H (ser root.hashOf n.hashOf)
        rw [ser_eq _ _ hrh hnh]

/-- number of items under `roots[h:]` -/
theorem RootsInv.nil_of_items {H h items} (hi : RootsInv H h [] items) : items = [] := by
  simpa [RootsInv] using hi

theorem rootsInv_snoc_none (H : Bytes → Bytes) :
    ∀ (rs : List (Option Node)) (h : Nat) (items : List Bytes),
      RootsInv H h (rs ++ [none]) items ↔ RootsInv H h rs items := by
  intro rs
  induction rs with
  | nil => intro h items; simp [RootsInv]
  | cons r rest ih =>
    intro h items
    cases r with
    | none => simp only [List.cons_append, RootsInv]; exact ih (h + 1) items
    | some t =>
      simp only [List.cons_append, RootsInv]
      constructor
      · rintro ⟨hi, lo, he, ht, hr⟩; exact ⟨hi, lo, he, ht, (ih (h + 1) hi).mp hr⟩
      · rintro ⟨hi, lo, he, ht, hr⟩; exact ⟨hi, lo, he, ht, (ih (h + 1) hi).mpr hr⟩

theorem rootsInv_snoc_some (H : Bytes → Bytes) (t : Node) :
    ∀ (rs : List (Option Node)) (h : Nat) (items : List Bytes),
      RootsInv H h (rs ++ [some t]) items ↔
        ∃ top rest, items = top ++ rest ∧ IsTree H (h + rs.length) t top ∧ RootsInv H h rs rest := by
  intro rs
  induction rs with
  | nil =>
    intro h items
    simp only [List.nil_append, RootsInv, List.length_nil, Nat.add_zero]
    constructor
    · rintro ⟨hi, lo, he, ht, hr⟩; subst hr; exact ⟨lo, [], by simpa using he, ht, rfl⟩
    · rintro ⟨top, rest, he, ht, hr⟩; subst hr; exact ⟨[], top, by simpa using he, ht, rfl⟩
  | cons r rest ih =>
    intro h items
    cases r with
    | none =>
      simp only [List.cons_append, RootsInv, List.length_cons]
      rw [ih (h + 1) items]
      have : h + 1 + rest.length = h + (rest.length + 1) := by omega
      rw [this]
    | some u =>
      simp only [List.cons_append, RootsInv, List.length_cons]
      have e : h + 1 + rest.length = h + (rest.length + 1) := by omega
      constructor
      · rintro ⟨hi, lo, he, hu, hr⟩
        obtain ⟨top, rst, he2, ht, hr2⟩ := (ih (h + 1) hi).mp hr
        exact ⟨top, rst ++ lo, by simp [he, he2, List.append_assoc], e ▸ ht, rst, lo, rfl, hu, hr2⟩
      · rintro ⟨top, rst, he, ht, hi, lo, he2, hu, hr⟩
        exact ⟨top ++ hi, lo, by simp [he, he2, List.append_assoc], hu,
          (ih (h + 1) (top ++ hi)).mpr ⟨top, hi, rfl, e ▸ ht, hr⟩⟩

/-! ### the `WitnessFor` loop -/

theorem setAt_same {α} : ∀ (l : List α) (i : Nat) (v : α), l[i]? = some v → setAt l i v = l := by
  intro l
  induction l with
  | nil => intro i v h; simp at h
  | cons x xs ih =>
    intro i v h
    cases i with
    | zero => simp at h; simp [setAt, h]
    | succ i => simp at h; simp [setAt, ih i v h]

theorem witnessLoop_inv (H : Bytes → Bytes) (hlen : ∀ x, (H x).length = 32) (db : DB)
    (R : List (Option Node)) :
    ∀ k, k ≤ R.length → ∀ (items : List Bytes) (idx : Nat),
      RootsInv H 0 (R.take k) items → idx < items.length →
      ∃ slot t ws, witnessLoop db R k idx = (R, .ok ws) ∧ R[slot]? = some (some t) ∧
        ws.length = slot ∧ All32 ws ∧ foldHash H ws (items.getD idx []) = t.hashOf := by
  intro k
  induction k with
  | zero =>
    intro _ items idx hinv hidx
    simp [RootsInv] at hinv
    subst hinv; simp at hidx
  | succ k ih =>
    intro hk items idx hinv hidx
    have hk' : k < R.length := hk
    have htake : R.take (k + 1) = R.take k ++ [R[k]] := by
      rw [List.take_succ]; simp [List.getElem?_eq_getElem hk']
    have hlenk : (R.take k).length = k := by simp; omega
    rw [htake] at hinv
    have hget : R[k]? = some R[k] := List.getElem?_eq_getElem hk'
    cases hr : R[k] with
    | none =>
      rw [hr] at hinv
      have hinv' := (rootsInv_snoc_none H _ 0 items).mp hinv
      obtain ⟨slot, t, ws, h1, h2⟩ := ih (by omega) items idx hinv' hidx
      refine ⟨slot, t, ws, ?_, h2⟩
      simp only [witnessLoop, hget, hr]; exact h1
    | some t =>
      rw [hr] at hinv
      obtain ⟨top, rest, he, ht, hrest⟩ := (rootsInv_snoc_some H t _ 0 items).mp hinv
      rw [hlenk, Nat.zero_add] at ht
      have htl := ht.length
      by_cases hlt : idx < 2 ^ k
      · obtain ⟨ws, h1, h2, h3, h4⟩ := witnessNode_isTree H hlen db ht idx [] hlt
        refine ⟨k, t, ws, ?_, by rw [hget, hr], h2, h3, ?_⟩
        · simp only [witnessLoop, hget, hr, hlt, if_true, h1, List.nil_append]
          rw [setAt_same R k (some t) (by rw [hget, hr])]
        · have : items.getD idx [] = top.getD idx [] := by
            simp [he, List.getD_eq_getElem?_getD, List.getElem?_append_left (by omega : idx < top.length)]
          rw [this]; exact h4
      · have hidx' : idx - 2 ^ k < rest.length := by
          have : items.length = top.length + rest.length := by simp [he]
          omega
        obtain ⟨slot, t', ws, h1, h2, h3, h4, h5⟩ := ih (by omega) rest (idx - 2 ^ k) hrest hidx'
        refine ⟨slot, t', ws, ?_, h2, h3, h4, ?_⟩
        · simp only [witnessLoop, hget, hr, hlt, if_false]; exact h1
        · have : items.getD idx [] = rest.getD (idx - 2 ^ k) [] := by
            simp [he, List.getD_eq_getElem?_getD, List.getElem?_append_right (by omega : top.length ≤ idx), htl]
          rw [this]; exact h5

/-! ### Flush / Recover -/

/-- the values `Flush` writes for a not yet flushed tree (each under the key `H value`) -/
def Node.preimages : Node → List Bytes
  | .hash _ => []
  | .data _ _ d => [d]
  | .branch _ _ l r => ser l.hashOf r.hashOf :: (l.preimages ++ r.preimages)

/-- `H` is injective on the listed values -/
def NoColl (H : Bytes → Bytes) (S : List Bytes) : Prop := ∀ x ∈ S, ∀ y ∈ S, H x = H y → x = y

def StoredAll (H : Bytes → Bytes) (db : DB) (xs : List Bytes) : Prop := ∀ x ∈ xs, db.get (H x) = some x

/-- bindings `H y ↦ y` for `y ∈ S` survive from `db` to `db'` -/
def Keeps (H : Bytes → Bytes) (S : List Bytes) (db db' : DB) : Prop :=
  ∀ y ∈ S, db.get (H y) = some y → db'.get (H y) = some y

theorem Keeps.refl (H S db) : Keeps H S db db := fun _ _ h => h
theorem Keeps.trans {H S a b c} (h1 : Keeps H S a b) (h2 : Keeps H S b c) : Keeps H S a c :=
  fun y hy h => h2 y hy (h1 y hy h)

theorem keeps_set {H : Bytes → Bytes} {S : List Bytes} (hn : NoColl H S) (db : DB) (x : Bytes) (hx : x ∈ S) :
    Keeps H S db (db.set (H x) x) := by
  intro y hy h
  simp only [DB.set, DB.get]
  split
  · rename_i he; rw [hn x hx y hy he]
  · exact h

theorem get_set_self (db : DB) (k v : Bytes) : (db.set k v).get k = some v := by simp [DB.set, DB.get]

theorem flush_hashOf : ∀ (t : Node) (db : DB), (t.flush db).1.hashOf = t.hashOf := by
  intro t
  induction t with
  | hash hv => intro db; simp [Node.flush]
  | data hv fl d => intro db; simp only [Node.flush]; split <;> simp [Node.hashOf]
  | branch hv fl l r _ _ => intro db; simp only [Node.flush]; split <;> simp [Node.hashOf]

/-- flushing a fresh tree stores everything it is made of, and keeps what was stored -/
theorem flush_stored (H : Bytes → Bytes) (S : List Bytes) (hn : NoColl H S)
    {d : Nat} {t : Node} {ls : List Bytes} (ht : IsTree H d t ls) :
    ∀ (db : DB), (∀ x ∈ t.preimages, x ∈ S) →
      StoredAll H (t.flush db).2 t.preimages ∧ Keeps H S db (t.flush db).2 := by
  induction ht with
  | leafHash hv h => intro db _; simp [Node.flush, Node.preimages, StoredAll, Keeps.refl]
  | leafData d =>
    intro db hs
    simp only [Node.flush, Node.preimages, StoredAll]
    refine ⟨?_, keeps_set hn db d (hs d (by simp [Node.preimages]))⟩
    intro x hx
    have : x = d := by simpa using hx
    subst this; exact get_set_self _ _ _
  | branch d l r ls rs hl hr ihl ihr =>
    intro db hs
    have hsl : ∀ x ∈ l.preimages, x ∈ S := fun x hx => hs x (by simp [Node.preimages, hx])
    have hsr : ∀ x ∈ r.preimages, x ∈ S := fun x hx => hs x (by simp [Node.preimages, hx])
    have hser : ser l.hashOf r.hashOf ∈ S := hs _ (by simp [Node.preimages])
    obtain ⟨sl, kl⟩ := ihl db hsl
    obtain ⟨sr, kr⟩ := ihr (l.flush db).2 hsr
    simp only [Node.flush, Bool.false_eq_true, if_false, Node.preimages]
    rw [flush_hashOf l db, flush_hashOf r (l.flush db).2]
    have kset := keeps_set hn (r.flush (l.flush db).2).2 _ hser
    refine ⟨?_, (kl.trans kr).trans kset⟩
    intro x hx
    simp only [List.mem_cons, List.mem_append] at hx
    rcases hx with hx | hx | hx
    · subst hx; exact get_set_self _ _ _
    · exact kset x (hsl x hx) (kr x (hsl x hx) (sl x hx))
    · exact kset x (hsr x hx) (sr x hx)

/-- with the tree's nodes in the bucket, `WitnessFor` on the bare root hash (what `Recover`
    creates) returns the witness the in-memory tree returns -/
theorem witnessNode_hash_stored (H : Bytes → Bytes) (hlen : ∀ x, (H x).length = 32) (db : DB)
    {d : Nat} {t : Node} {ls : List Bytes} (ht : IsTree H d t ls) :
    StoredAll H db t.preimages → ∀ (idx : Nat) (w : List Witness), idx < 2 ^ d →
      ∃ n' ws, witnessNode db d (.hash t.hashOf) idx w = (n', .ok (w ++ ws)) ∧
        witnessNode db d t idx w = (t, .ok (w ++ ws)) := by
  induction ht with
  | leafHash hv h => intro _ idx w _; exact ⟨.hash hv, [], by simp [witnessNode, Node.hashOf], by simp [witnessNode]⟩
  | leafData d => intro _ idx w _; exact ⟨.hash (H d), [], by simp [witnessNode, Node.hashOf], by simp [witnessNode]⟩
  | branch d l r ls rs hl hr ihl ihr =>
    intro hs idx w hi
    have hlh := hl.hashLen hlen
    have hrh := hr.hashLen hlen
    have hsl : StoredAll H db l.preimages := fun x hx => hs x (by simp [Node.preimages, hx])
    have hsr : StoredAll H db r.preimages := fun x hx => hs x (by simp [Node.preimages, hx])
    have hget : db.get (H (ser l.hashOf r.hashOf)) = some (ser l.hashOf r.hashOf) :=
      hs _ (by simp [Node.preimages])
    have hres : resolve db (H (ser l.hashOf r.hashOf)) = some (l.hashOf, r.hashOf) := by
      unfold resolve
      rw [hget, ser_eq _ _ hlh hrh]
      have h1 : List.take hashSize (l.hashOf ++ r.hashOf) = l.hashOf := by
        rw [List.take_append_of_le_length (by simp [hashSize, hlh])]
        exact List.take_of_length_le (by simp [hashSize, hlh])
      have h2 : List.drop hashSize (l.hashOf ++ r.hashOf) = r.hashOf := by
        rw [List.drop_append_of_le_length (by simp [hashSize, hlh])]
        simp [List.drop_of_length_le, hashSize, hlh]
      simp [hashSize, hlh, hrh] at h1 h2 ⊢
    by_cases hlt : idx < 2 ^ d
    · obtain ⟨n', ws, h1, h2⟩ := ihl hsl idx w hlt
      refine ⟨.branch (H (ser l.hashOf r.hashOf)) true n' (.hash r.hashOf), ws ++ [⟨.right, r.hashOf⟩], ?_, ?_⟩
      · have e : (Node.branch (H (ser l.hashOf r.hashOf)) false l r).hashOf = H (ser l.hashOf r.hashOf) := rfl
        rw [e]
        simp only [witnessNode, hres, hlt, if_true, h1]
        simp [Node.hashOf]
      · simp [witnessNode, hlt, h2]
    · have hi' : idx - 2 ^ d < 2 ^ d := by rw [Nat.pow_succ] at hi; omega
      obtain ⟨n', ws, h1, h2⟩ := ihr hsr (idx - 2 ^ d) w hi'
      refine ⟨.branch (H (ser l.hashOf r.hashOf)) true (.hash l.hashOf) n', ws ++ [⟨.left, l.hashOf⟩], ?_, ?_⟩
      · have e : (Node.branch (H (ser l.hashOf r.hashOf)) false l r).hashOf = H (ser l.hashOf r.hashOf) := rfl
        rw [e]
        simp only [witnessNode, hres, hlt, if_false, h1]
        simp [Node.hashOf]
      · simp [witnessNode, hlt, h2]

/-- everything `Flush` writes for the roots -/
def allPreimages : List (Option Node) → List Bytes
  | [] => []
  | none :: rest => allPreimages rest
  | some t :: rest => t.preimages ++ allPreimages rest

def rootHashes : List (Option Node) → List Bytes
  | [] => []
  | none :: rest => [] :: rootHashes rest
  | some t :: rest => t.hashOf :: rootHashes rest

theorem flushRoots_spec (H : Bytes → Bytes) (S : List Bytes) (hn : NoColl H S) :
    ∀ (rs : List (Option Node)) (h : Nat) (items : List Bytes) (db : DB),
      RootsInv H h rs items → (∀ x ∈ allPreimages rs, x ∈ S) →
      (flushRoots rs db).2.1 = rootHashes rs ∧
      StoredAll H (flushRoots rs db).2.2 (allPreimages rs) ∧ Keeps H S db (flushRoots rs db).2.2 := by
  intro rs
  induction rs with
  | nil => intro h items db _ _; simp [flushRoots, rootHashes, allPreimages, StoredAll, Keeps.refl]
  | cons r rest ih =>
    intro h items db hinv hs
    cases r with
    | none =>
      simp only [RootsInv] at hinv
      obtain ⟨e1, e2, e3⟩ := ih (h + 1) items db hinv (by simpa [allPreimages] using hs)
      simp only [flushRoots, rootHashes, allPreimages]
      exact ⟨by rw [e1], e2, e3⟩
    | some t =>
      simp only [RootsInv] at hinv
      obtain ⟨hi, lo, _, ht, hrest⟩ := hinv
      have hst : ∀ x ∈ t.preimages, x ∈ S := fun x hx => hs x (by simp [allPreimages, hx])
      have hsr : ∀ x ∈ allPreimages rest, x ∈ S := fun x hx => hs x (by simp [allPreimages, hx])
      obtain ⟨s1, k1⟩ := flush_stored H S hn ht db hst
      obtain ⟨e1, e2, e3⟩ := ih (h + 1) hi (t.flush db).2 hrest hsr
      simp only [flushRoots, rootHashes, allPreimages]
      refine ⟨by rw [e1, flush_hashOf], ?_, k1.trans e3⟩
      intro x hx
      rcases List.mem_append.mp hx with hx | hx
      · exact e3 x (hst x hx) (s1 x hx)
      · exact e2 x hx

theorem rootsInv_slot (H : Bytes → Bytes) :
    ∀ (rs : List (Option Node)) (h : Nat) (items : List Bytes) (k : Nat) (t : Node),
      RootsInv H h rs items → rs[k]? = some (some t) →
      (∃ ls, IsTree H (h + k) t ls) ∧ ∀ x ∈ t.preimages, x ∈ allPreimages rs := by
  intro rs
  induction rs with
  | nil => intro h items k t _ hk; simp at hk
  | cons r rest ih =>
    intro h items k t hinv hk
    cases k with
    | zero =>
      simp at hk; subst hk
      simp only [RootsInv] at hinv
      obtain ⟨_, lo, _, ht, _⟩ := hinv
      exact ⟨⟨lo, by simpa using ht⟩, fun x hx => by simp [allPreimages, hx]⟩
    | succ k =>
      simp at hk
      have hinv' : ∃ items', RootsInv H (h + 1) rest items' := by
        cases r with
        | none => exact ⟨items, by simpa [RootsInv] using hinv⟩
        | some u => simp only [RootsInv] at hinv; obtain ⟨hi, _, _, _, hr⟩ := hinv; exact ⟨hi, hr⟩
      obtain ⟨items', hr⟩ := hinv'
      obtain ⟨⟨ls, hl⟩, hp⟩ := ih (h + 1) items' k t hr hk
      refine ⟨⟨ls, by rw [show h + (k + 1) = h + 1 + k by omega]; exact hl⟩, ?_⟩
      intro x hx
      cases r with
      | none => simpa [allPreimages] using hp x hx
      | some u => simp [allPreimages, hp x hx]

/-- the roots `Recover` builds from what `Flush` stored -/
def hashRoots (rs : List (Option Node)) : List (Option Node) :=
  rs.map (Option.map fun t => Node.hash t.hashOf)

theorem recover_roots (H : Bytes → Bytes) (hlen : ∀ x, (H x).length = 32) :
    ∀ (rs : List (Option Node)) (h : Nat) (items : List Bytes) (n : Nat), RootsInv H h rs items →
      (recover (some ⟨rootHashes rs, n⟩)).roots = hashRoots rs := by
  intro rs
  induction rs with
  | nil => intro h items n _; simp [recover, rootHashes, hashRoots]
  | cons r rest ih =>
    intro h items n hinv
    cases r with
    | none =>
      simp only [RootsInv] at hinv
      have := ih (h + 1) items n hinv
      simp only [recover, rootHashes, hashRoots, List.map_cons] at this ⊢
      rw [this]; simp
    | some t =>
      simp only [RootsInv] at hinv
      obtain ⟨hi, lo, _, ht, hrest⟩ := hinv
      have := ih (h + 1) hi n hrest
      have h32 := ht.hashLen hlen
      simp only [recover, rootHashes, hashRoots, List.map_cons] at this ⊢
      rw [this]; simp [h32, hashSize]

/-- the `WitnessFor` loop on recovered roots returns what it returns on the in-memory roots,
    provided each root behaves so -/
theorem witnessLoop_recovered (db : DB) (R : List (Option Node))
    (hyp : ∀ k t idx, R[k]? = some (some t) → idx < 2 ^ k →
      ∃ n' ws, witnessNode db k (.hash t.hashOf) idx [] = (n', .ok ws) ∧
        witnessNode db k t idx [] = (t, .ok ws)) :
    ∀ k idx, (witnessLoop db (hashRoots R) k idx).2 = (witnessLoop db R k idx).2 := by
  intro k
  induction k with
  | zero => intro idx; simp [witnessLoop]
  | succ k ih =>
    intro idx
    have hmap : (hashRoots R)[k]? = (R[k]?).map (Option.map fun t => Node.hash t.hashOf) := by
      simp [hashRoots]
    simp only [witnessLoop, hmap]
    cases hr : R[k]? with
    | none => simpa using ih idx
    | some o =>
      cases o with
      | none => simpa using ih idx
      | some t =>
        simp only [Option.map_some]
        by_cases hlt : idx < 2 ^ k
        · obtain ⟨n', ws, h1, h2⟩ := hyp k t idx hr hlt
          simp [hlt, h1, h2]
        · simp only [hlt, if_false]; exact ih _

/-! ### binary counter shape -/

/-- little-endian binary digits of `n` (no trailing zero digit) -/
def bitsLE : Nat → List Bool
  | 0 => []
  | n + 1 => ((n + 1) % 2 == 1) :: bitsLE ((n + 1) / 2)
decreasing_by omega

def incBits : List Bool → List Bool
  | [] => [true]
  | false :: r => true :: r
  | true :: r => false :: incBits r

theorem addNode_shape (H : Bytes → Bytes) :
    ∀ (rs : List (Option Node)) (n : Node) (w : List Witness),
      (addNode H rs n w).1.map Option.isSome = incBits (rs.map Option.isSome) := by
  intro rs
  induction rs with
  | nil => intro n w; simp [addNode, incBits]
  | cons r rest ih =>
    intro n w
    cases r with
    | none => simp [addNode, incBits]
    | some t => simp [addNode, incBits, ih]

theorem incBits_bitsLE : ∀ n, incBits (bitsLE n) = bitsLE (n + 1) := by
  intro n
  induction n using Nat.strongRecOn with
  | _ n ih =>
    cases n with
    | zero => simp [bitsLE, incBits]
    | succ m =>
      rw [bitsLE, bitsLE]
      by_cases hpar : (m + 1) % 2 = 1
      · have h2 : (m + 1 + 1) % 2 = 0 := by omega
        have h3 : (m + 1 + 1) / 2 = (m + 1) / 2 + 1 := by omega
        simp only [hpar, h2, h3, incBits, beq_self_eq_true]
        rw [ih ((m + 1) / 2) (by omega)]
        simp
      · have h1 : (m + 1) % 2 = 0 := by omega
        have h2 : (m + 1 + 1) % 2 = 1 := by omega
        have h3 : (m + 1 + 1) / 2 = (m + 1) / 2 := by omega
        simp [h1, h2, h3, incBits]

theorem bitsLE_testBit : ∀ (n h : Nat), (bitsLE n).getD h false = n.testBit h := by
  intro n
  induction n using Nat.strongRecOn with
  | _ n ih =>
    intro h
    cases n with
    | zero => simp [bitsLE]
    | succ m =>
      rw [bitsLE]
      cases h with
      | zero =>
        simp only [List.getD_cons_zero, Nat.testBit_zero]
        by_cases hp : (m + 1) % 2 = 1 <;> simp [hp]
      | succ k =>
        simp only [List.getD_cons_succ]
        rw [ih ((m + 1) / 2) (by omega) k, Nat.testBit_succ]

end Goloop.C27
