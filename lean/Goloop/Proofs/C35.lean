/-
  Proofs/C35: helper lemmas for the reward-budget theorems.
-/
import Goloop.Model.C35
namespace Goloop.C35.Proofs
open Goloop.C35

theorem sumInt_nil : sumInt [] = 0 := rfl
theorem sumInt_cons (a : Int) (l : List Int) : sumInt (a :: l) = a + sumInt l := rfl

theorem sumInt_append (l1 l2 : List Int) : sumInt (l1 ++ l2) = sumInt l1 + sumInt l2 := by
  induction l1 with
  | nil => simp [sumInt]
  | cons a l ih => simp only [List.cons_append, sumInt_cons, ih]; omega

/-- (Σ qᵢ)·A ≤ (Σ aᵢ)·R for qᵢ = ⌊aᵢ·R / A⌋, A > 0 -/
theorem floor_sum_mul_le (as : List Int) (R A : Int) (hA : 0 < A) :
    sumInt (as.map (fun a => a * R / A)) * A ≤ sumInt as * R := by
  induction as with
  | nil => simp [sumInt]
  | cons a l ih =>
    simp only [List.map_cons, sumInt_cons]
    have h1 : a * R / A * A ≤ a * R := Int.ediv_mul_le _ (by omega)
    rw [Int.add_mul, Int.add_mul]
    omega

theorem floor_shares_le_total (as : List Int) (R A : Int) (hR : 0 ≤ R) (hA : 0 < A)
    (hs : sumInt as ≤ A) : sumInt (as.map (fun a => a * R / A)) ≤ R := by
  have h := floor_sum_mul_le as R A hA
  have h2 : sumInt as * R ≤ A * R := Int.mul_le_mul_of_nonneg_right hs hR
  have h3 : sumInt (as.map (fun a => a * R / A)) * A ≤ R * A := by rw [Int.mul_comm R A]; omega
  exact Int.le_of_mul_le_mul_right h3 hA

end Goloop.C35.Proofs

namespace Goloop.C35.Proofs
open Goloop.C35

theorem sumInt_filter_map {α} (l : List α) (c : α → Bool) (f : α → Int) :
    sumInt ((l.filter c).map f) = sumInt (l.map (fun x => if c x then f x else 0)) := by
  induction l with
  | nil => rfl
  | cons a l ih =>
    by_cases h : c a <;> simp [List.filter_cons, h, sumInt_cons, ih]

theorem sumInt_map_le {α} (l : List α) (f g : α → Int) (h : ∀ x ∈ l, f x ≤ g x) :
    sumInt (l.map f) ≤ sumInt (l.map g) := by
  induction l with
  | nil => simp [sumInt]
  | cons a l ih =>
    simp only [List.map_cons, sumInt_cons]
    have := h a (by simp)
    have := ih (fun x hx => h x (by simp [hx]))
    omega

theorem sumInt_map_congr {α} (l : List α) (f g : α → Int) (h : ∀ x ∈ l, f x = g x) :
    sumInt (l.map f) = sumInt (l.map g) := by
  induction l with
  | nil => simp [sumInt]
  | cons a l ih =>
    simp only [List.map_cons, sumInt_cons]
    rw [h a (by simp), ih (fun x hx => h x (by simp [hx]))]

theorem sumInt_map_add {α} (l : List α) (f g : α → Int) :
    sumInt (l.map (fun x => f x + g x)) = sumInt (l.map f) + sumInt (l.map g) := by
  induction l with
  | nil => simp [sumInt]
  | cons a l ih => simp only [List.map_cons, sumInt_cons, ih]; omega

theorem sumInt_map_nonneg {α} (l : List α) (f : α → Int) (h : ∀ x ∈ l, 0 ≤ f x) : 0 ≤ sumInt (l.map f) := by
  induction l with
  | nil => simp [sumInt]
  | cons a l ih =>
    simp only [List.map_cons, sumInt_cons]
    have := h a (by simp)
    have := ih (fun x hx => h x (by simp [hx]))
    omega

theorem sumInt_map_const_le {α} (l : List α) (c : α → Bool) (w : Int) (hw : 0 ≤ w) :
    sumInt (l.map (fun x => if c x then w else 0)) = ((l.filter c).length : Int) * w := by
  induction l with
  | nil => simp [sumInt]
  | cons a l ih =>
    by_cases h : c a <;> simp [List.filter_cons, h, sumInt_cons, ih, Int.add_mul] <;> omega

/-- an element's own term is at most the sum of a non-negative list -/
theorem le_sumInt_of_mem {α} (l : List α) (f : α → Int) (h : ∀ x ∈ l, 0 ≤ f x) (a : α) (ha : a ∈ l) :
    f a ≤ sumInt (l.map f) := by
  induction l with
  | nil => cases ha
  | cons b l ih =>
    simp only [List.map_cons, sumInt_cons]
    have hb := h b (by simp)
    have hl := sumInt_map_nonneg l f (fun x hx => h x (by simp [hx]))
    rcases List.mem_cons.mp ha with rfl | hm
    · omega
    · have := ih (fun x hx => h x (by simp [hx])) hm
      omega

end Goloop.C35.Proofs

namespace Goloop.C35.Proofs
open Goloop.C35

/-- well-formedness of the PRepInfo right before `CalculateReward` -/
structure PRepWF (pi : PRepInfo) : Prop where
  clean : ∀ p ∈ pi.preps, p.commission = 0 ∧ p.voterReward = 0 ∧ p.wage = 0
  powNonneg : ∀ p ∈ pi.preps, p.inElected pi.elected = true → 0 ≤ p.accPower
  rate : ∀ p ∈ pi.preps, 0 ≤ p.rate ∧ p.rate ≤ 10000
  total : pi.totalAccumulatedPower =
    sumInt ((pi.preps.filter (fun p => p.inElected pi.elected)).map (·.accPower))
  count : (pi.preps.filter (fun p => p.inElected pi.elected)).length ≤ pi.elected

def prepRewardOf (pi : PRepInfo) (T : Int) (p : PRep) : Int :=
  if pi.isPaid p then T * p.accPower / pi.totalAccumulatedPower else 0

/-- the per-P-Rep step of `PRepInfo.CalculateReward` -/
def payStep (pi : PRepInfo) (T minBond mw : Int) (p : PRep) : PRep :=
  if pi.isPaid p then p.calculateReward T pi.totalAccumulatedPower minBond mw else p

theorem isPaid_inElected (pi : PRepInfo) (p : PRep) (h : pi.isPaid p = true) :
    p.inElected pi.elected = true ∧ 0 < p.accPower := by
  simp [PRepInfo.isPaid, PRep.isRewardable] at h
  exact ⟨h.1, h.2.2⟩

theorem commission_bounds (R rate : Int) (hR : 0 ≤ R) (h0 : 0 ≤ rate) (h1 : rate ≤ 10000) :
    0 ≤ (R * rate).tdiv denom ∧ (R * rate).tdiv denom ≤ R := by
  have hnn : 0 ≤ R * rate := Int.mul_nonneg hR h0
  rw [Int.tdiv_eq_ediv_of_nonneg hnn]
  simp only [denom]
  constructor
  · exact Int.ediv_nonneg hnn (by omega)
  · have : R * rate ≤ R * 10000 := Int.mul_le_mul_of_nonneg_left h1 hR
    have h2 : R * rate / 10000 ≤ R * 10000 / 10000 := Int.ediv_le_ediv (by omega) this
    rwa [Int.mul_ediv_cancel _ (by omega : (10000:Int) ≠ 0)] at h2

theorem tap_pos_of_paid (pi : PRepInfo) (wf : PRepWF pi) (p : PRep) (hp : p ∈ pi.preps)
    (h : pi.isPaid p = true) : 0 < pi.totalAccumulatedPower := by
  have ⟨hin, hpos⟩ := isPaid_inElected pi p h
  rw [wf.total, sumInt_filter_map]
  have := le_sumInt_of_mem pi.preps (fun x => if x.inElected pi.elected then x.accPower else 0)
    (fun x hx => by
      by_cases hc : x.inElected pi.elected = true
      · simp [hc]; exact wf.powNonneg x hx hc
      · simp [hc]) p hp
  simp [hin] at this
  omega

theorem payStep_fields (pi : PRepInfo) (wf : PRepWF pi) (T minBond mw : Int) (hT : 0 ≤ T) (hmw : 0 ≤ mw)
    (p : PRep) (hp : p ∈ pi.preps) :
    let q := payStep pi T minBond mw p
    q.commission + q.voterReward = prepRewardOf pi T p ∧ 0 ≤ q.commission ∧ 0 ≤ q.voterReward ∧
    0 ≤ q.wage ∧ q.wage ≤ (if p.inElected pi.elected then mw else 0) ∧
    q.owner = p.owner ∧ q.accVoted = p.accVoted ∧ q.isRewardable pi.elected = p.isRewardable pi.elected := by
  have ⟨c1, c2, c3⟩ := wf.clean p hp
  by_cases h : pi.isPaid p = true
  · have ⟨hin, hpos⟩ := isPaid_inElected pi p h
    have htap := tap_pos_of_paid pi wf p hp h
    have hR : 0 ≤ T * p.accPower / pi.totalAccumulatedPower :=
      Int.ediv_nonneg (Int.mul_nonneg hT (by omega)) (by omega)
    have ⟨r0, r1⟩ := wf.rate p hp
    have ⟨b0, b1⟩ := commission_bounds _ p.rate hR r0 r1
    simp only [payStep, h, prepRewardOf, if_true, PRep.calculateReward, hin]
    refine ⟨by omega, b0, by omega, ?_, ?_, (by first | trivial | rfl | simp [PRep.isRewardable]), (by first | trivial | rfl | simp [PRep.isRewardable]), (by first | trivial | rfl | simp [PRep.isRewardable])⟩
    · split <;> omega
    · split <;> omega
  · simp only [payStep, h, prepRewardOf]
    simp only [Bool.false_eq_true, if_false, c1, c2, c3]
    refine ⟨by omega, by omega, by omega, by omega, ?_, (by first | trivial | rfl | simp [PRep.isRewardable]), (by first | trivial | rfl | simp [PRep.isRewardable]), (by first | trivial | rfl | simp [PRep.isRewardable])⟩
    split <;> omega

theorem prepRewards_le (pi : PRepInfo) (wf : PRepWF pi) (T : Int) (hT : 0 ≤ T) :
    sumInt (pi.preps.map (prepRewardOf pi T)) ≤ T := by
  by_cases hex : ∃ p ∈ pi.preps, pi.isPaid p = true
  · obtain ⟨p0, hp0, hpaid0⟩ := hex
    have htap := tap_pos_of_paid pi wf p0 hp0 hpaid0
    have hcongr : sumInt (pi.preps.map (prepRewardOf pi T)) =
        sumInt ((pi.preps.map (fun p => if pi.isPaid p then p.accPower else 0)).map
          (fun a => a * T / pi.totalAccumulatedPower)) := by
      rw [List.map_map]
      apply sumInt_map_congr
      intro p _
      simp only [prepRewardOf, Function.comp]
      by_cases h : pi.isPaid p = true
      · simp [h, Int.mul_comm]
      · simp [h]
    rw [hcongr]
    apply floor_shares_le_total _ _ _ hT htap
    rw [wf.total, sumInt_filter_map]
    apply sumInt_map_le
    intro p hp
    by_cases h : pi.isPaid p = true
    · have ⟨hin, _⟩ := isPaid_inElected pi p h
      simp [h, hin]
    · by_cases hin : p.inElected pi.elected = true
      · simp [h, hin]; exact wf.powNonneg p hp hin
      · simp [h, hin]
  · have : sumInt (pi.preps.map (prepRewardOf pi T)) = sumInt (pi.preps.map (fun _ => (0:Int))) := by
      apply sumInt_map_congr
      intro p hp
      have : ¬ pi.isPaid p = true := fun h => hex ⟨p, hp, h⟩
      simp [prepRewardOf, this]
    rw [this]
    have : sumInt (pi.preps.map (fun _ => (0:Int))) = 0 := by
      induction pi.preps with
      | nil => rfl
      | cons a l ih => simp [sumInt_cons, ih]
    omega

theorem wages_le (pi : PRepInfo) (wf : PRepWF pi) (minWage : Int) (hW : 0 ≤ minWage) (he : pi.elected ≠ 0) :
    sumInt (pi.preps.map (fun p => if p.inElected pi.elected then minWage / (pi.elected : Int) else 0)) ≤ minWage := by
  have hpos : (0:Int) < (pi.elected : Int) := by omega
  have hmw : 0 ≤ minWage / (pi.elected : Int) := Int.ediv_nonneg hW (by omega)
  rw [sumInt_map_const_le _ _ _ hmw]
  have h1 : ((pi.preps.filter (fun p => p.inElected pi.elected)).length : Int) ≤ (pi.elected : Int) := by
    have := wf.count; omega
  have h2 : ((pi.preps.filter (fun p => p.inElected pi.elected)).length : Int) * (minWage / (pi.elected : Int))
      ≤ (pi.elected : Int) * (minWage / (pi.elected : Int)) := Int.mul_le_mul_of_nonneg_right h1 hmw
  have h3 : (pi.elected : Int) * (minWage / (pi.elected : Int)) ≤ minWage := by
    rw [Int.mul_comm]; exact Int.ediv_mul_le _ (by omega)
  omega

end Goloop.C35.Proofs

namespace Goloop.C35.Proofs
open Goloop.C35

def votesFor (E : Votes) (k : Nat) : Votes := E.filter (fun e => e.1 == k)

def shareIn (ps : List PRep) (elected : Nat) (e : Nat × Int) : Int :=
  match getPRep ps e.1 with
  | some p => if p.isRewardable elected then e.2 * p.voterReward / p.accVoted else 0
  | none => 0

theorem voterShare_eq (pi : PRepInfo) : voterShare pi = shareIn pi.preps pi.elected := rfl

theorem sumInt_filter_split {α} (l : List α) (c : α → Bool) (f : α → Int) :
    sumInt (l.map f) = sumInt ((l.filter c).map f) + sumInt ((l.filter (fun x => !c x)).map f) := by
  induction l with
  | nil => rfl
  | cons a l ih =>
    by_cases h : c a <;> simp [h, sumInt_cons, ih] <;> omega

theorem sumInt_map_zero {α} (l : List α) : sumInt (l.map (fun _ => (0:Int))) = 0 := by
  induction l with
  | nil => rfl
  | cons a l ih => simp [sumInt_cons, ih]

theorem share_one (p : PRep) (elected : Nat) (E : Votes)
    (hpos : p.isRewardable elected = true → 0 < p.accVoted ∧ 0 ≤ p.voterReward)
    (hsum : p.isRewardable elected = true → sumInt (E.map (·.2)) ≤ p.accVoted) :
    sumInt (E.map (fun e => if p.isRewardable elected then e.2 * p.voterReward / p.accVoted else 0))
      ≤ (if p.isRewardable elected then p.voterReward else 0) := by
  by_cases h : p.isRewardable elected = true
  · simp only [h, if_true]
    have ⟨h1, h2⟩ := hpos h
    have := floor_shares_le_total (E.map (·.2)) p.voterReward p.accVoted h2 h1 (hsum h)
    rw [List.map_map] at this
    exact this
  · simp only [h]
    simp [sumInt_map_zero]

theorem voter_side (elected : Nat) (ps : List PRep) : ∀ (E : Votes),
    (ps.map (·.owner)).Nodup →
    (∀ p ∈ ps, p.isRewardable elected = true → 0 < p.accVoted ∧ 0 ≤ p.voterReward) →
    (∀ p ∈ ps, p.isRewardable elected = true → sumInt ((votesFor E p.owner).map (·.2)) ≤ p.accVoted) →
    sumInt (E.map (shareIn ps elected)) ≤
      sumInt (ps.map (fun p => if p.isRewardable elected then p.voterReward else 0)) := by
  induction ps with
  | nil =>
    intro E _ _ _
    have : sumInt (E.map (shareIn [] elected)) = 0 := by
      induction E with
      | nil => rfl
      | cons a l ih => simp [sumInt_cons, ih, shareIn, getPRep]
    rw [this]; exact Int.le_refl 0
  | cons p ps ih =>
    intro E hnd hpos hsum
    rw [sumInt_filter_split E (fun e => e.1 == p.owner)]
    simp only [List.map_cons, sumInt_cons]
    have hnd' : (ps.map (·.owner)).Nodup := by
      simp only [List.map_cons, List.nodup_cons] at hnd; exact hnd.2
    have hnotin : ∀ q ∈ ps, q.owner ≠ p.owner := by
      simp only [List.map_cons, List.nodup_cons, List.mem_map, not_exists, not_and] at hnd
      intro q hq heq; exact hnd.1 q hq heq
    -- the part voting for p
    have h1 : sumInt ((E.filter (fun e => e.1 == p.owner)).map (shareIn (p :: ps) elected)) ≤
        (if p.isRewardable elected then p.voterReward else 0) := by
      have hc : sumInt ((E.filter (fun e => e.1 == p.owner)).map (shareIn (p :: ps) elected)) =
          sumInt ((E.filter (fun e => e.1 == p.owner)).map
            (fun e => if p.isRewardable elected then e.2 * p.voterReward / p.accVoted else 0)) := by
        apply sumInt_map_congr
        intro e he
        have : (e.1 == p.owner) = true := (List.mem_filter.mp he).2
        have heq : e.1 = p.owner := eq_of_beq this
        have h' : (p.owner == e.1) = true := by rw [heq]; exact beq_self_eq_true _
        simp [shareIn, getPRep, List.find?_cons, h']
      rw [hc]
      exact share_one p elected _ (hpos p (by simp)) (hsum p (by simp))
    -- the rest
    have h2 : sumInt ((E.filter (fun e => !(e.1 == p.owner))).map (shareIn (p :: ps) elected)) ≤
        sumInt (ps.map (fun p => if p.isRewardable elected then p.voterReward else 0)) := by
      have hc : sumInt ((E.filter (fun e => !(e.1 == p.owner))).map (shareIn (p :: ps) elected)) =
          sumInt ((E.filter (fun e => !(e.1 == p.owner))).map (shareIn ps elected)) := by
        apply sumInt_map_congr
        intro e he
        have : (!(e.1 == p.owner)) = true := (List.mem_filter.mp he).2
        have hne : e.1 ≠ p.owner := by
          intro hh; rw [hh] at this; simp at this
        have h' : (p.owner == e.1) = false := beq_eq_false_iff_ne.mpr (fun h => hne h.symm)
        simp [shareIn, getPRep, List.find?_cons, h']
      rw [hc]
      apply ih _ hnd' (fun q hq => hpos q (by simp [hq]))
      intro q hq hr
      have hne := hnotin q hq
      have : votesFor (E.filter (fun e => !(e.1 == p.owner))) q.owner = votesFor E q.owner := by
        simp only [votesFor, List.filter_filter]
        apply List.filter_congr
        intro e _
        by_cases hq' : e.1 = q.owner
        · simp [hq', hne]
        · simp [hq']
      rw [this]
      exact hsum q (by simp [hq]) hr
    omega

theorem sumInt_flatten_map {α} (ls : List (List α)) (f : α → Int) :
    sumInt (ls.map (fun l => sumInt (l.map f))) = sumInt (ls.flatten.map f) := by
  induction ls with
  | nil => rfl
  | cons l ls ih => simp [sumInt_cons, List.map_append, sumInt_append, ih]

end Goloop.C35.Proofs

namespace Goloop.C35.Proofs
open Goloop.C35

/-! ### configuration fields are never changed -/

def cfg (pi : PRepInfo) : Nat × Nat × Int := (pi.elected, pi.offsetLimit, pi.br)

theorem cfg_add (pi : PRepInfo) (a b : Nat) (c d e : Int) (f : Bool) : cfg (pi.add a b c d e f) = cfg pi := rfl
theorem cfg_setStatus (pi : PRepInfo) (a b : Nat) : cfg (pi.setStatus a b) = cfg pi := by
  unfold PRepInfo.setStatus; split <;> rfl
theorem cfg_applyVote1 (pi : PRepInfo) (b : Bool) (o : Int) (v : Nat × Int) : cfg (pi.applyVote1 b o v) = cfg pi := by
  unfold PRepInfo.applyVote1
  split <;> (simp only []; split) <;> rfl
theorem cfg_foldl {α} (f : PRepInfo → α → PRepInfo) (h : ∀ pi a, cfg (f pi a) = cfg pi) (l : List α) (pi : PRepInfo) :
    cfg (l.foldl f pi) = cfg pi := by
  induction l generalizing pi with
  | nil => rfl
  | cons a l ih => simp only [List.foldl_cons]; rw [ih, h]
theorem cfg_applyVote (pi : PRepInfo) (b : Bool) (vs : Votes) (o : Int) : cfg (pi.applyVote b vs o) = cfg pi :=
  cfg_foldl _ (fun pi v => cfg_applyVote1 pi b o v) vs pi
theorem cfg_applyEvent (pi : PRepInfo) (e : Event) : cfg (applyEvent pi e) = cfg pi := by
  cases e with
  | enable o t s => exact cfg_setStatus pi t s
  | vote b o f vs => exact cfg_applyVote pi b vs o
theorem cfg_processEvents (pi : PRepInfo) (evs : List Event) : cfg (processEvents pi evs) = cfg pi := by
  unfold processEvents
  show cfg (evs.foldl applyEvent pi) = cfg pi
  exact cfg_foldl _ cfg_applyEvent evs pi
theorem cfg_load (i : Input) : cfg (loadPRepInfo i) = (i.elected, i.offsetLimit, i.br) := by
  unfold loadPRepInfo
  show cfg (List.foldl _ _ _) = _
  rw [cfg_foldl _ (fun pi p => cfg_add pi _ _ _ _ _ _)]
  rfl
theorem cfg_after (i : Input) : cfg (prepInfoAfterEvents i) = (i.elected, i.offsetLimit, i.br) := by
  unfold prepInfoAfterEvents; rw [cfg_processEvents, cfg_load]

theorem fund_nonneg (reward period : Int) (h : 0 ≤ reward) (hp : 0 ≤ period) : 0 ≤ fundToPeriodIScore reward period := by
  unfold fundToPeriodIScore
  apply Int.ediv_nonneg
  · apply Int.mul_nonneg h; simp only [iscoreICXRatio]; omega
  · simp [monthBlock]

end Goloop.C35.Proofs

namespace Goloop.C35.Proofs
open Goloop.C35

/-- all accumulated votes of the voters `processVoterReward` visits, flattened -/
def allVotes (i : Input) : Votes := ((voterSet i).map (voterAV i)).flatten

/-- hypotheses on the state reached after `processEvents` (see Props/C35 for where they come from) -/
structure TermWF (i : Input) : Prop where
  prep : PRepWF (prepInfoAfterEvents i)
  nodup : ((prepInfoAfterEvents i).preps.map (·.owner)).Nodup
  funds : 0 ≤ i.iprepFund ∧ 0 ≤ i.iwageFund
  votedPos : ∀ p ∈ (prepInfoAfterEvents i).preps, p.isRewardable i.elected = true → 0 < p.accVoted
  votesLe : ∀ p ∈ (prepInfoAfterEvents i).preps, p.isRewardable i.elected = true →
    sumInt ((votesFor (allVotes i) p.owner).map (·.2)) ≤ p.accVoted

theorem final_preps (i : Input) (he : i.elected ≠ 0) :
    (finalPRepInfo i).preps = (prepInfoAfterEvents i).preps.map
      (payStep (prepInfoAfterEvents i) (fundToPeriodIScore i.iprepFund ((i.offsetLimit : Int) + 1)) i.minBond
        (fundToPeriodIScore i.iwageFund ((i.offsetLimit : Int) + 1) / (i.elected : Int))) ∧
    (finalPRepInfo i).elected = i.elected := by
  have hc := cfg_after i
  simp only [cfg, Prod.mk.injEq] at hc
  obtain ⟨h1, h2, _⟩ := hc
  unfold finalPRepInfo PRepInfo.calculateReward
  rw [if_neg (by rw [h1]; exact he)]
  simp only [PRepInfo.termPeriod, h1, h2]
  exact ⟨rfl, trivial⟩

theorem total_le_budget (i : Input) (r : Result) (hcalc : calculate i = some r) (wf : TermWF i) :
    r.totalCredited ≤ i.budget := by
  obtain ⟨wfprep, wfnodup, wffunds, wfvotedPos, wfvotesLe⟩ := wf
  have hc := cfg_after i
  simp only [cfg, Prod.mk.injEq] at hc
  obtain ⟨hel, hol, _⟩ := hc
  have hper : (0:Int) ≤ (i.offsetLimit : Int) + 1 := by omega
  have hT := fund_nonneg i.iprepFund _ wffunds.1 hper
  have hW := fund_nonneg i.iwageFund _ wffunds.2 hper
  unfold calculate at hcalc
  simp only [] at hcalc
  split at hcalc
  · cases hcalc
  · split at hcalc
    · -- no elected P-Rep: nothing credited
      cases hcalc
      simp only [Result.totalCredited, List.map_nil, sumInt, List.foldr_nil, Input.budget]
      omega
    · rename_i _ he
      cases hcalc
      obtain ⟨hpreps, hfel⟩ := final_preps i he
      generalize hpi : prepInfoAfterEvents i = pi at *
      generalize hTd : fundToPeriodIScore i.iprepFund ((i.offsetLimit : Int) + 1) = T at *
      generalize hWd : fundToPeriodIScore i.iwageFund ((i.offsetLimit : Int) + 1) = W at *
      have hmw : 0 ≤ W / (i.elected : Int) := Int.ediv_nonneg hW (by omega)
      have hf := fun p hp => payStep_fields pi wfprep T i.minBond (W / (i.elected : Int)) hT hmw p hp
      simp only [Result.totalCredited, List.map_map, Input.budget, hTd, hWd]
      -- voters
      have hv : sumInt ((voterSet i).map ((fun (e : Nat × Int) => e.2) ∘ fun v => (v, voterCalc (finalPRepInfo i) (voterAV i v))))
          ≤ sumInt ((finalPRepInfo i).preps.map PRep.voterReward) := by
        have e1 : sumInt ((voterSet i).map ((fun (e : Nat × Int) => e.2) ∘ fun v => (v, voterCalc (finalPRepInfo i) (voterAV i v))))
            = sumInt ((allVotes i).map (shareIn (finalPRepInfo i).preps (finalPRepInfo i).elected)) := by
          unfold allVotes
          rw [← sumInt_flatten_map, List.map_map]
          rfl
        rw [e1, hfel]
        refine Int.le_trans (voter_side i.elected _ (allVotes i) ?_ ?_ ?_) ?_
        · rw [hpreps, List.map_map]
          have : (fun (p : PRep) => p.owner) ∘ payStep pi T i.minBond (W / (i.elected : Int)) = fun p => p.owner := by
            funext p; simp only [Function.comp]
            by_cases h : pi.isPaid p = true <;> simp [payStep, h, PRep.calculateReward]
          rw [this]; exact wfnodup
        · intro q hq hr
          rw [hpreps] at hq
          obtain ⟨p, hp, rfl⟩ := List.mem_map.mp hq
          have := hf p hp
          simp only [hel] at this
          obtain ⟨_, _, hvr, _, _, _, hav, hrw⟩ := this
          rw [hrw] at hr
          rw [hav]
          exact ⟨wfvotedPos p hp hr, hvr⟩
        · intro q hq hr
          rw [hpreps] at hq
          obtain ⟨p, hp, rfl⟩ := List.mem_map.mp hq
          have := hf p hp
          simp only [hel] at this
          obtain ⟨_, _, _, _, _, how, hav, hrw⟩ := this
          rw [hrw] at hr
          rw [hav, how]
          exact wfvotesLe p hp hr
        · apply sumInt_map_le
          intro q hq
          rw [hpreps] at hq
          obtain ⟨p, hp, rfl⟩ := List.mem_map.mp hq
          have := hf p hp
          obtain ⟨_, _, hvr, _⟩ := this
          split <;> omega
      -- P-Reps
      have hp1 : sumInt ((finalPRepInfo i).preps.map (fun p => p.commission + p.voterReward)) ≤ T := by
        rw [hpreps, List.map_map]
        have : sumInt (pi.preps.map ((fun p => p.commission + p.voterReward) ∘ payStep pi T i.minBond (W / (i.elected : Int))))
            = sumInt (pi.preps.map (prepRewardOf pi T)) := by
          apply sumInt_map_congr
          intro p hp
          exact (hf p hp).1
        rw [this]
        exact prepRewards_le pi wfprep T hT
      have hp2 : sumInt ((finalPRepInfo i).preps.map PRep.wage) ≤ W := by
        rw [hpreps, List.map_map]
        have he' : pi.elected ≠ 0 := by rw [hel]; exact he
        refine Int.le_trans ?_ (wages_le pi wfprep W hW he')
        apply sumInt_map_le
        intro p hp
        have := (hf p hp).2.2.2.2.1
        rw [hel] at this ⊢
        exact this
      have hsplit : sumInt ((finalPRepInfo i).preps.map ((fun (e : Nat × Int) => e.2) ∘ fun p => (p.owner, p.getReward)))
          + sumInt ((finalPRepInfo i).preps.map PRep.voterReward)
          = sumInt ((finalPRepInfo i).preps.map (fun p => p.commission + p.voterReward))
          + sumInt ((finalPRepInfo i).preps.map PRep.wage) := by
        rw [sumInt_map_add]
        have : sumInt ((finalPRepInfo i).preps.map ((fun (e : Nat × Int) => e.2) ∘ fun p => (p.owner, p.getReward)))
            = sumInt ((finalPRepInfo i).preps.map (fun p => p.commission + p.wage)) := rfl
        rw [this, sumInt_map_add]
        omega
      omega

end Goloop.C35.Proofs

namespace Goloop.C35.Proofs
open Goloop.C35

/-! ### accumulation along the vote events of one P-Rep -/

theorem applyVote_accVoted (p : PRep) (b : Bool) (a period br : Int) :
    (p.applyVote b a period br).accVoted = p.accVoted + a * period := by
  cases b <;> simp [PRep.applyVote] <;> split <;> simp

theorem applyVote_power (p : PRep) (b : Bool) (a period br : Int) :
    (p.applyVote b a period br).power =
      calcPower br (if b then p.bonded + a else p.bonded) (p.votedValue + a) := by
  cases b <;> simp [PRep.applyVote, PRep.votedValue] <;> split <;> simp_all <;> congr 1 <;> omega

theorem applyVote_accPower (p : PRep) (b : Bool) (a period br : Int) :
    (p.applyVote b a period br).accPower =
      p.accPower + ((p.applyVote b a period br).power - p.power) * period := by
  cases b <;> simp [PRep.applyVote] <;> split
  all_goals first | (rename_i h; rw [← h]; simp) | simp

/-- one event keeps `power·(L−offset) ≤ accumulatedPower` -/
theorem accPower_step (p : PRep) (b : Bool) (a br L o o' : Int)
    (hp : 0 ≤ p.power) (ho : o ≤ o') (hinv : p.power * (L - o) ≤ p.accPower) :
    (p.applyVote b a (L - o') br).power * (L - o') ≤ (p.applyVote b a (L - o') br).accPower := by
  rw [applyVote_accPower]
  generalize (p.applyVote b a (L - o') br).power = pw'
  have h1 : p.power * (L - o') ≤ p.power * (L - o) := Int.mul_le_mul_of_nonneg_left (by omega) hp
  rw [Int.sub_mul]
  omega

def runVotes (L br : Int) : PRep → List (Bool × Int × Int) → PRep
  | p, [] => p
  | p, (b, a, o) :: rest => runVotes L br (p.applyVote b a (L - o) br) rest

/-- offsets non-decreasing and inside the term, power never negative -/
def ValidFrom (L br : Int) : Int → PRep → List (Bool × Int × Int) → Prop
  | _, _, [] => True
  | o, p, (b, a, o') :: rest =>
    o ≤ o' ∧ o' ≤ L ∧ 0 ≤ (p.applyVote b a (L - o') br).power ∧
      ValidFrom L br o' (p.applyVote b a (L - o') br) rest

theorem runVotes_acc (L br : Int) : ∀ (evs : List (Bool × Int × Int)) (p : PRep) (o : Int),
    o ≤ L → 0 ≤ p.power → p.power * (L - o) ≤ p.accPower → ValidFrom L br o p evs →
    0 ≤ (runVotes L br p evs).accPower ∧
    (runVotes L br p evs).accVoted = p.accVoted + sumInt (evs.map (fun e => e.2.1 * (L - e.2.2))) := by
  intro evs
  induction evs with
  | nil =>
    intro p o hoL hp hinv _
    simp only [runVotes, List.map_nil, sumInt, List.foldr_nil]
    have : 0 ≤ p.power * (L - o) := Int.mul_nonneg hp (by omega)
    constructor <;> omega
  | cons e rest ih =>
    intro p o hoL hp hinv hv
    obtain ⟨b, a, o'⟩ := e
    simp only [ValidFrom] at hv
    obtain ⟨h1, h2, h3, h4⟩ := hv
    have hstep := accPower_step p b a br L o o' hp h1 hinv
    have := ih (p.applyVote b a (L - o') br) o' h2 h3 hstep h4
    simp only [runVotes, List.map_cons, sumInt_cons]
    rw [applyVote_accVoted] at this
    constructor
    · exact this.1
    · rw [this.2]; omega

end Goloop.C35.Proofs

namespace Goloop.C35.Proofs
open Goloop.C35

/-! ### the same vote events reach the voter side and the P-Rep side -/

/-- sum of the entries of a vote list for target `k` -/
def votesTo (k : Nat) (vs : Votes) : Int := sumInt ((votesFor vs k).map (·.2))

theorem votesTo_cons (k : Nat) (v : Nat × Int) (vs : Votes) :
    votesTo k (v :: vs) = (if v.1 == k then v.2 else 0) + votesTo k vs := by
  by_cases h : (v.1 == k) = true <;> simp [votesTo, votesFor, List.filter_cons, h, sumInt_cons]

theorem votesTo_append (k : Nat) (a b : Votes) : votesTo k (a ++ b) = votesTo k a + votesTo k b := by
  simp [votesTo, votesFor, List.filter_append, List.map_append, sumInt_append]

theorem avAdd_votesTo (k k' : Nat) (amt : Int) : ∀ (av : Votes),
    votesTo k (avAdd av k' amt) = votesTo k av + (if k' == k then amt else 0) := by
  intro av
  induction av with
  | nil =>
    by_cases h : (k' == k) = true <;> simp [avAdd, votesTo, votesFor, List.filter_cons, h, sumInt]
  | cons e rest ih =>
    simp only [avAdd]
    by_cases h : (e.1 == k') = true
    · simp only [h, if_true, votesTo_cons]
      have e1 : e.1 = k' := eq_of_beq h
      by_cases hk : (k' == k) = true
      · have : (e.1 == k) = true := by rw [e1]; exact hk
        simp only [this, hk, if_true]; omega
      · have : (e.1 == k) = false := by rw [e1]; simpa using hk
        simp [this, hk]
    · have h' : (e.1 == k') = false := by simpa using h
      simp only [h', Bool.false_eq_true, if_false, votesTo_cons, ih]
      omega

theorem votesTo_nil (k : Nat) : votesTo k [] = 0 := rfl

theorem avApply_votesTo (k : Nat) (period : Int) : ∀ (votes av : Votes),
    votesTo k (avApply av votes period) = votesTo k av + votesTo k votes * period := by
  intro votes
  induction votes with
  | nil => intro av; simp [avApply, votesTo, votesFor, sumInt]
  | cons v vs ih =>
    intro av
    have := ih (avAdd av v.1 (v.2 * period))
    simp only [avApply, List.foldl_cons] at *
    rw [this, avAdd_votesTo, votesTo_cons, Int.add_mul]
    by_cases h : (v.1 == k) = true <;> simp [h] <;> omega

/-- Σ votes·(L − offset) over a voter's event list `(isBond, offset, votes)` -/
def evSum (k : Nat) (L : Int) (evs : List (Bool × Nat × Votes)) : Int :=
  sumInt (evs.map (fun e => votesTo k e.2.2 * (L - (e.2.1 : Int))))

theorem foldl_events_votesTo (k : Nat) (L : Int) : ∀ (evs : List (Bool × Nat × Votes)) (av : Votes),
    votesTo k (evs.foldl (fun av e => avApply av e.2.2 (L - (e.2.1 : Int))) av) = votesTo k av + evSum k L evs := by
  intro evs
  induction evs with
  | nil => intro av; simp [evSum, sumInt]
  | cons e rest ih =>
    intro av
    simp only [List.foldl_cons, evSum, List.map_cons, sumInt_cons]
    rw [ih, avApply_votesTo]
    simp only [evSum]; omega

/-- accumulation identity, voter side: what `processVoterReward` accumulates for voter `v` and P-Rep `k` -/
theorem voterAV_votesTo (i : Input) (v k : Nat) :
    votesTo k (voterAV i v) =
      (votesTo k (lookupVotes i.delegating v) + votesTo k (lookupVotes i.bonding v)) * ((i.offsetLimit : Int) + 1) +
      evSum k (i.offsetLimit : Int) (eventsOf i.events v) := by
  unfold voterAV
  simp only []
  rw [foldl_events_votesTo, avApply_votesTo, avApply_votesTo, votesTo_nil, Int.add_mul]; omega

end Goloop.C35.Proofs
