import Goloop.Model.C25
import Mathlib.Tactic.Ring
namespace Goloop.C25.Proofs
open Goloop Goloop.C25

/-! ## bit level -/

theorem length_bitsMSB (w v : Nat) : (bitsMSB w v).length = w := by
  induction w generalizing v with
  | zero => rfl
  | succ n ih => simp [bitsMSB, ih]

theorem bool_toNat_mod (n : Nat) : (n % 2 == 1).toNat = n % 2 := by
  rcases Nat.mod_two_eq_zero_or_one n with h | h <;> simp [h]

theorem readAcc_bits (w acc c : Nat) (rest : List Bool) :
    readAcc w acc (bitsMSB w c ++ rest) = some (acc * 2 ^ w + c % 2 ^ w, rest) := by
  induction w generalizing acc c with
  | zero => simp [readAcc, bitsMSB, Nat.mod_one]
  | succ n ih =>
    simp only [bitsMSB, List.cons_append, readAcc]
    rw [ih, bool_toNat_mod, Nat.mod_mod, Nat.mod_pow_succ (b := 2) (k := n) (x := c)]
    congr 2
    ring

theorem readCode_bits (w c : Nat) (rest : List Bool) (h : c < 2 ^ w) :
    readCode w (bitsMSB w c ++ rest) = some (c, rest) := by
  simp [readCode, readAcc_bits, Nat.mod_eq_of_lt h]

theorem natOfBits_lt (l : List Bool) : natOfBits l < 2 ^ l.length := by
  induction l with
  | nil => simp [natOfBits]
  | cons b t ih =>
    simp only [natOfBits, List.length_cons, Nat.pow_succ]
    have : b.toNat ≤ 1 := by cases b <;> simp
    have : b.toNat * 2 ^ t.length ≤ 1 * 2 ^ t.length := Nat.mul_le_mul_right _ this
    omega

theorem bitsMSB_natOfBits (l : List Bool) : bitsMSB l.length (natOfBits l) = l := by
  induction l with
  | nil => rfl
  | cons b t ih =>
    have hr := natOfBits_lt t
    have hpos : 0 < 2 ^ t.length := Nat.pos_of_ne_zero (by simp)
    have hv : natOfBits (b :: t) = 2 ^ t.length * b.toNat + natOfBits t := by
      simp [natOfBits, Nat.mul_comm]
    simp only [List.length_cons, bitsMSB, hv]
    rw [Nat.mul_add_div hpos, Nat.mul_add_mod, Nat.div_eq_of_lt hr, Nat.mod_eq_of_lt hr, ih]
    congr 1
    cases b <;> simp

theorem byte_bits (l : List Bool) (h : l.length = 8) : bitsMSB 8 (byteOfBits l).toNat = l := by
  have hlt := natOfBits_lt l
  rw [h] at hlt
  have h2 : (byteOfBits l).toNat = natOfBits l := by
    simp only [byteOfBits, UInt8.toNat_ofNat']
    exact Nat.mod_eq_of_lt (by simpa using hlt)
  rw [h2]
  have := bitsMSB_natOfBits l
  rwa [h] at this

theorem bytesOfBits_nil : bytesOfBits [] = [] := by
  unfold bytesOfBits; simp

theorem bytesOfBits_cons (b : Bool) (t : List Bool) :
    bytesOfBits (b :: t) = byteOfBits (pad8 ((b :: t).take 8)) :: bytesOfBits ((b :: t).drop 8) := by
  rw [bytesOfBits]; simp

theorem bitsOfBytes_cons (b : UInt8) (bs : Bytes) :
    bitsOfBytes (b :: bs) = bitsMSB 8 b.toNat ++ bitsOfBytes bs := by
  simp [bitsOfBytes]

/-- flushing a bit string to bytes and reading the bytes back gives the bit string followed by
    the zero padding of the last byte. -/
theorem bitsOfBytes_bytesOfBits (bits : List Bool) :
    ∃ k, bitsOfBytes (bytesOfBits bits) = bits ++ List.replicate k false := by
  generalize hn : bits.length = n
  induction n using Nat.strongRecOn generalizing bits with
  | _ n ih =>
    cases bits with
    | nil => exact ⟨0, by simp [bytesOfBits_nil, bitsOfBytes]⟩
    | cons b t =>
      rw [bytesOfBits_cons, bitsOfBytes_cons]
      by_cases h8 : 8 ≤ (b :: t).length
      · have hl : (pad8 ((b :: t).take 8)).length = 8 := by
          simp only [pad8, List.length_append, List.length_take, List.length_replicate]; omega
        have hp : pad8 ((b :: t).take 8) = (b :: t).take 8 := by
          have : ((b :: t).take 8).length = 8 := by simp only [List.length_take]; omega
          unfold pad8; rw [this]; simp
        rw [byte_bits _ hl, hp]
        obtain ⟨k, hk⟩ := ih ((b :: t).drop 8).length (by simp only [List.length_drop]; omega)
          ((b :: t).drop 8) rfl
        refine ⟨k, ?_⟩
        rw [hk, ← List.append_assoc, List.take_append_drop]
      · have hd : (b :: t).drop 8 = [] := by
          apply List.drop_eq_nil_of_le; omega
        have ht : (b :: t).take 8 = b :: t := by
          apply List.take_of_length_le; omega
        have hl : (pad8 (b :: t)).length = 8 := by
          simp only [pad8, List.length_append, List.length_replicate]; omega
        rw [hd, ht, bytesOfBits_nil, byte_bits _ hl]
        exact ⟨8 - (b :: t).length, by simp [pad8, bitsOfBytes]⟩

theorem bitsOf_cons (cw : Nat × Nat) (cs : List (Nat × Nat)) :
    bitsOf (cw :: cs) = bitsMSB cw.2 cw.1 ++ bitsOf cs := by simp [bitsOf]

theorem bitsOf_append (a b : List (Nat × Nat)) : bitsOf (a ++ b) = bitsOf a ++ bitsOf b := by
  simp [bitsOf]

theorem bitsOf_nil : bitsOf [] = [] := rfl

/-! ## dictionaries -/

/-- the writer's table as determined by a reader-style dictionary. -/
def tableOf : List (Nat × Nat × UInt8) → List (Nat × Nat)
  | [] => []
  | (k, p, x) :: D => (p * 256 + x.toNat, k) :: tableOf D

def ValidCode (D : List (Nat × Nat × UInt8)) (c : Nat) : Prop :=
  c < 256 ∨ (258 ≤ c ∧ c < 258 + D.length)

/-- entries are numbered 258, 259, … and every prefix is a literal or an older entry. -/
def Wf : List (Nat × Nat × UInt8) → Prop
  | [] => True
  | (k, p, _) :: D => k = 258 + D.length ∧ ValidCode D p ∧ Wf D

theorem head?_append_ne (a b : Bytes) (h : a ≠ []) : (a ++ b).head? = a.head? := by
  cases a with
  | nil => exact absurd rfl h
  | cons x t => rfl

theorem expandAcc_eq (D : List (Nat × Nat × UInt8)) (c : Nat) (acc : Bytes) :
    expandAcc D c acc = expand D c ++ acc := by
  induction D generalizing c acc with
  | nil => simp [expand, expandAcc]
  | cons e D ih =>
    obtain ⟨k, p, x⟩ := e
    by_cases h : c = k
    · simp only [expand, expandAcc, h, if_true]
      rw [ih p (x :: acc), ih p [x]]; simp
    · simp only [expand, expandAcc, h, if_false]
      rw [ih c acc, ih c []]; simp

theorem expand_cons_eq (k p : Nat) (x : UInt8) (D : List (Nat × Nat × UInt8)) :
    expand ((k, p, x) :: D) k = expand D p ++ [x] := by
  simp only [expand, expandAcc, if_true]
  rw [expandAcc_eq]; simp [expand]

theorem expand_cons_ne (k p : Nat) (x : UInt8) (D : List (Nat × Nat × UInt8)) (c : Nat)
    (h : c ≠ k) : expand ((k, p, x) :: D) c = expand D c := by
  simp [expand, expandAcc, h]

theorem expand_ne_nil (D : List (Nat × Nat × UInt8)) (c : Nat) : expand D c ≠ [] := by
  induction D generalizing c with
  | nil => simp [expand, expandAcc]
  | cons e D ih =>
    obtain ⟨k, p, x⟩ := e
    by_cases h : c = k
    · subst h; rw [expand_cons_eq]; simp
    · rw [expand_cons_ne _ _ _ _ _ h]; exact ih c

theorem expand_lit (D : List (Nat × Nat × UInt8)) (c : Nat) (hw : Wf D) (hc : c < 256) :
    expand D c = [UInt8.ofNat c] := by
  induction D with
  | nil => simp [expand, expandAcc]
  | cons e D ih =>
    obtain ⟨k, p, x⟩ := e
    obtain ⟨hk, _, hw'⟩ := hw
    rw [expand_cons_ne _ _ _ _ _ (by omega)]
    exact ih hw'

theorem head_expand (D : List (Nat × Nat × UInt8)) (c : Nat) :
    (expand D c).head? = some (UInt8.ofNat (headOf D c)) := by
  induction D generalizing c with
  | nil => simp [expand, expandAcc, headOf]
  | cons e D ih =>
    obtain ⟨k, p, x⟩ := e
    by_cases h : c = k
    · subst h
      rw [expand_cons_eq, head?_append_ne _ _ (expand_ne_nil D p)]
      simp [headOf, ih]
    · rw [expand_cons_ne _ _ _ _ _ h]
      simp [headOf, h, ih]

theorem key_inj (c p : Nat) (x y : UInt8) (h : c * 256 + x.toNat = p * 256 + y.toNat) :
    c = p ∧ x = y := by
  have hx := x.toNat_lt
  have hy := y.toNat_lt
  have h1 : c = p := by omega
  refine ⟨h1, ?_⟩
  subst h1
  apply UInt8.toNat_inj.mp
  omega

/-- a hit in the writer's table is the code of `expansion(code) ++ [x]`. -/
theorem lookup_tableOf (D : List (Nat × Nat × UInt8)) (c v : Nat) (x : UInt8) (hw : Wf D)
    (h : (tableOf D).lookup (c * 256 + x.toNat) = some v) :
    c < 258 + D.length ∧ 258 ≤ v ∧ v < 258 + D.length ∧ expand D v = expand D c ++ [x] := by
  induction D with
  | nil => simp [tableOf] at h
  | cons e D ih =>
    obtain ⟨k, p, y⟩ := e
    obtain ⟨hk, hp, hw'⟩ := hw
    simp only [tableOf, List.lookup_cons] at h
    by_cases hkey : c * 256 + x.toNat = p * 256 + y.toNat
    · obtain ⟨rfl, rfl⟩ := key_inj _ _ _ _ hkey
      simp only [beq_self_eq_true, Option.some.injEq] at h
      subst h
      have hpk : c < 258 + D.length := by rcases hp with h | h <;> omega
      refine ⟨by simp only [List.length_cons]; omega, by omega, by simp only [List.length_cons]; omega, ?_⟩
      rw [expand_cons_eq, expand_cons_ne _ _ _ _ _ (by omega)]
    · have hne : (c * 256 + x.toNat == p * 256 + y.toNat) = false := by simpa using hkey
      rw [hne] at h
      obtain ⟨h1, h2, h3, h4⟩ := ih hw' h
      refine ⟨by simp only [List.length_cons]; omega, h2, by simp only [List.length_cons]; omega, ?_⟩
      rw [expand_cons_ne _ _ _ _ _ (by omega), expand_cons_ne _ _ _ _ _ (by omega), h4]

/-! ## the reader on single codes -/

theorem decLoop_lit (f : Nat) (d : Dec) (bits rest : List Bool) (code : Nat)
    (hr : readCode d.width bits = some (code, rest)) (hc : code < 256) :
    decLoop (f + 1) d bits =
      UInt8.ofNat code :: decLoop f (advance (save d (UInt8.ofNat code)) code) rest := by
  simp [decLoop, hr, hc]

theorem decLoop_clear (f : Nat) (d : Dec) (bits rest : List Bool)
    (hr : readCode d.width bits = some (256, rest)) :
    decLoop (f + 1) d bits = decLoop f decInit rest := by
  simp [decLoop, hr]

theorem decLoop_eof (f : Nat) (d : Dec) (bits rest : List Bool)
    (hr : readCode d.width bits = some (257, rest)) :
    decLoop (f + 1) d bits = [] := by
  simp [decLoop, hr]

theorem decLoop_kw (f : Nat) (d : Dec) (bits rest : List Bool) (code l : Nat)
    (hr : readCode d.width bits = some (code, rest)) (hc : 258 ≤ code) (hhi : code = d.hi)
    (hl : d.last = some l) :
    decLoop (f + 1) d bits =
      (expand d.dict l ++ [UInt8.ofNat (headOf d.dict l)]) ++
        decLoop f (advance (save d (UInt8.ofNat (headOf d.dict l))) code) rest := by
  have h1 : ¬ code < 256 := by omega
  have h2 : ¬ code = 256 := by omega
  have h3 : ¬ code = 257 := by omega
  have h4 : code ≤ d.hi := by omega
  have h5 : (if code = d.hi then d.last else none) = some l := by simp [hhi, hl]
  simp only [decLoop, hr, h1, h2, h3, h4, h5, if_false, if_true, expandAcc_eq]

theorem decLoop_norm (f : Nat) (d : Dec) (bits rest : List Bool) (code : Nat)
    (hr : readCode d.width bits = some (code, rest)) (hc : 258 ≤ code) (hhi : code < d.hi) :
    decLoop (f + 1) d bits =
      expand d.dict code ++
        decLoop f (advance (save d (UInt8.ofNat (headOf d.dict code))) code) rest := by
  have h1 : ¬ code < 256 := by omega
  have h2 : ¬ code = 256 := by omega
  have h3 : ¬ code = 257 := by omega
  have h4 : code ≤ d.hi := by omega
  have h5 : ¬ code = d.hi := by omega
  simp only [decLoop, hr, h1, h2, h3, h4, h5, if_false, if_true]

/-! ## the simulation invariant -/

/-- `E` is the writer's dictionary in reader form.  The reader's dictionary is `E` minus its
    newest entry, whose suffix byte the reader will only learn from the next code. -/
structure Inv (E : List (Nat × Nat × UInt8)) (e : Enc) (d : Dec) (code : Nat) : Prop where
  tbl : e.table = tableOf E
  wf : Wf E
  ehi : e.hi = 257 + E.length
  dhi : d.hi = e.hi
  dw : d.width = e.width
  dov : d.overflow = e.overflow
  ov : e.overflow = 2 ^ e.width
  wlo : 9 ≤ e.width
  whi : e.width ≤ 12
  hilt : e.hi < e.overflow
  hi94 : e.hi ≤ 4094
  valid : ValidCode E code
  link : (E = [] ∧ d.dict = [] ∧ d.last = none) ∨
    (∃ l x0, E = (d.hi, l, x0) :: d.dict ∧ d.last = some l ∧ (expand E code).head? = some x0)

theorem inv_init (c : Nat) (hc : c < 256) : Inv [] encInit decInit c where
  tbl := rfl
  wf := trivial
  ehi := rfl
  dhi := rfl
  dw := rfl
  dov := rfl
  ov := by simp [encInit]
  wlo := by simp [encInit]
  whi := by simp [encInit]
  hilt := by simp [encInit]
  hi94 := by simp [encInit]
  valid := Or.inl hc
  link := Or.inl ⟨rfl, rfl, rfl⟩

/-- reader state after it has consumed the pending code of a writer in state `e`. -/
def d1 (E : List (Nat × Nat × UInt8)) (e : Enc) (code : Nat) : Dec :=
  { dict := E, hi := e.hi + 1, width := (bump (e.hi + 1) e.width e.overflow).1,
    overflow := (bump (e.hi + 1) e.width e.overflow).2, last := some code }

theorem pow_le_4094 (w : Nat) (h : w ≤ 12) (h2 : 2 ^ w ≤ 4095) : w ≤ 11 := by
  by_contra hc
  have : w = 12 := by omega
  subst this
  omega

theorem advance_eq (D : List (Nat × Nat × UInt8)) (e : Enc) (d : Dec) (code : Nat) (lst : Option Nat)
    (dhi : d.hi = e.hi) (dw : d.width = e.width) (dov : d.overflow = e.overflow)
    (ov : e.overflow = 2 ^ e.width) (whi : e.width ≤ 12) (hilt : e.hi < e.overflow)
    (hi94 : e.hi ≤ 4094) :
    advance { d with dict := D, last := lst } code = d1 D e code := by
  unfold advance d1 bump
  simp only [dhi, dw, dov]
  by_cases h : e.hi + 1 = e.overflow
  · have hw : e.width ≤ 11 := pow_le_4094 _ whi (by omega)
    have h12 : ¬ e.width = 12 := by omega
    have hge : e.hi + 1 ≥ e.overflow := by omega
    simp only [h, ge_iff_le, Nat.le_refl, if_true, h12, if_false, ov, Nat.pow_succ]
  · have hge : ¬ e.hi + 1 ≥ e.overflow := by omega
    simp only [hge, h, if_false]

theorem code_lt_pow {E e d code} (h : Inv E e d code) : code < 2 ^ e.width := by
  have := h.valid; have := h.ehi; have := h.hilt; have := h.ov
  rcases h.valid with hv | hv <;> omega

/-- the reader consumes the writer's pending code: it outputs that code's expansion (also in
    the KwKwK case where the code is the entry the reader does not have yet) and its dictionary
    becomes the writer's. -/
theorem decStep {E e d code} (h : Inv E e d code) (f : Nat) (rest : List Bool) :
    decLoop (f + 1) d (bitsMSB e.width code ++ rest) =
      expand E code ++ decLoop f (d1 E e code) rest := by
  have hr : readCode d.width (bitsMSB e.width code ++ rest) = some (code, rest) := by
    rw [h.dw]; exact readCode_bits _ _ _ (code_lt_pow h)
  have hadv : ∀ D lst, advance { d with dict := D, last := lst } code = d1 D e code :=
    fun D lst => advance_eq D e d code lst h.dhi h.dw h.dov h.ov h.whi h.hilt h.hi94
  rcases h.link with ⟨hE, hD, hL⟩ | ⟨l, x0, hE, hL, hH⟩
  · -- fresh: the pending code is a literal, nothing is saved
    subst hE
    have hc : code < 256 := by
      rcases h.valid with hv | hv
      · exact hv
      · simp at hv; omega
    rw [decLoop_lit f d _ rest code hr hc]
    have hs : save d (UInt8.ofNat code) = { d with dict := [], last := none } := by
      cases d; simp_all [save]
    rw [hs, hadv, expand_lit [] code trivial hc]
    rfl
  · have hwf := h.wf
    rw [hE] at hwf
    obtain ⟨hk, hpl, hwD⟩ := hwf
    have hsave : ∀ s, save d s = { d with dict := (d.hi, l, s) :: d.dict, last := some l } := by
      intro s; cases d; simp_all [save]
    have hlen : E.length = d.dict.length + 1 := by rw [hE]; simp
    by_cases hc : code < 256
    · rw [decLoop_lit f d _ rest code hr hc, hsave, hadv]
      have hx : UInt8.ofNat code = x0 := by
        rw [expand_lit E code h.wf hc] at hH
        simpa using hH
      rw [hx, ← hE, expand_lit E code h.wf hc, hx]
      rfl
    · have hv : 258 ≤ code ∧ code < 258 + E.length := by
        rcases h.valid with hv | hv
        · exact absurd hv hc
        · exact hv
      by_cases hhi : code = d.hi
      · -- KwKwK
        rw [decLoop_kw f d _ rest code l hr hv.1 hhi hL, hsave, hadv]
        have hexp : expand E code = expand d.dict l ++ [x0] := by
          rw [hE, hhi, expand_cons_eq]
        have hx : UInt8.ofNat (headOf d.dict l) = x0 := by
          rw [hexp, head?_append_ne _ _ (expand_ne_nil _ _), head_expand] at hH
          simpa using hH
        rw [hx, ← hE, hexp]
      · have hlt : code < d.hi := by
          have := h.ehi; have := h.dhi; omega
        rw [decLoop_norm f d _ rest code hr hv.1 hlt, hsave, hadv]
        have hexp : expand E code = expand d.dict code := by
          rw [hE, expand_cons_ne _ _ _ _ _ hhi]
        have hx : UInt8.ofNat (headOf d.dict code) = x0 := by
          rw [hexp, head_expand] at hH
          simpa using hH
        rw [hx, ← hE, hexp]

theorem incHi_full (e : Enc) (h : e.hi + 1 = 4095) :
    incHi e = { e := encInit, ooc := true, clr := [(256, (bump (e.hi + 1) e.width e.overflow).1)] } := by
  simp [incHi, h]

theorem incHi_more (e : Enc) (h : ¬ e.hi + 1 = 4095) :
    incHi e = { e := { e with hi := e.hi + 1, width := (bump (e.hi + 1) e.width e.overflow).1,
                              overflow := (bump (e.hi + 1) e.width e.overflow).2 },
                ooc := false, clr := [] } := by
  simp [incHi, h]

theorem bump_width {E e d code} (h : Inv E e d code) :
    9 ≤ (bump (e.hi + 1) e.width e.overflow).1 ∧ (bump (e.hi + 1) e.width e.overflow).1 ≤ 12 ∧
    (bump (e.hi + 1) e.width e.overflow).2 = 2 ^ (bump (e.hi + 1) e.width e.overflow).1 ∧
    (e.hi + 1 ≠ 4095 → e.hi + 1 < (bump (e.hi + 1) e.width e.overflow).2) := by
  have h1 := h.wlo; have h2 := h.whi; have h3 := h.ov; have h4 := h.hilt; have h5 := h.hi94
  unfold bump
  by_cases hb : e.hi + 1 = e.overflow
  · have hw : e.width ≤ 11 := pow_le_4094 _ h2 (by omega)
    simp only [hb, if_true]
    refine ⟨by omega, by omega, by rw [h3, Nat.pow_succ], by omega⟩
  · simp only [hb, if_false]
    refine ⟨h1, h2, h3, by omega⟩

/-- invariant after a table miss that did not fill the table. -/
theorem inv_next {E e d code} (h : Inv E e d code) (x : UInt8) (h95 : ¬ e.hi + 1 = 4095) :
    Inv ((e.hi + 1, code, x) :: E)
      { table := (code * 256 + x.toNat, e.hi + 1) :: e.table, hi := e.hi + 1,
        width := (bump (e.hi + 1) e.width e.overflow).1,
        overflow := (bump (e.hi + 1) e.width e.overflow).2 }
      (d1 E e code) x.toNat := by
  obtain ⟨b1, b2, b3, b4⟩ := bump_width h
  have hwf : Wf ((e.hi + 1, code, x) :: E) := ⟨by have := h.ehi; omega, h.valid, h.wf⟩
  exact {
    tbl := by simp [tableOf, h.tbl]
    wf := hwf
    ehi := by simp only [List.length_cons]; have := h.ehi; omega
    dhi := rfl
    dw := rfl
    dov := rfl
    ov := b3
    wlo := b1
    whi := b2
    hilt := b4 h95
    hi94 := by have := h.hi94; show e.hi + 1 ≤ 4094; omega
    valid := Or.inl x.toNat_lt
    link := Or.inr ⟨code, x, rfl, rfl, by
      rw [expand_lit _ _ hwf x.toNat_lt]; simp⟩ }

theorem clear_lt (w : Nat) (h : 9 ≤ w) : 257 < 2 ^ w := by
  have : 2 ^ 9 ≤ 2 ^ w := Nat.pow_le_pow_right (by omega) h
  omega

/-- Main simulation: the reader run on the bits the writer produces from state `e` with pending
    `code` and remaining input `xs` outputs the pending expansion followed by `xs`. -/
theorem sim (xs : Bytes) : ∀ E e d code, Inv E e d code → ∀ (F : Nat) (pad : List Bool),
    (bitsOf (encLoop e code xs)).length < F →
    decLoop F d (bitsOf (encLoop e code xs) ++ pad) = expand E code ++ xs := by
  induction xs with
  | nil =>
    intro E e d code h F pad hF
    obtain ⟨b1, b2, b3, b4⟩ := bump_width h
    have hw := h.wlo
    by_cases h95 : e.hi + 1 = 4095
    · have henc : encLoop e code [] =
          [(code, e.width), (256, (bump (e.hi + 1) e.width e.overflow).1), (257, 9)] := by
        simp [encLoop, incHi_full e h95, encInit]
      rw [henc] at hF ⊢
      simp only [bitsOf_cons, bitsOf_nil, List.length_append, length_bitsMSB, List.append_nil,
        List.append_assoc] at hF ⊢
      obtain ⟨f, rfl⟩ : ∃ f, F = f + 3 := ⟨F - 3, by omega⟩
      rw [decStep h (f + 2)]
      have hr1 : readCode (d1 E e code).width
          (bitsMSB (bump (e.hi + 1) e.width e.overflow).1 256 ++ (bitsMSB 9 257 ++ pad)) =
          some (256, bitsMSB 9 257 ++ pad) :=
        readCode_bits (bump (e.hi + 1) e.width e.overflow).1 256 _ (by have := clear_lt _ b1; omega)
      rw [decLoop_clear (f + 1) _ _ _ hr1]
      have hr2 : readCode decInit.width (bitsMSB 9 257 ++ pad) = some (257, pad) :=
        readCode_bits 9 257 _ (by decide)
      rw [decLoop_eof f _ _ _ hr2]
      simp
    · have henc : encLoop e code [] =
          [(code, e.width), (257, (bump (e.hi + 1) e.width e.overflow).1)] := by
        simp [encLoop, incHi_more e h95]
      rw [henc] at hF ⊢
      simp only [bitsOf_cons, bitsOf_nil, List.length_append, length_bitsMSB, List.append_nil,
        List.append_assoc] at hF ⊢
      obtain ⟨f, rfl⟩ : ∃ f, F = f + 2 := ⟨F - 2, by omega⟩
      rw [decStep h (f + 1)]
      have hr1 : readCode (d1 E e code).width
          (bitsMSB (bump (e.hi + 1) e.width e.overflow).1 257 ++ pad) = some (257, pad) :=
        readCode_bits (bump (e.hi + 1) e.width e.overflow).1 257 _ (clear_lt _ b1)
      rw [decLoop_eof f _ _ _ hr1]
      simp
  | cons x xs ih =>
    intro E e d code h F pad hF
    obtain ⟨b1, b2, b3, b4⟩ := bump_width h
    have hw := h.wlo
    cases hlk : e.table.lookup (code * 256 + x.toNat) with
    | some v =>
      have henc : encLoop e code (x :: xs) = encLoop e v xs := by
        simp [encLoop, hlk]
      rw [henc] at hF ⊢
      have hl := hlk
      rw [h.tbl] at hl
      obtain ⟨_, hv1, hv2, hexp⟩ := lookup_tableOf E code v x h.wf hl
      have h' : Inv E e d v := { h with
        valid := Or.inr ⟨hv1, hv2⟩
        link := by
          rcases h.link with ⟨hE, _, _⟩ | ⟨l, x0, hE, hL, hH⟩
          · subst hE; simp [tableOf] at hl
          · exact Or.inr ⟨l, x0, hE, hL, by
              rw [hexp, head?_append_ne _ _ (expand_ne_nil _ _)]; exact hH⟩ }
      rw [ih E e d v h' F pad hF, hexp]
      simp
    | none =>
      by_cases h95 : e.hi + 1 = 4095
      · have henc : encLoop e code (x :: xs) =
            (code, e.width) :: (256, (bump (e.hi + 1) e.width e.overflow).1) ::
              encLoop encInit x.toNat xs := by
          simp [encLoop, hlk, incHi_full e h95]
        rw [henc] at hF ⊢
        simp only [bitsOf_cons, List.length_append, length_bitsMSB, List.append_assoc] at hF ⊢
        obtain ⟨f, rfl⟩ : ∃ f, F = f + 2 := ⟨F - 2, by omega⟩
        rw [decStep h (f + 1)]
        have hr1 : readCode (d1 E e code).width
            (bitsMSB (bump (e.hi + 1) e.width e.overflow).1 256 ++
              (bitsOf (encLoop encInit x.toNat xs) ++ pad)) =
            some (256, bitsOf (encLoop encInit x.toNat xs) ++ pad) :=
          readCode_bits (bump (e.hi + 1) e.width e.overflow).1 256 _ (by have := clear_lt _ b1; omega)
        rw [decLoop_clear f _ _ _ hr1]
        rw [ih [] encInit decInit x.toNat (inv_init _ x.toNat_lt) f pad (by omega)]
        rw [expand_lit [] _ trivial x.toNat_lt]
        simp
      · have henc : encLoop e code (x :: xs) =
            (code, e.width) ::
              encLoop { table := (code * 256 + x.toNat, e.hi + 1) :: e.table, hi := e.hi + 1,
                        width := (bump (e.hi + 1) e.width e.overflow).1,
                        overflow := (bump (e.hi + 1) e.width e.overflow).2 } x.toNat xs := by
          simp [encLoop, hlk, incHi_more e h95]
        rw [henc] at hF ⊢
        simp only [bitsOf_cons, List.length_append, length_bitsMSB, List.append_assoc] at hF ⊢
        obtain ⟨f, rfl⟩ : ∃ f, F = f + 1 := ⟨F - 1, by omega⟩
        rw [decStep h f]
        have hn := inv_next h x h95
        rw [ih _ _ _ _ hn f pad (by omega)]
        rw [expand_lit _ _ hn.wf x.toNat_lt]
        simp

theorem encLoop_init_head (x : UInt8) (xs : Bytes) :
    ∃ rest, encLoop encInit x.toNat xs = (x.toNat, 9) :: rest := by
  cases xs with
  | nil => exact ⟨_, rfl⟩
  | cons y ys =>
    have : encLoop encInit x.toNat (y :: ys) = (x.toNat, 9) ::
        ((incHi encInit).clr ++ encLoop
          (if (incHi encInit).ooc then (incHi encInit).e
           else { (incHi encInit).e with
                  table := (x.toNat * 256 + y.toNat, (incHi encInit).e.hi) :: (incHi encInit).e.table })
          y.toNat ys) := by
      simp [encLoop, encInit]
    exact ⟨_, this⟩

/-! ## the accumulator writer refines the bit string form -/

theorem natOfBits_append (a b : List Bool) :
    natOfBits (a ++ b) = natOfBits a * 2 ^ b.length + natOfBits b := by
  induction a with
  | nil => simp [natOfBits]
  | cons x t ih =>
    simp only [List.cons_append, natOfBits, List.length_append, ih, Nat.pow_add]
    ring

theorem natOfBits_bitsMSB (w c : Nat) : natOfBits (bitsMSB w c) = c % 2 ^ w := by
  induction w generalizing c with
  | zero => simp [bitsMSB, natOfBits, Nat.mod_one]
  | succ n ih =>
    simp only [bitsMSB, natOfBits, length_bitsMSB, ih, bool_toNat_mod, Nat.mod_mod]
    rw [Nat.mod_pow_succ (b := 2) (k := n) (x := c)]
    ring

theorem bytesOfBits_append8 (t r : List Bool) (h : t.length = 8) :
    bytesOfBits (t ++ r) = byteOfBits t :: bytesOfBits r := by
  cases t with
  | nil => simp at h
  | cons b t' =>
    rw [List.cons_append, bytesOfBits_cons]
    have h1 : List.take 8 (b :: (t' ++ r)) = b :: t' := by
      rw [← List.cons_append]; exact List.take_left' h
    have h2 : List.drop 8 (b :: (t' ++ r)) = r := by
      rw [← List.cons_append]; exact List.drop_left' h
    rw [h1, h2]
    simp [pad8, h]

/-- accumulator state `s` holds the pending bit string `p`. -/
def Rep (s : BitW) (p : List Bool) : Prop :=
  p.length = s.nBits ∧ s.nBits < 8 ∧ s.bits = natOfBits p * 2 ^ (32 - s.nBits)

theorem drain_spec (q : List Bool) (hq : q.length ≤ 32) (out : Bytes) :
    ∃ p', Rep (drain (natOfBits q * 2 ^ (32 - q.length)) q.length out) p' ∧
      ∀ rest, (drain (natOfBits q * 2 ^ (32 - q.length)) q.length out).out.reverse ++
          bytesOfBits (p' ++ rest) = out.reverse ++ bytesOfBits (q ++ rest) := by
  generalize hm : q.length = m
  induction m using Nat.strongRecOn generalizing q out with
  | _ m ih =>
    rw [drain]
    by_cases h8 : 8 ≤ m
    · simp only [h8, if_true]
      have hsplit : q = q.take 8 ++ q.drop 8 := (List.take_append_drop 8 q).symm
      have ht : (q.take 8).length = 8 := by simp only [List.length_take]; omega
      have hd : (q.drop 8).length = m - 8 := by simp only [List.length_drop]; omega
      have hN : natOfBits q = natOfBits (q.take 8) * 2 ^ (m - 8) + natOfBits (q.drop 8) := by
        conv => lhs; rw [hsplit]
        rw [natOfBits_append, hd]
      have hT := natOfBits_lt (q.take 8)
      have hD := natOfBits_lt (q.drop 8)
      rw [ht] at hT
      rw [hd] at hD
      have hAB : 2 ^ (m - 8) * 2 ^ (32 - m) = 16777216 := by
        rw [← Nat.pow_add]
        have : m - 8 + (32 - m) = 24 := by omega
        rw [this]
      have hB : 0 < 2 ^ (32 - m) := Nat.pos_of_ne_zero (by simp)
      have hbits : natOfBits q * 2 ^ (32 - m) =
          natOfBits (q.take 8) * 16777216 + natOfBits (q.drop 8) * 2 ^ (32 - m) := by
        rw [hN, Nat.add_mul, Nat.mul_assoc, hAB]
      have hr : natOfBits (q.drop 8) * 2 ^ (32 - m) < 16777216 := by
        rw [← hAB]; exact Nat.mul_lt_mul_of_pos_right hD hB
      have hbyte : (natOfBits q * 2 ^ (32 - m)) >>> 24 = natOfBits (q.take 8) := by
        rw [Nat.shiftRight_eq_div_pow, hbits]
        have : (2 : Nat) ^ 24 = 16777216 := by norm_num
        rw [this]; omega
      have hnext : ((natOfBits q * 2 ^ (32 - m)) <<< 8) % 2 ^ 32 =
          natOfBits (q.drop 8) * 2 ^ (32 - (m - 8)) := by
        rw [Nat.shiftLeft_eq, hbits]
        have e : 32 - (m - 8) = (32 - m) + 8 := by omega
        rw [e, Nat.pow_add, ← Nat.mul_assoc]
        have : (2 : Nat) ^ 32 = 4294967296 := by norm_num
        rw [this]
        have : (2 : Nat) ^ 8 = 256 := by norm_num
        rw [this]
        omega
      rw [hbyte, hnext]
      obtain ⟨p', hrep, hout⟩ := ih (m - 8) (by omega) (q.drop 8) (by omega)
        (UInt8.ofNat (natOfBits (q.take 8)) :: out) hd
      refine ⟨p', hrep, ?_⟩
      intro rest
      rw [hout rest]
      conv => rhs; rw [hsplit, List.append_assoc, bytesOfBits_append8 _ _ ht]
      simp [byteOfBits]
    · simp only [h8, if_false]
      exact ⟨q, ⟨hm, by show m < 8; omega, rfl⟩, fun _ => rfl⟩

theorem write_spec (s : BitW) (p : List Bool) (h : Rep s p) (c w : Nat) (hc : c < 2 ^ w)
    (hw : w ≤ 24) :
    ∃ p', Rep (writeMSB s c w) p' ∧
      ∀ rest, (writeMSB s c w).out.reverse ++ bytesOfBits (p' ++ rest) =
        s.out.reverse ++ bytesOfBits (p ++ (bitsMSB w c ++ rest)) := by
  obtain ⟨hl, hn, hb⟩ := h
  have hq : (p ++ bitsMSB w c).length = s.nBits + w := by simp [hl, length_bitsMSB]
  have hP := natOfBits_lt p
  rw [hl] at hP
  have hval : (s.bits ||| (c <<< (32 - w - s.nBits))) % 2 ^ 32 =
      natOfBits (p ++ bitsMSB w c) * 2 ^ (32 - (s.nBits + w)) := by
    rw [natOfBits_append, natOfBits_bitsMSB, length_bitsMSB, Nat.mod_eq_of_lt hc, hb]
    have e1 : 32 - s.nBits = w + (32 - w - s.nBits) := by omega
    have e2 : 32 - (s.nBits + w) = 32 - w - s.nBits := by omega
    rw [e1, e2, Nat.pow_add, ← Nat.mul_assoc, ← Nat.shiftLeft_eq, ← Nat.shiftLeft_eq,
      ← Nat.shiftLeft_eq, ← Nat.shiftLeft_or_distrib, ← Nat.shiftLeft_add_eq_or_of_lt hc]
    rw [Nat.shiftLeft_eq, Nat.shiftLeft_eq]
    apply Nat.mod_eq_of_lt
    have h1 : natOfBits p * 2 ^ w + c < 2 ^ (s.nBits + w) := by
      rw [Nat.pow_add]
      have : natOfBits p * 2 ^ w + c < (natOfBits p + 1) * 2 ^ w := by
        rw [Nat.add_mul]; omega
      exact Nat.lt_of_lt_of_le this (Nat.mul_le_mul_right _ hP)
    have h2 : 2 ^ (s.nBits + w) * 2 ^ (32 - w - s.nBits) = 2 ^ 32 := by
      rw [← Nat.pow_add]; congr 1; omega
    rw [← h2]
    exact Nat.mul_lt_mul_of_pos_right h1 (Nat.pos_of_ne_zero (by simp))
  unfold writeMSB
  rw [hval, ← hq]
  obtain ⟨p', hrep, hout⟩ := drain_spec (p ++ bitsMSB w c) (by rw [hq]; omega) s.out
  refine ⟨p', hrep, ?_⟩
  intro rest
  rw [hout rest, List.append_assoc]

theorem fold_spec (cs : List (Nat × Nat)) (hcs : ∀ cw ∈ cs, cw.1 < 2 ^ cw.2 ∧ cw.2 ≤ 24)
    (s : BitW) (p : List Bool) (h : Rep s p) :
    closeMSB (cs.foldl (fun s cw => writeMSB s cw.1 cw.2) s) =
      s.out.reverse ++ bytesOfBits (p ++ bitsOf cs) := by
  induction cs generalizing s p with
  | nil =>
    obtain ⟨hl, hn, hb⟩ := h
    simp only [List.foldl_nil, bitsOf_nil, List.append_nil, closeMSB]
    cases p with
    | nil =>
      have : s.nBits = 0 := by simpa using hl.symm
      simp [this, bytesOfBits_nil]
    | cons b t =>
      have hpos : s.nBits > 0 := by rw [← hl]; simp
      have hlen : (b :: t).length < 8 := by omega
      simp only [hpos, if_true, List.reverse_cons]
      rw [bytesOfBits_cons]
      have ht : List.take 8 (b :: t) = b :: t := List.take_of_length_le (by omega)
      have hd : List.drop 8 (b :: t) = [] := List.drop_eq_nil_of_le (by omega)
      rw [ht, hd, bytesOfBits_nil]
      congr 2
      -- top byte of the accumulator = the padded pending bits
      have hpl : (pad8 (b :: t)).length = 8 := by
        simp only [pad8, List.length_append, List.length_replicate]; omega
      have : natOfBits (pad8 (b :: t)) = natOfBits (b :: t) * 2 ^ (8 - s.nBits) := by
        unfold pad8
        rw [natOfBits_append, hl]
        have : natOfBits (List.replicate (8 - s.nBits) false) = 0 := by
          generalize 8 - s.nBits = k
          induction k with
          | zero => rfl
          | succ k ih => simp [List.replicate_succ, natOfBits, ih]
        simp [this]
      unfold byteOfBits
      rw [this, hb, Nat.shiftRight_eq_div_pow]
      have e : 32 - s.nBits = (8 - s.nBits) + 24 := by omega
      rw [e, Nat.pow_add, ← Nat.mul_assoc, Nat.mul_div_cancel _ (by norm_num)]
  | cons cw cs ih =>
    obtain ⟨h1, h2⟩ := hcs cw (by simp)
    obtain ⟨p', hrep, hout⟩ := write_spec s p h cw.1 cw.2 h1 h2
    simp only [List.foldl_cons]
    rw [ih (fun c hc => hcs c (by simp [hc])) _ p' hrep, hout, bitsOf_cons]

/-- the 32 bit accumulator writer (`writeMSB` + the final partial byte of `Close`) produces
    exactly the zero padded bytes of the MSB-first bit string. -/
theorem packAcc_eq (cs : List (Nat × Nat)) (hcs : ∀ cw ∈ cs, cw.1 < 2 ^ cw.2 ∧ cw.2 ≤ 24) :
    packAcc cs = bytesOfBits (bitsOf cs) := by
  unfold packAcc
  rw [fold_spec cs hcs ⟨0, 0, []⟩ [] ⟨rfl, by decide, by simp [natOfBits]⟩]
  simp


/-- every emission of the writer fits its width, and widths stay within 9..12. -/
theorem encLoop_codes_fit (xs : Bytes) : ∀ E e d code, Inv E e d code →
    ∀ cw ∈ encLoop e code xs, cw.1 < 2 ^ cw.2 ∧ cw.2 ≤ 24 := by
  induction xs with
  | nil =>
    intro E e d code h cw hcw
    obtain ⟨b1, b2, b3, b4⟩ := bump_width h
    have hw := h.wlo; have hw2 := h.whi
    have hcode := code_lt_pow h
    by_cases h95 : e.hi + 1 = 4095
    · have henc : encLoop e code [] =
          [(code, e.width), (256, (bump (e.hi + 1) e.width e.overflow).1), (257, 9)] := by
        simp [encLoop, incHi_full e h95, encInit]
      rw [henc] at hcw
      simp only [List.mem_cons, List.not_mem_nil, or_false] at hcw
      rcases hcw with rfl | rfl | rfl
      · exact ⟨hcode, by omega⟩
      · exact ⟨by have := clear_lt _ b1; show 256 < 2 ^ (bump (e.hi + 1) e.width e.overflow).1; omega, by show (bump (e.hi + 1) e.width e.overflow).1 ≤ 24; omega⟩
      · exact ⟨by decide, by decide⟩
    · have henc : encLoop e code [] =
          [(code, e.width), (257, (bump (e.hi + 1) e.width e.overflow).1)] := by
        simp [encLoop, incHi_more e h95]
      rw [henc] at hcw
      simp only [List.mem_cons, List.not_mem_nil, or_false] at hcw
      rcases hcw with rfl | rfl
      · exact ⟨hcode, by omega⟩
      · exact ⟨clear_lt _ b1, by show _ ≤ 24; omega⟩
  | cons x xs ih =>
    intro E e d code h cw hcw
    obtain ⟨b1, b2, b3, b4⟩ := bump_width h
    have hw := h.wlo; have hw2 := h.whi
    have hcode := code_lt_pow h
    cases hlk : e.table.lookup (code * 256 + x.toNat) with
    | some v =>
      have henc : encLoop e code (x :: xs) = encLoop e v xs := by
        simp [encLoop, hlk]
      rw [henc] at hcw
      have hl := hlk
      rw [h.tbl] at hl
      obtain ⟨_, hv1, hv2, hexp⟩ := lookup_tableOf E code v x h.wf hl
      have h' : Inv E e d v := { h with
        valid := Or.inr ⟨hv1, hv2⟩
        link := by
          rcases h.link with ⟨hE, _, _⟩ | ⟨l, x0, hE, hL, hH⟩
          · subst hE; simp [tableOf] at hl
          · exact Or.inr ⟨l, x0, hE, hL, by
              rw [hexp, head?_append_ne _ _ (expand_ne_nil _ _)]; exact hH⟩ }
      exact ih E e d v h' cw hcw
    | none =>
      by_cases h95 : e.hi + 1 = 4095
      · have henc : encLoop e code (x :: xs) =
            (code, e.width) :: (256, (bump (e.hi + 1) e.width e.overflow).1) ::
              encLoop encInit x.toNat xs := by
          simp [encLoop, hlk, incHi_full e h95]
        rw [henc] at hcw
        simp only [List.mem_cons] at hcw
        rcases hcw with rfl | rfl | hcw
        · exact ⟨hcode, by omega⟩
        · exact ⟨by have := clear_lt _ b1; show 256 < 2 ^ (bump (e.hi + 1) e.width e.overflow).1; omega, by show (bump (e.hi + 1) e.width e.overflow).1 ≤ 24; omega⟩
        · exact ih [] encInit decInit x.toNat (inv_init _ x.toNat_lt) cw hcw
      · have henc : encLoop e code (x :: xs) =
            (code, e.width) ::
              encLoop { table := (code * 256 + x.toNat, e.hi + 1) :: e.table, hi := e.hi + 1,
                        width := (bump (e.hi + 1) e.width e.overflow).1,
                        overflow := (bump (e.hi + 1) e.width e.overflow).2 } x.toNat xs := by
          simp [encLoop, hlk, incHi_more e h95]
        rw [henc] at hcw
        simp only [List.mem_cons] at hcw
        rcases hcw with rfl | hcw
        · exact ⟨hcode, by omega⟩
        · exact ih _ _ _ _ (inv_next h x h95) cw hcw

theorem encCodes_fit (s : Bytes) : ∀ cw ∈ encCodes s, cw.1 < 2 ^ cw.2 ∧ cw.2 ≤ 24 := by
  cases s with
  | nil => intro cw h; simp [encCodes] at h
  | cons x xs => exact encLoop_codes_fit xs [] encInit decInit x.toNat (inv_init _ x.toNat_lt)

/-- `common.Compress` through the transcribed 32 bit accumulator equals the bit string form. -/
theorem packAcc_encCodes (s : Bytes) : packAcc (encCodes s) = bytesOfBits (bitsOf (encCodes s)) :=
  packAcc_eq _ (encCodes_fit s)


theorem compress_eq_bits (s : Bytes) : compress s = bytesOfBits (bitsOf (encCodes s)) :=
  packAcc_encCodes s

theorem roundtrip (s : Bytes) : decompress (compress s) = s := by
  rw [compress_eq_bits]
  cases s with
  | nil => simp [encCodes, bitsOf_nil, bytesOfBits_nil, decompress]
  | cons x xs =>
    obtain ⟨rest, hhead⟩ := encLoop_init_head x xs
    have hB : ∃ b t, bitsOf (encLoop encInit x.toNat xs) = b :: t := by
      rw [hhead, bitsOf_cons]; simp [bitsMSB]
    obtain ⟨b, t, hbt⟩ := hB
    obtain ⟨k, hk⟩ := bitsOfBytes_bytesOfBits (bitsOf (encLoop encInit x.toNat xs))
    have hne : (bytesOfBits (bitsOf (encLoop encInit x.toNat xs))).isEmpty = false := by
      rw [hbt, bytesOfBits_cons]; rfl
    simp only [encCodes, decompress, hne, Bool.false_eq_true, if_false]
    rw [hk]
    rw [sim xs [] encInit decInit x.toNat (inv_init _ x.toNat_lt) _ _
      (by simp only [List.length_append]; omega)]
    rw [expand_lit [] _ trivial x.toNat_lt]
    simp

end Goloop.C25.Proofs
