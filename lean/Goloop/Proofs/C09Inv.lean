/-
  Proofs/C09Inv: the invariant of the event system `Sim` and its preservation by the three kinds
  of events (a step that only changes the transaction's local state, a step on the live store,
  a Commit).
-/
import Goloop.Proofs.C09Seq
namespace Goloop.C09.Proofs
open Goloop.C09

def stOf (s : Sim) (i : Nat) : TxSt := s.sts.getD i {}

theorem isCommitted_eq (s : Sim) (j : Nat) : s.isCommitted j = (stOf s j).committed := rfl

structure Inv (txs : List Tx) (init : List Nat) (s : Sim) : Prop where
  lenS : s.sts.length = txs.length
  lenN : s.snaps.length = txs.length
  lenR : s.real.length = init.length
  initEq : s.init = init
  pcLe : ∀ i, i < txs.length → (stOf s i).pc ≤ (txAt txs i).prog.length
  /-- everything a transaction has observed / accumulated so far is what it observes sequentially -/
  loc : ∀ i, i < txs.length → (stOf s i).loc = (P txs init i (stOf s i).pc).2
  commPc : ∀ i, i < txs.length → (stOf s i).committed = true → (stOf s i).pc = (txAt txs i).prog.length
  /-- account `a` of the live store belongs to its least uncommitted writer `w` and holds what the
      sequential run of `w` holds after the steps `w` has made -/
  own : ∀ a w, w < txs.length → writer txs w a = true → (stOf s w).committed = false →
      (∀ j, j < w → writer txs j a = true → (stOf s j).committed = true) →
      s.real.getD a 0 = (P txs init w (stOf s w).pc).1.getD a 0
  /-- no uncommitted writer left: final sequential value -/
  fin : ∀ a, (∀ j, j < txs.length → writer txs j a = true → (stOf s j).committed = true) →
      s.real.getD a 0 = (seqState txs init txs.length).getD a 0
  /-- the snapshot taken at Commit holds the sequential values of the accounts the transaction may write -/
  snap : ∀ i, i < txs.length → (stOf s i).committed = true → ∀ a, writer txs i a = true →
      ((s.snaps.getD i none).getD s.init).getD a 0 = (seqState txs init (i + 1)).getD a 0
  /-- committed writers of an account are downward closed among its writers -/
  closed : ∀ a j j', j < txs.length → writer txs j a = true → (stOf s j).committed = true →
      j' < j → writer txs j' a = true → (stOf s j').committed = true
  worldStarted : ∀ i, i < txs.length → (lkAt txs i).world = 2 → 0 < (stOf s i).pc →
      ∀ j, j < i → (stOf s j).committed = true
  /-- a writer with an uncommitted earlier writer of the account has not touched the account -/
  untouched : ∀ a w j, w < txs.length → writer txs w a = true → j < w → writer txs j a = true →
      (stOf s j).committed = false →
      (P txs init w (stOf s w).pc).1.getD a 0 = (seqState txs init w).getD a 0

theorem stOf_set (s : Sim) (i : Nat) (st' : TxSt) (h : i < s.sts.length) (j : Nat) (real : List Nat)
    (snaps : List (Option (List Nat))) :
    stOf { s with real := real, snaps := snaps, sts := s.sts.set i st' } j = if j = i then st' else stOf s j := by
  unfold stOf
  simp only
  rw [getD_set]
  by_cases hji : j = i
  · subst hji; simp [h]
  · have : ¬ i = j := fun h => hji h.symm
    simp [hji, this]

/-- the unique owner: an uncommitted writer all of whose smaller co-writers are committed -/
theorem owner_unique {txs : List Tx} {init : List Nat} {s : Sim} {a i w : Nat}
    (hwi : writer txs i a = true) (hci : (stOf s i).committed = false)
    (hsm : ∀ j, j < i → writer txs j a = true → (stOf s j).committed = true)
    (hww : writer txs w a = true) (hcw : (stOf s w).committed = false)
    (hsw : ∀ j, j < w → writer txs j a = true → (stOf s j).committed = true) : w = i := by
  rcases Nat.lt_trichotomy w i with h | h | h
  · have := hsm w h hww; rw [hcw] at this; cases this
  · exact h
  · have := hsw i h hwi; rw [hci] at this; cases this

/-- event kind 1: a step that leaves the stores alone (undeclared account, or read through a
    read-only copy) -/
theorem inv_local {txs : List Tx} {init : List Nat} {s : Sim} (h : Inv txs init s) {i : Nat} (hi : i < txs.length)
    (l' : Local) (hpc : (stOf s i).pc < (txAt txs i).prog.length)
    (hc : (stOf s i).committed = false)
    (hl : l' = (P txs init i ((stOf s i).pc + 1)).2)
    (hstore : (P txs init i ((stOf s i).pc + 1)).1 = (P txs init i (stOf s i).pc).1)
    (hws : (lkAt txs i).world = 2 → ∀ j, j < i → (stOf s j).committed = true) :
    Inv txs init { s with sts := s.sts.set i { stOf s i with pc := (stOf s i).pc + 1, loc := l' } } := by
  have hlen : i < s.sts.length := by rw [h.lenS]; exact hi
  have hst := fun j => stOf_set s i { stOf s i with pc := (stOf s i).pc + 1, loc := l' } hlen j s.real s.snaps
  have hcomm : ∀ j, (stOf { s with sts := s.sts.set i { stOf s i with pc := (stOf s i).pc + 1, loc := l' } } j).committed
      = (stOf s j).committed := by
    intro j; rw [hst]; by_cases hji : j = i <;> simp [hji]
  have hP : ∀ j, (P txs init j (stOf { s with sts := s.sts.set i { stOf s i with pc := (stOf s i).pc + 1, loc := l' } } j).pc).1
      = (P txs init j (stOf s j).pc).1 := by
    intro j; rw [hst]; by_cases hji : j = i
    · subst hji; simpa using hstore
    · simp [hji]
  refine ⟨by simp [h.lenS], h.lenN, h.lenR, h.initEq, ?_, ?_, ?_, ?_, ?_, ?_, ?_, ?_, ?_⟩
  · intro j hj; rw [hst]; by_cases hji : j = i
    · subst hji; simp; omega
    · simp [hji]; exact h.pcLe j hj
  · intro j hj; rw [hst]; by_cases hji : j = i
    · subst hji; simpa using hl
    · simp [hji]; exact h.loc j hj
  · intro j hj hcj; rw [hcomm] at hcj; rw [hst]; by_cases hji : j = i
    · subst hji; rw [hc] at hcj; cases hcj
    · simp [hji]; exact h.commPc j hj hcj
  · intro a w hw hwa hcw hsm
    rw [hcomm] at hcw
    rw [hP]
    exact h.own a w hw hwa hcw (fun j hj hja => by have := hsm j hj hja; rwa [hcomm] at this)
  · intro a hall
    exact h.fin a (fun j hj hja => by have := hall j hj hja; rwa [hcomm] at this)
  · intro j hj hcj a hja; rw [hcomm] at hcj; exact h.snap j hj hcj a hja
  · intro a j j' hj hja hcj hlt hja'
    rw [hcomm] at hcj ⊢
    exact h.closed a j j' hj hja hcj hlt hja'
  · intro j hj hw hpos k hk
    rw [hcomm]
    by_cases hji : j = i
    · subst hji; exact hws hw k hk
    · rw [hst] at hpos; simp [hji] at hpos
      exact h.worldStarted j hj hw hpos k hk
  · intro a w j hw hwa hjw hja hcj
    rw [hcomm] at hcj
    rw [hP]
    exact h.untouched a w j hw hwa hjw hja hcj

/-- event kind 2: a step on the live store (write-locked account or world write lock) -/
theorem inv_store {txs : List Tx} {init : List Nat} {s : Sim} (h : Inv txs init s) {i : Nat} (hi : i < txs.length)
    (st : Step) (hst : (txAt txs i).prog[(stOf s i).pc]? = some st)
    (hc : (stOf s i).committed = false)
    (hwr : writer txs i st.acct = true)
    (hdecl : declaredBy (lkAt txs i) st.acct = true)
    (hsm : ∀ j, j < i → writer txs j st.acct = true → (stOf s j).committed = true)
    (hws : (lkAt txs i).world = 2 → ∀ j, j < i → (stOf s j).committed = true) :
    Inv txs init { s with
      real := (stepOn i (fun _ => true) st s.real (stOf s i).loc).1,
      sts := s.sts.set i { stOf s i with pc := (stOf s i).pc + 1,
                                          loc := (stepOn i (fun _ => true) st s.real (stOf s i).loc).2 } } := by
  have hlen : i < s.sts.length := by rw [h.lenS]; exact hi
  generalize hR : (stepOn i (fun _ => true) st s.real (stOf s i).loc).1 = R'
  generalize hL : (stepOn i (fun _ => true) st s.real (stOf s i).loc).2 = l'
  have hstq := fun j => stOf_set s i { stOf s i with pc := (stOf s i).pc + 1, loc := l' } hlen j R' s.snaps
  have hcomm : ∀ j, (stOf { s with real := R', sts := s.sts.set i { stOf s i with pc := (stOf s i).pc + 1, loc := l' } } j).committed
      = (stOf s j).committed := by
    intro j; rw [hstq]; by_cases hji : j = i <;> simp [hji]
  have hpcN : ∀ j, j ≠ i → (stOf { s with real := R', sts := s.sts.set i { stOf s i with pc := (stOf s i).pc + 1, loc := l' } } j).pc
      = (stOf s j).pc := by
    intro j hji; rw [hstq]; simp [hji]
  have hpcI : (stOf { s with real := R', sts := s.sts.set i { stOf s i with pc := (stOf s i).pc + 1, loc := l' } } i).pc
      = (stOf s i).pc + 1 := by
    rw [hstq]; simp
  have e0 := h.own st.acct i hi hwr hc hsm
  have eP : P txs init i ((stOf s i).pc + 1) =
      stepOn i (declaredBy (lkAt txs i)) st (P txs init i (stOf s i).pc).1 (P txs init i (stOf s i).pc).2 := by
    unfold P; exact partialRun_succ _ _ _ _ _ _ hst
  have eloc := h.loc i hi
  have hl' : l' = (P txs init i ((stOf s i).pc + 1)).2 := by
    rw [← hL, eP, ← eloc]
    exact stepOn_local i _ _ st _ _ _ rfl hdecl e0
  have hra : R'.getD st.acct 0 = (P txs init i ((stOf s i).pc + 1)).1.getD st.acct 0 := by
    rw [← hR, eP, ← eloc]
    exact stepOn_getD_self i _ _ st _ _ _ rfl hdecl e0 (by rw [h.lenR, P_length])
  have hrb : ∀ b, b ≠ st.acct → R'.getD b 0 = s.real.getD b 0 := by
    intro b hb; rw [← hR]; exact stepOn_getD_other i _ st _ _ b (Or.inl (fun h => hb h.symm))
  have hpb : ∀ b, b ≠ st.acct → (P txs init i ((stOf s i).pc + 1)).1.getD b 0 = (P txs init i (stOf s i).pc).1.getD b 0 := by
    intro b hb; rw [eP]; exact stepOn_getD_other i _ st _ _ b (Or.inl (fun h => hb h.symm))
  have hlt : (stOf s i).pc < (txAt txs i).prog.length := by
    have := List.getElem?_eq_some_iff.mp hst
    exact this.1
  refine ⟨by simp [h.lenS], h.lenN, ?_, h.initEq, ?_, ?_, ?_, ?_, ?_, ?_, ?_, ?_, ?_⟩
  · show R'.length = init.length
    rw [← hR, stepOn_length]; exact h.lenR
  · intro j hj; by_cases hji : j = i
    · subst hji; rw [hpcI]; omega
    · rw [hpcN j hji]; exact h.pcLe j hj
  · intro j hj; rw [hstq]; by_cases hji : j = i
    · subst hji; simpa using hl'
    · simp [hji]; exact h.loc j hj
  · intro j hj hcj; rw [hcomm] at hcj; by_cases hji : j = i
    · subst hji; rw [hc] at hcj; cases hcj
    · rw [hpcN j hji]; exact h.commPc j hj hcj
  · intro a w hw hwa hcw hsw
    rw [hcomm] at hcw
    have hsw' : ∀ j, j < w → writer txs j a = true → (stOf s j).committed = true :=
      fun j hj hja => by have := hsw j hj hja; rwa [hcomm] at this
    show R'.getD a 0 = _
    by_cases hab : a = st.acct
    · subst hab
      have hwi : w = i := owner_unique (init := init) hwr hc hsm hwa hcw hsw'
      subst hwi
      rw [hpcI]; exact hra
    · rw [hrb a hab]
      by_cases hwi : w = i
      · subst hwi
        rw [hpcI, hpb a hab]
        exact h.own a w hw hwa hcw hsw'
      · rw [hpcN w hwi]
        exact h.own a w hw hwa hcw hsw'
  · intro a hall
    have hall' : ∀ j, j < txs.length → writer txs j a = true → (stOf s j).committed = true :=
      fun j hj hja => by have := hall j hj hja; rwa [hcomm] at this
    show R'.getD a 0 = _
    by_cases hab : a = st.acct
    · subst hab
      have := hall' i hi hwr
      rw [hc] at this; cases this
    · rw [hrb a hab]; exact h.fin a hall'
  · intro j hj hcj a hja; rw [hcomm] at hcj; exact h.snap j hj hcj a hja
  · intro a j j' hj hja hcj hlt' hja'
    rw [hcomm] at hcj ⊢
    exact h.closed a j j' hj hja hcj hlt' hja'
  · intro j hj hw hpos k hk
    rw [hcomm]
    by_cases hji : j = i
    · subst hji; exact hws hw k hk
    · rw [hpcN j hji] at hpos
      exact h.worldStarted j hj hw hpos k hk
  · intro a w j hw hwa hjw hja hcj
    rw [hcomm] at hcj
    by_cases hwi : w = i
    · subst hwi
      rw [hpcI]
      by_cases hab : a = st.acct
      · subst hab
        have := hsm j hjw hja
        rw [hcj] at this; cases this
      · rw [hpb a hab]
        exact h.untouched a w j hw hwa hjw hja hcj
    · rw [hpcN w hwi]
      exact h.untouched a w j hw hwa hjw hja hcj

/-- event kind 3: Commit -/
theorem inv_commit_aux {txs : List Tx} (hs : Supported txs) {init : List Nat} {s s' : Sim} (h : Inv txs init s) {i : Nat}
    (hi : i < txs.length)
    (hc : (stOf s i).committed = false)
    (hpc : (txAt txs i).prog.length ≤ (stOf s i).pc)
    (hsm : ∀ a, writer txs i a = true → ∀ j, j < i → writer txs j a = true → (stOf s j).committed = true)
    (hreal : s'.real = s.real) (hinit : s'.init = s.init) (hsnaps : s'.snaps = s.snaps.set i (some s.real))
    (hlenS : s'.sts.length = s.sts.length)
    (hstq : ∀ j, stOf s' j = if j = i then { stOf s i with committed := true } else stOf s j) :
    Inv txs init s' := by
  have hcommI : (stOf s' i).committed = true := by rw [hstq]; simp
  have hcommN : ∀ j, j ≠ i → (stOf s' j).committed = (stOf s j).committed := by
    intro j hji; rw [hstq]; simp [hji]
  have hmono : ∀ j, (stOf s j).committed = true → (stOf s' j).committed = true := by
    intro j hj; by_cases hji : j = i
    · subst hji; exact hcommI
    · rw [hcommN j hji]; exact hj
  have hpcq : ∀ j, (stOf s' j).pc = (stOf s j).pc := by
    intro j; rw [hstq]; by_cases hji : j = i <;> simp [hji]
  have hlocq : ∀ j, (stOf s' j).loc = (stOf s j).loc := by
    intro j; rw [hstq]; by_cases hji : j = i <;> simp [hji]
  have hpcI : (stOf s i).pc = (txAt txs i).prog.length := by have := h.pcLe i hi; omega
  -- what the committing transaction leaves in the accounts it may write
  have hown : ∀ a, writer txs i a = true → s.real.getD a 0 = (seqState txs init (i + 1)).getD a 0 := by
    intro a hwa
    rw [h.own a i hi hwa hc (hsm a hwa), P_full _ _ _ _ hpc]
  -- no committed writer above the committing one
  have hnone : ∀ a, writer txs i a = true → ∀ j, i < j → j < txs.length → writer txs j a = true →
      (stOf s j).committed = false := by
    intro a hwa j hij hj hja
    cases hcj : (stOf s j).committed
    · rfl
    · have := h.closed a j i hj hja hcj hij hwa
      rw [hc] at this; cases this
  refine ⟨by rw [hlenS]; exact h.lenS, by rw [hsnaps]; simp [h.lenN], by rw [hreal]; exact h.lenR,
    by rw [hinit]; exact h.initEq, ?_, ?_, ?_, ?_, ?_, ?_, ?_, ?_, ?_⟩
  · intro j hj; rw [hpcq]; exact h.pcLe j hj
  · intro j hj; rw [hpcq, hlocq]; exact h.loc j hj
  · intro j hj hcj; rw [hpcq]; by_cases hji : j = i
    · subst hji; exact hpcI
    · rw [hcommN j hji] at hcj; exact h.commPc j hj hcj
  · intro a w hw hwa hcw hsw
    have hwi : w ≠ i := by intro h; subst h; rw [hcommI] at hcw; cases hcw
    rw [hcommN w hwi] at hcw
    rw [hreal, hpcq]
    by_cases hcase : writer txs i a = true ∧ i < w
    · obtain ⟨hwia, hiw⟩ := hcase
      rw [hown a hwia, h.untouched a w i hw hwa hiw hwia hc]
      symm
      apply seqState_const hs init a (i + 1) w (by omega) (by omega)
      intro j h1 h2
      cases hja : writer txs j a
      · rfl
      · have h3 := hsw j h2 hja
        rw [hcommN j (by omega)] at h3
        have := hnone a hwia j (by omega) (by omega) hja
        rw [h3] at this; cases this
    · apply h.own a w hw hwa hcw
      intro j hj hja
      have h3 := hsw j hj hja
      have hji : j ≠ i := by
        intro hh; subst hh
        exact hcase ⟨hja, hj⟩
      rwa [hcommN j hji] at h3
  · intro a hall
    rw [hreal]
    by_cases hwia : writer txs i a = true
    · rw [hown a hwia]
      symm
      apply seqState_const hs init a (i + 1) txs.length (by omega) (Nat.le_refl _)
      intro j h1 h2
      cases hja : writer txs j a
      · rfl
      · have h3 := hall j h2 hja
        rw [hcommN j (by omega)] at h3
        have := hnone a hwia j (by omega) h2 hja
        rw [h3] at this; cases this
    · apply h.fin a
      intro j hj hja
      have hji : j ≠ i := by intro hh; subst hh; exact hwia hja
      have h3 := hall j hj hja
      rwa [hcommN j hji] at h3
  · intro j hj hcj a hja
    rw [hsnaps, hinit, getD_set]
    by_cases hji : j = i
    · subst hji
      have : j < s.snaps.length := by rw [h.lenN]; exact hj
      simp only [true_and, this, if_true, Option.getD_some]
      exact hown a hja
    · have : ¬ i = j := fun h => hji h.symm
      simp only [this, false_and, if_false]
      rw [hcommN j hji] at hcj
      exact h.snap j hj hcj a hja
  · intro a j j' hj hja hcj hlt hja'
    apply hmono
    by_cases hji : j = i
    · subst hji; exact hsm a hja j' hlt hja'
    · rw [hcommN j hji] at hcj
      exact h.closed a j j' hj hja hcj hlt hja'
  · intro j hj hw hpos k hk
    rw [hpcq] at hpos
    exact hmono k (h.worldStarted j hj hw hpos k hk)
  · intro a w j hw hwa hjw hja hcj
    have hji : j ≠ i := by intro h; subst h; rw [hcommI] at hcj; cases hcj
    rw [hcommN j hji] at hcj
    rw [hpcq]
    exact h.untouched a w j hw hwa hjw hja hcj

theorem inv_commit {txs : List Tx} (hs : Supported txs) {init : List Nat} {s : Sim} (h : Inv txs init s) {i : Nat}
    (hi : i < txs.length)
    (hc : (stOf s i).committed = false)
    (hpc : (txAt txs i).prog.length ≤ (stOf s i).pc)
    (hsm : ∀ a, writer txs i a = true → ∀ j, j < i → writer txs j a = true → (stOf s j).committed = true) :
    Inv txs init { s with snaps := s.snaps.set i (some s.real),
                          sts := s.sts.set i { stOf s i with committed := true } } := by
  have hlen : i < s.sts.length := by rw [h.lenS]; exact hi
  exact inv_commit_aux hs h hi hc hpc hsm rfl rfl rfl (by simp)
    (fun j => stOf_set s i { stOf s i with committed := true } hlen j s.real (s.snaps.set i (some s.real)))

end Goloop.C09.Proofs
