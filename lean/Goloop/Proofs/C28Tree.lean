/-
  Proofs/C28Tree: what the tree bucket contains after Add/Finalize, and what Prove reads.
-/
import Goloop.Proofs.C28Batch
namespace Goloop.C28

/-! ### buckets as lists of bindings -/

def Vals (db : DB) : List Bytes := db.map Prod.snd

/-- every binding in the list (also shadowed ones) is stored under the hash of its value -/
def AllOk (H : Bytes → Bytes) (db : DB) : Prop := ∀ p ∈ db, p.1 = (nodeHash H p.2).getD []

/-- no two different stored values have the same hash -/
def NoCollVals (H : Bytes → Bytes) (db : DB) : Prop :=
  ∀ x ∈ Vals db, ∀ y ∈ Vals db, H x = H y → x = y

theorem AllOk.nil (H : Bytes → Bytes) : AllOk H [] := by intro p hp; simp at hp

theorem nodeHash_ne {H : Bytes → Bytes} {v : Bytes} (hv : v ≠ []) : (nodeHash H v).getD [] = H v := by
  unfold nodeHash; cases v with
  | nil => exact absurd rfl hv
  | cons a as => simp

theorem AllOk.set {H db} (h : AllOk H db) (v : Bytes) (hv : v ≠ []) : AllOk H (db.set (H v) v) := by
  intro p hp
  simp only [DB.set, List.mem_cons] at hp
  rcases hp with hp | hp
  · subst hp; simp [nodeHash_ne hv]
  · exact h p hp

theorem vals_set (db : DB) (k v : Bytes) : Vals (db.set k v) = v :: Vals db := by simp [Vals, DB.set]

theorem get_of_key_mem : ∀ (db : DB) (k v : Bytes), (k, v) ∈ db → ∃ v', db.get k = some v' ∧ (k, v') ∈ db := by
  intro db
  induction db with
  | nil => intro k v h; simp at h
  | cons p rest ih =>
    intro k v h
    obtain ⟨k0, v0⟩ := p
    simp only [DB.get]
    by_cases hk : k0 = k
    · subst hk; exact ⟨v0, by simp, by simp⟩
    · simp only [hk, if_false]
      have : (k, v) ∈ rest := by
        simp only [List.mem_cons] at h
        rcases h with h | h
        · cases h; exact absurd rfl hk
        · exact h
      obtain ⟨v', h1, h2⟩ := ih k v this
      exact ⟨v', h1, by simp [h2]⟩

/-- a non-empty value that was ever written is found under its hash, if the bucket is content
    addressed and holds no collision -/
theorem get_of_mem_vals (H : Bytes → Bytes) (hlen : ∀ x, (H x).length = 32) (db : DB)
    (hok : AllOk H db) (hnc : NoCollVals H db) (c : Bytes) (hc : c ∈ Vals db) (hne : c ≠ []) :
    db.get (H c) = some c := by
  simp only [Vals, List.mem_map] at hc
  obtain ⟨p, hp, rfl⟩ := hc
  have hk : p.1 = H p.2 := by rw [hok p hp, nodeHash_ne hne]
  have hmem : (H p.2, p.2) ∈ db := by rw [← hk]; exact hp
  obtain ⟨v', h1, h2⟩ := get_of_key_mem db _ _ hmem
  have hv' : H p.2 = (nodeHash H v').getD [] := hok _ h2
  have hv'ne : v' ≠ [] := by
    intro e; subst e
    simp [nodeHash] at hv'
    have := hlen p.2; rw [hv'] at this; simp at this
  rw [nodeHash_ne hv'ne] at hv'
  have : p.2 = v' := hnc _ (by simp only [Vals, List.mem_map]; exact ⟨p, hp, rfl⟩) _
    (by simp only [Vals, List.mem_map]; exact ⟨_, h2, rfl⟩) hv'
  rw [h1, this]

/-! ### level sequences by index -/

/-- levels of complete groups only -/
def U (H : Bytes → Bytes) : List Bytes → Nat → List Bytes
  | s, 0 => s
  | s, i + 1 => U H (up H s) i

/-- levels of the finalised tree -/
def T (H : Bytes → Bytes) : List Bytes → Nat → List Bytes
  | s, 0 => s
  | s, i + 1 => T H (levelUp H s) i

/-- the complete groups of every level are among `V` -/
def FW (H : Bytes → Bytes) (V : List Bytes) (s : List Bytes) : Prop :=
  ∀ i j, j < (U H s (i + 1)).length → node (U H s i) j ∈ V

/-- all groups of every level with at least two entries are among `V` -/
def AW (H : Bytes → Bytes) (V : List Bytes) (t : List Bytes) : Prop :=
  ∀ i j, 2 ≤ (T H t i).length → j < (T H t (i + 1)).length → node (T H t i) j ∈ V

theorem FW.mono {H V V' s} (h : FW H V s) (hs : ∀ x ∈ V, x ∈ V') : FW H V' s :=
  fun i j hj => hs _ (h i j hj)

theorem FW.up {H V s} (h : FW H V s) : FW H V (up H s) := fun i j hj => h (i + 1) j hj

theorem node_append_left (s t : List Bytes) (j : Nat) (h : 16 * j + 16 ≤ s.length) :
    node (s ++ t) j = node s j := by
  simp only [node, chunk_append_left s t j h]

/-- the group that is open at the end of `s`, completed by `e` -/
theorem node_last (s e : List Bytes) (hfit : s.length % 16 + e.length ≤ 16) :
    node (s ++ e) (s.length / 16) = (rem16 s ++ e).flatten := by
  simp only [node, chunk, rem16]
  rw [List.drop_append_of_le_length (by omega)]
  rw [List.take_of_length_le (by simp; omega)]

/-- `Add` keeps the bucket content addressed, only adds bindings, and writes the groups it
    completes -/
theorem addAt_written (H : Bytes → Bytes) (hlen : ∀ x, (H x).length = 32) :
    ∀ (n : Nat) (s : List Bytes), s.length = n → All32 s → ∀ (x : Bytes) (db : DB), x.length = 32 →
      AllOk H db →
      AllOk H (addAt H (rootsOf H s) x db).2.1 ∧
      (∀ v ∈ Vals db, v ∈ Vals (addAt H (rootsOf H s) x db).2.1) ∧
      (FW H (Vals db) s → FW H (Vals (addAt H (rootsOf H s) x db).2.1) (s ++ [x])) := by
  intro n
  induction n using Nat.strongRecOn with
  | _ n ih =>
    intro s hn hs x db hx hok
    by_cases hnil : s = []
    · subst hnil
      rw [rootsOf_nil]
      have e : (addAt H [] x db).2.1 = db := by
        simp [addAt, nodeAdd, hashLen, hx, nodeFull, maxNodeBytes, maxChildren]
      rw [e]
      refine ⟨hok, fun v hv => hv, ?_⟩
      intro _ i j hj
      exfalso
      have hu : up H ([] ++ [x]) = [] := by simp [up]
      have : ∀ i, (U H ([] : List Bytes) i) = [] := by
        intro i; induction i with
        | zero => rfl
        | succ i ih => simp only [U]; have : up H ([] : List Bytes) = [] := by simp [up]
                       rw [this]; exact ih
      simp only [U, hu, this] at hj
      simp at hj
    · have hrl := rem16_flatten_length hs
      have hmod : s.length % 16 < 16 := Nat.mod_lt _ (by omega)
      have hpos : 0 < s.length := List.length_pos_iff.mpr hnil
      rw [rootsOf_ne H s hnil]
      have hna : nodeAdd (rem16 s).flatten x = some ((rem16 s).flatten ++ x) := by
        unfold nodeAdd nodeFull maxNodeBytes maxChildren hashLen
        have h1 : ¬ x.length ≠ 32 := by omega
        have h2 : ¬ (decide ((rem16 s).flatten.length = 32 * 16) = true) := by
          rw [decide_eq_true_eq]; omega
        simp only [h1, h2, if_false]; simp
      simp only [addAt, hna]
      have hflat : (rem16 s ++ [x]).flatten = (rem16 s).flatten ++ x := by simp
      by_cases hfull : s.length % 16 = 15
      · have hf : nodeFull ((rem16 s).flatten ++ x) = true := by
          simp [nodeFull, maxNodeBytes, maxChildren, hashLen, hrl, hx, hfull]
        simp only [hf, if_true]
        have hup : (up H s).length < n := by rw [up_length, ← hn]; omega
        have hrbne : (rem16 s).flatten ++ x ≠ [] := by
          intro e; have := congrArg List.length e; simp [hx] at this
        obtain ⟨i1, i2, i3⟩ := ih _ hup (up H s) rfl (up_all32 H hlen s) (H ((rem16 s).flatten ++ x))
          (db.set (H ((rem16 s).flatten ++ x)) ((rem16 s).flatten ++ x)) (hlen _) (hok.set _ hrbne)
        refine ⟨i1, fun v hv => i2 v (by rw [vals_set]; simp [hv]), ?_⟩
        intro hfw i j hj
        have hus : up H (s ++ [x]) = up H s ++ [H ((rem16 s).flatten ++ x)] := by
          rw [up_snoc_full H s x hfull, hflat]
        cases i with
        | zero =>
          simp only [U] at hj ⊢
          rw [hus] at hj
          simp [up_length] at hj
          by_cases hjl : j < s.length / 16
          · rw [node_append_left s [x] j (by omega)]
            apply i2; rw [vals_set]
            exact List.mem_cons_of_mem _ (hfw 0 j (by simpa [U, up_length] using hjl))
          · have hje : j = s.length / 16 := by omega
            subst hje
            rw [node_last s [x] (by simp; omega), hflat]
            apply i2; rw [vals_set]; simp
        | succ i =>
          simp only [U] at hj ⊢
          rw [hus] at hj ⊢
          exact i3 (hfw.up.mono (fun v hv => by rw [vals_set]; simp [hv])) i j hj
      · have hf : ¬ nodeFull ((rem16 s).flatten ++ x) = true := by
          simp [nodeFull, maxNodeBytes, maxChildren, hashLen, hrl, hx]; omega
        simp only [hf]
        refine ⟨hok, fun v hv => hv, ?_⟩
        intro hfw i j hj
        have hus : up H (s ++ [x]) = up H s := up_snoc_notfull H s x (by omega)
        cases i with
        | zero =>
          simp only [U] at hj ⊢
          rw [hus] at hj
          have hjl : j < s.length / 16 := by simpa [up_length] using hj
          rw [node_append_left s [x] j (by omega)]
          exact hfw 0 j (by simpa [U] using hj)
        | succ i =>
          simp only [U] at hj ⊢
          rw [hus] at hj ⊢
          exact hfw (i + 1) j (by simpa [U] using hj)

theorem T_small (H : Bytes → Bytes) : ∀ (i : Nat) (t : List Bytes), t.length ≤ 1 → (T H t i).length ≤ 1 := by
  intro i
  induction i with
  | zero => intro t h; simpa [T] using h
  | succ i ih =>
    intro t h
    simp only [T]
    apply ih
    rw [levelUp_length]; omega

/-- `Finalize` returns the batch root, keeps the bucket content addressed, only adds bindings,
    and afterwards every group of every level (with at least two entries) of the finalised
    tree has been written -/
theorem fold_written (H : Bytes → Bytes) (hlen : ∀ x, (H x).length = 32) :
    ∀ (n : Nat) (s : List Bytes), s.length = n → All32 s →
      ∀ (c : Option Bytes) (db : DB), (∀ x ∈ c, x.length = 32) → AllOk H db → FW H (Vals db) s →
      ∃ db', carryFold H true (rootsOf H s) c db = some (batch H (s ++ c.toList), db') ∧
        AllOk H db' ∧ (∀ v ∈ Vals db, v ∈ Vals db') ∧ AW H (Vals db') (s ++ c.toList) := by
  intro n
  induction n using Nat.strongRecOn with
  | _ n ih =>
    intro s hn hs c db hc hok hfw
    have hcl : c.toList.length ≤ 1 := by cases c <;> simp
    have vac : ∀ (t : List Bytes) (V : List Bytes), t.length ≤ 1 → AW H V t := by
      intro t V ht i j h2 _
      have := T_small H i t ht; omega
    by_cases hnil : s = []
    · subst hnil
      rw [rootsOf_nil]
      refine ⟨db, ?_, hok, fun v hv => hv, vac _ _ (by simpa using hcl)⟩
      simp only [carryFold, List.nil_append]
      rw [batch_small H _ (by cases c <;> simp)]
      cases c <;> simp
    · have hpos : 0 < s.length := List.length_pos_iff.mpr hnil
      have hmod : s.length % 16 < 16 := Nat.mod_lt _ (by omega)
      have hrl := rem16_flatten_length hs
      have hc32 : All32 c.toList := by
        intro x hx; cases c with
        | none => simp at hx
        | some y => simp at hx; subst hx; exact hc _ rfl
      rw [rootsOf_ne H s hnil]
      simp only [carryFold]
      have hr' : addCarry (rem16 s).flatten c = some ((rem16 s ++ c.toList).flatten) := by
        cases c with
        | none => simp [addCarry]
        | some y =>
          have hy := hc y rfl
          simp only [Option.toList_some, addCarry]
          unfold nodeAdd nodeFull maxNodeBytes maxChildren hashLen
          have h1 : ¬ y.length ≠ 32 := by omega
          have h2 : ¬ (decide ((rem16 s).flatten.length = 32 * 16) = true) := by
            rw [decide_eq_true_eq]; omega
          simp only [h1, h2, if_false]; simp
      rw [hr']
      simp only
      have hall : All32 (rem16 s ++ c.toList) := (hs.drop _).append hc32
      have hnl : nodeLen (rem16 s ++ c.toList).flatten = s.length % 16 + c.toList.length := by
        rw [nodeLen_flatten hall]; simp [rem16_length]
      have hup : (up H s).length < n := by rw [up_length, ← hn]; omega
      by_cases hcond : (rootsOf H (up H s)).isEmpty = true ∧ nodeLen (rem16 s ++ c.toList).flatten = 1
      · obtain ⟨h1, h2⟩ := hcond
        have hupnil : up H s = [] := (rootsOf_eq_nil H _).mp (by simpa using h1)
        have hsl : s.length < 16 := by
          have := up_length H s; rw [hupnil] at this; simp at this; omega
        have hrem : rem16 s = s := by
          unfold rem16; have : s.length / 16 = 0 := by omega
          rw [this]; simp
        rw [hupnil, rootsOf_nil]
        simp only [h2, List.isEmpty_nil, and_self, if_true, carryFold]
        rw [hrem] at h2 hall
        rw [nodeLen_flatten hall] at h2
        refine ⟨db, ?_, hok, fun v hv => hv, vac _ _ (by omega)⟩
        rw [hrem, nodeGet_flatten hall, batch_small H _ (by omega)]
        cases hst : s ++ c.toList with
        | nil => simp [hst] at h2
        | cons a as => simp
      · simp only [hcond, if_false]
        have hbig : 2 ≤ (s ++ c.toList).length := by
          rw [List.length_append]
          rcases Nat.lt_or_ge 1 (s.length + c.toList.length) with h | h
          · omega
          · exfalso
            apply hcond
            have hs1 : s.length = 1 := by omega
            have hc0 : c.toList.length = 0 := by omega
            have hupnil : up H s = [] := by
              apply List.eq_nil_of_length_eq_zero; rw [up_length]; omega
            refine ⟨by rw [hupnil, rootsOf_nil]; rfl, ?_⟩
            rw [hnl, hs1, hc0]
        rw [batch_big H _ hbig]
        by_cases hempty : s.length % 16 + c.toList.length = 0
        · have hc0 : c.toList = [] := List.eq_nil_of_length_eq_zero (by omega)
          have hrem : rem16 s = [] := List.eq_nil_of_length_eq_zero (by rw [rem16_length]; omega)
          rw [hc0, hrem]
          simp only [List.append_nil, List.flatten_nil, nodeHash, List.isEmpty_nil, if_true]
          obtain ⟨db', h, k1, k2, k3⟩ := ih _ hup (up H s) rfl (up_all32 H hlen s) none db (by simp) hok hfw.up
          refine ⟨db', ?_, k1, k2, ?_⟩
          · rw [h, levelUp_eq_up H s (by omega)]; simp
          · have k3' : AW H (Vals db') (levelUp H s) := by
              rw [levelUp_eq_up H s (by omega)]; simpa using k3
            intro i j h2 hj
            cases i with
            | zero =>
              have hj' : j < (levelUp H s).length := hj
              rw [levelUp_eq_up H s (by omega)] at hj'
              exact k2 _ (hfw 0 j (by simpa [U] using hj'))
            | succ i => exact k3' i j h2 hj
        · have hne : (rem16 s ++ c.toList).flatten ≠ [] := by
            intro h
            have := flatten_length hall
            rw [h] at this; simp [rem16_length] at this; omega
          have hnh : nodeHash H (rem16 s ++ c.toList).flatten = some (H (rem16 s ++ c.toList).flatten) := by
            unfold nodeHash
            cases hf : (rem16 s ++ c.toList).flatten with
            | nil => exact absurd hf hne
            | cons a as => simp
          rw [hnh]
          simp only [if_true]
          have hlu := levelUp_append_small H s c.toList (by omega) (by omega)
          obtain ⟨db', h, k1, k2, k3⟩ := ih _ hup (up H s) rfl (up_all32 H hlen s)
            (some (H (rem16 s ++ c.toList).flatten))
            (db.set (H (rem16 s ++ c.toList).flatten) (rem16 s ++ c.toList).flatten)
            (by intro x hx; simp at hx; subst hx; exact hlen _) (hok.set _ hne)
            (hfw.up.mono (fun v hv => by rw [vals_set]; simp [hv]))
          refine ⟨db', ?_, k1, fun v hv => k2 v (by rw [vals_set]; simp [hv]), ?_⟩
          · rw [h, hlu]; simp
          · have k3' : AW H (Vals db') (levelUp H (s ++ c.toList)) := by
              rw [hlu]; simpa using k3
            intro i j h2 hj
            cases i with
            | zero =>
              have hj' : j < (levelUp H (s ++ c.toList)).length := hj
              show node (s ++ c.toList) j ∈ Vals db'
              rw [hlu] at hj'
              simp [up_length] at hj'
              clear hj
              have hj := hj'
              by_cases hjl : j < s.length / 16
              · rw [node_append_left s c.toList j (by omega)]
                apply k2; rw [vals_set]
                exact List.mem_cons_of_mem _ (hfw 0 j (by simpa [U, up_length] using hjl))
              · have hje : j = s.length / 16 := by omega
                subst hje
                rw [node_last s c.toList (by omega)]
                apply k2; rw [vals_set]; simp
            | succ i => exact k3' i j h2 hj

/-! ### heights -/

theorem T_succ' (H : Bytes → Bytes) : ∀ (i : Nat) (t : List Bytes), T H t (i + 1) = levelUp H (T H t i) := by
  intro i
  induction i with
  | zero => intro t; rfl
  | succ i ih => intro t; exact ih (levelUp H t)

theorem T_all32 (H : Bytes → Bytes) (hlen : ∀ x, (H x).length = 32) (t : List Bytes) (ht : All32 t) :
    ∀ i, All32 (T H t i) := by
  intro i
  cases i with
  | zero => exact ht
  | succ i => rw [T_succ']; exact levelUp_all32 H hlen _

theorem T_le (H : Bytes → Bytes) : ∀ (i d : Nat) (t : List Bytes), t.length ≤ 16 ^ (i + d) → (T H t i).length ≤ 16 ^ d := by
  intro i
  induction i with
  | zero => intro d t h; simpa [T] using h
  | succ i ih =>
    intro d t h
    simp only [T]
    apply ih d
    rw [levelUp_length]
    have : 16 ^ (i + 1 + d) = 16 * 16 ^ (i + d) := by
      rw [show i + 1 + d = (i + d) + 1 by omega, Nat.pow_succ]; omega
    omega

theorem T_ge (H : Bytes → Bytes) : ∀ (i : Nat) (t : List Bytes), t.length ≤ (T H t i).length * 16 ^ i := by
  intro i
  induction i with
  | zero => intro t; simp [T]
  | succ i ih =>
    intro t
    simp only [T]
    have h1 := ih (levelUp H t)
    rw [levelUp_length] at h1
    have h2 : t.length ≤ 16 * ((t.length + 15) / 16) := by omega
    have h3 : 16 * ((t.length + 15) / 16) ≤ 16 * ((T H (levelUp H t) i).length * 16 ^ i) :=
      Nat.mul_le_mul_left _ h1
    have h4 : 16 * ((T H (levelUp H t) i).length * 16 ^ i) = (T H (levelUp H t) i).length * 16 ^ (i + 1) := by
      rw [Nat.pow_succ]; ac_rfl
    omega

/-- at `LevelFromLen` levels the finalised tree has a single entry, below it at least two -/
theorem level_facts (H : Bytes → Bytes) (t : List Bytes) (hpos : 0 < t.length) :
    (T H t (levelFromLen t.length)).length = 1 ∧
    ∀ i, i < levelFromLen t.length → 2 ≤ (T H t i).length := by
  obtain ⟨hu, hl⟩ := levelFromLen_spec t.length hpos
  constructor
  · have h1 := T_le H (levelFromLen t.length) 0 t (by simpa using hu)
    have h2 := T_ge H (levelFromLen t.length) t
    simp at h1
    rcases Nat.eq_zero_or_pos (T H t (levelFromLen t.length)).length with h | h
    · rw [h, Nat.zero_mul] at h2; omega
    · omega
  · intro i hi
    rcases Nat.lt_or_ge (T H t i).length 2 with h | h
    · exfalso
      have h2 := T_ge H i t
      have hn1 : 1 < t.length := by
        rcases Nat.lt_or_ge 1 t.length with h' | h'
        · exact h'
        · have : t.length = 1 := by omega
          rw [this] at hi; simp [levelFromLen, bitLen] at hi
      have h3 := hl hn1
      have h4 : 16 ^ i ≤ 16 ^ (levelFromLen t.length - 1) := Nat.pow_le_pow_right (by omega) (by omega)
      have h5 : (T H t i).length * 16 ^ i ≤ 1 * 16 ^ i := Nat.mul_le_mul_right _ (by omega)
      omega
    · exact h

theorem batch_T (H : Bytes → Bytes) : ∀ (L : Nat) (t : List Bytes),
    (∀ i, i < L → 2 ≤ (T H t i).length) → batch H t = batch H (T H t L) := by
  intro L
  induction L with
  | zero => intro t _; rfl
  | succ L ih =>
    intro t h
    rw [batch_big H t (h 0 (by omega))]
    exact ih (levelUp H t) (fun i hi => h (i + 1) (by omega))

theorem batch_eq_top (H : Bytes → Bytes) (t : List Bytes) (hpos : 0 < t.length) :
    batch H t = (T H t (levelFromLen t.length)).head? := by
  obtain ⟨h1, h2⟩ := level_facts H t hpos
  rw [batch_T H _ t h2, batch_small H _ (by omega)]

/-! ### what `Prove` reads -/

/-- every group of every level with at least two entries is found under its hash -/
def StoredT (H : Bytes → Bytes) (db : DB) (t : List Bytes) : Prop :=
  ∀ i j, 2 ≤ (T H t i).length → j < (T H t (i + 1)).length →
    db.get (H (node (T H t i) j)) = some (node (T H t i) j)

theorem chunk_length_le (s : List Bytes) (j : Nat) : (chunk s j).length ≤ 16 := by
  simp [chunk]; omega

theorem validNode_node {s : List Bytes} (hs : All32 s) (j : Nat) : validNode (node s j) = true := by
  have hc : All32 (chunk s j) := (hs.drop _).take _
  have := flatten_length hc
  have h2 := chunk_length_le s j
  simp [validNode, node, this, hashLen, maxNodeBytes, maxChildren]; omega

theorem chunk_get (s : List Bytes) (q d : Nat) (hd : d < 16) : (chunk s q)[d]? = s[16 * q + d]? := by
  simp [chunk, List.getElem?_take, hd]

theorem node_get {s : List Bytes} (hs : All32 s) (p : Nat) :
    nodeGet (node s (p / 16)) (p % 16) = s[p]? := by
  have hc : All32 (chunk s (p / 16)) := (hs.drop _).take _
  simp only [node]
  rw [nodeGet_flatten hc, chunk_get s _ _ (Nat.mod_lt _ (by omega))]
  congr 1; omega

theorem node_ne_nil {s : List Bytes} (hs : All32 s) (j : Nat) (hj : j < (s.length + 15) / 16) :
    node s j ≠ [] := by
  have hc : All32 (chunk s j) := (hs.drop _).take _
  intro h
  have := flatten_length hc
  simp only [node] at h
  rw [h] at this
  simp [chunk] at this
  omega

theorem storedT_of_written (H : Bytes → Bytes) (hlen : ∀ x, (H x).length = 32) (db : DB) (t : List Bytes)
    (ht : All32 t) (hok : AllOk H db) (hnc : NoCollVals H db) (haw : AW H (Vals db) t) : StoredT H db t := by
  intro i j h2 hj
  apply get_of_mem_vals H hlen db hok hnc _ (haw i j h2 hj)
  apply node_ne_nil (T_all32 H hlen t ht i)
  rw [T_succ', levelUp_length] at hj; exact hj

/-- the proof `Prove` reads for key `k`, top node first -/
def pathNodes (H : Bytes → Bytes) (t : List Bytes) (k : Nat) : Nat → List Bytes
  | 0 => []
  | m + 1 => node (T H t m) (k / 16 ^ (m + 1)) :: pathNodes H t k m

theorem proveLoop_spec (H : Bytes → Bytes) (hlen : ∀ x, (H x).length = 32) (db : DB) (t : List Bytes)
    (ht : All32 t) (hst : StoredT H db t) (k : Nat) (hk : k < t.length) :
    ∀ m, (∀ i, i < m → 2 ≤ (T H t i).length) →
      proveLoop db k m (node (T H t m) (k / 16 ^ (m + 1))) = some (pathNodes H t k m) := by
  intro m
  induction m with
  | zero => intro _; simp [proveLoop, pathNodes]
  | succ m ih =>
    intro h2
    have hall := T_all32 H hlen t ht (m + 1)
    have hp : k / 16 ^ (m + 1) < (T H t (m + 1)).length := by
      apply Nat.div_lt_of_lt_mul
      have := T_ge H (m + 1) t
      rw [Nat.mul_comm]; omega
    have hq : k / 16 ^ (m + 1 + 1) = k / 16 ^ (m + 1) / 16 := by
      rw [Nat.div_div_eq_div_mul, ← Nat.pow_succ]
    have hdig : digit k (m + 1) = k / 16 ^ (m + 1) % 16 := rfl
    have hget : nodeGet (node (T H t (m + 1)) (k / 16 ^ (m + 1 + 1))) (digit k (m + 1)) =
        some (H (node (T H t m) (k / 16 ^ (m + 1)))) := by
      rw [hq, hdig, node_get hall]
      rw [List.getElem?_eq_getElem hp]
      congr 1
      simp [T_succ', levelUp]
    have hfetch : fetch db (some (H (node (T H t m) (k / 16 ^ (m + 1))))) =
        some (node (T H t m) (k / 16 ^ (m + 1))) := by
      unfold fetch
      simp only [Option.getD_some]
      rw [hst m _ (h2 m (by omega)) hp]
      simp [validNode_node (T_all32 H hlen t ht m)]
    simp only [proveLoop, hget, hfetch, pathNodes]
    rw [ih (fun i hi => h2 i (by omega))]
    simp

/-! ### rewinding: truncated path nodes are the roots of the prefix -/

theorem node_take (t : List Bytes) (m j : Nat) (h : 16 * j + 16 ≤ m) : node (t.take m) j = node t j := by
  simp only [node, chunk]
  rw [List.drop_take, List.take_take]
  congr 2
  omega

/-- the complete groups of a prefix are the first groups of the whole level -/
theorem up_take (H : Bytes → Bytes) (t : List Bytes) (m : Nat) (hm : m ≤ t.length) :
    up H (t.take m) = (levelUp H t).take (m / 16) := by
  unfold up levelUp
  rw [← List.map_take, List.take_range]
  have e1 : (t.take m).length / 16 = m / 16 := by simp [Nat.min_eq_left hm]
  have e2 : min (m / 16) ((t.length + 15) / 16) = m / 16 := by omega
  rw [e1, e2]
  apply List.map_congr_left
  intro j hj
  have hj' : j < m / 16 := by simpa using hj
  rw [node_take t m j (by omega)]

/-- a node on the path, cut to the prefix's digit, is the pending node of the prefix -/
theorem trunc_node {t : List Bytes} (ht : All32 t) (m j : Nat) (hm : m ≤ t.length)
    (hj : m % 16 ≠ 0 → j = m / 16) :
    (node t j).take (m % 16 * hashLen) = (rem16 (t.take m)).flatten := by
  have hlen : (t.take m).length = m := by simp [Nat.min_eq_left hm]
  by_cases h0 : m % 16 = 0
  · have : rem16 (t.take m) = [] := by
      apply List.eq_nil_of_length_eq_zero; rw [rem16_length, hlen]; exact h0
    rw [this, h0]; simp
  · have hje := hj h0
    subst hje
    have hc : All32 (chunk t (m / 16)) := (ht.drop _).take _
    simp only [node, hashLen]
    rw [Nat.mul_comm, flatten_take hc]
    congr 1
    simp only [chunk, rem16, hlen]
    rw [List.take_take, List.drop_take]
    congr 1
    omega

/-- number of base-16 digits -/
def hexDigits : Nat → Nat
  | 0 => 0
  | m + 1 => 1 + hexDigits ((m + 1) / 16)
decreasing_by omega

/-- **the core of `SetLen`.** Take, bottom level first, one node per level of the finalised
    tree of `t` — at each level the node that holds position `m / 16` of that level whenever the
    prefix has something pending there — for as many levels as `m` has base-16 digits; cut node
    `i` to digit `i` of `m`. The result is exactly the roots of accumulating the first `m`
    entries of `t`. -/
theorem truncRoots_path (H : Bytes → Bytes) (hlen : ∀ x, (H x).length = 32) :
    ∀ (ns : List Bytes) (t : List Bytes) (m : Nat) (js : List Nat), All32 t → m ≤ t.length →
      ns.length = hexDigits m → js.length = ns.length →
      (∀ i (hi : i < ns.length), ns[i] = node (T H t i) (js.getD i 0) ∧
        ((m / 16 ^ i) % 16 ≠ 0 → js.getD i 0 = m / 16 ^ i / 16)) →
      truncRoots ns m = some (rootsOf H (t.take m)) := by
  intro ns
  induction ns with
  | nil =>
    intro t m js _ _ hd _ _
    have hm0 : m = 0 := by
      cases m with
      | zero => rfl
      | succ k => rw [hexDigits] at hd; simp at hd; omega
    subst hm0
    simp [truncRoots, rootsOf_nil]
  | cons n0 rest ih =>
    intro t m js ht hm hd hjs hns
    have hmpos : m ≠ 0 := by
      intro h; subst h; rw [hexDigits] at hd; simp at hd
    obtain ⟨k, rfl⟩ : ∃ k, m = k + 1 := ⟨m - 1, by omega⟩
    rw [hexDigits] at hd
    cases js with
    | nil => simp at hjs
    | cons j0 jrest =>
      have h0 := hns 0 (by simp)
      simp only [List.getElem_cons_zero, T, List.getD_cons_zero, Nat.pow_zero, Nat.div_one] at h0
      obtain ⟨hn0, hj0⟩ := h0
      have hvalid : validNode n0 = true := by rw [hn0]; exact validNode_node ht _
      have hne : t.take (k + 1) ≠ [] := by
        intro h
        have hl : (t.take (k + 1)).length = k + 1 := by simp [Nat.min_eq_left hm]
        rw [h] at hl; simp at hl
      rw [rootsOf_ne H _ hne, up_take H t (k + 1) hm]
      have hrest := ih (levelUp H t) ((k + 1) / 16) jrest (levelUp_all32 H hlen t)
        (by rw [levelUp_length]; exact Nat.div_le_div_right (by omega)) (by simp at hd; omega) (by simpa using hjs)
        (by
          intro i hi
          have := hns (i + 1) (by simp; omega)
          simp only [List.getElem_cons_succ, T, List.getD_cons_succ] at this
          refine ⟨this.1, ?_⟩
          have e : (k + 1) / 16 ^ (i + 1) = (k + 1) / 16 / 16 ^ i := by
            rw [Nat.div_div_eq_div_mul, Nat.pow_succ, Nat.mul_comm]
          rw [← e]; exact this.2)
      simp only [truncRoots, hvalid, not_true_eq_false, if_false, hrest, Option.map_some]
      rw [hn0, trunc_node ht (k + 1) j0 hm hj0]

theorem pathNodes_length (H : Bytes → Bytes) (t : List Bytes) (k : Nat) : ∀ m, (pathNodes H t k m).length = m := by
  intro m; induction m with
  | zero => rfl
  | succ m ih => simp [pathNodes, ih]

theorem pathNodes_last (H : Bytes → Bytes) (t : List Bytes) (k : Nat) :
    ∀ m, (pathNodes H t k (m + 1)).getLast? = some (node t (k / 16)) := by
  intro m
  induction m with
  | zero => simp [pathNodes, T]
  | succ m ih =>
    rw [pathNodes]
    have : pathNodes H t k (m + 1) ≠ [] := by
      intro h; have := pathNodes_length H t k (m + 1); rw [h] at this; simp at this
    rw [List.getLast?_cons_of_ne_nil this] at *
    exact ih

theorem get_mem : ∀ (db : DB) (k v : Bytes), db.get k = some v → (k, v) ∈ db := by
  intro db
  induction db with
  | nil => intro k v h; simp [DB.get] at h
  | cons p rest ih =>
    intro k v h
    obtain ⟨k0, v0⟩ := p
    simp only [DB.get] at h
    split at h
    · rename_i he; cases h; subst he; simp
    · exact List.mem_cons_of_mem _ (ih k v h)

theorem AllOk.dbok {H db} (h : AllOk H db) : DBOk H db := fun k v hg => h (k, v) (get_mem db k v hg)

end Goloop.C28
