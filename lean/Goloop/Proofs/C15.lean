/-
  Proofs/C15: helper lemmas for C15 (conservation) and C16 (rollback).
-/
import Goloop.Model.C15
namespace Goloop.C15.Proofs
open Goloop.C15

/-! ### finite sums over `Fin n` -/

theorem sum_map_updF_of_not_mem {n} (f : Fin n → Int) (a : Fin n) (v : Int) (L : List (Fin n))
    (h : a ∉ L) : (L.map (updF f a v)).sum = (L.map f).sum := by
  induction L with
  | nil => rfl
  | cons x xs ih =>
    have hx : x ≠ a := fun e => h (by simp [e])
    have hxs : a ∉ xs := fun m => h (by simp [m])
    simp [updF, hx, ih hxs]

theorem sum_map_updF {n} (f : Fin n → Int) (a : Fin n) (v : Int) (L : List (Fin n))
    (hn : L.Nodup) (h : a ∈ L) : (L.map (updF f a v)).sum = (L.map f).sum - f a + v := by
  induction L with
  | nil => simp at h
  | cons x xs ih =>
    rw [List.nodup_cons] at hn
    by_cases hx : x = a
    · subst hx
      have := sum_map_updF_of_not_mem f x v xs hn.1
      simp [updF, this]; omega
    · have hm : a ∈ xs := by
        rcases List.mem_cons.mp h with e | m
        · exact absurd e.symm hx
        · exact m
      have := ih hn.2 hm
      simp [updF, hx] at this ⊢; omega

theorem total_setBal {n} (w : World n) (a : Fin n) (v : Int) :
    total (w.setBal a v) = total w - w.bal a + v := by
  unfold total World.setBal
  exact sum_map_updF w.bal a v _ (List.nodup_finRange n) (List.mem_finRange a)

theorem total_setStore {n} (w : World n) (a : Fin n) (k v : Nat) :
    total (w.setStore a k v) = total w := rfl

def NonNeg {n} (w : World n) : Prop := ∀ a, 0 ≤ w.bal a

theorem nonneg_setBal {n} {w : World n} (h : NonNeg w) (a : Fin n) {v : Int} (hv : 0 ≤ v) :
    NonNeg (w.setBal a v) := by
  intro x; simp only [World.setBal, updF]; split
  · exact hv
  · exact h x

theorem total_setGraph {n} (w : World n) (a : Fin n) (g : Option Graph) : total (w.setGraph a g) = total w := rfl

theorem nonneg_setStore {n} {w : World n} (h : NonNeg w) (a : Fin n) (k v : Nat) :
    NonNeg (w.setStore a k v) := h

/-! ### transfers -/

theorem doTransfer_ok {n} (cfg : Cfg n) (w : World n) (f t : Fin n) (v : Int) :
    (doTransfer cfg w f t v).1 = 0 →
      total (doTransfer cfg w f t v).2 = total w ∧ (NonNeg w → NonNeg (doTransfer cfg w f t v).2) := by
  unfold doTransfer
  split
  · simp [stInvalidParameter]
  · split
    · simp [stInvalidParameter]
    · split
      · simp [stOutOfBalance]
      · split
        · simp [stInvalidParameter]
        · rename_i _ hv hb _
          intro _
          constructor
          · rw [total_setBal, total_setBal]
            simp only [World.setBal, updF]
            split <;> omega
          · intro hn
            apply nonneg_setBal
            · apply nonneg_setBal hn; omega
            · have := (nonneg_setBal hn f (v := w.bal f - v) (by omega)) t
              omega

/-! ### frames -/

/-- what every frame guarantees to its caller -/
structure Good {n} (w0 : World n) (r : FrameOut n) : Prop where
  total : total r.w = total w0
  nonneg : NonNeg w0 → NonNeg r.w
  rollback : r.status ≠ 0 → r.w = w0 ∧ r.logs = [] ∧ r.btp = 0

theorem good_close {n} (w0 w : World n) (st : Nat) (logs : List Nat) (btp used : Nat)
    (h : st = 0 → total w = total w0 ∧ (NonNeg w0 → NonNeg w)) :
    Good w0 (closeFrame w0 st w logs btp used) := by
  unfold closeFrame
  split
  · rename_i h0
    exact ⟨(h h0).1, (h h0).2, by simp⟩
  · exact ⟨rfl, id, fun _ => ⟨rfl, rfl, rfl⟩⟩

theorem good_fail {n} (w0 : World n) (st : Nat) (used : Nat) : Good w0 ⟨st, w0, [], 0, used⟩ :=
  ⟨rfl, id, fun _ => ⟨rfl, rfl, rfl⟩⟩

theorem good_xferFrame {n} (cfg : Cfg n) (w0 : World n) (f t : Fin n) (v : Int) (limit : Nat) :
    Good w0 (xferFrame cfg w0 f t v limit) := by
  unfold xferFrame
  simp only
  split
  · exact good_close _ _ _ _ _ _ (by simp [stOutOfStep])
  · exact good_close _ _ _ _ _ _ (doTransfer_ok cfg w0 f t v)

/-- invariant of the op interpreter: balances are only moved, never created -/
theorem runOps_inv {n} (cfg : Cfg n)
    (callF : (frm to : Fin n) → Int → List (Op n) → World n → Nat → FrameOut n)
    (hc : ∀ f t v b w l, Good w (callF f t v b w l))
    (self : Fin n) (limit : Nat) (ops : List (Op n)) :
    ∀ (w : World n) (logs : List Nat) (btp used : Nat),
      total (runOps cfg callF self limit ops w logs btp used).w = total w ∧
      (NonNeg w → NonNeg (runOps cfg callF self limit ops w logs btp used).w) := by
  induction ops with
  | nil => intro w logs btp used; simp [runOps]
  | cons op rest ih =>
    intro w logs btp used
    cases op with
    | setv k v =>
      simp only [runOps]
      have := ih (w.setStore self k v) logs btp used
      exact ⟨this.1, fun h => this.2 h⟩
    | setg nh g =>
      simp only [runOps]
      have := ih (if cfg.hasContract self = true then w.setGraph self (graphChanged nh g) else w) logs btp used
      have e : total (if cfg.hasContract self = true then w.setGraph self (graphChanged nh g) else w) = total w := by
        split <;> rfl
      refine ⟨this.1.trans e, fun h => this.2 ?_⟩
      split
      · exact h
      · exact h
    | emit t => simp only [runOps]; exact ih _ _ _ _
    | btp x => simp only [runOps]; exact ih _ _ _ _
    | burn s =>
      simp only [runOps]
      split
      · exact ih _ _ _ _
      · simp
    | xfer to v prop =>
      simp only [runOps]
      have g := good_xferFrame cfg w self to v (limit - used)
      split
      · exact ⟨g.total, g.nonneg⟩
      · have := ih (xferFrame cfg w self to v (limit - used)).w
          (logs ++ (xferFrame cfg w self to v (limit - used)).logs)
          (btp + (xferFrame cfg w self to v (limit - used)).btp)
          (deduct used limit (xferFrame cfg w self to v (limit - used)).used).1
        exact ⟨this.1.trans g.total, fun h => this.2 (g.nonneg h)⟩
    | call to v lim body prop =>
      simp only [runOps]
      generalize hl : (if lim > 0 ∧ lim < limit - used then lim else limit - used) = l
      have g := hc self to v body w l
      split
      · exact ⟨g.total, g.nonneg⟩
      · have := ih (callF self to v body w l).w (logs ++ (callF self to v body w l).logs)
          (btp + (callF self to v body w l).btp) (deduct used limit (callF self to v body w l).used).1
        exact ⟨this.1.trans g.total, fun h => this.2 (g.nonneg h)⟩
    | fail code => simp [runOps]
    | timeout => simp [runOps]

theorem good_scriptFrame {n} (cfg : Cfg n) (fuel : Nat) :
    ∀ (inter : Bool) (f self : Fin n) (v : Int) (ops : List (Op n)) (w0 : World n) (limit : Nat),
      Good w0 (scriptFrame cfg fuel inter f self v ops w0 limit) := by
  induction fuel with
  | zero => intro inter f self v ops w0 limit; exact good_fail w0 _ _
  | succ fuel ih =>
    intro inter f self v ops w0 limit
    unfold scriptFrame
    simp only
    generalize (if inter = true then deduct 0 limit cfg.call else (0, true)) = p
    obtain ⟨used, ok⟩ := p
    -- the world the body starts from conserves the total
    have hw1 : (if v > 0 then doTransfer cfg w0 f self v else (0, w0)).1 = 0 →
        total (if v > 0 then doTransfer cfg w0 f self v else (0, w0)).2 = total w0 ∧
        (NonNeg w0 → NonNeg (if v > 0 then doTransfer cfg w0 f self v else (0, w0)).2) := by
      split
      · exact doTransfer_ok cfg w0 f self v
      · intro _; exact ⟨rfl, id⟩
    generalize (if v > 0 then doTransfer cfg w0 f self v else (0, w0)) = q at hw1
    obtain ⟨st, w1⟩ := q
    simp only at hw1 ⊢
    cases ok with
    | false => simpa using good_close w0 w0 stOutOfStep [] 0 used (by simp [stOutOfStep])
    | true =>
      simp only [Bool.not_true, Bool.false_eq_true, if_false]
      split
      · rename_i hst
        exact good_close _ _ _ _ _ _ (fun h0 => absurd h0 hst)
      · rename_i hst
        have hst0 : st = 0 := by simpa using hst
        apply good_close
        intro _
        have := runOps_inv cfg (fun f t v' b w l => scriptFrame cfg fuel true f t v' b w l)
          (fun f t v b w l => ih true f t v b w l) self limit ops w1 (if v > 0 then xferLogs cfg f v else []) 0 used
        exact ⟨this.1.trans (hw1 hst0).1, fun h => this.2 ((hw1 hst0).2 h)⟩

theorem good_topFrame {n} (cfg : Cfg n) (fuel : Nat) (tx : Tx n) (w0 : World n) (limit : Nat) :
    Good w0 (topFrame cfg fuel tx w0 limit) := by
  unfold topFrame
  split
  · exact good_scriptFrame cfg fuel _ _ _ _ _ _ _
  · split
    · simp only
      apply good_close
      intro h0
      split at h0
      · by_cases hne : (doTransfer cfg w0 tx.frm tx.to tx.value).1 = 0
        · simp [hne, stContractNotFound] at h0
        · simp [hne] at h0
      · simp [stOutOfStep] at h0
    · simp only
      exact good_close _ _ _ _ _ _ (doTransfer_ok cfg w0 tx.frm tx.to tx.value)

theorem good_doExecute {n} (cfg : Cfg n) (fuel : Nat) (wInit w : World n) (tx : Tx n) :
    Good w (doExecute cfg fuel wInit w tx) := by
  unfold doExecute
  simp only
  generalize (if cfg.legacyBal = true then wInit.bal tx.frm else w.bal tx.frm) = cbal
  split
  · exact good_fail w _ _
  · split
    · exact good_fail w _ _
    · split
      · exact good_fail w _ _
      · have g := good_topFrame cfg fuel tx w
          (clipLimit cfg tx - (deduct (deduct 0 (clipLimit cfg tx) cfg.dflt).1 (clipLimit cfg tx) (cfg.input * tx.inputBytes)).1)
        exact ⟨g.total, g.nonneg, g.rollback⟩


/-! ### the fee part of Execute -/

/-- everything the properties need about `settle`, for any outcome `r` of DoExecute
    that is `Good` with respect to the pre-transaction world `w`. -/
theorem settle_spec {n} (cfg : Cfg n) (w : World n) (frm : Fin n) (r : FrameOut n) (g : Good w r) :
    total (settle cfg w frm r).2 = total w - ((settle cfg w frm r).1.stepUsed : Int) * (settle cfg w frm r).1.stepPrice ∧
    (NonNeg w → NonNeg (settle cfg w frm r).2) ∧
    ((settle cfg w frm r).1.status ≠ 0 →
      (settle cfg w frm r).2 = w.setBal frm (w.bal frm - ((settle cfg w frm r).1.stepUsed : Int) * (settle cfg w frm r).1.stepPrice) ∧
      (settle cfg w frm r).1.logs = [] ∧ (settle cfg w frm r).1.btp = 0) ∧
    ((settle cfg w frm r).1.status = 0 →
      r.status = 0 ∧
      (settle cfg w frm r).2 = r.w.setBal frm (r.w.bal frm - ((settle cfg w frm r).1.stepUsed : Int) * (settle cfg w frm r).1.stepPrice) ∧
      (settle cfg w frm r).1.logs = r.logs) ∧
    ((cfg.legacyFee = true ∧ (settle cfg w frm r).1.stepUsed = 0) ∨
      (settle cfg w frm r).1.stepUsed = (if r.used < cfg.dflt then cfg.dflt else r.used)) ∧
    ((settle cfg w frm r).1.stepPrice = cfg.price ∨ (settle cfg w frm r).1.stepPrice = 0) := by
  have gt := g.total
  have gn := g.nonneg
  have gr := g.rollback
  unfold settle
  simp only
  generalize (if r.used < cfg.dflt then cfg.dflt else r.used) = su
  by_cases h1 : r.w.bal frm < (su : Int) * cfg.price
  · by_cases h2 : cfg.legacyFee = true
    · simp only [h1, h2, if_true, Bool.false_eq_true, if_false, ↓reduceIte]
      refine ⟨?_, ?_, ?_, ?_, by simp [h2], by simp⟩
      · rw [total_setBal]; simp; omega
      · intro hn; apply nonneg_setBal (gn hn); simp; exact gn hn frm
      · intro hs
        have := gr hs
        simp [hs, this.1, this.2.1, this.2.2]
      · intro hs; simp [hs]
    · by_cases h3 : r.status = 0
      · by_cases h4 : w.bal frm < (su : Int) * cfg.price
        · simp only [h1, h2, h3, h4, if_true, if_false, Bool.false_eq_true, ↓reduceIte]
          refine ⟨?_, ?_, ?_, ?_, by simp, by simp⟩
          · rw [total_setBal]; simp
          · intro hn; apply nonneg_setBal hn; simp; exact hn frm
          · intro _; simp [stOutOfBalance]
          · simp [stOutOfBalance]
        · simp only [h1, h2, h3, h4, if_true, if_false, Bool.false_eq_true, ↓reduceIte]
          refine ⟨?_, ?_, ?_, ?_, by simp, by simp⟩
          · rw [total_setBal]; omega
          · intro hn; apply nonneg_setBal hn; omega
          · intro _; simp [stOutOfBalance]
          · simp [stOutOfBalance]
      · simp only [h1, h2, h3, if_true, if_false, Bool.false_eq_true, ↓reduceIte]
        have := gr h3
        refine ⟨?_, ?_, ?_, ?_, by simp, by simp⟩
        · rw [total_setBal, this.1]; simp
        · intro hn; rw [this.1]; apply nonneg_setBal hn; simp; exact hn frm
        · intro _; simp [stOutOfBalance, this.1]
        · simp [stOutOfBalance]
  · simp only [h1, if_false, ↓reduceIte]
    refine ⟨?_, ?_, ?_, ?_, by simp, by simp⟩
    · rw [total_setBal]; omega
    · intro hn; apply nonneg_setBal (gn hn); omega
    · intro hs
      have := gr hs
      simp [hs, this.1, this.2.1, this.2.2]
    · intro hs; simp [hs]


/-! ### one transaction, one block -/

theorem deduct_le (used limit s : Nat) (h : used ≤ limit) : (deduct used limit s).1 ≤ limit := by
  unfold deduct; split <;> simp <;> omega

theorem doExecute_used_le {n} (cfg : Cfg n) (fuel : Nat) (wInit w : World n) (tx : Tx n) :
    (doExecute cfg fuel wInit w tx).used ≤ clipLimit cfg tx := by
  unfold doExecute
  simp only
  generalize (if cfg.legacyBal = true then wInit.bal tx.frm else w.bal tx.frm) = cbal
  have h1 := deduct_le 0 (clipLimit cfg tx) cfg.dflt (Nat.zero_le _)
  have h2 := deduct_le (deduct 0 (clipLimit cfg tx) cfg.dflt).1 (clipLimit cfg tx) (cfg.input * tx.inputBytes) h1
  split
  · simp
  · split
    · exact h1
    · repeat' split
      all_goals first | exact h2 | exact Nat.le_refl _ | exact deduct_le _ _ _ h2

theorem execTx_spec {n} (cfg : Cfg n) (fuel : Nat) (wInit w : World n) (tx : Tx n) :
    total (execTx cfg fuel wInit w tx).2 =
      total w - ((execTx cfg fuel wInit w tx).1.stepUsed : Int) * (execTx cfg fuel wInit w tx).1.stepPrice ∧
    (NonNeg w → NonNeg (execTx cfg fuel wInit w tx).2) :=
  let s := settle_spec cfg w tx.frm _ (good_doExecute cfg fuel wInit w tx)
  ⟨s.1, s.2.1⟩

theorem doTransfer_success {n} (cfg : Cfg n) (w : World n) (f t : Fin n) (v : Int)
    (h : (doTransfer cfg w f t v).1 = 0) :
    (doTransfer cfg w f t v).2 =
      (w.setBal f (w.bal f - v)).setBal t ((w.setBal f (w.bal f - v)).bal t + v) ∧ 0 ≤ v ∧ v ≤ w.bal f := by
  unfold doTransfer at h ⊢
  split at h
  · simp [stInvalidParameter] at h
  · split at h
    · simp [stInvalidParameter] at h
    · split at h
      · simp [stOutOfBalance] at h
      · split at h
        · simp [stInvalidParameter] at h
        · rename_i h1 h2 h3 h4
          simp only [h1, h2, h3, h4, if_false, Bool.false_eq_true, ↓reduceIte]
          exact ⟨trivial, by omega, by omega⟩

/-- a plain transfer / message to a non-contract address that DoExecute reports as
    successful moved exactly `value` -/
theorem doExecute_transfer_ok {n} (cfg : Cfg n) (fuel : Nat) (wInit w : World n) (tx : Tx n)
    (hk : ∀ p, tx.kind ≠ .call p) (hc : cfg.isContract tx.to = false)
    (h : (doExecute cfg fuel wInit w tx).status = 0) :
    (doExecute cfg fuel wInit w tx).w =
      (w.setBal tx.frm (w.bal tx.frm - tx.value)).setBal tx.to
        ((w.setBal tx.frm (w.bal tx.frm - tx.value)).bal tx.to + tx.value) ∧
    0 ≤ tx.value ∧ tx.value ≤ w.bal tx.frm := by
  unfold doExecute at h ⊢
  simp only at h ⊢
  generalize (if cfg.legacyBal = true then wInit.bal tx.frm else w.bal tx.frm) = cbal at h ⊢
  have htop : ∀ l, topFrame cfg fuel tx w l = closeFrame w (doTransfer cfg w tx.frm tx.to tx.value).1
      (doTransfer cfg w tx.frm tx.to tx.value).2 (xferLogs cfg tx.frm tx.value) 0 0 := by
    intro l
    unfold topFrame
    split
    · rename_i p hp; exact absurd hp (hk p)
    · simp [hc]
  split at h
  · simp [stOutOfBalance] at h
  · split at h
    · simp [stOutOfStep] at h
    · split at h
      · simp [stOutOfStep] at h
      · rename_i h1 h2 h3
        simp only [h1, h2, h3, if_false, ↓reduceIte]
        rw [htop] at h ⊢
        unfold closeFrame at h ⊢
        split at h
        · rename_i h0
          simp only [h0, if_true]
          exact doTransfer_success cfg w tx.frm tx.to tx.value h0
        · rename_i h0; exact absurd h h0

theorem gatheredFee_nonneg (rs : List Receipt) : 0 ≤ gatheredFee rs := by
  induction rs with
  | nil => simp [gatheredFee]
  | cons r rs ih =>
    simp only [gatheredFee]
    have : (0 : Int) ≤ (r.stepUsed : Int) * r.stepPrice := Int.mul_nonneg (Int.natCast_nonneg _) (Int.natCast_nonneg _)
    omega

theorem execTxs_spec {n} (cfg : Cfg n) (fuel : Nat) (wInit : World n) (txs : List (Tx n)) :
    ∀ w, total (execTxs cfg fuel wInit w txs).2 = total w - gatheredFee (execTxs cfg fuel wInit w txs).1 ∧
      (NonNeg w → NonNeg (execTxs cfg fuel wInit w txs).2) := by
  induction txs with
  | nil => intro w; simp [execTxs, gatheredFee]
  | cons tx rest ih =>
    intro w
    simp only [execTxs, gatheredFee]
    have h1 := execTx_spec cfg fuel wInit w tx
    have h2 := ih (execTx cfg fuel wInit w tx).2
    refine ⟨?_, fun hn => h2.2 (h1.2 hn)⟩
    rw [h2.1, h1.1]; omega

theorem execBlock_spec {n} (cfg : Cfg n) (fuel : Nat) (w : World n) (txs : List (Tx n))
    (rs : List Receipt) (w' : World n) (h : execBlock cfg fuel w txs = some (rs, w')) :
    total w' = total w ∧ (NonNeg w → NonNeg w') ∧
    w'.bal cfg.treasury = (execTxs cfg fuel w w txs).2.bal cfg.treasury + gatheredFee rs := by
  unfold execBlock at h
  split at h
  · simp only [Option.some.injEq, Prod.mk.injEq] at h
    obtain ⟨hr, hw⟩ := h
    have sp := execTxs_spec cfg fuel w txs w
    subst hr; subst hw
    refine ⟨?_, ?_, ?_⟩
    · rw [total_setBal, sp.1]; omega
    · intro hn
      apply nonneg_setBal (sp.2 hn)
      have := sp.2 hn cfg.treasury
      have := gatheredFee_nonneg (execTxs cfg fuel w w txs).1
      omega
    · simp [World.setBal, updF]
  · simp at h

end Goloop.C15.Proofs
