/-
  Proofs/C12: helper lemmas for Props/C12 (serialization inverse, collisions, id logic, RLP framing).
-/
import Goloop.Model.C12
namespace Goloop.C12.Proofs
open Goloop Goloop.C12

/-! ### strings -/

theorem unserString_plain (b : UInt8) (t : Bytes) (h : isSpecial b = false) :
    unserString (b :: t) = (b :: (unserString t).1, (unserString t).2) := by
  have hb : (b == cBsl) = false := by
    cases hb : (b == cBsl) with
    | false => rfl
    | true =>
      have : b = cBsl := by simpa using hb
      subst this; simp [isSpecial, cBsl] at h
  cases t with
  | nil => simp [unserString, h]
  | cons c r => simp [unserString, h, hb]

theorem unserString_esc (c : UInt8) (t : Bytes) :
    unserString (cBsl :: c :: t) = (c :: (unserString t).1, (unserString t).2) := by
  simp [unserString]

theorem unserString_stop (b : UInt8) (t : Bytes) (h : isSpecial b = true) (hb : b ≠ cBsl) :
    unserString (b :: t) = ([], b :: t) := by
  have hb' : (b == cBsl) = false := by simpa using hb
  cases t with
  | nil => simp [unserString, h]
  | cons c r => simp [unserString, h, hb']

/-- what may follow a serialized value: nothing, or one of `.` `]` `}` -/
def Term (rest : Bytes) : Prop :=
  rest = [] ∨ ∃ b r, rest = b :: r ∧ (b = cDot ∨ b = cRBr ∨ b = cRBc)

theorem term_special {b : UInt8} (h : b = cDot ∨ b = cRBr ∨ b = cRBc) :
    isSpecial b = true ∧ b ≠ cBsl := by
  rcases h with h | h | h <;> subst h <;> decide

theorem unserString_term (rest : Bytes) (h : Term rest) : unserString rest = ([], rest) := by
  rcases h with h | ⟨b, r, h, hb⟩
  · subst h; rfl
  · subst h
    exact unserString_stop b r (term_special hb).1 (term_special hb).2

theorem unserString_ser (s rest : Bytes) (h : Term rest) :
    unserString (serString s ++ rest) = (s, rest) := by
  induction s with
  | nil => simpa [serString] using unserString_term rest h
  | cons b s ih =>
    cases hsp : isSpecial b with
    | true =>
      simp only [serString, hsp, if_true, List.cons_append]
      rw [show (0x5c : UInt8) = cBsl from rfl, unserString_esc, ih]
    | false =>
      simp only [serString, hsp, List.cons_append, Bool.false_eq_true, if_false]
      rw [unserString_plain b _ hsp, ih]

/-! ### joins -/

def dotJoin : List Bytes → Bytes
  | [] => []
  | [f] => f
  | f :: g :: r => f ++ cDot :: dotJoin (g :: r)

/-- `key.value` as written by the dict loop -/
def entry (p : Bytes × Bytes) : Bytes := serString p.1 ++ cDot :: p.2

theorem entry_ne (p : Bytes × Bytes) : entry p ≠ [] := by simp [entry]

theorem dotJoin_cons_append (a g : Bytes) (fs : List Bytes) :
    dotJoin ((a ++ cDot :: g) :: fs) = a ++ cDot :: dotJoin (g :: fs) := by
  cases fs with
  | nil => simp [dotJoin]
  | cons h t => simp [dotJoin]

theorem joinListFrom_ne (buf : Bytes) (fs : List Bytes) (h : buf ≠ []) :
    joinListFrom buf fs = dotJoin (buf :: fs) := by
  induction fs generalizing buf with
  | nil => simp [joinListFrom, dotJoin]
  | cons g fs ih =>
    have hb : buf.isEmpty = false := by cases buf <;> simp_all
    simp only [joinListFrom, hb, Bool.false_eq_true, if_false]
    rw [ih _ (by simp [h])]
    simp only [List.append_assoc, List.singleton_append]
    rw [dotJoin_cons_append]
    simp [dotJoin]

theorem joinListFrom_nil_cons (f : Bytes) (fs : List Bytes) (h : f ≠ []) :
    joinListFrom [] (f :: fs) = dotJoin (f :: fs) := by
  simp only [joinListFrom, List.isEmpty_nil, if_true, List.nil_append]
  exact joinListFrom_ne f fs h

/-- the Go list loop drops every leading empty fragment -/
theorem joinListFrom_nil_empty (fs : List Bytes) :
    joinListFrom [] ([] :: fs) = joinListFrom [] fs := by
  simp [joinListFrom]

theorem joinDictFrom_eq (buf : Bytes) (ps : List (Bytes × Bytes)) :
    joinDictFrom buf ps = joinListFrom buf (ps.map entry) := by
  induction ps generalizing buf with
  | nil => simp [joinDictFrom, joinListFrom]
  | cons p ps ih =>
    obtain ⟨k, f⟩ := p
    simp only [joinDictFrom, List.map_cons, joinListFrom, entry]
    rw [ih]
    simp [List.append_assoc]

theorem joinDictFrom_nil (ps : List (Bytes × Bytes)) :
    joinDictFrom [] ps = dotJoin (ps.map entry) := by
  rw [joinDictFrom_eq]
  cases ps with
  | nil => simp [joinListFrom, dotJoin]
  | cons p ps => exact joinListFrom_nil_cons _ _ (entry_ne p)

/-! ### sorting a sorted list -/

theorem insertPair_sorted {α : Type} (p : Bytes × α) (r : List (Bytes × α))
    (h : keysSorted (p :: r) = true) : insertPair p r = p :: r := by
  cases r with
  | nil => rfl
  | cons q r =>
    simp only [keysSorted, Bool.and_eq_true] at h
    simp [insertPair, h.1]

theorem keysSorted_tail {α : Type} (p : Bytes × α) (r : List (Bytes × α))
    (h : keysSorted (p :: r) = true) : keysSorted r = true := by
  cases r with
  | nil => rfl
  | cons q r =>
    simp only [keysSorted, Bool.and_eq_true] at h
    exact h.2

theorem sortPairs_sorted {α : Type} (ps : List (Bytes × α)) (h : keysSorted ps = true) :
    sortPairs ps = ps := by
  induction ps with
  | nil => rfl
  | cons p r ih =>
    simp only [sortPairs]
    rw [ih (keysSorted_tail p r h)]
    exact insertPair_sorted p r h

theorem keysSorted_map {α β : Type} (ps : List (Bytes × α)) (qs : List (Bytes × β))
    (hk : ps.map Prod.fst = qs.map Prod.fst) (h : keysSorted ps = true) : keysSorted qs = true := by
  induction ps generalizing qs with
  | nil => cases qs with
    | nil => rfl
    | cons q qs => simp at hk
  | cons p ps ih =>
    cases qs with
    | nil => simp at hk
    | cons q qs =>
      simp only [List.map_cons, List.cons.injEq] at hk
      cases ps with
      | nil =>
        cases qs with
        | nil => rfl
        | cons q' qs => simp at hk
      | cons p' ps =>
        cases qs with
        | nil => simp at hk
        | cons q' qs =>
          have hk2 := hk.2
          simp only [List.map_cons, List.cons.injEq] at hk2
          simp only [keysSorted, Bool.and_eq_true] at h ⊢
          refine ⟨?_, ih (q' :: qs) (by simpa using hk.2) h.2⟩
          rw [← hk.1, ← hk2.1]; exact h.1

theorem serPairs_keys (kvs : List (Bytes × JV)) (ps : List (Bytes × Bytes))
    (h : serPairs kvs = some ps) : kvs.map Prod.fst = ps.map Prod.fst := by
  induction kvs generalizing ps with
  | nil => simp [serPairs] at h; subst h; rfl
  | cons kv r ih =>
    obtain ⟨k, v⟩ := kv
    simp only [serPairs] at h
    split at h
    · rename_i f ps' hf hps
      simp only [Option.some.injEq] at h
      subst h
      simp [ih ps' hps]
    · simp at h

/-! ### unfolding `unserValue` -/

theorem unserValue_null (n : Nat) (rest : Bytes) :
    unserValue (n + 1) (cBsl :: cZero :: rest) = some (.null, rest) := by
  simp [unserValue]

theorem unserValue_emptyList (n : Nat) (rest : Bytes) :
    unserValue (n + 1) (cLBr :: cRBr :: rest) = some (.list [], rest) := by
  simp [unserValue, cLBr, cBsl, cRBr]

theorem unserValue_emptyDict (n : Nat) (rest : Bytes) :
    unserValue (n + 1) (cLBc :: cRBc :: rest) = some (.dict [], rest) := by
  simp [unserValue, cLBc, cLBr, cBsl, cRBc]

theorem unserValue_list (n : Nat) (b : UInt8) (t : Bytes) (hb : b ≠ cRBr) :
    unserValue (n + 1) (cLBr :: b :: t) =
      match unserItems n (b :: t) with
      | some (xs, r) => some (.list xs, r)
      | none => none := by
  have h1 : (b == cRBr) = false := by simpa using hb
  simp only [unserValue, cLBr, cBsl, h1]
  cases unserItems n (b :: t) with
  | none => simp
  | some p => simp

theorem unserValue_dict (n : Nat) (b : UInt8) (t : Bytes) (hb : b ≠ cRBc) :
    unserValue (n + 1) (cLBc :: b :: t) =
      match unserEntries n (b :: t) with
      | some (kvs, r) => some (.dict kvs, r)
      | none => none := by
  have h1 : (b == cRBc) = false := by simpa using hb
  simp only [unserValue, cLBc, cLBr, cBsl, h1]
  cases unserEntries n (b :: t) with
  | none => simp
  | some p => simp

theorem unserValue_short (n : Nat) (bs : Bytes) (h : bs.length < 2) :
    unserValue (n + 1) bs = some (.str (unserString bs).1, (unserString bs).2) := by
  match bs, h with
  | [], _ => simp [unserValue]
  | [b], _ => simp [unserValue]

theorem unserValue_other (n : Nat) (b c : UInt8) (t : Bytes)
    (h0 : ¬ (b = cBsl ∧ c = cZero)) (h1 : b ≠ cLBr) (h2 : b ≠ cLBc) :
    unserValue (n + 1) (b :: c :: t) =
      some (.str (unserString (b :: c :: t)).1, (unserString (b :: c :: t)).2) := by
  have e1 : (b == cLBr) = false := by simpa using h1
  have e2 : (b == cLBc) = false := by simpa using h2
  have e0 : (b == cBsl && c == cZero) = false := by
    cases hb : (b == cBsl) <;> cases hc : (c == cZero) <;> simp_all
  simp [unserValue, e0, e1, e2]

theorem unserValue_str (n : Nat) (s rest : Bytes) (h : Term rest) :
    unserValue (n + 1) (serString s ++ rest) = some (.str s, rest) := by
  have key : unserValue (n + 1) (serString s ++ rest) =
      some (.str (unserString (serString s ++ rest)).1, (unserString (serString s ++ rest)).2) := by
    match hbs : serString s ++ rest with
    | [] => exact unserValue_short n _ (by simp)
    | [b] => exact unserValue_short n _ (by simp)
    | b :: c :: t =>
      cases s with
      | nil =>
        simp only [serString, List.nil_append] at hbs
        rcases h with h | ⟨b', r, h, hb'⟩
        · rw [h] at hbs; simp at hbs
        · rw [h] at hbs
          simp only [List.cons.injEq] at hbs
          obtain ⟨rfl, _⟩ := hbs
          apply unserValue_other
          · intro ⟨hz, _⟩; rcases hb' with h | h | h <;> subst h <;> revert hz <;> decide
          · rcases hb' with h | h | h <;> subst h <;> decide
          · rcases hb' with h | h | h <;> subst h <;> decide
      | cons a s' =>
        cases hsp : isSpecial a with
        | true =>
          simp only [serString, hsp, if_true, List.cons_append, List.cons.injEq] at hbs
          obtain ⟨rfl, hbs2⟩ := hbs
          have hc : c = a := by
            cases hx : serString s' ++ rest <;> simp_all
          subst hc
          apply unserValue_other
          · intro ⟨_, hz⟩; subst hz; simp [isSpecial, cZero] at hsp
          · decide
          · decide
        | false =>
          simp only [serString, hsp, Bool.false_eq_true, if_false, List.cons_append,
            List.cons.injEq] at hbs
          obtain ⟨rfl, _⟩ := hbs
          apply unserValue_other
          · intro ⟨hz, _⟩; subst hz; simp [isSpecial, cBsl] at hsp
          · intro hz; subst hz; simp [isSpecial, cLBr] at hsp
          · intro hz; subst hz; simp [isSpecial, cLBc] at hsp
  rw [key, unserString_ser s rest h]

/-! ### heads of fragments -/

theorem serString_head (k t : Bytes) :
    ∃ b t', serString k ++ cDot :: t = b :: t' ∧ b ≠ cRBc ∧ b ≠ cRBr := by
  cases k with
  | nil => exact ⟨cDot, t, rfl, by decide, by decide⟩
  | cons a k =>
    cases hsp : isSpecial a with
    | true =>
      exact ⟨cBsl, a :: (serString k ++ cDot :: t), by simp [serString, hsp, cBsl],
        by decide, by decide⟩
    | false =>
      refine ⟨a, serString k ++ cDot :: t, by simp [serString, hsp], ?_, ?_⟩
      · intro hz; subst hz; simp [isSpecial, cRBc] at hsp
      · intro hz; subst hz; simp [isSpecial, cRBr] at hsp

theorem frag_head (v : JV) (hc : canon v = true) (f : Bytes) (hs : serValue v = some f)
    (hne : v ≠ .str []) : ∃ b t, f = b :: t ∧ b ≠ cRBr := by
  cases v with
  | null => simp [serValue] at hs; subst hs; exact ⟨cBsl, _, rfl, by decide⟩
  | bool b => simp [canon] at hc
  | num n => simp [canon] at hc
  | str s =>
    simp [serValue] at hs; subst hs
    cases s with
    | nil => exact absurd rfl hne
    | cons a s =>
      cases hsp : isSpecial a with
      | true => exact ⟨cBsl, a :: serString s, by simp [serString, hsp, cBsl], by decide⟩
      | false =>
        refine ⟨a, serString s, by simp [serString, hsp], ?_⟩
        intro hz; subst hz; simp [isSpecial, cRBr] at hsp
  | list xs =>
    simp only [serValue] at hs
    split at hs
    · simp at hs; subst hs; exact ⟨cLBr, _, rfl, by decide⟩
    · simp at hs
  | dict kvs =>
    simp only [serValue] at hs
    split at hs
    · simp at hs; subst hs; exact ⟨cLBc, _, rfl, by decide⟩
    · simp at hs

theorem dotJoin_head (b : UInt8) (t : Bytes) (fs : List Bytes) :
    ∃ t', dotJoin ((b :: t) :: fs) = b :: t' := by
  cases fs with
  | nil => exact ⟨t, rfl⟩
  | cons g r => exact ⟨t ++ cDot :: dotJoin (g :: r), by simp [dotJoin]⟩

theorem headOk_ne (x : JV) (xs : List JV) (h : headOk (x :: xs) = true) : x ≠ .str [] := by
  intro hx; subst hx; simp [headOk] at h

/-! ### the inverse parser inverts `serValue` on canonical values -/

theorem term_dot (t : Bytes) : Term (cDot :: t) := Or.inr ⟨cDot, t, rfl, Or.inl rfl⟩
theorem term_rbr (t : Bytes) : Term (cRBr :: t) := Or.inr ⟨cRBr, t, rfl, Or.inr (Or.inl rfl)⟩
theorem term_rbc (t : Bytes) : Term (cRBc :: t) := Or.inr ⟨cRBc, t, rfl, Or.inr (Or.inr rfl)⟩

mutual
theorem value_ok (v : JV) (hc : canon v = true) (f : Bytes) (hs : serValue v = some f)
    (fuel : Nat) (rest : Bytes) (hf : sz v ≤ fuel) (ht : Term rest) :
    unserValue fuel (f ++ rest) = some (v, rest) := by
  match v, hc, hs, hf with
  | .null, _, hs, hf =>
    obtain ⟨n, rfl⟩ : ∃ n, fuel = n + 1 := ⟨fuel - 1, by simp [sz] at hf; omega⟩
    simp [serValue] at hs; subst hs
    exact unserValue_null n rest
  | .bool _, hc, _, _ => simp [canon] at hc
  | .num _, hc, _, _ => simp [canon] at hc
  | .str s, _, hs, hf =>
    obtain ⟨n, rfl⟩ : ∃ n, fuel = n + 1 := ⟨fuel - 1, by simp [sz] at hf; omega⟩
    simp [serValue] at hs; subst hs
    exact unserValue_str n s rest ht
  | .list [], _, hs, hf =>
    obtain ⟨n, rfl⟩ : ∃ n, fuel = n + 1 := ⟨fuel - 1, by simp [sz] at hf; omega⟩
    simp [serValue, serFrags, joinListFrom] at hs; subst hs
    exact unserValue_emptyList n rest
  | .list (x :: xs), hc, hs, hf =>
    obtain ⟨n, rfl⟩ : ∃ n, fuel = n + 1 := ⟨fuel - 1, by simp [sz] at hf; omega⟩
    simp only [canon, Bool.and_eq_true] at hc
    simp only [serValue] at hs
    split at hs
    · rename_i fs hfs
      simp only [Option.some.injEq] at hs; subst hs
      -- fs = fx :: fs'
      have hfs' := hfs
      simp only [serFrags] at hfs'
      split at hfs'
      · rename_i fx fs' hfx hfr
        simp only [Option.some.injEq] at hfs'; subst hfs'
        have hxc : canon x = true := by
          have := hc.2; simp only [canonList, Bool.and_eq_true] at this; exact this.1
        obtain ⟨b, t, hbt, hb⟩ := frag_head x hxc fx hfx (headOk_ne x xs hc.1)
        have hne : fx ≠ [] := by rw [hbt]; simp
        rw [joinListFrom_nil_cons fx fs' hne]
        obtain ⟨t', ht'⟩ := dotJoin_head b t fs'
        have htxt : (cLBr :: (dotJoin (fx :: fs') ++ [cRBr])) ++ rest
            = cLBr :: b :: (t' ++ cRBr :: rest) := by
          rw [hbt, ht']; simp
        rw [htxt, unserValue_list n b _ hb]
        have hit := items_ok (x :: xs) (by simp) hc.2 (fx :: fs') hfs n rest
          (by simp [sz] at hf; omega)
        rw [hbt, ht'] at hit
        simp only [List.cons_append] at hit
        rw [hit]
      · simp at hfs'
    · simp at hs
  | .dict [], _, hs, hf =>
    obtain ⟨n, rfl⟩ : ∃ n, fuel = n + 1 := ⟨fuel - 1, by simp [sz] at hf; omega⟩
    simp [serValue, serPairs, sortPairs, joinDictFrom] at hs; subst hs
    exact unserValue_emptyDict n rest
  | .dict (kv :: kvs), hc, hs, hf =>
    obtain ⟨n, rfl⟩ : ∃ n, fuel = n + 1 := ⟨fuel - 1, by simp [sz] at hf; omega⟩
    simp only [canon, Bool.and_eq_true] at hc
    simp only [serValue] at hs
    split at hs
    · rename_i ps hps
      simp only [Option.some.injEq] at hs; subst hs
      have hsorted : keysSorted ps = true :=
        keysSorted_map _ _ (serPairs_keys _ _ hps) hc.1
      rw [sortPairs_sorted ps hsorted, joinDictFrom_nil]
      have hps' := hps
      obtain ⟨k, v⟩ := kv
      simp only [serPairs] at hps'
      split at hps'
      · rename_i fv ps' hfv hpr
        simp only [Option.some.injEq] at hps'; subst hps'
        obtain ⟨b, t, hbt, hb, _⟩ := serString_head k fv
        have hbt' : entry (k, fv) = b :: t := by simpa [entry] using hbt
        obtain ⟨t', ht'⟩ := dotJoin_head b t (ps'.map entry)
        have htxt : (cLBc :: (dotJoin (((k, fv) :: ps').map entry) ++ [cRBc])) ++ rest
            = cLBc :: b :: (t' ++ cRBc :: rest) := by
          simp only [List.map_cons]
          rw [hbt', ht']; simp
        rw [htxt, unserValue_dict n b _ hb]
        have hit := entries_ok ((k, v) :: kvs) (by simp) hc.2 ((k, fv) :: ps') hps n rest
          (by simp [sz] at hf; omega)
        simp only [List.map_cons] at hit
        rw [hbt', ht'] at hit
        simp only [List.cons_append] at hit
        rw [hit]
      · simp at hps'
    · simp at hs
theorem items_ok (l : List JV) (hne : l ≠ []) (hc : canonList l = true) (fs : List Bytes)
    (hs : serFrags l = some fs) (fuel : Nat) (rest : Bytes) (hf : szList l ≤ fuel) :
    unserItems fuel (dotJoin fs ++ cRBr :: rest) = some (l, rest) := by
  match l, hne, hc, hs, hf with
  | [], hne, _, _, _ => exact absurd rfl hne
  | x :: xs, _, hc, hs, hf =>
    obtain ⟨n, rfl⟩ : ∃ n, fuel = n + 1 := ⟨fuel - 1, by simp [szList] at hf; omega⟩
    simp only [canonList, Bool.and_eq_true] at hc
    simp only [serFrags] at hs
    split at hs
    · rename_i fx fs' hfx hfr
      simp only [Option.some.injEq] at hs; subst hs
      match xs, hc, hfr, hf with
      | [], _, hfr, hf =>
        simp [serFrags] at hfr; subst hfr
        simp only [dotJoin, unserItems]
        rw [value_ok x hc.1 fx hfx n (cRBr :: rest) (by simp [szList] at hf; omega) (term_rbr rest)]
        simp [cRBr, cDot]
      | y :: ys, hc, hfr, hf =>
        have hfr' := hfr
        simp only [serFrags] at hfr'
        split at hfr'
        · rename_i fy fs'' _ _
          simp only [Option.some.injEq] at hfr'; subst hfr'
          simp only [dotJoin, unserItems, List.append_assoc, List.cons_append]
          rw [value_ok x hc.1 fx hfx n _ (by simp [szList] at hf; omega) (term_dot _)]
          have hit := items_ok (y :: ys) (by simp) hc.2 (fy :: fs'') hfr n rest
            (by simp [szList] at hf ⊢; omega)
          simp only [beq_self_eq_true, if_true]
          rw [hit]
        · simp at hfr'
    · simp at hs
theorem entries_ok (l : List (Bytes × JV)) (hne : l ≠ []) (hc : canonDict l = true)
    (ps : List (Bytes × Bytes)) (hs : serPairs l = some ps) (fuel : Nat) (rest : Bytes)
    (hf : szDict l ≤ fuel) :
    unserEntries fuel (dotJoin (ps.map entry) ++ cRBc :: rest) = some (l, rest) := by
  match l, hne, hc, hs, hf with
  | [], hne, _, _, _ => exact absurd rfl hne
  | (k, v) :: kvs, _, hc, hs, hf =>
    obtain ⟨n, rfl⟩ : ∃ n, fuel = n + 1 := ⟨fuel - 1, by simp [szDict] at hf; omega⟩
    simp only [canonDict, Bool.and_eq_true] at hc
    simp only [serPairs] at hs
    split at hs
    · rename_i fv ps' hfv hpr
      simp only [Option.some.injEq] at hs; subst hs
      match kvs, hc, hpr, hf with
      | [], _, hpr, hf =>
        simp [serPairs] at hpr; subst hpr
        simp only [List.map_cons, List.map_nil, dotJoin, entry, unserEntries, List.append_assoc,
          List.cons_append]
        rw [unserString_ser k _ (term_dot _)]
        simp only [beq_self_eq_true, if_true]
        rw [value_ok v hc.1 fv hfv n (cRBc :: rest) (by simp [szDict] at hf; omega) (term_rbc rest)]
        simp [cRBc, cDot]
      | kv2 :: kvs', hc, hpr, hf =>
        have hpr' := hpr
        obtain ⟨k2, v2⟩ := kv2
        simp only [serPairs] at hpr'
        split at hpr'
        · rename_i f2 ps'' _ _
          simp only [Option.some.injEq] at hpr'; subst hpr'
          have hit := entries_ok ((k2, v2) :: kvs') (by simp) hc.2 ((k2, f2) :: ps'') hpr n rest
            (by simp [szDict] at hf ⊢; omega)
          simp only [List.map_cons] at hit
          simp only [List.map_cons, dotJoin, unserEntries, List.append_assoc, List.cons_append]
          rw [show entry (k, fv) = serString k ++ cDot :: fv from rfl]
          simp only [List.append_assoc, List.cons_append]
          rw [unserString_ser k _ (term_dot _)]
          simp only [beq_self_eq_true, if_true]
          rw [value_ok v hc.1 fv hfv n _ (by simp [szDict] at hf; omega) (term_dot _)]
          simp only [beq_self_eq_true, if_true]
          rw [hit]
        · simp at hpr'
    · simp at hs
end

/-! ### fuel bound: `sz v ≤ 2 * length + 1` -/

theorem dotJoin_length_cons (f : Bytes) (g : Bytes) (r : List Bytes) :
    (dotJoin (f :: g :: r)).length = f.length + 1 + (dotJoin (g :: r)).length := by
  simp [dotJoin]; omega

mutual
theorem sz_bound (v : JV) (hc : canon v = true) (f : Bytes) (hs : serValue v = some f) :
    sz v ≤ 2 * f.length + 1 := by
  match v, hc, hs with
  | .null, _, _ => simp [sz]
  | .bool _, hc, _ => simp [canon] at hc
  | .num _, hc, _ => simp [canon] at hc
  | .str s, _, _ => simp [sz]
  | .list [], _, _ => simp [sz, szList]
  | .list (x :: xs), hc, hs =>
    simp only [canon, Bool.and_eq_true] at hc
    simp only [serValue] at hs
    split at hs
    · rename_i fs hfs
      simp only [Option.some.injEq] at hs; subst hs
      have hfs' := hfs
      simp only [serFrags] at hfs'
      split at hfs'
      · rename_i fx fs' hfx hfr
        simp only [Option.some.injEq] at hfs'; subst hfs'
        have hxc : canon x = true := by
          have := hc.2; simp only [canonList, Bool.and_eq_true] at this; exact this.1
        obtain ⟨b, t, hbt, hb⟩ := frag_head x hxc fx hfx (headOk_ne x xs hc.1)
        have hne : fx ≠ [] := by rw [hbt]; simp
        rw [joinListFrom_nil_cons fx fs' hne]
        have := szList_bound (x :: xs) (by simp) hc.2 (fx :: fs') hfs
        simp only [sz, List.length_cons, List.length_append, List.length_nil]
        omega
      · simp at hfs'
    · simp at hs
  | .dict [], _, _ => simp [sz, szDict]
  | .dict (kv :: kvs), hc, hs =>
    simp only [canon, Bool.and_eq_true] at hc
    simp only [serValue] at hs
    split at hs
    · rename_i ps hps
      simp only [Option.some.injEq] at hs; subst hs
      have hsorted : keysSorted ps = true :=
        keysSorted_map _ _ (serPairs_keys _ _ hps) hc.1
      rw [sortPairs_sorted ps hsorted, joinDictFrom_nil]
      have := szDict_bound (kv :: kvs) (by simp) hc.2 ps hps
      simp only [sz, List.length_cons, List.length_append, List.length_nil]
      omega
    · simp at hs
theorem szList_bound (l : List JV) (hne : l ≠ []) (hc : canonList l = true) (fs : List Bytes)
    (hs : serFrags l = some fs) : szList l ≤ 2 * (dotJoin fs).length + 2 := by
  match l, hne, hc, hs with
  | [], hne, _, _ => exact absurd rfl hne
  | x :: xs, _, hc, hs =>
    simp only [canonList, Bool.and_eq_true] at hc
    simp only [serFrags] at hs
    split at hs
    · rename_i fx fs' hfx hfr
      simp only [Option.some.injEq] at hs; subst hs
      have hx := sz_bound x hc.1 fx hfx
      match xs, hc, hfr with
      | [], _, hfr =>
        simp [serFrags] at hfr; subst hfr
        simp only [szList, dotJoin]; omega
      | y :: ys, hc, hfr =>
        have hfr' := hfr
        simp only [serFrags] at hfr'
        split at hfr'
        · rename_i fy fs'' _ _
          simp only [Option.some.injEq] at hfr'; subst hfr'
          have := szList_bound (y :: ys) (by simp) hc.2 (fy :: fs'') hfr
          rw [dotJoin_length_cons]
          simp only [szList] at this ⊢; omega
        · simp at hfr'
    · simp at hs
theorem szDict_bound (l : List (Bytes × JV)) (hne : l ≠ []) (hc : canonDict l = true)
    (ps : List (Bytes × Bytes)) (hs : serPairs l = some ps) :
    szDict l ≤ 2 * (dotJoin (ps.map entry)).length + 2 := by
  match l, hne, hc, hs with
  | [], hne, _, _ => exact absurd rfl hne
  | (k, v) :: kvs, _, hc, hs =>
    simp only [canonDict, Bool.and_eq_true] at hc
    simp only [serPairs] at hs
    split at hs
    · rename_i fv ps' hfv hpr
      simp only [Option.some.injEq] at hs; subst hs
      have hx := sz_bound v hc.1 fv hfv
      have hel : (entry (k, fv)).length = (serString k).length + 1 + fv.length := by
        simp [entry]; omega
      match kvs, hc, hpr with
      | [], _, hpr =>
        simp [serPairs] at hpr; subst hpr
        simp only [szDict, List.map_cons, List.map_nil, dotJoin]; omega
      | kv2 :: kvs', hc, hpr =>
        have hpr' := hpr
        obtain ⟨k2, v2⟩ := kv2
        simp only [serPairs] at hpr'
        split at hpr'
        · rename_i f2 ps'' _ _
          simp only [Option.some.injEq] at hpr'; subst hpr'
          have := szDict_bound ((k2, v2) :: kvs') (by simp) hc.2 ((k2, f2) :: ps'') hpr
          simp only [List.map_cons] at this ⊢
          rw [dotJoin_length_cons]
          simp only [szDict] at this ⊢; omega
        · simp at hpr'
    · simp at hs
end

theorem unser_ser (v : JV) (hc : canon v = true) (f : Bytes) (hs : serValue v = some f) :
    unser f = some v := by
  have h := value_ok v hc f hs (2 * f.length + 2) [] (by have := sz_bound v hc f hs; omega)
    (Or.inl rfl)
  simp only [List.append_nil] at h
  simp [unser, h]

/-! ### collisions -/

theorem digit_not_special (d : Nat) (h : d < 10) : isSpecial (UInt8.ofNat (48 + d)) = false := by
  have : ∀ d : Fin 10, isSpecial (UInt8.ofNat (48 + d.val)) = false := by decide
  exact this ⟨d, h⟩

theorem serString_plain (s : Bytes) (h : ∀ b ∈ s, isSpecial b = false) : serString s = s := by
  induction s with
  | nil => rfl
  | cons b s ih =>
    have hb := h b (by simp)
    simp only [serString, hb, Bool.false_eq_true, if_false]
    rw [ih (fun c hc => h c (by simp [hc]))]

theorem natDecAux_plain (fuel n : Nat) (acc : Bytes) (h : ∀ b ∈ acc, isSpecial b = false) :
    ∀ b ∈ natDecAux fuel n acc, isSpecial b = false := by
  induction fuel generalizing n acc with
  | zero => simpa [natDecAux] using h
  | succ fuel ih =>
    have hacc : ∀ b ∈ UInt8.ofNat (48 + n % 10) :: acc, isSpecial b = false := by
      intro b hb
      rcases List.mem_cons.mp hb with hb | hb
      · subst hb; exact digit_not_special _ (Nat.mod_lt _ (by omega))
      · exact h b hb
    simp only [natDecAux]
    split
    · exact hacc
    · exact ih _ _ hacc

theorem intDec_plain (n : Int) : ∀ b ∈ intDec n, isSpecial b = false := by
  intro b hb
  simp only [intDec] at hb
  split at hb
  · rcases List.mem_cons.mp hb with hb | hb
    · subst hb; decide
    · exact natDecAux_plain _ _ [] (by simp) b hb
  · exact natDecAux_plain _ _ [] (by simp) b hb

/-! ### round trip through the stored form -/

theorem decodeTx_head (b : Bytes) (d : TxData) (h : decodeTx b = some d) :
    ∃ c r, b = c :: r ∧ c ≠ cLBc := by
  cases b with
  | nil => simp [decodeTx, rlpReadList] at h
  | cons c r =>
    refine ⟨c, r, rfl, ?_⟩
    intro hc
    subst hc
    simp [decodeTx, rlpReadList, cLBc] at h

theorem binary_roundtrip (e : Env) (js0 : Bytes) (tx : TxV3)
    (h : newTransactionFromJSON e js0 false = some tx)
    (hbrace : ∀ js, e.compact js0 = some js → ∃ r, js = cLBc :: r)
    (hcodec : ∀ b, encodeTx tx.d = some b → decodeTx b = some tx.d)
    (hver : tx.d.version = 3)
    (b : Bytes) (hb : txBytes tx = some b) :
    ∃ tx', reparse e tx = some tx' ∧ tx'.d = tx.d ∧ txID e tx' = txID e tx ∧
      txBytes tx' = some b ∧ reparse e tx' = some tx' := by
  unfold newTransactionFromJSON at h
  simp only [Bool.false_eq_true, if_false] at h
  split at h
  · simp at h
  · rename_i js hjs
    obtain ⟨r, hr⟩ := hbrace js hjs
    split at h
    · rename_i hchk
      unfold parseV3JSON at h
      split at h
      · simp at h
      · rename_i d hd
        simp only [Bool.false_eq_true, if_false] at h
        split at h
        · simp at h
        · rename_i id hid
          split at h
          · -- struct hash agrees: binary form
            rename_i heq
            simp only [Option.some.injEq] at h
            subst h
            simp only [txBytes] at hb
            have hdec := hcodec b hb
            obtain ⟨c, r', hcr, hc⟩ := decodeTx_head b d hdec
            have hnew : newTransaction e b
                = some { d := d, txHash := none, bytes := some b, raw := false } := by
              subst hcr
              simp only [newTransaction, hc, if_false, parseV3Binary, hdec]
              simp only at hver
              simp [hver]
            refine ⟨{ d := d, txHash := none, bytes := some b, raw := false }, ?_, rfl, ?_, ?_, ?_⟩
            · simp only [reparse, txBytes, hb]; exact hnew
            · simp [txID, calcHash]
            · simp [txBytes]
            · simp only [reparse, txBytes]; exact hnew
          · -- raw fallback: the JSON text is the stored form
            simp only [Option.some.injEq] at h
            subst h
            simp only [txBytes, Option.some.injEq] at hb
            subst hb
            have hnew : newTransaction e js
                = some { d := d, txHash := none, bytes := some js, raw := true } := by
              rw [hr]
              simp only [newTransaction, if_true, newTransactionFromJSON]
              rw [← hr]
              simp [hchk, parseV3JSON, hd]
            refine ⟨{ d := d, txHash := none, bytes := some js, raw := true }, ?_, rfl, ?_, ?_, ?_⟩
            · simp only [reparse, txBytes]; exact hnew
            · simp only [txID, calcHash, mapHash, if_true, Option.getD_some]
              rw [hid]; rfl
            · simp [txBytes]
            · simp only [reparse, txBytes]; exact hnew
    · simp at h

theorem reparseN_fix (e : Env) (tx' : TxV3) (h2 : reparse e tx' = some tx') (n : Nat) :
    reparseN e n tx' = some tx' := by
  induction n with
  | zero => rfl
  | succ n ih => simp [reparseN, h2, ih]

/-! ### natBytes / sizeBytes -/

theorem beNat_natBytesAux (fuel v : Nat) (acc : Bytes) (h : v < 256 ^ fuel) :
    beNat (natBytesAux fuel v acc) = v * 256 ^ acc.length + beNat acc := by
  induction fuel generalizing v acc with
  | zero =>
    have : v = 0 := by simpa using h
    subst this; simp [natBytesAux]
  | succ fuel ih =>
    simp only [natBytesAux]
    split
    · rename_i hv; subst hv; simp
    · have hlt : v / 256 < 256 ^ fuel := by
        rw [Nat.div_lt_iff_lt_mul (by decide)]
        rw [Nat.pow_succ] at h; exact h
      rw [ih _ _ hlt, beNat_cons]
      have hb : (byteOfNat v).toNat = v % 256 := by
        simp [byteOfNat, UInt8.toNat_ofNat']
      rw [hb]
      simp only [List.length_cons, Nat.pow_succ]
      have := Nat.div_add_mod v 256
      generalize 256 ^ acc.length = P at *
      calc v / 256 * (P * 256) + (v % 256 * P + beNat acc)
          = (256 * (v / 256) + v % 256) * P + beNat acc := by
            rw [Nat.add_mul]; simp [Nat.mul_comm, Nat.mul_left_comm, Nat.add_assoc]
        _ = v * P + beNat acc := by rw [this]

theorem lt_pow_succ_self (v : Nat) : v < 256 ^ (v + 1) := by
  have : v < 2 ^ v := Nat.lt_two_pow_self
  calc v < 2 ^ v := this
    _ ≤ 256 ^ v := Nat.pow_le_pow_left (by decide) v
    _ ≤ 256 ^ (v + 1) := Nat.pow_le_pow_right (by decide) (by omega)

theorem beNat_natBytes (v : Nat) : beNat (natBytes v) = v := by
  have := beNat_natBytesAux (v + 1) v [] (lt_pow_succ_self v)
  simpa [natBytes, beNat] using this

theorem natBytesAux_length (fuel v k : Nat) (acc : Bytes) (h : v < 256 ^ k) :
    (natBytesAux fuel v acc).length ≤ acc.length + k := by
  induction fuel generalizing v k acc with
  | zero => simp [natBytesAux]
  | succ fuel ih =>
    simp only [natBytesAux]
    split
    · omega
    · rename_i hv
      cases k with
      | zero => simp at h; omega
      | succ k =>
        have hlt : v / 256 < 256 ^ k := by
          rw [Nat.div_lt_iff_lt_mul (by decide)]
          rw [Nat.pow_succ] at h; exact h
        have := ih (v / 256) k (byteOfNat v :: acc) hlt
        simp only [List.length_cons] at this
        omega

theorem natBytesAux_length_pos (fuel v : Nat) (acc : Bytes) (hv : v ≠ 0) (hf : fuel ≠ 0) :
    acc.length < (natBytesAux fuel v acc).length := by
  cases fuel with
  | zero => exact absurd rfl hf
  | succ fuel =>
    simp only [natBytesAux, hv, if_false]
    have : ∀ f w (a : Bytes), a.length ≤ (natBytesAux f w a).length := by
      intro f
      induction f with
      | zero => intro w a; simp [natBytesAux]
      | succ f ih =>
        intro w a
        simp only [natBytesAux]
        split
        · omega
        · have := ih (w / 256) (byteOfNat w :: a)
          simp only [List.length_cons] at this; omega
    have := this fuel (v / 256) (byteOfNat v :: acc)
    simp only [List.length_cons] at this; omega

theorem beNat_sizeBytes (n : Nat) : beNat (sizeBytes n) = n := by
  simp only [sizeBytes]
  split
  · rename_i h; subst h; rfl
  · exact beNat_natBytes n

theorem sizeBytes_length (n : Nat) (h : n < 2 ^ 64) :
    1 ≤ (sizeBytes n).length ∧ (sizeBytes n).length ≤ 8 := by
  simp only [sizeBytes]
  split
  · simp
  · rename_i hn
    constructor
    · have := natBytesAux_length_pos (n + 1) n [] hn (by omega)
      simp only [natBytes]; simp at this; omega
    · have := natBytesAux_length (n + 1) n 8 [] (by
        have : (256 : Nat) ^ 8 = 2 ^ 64 := by decide
        omega)
      simpa [natBytes] using this

theorem u8 (n : Nat) (h : n < 256) : (UInt8.ofNat n).toNat = n := by
  simp [UInt8.toNat_ofNat']; omega

theorem rlpReadItem_null (rest : Bytes) : rlpReadItem (rlpNull ++ rest) = some (none, rest) := by
  simp [rlpNull, rlpReadItem]

theorem rlpReadItem_bytes (b rest : Bytes) (h : b.length < 2 ^ 64) :
    rlpReadItem (rlpBytes b ++ rest) = some (some b, rest) := by
  match b, h with
  | [], _ => simp [rlpBytes, rlpReadItem]
  | [x], _ =>
    simp only [rlpBytes]
    split
    · rename_i hx
      have : x.toNat < 0x80 := hx
      simp [rlpReadItem, this]
    · rename_i hx
      have : ¬ x.toNat < 0x80 := hx
      simp [rlpReadItem]
  | x :: y :: t, h =>
    simp only [rlpBytes]
    split
    · rename_i hl
      have hl' : (x :: y :: t).length ≤ 55 := hl
      have htag : (UInt8.ofNat (0x80 + (x :: y :: t).length)).toNat = 0x80 + (x :: y :: t).length :=
        u8 _ (by omega)
      simp only [List.cons_append, rlpReadItem, htag]
      have h1 : ¬ (0x80 + (x :: y :: t).length < 0x80) := by omega
      have h2 : 0x80 + (x :: y :: t).length ≤ 0xb7 := by omega
      have h3 : 0x80 + (x :: y :: t).length - 0x80 = (x :: y :: t).length := by omega
      simp only [h1, h2, h3, if_true, if_false]
      have h4 : ¬ ((x :: y :: t) ++ rest).length < (x :: y :: t).length := by simp
      simp only [List.cons_append] at h4
      simp only [h4, if_false]
      simp
    · rename_i hl
      have hl' : ¬ (x :: y :: t).length ≤ 55 := hl
      obtain ⟨k1, k8⟩ := sizeBytes_length _ h
      generalize hb : (x :: y :: t) = b at *
      have htag : (UInt8.ofNat (0xb7 + (sizeBytes b.length).length)).toNat
          = 0xb7 + (sizeBytes b.length).length := u8 _ (by omega)
      simp only [List.cons_append, rlpReadItem, htag]
      have h1 : ¬ (0xb7 + (sizeBytes b.length).length < 0x80) := by omega
      have h2 : ¬ (0xb7 + (sizeBytes b.length).length ≤ 0xb7) := by omega
      have h3 : 0xb7 + (sizeBytes b.length).length < 0xc0 := by omega
      have h4 : 0xb7 + (sizeBytes b.length).length - 0xb7 = (sizeBytes b.length).length := by omega
      simp only [h1, h2, h3, h4, if_true, if_false, List.append_assoc]
      have h5 : ¬ (sizeBytes b.length ++ (b ++ rest)).length < (sizeBytes b.length).length := by
        simp
      simp only [h5, if_false, List.take_left', List.drop_left', beNat_sizeBytes]
      simp

theorem rlpReadItem_opt (o : Option Bytes) (rest : Bytes)
    (h : ∀ b, o = some b → b.length < 2 ^ 64) :
    rlpReadItem (rlpOpt o ++ rest) = some (o, rest) := by
  cases o with
  | none => exact rlpReadItem_null rest
  | some b => exact rlpReadItem_bytes b rest (h b rfl)

theorem rlpReadItems_flatMap (items : List (Option Bytes))
    (h : ∀ o ∈ items, ∀ b, o = some b → b.length < 2 ^ 64) :
    rlpReadItems items.length (items.flatMap rlpOpt) = some items := by
  induction items with
  | nil => simp [rlpReadItems]
  | cons o items ih =>
    simp only [List.flatMap_cons, List.length_cons, rlpReadItems]
    rw [rlpReadItem_opt o _ (h o (by simp))]
    simp only
    rw [ih (fun o' ho' => h o' (by simp [ho']))]

theorem rlpReadList_list (payload : Bytes) (h : payload.length < 2 ^ 64) :
    rlpReadList (rlpList payload) = some (payload, []) := by
  simp only [rlpList]
  split
  · rename_i h0
    have : payload = [] := List.eq_nil_of_length_eq_zero h0
    subst this
    simp [rlpReadList]
  · rename_i h0
    split
    · rename_i hl
      have htag : (UInt8.ofNat (0xc0 + payload.length)).toNat = 0xc0 + payload.length :=
        u8 _ (by omega)
      simp only [rlpReadList, htag]
      have h1 : ¬ (0xc0 + payload.length < 0xc0) := by omega
      have h2 : 0xc0 + payload.length ≤ 0xf7 := by omega
      have h3 : 0xc0 + payload.length - 0xc0 = payload.length := by omega
      simp [h1, h2, h3]
    · rename_i hl
      obtain ⟨k1, k8⟩ := sizeBytes_length _ h
      have htag : (UInt8.ofNat (0xf7 + (sizeBytes payload.length).length)).toNat
          = 0xf7 + (sizeBytes payload.length).length := u8 _ (by omega)
      simp only [rlpReadList, htag]
      have h1 : ¬ (0xf7 + (sizeBytes payload.length).length < 0xc0) := by omega
      have h2 : ¬ (0xf7 + (sizeBytes payload.length).length ≤ 0xf7) := by omega
      have h4 : 0xf7 + (sizeBytes payload.length).length - 0xf7
          = (sizeBytes payload.length).length := by omega
      simp only [h1, h2, h4, if_false]
      have h5 : ¬ (sizeBytes payload.length ++ payload).length < (sizeBytes payload.length).length := by
        simp
      simp only [h5, if_false, List.take_left', List.drop_left', beNat_sizeBytes]
      simp
      intro _ hp; subst hp; exact h0 rfl


/-! ### the transaction codec round trip -/

/-- well-formedness of the fields as far as the byte codec is concerned.  The integer clauses
    are instances of property C24 (integer byte encodings are invertible); they are hypotheses
    here. -/
structure WFTx (d : TxData) : Prop where
  ver : d.version = 3
  from21 : addrOfBytes d.from_ = some d.from_
  to21 : addrOfBytes d.to = some d.to
  sig : d.signature.length = 0 ∨ d.signature.length = 65
  value : ∀ v, d.value = some v → bigIntSetBytes (bigIntToBytes v) = v
  step : bigIntSetBytes (bigIntToBytes d.stepLimit) = d.stepLimit
  ts : safeBytesToInt64 (int64ToBytes d.timestamp) = some d.timestamp
  nid : ∀ v, d.nid = some v → safeBytesToInt64 (int64ToBytes v) = some v
  nonce : ∀ v, d.nonce = some v → bigIntSetBytes (bigIntToBytes v) = v
  small : ∀ o ∈ txItems d, ∀ b, o = some b → b.length < 2 ^ 64
  smallPayload : ((txItems d).flatMap rlpOpt).length < 2 ^ 64

theorem ver3 : int64ToBytes ((3 : Nat) : Int) = [3] := by decide
theorem ver3' : safeBytesToUint64 [3] = some 3 := by decide

theorem codec_roundtrip (d : TxData) (wf : WFTx d) (b : Bytes) (h : encodeTx d = some b) :
    decodeTx b = some d := by
  unfold encodeTx at h
  split at h
  · simp at h
  · simp only [Option.some.injEq] at h
    subst h
    unfold decodeTx
    rw [rlpReadList_list _ wf.smallPayload]
    simp only
    have hit := rlpReadItems_flatMap (txItems d) wf.small
    have hlen : (txItems d).length = 11 := rfl
    rw [hlen] at hit
    rw [hit]
    obtain ⟨version, from_, to, value, stepLimit, timestamp, nid, nonce, signature, dataType, data⟩ := d
    have hv := wf.ver
    simp only at hv
    subst hv
    simp only [txItems, ver3, ver3']
    have h1 := wf.from21
    have h2 := wf.to21
    have h3 := wf.ts
    simp only at h1 h2 h3
    rw [h1, h2, h3]
    have hsig : ¬ (signature.length ≠ 0 ∧ signature.length ≠ 64 ∧ signature.length ≠ 65) := by
      have := wf.sig; simp only at this; omega
    have hval : Option.map bigIntSetBytes (Option.map bigIntToBytes value) = value := by
      cases value with
      | none => rfl
      | some v => have := wf.value v rfl; simp [this]
    have hnon : Option.map bigIntSetBytes (Option.map bigIntToBytes nonce) = nonce := by
      cases nonce with
      | none => rfl
      | some v => have := wf.nonce v rfl; simp [this]
    have hstep := wf.step
    simp only at hstep
    cases nid with
    | none =>
      simp [hval, hnon, hstep]
      intro hne h64
      have : signature.length ≠ 0 := by
        intro h0; exact hne (List.eq_nil_of_length_eq_zero h0)
      omega
    | some v =>
      have hnid := wf.nid v rfl
      simp [hval, hnon, hstep, hnid]
      intro hne h64
      have : signature.length ≠ 0 := by
        intro h0; exact hne (List.eq_nil_of_length_eq_zero h0)
      omega

end Goloop.C12.Proofs
