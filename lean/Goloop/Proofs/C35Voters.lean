/-
  Proofs/C35Voters: the aggregated conditions of `InputWF` (running Voted totals never negative,
  Voted ≥ what the voters hold) derived from per-voter facts: well-formed Delegating/Bonding
  records, duplicate-free vote lists, and the success of `VoteEvents.UpdateVoting`
  (`Delegating.ApplyVotes` / `Bonding.ApplyVotes` never report a negative value).
-/
import Goloop.Proofs.C35Input
set_option linter.unusedSimpArgs false
set_option linter.unusedVariables false
namespace Goloop.C35.Proofs
open Goloop.C35

/-! ### `Delegating.ApplyVotes` on duplicate-free lists -/

/-- one entry per target, no negative amount -/
def VotesOk (l : Votes) : Prop := (l.map (·.1)).Nodup ∧ ∀ x ∈ l, 0 ≤ x.2

theorem votesTo_not_mem (k : Nat) : ∀ (l : Votes), k ∉ l.map (·.1) → votesTo k l = 0 := by
  intro l
  induction l with
  | nil => intro _; rfl
  | cons x l ih =>
    intro h
    simp only [List.map_cons, List.mem_cons, not_or] at h
    have hb : (x.1 == k) = false := by
      have : ¬ x.1 = k := fun e => h.1 e.symm
      simpa using this
    rw [votesTo_cons, ih h.2, hb]; simp

theorem votesTo_of_mem_nodup (k : Nat) (a : Int) : ∀ (l : Votes), (l.map (·.1)).Nodup → (k, a) ∈ l → votesTo k l = a := by
  intro l
  induction l with
  | nil => intro _ h; cases h
  | cons x l ih =>
    intro hnd hm
    simp only [List.map_cons, List.nodup_cons] at hnd
    rw [votesTo_cons]
    rcases List.mem_cons.mp hm with h | h
    · subst h
      simp only [beq_self_eq_true, if_true]
      rw [votesTo_not_mem k l hnd.1]; omega
    · have hne : ¬ x.1 = k := by
        intro e
        apply hnd.1
        rw [e, List.mem_map]
        exact ⟨(k, a), h, rfl⟩
      have hb : (x.1 == k) = false := by simpa using hne
      rw [hb, ih hnd.2 h]; simp

theorem votesTo_nonneg (k : Nat) : ∀ (l : Votes), (∀ x ∈ l, 0 ≤ x.2) → 0 ≤ votesTo k l := by
  intro l
  induction l with
  | nil => intro _; exact Int.le_refl 0
  | cons x l ih =>
    intro h
    rw [votesTo_cons]
    have h1 := h x (by simp)
    have h2 := ih (fun y hy => h y (by simp [hy]))
    split <;> omega

/-- the lookup `Delegating.ApplyVotes` does (last entry with that address) on a duplicate-free list -/
theorem find_reverse_spec (cur : Votes) (hnd : (cur.map (·.1)).Nodup) (k : Nat) :
    match cur.reverse.find? (fun e => e.1 == k) with
    | some dg => dg.1 = k ∧ dg.2 = votesTo k cur
    | none => votesTo k cur = 0 := by
  cases h : cur.reverse.find? (fun e => e.1 == k) with
  | some dg =>
    have h1 : dg.1 = k := by simpa using List.find?_some h
    have h2 : dg ∈ cur := by simpa using List.mem_of_find?_eq_some h
    refine ⟨h1, ?_⟩
    have : (k, dg.2) ∈ cur := by rw [← h1]; exact h2
    exact (votesTo_of_mem_nodup k dg.2 cur hnd this).symm
  | none =>
    apply votesTo_not_mem
    rw [List.find?_eq_none] at h
    intro hm
    rw [List.mem_map] at hm
    obtain ⟨x, hx, hk⟩ := hm
    exact h x (by simpa using hx) (by simpa using hk)

theorem applyVotesGo_spec (cur : Votes) (hnd : (cur.map (·.1)).Nodup) : ∀ (ds acc res : Votes),
    applyVotesGo cur ds acc = some res →
    (∀ k, votesTo k res = votesTo k acc +
      sumInt ((ds.filter (fun d => d.1 == k)).map (fun d => votesTo k cur + d.2))) ∧
    (∃ s, s.Sublist (ds.map (·.1)) ∧ res.map (·.1) = acc.map (·.1) ++ s) ∧
    (∀ x ∈ res, x ∈ acc ∨ 0 < x.2) := by
  intro ds
  induction ds with
  | nil =>
    intro acc res h
    simp only [applyVotesGo, Option.some.injEq] at h
    subst h
    refine ⟨fun k => by simp [sumInt], ⟨[], List.Sublist.refl _, by simp⟩, fun x hx => Or.inl hx⟩
  | cons d rest ih =>
    intro acc res h
    have hspec := find_reverse_spec cur hnd d.1
    -- the contribution of `d` to the sum for `k`
    have hsum : ∀ k, sumInt (((d :: rest).filter (fun d => d.1 == k)).map (fun d => votesTo k cur + d.2)) =
        (if d.1 == k then votesTo k cur + d.2 else 0) +
        sumInt ((rest.filter (fun d => d.1 == k)).map (fun d => votesTo k cur + d.2)) := by
      intro k
      by_cases hk : (d.1 == k) = true
      · simp [List.filter_cons, hk, sumInt_cons]
      · have : (d.1 == k) = false := by simpa using hk
        simp [List.filter_cons, this]
    -- appending one entry
    have happ : ∀ (e : Nat × Int) (res : Votes), applyVotesGo cur rest (acc ++ [e]) = some res → e.1 = d.1 → 0 < e.2 →
        (∀ k, (if e.1 == k then e.2 else 0) = (if d.1 == k then votesTo k cur + d.2 else 0)) →
        (∀ k, votesTo k res = votesTo k acc +
          sumInt (((d :: rest).filter (fun d => d.1 == k)).map (fun d => votesTo k cur + d.2))) ∧
        (∃ s, s.Sublist ((d :: rest).map (·.1)) ∧ res.map (·.1) = acc.map (·.1) ++ s) ∧
        (∀ x ∈ res, x ∈ acc ∨ 0 < x.2) := by
      intro e res h he hpos hval
      obtain ⟨i1, ⟨s, i2, i3⟩, i4⟩ := ih _ _ h
      refine ⟨?_, ⟨e.1 :: s, ?_, ?_⟩, ?_⟩
      · intro k
        rw [i1 k, hsum k, votesTo_append, votesTo_cons, votesTo_nil, hval k]; omega
      · rw [he]; exact List.Sublist.cons₂ _ i2
      · rw [i3]; simp
      · intro x hx
        rcases i4 x hx with h' | h'
        · rcases List.mem_append.mp h' with h'' | h''
          · exact Or.inl h''
          · simp at h''; subst h''; exact Or.inr hpos
        · exact Or.inr h'
    -- skipping `d`
    have hskip : ∀ (res : Votes), applyVotesGo cur rest acc = some res →
        (∀ k, (if d.1 == k then votesTo k cur + d.2 else 0) = 0) →
        (∀ k, votesTo k res = votesTo k acc +
          sumInt (((d :: rest).filter (fun d => d.1 == k)).map (fun d => votesTo k cur + d.2))) ∧
        (∃ s, s.Sublist ((d :: rest).map (·.1)) ∧ res.map (·.1) = acc.map (·.1) ++ s) ∧
        (∀ x ∈ res, x ∈ acc ∨ 0 < x.2) := by
      intro res h hval
      obtain ⟨i1, ⟨s, i2, i3⟩, i4⟩ := ih _ _ h
      refine ⟨?_, ⟨s, List.Sublist.cons _ i2, i3⟩, i4⟩
      intro k
      rw [i1 k, hsum k, hval k]; omega
    unfold applyVotesGo at h
    cases hf : cur.reverse.find? (fun e => e.1 == d.1) with
    | some dg =>
      rw [hf] at hspec h
      simp only at hspec h
      obtain ⟨hs1, hs2⟩ := hspec
      split at h
      · cases h
      · split at h
        · rename_i _ hz
          apply hskip res h
          intro k
          by_cases hk : (d.1 == k) = true
          · have : d.1 = k := by simpa using hk
            subst this
            simp only [beq_self_eq_true, if_true]; omega
          · simp [hk]
        · rename_i hn hz
          apply happ (dg.1, dg.2 + d.2) res h hs1 (by simp only; omega)
          intro k
          simp only [hs1]
          by_cases hk : (d.1 == k) = true
          · have : d.1 = k := by simpa using hk
            subst this
            simp only [beq_self_eq_true, if_true]; omega
          · simp [hk]
    | none =>
      rw [hf] at hspec h
      simp only at hspec h
      split at h
      · cases h
      · split at h
        · rename_i _ hz
          apply hskip res h
          intro k
          by_cases hk : (d.1 == k) = true
          · have : d.1 = k := by simpa using hk
            subst this
            simp only [beq_self_eq_true, if_true]; omega
          · simp [hk]
        · rename_i hn hz
          apply happ d res h rfl (by omega)
          intro k
          by_cases hk : (d.1 == k) = true
          · have : d.1 = k := by simpa using hk
            subst this
            simp only [beq_self_eq_true, if_true]; omega
          · simp [hk]

theorem filter_key_nodup (k : Nat) : ∀ (l : Votes), (l.map (·.1)).Nodup →
    l.filter (fun d => d.1 == k) = [] ∨ ∃ x, l.filter (fun d => d.1 == k) = [x] ∧ x.1 = k := by
  intro l
  induction l with
  | nil => intro _; exact Or.inl rfl
  | cons x l ih =>
    intro hnd
    simp only [List.map_cons, List.nodup_cons] at hnd
    by_cases hk : x.1 = k
    · right
      refine ⟨x, ?_, hk⟩
      have hb : (x.1 == k) = true := by simpa using hk
      simp only [List.filter_cons, hb, if_true, List.cons.injEq, true_and]
      rw [List.filter_eq_nil_iff]
      intro y hy hyk
      apply hnd.1
      rw [List.mem_map]
      exact ⟨y, hy, by rw [hk]; simpa using hyk⟩
    · have hb : (x.1 == k) = false := by simpa using hk
      simp only [List.filter_cons, hb, Bool.false_eq_true, if_false]
      exact ih hnd.2

/-- `Delegating.ApplyVotes` / `Bonding.ApplyVotes` on well-formed lists: the result is well-formed and
    for every target the new amount is the old one plus the delta -/
theorem applyVotes_spec (cur ds res : Votes) (hc : VotesOk cur) (hds : (ds.map (·.1)).Nodup)
    (h : applyVotes cur ds = some res) :
    VotesOk res ∧ ∀ k, votesTo k res = votesTo k cur + votesTo k ds := by
  unfold applyVotes at h
  obtain ⟨h1, ⟨s, h2, h3⟩, h4⟩ := applyVotesGo_spec cur hc.1 ds _ res h
  have hfilt_sub : (cur.filter (fun e => !(ds.any (fun d => d.1 == e.1)))).Sublist cur := List.filter_sublist
  refine ⟨⟨?_, ?_⟩, ?_⟩
  · rw [h3, List.nodup_append]
    refine ⟨List.Nodup.sublist (List.Sublist.map _ hfilt_sub) hc.1, List.Nodup.sublist h2 hds, ?_⟩
    intro a ha b hb e
    subst e
    rw [List.mem_map] at ha
    obtain ⟨x, hx, rfl⟩ := ha
    rw [List.mem_filter] at hx
    have hb' := h2.subset hb
    rw [List.mem_map] at hb'
    obtain ⟨d, hd, hdx⟩ := hb'
    have : ds.any (fun d => d.1 == x.1) = true := by
      rw [List.any_eq_true]; exact ⟨d, hd, by simpa using hdx⟩
    simp [this] at hx
  · intro x hx
    rcases h4 x hx with h' | h'
    · exact hc.2 x (hfilt_sub.subset h')
    · omega
  · intro k
    rw [h1 k]
    by_cases hk : k ∈ ds.map (·.1)
    · -- the kept part of `cur` has no entry for `k`
      have hacc : votesTo k (cur.filter (fun e => !(ds.any (fun d => d.1 == e.1)))) = 0 := by
        apply votesTo_not_mem
        intro hm
        rw [List.mem_map] at hm
        obtain ⟨x, hx, rfl⟩ := hm
        rw [List.mem_filter] at hx
        rw [List.mem_map] at hk
        obtain ⟨d, hd, hdx⟩ := hk
        have : ds.any (fun d => d.1 == x.1) = true := by
          rw [List.any_eq_true]; exact ⟨d, hd, by simpa using hdx⟩
        simp [this] at hx
      rcases filter_key_nodup k ds hds with hf | ⟨x, hf, hxk⟩
      · exfalso
        rw [List.mem_map] at hk
        obtain ⟨d, hd, hdx⟩ := hk
        have : d ∈ ds.filter (fun d => d.1 == k) := List.mem_filter.mpr ⟨hd, by simpa using hdx⟩
        rw [hf] at this; cases this
      · have hv : votesTo k ds = x.2 := by simp [votesTo, votesFor, hf, sumInt]
        rw [hacc, hf, hv]; simp [sumInt]
    · have hf : ds.filter (fun d => d.1 == k) = [] := by
        rw [List.filter_eq_nil_iff]
        intro d hd hdk
        apply hk
        rw [List.mem_map]
        exact ⟨d, hd, by simpa using hdk⟩
      have hacc : votesTo k (cur.filter (fun e => !(ds.any (fun d => d.1 == e.1)))) = votesTo k cur := by
        simp only [votesTo, votesFor, List.filter_filter]
        congr 2
        apply List.filter_congr
        intro x hx
        by_cases hxk : (x.1 == k) = true
        · have hxe : x.1 = k := by simpa using hxk
          have : ds.any (fun d => d.1 == x.1) = false := by
            rw [List.any_eq_false]
            intro d hd hdx
            apply hk
            rw [List.mem_map]
            exact ⟨d, hd, by rw [← hxe]; simpa using hdx⟩
          simp [hxk, this]
        · simp [hxk]
      rw [hacc, hf, votesTo_not_mem k ds hk]; simp [sumInt]

end Goloop.C35.Proofs

namespace Goloop.C35.Proofs
open Goloop.C35

/-! ### all voters along the event list -/

/-- one step of `VoteEvents.UpdateVoting` (the function folded in `updateVotingOk`) -/
def stepV (st : Option (Votes × Votes)) (e : Bool × Nat × Votes) : Option (Votes × Votes) :=
  match st with
  | none => none
  | some (d, b) =>
    if e.1 then (applyVotes b e.2.2).map (fun b' => (d, b'))
    else (applyVotes d e.2.2).map (fun d' => (d', b))

theorem updateVotingOk_eq (i : Input) (who : Nat) :
    updateVotingOk i who =
      ((eventsOf i.events who).foldl stepV (some (lookupVotes i.delegating who, lookupVotes i.bonding who))).isSome := rfl

theorem foldl_stepV_none : ∀ (l : List (Bool × Nat × Votes)), l.foldl stepV none = none := by
  intro l
  induction l with
  | nil => rfl
  | cons e l ih => simp only [List.foldl_cons, stepV, ih]

/-- `UpdateVoting` succeeds for every voter, starting from the records `st` -/
def Succ (st : Nat → Votes × Votes) (evs : List Event) : Prop :=
  ∀ v, ((eventsOf evs v).foldl stepV (some (st v))).isSome = true

theorem eventsOf_vote (b : Bool) (o f : Nat) (vs : Votes) (rest : List Event) (v : Nat) :
    eventsOf (Event.vote b o f vs :: rest) v =
      if f == v then (b, o, vs) :: eventsOf rest v else eventsOf rest v := by
  by_cases h : (f == v) = true
  · simp only [eventsOf, List.filterMap_cons, h, if_true]
  · have h' : (f == v) = false := by simpa using h
    simp only [eventsOf, List.filterMap_cons, h', Bool.false_eq_true, if_false]

theorem eventsOf_enable (o t s : Nat) (rest : List Event) (v : Nat) :
    eventsOf (Event.enable o t s :: rest) v = eventsOf rest v := by
  simp [eventsOf, List.filterMap_cons]

theorem sum_update (V : List Nat) (hV : V.Nodup) (f : Nat) (hf : f ∈ V) (g g' : Nat → Int) (c : Int)
    (hg : ∀ v, g' v = if f == v then g v + c else g v) : sumInt (V.map g') = sumInt (V.map g) + c := by
  have : g' = fun v => g v + (if f == v then c else 0) := by
    funext v; rw [hg v]; split <;> omega
  rw [this, sumInt_map_add, sumInt_ite_mem_nodup V f c hV hf]

theorem sum_votesTo_nonneg (k : Nat) (V : List Nat) (g : Nat → Votes) (h : ∀ v, VotesOk (g v)) :
    0 ≤ sumInt (V.map (fun v => votesTo k (g v))) :=
  sumInt_map_nonneg V _ (fun v _ => votesTo_nonneg k _ (h v).2)

/-- **the running Voted totals never go negative** when the Voted totals start at or above what the
    voters hold, every vote list is duplicate-free and `UpdateVoting` succeeds for every voter -/
theorem totals_of_voters (k : Nat) (V : List Nat) (hV : V.Nodup) : ∀ (evs : List Event)
    (st : Nat → Votes × Votes) (d b : Int),
    (∀ v, VotesOk (st v).1 ∧ VotesOk (st v).2) →
    (∀ bb o f vs, Event.vote bb o f vs ∈ evs → f ∈ V ∧ (vs.map (·.1)).Nodup) →
    Succ st evs →
    sumInt (V.map (fun v => votesTo k (st v).1)) ≤ d → sumInt (V.map (fun v => votesTo k (st v).2)) ≤ b →
    totalsOk d b (voteEvents k evs) = true := by
  intro evs
  induction evs with
  | nil =>
    intro st d b hok _ _ hd hb
    have n1 := sum_votesTo_nonneg k V (fun v => (st v).1) (fun v => (hok v).1)
    have n2 := sum_votesTo_nonneg k V (fun v => (st v).2) (fun v => (hok v).2)
    simp only [voteEvents, totalsOk, Bool.and_eq_true, decide_eq_true_eq]
    constructor <;> omega
  | cons e rest ih =>
    intro st d b hok hev hsucc hd hb
    have n1 := sum_votesTo_nonneg k V (fun v => (st v).1) (fun v => (hok v).1)
    have n2 := sum_votesTo_nonneg k V (fun v => (st v).2) (fun v => (hok v).2)
    have hev' : ∀ bb o f vs, Event.vote bb o f vs ∈ rest → f ∈ V ∧ (vs.map (·.1)).Nodup :=
      fun bb o f vs hm => hev bb o f vs (List.mem_cons_of_mem _ hm)
    cases e with
    | enable o t s =>
      apply ih st d b hok hev' _ hd hb
      intro v; have := hsucc v; rwa [eventsOf_enable] at this
    | vote bb o f vs =>
      obtain ⟨hfV, hvs⟩ := hev bb o f vs (by simp)
      -- the sender's step succeeds
      have hf := hsucc f
      rw [eventsOf_vote, if_pos (by simp), List.foldl_cons] at hf
      cases hst : stepV (some (st f)) (bb, o, vs) with
      | none => rw [hst, foldl_stepV_none] at hf; cases hf
      | some st' =>
        rw [hst] at hf
        -- the new state
        have hsucc' : Succ (fun v => if f == v then st' else st v) rest := by
          intro v
          by_cases hv : (f == v) = true
          · have : f = v := by simpa using hv
            subst this
            simpa using hf
          · have hv' : (f == v) = false := by simpa using hv
            have := hsucc v
            rw [eventsOf_vote, hv'] at this
            simpa [hv'] using this
        have htail : voteEvents k (Event.vote bb o f vs :: rest) = votesOfEvent k bb (o : Int) vs ++ voteEvents k rest := rfl
        rw [htail]
        cases bb with
        | true =>
          simp only [stepV, if_true] at hst
          cases hb' : applyVotes (st f).2 vs with
          | none => rw [hb'] at hst; cases hst
          | some b' =>
            rw [hb'] at hst
            simp only [Option.map_some, Option.some.injEq] at hst
            subst hst
            obtain ⟨hok', hval⟩ := applyVotes_spec _ _ _ (hok f).2 hvs hb'
            have hok2 : ∀ v, VotesOk ((fun v => if f == v then ((st f).1, b') else st v) v).1 ∧
                VotesOk ((fun v => if f == v then ((st f).1, b') else st v) v).2 := by
              intro v
              by_cases hv : (f == v) = true
              · simp only [hv, if_true]; exact ⟨(hok f).1, hok'⟩
              · simp only [hv, if_false]; exact hok v
            have hsd : sumInt (V.map (fun v => votesTo k ((fun v => if f == v then ((st f).1, b') else st v) v).1)) =
                sumInt (V.map (fun v => votesTo k (st v).1)) := by
              apply sumInt_map_congr
              intro v _
              by_cases hv : (f == v) = true
              · have : f = v := by simpa using hv
                subst this; simp
              · simp [hv]
            have hsb : sumInt (V.map (fun v => votesTo k ((fun v => if f == v then ((st f).1, b') else st v) v).2)) =
                sumInt (V.map (fun v => votesTo k (st v).2)) + votesTo k vs := by
              apply sum_update V hV f hfV
              intro v
              by_cases hv : (f == v) = true
              · have : f = v := by simpa using hv
                subst this; simp [hval k]
              · simp [hv]
            rcases filter_key_nodup k vs hvs with hfl | ⟨x, hfl, hxk⟩
            · have hz : votesTo k vs = 0 := by simp [votesTo, votesFor, hfl, sumInt]
              simp only [votesOfEvent, hfl, List.map_nil, List.nil_append]
              exact ih _ d b hok2 hev' hsucc' (by rw [hsd]; exact hd) (by rw [hsb, hz]; omega)
            · have hz : votesTo k vs = x.2 := by simp [votesTo, votesFor, hfl, sumInt]
              simp only [votesOfEvent, hfl, List.map_cons, List.map_nil, List.cons_append, List.nil_append,
                totalsOk, Bool.and_eq_true, decide_eq_true_eq, if_true]
              refine ⟨⟨by omega, by omega⟩, ?_⟩
              exact ih _ d (b + x.2) hok2 hev' hsucc' (by rw [hsd]; exact hd) (by rw [hsb, hz]; omega)
        | false =>
          simp only [stepV, Bool.false_eq_true, if_false] at hst
          cases hd' : applyVotes (st f).1 vs with
          | none => rw [hd'] at hst; cases hst
          | some d' =>
            rw [hd'] at hst
            simp only [Option.map_some, Option.some.injEq] at hst
            subst hst
            obtain ⟨hok', hval⟩ := applyVotes_spec _ _ _ (hok f).1 hvs hd'
            have hok2 : ∀ v, VotesOk ((fun v => if f == v then (d', (st f).2) else st v) v).1 ∧
                VotesOk ((fun v => if f == v then (d', (st f).2) else st v) v).2 := by
              intro v
              by_cases hv : (f == v) = true
              · simp only [hv, if_true]; exact ⟨hok', (hok f).2⟩
              · simp only [hv, if_false]; exact hok v
            have hsb : sumInt (V.map (fun v => votesTo k ((fun v => if f == v then (d', (st f).2) else st v) v).2)) =
                sumInt (V.map (fun v => votesTo k (st v).2)) := by
              apply sumInt_map_congr
              intro v _
              by_cases hv : (f == v) = true
              · have : f = v := by simpa using hv
                subst this; simp
              · simp [hv]
            have hsd : sumInt (V.map (fun v => votesTo k ((fun v => if f == v then (d', (st f).2) else st v) v).1)) =
                sumInt (V.map (fun v => votesTo k (st v).1)) + votesTo k vs := by
              apply sum_update V hV f hfV
              intro v
              by_cases hv : (f == v) = true
              · have : f = v := by simpa using hv
                subst this; simp [hval k]
              · simp [hv]
            rcases filter_key_nodup k vs hvs with hfl | ⟨x, hfl, hxk⟩
            · have hz : votesTo k vs = 0 := by simp [votesTo, votesFor, hfl, sumInt]
              simp only [votesOfEvent, hfl, List.map_nil, List.nil_append]
              exact ih _ d b hok2 hev' hsucc' (by rw [hsd, hz]; omega) (by rw [hsb]; exact hb)
            · have hz : votesTo k vs = x.2 := by simp [votesTo, votesFor, hfl, sumInt]
              simp only [votesOfEvent, hfl, List.map_cons, List.map_nil, List.cons_append, List.nil_append,
                totalsOk, Bool.and_eq_true, decide_eq_true_eq, Bool.false_eq_true, if_false]
              refine ⟨⟨by omega, by omega⟩, ?_⟩
              exact ih _ (d + x.2) b hok2 hev' hsucc' (by rw [hsd, hz]; omega) (by rw [hsb]; exact hb)

end Goloop.C35.Proofs

namespace Goloop.C35.Proofs
open Goloop.C35

/-! ### well-formed reward database ⇒ `InputWF` -/

/-- every Delegating / Bonding record has one entry per target and no negative amount -/
def recordsOk (m : List (Nat × Votes)) : Prop := ∀ e ∈ m, (e.2.map (·.1)).Nodup ∧ ∀ x ∈ e.2, 0 ≤ x.2

/-- every vote event names each target at most once -/
def eventVotesOk : List Event → Bool
  | [] => true
  | .enable _ _ _ :: rest => eventVotesOk rest
  | .vote _ _ _ vs :: rest => decide ((vs.map (·.1)).Nodup) && eventVotesOk rest

theorem eventVotesOk_mem : ∀ (evs : List Event), eventVotesOk evs = true →
    ∀ b o f vs, Event.vote b o f vs ∈ evs → (vs.map (·.1)).Nodup := by
  intro evs
  induction evs with
  | nil => intro _ b o f vs h; cases h
  | cons e rest ih =>
    intro h b o f vs hm
    cases e with
    | enable o' t s =>
      rcases List.mem_cons.mp hm with h' | h'
      · cases h'
      · exact ih h b o f vs h'
    | vote b' o' f' vs' =>
      simp only [eventVotesOk, Bool.and_eq_true, decide_eq_true_eq] at h
      rcases List.mem_cons.mp hm with h' | h'
      · cases h'; exact h.1
      · exact ih h.2 b o f vs h'

/-- **well-formed reward database and event list** (decidable, raw input only): non-negative bond
    requirement / fund / rates; one Voted record per owner with commission rate in [0,100%]; one
    Delegating / Bonding record per voter, each with one entry per target and no negative amount;
    every vote event names each target once; vote-event offsets non-decreasing and within the term;
    and the Voted records cover the voters' records: for every address `k`, Σ_voters delegation to
    `k` ≤ `delegated(k)` and Σ_voters bond to `k` ≤ `bonded(k)` (equalities in a consistent database). -/
def DatabaseWF (i : Input) : Prop :=
  0 ≤ i.br ∧ 0 ≤ i.iglobal ∧ 0 ≤ i.iprepRate ∧ 0 ≤ i.iwageRate ∧
  (i.voteds.map (·.owner)).Nodup ∧ (∀ r ∈ i.voteds, 0 ≤ r.rate ∧ r.rate ≤ 10000) ∧
  (i.delegating.map (·.1)).Nodup ∧ (i.bonding.map (·.1)).Nodup ∧
  recordsOk i.delegating ∧ recordsOk i.bonding ∧ eventVotesOk i.events = true ∧
  eventOffsetsOk i.offsetLimit 0 i.events = true ∧
  (∀ k ∈ prepKeys i,
    sumInt ((voterSet i).map (fun v => votesTo k (lookupVotes i.delegating v))) ≤ baseDelegated i k ∧
    sumInt ((voterSet i).map (fun v => votesTo k (lookupVotes i.bonding v))) ≤ baseBonded i k)

instance (i : Input) : Decidable (DatabaseWF i) := by unfold DatabaseWF recordsOk; infer_instance

theorem lookupVotes_ok (m : List (Nat × Votes)) (h : recordsOk m) (v : Nat) : VotesOk (lookupVotes m v) := by
  unfold lookupVotes
  cases hf : m.find? (fun e => e.1 == v) with
  | none => exact ⟨by simp, fun x hx => by cases hx⟩
  | some e => exact h e (List.mem_of_find?_eq_some hf)

theorem eventsOf_nil_of_not_sender : ∀ (evs : List Event) (v : Nat),
    (∀ b o f vs, Event.vote b o f vs ∈ evs → f ≠ v) → eventsOf evs v = [] := by
  intro evs
  induction evs with
  | nil => intro v _; rfl
  | cons e rest ih =>
    intro v h
    have ih' := ih v (fun b o f vs hm => h b o f vs (List.mem_cons_of_mem _ hm))
    cases e with
    | enable o t s => rw [eventsOf_enable]; exact ih'
    | vote b o f vs =>
      have hne : f ≠ v := h b o f vs (by simp)
      have hb : (f == v) = false := by simpa using hne
      rw [eventsOf_vote, hb]; simpa using ih'

theorem calculate_senders_ok (i : Input) (r : Result) (h : calculate i = some r) :
    (eventSenders i.events).all (updateVotingOk i) = true := by
  unfold calculate at h
  simp only [] at h
  by_cases hs : (eventSenders i.events).all (updateVotingOk i) = true
  · exact hs
  · simp [hs] at h

/-- the aggregated conditions of `InputWF` follow from the per-voter conditions of `DatabaseWF` and
    the success of `VoteEvents.UpdateVoting` for every event sender -/
theorem inputWF_of_databaseWF (i : Input) (wf : DatabaseWF i)
    (hs : (eventSenders i.events).all (updateVotingOk i) = true) : InputWF i := by
  obtain ⟨h1, h2, h3, h4, h5, h6, hdn, hbn, hdr, hbr, hev, hoff, hcons⟩ := wf
  refine ⟨h1, h2, h3, h4, h5, h6, hdn, hbn, hoff, ?_, ?_⟩
  · intro k hk
    have hV := voterSet_nodup i hdn hbn
    apply totals_of_voters k (voterSet i) hV i.events
      (fun v => (lookupVotes i.delegating v, lookupVotes i.bonding v))
    · intro v; exact ⟨lookupVotes_ok _ hdr v, lookupVotes_ok _ hbr v⟩
    · intro bb o f vs hm
      exact ⟨sender_mem_voterSet i bb o f vs hm, eventVotesOk_mem _ hev bb o f vs hm⟩
    · intro v
      by_cases hv : v ∈ eventSenders i.events
      · have := (List.all_eq_true.mp hs) v hv
        rw [updateVotingOk_eq] at this
        exact this
      · have : eventsOf i.events v = [] := by
          apply eventsOf_nil_of_not_sender
          intro b o f vs hm hfv
          apply hv
          unfold eventSenders
          rw [List.mem_eraseDups, List.mem_filterMap]
          exact ⟨_, hm, by rw [hfv]⟩
        rw [this]; rfl
    · exact (hcons k hk).1
    · exact (hcons k hk).2
  · intro k hk
    have := hcons k hk
    unfold baseVotes
    rw [sumInt_map_add]
    omega

end Goloop.C35.Proofs
