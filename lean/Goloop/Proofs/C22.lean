import Goloop.Model.C22
namespace Goloop.C22.Proofs
open Goloop Goloop.C22

theorem byteOfNat_toNat (v : Nat) : (byteOfNat v).toNat = v % 256 := by
  simp [byteOfNat]

/-- canonical form of `Uint64ToBytes`: top bit of the first byte clear, and no removable
    leading zero byte -/
def Canon (p : Bytes) : Prop :=
  (∃ a r, p = a :: r ∧ a.toNat < 128) ∧ (∀ a b r, p = a :: b :: r → ¬ (a = 0 ∧ b.toNat < 128))

theorem canon_snoc (p : Bytes) (x : UInt8) (hc : Canon p) (hv : beNat p ≠ 0) : Canon (p ++ [x]) := by
  obtain ⟨⟨a, r, hp, ha⟩, h2⟩ := hc
  subst hp
  refine ⟨⟨a, r ++ [x], by simp, ha⟩, ?_⟩
  intro a' b' r' he
  cases r with
  | nil =>
    simp only [List.cons_append, List.nil_append, List.cons.injEq] at he
    obtain ⟨h1, _, _⟩ := he
    subst h1
    intro hh
    apply hv
    rw [hh.1]; simp [beNat]
  | cons b r2 =>
    simp only [List.cons_append, List.cons.injEq] at he
    obtain ⟨h1, h3, _⟩ := he
    subst h1; subst h3
    exact h2 a b r2 rfl

theorem loop_spec : ∀ (g v : Nat) (acc : Bytes), v ≠ 0 → v < 128 * 256 ^ g →
    ∃ pre, uint64Loop (g + 1) v acc = pre ++ acc ∧ pre.length ≤ g + 1 ∧ beNat pre = v ∧ Canon pre
  | g, v, acc, h0, hlt => by
    unfold uint64Loop
    by_cases hstop : v / 256 = 0 ∧ v % 256 < 128
    · simp only [hstop, and_self, if_true]
      refine ⟨[byteOfNat v], rfl, by simp, ?_, ⟨⟨byteOfNat v, [], rfl, ?_⟩, ?_⟩⟩
      · simp [beNat, byteOfNat_toNat]; omega
      · rw [byteOfNat_toNat]; exact hstop.2
      · intro a b r he; simp at he
    · simp only [hstop, if_false]
      by_cases hz : v / 256 = 0
      · -- low byte has its top bit set: one more round writes a zero byte
        have htv : ¬ v % 256 < 128 := fun h => hstop ⟨hz, h⟩
        cases g with
        | zero => simp at hlt; omega
        | succ g' =>
          unfold uint64Loop
          simp only [hz, Nat.zero_div, Nat.zero_mod, true_and, Nat.zero_lt_succ, if_true]
          refine ⟨[byteOfNat 0, byteOfNat v], by simp, by simp, ?_, ⟨⟨byteOfNat 0, [byteOfNat v], rfl, by simp [byteOfNat]⟩, ?_⟩⟩
          · simp [beNat, byteOfNat_toNat]; omega
          · intro a b r he
            simp only [List.cons.injEq] at he
            obtain ⟨_, hb, _⟩ := he
            intro hh
            rw [← hb, byteOfNat_toNat] at hh
            exact htv hh.2
      · cases g with
        | zero => simp at hlt; omega
        | succ g' =>
          have hlt' : v / 256 < 128 * 256 ^ g' := by
            rw [Nat.pow_succ] at hlt; omega
          obtain ⟨pre, he, hl, hv, hc⟩ := loop_spec g' (v / 256) (byteOfNat v :: acc) hz hlt'
          refine ⟨pre ++ [byteOfNat v], by simp [he], by simp; omega, ?_, canon_snoc pre _ hc (by rw [hv]; exact hz)⟩
          rw [beNat_append_singleton, hv, byteOfNat_toNat]; omega

/-- shape of `Uint64ToBytes v` for every 64-bit value -/
theorem u64_spec (v : Nat) (h : v < 2 ^ 64) :
    ∃ p, uint64ToBytes v = p ∧ Canon p ∧ beNat p = v ∧ 1 ≤ p.length ∧ p.length ≤ 9 := by
  unfold uint64ToBytes
  by_cases h0 : v = 0
  · subst h0
    refine ⟨[0], by simp, ⟨⟨0, [], rfl, by decide⟩, ?_⟩, by simp [beNat], by simp, by simp⟩
    intro a b r he; simp at he
  · simp only [h0, if_false]
    have hlt : v < 128 * 256 ^ 8 := by
      have : (128 : Nat) * 256 ^ 8 = 2 ^ 71 := by decide
      have : (2 : Nat) ^ 64 < 2 ^ 71 := by decide
      omega
    obtain ⟨pre, he, hl, hv, hc⟩ := loop_spec 8 v [] h0 hlt
    simp only [List.append_nil] at he
    refine ⟨pre, he, hc, hv, ?_, hl⟩
    obtain ⟨⟨a, r, hp, _⟩, _⟩ := hc
    subst hp; simp

/-! ### value bounds of canonical strings -/

theorem pow_pos256 (n : Nat) : 0 < 256 ^ n := Nat.pow_pos (by decide)

theorem canon_upper (a : UInt8) (r : Bytes) (ha : a.toNat < 128) : beNat (a :: r) < 128 * 256 ^ r.length := by
  rw [beNat_cons]
  have h1 := beNat_lt r
  have h2 : a.toNat * 256 ^ r.length ≤ 127 * 256 ^ r.length := Nat.mul_le_mul_right _ (by omega)
  omega

theorem canon_lower (a b : UInt8) (r : Bytes) (h : ¬ (a = 0 ∧ b.toNat < 128)) :
    128 * 256 ^ r.length ≤ beNat (a :: b :: r) := by
  rw [beNat_cons, beNat_cons]
  simp only [List.length_cons, Nat.pow_succ]
  by_cases ha : a = 0
  · have hb : 128 ≤ b.toNat := by
      have : ¬ b.toNat < 128 := fun hb => h ⟨ha, hb⟩
      omega
    have := Nat.mul_le_mul_right (256 ^ r.length) hb
    omega
  · have ha' : 1 ≤ a.toNat := by
      have : a.toNat ≠ 0 := fun e => ha (UInt8.toNat_inj.mp (by simpa using e))
      omega
    have := Nat.mul_le_mul_right (256 ^ r.length * 256) ha'
    have hp := pow_pos256 r.length
    omega

/-- a non-zero leading byte with 9 bytes would exceed 64 bits -/
theorem canon_lower_nz (a : UInt8) (r : Bytes) (ha : a ≠ 0) : 256 ^ r.length ≤ beNat (a :: r) := by
  rw [beNat_cons]
  have ha' : 1 ≤ a.toNat := by
    have : a.toNat ≠ 0 := fun e => ha (UInt8.toNat_inj.mp (by simpa using e))
    omega
  have := Nat.mul_le_mul_right (256 ^ r.length) ha'
  omega

/-! ### trie order on keys -/

theorem klt_cons (a b : UInt8) (as bs : Bytes) :
    klt (a :: as) (b :: bs) = (decide (a.toNat < b.toNat) || (decide (a = b) && klt as bs)) := by
  unfold klt nibs
  simp only [List.flatMap_cons, List.cons_append, List.nil_append, nlt]
  have hab : (a = b) ↔ a.toNat = b.toNat := UInt8.toNat_inj.symm
  rcases Nat.lt_trichotomy a.toNat b.toNat with h | h | h
  · have hne : ¬ a = b := fun e => by rw [hab] at e; omega
    by_cases h1 : a.toNat / 16 < b.toNat / 16
    · simp [h, h1]
    · have h2 : a.toNat / 16 = b.toNat / 16 := by omega
      have h3 : a.toNat % 16 < b.toNat % 16 := by omega
      simp [h, h2, h3]
  · have e : a = b := hab.mpr h
    subst e
    simp
  · have hne : ¬ a = b := fun e => by rw [hab] at e; omega
    have hn : ¬ a.toNat < b.toNat := by omega
    by_cases h1 : a.toNat / 16 < b.toNat / 16
    · omega
    · by_cases h2 : a.toNat / 16 = b.toNat / 16
      · have h3 : ¬ a.toNat % 16 < b.toNat % 16 := by omega
        have h4 : ¬ a.toNat % 16 = b.toNat % 16 := by omega
        simp [hn, hne, h1, h2, h3, h4]
      · simp [hn, hne, h1, h2]

theorem klt_nil_cons (b : UInt8) (bs : Bytes) : klt [] (b :: bs) = true := by
  simp [klt, nibs, nlt]

theorem klt_cons_nil (a : UInt8) (as : Bytes) : klt (a :: as) [] = false := by
  simp [klt, nibs, nlt]

theorem klt_irrefl (a : Bytes) : klt a a = false := by
  induction a with
  | nil => simp [klt, nibs, nlt]
  | cons x xs ih => rw [klt_cons]; simp [ih]

theorem klt_asymm (a b : Bytes) (h : klt a b = true) : klt b a = false := by
  induction a generalizing b with
  | nil =>
    cases b with
    | nil => simp [klt, nibs, nlt] at h
    | cons y ys => exact klt_cons_nil y ys
  | cons x xs ih =>
    cases b with
    | nil => rw [klt_cons_nil] at h; exact absurd h (by simp)
    | cons y ys =>
      rw [klt_cons] at h ⊢
      simp only [Bool.or_eq_true, decide_eq_true_eq, Bool.and_eq_true] at h
      rcases h with h | ⟨h1, h2⟩
      · have hne : ¬ y = x := fun e => by subst e; omega
        have : ¬ y.toNat < x.toNat := by omega
        simp [this, hne]
      · subst h1
        simp [ih ys h2]

/-- same length, smaller big-endian value ⇒ earlier in the trie -/
theorem klt_of_beNat_lt (p q : Bytes) (hl : p.length = q.length) (h : beNat p < beNat q) :
    klt p q = true := by
  induction p generalizing q with
  | nil =>
    cases q with
    | nil => simp [beNat] at h
    | cons y ys => simp at hl
  | cons x xs ih =>
    cases q with
    | nil => simp at hl
    | cons y ys =>
      simp only [List.length_cons, Nat.add_right_cancel_iff] at hl
      rw [beNat_cons, beNat_cons, hl] at h
      have h1 := beNat_lt xs
      have h2 := beNat_lt ys
      rw [hl] at h1
      rw [klt_cons]
      by_cases hxy : x.toNat < y.toNat
      · simp [hxy]
      · by_cases he : x.toNat = y.toNat
        · have e : x = y := UInt8.toNat_inj.mp he
          subst e
          have : beNat xs < beNat ys := by omega
          simp [ih ys hl this]
        · have hgt : y.toNat + 1 ≤ x.toNat := by omega
          have := Nat.mul_le_mul_right (256 ^ ys.length) hgt
          rw [Nat.add_mul] at this
          omega


/-! ### shape and order of `intToKey` -/

theorem ofNat_toNat (n : Nat) (h : n < 256) : (UInt8.ofNat n).toNat = n := by
  simp [Nat.mod_eq_of_lt h]

/-- `intToKey v` is the canonical big-endian string `p` of `v` itself when it is one byte,
    otherwise `0x80+len` followed by `p` -/
theorem key_shape (v : Nat) (h : v < 2 ^ 64) :
    ∃ p, Canon p ∧ beNat p = v ∧ p.length ≤ 9 ∧
      ((∃ x, p = [x] ∧ intToKey v = [x]) ∨
       (2 ≤ p.length ∧ intToKey v = UInt8.ofNat (0x80 + p.length) :: p)) := by
  obtain ⟨p, hu, hc, hv, h1, h9⟩ := u64_spec v h
  refine ⟨p, hc, hv, h9, ?_⟩
  unfold intToKey
  rw [hu]
  match p, hc, h1, h9 with
  | [], _, h1, _ => simp at h1
  | [x], hc, _, _ =>
    left
    obtain ⟨⟨a, r, hp, ha⟩, _⟩ := hc
    simp only [List.cons.injEq] at hp
    obtain ⟨rfl, _⟩ := hp
    exact ⟨x, rfl, by simp [writeBytes, ha]⟩
  | a :: b :: r, _, _, h9 =>
    right
    have : (a :: b :: r).length ≤ 55 := by omega
    exact ⟨by simp, by simp only [writeBytes, this, if_true]⟩

theorem intToKey_mono (i j : Nat) (hij : i < j) (hj : j < 2 ^ 64) :
    klt (intToKey i) (intToKey j) = true := by
  have hi : i < 2 ^ 64 := Nat.lt_trans hij hj
  obtain ⟨p, hcp, hvp, h9p, hp⟩ := key_shape i hi
  obtain ⟨q, hcq, hvq, h9q, hq⟩ := key_shape j hj
  rcases hp with ⟨x, rfl, hkp⟩ | ⟨h2p, hkp⟩
  · have hx : x.toNat = i := by simpa [beNat] using hvp
    have hx128 : x.toNat < 128 := by
      obtain ⟨⟨a, r, he, ha⟩, _⟩ := hcp
      simp only [List.cons.injEq] at he
      obtain ⟨rfl, _⟩ := he
      exact ha
    rcases hq with ⟨y, rfl, hkq⟩ | ⟨h2q, hkq⟩
    · have hy : y.toNat = j := by simpa [beNat] using hvq
      rw [hkp, hkq, klt_cons]
      have : x.toNat < y.toNat := by omega
      simp [this]
    · rw [hkp, hkq]
      cases q with
      | nil => simp at h2q
      | cons y ys =>
        rw [klt_cons]
        have := ofNat_toNat (0x80 + (y :: ys).length) (by omega)
        have : x.toNat < (UInt8.ofNat (0x80 + (y :: ys).length)).toNat := by omega
        rw [Bool.or_eq_true]; left; exact decide_eq_true this
  · -- i needs at least two bytes
    match p, hcp, hvp, h9p, h2p, hkp with
    | a :: b :: r, hcp, hvp, h9p, _, hkp =>
      have hlow := canon_lower a b r (hcp.2 a b r rfl)
      rw [hvp] at hlow
      have hp0 := pow_pos256 r.length
      rcases hq with ⟨y, rfl, hkq⟩ | ⟨h2q, hkq⟩
      · have hy : y.toNat = j := by simpa [beNat] using hvq
        have hy128 : y.toNat < 128 := by
          obtain ⟨⟨a', r', he, ha'⟩, _⟩ := hcq
          simp only [List.cons.injEq] at he
          obtain ⟨rfl, _⟩ := he
          exact ha'
        omega
      · match q, hcq, hvq, h9q, h2q, hkq with
        | c :: d :: t, hcq, hvq, h9q, _, hkq =>
          have hc128 : c.toNat < 128 := by
            obtain ⟨⟨a', r', he, ha'⟩, _⟩ := hcq
            simp only [List.cons.injEq] at he
            obtain ⟨rfl, _⟩ := he
            exact ha'
          have hup := canon_upper c (d :: t) hc128
          rw [hvq] at hup
          simp only [List.length_cons] at hup h9p h9q
          rw [hkp, hkq, klt_cons]
          have e1 := ofNat_toNat (0x80 + (a :: b :: r).length) (by simp only [List.length_cons]; omega)
          have e2 := ofNat_toNat (0x80 + (c :: d :: t).length) (by simp only [List.length_cons]; omega)
          simp only [List.length_cons] at e1 e2
          rcases Nat.lt_trichotomy r.length t.length with hl | hl | hl
          · have : (UInt8.ofNat (0x80 + (a :: b :: r).length)).toNat <
                (UInt8.ofNat (0x80 + (c :: d :: t).length)).toNat := by
              simp only [List.length_cons]; omega
            rw [Bool.or_eq_true]; left; exact decide_eq_true this
          · have hlen : (a :: b :: r).length = (c :: d :: t).length := by simp [hl]
            rw [hlen]
            have := klt_of_beNat_lt (a :: b :: r) (c :: d :: t) hlen (by rw [hvp, hvq]; exact hij)
            rw [Bool.or_eq_true]; right
            rw [Bool.and_eq_true]; exact ⟨decide_eq_true rfl, this⟩
          · -- j would be smaller than i
            have : 256 ^ (t.length + 1) ≤ 256 ^ r.length := Nat.pow_le_pow_right (by decide) hl
            omega

theorem intToKey_injective (i j : Nat) (hi : i < 2 ^ 64) (hj : j < 2 ^ 64)
    (h : intToKey i = intToKey j) : i = j := by
  rcases Nat.lt_trichotomy i j with hlt | he | hgt
  · have := intToKey_mono i j hlt hj
    rw [h, klt_irrefl] at this; exact absurd this (by simp)
  · exact he
  · have := intToKey_mono j i hgt hi
    rw [h, klt_irrefl] at this; exact absurd this (by simp)

/-- the first byte of a key determines the key's length -/
theorem key_length (v : Nat) (h : v < 2 ^ 64) :
    ∃ t r, intToKey v = t :: r ∧ r.length = (if t.toNat < 0x80 then 0 else t.toNat - 0x80) := by
  obtain ⟨p, hcp, hvp, h9p, hp⟩ := key_shape v h
  rcases hp with ⟨x, rfl, hk⟩ | ⟨h2, hk⟩
  · obtain ⟨⟨a, r, he, ha⟩, _⟩ := hcp
    simp only [List.cons.injEq] at he
    obtain ⟨rfl, _⟩ := he
    exact ⟨x, [], hk, by simp [ha]⟩
  · refine ⟨_, p, hk, ?_⟩
    have e := ofNat_toNat (0x80 + p.length) (by omega)
    rw [e]
    have : ¬ (0x80 + p.length < 0x80) := by omega
    simp [this]

theorem intToKey_prefix_free (i j : Nat) (hi : i < 2 ^ 64) (hj : j < 2 ^ 64)
    (h : intToKey i <+: intToKey j) : i = j := by
  obtain ⟨ti, ri, hki, hli⟩ := key_length i hi
  obtain ⟨tj, rj, hkj, hlj⟩ := key_length j hj
  obtain ⟨s, hs⟩ := h
  rw [hki, hkj] at hs
  simp only [List.cons_append, List.cons.injEq] at hs
  obtain ⟨ht, hr⟩ := hs
  subst ht
  have hlen : ri.length = rj.length := by rw [hli, hlj]
  have hsnil : s = [] := by
    have := congrArg List.length hr
    simp only [List.length_append] at this
    exact List.length_eq_zero_iff.mp (by omega)
  subst hsnil
  apply intToKey_injective i j hi hj
  rw [hki, hkj]; simp at hr; rw [hr]

theorem keyToInt_long (T : UInt8) (p : Bytes) (n : Nat) (hT : T.toNat = 0x80 + n) (hn : n = p.length)
    (h55 : n ≤ 55) : keyToInt (T :: p) = safeBytesToUint64 p := by
  unfold keyToInt
  simp only
  rw [hT]
  have h1 : ¬ (0x80 + n < 0x80) := by omega
  have h2 : 0x80 + n ≤ 0xB7 := by omega
  have h3 : 0x80 + n - 0x80 = n := by omega
  rw [if_neg h1, if_pos h2, h3, hn]
  simp

/-- the index a transaction iterator reports is the index the item was stored under -/
theorem keyToInt_intToKey (v : Nat) (h : v < 2 ^ 64) : keyToInt (intToKey v) = some v := by
  obtain ⟨p, hcp, hvp, h9p, hp⟩ := key_shape v h
  rcases hp with ⟨x, rfl, hk⟩ | ⟨h2, hk⟩
  · obtain ⟨⟨a, r, he, ha⟩, _⟩ := hcp
    simp only [List.cons.injEq] at he
    obtain ⟨rfl, _⟩ := he
    have hx : x.toNat = v := by simpa [beNat] using hvp
    rw [hk]
    simp only [keyToInt, show x.toNat < 0x80 from ha, if_true, safeBytesToUint64]
    by_cases hz : x = 0
    · subst hz; simp [beNat] at hx ⊢; omega
    · have : ¬ x.toNat ≥ 128 := by omega
      simp [hz, this, beNat, hx]
      omega
  · rw [hk]
    have e := ofNat_toNat (0x80 + p.length) (by omega)
    rw [keyToInt_long _ p p.length e rfl (by omega)]
    match p, hcp, hvp, h9p, h2 with
    | a :: b :: r, hcp, hvp, h9p, _ =>
      obtain ⟨⟨a', r', he, ha⟩, _⟩ := hcp
      simp only [List.cons.injEq] at he
      obtain ⟨rfl, _⟩ := he
      simp only [safeBytesToUint64]
      by_cases hz : a = 0
      · subst hz
        simp only [List.length_cons] at h9p
        have : ¬ (b :: r).length > 8 := by simp only [List.length_cons]; omega
        simp only [if_true, this, if_false]
        rw [beNat_cons] at hvp
        simp at hvp
        rw [hvp]
      · have hge : ¬ a.toNat ≥ 128 := by omega
        have hl := canon_lower_nz a (b :: r) hz
        rw [hvp] at hl
        have hlen : ¬ (a :: b :: r).length > 8 := by
          intro h8
          simp only [List.length_cons] at h8 h9p hl
          have h9 : r.length + 1 = 8 := by omega
          rw [h9] at hl
          have : (256 : Nat) ^ 8 = 2 ^ 64 := by decide
          omega
        simp only [hz, if_false, hge, hlen, hvp]


/-! ### the lists -/

/-- the trie content for items stored under indices idx, idx+1, … in that order -/
def entries {α : Type} (idx : Nat) : List α → Trie α
  | [] => []
  | x :: xs => (intToKey idx, x) :: entries (idx + 1) xs

theorem tset_append {α : Type} (t : Trie α) (k : Bytes) (v : α) (h : ∀ e ∈ t, klt e.1 k = true) :
    tset t k v = t ++ [(k, v)] := by
  induction t with
  | nil => rfl
  | cons e r ih =>
    obtain ⟨k', v'⟩ := e
    have hk := h (k', v') (List.mem_cons_self)
    simp only at hk
    have hne : ¬ k' = k := by
      intro e; subst e; rw [klt_irrefl] at hk; exact absurd hk (by simp)
    have hnl : klt k k' = false := klt_asymm k' k hk
    simp only [tset, hne, if_false, hnl, Bool.false_eq_true, List.cons_append]
    rw [ih (fun e he => h e (List.mem_cons_of_mem _ he))]

theorem fromSliceAux_eq {α : Type} (xs : List α) (t : Trie α) (idx : Nat) (hb : idx + xs.length ≤ 2 ^ 64)
    (h : ∀ e ∈ t, ∀ j, idx ≤ j → j < 2 ^ 64 → klt e.1 (intToKey j) = true) :
    fromSliceAux t idx xs = t ++ entries idx xs := by
  induction xs generalizing t idx with
  | nil => simp [fromSliceAux, entries]
  | cons x xs ih =>
    simp only [List.length_cons] at hb
    have hidx : idx < 2 ^ 64 := by omega
    simp only [fromSliceAux, entries]
    rw [tset_append t _ x (fun e he => h e he idx (Nat.le_refl _) hidx)]
    rw [ih (t ++ [(intToKey idx, x)]) (idx + 1) (by omega)]
    · simp
    · intro e he j hj hj64
      rcases List.mem_append.mp he with h1 | h1
      · exact h e h1 j (by omega) hj64
      · simp only [List.mem_singleton] at h1
        subst h1
        exact intToKey_mono idx j (by omega) hj64

theorem fromSlice_eq {α : Type} (l : List α) (h : l.length ≤ 2 ^ 64) : fromSlice l = entries 0 l := by
  unfold fromSlice
  rw [fromSliceAux_eq l [] 0 (by omega) (by simp)]
  simp

theorem iterate_entries {α : Type} (l : List α) (idx : Nat) (hb : idx + l.length ≤ 2 ^ 64) :
    iterate (entries idx l) = (l.zipIdx idx).map (fun p => (p.1, some p.2)) := by
  induction l generalizing idx with
  | nil => simp [entries, iterate]
  | cons x xs ih =>
    simp only [List.length_cons] at hb
    simp only [entries, iterate, List.map_cons, List.zipIdx_cons]
    rw [keyToInt_intToKey idx (by omega)]
    have := ih (idx + 1) (by omega)
    simp only [iterate] at this
    rw [this]

theorem iterateItems_entries {α : Type} (l : List α) (idx : Nat) : iterateItems (entries idx l) = l := by
  induction l generalizing idx with
  | nil => simp [entries, iterateItems]
  | cons x xs ih =>
    simp only [entries, iterateItems, List.map_cons]
    have := ih (idx + 1)
    simp only [iterateItems] at this
    rw [this]

theorem tget_entries {α : Type} (l : List α) (idx i : Nat) (hb : idx + l.length ≤ 2 ^ 64) (hi : i < 2 ^ 64) :
    tget (entries idx l) (intToKey i) = if idx ≤ i then l[i - idx]? else none := by
  induction l generalizing idx with
  | nil => simp [entries, tget]
  | cons x xs ih =>
    simp only [List.length_cons] at hb
    simp only [entries, tget]
    by_cases he : idx = i
    · subst he; simp
    · have hne : ¬ intToKey idx = intToKey i := fun e => he (intToKey_injective idx i (by omega) hi e)
      rw [if_neg hne, ih (idx + 1) (by omega)]
      by_cases hle : idx + 1 ≤ i
      · have h1 : idx ≤ i := by omega
        have h2 : i - idx = (i - (idx + 1)) + 1 := by omega
        simp only [hle, h1, if_true]
        rw [h2, List.getElem?_cons_succ]
      · have h1 : ¬ idx ≤ i := by omega
        simp [hle, h1]

end Goloop.C22.Proofs
