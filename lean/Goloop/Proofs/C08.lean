/-
  Proofs/C08: helper lemmas for Props/C08 (typed readers invert the item encoders).
-/
import Goloop.Model.C08
import Goloop.Props.C24
namespace Goloop.C08.Proofs
open Goloop Goloop.Rlp Goloop.C08

theorem maxSB_le_maxInt : maxSB ≤ maxInt := by decide

theorem encode_append_ne_nil (v : Item) (r : Bytes) : (encode v ++ r).isEmpty = false := by
  have := encode_ne_nil v
  cases h : encode v with
  | nil => exact absurd h this
  | cons a as => simp

/-- `ReadBytes` inverts the writer for nil and for every slice of at most maxSB bytes -/
theorem readBytes_encode (ob : OBytes) (r : Bytes) (hl : ∀ b, ob = some b → b.length ≤ maxSB) :
    readBytes (encode (itemOfBytes ob) ++ r) = .ok ob r := by
  unfold readBytes
  rw [encode_append_ne_nil]
  simp only [Bool.false_eq_true, if_false]
  cases ob with
  | none =>
    simp only [itemOfBytes, encode]
    rw [decodeHdr_encodeNil]
  | some b =>
    have hb := hl b rfl
    simp only [itemOfBytes, encode]
    rcases encodeBytes_cases b with ⟨x, hbx, hx, he⟩ | he
    · rw [he, hbx]
      simp only [List.cons_append, List.nil_append]
      rw [decodeHdr_single x hx]
    · rw [he, List.append_assoc, decodeHdr_encodeLen_str b.length (Nat.le_trans hb maxSB_le_maxInt)]
      simp only [Nat.not_lt.mpr hb, if_false, splitAt?_append]

theorem readInt_encode (v : Int) (r : Bytes) (hv : -(2:Int)^63 ≤ v ∧ v < (2:Int)^63) :
    readInt (encode (itemOfInt v) ++ r) = .ok v r := by
  unfold readInt
  have hlen := (C24.int64_length v hv).2
  have := readBytes_encode (some (C24.int64ToBytes v)) r (by
    intro b hb; cases hb; unfold maxSB; omega)
  simp only [itemOfBytes] at this
  unfold itemOfInt
  rw [this]
  simp only [C24.int64_roundtrip v hv]

/-- elements of a `[][]byte` -/
theorem readBytesSeq_encode : ∀ (l : List OBytes) (fuel : Nat), l.length < fuel →
    (∀ ob ∈ l, ∀ b, ob = some b → b.length ≤ maxSB) →
    readBytesSeq fuel (encodeItems (l.map itemOfBytes)) = some l
  | [], fuel, hf, _ => by
    cases fuel with
    | zero => omega
    | succ f => simp [readBytesSeq, encodeItems, readBytes]
  | ob :: rest, fuel, hf, hl => by
    cases fuel with
    | zero => omega
    | succ f =>
      simp only [List.map_cons, encodeItems, readBytesSeq]
      rw [readBytes_encode ob _ (hl ob (by simp))]
      simp only
      rw [readBytesSeq_encode rest f (by simp at hf; omega) (fun o ho => hl o (by simp [ho]))]

theorem encodeItems_length_ge : ∀ xs : List Item, xs.length ≤ (encodeItems xs).length
  | [] => by simp [encodeItems]
  | x :: xs => by
    have := encode_length_pos x
    have := encodeItems_length_ge xs
    simp only [encodeItems, List.length_append, List.length_cons]; omega

theorem readBss_encode (l : Option (List OBytes)) (r : Bytes)
    (hl : ∀ xs, l = some xs → (∀ ob ∈ xs, ∀ b, ob = some b → b.length ≤ maxSB) ∧
      (encodeItems (xs.map itemOfBytes)).length ≤ maxInt) :
    readBss (encode (itemOfBss l) ++ r) = .ok l r := by
  unfold readBss
  rw [encode_append_ne_nil]
  simp only [Bool.false_eq_true, if_false]
  cases l with
  | none =>
    simp only [itemOfBss, encode]
    rw [decodeHdr_encodeNil]
  | some xs =>
    obtain ⟨h1, h2⟩ := hl xs rfl
    simp only [itemOfBss, encode, encodeList]
    rw [List.append_assoc, decodeHdr_encodeLen_lst _ h2]
    simp only [splitAt?_append]
    have hlen := encodeItems_length_ge (xs.map itemOfBytes)
    rw [readBytesSeq_encode xs _ (by simp at hlen; omega) h1]

theorem openList_encode (items : List Item) (rest : Bytes) (h : (encodeItems items).length ≤ maxInt) :
    openList (encode (.list items) ++ rest) = some (encodeItems items, rest) := by
  unfold openList
  simp only [encode, encodeList]
  rw [List.append_assoc, decodeHdr_encodeLen_lst _ h]
  simp only [splitAt?_append]

theorem readBytes_nil : readBytes [] = .eof := by simp [readBytes]

end Goloop.C08.Proofs
