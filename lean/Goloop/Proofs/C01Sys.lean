/-
  Proofs/C01Sys — L-sys: n transcribed validator machines + the message soup, no crash.

  * `Sys` = the soup (every vote ever signed by anybody, in signing order) + one machine state per
    validator index.  `Reach n byz` = the states reachable from "every correct validator freshly
    started, empty soup" by (a) a Byzantine validator signing ANY vote, (b) a correct validator
    performing ANY crash-free event (proposal / block part of anybody — not even required to be
    signed —, timeout, BlockManager callback, or a `vote` event for a vote that is in the soup); the
    votes it signs during the event are appended to the soup in signing order.  Loss, delay,
    duplication and reordering are all schedules of this relation.
  * `ReachC P`: the same plus, for correct validators, `crashEvent` (death at any effect boundary of any
    event, C02's crash model) and `restart` (Start on the WALs) — every restart has to satisfy `P`.
  * `SysInv`: the soup of every state reachable under `ReachC RLS` satisfies G0–G3 (exact timing) and
    every Finalize effect of a correct validator has a commit quorum in the soup.
  * `agreement_partial` (crash / restart, under RestoreLockSound) and its corollary `agreement_nocrash`.
-/
import Goloop.Proofs.C01Sync
namespace Goloop.C01

/-! ### the system -/

structure Sys where
  /-- every vote signed so far, by anybody, in signing order -/
  soup : List VoteRec
  /-- the machine of validator `i` (only meaningful for correct `i`) -/
  st : Nat → S

/-- the votes signed between two states of one machine -/
def newVotes (s s' : S) : List VoteRec := votesOf ((sentOf s'.eff).drop (sentOf s.eff).length)

/-- validator `i` performs event `e`; what it signs goes to the soup -/
def Sys.step (sys : Sys) (i : Nat) (e : Event) : Sys :=
  ⟨sys.soup ++ newVotes (sys.st i) (vstep (sys.st i) e),
   fun j => if j = i then vstep (sys.st i) e else sys.st j⟩

/-- validator `i` is handed block `b` of height `h` with a commit vote list (precommits of round `r` by
    `signers`) through the block-sync callback -/
def Sys.syncStep (sys : Sys) (i : Nat) (h r : Nat) (b : Blk) (signers : List Nat) : Sys :=
  ⟨sys.soup ++ newVotes (sys.st i) (syncEv (sys.st i) h r b signers),
   fun j => if j = i then syncEv (sys.st i) h r b signers else sys.st j⟩

inductive Reach (n : Nat) (byz : Nat → Bool) : Sys → Prop
  | init : Reach n byz ⟨[], fun i => start { n := n, me := i }⟩
  | byzVote (sys : Sys) (v : VoteRec) : Reach n byz sys → byz v.signer = true →
      Reach n byz ⟨sys.soup ++ [v], sys.st⟩
  | event (sys : Sys) (i : Nat) (e : Event) : Reach n byz sys → byz i = false → e.noCrash →
      (∀ m, e = .vote m → m ∈ sys.soup) → Reach n byz (sys.step i e)
  | sync (sys : Sys) (i : Nat) (h r : Nat) (b : Blk) (signers : List Nat) : Reach n byz sys → byz i = false →
      (∀ v, v ∈ syncVotes h r b signers → v ∈ sys.soup) → Reach n byz (sys.syncStep i h r b signers)

/-- validator `i` starts event `e` and its process dies at effect boundary `cut` of the trace: what
    follows `cut` never happened, `k` unsynced records of every WAL survive (C02's crash model) -/
def Sys.crashStep (sys : Sys) (i : Nat) (e : Event) (cut k : Nat) : Sys :=
  ⟨sys.soup ++ newVotes (sys.st i) (crash (vstep (sys.st i) e) cut k),
   fun j => if j = i then crash (vstep (sys.st i) e) cut k else sys.st j⟩

/-- the process of validator `i` dies at effect boundary `cut` while handling a block-sync callback -/
def Sys.crashSyncStep (sys : Sys) (i : Nat) (h r : Nat) (b : Blk) (signers : List Nat) (cut k : Nat) : Sys :=
  ⟨sys.soup ++ newVotes (sys.st i) (crash (syncEv (sys.st i) h r b signers) cut k),
   fun j => if j = i then crash (syncEv (sys.st i) h r b signers) cut k else sys.st j⟩

/-- L-sys WITH crash and restart of correct validators.  `P` is the condition every restart has to
    satisfy (`RLS` for `agreement_partial`; `fun _ => True` gives all executions).
    * `crashEvent`: the process of validator `i` dies while handling event `e`, at ANY effect boundary
      `cut` of `e` (`cut` = length of the trace before `e`: the crash hits before the first effect of
      `e`, i.e. between events; `cut` ≥ length after `e`: after its last effect), any number `k` of
      unsynced WAL records survives;
    * `restart`: a stopped validator runs `Start` on its WALs (applyRoundWAL + applyLockWAL +
      applyCommitWAL + dispatch).  `SignClosed`: its last crash did not fall between the WAL write of a
      vote and handing that vote to the network (those two effect boundaries per vote are excluded). -/
inductive ReachC (P : S → Prop) (n : Nat) (byz : Nat → Bool) : Sys → Prop
  | init : ReachC P n byz ⟨[], fun i => start { n := n, me := i }⟩
  | byzVote (sys : Sys) (v : VoteRec) : ReachC P n byz sys → byz v.signer = true →
      ReachC P n byz ⟨sys.soup ++ [v], sys.st⟩
  | event (sys : Sys) (i : Nat) (e : Event) : ReachC P n byz sys → byz i = false → e.noCrash →
      (∀ m, e = .vote m → m ∈ sys.soup) → ReachC P n byz (sys.step i e)
  | sync (sys : Sys) (i : Nat) (h r : Nat) (b : Blk) (signers : List Nat) : ReachC P n byz sys →
      byz i = false → (∀ v, v ∈ syncVotes h r b signers → v ∈ sys.soup) →
      ReachC P n byz (sys.syncStep i h r b signers)
  | crashEvent (sys : Sys) (i : Nat) (e : Event) (cut k : Nat) : ReachC P n byz sys → byz i = false →
      e.noCrash → (∀ m, e = .vote m → m ∈ sys.soup) → (sys.st i).eff.length ≤ cut →
      ReachC P n byz (sys.crashStep i e cut k)
  | crashSync (sys : Sys) (i : Nat) (h r : Nat) (b : Blk) (signers : List Nat) (cut k : Nat) :
      ReachC P n byz sys → byz i = false → (∀ v, v ∈ syncVotes h r b signers → v ∈ sys.soup) →
      (sys.st i).eff.length ≤ cut → ReachC P n byz (sys.crashSyncStep i h r b signers cut k)
  | restart (sys : Sys) (i : Nat) : ReachC P n byz sys → byz i = false → (sys.st i).started = false →
      SignClosed (sys.st i).eff → P (sys.st i) → ReachC P n byz (sys.step i .start)

theorem reachC_of_reach {P : S → Prop} {n : Nat} {byz : Nat → Bool} {sys : Sys} (h : Reach n byz sys) :
    ReachC P n byz sys := by
  induction h with
  | init => exact ReachC.init
  | byzVote sys v _ hb ih => exact ReachC.byzVote sys v ih hb
  | event sys i e _ hbi hn hl ih => exact ReachC.event sys i e ih hbi hn hl
  | sync sys i h r b sg _ hbi hk ih => exact ReachC.sync sys i h r b sg ih hbi hk

/-! ### the freshly started machine has signed nothing -/

theorem start_fresh_eff (n me : Nat) : (start { n := n, me := me }).eff = [] := by
  unfold start
  simp only [Bool.false_eq_true, if_false]
  simp only [S.resetForNewHeight, S.resetRound_, S.beginStep, S.endStep, validTransition,
    S.resetForNewStep, stNewHeight, stNewRound, stTransactionWait]
  simp
  rw [show fuel0 = 63 + 1 from rfl]
  unfold enterPropose
  simp [S.resetForNewStep, S.beginStep, S.endStep, validTransition, stPropose, stNewHeight, stNewRound,
    S.isPropAndPOLComplete, Cur.isComplete]
  split <;> rfl

/-! ### quorums in the soup -/

/-- more than 2/3 of the validator indices below n have the vote (h, t, r, y) in `A` -/
def soupQ (n : Nat) (A : List VoteRec) (h : Nat) (t : VType) (r : Nat) (y : Option Blk) : Prop :=
  (List.range n).countP (fun i => decide ((⟨i, h, t, r, y⟩ : VoteRec) ∈ A)) > n * 2 / 3

theorem soupQ_of_known {L : List VoteRec} {n : Nat} {sent : List Msg} {A : List VoteRec} {h : Nat} {t : VType}
    {r : Nat} {y : Option Blk} (hk : ∀ x, Known L sent x → x ∈ A) (hq : quorumKnown L n sent h t r y) :
    soupQ n A h t r y := by
  unfold quorumKnown at hq
  unfold soupQ
  have := countP_mono_imp (List.range n)
    (fun i => decide (Known L sent ⟨i, h, t, r, y⟩))
    (fun i => decide ((⟨i, h, t, r, y⟩ : VoteRec) ∈ A))
    (by intro x hx; simp only [decide_eq_true_eq] at hx ⊢; exact hk _ hx)
  omega

/-- a vote in the middle of `votesOf ms` splits `ms` accordingly -/
theorem votesOf_eq_append_cons {ms : List Msg} {N1 B : List VoteRec} {v : VoteRec}
    (h : votesOf ms = N1 ++ v :: B) :
    ∃ M1 M2, ms = M1 ++ Msg.vote v :: M2 ∧ votesOf M1 = N1 := by
  unfold votesOf at h
  rw [List.filterMap_eq_append_iff] at h
  obtain ⟨l1, l2, rfl, h1, h2⟩ := h
  rw [List.filterMap_eq_cons_iff] at h2
  obtain ⟨l3, a, l4, rfl, h3, h4, _⟩ := h2
  cases a with
  | proposal => simp at h4
  | vote w =>
    simp at h4
    subst h4
    refine ⟨l1 ++ l3, l4, by simp, ?_⟩
    unfold votesOf
    rw [List.filterMap_append, h1]
    have h0 : votesOf l3 = [] := by
      unfold votesOf
      rw [List.filterMap_eq_nil_iff]
      exact h3
    unfold votesOf at h0
    rw [h0]; simp

/-! ### the system invariant -/

structure SysInv (n : Nat) (byz : Nat → Bool) (sys : Sys) : Prop where
  mach : ∀ i, byz i = false → M3 sys.soup i n (sys.st i)
  /-- unforgeability: a vote in the soup carrying a correct signer's name was signed by that machine -/
  own : ∀ x, x ∈ sys.soup → byz x.signer = false → Msg.vote x ∈ sentOf (sys.st x.signer).eff
  sub : ∀ i, byz i = false → ∀ x, Msg.vote x ∈ sentOf (sys.st i).eff → x ∈ sys.soup
  ord : sys.soup.Pairwise (fun x y => x.signer = y.signer → byz x.signer = false → lexLt (voteKey x) (voteKey y))
  g2 : ∀ A v B b, sys.soup = A ++ v :: B → byz v.signer = false → v.typ = .precommit → v.val = some b →
        soupQ n A v.height .prevote v.round (some b)
  g3 : ∀ A w B, sys.soup = A ++ w :: B → byz w.signer = false → w.typ = .prevote →
        ∀ v b, v ∈ A → v.signer = w.signer → v.typ = .precommit → v.val = some b → v.height = w.height →
          v.round < w.round → w.val ≠ some b →
          ∃ r'' y, v.round < r'' ∧ r'' ≤ w.round ∧ y ≠ some b ∧ soupQ n A w.height .prevote r'' y

theorem inv_start (n i : Nat) : Inv i n (start { n := n, me := i }) :=
  vstep_inv { n := n, me := i } .start (inv_init i n)

theorem sysInv_init (n : Nat) (byz : Nat → Bool) :
    SysInv n byz ⟨[], fun i => start { n := n, me := i }⟩ := by
  refine ⟨?_, ?_, ?_, List.Pairwise.nil, ?_, ?_⟩
  · intro i _; exact m3_of_a3 (inv_start n i) (a3_start_fresh n i)
  · intro x hx; cases hx
  · intro i _ x hx
    simp only [start_fresh_eff, sentOf] at hx
    cases hx
  · intro A v B b h; simp at h
  · intro A w B h; simp at h

theorem sysInv_byz (n : Nat) (byz : Nat → Bool) (sys : Sys) (v : VoteRec) (hi : SysInv n byz sys)
    (hb : byz v.signer = true) : SysInv n byz ⟨sys.soup ++ [v], sys.st⟩ := by
  have hsub : ∀ x, x ∈ sys.soup → x ∈ sys.soup ++ [v] := fun x hx => List.mem_append_left _ hx
  refine ⟨?_, ?_, ?_, ?_, ?_, ?_⟩
  · intro i hbi
    exact m3_mono_L hsub (hi.mach i hbi)
  · intro x hx hbx
    rcases List.mem_append.mp hx with h | h
    · exact hi.own x h hbx
    · simp at h; subst h; rw [hb] at hbx; cases hbx
  · intro i hbi x hx
    exact hsub _ (hi.sub i hbi x hx)
  · show (sys.soup ++ [v]).Pairwise _
    rw [List.pairwise_append]
    refine ⟨hi.ord, by simp, ?_⟩
    intro x _ y hy hs hbx
    simp at hy; subst hy
    rw [hs, hb] at hbx; cases hbx
  · intro A v' B b hd hbv ht hval
    have hd' : sys.soup ++ [v] = A ++ v' :: B := hd
    rcases append_singleton_eq_append_cons hd' with ⟨_, _, hm⟩ | ⟨B', _, hd''⟩
    · subst hm; rw [hb] at hbv; cases hbv
    · exact hi.g2 A v' B' b hd'' hbv ht hval
  · intro A w B hd hbw ht v' b hv' hs hvt hval hht hr hne
    have hd' : sys.soup ++ [v] = A ++ w :: B := hd
    rcases append_singleton_eq_append_cons hd' with ⟨_, _, hm⟩ | ⟨B', _, hd''⟩
    · subst hm; rw [hb] at hbw; cases hbw
    · exact hi.g3 A w B' hd'' hbw ht v' b hv' hs hvt hval hht hr hne


theorem append_eq_append_cons_cases {α : Type} {l1 l2 A B : List α} {v : α} (h : l1 ++ l2 = A ++ v :: B) :
    (∃ B', l1 = A ++ v :: B' ∧ B = B' ++ l2) ∨ (∃ N1, A = l1 ++ N1 ∧ l2 = N1 ++ v :: B) := by
  rw [List.append_eq_append_iff] at h
  rcases h with ⟨as, h1, h2⟩ | ⟨bs, h1, h2⟩
  · exact Or.inr ⟨as, h1, h2⟩
  · cases bs with
    | nil =>
      right
      refine ⟨[], by simpa using h1.symm, by simpa using h2.symm⟩
    | cons c cs =>
      left
      simp only [List.cons_append, List.cons.injEq] at h2
      obtain ⟨rfl, rfl⟩ := h2
      exact ⟨cs, h1, rfl⟩

/-- one machine moves to `s'` (by an event, a crash, a restart): it kept its per-machine invariant and
    only appended to what it has signed -/
theorem sysInv_update (n : Nat) (byz : Nat → Bool) (sys : Sys) (i : Nat) (s' : S) (hi : SysInv n byz sys)
    (hbi : byz i = false) (hm2 : M3 sys.soup i n s') (hpre : sentOf (sys.st i).eff <+: sentOf s'.eff) :
    SysInv n byz ⟨sys.soup ++ newVotes (sys.st i) s', fun j => if j = i then s' else sys.st j⟩ := by
  have inv2 : Inv i n s' := hm2.inv
  obtain ⟨newM, hnew⟩ := hpre
  have hnv : newVotes (sys.st i) s' = votesOf newM := by
    unfold newVotes; rw [← hnew, List.drop_left]
  rw [hnv]
  have hsent : sentOf s'.eff = sentOf (sys.st i).eff ++ newM := hnew.symm
  have hsig : ∀ x, Msg.vote x ∈ sentOf s'.eff → x.signer = i := fun x hx => (inv2.tr.sg _ hx).1
  have hinc : (sentOf (sys.st i).eff ++ newM).Pairwise msgLt := by rw [← hsent]; exact inv2.inc
  have hsub : ∀ x, x ∈ sys.soup → x ∈ sys.soup ++ votesOf newM := fun x hx => List.mem_append_left _ hx
  have hknown : ∀ (M1 : List Msg) (x : VoteRec), (∀ m, m ∈ M1 → m ∈ newM) →
      Known sys.soup (sentOf (sys.st i).eff ++ M1) x → x ∈ sys.soup ++ votesOf M1 := by
    intro M1 x _ hk
    rcases hk with hk | hk
    · exact List.mem_append_left _ hk
    · rcases List.mem_append.mp hk with hk | hk
      · exact List.mem_append_left _ (hi.sub i hbi x hk)
      · exact List.mem_append_right _ (mem_votesOf.mpr hk)
  refine ⟨?_, ?_, ?_, ?_, ?_, ?_⟩
  · intro j hbj
    by_cases hj : j = i
    · subst hj
      simp only [if_true]
      exact m3_mono_L hsub hm2
    · simp only [if_neg hj]
      exact m3_mono_L hsub (hi.mach j hbj)
  · intro x hx hbx
    simp only []
    rcases List.mem_append.mp hx with h | h
    · have h0 := hi.own x h hbx
      by_cases hj : x.signer = i
      · rw [if_pos hj, hsent]
        rw [hj] at h0
        exact List.mem_append_left _ h0
      · rw [if_neg hj]; exact h0
    · have hm : Msg.vote x ∈ sentOf s'.eff := by
        rw [hsent]; exact List.mem_append_right _ (mem_votesOf.mp h)
      rw [if_pos (hsig x hm)]
      exact hm
  · intro j hbj x hx
    simp only [] at hx ⊢
    by_cases hj : j = i
    · rw [if_pos hj, hsent] at hx
      rcases List.mem_append.mp hx with h | h
      · exact hsub _ (hi.sub i hbi x h)
      · exact List.mem_append_right _ (mem_votesOf.mpr h)
    · rw [if_neg hj] at hx
      exact hsub _ (hi.sub j hbj x hx)
  · show (sys.soup ++ votesOf newM).Pairwise _
    rw [List.pairwise_append]
    rw [List.pairwise_append] at hinc
    refine ⟨hi.ord, ?_, ?_⟩
    · unfold votesOf
      refine List.Pairwise.filterMap _ ?_ hinc.2.1
      intro a a' hr b hb b' hb' _ _
      cases a <;> cases a' <;> simp at hb hb'
      subst hb; subst hb'
      exact hr
    · intro x hx y hy hs hbx
      have hy' : Msg.vote y ∈ newM := mem_votesOf.mp hy
      have hys : y.signer = i := hsig y (by rw [hsent]; exact List.mem_append_right _ hy')
      have h0 := hi.own x hx hbx
      rw [hs, hys] at h0
      exact hinc.2.2 _ h0 _ hy'
  · intro A v B b hd hbv ht hval
    have hd' : sys.soup ++ votesOf newM = A ++ v :: B := hd
    rcases append_eq_append_cons_cases hd' with ⟨B', h1, _⟩ | ⟨N1, h1, h2⟩
    · exact hi.g2 A v B' b h1 hbv ht hval
    · obtain ⟨M1, M2, hM, hN⟩ := votesOf_eq_append_cons h2
      have hq := hm2.trf.g2 (sentOf (sys.st i).eff ++ M1) v M2 b (by rw [hsent, hM]; simp) ht hval
      rw [h1, ← hN]
      exact soupQ_of_known (fun x hk => hknown M1 x (by intro m hm; rw [hM]; exact List.mem_append_left _ hm) hk) hq
  · intro A w B hd hbw ht v b hv hs hvt hval hht hr hne
    have hd' : sys.soup ++ votesOf newM = A ++ w :: B := hd
    rcases append_eq_append_cons_cases hd' with ⟨B', h1, _⟩ | ⟨N1, h1, h2⟩
    · exact hi.g3 A w B' h1 hbw ht v b hv hs hvt hval hht hr hne
    · obtain ⟨M1, M2, hM, hN⟩ := votesOf_eq_append_cons h2
      have hw : Msg.vote w ∈ newM := by rw [hM]; simp
      have hws : w.signer = i := hsig w (by rw [hsent]; exact List.mem_append_right _ hw)
      have hvm : Msg.vote v ∈ sentOf (sys.st i).eff ++ M1 := by
        rw [h1] at hv
        rcases List.mem_append.mp hv with h | h
        · have h0 := hi.own v h (by rw [hs]; exact hbw)
          rw [hs, hws] at h0
          exact List.mem_append_left _ h0
        · rw [← hN] at h
          exact List.mem_append_right _ (mem_votesOf.mp h)
      obtain ⟨r'', y, c1, c2, c3, c4⟩ :=
        hm2.trf.g3 (sentOf (sys.st i).eff ++ M1) w M2 (by rw [hsent, hM]; simp) ht v b hvm hvt hval hht hr hne
      refine ⟨r'', y, c1, c2, c3, ?_⟩
      rw [h1, ← hN]
      exact soupQ_of_known (fun x hk => hknown M1 x (by intro m hm; rw [hM]; exact List.mem_append_left _ hm) hk) c4

theorem sysInv_event (n : Nat) (byz : Nat → Bool) (sys : Sys) (i : Nat) (e : Event) (hi : SysInv n byz sys)
    (hbi : byz i = false) (hn : e.noCrash) (hl : ∀ m, e = .vote m → m ∈ sys.soup) :
    SysInv n byz (sys.step i e) := by
  obtain ⟨h1, h2⟩ := m3_event (sys.st i) e hn hl (hi.mach i hbi)
  exact sysInv_update n byz sys i _ hi hbi h1 (sentOf_prefix h2)

theorem sysInv_sync (n : Nat) (byz : Nat → Bool) (sys : Sys) (i : Nat) (h r : Nat) (b : Blk)
    (signers : List Nat) (hi : SysInv n byz sys) (hbi : byz i = false)
    (hk : ∀ v, v ∈ syncVotes h r b signers → v ∈ sys.soup) : SysInv n byz (sys.syncStep i h r b signers) := by
  obtain ⟨h1, h2⟩ := m3_syncEv (sys.st i) h r b signers hk (hi.mach i hbi)
  exact sysInv_update n byz sys i _ hi hbi h1 (sentOf_prefix h2)

theorem sysInv_crashEvent (n : Nat) (byz : Nat → Bool) (sys : Sys) (i : Nat) (e : Event) (cut k : Nat)
    (hi : SysInv n byz sys) (hbi : byz i = false) (hn : e.noCrash) (hl : ∀ m, e = .vote m → m ∈ sys.soup)
    (hp : (sys.st i).eff.length ≤ cut) :
    SysInv n byz (sys.crashStep i e cut k) := by
  obtain ⟨h1, h2⟩ := m3_event (sys.st i) e hn hl (hi.mach i hbi)
  refine sysInv_update n byz sys i _ hi hbi (m3_crash _ cut k h1) ?_
  show sentOf (sys.st i).eff <+: sentOf ((vstep (sys.st i) e).eff.take cut ++ [.crash k])
  rw [sentOf_nonsend _ _ (by intro m; simp)]
  apply sentOf_prefix
  exact List.prefix_take_iff.mpr ⟨h2, hp⟩

theorem sysInv_crashSync (n : Nat) (byz : Nat → Bool) (sys : Sys) (i : Nat) (h r : Nat) (b : Blk)
    (signers : List Nat) (cut k : Nat) (hi : SysInv n byz sys) (hbi : byz i = false)
    (hk : ∀ v, v ∈ syncVotes h r b signers → v ∈ sys.soup) (hp : (sys.st i).eff.length ≤ cut) :
    SysInv n byz (sys.crashSyncStep i h r b signers cut k) := by
  obtain ⟨h1, h2⟩ := m3_syncEv (sys.st i) h r b signers hk (hi.mach i hbi)
  refine sysInv_update n byz sys i _ hi hbi (m3_crash _ cut k h1) ?_
  show sentOf (sys.st i).eff <+: sentOf ((syncEv (sys.st i) h r b signers).eff.take cut ++ [.crash k])
  rw [sentOf_nonsend _ _ (by intro m; simp)]
  apply sentOf_prefix
  exact List.prefix_take_iff.mpr ⟨h2, hp⟩

theorem sysInv_restart (n : Nat) (byz : Nat → Bool) (sys : Sys) (i : Nat) (hi : SysInv n byz sys)
    (hbi : byz i = false) (hns : (sys.st i).started = false) (hsc : SignClosed (sys.st i).eff)
    (hr : RLS (sys.st i)) : SysInv n byz (sys.step i .start) := by
  obtain ⟨h1, h2⟩ := m3_start (sys.st i) hns hsc hr (hi.mach i hbi)
  exact sysInv_update n byz sys i _ hi hbi h1 (sentOf_prefix h2)

theorem reachC_sysInv (n : Nat) (byz : Nat → Bool) (sys : Sys) (hr : ReachC RLS n byz sys) :
    SysInv n byz sys := by
  induction hr with
  | init => exact sysInv_init n byz
  | byzVote sys v _ hb ih => exact sysInv_byz n byz sys v ih hb
  | event sys i e _ hbi hn hl ih => exact sysInv_event n byz sys i e ih hbi hn hl
  | sync sys i h r b sg _ hbi hk ih => exact sysInv_sync n byz sys i h r b sg ih hbi hk
  | crashEvent sys i e cut k _ hbi hn hl hp ih => exact sysInv_crashEvent n byz sys i e cut k ih hbi hn hl hp
  | crashSync sys i h r b sg cut k _ hbi hk hp ih => exact sysInv_crashSync n byz sys i h r b sg cut k ih hbi hk hp
  | restart sys i _ hbi hns hsc hP ih => exact sysInv_restart n byz sys i ih hbi hns hsc hP

theorem reach_sysInv (n : Nat) (byz : Nat → Bool) (sys : Sys) (hr : Reach n byz sys) : SysInv n byz sys :=
  reachC_sysInv n byz sys (reachC_of_reach hr)

/-! ### from the soup of vote records to the abstract one-height history -/

def toVote (x : VoteRec) : Vote := ⟨x.signer, x.typ, x.round, x.val⟩

/-- the votes of height `h` in the soup, in signing order: a history of Model/C01Abs -/
def projH (h : Nat) (soup : List VoteRec) : List Vote :=
  soup.filterMap (fun x => if x.height = h then some (toVote x) else none)

theorem mem_projH {h : Nat} {soup : List VoteRec} {v : Vote} :
    v ∈ projH h soup ↔ ∃ x, x ∈ soup ∧ x.height = h ∧ toVote x = v := by
  unfold projH
  rw [List.mem_filterMap]
  constructor
  · rintro ⟨x, hx, he⟩
    split at he
    · rename_i hh; simp at he; exact ⟨x, hx, hh, he⟩
    · cases he
  · rintro ⟨x, hx, hh, he⟩
    exact ⟨x, hx, by rw [if_pos hh, he]⟩

theorem projH_split {h : Nat} {soup : List VoteRec} {A' B' : List Vote} {v' : Vote}
    (hd : projH h soup = A' ++ v' :: B') :
    ∃ A x B, soup = A ++ x :: B ∧ projH h A = A' ∧ x.height = h ∧ toVote x = v' := by
  unfold projH at hd
  rw [List.filterMap_eq_append_iff] at hd
  obtain ⟨l1, l2, rfl, h1, h2⟩ := hd
  rw [List.filterMap_eq_cons_iff] at h2
  obtain ⟨l3, a, l4, rfl, h3, h4, _⟩ := h2
  refine ⟨l1 ++ l3, a, l4, by simp, ?_, ?_⟩
  · unfold projH
    rw [List.filterMap_append, h1]
    have : List.filterMap (fun x => if x.height = h then some (toVote x) else none) l3 = [] := by
      rw [List.filterMap_eq_nil_iff]; exact h3
    rw [this]; simp
  · split at h4
    · rename_i hh; simp at h4; exact ⟨hh, h4⟩
    · cases h4

theorem over23_of_soupQ {n : Nat} {A : List VoteRec} {h : Nat} {t : VType} {r : Nat} {y : Option Blk}
    (hq : soupQ n A h t r y) : over23 n (voters n (projH h A) t r y) := by
  unfold soupQ at hq
  unfold over23 voters
  have := countP_mono_imp (List.range n)
    (fun i => decide ((⟨i, h, t, r, y⟩ : VoteRec) ∈ A))
    (fun i => decide ((⟨i, t, r, y⟩ : Vote) ∈ projH h A))
    (by
      intro x hx
      simp only [decide_eq_true_eq] at hx ⊢
      exact mem_projH.mpr ⟨_, hx, rfl, rfl⟩)
  omega

theorem getElem?_split {α : Type} {H : List α} {t : Nat} {w : α} (h : H[t]? = some w) :
    H = H.take t ++ w :: H.drop (t + 1) := by
  obtain ⟨ht, he⟩ := List.getElem?_eq_some_iff.mp h
  have h1 : H.drop t = H[t] :: H.drop (t + 1) := List.drop_eq_getElem_cons ht
  calc H = H.take t ++ H.drop t := (List.take_append_drop t H).symm
    _ = _ := by rw [h1, he]

theorem lexLt_round_le {a b : Key} (h : lexLt a b) (hh : a.1 = b.1) : a.2.1 ≤ b.2.1 := by
  unfold lexLt at h; omega

/-- the soup of a reachable system state, restricted to one height, satisfies G0–G3 -/
theorem guarantees_of_sysInv (n : Nat) (byz : Nat → Bool) (sys : Sys) (hi : SysInv n byz sys) (h : Nat) :
    Guarantees n byz (projH h sys.soup) := by
  refine ⟨?_, ?_, ?_, ?_⟩
  · -- G0
    intro s t v w hst hs ht hsg hb
    have hp : (projH h sys.soup).Pairwise
        (fun v w : Vote => v.signer = w.signer → byz v.signer = false → v.round ≤ w.round) := by
      unfold projH
      refine List.Pairwise.filterMap _ ?_ hi.ord
      intro a a' hr b hb b' hb' hsg hbz
      split at hb
      · rename_i ha
        split at hb'
        · rename_i ha'
          simp at hb hb'
          subst hb; subst hb'
          have := hr hsg hbz
          exact lexLt_round_le this (by show a.height = a'.height; rw [ha, ha'])
        · cases hb'
      · cases hb
    rw [List.pairwise_iff_getElem] at hp
    obtain ⟨hs1, hs2⟩ := List.getElem?_eq_some_iff.mp hs
    obtain ⟨ht1, ht2⟩ := List.getElem?_eq_some_iff.mp ht
    have := hp s t hs1 ht1 hst
    rw [hs2, ht2] at this
    exact this hsg hb
  · -- G1
    intro v w hv hw hsg hb hty hrd
    obtain ⟨x, hx, hxh, rfl⟩ := mem_projH.mp hv
    obtain ⟨y, hy, hyh, rfl⟩ := mem_projH.mp hw
    have hsg' : x.signer = y.signer := hsg
    have hb' : byz x.signer = false := hb
    have ox := hi.own x hx hb'
    have oy := hi.own y hy (by rw [← hsg']; exact hb')
    rw [← hsg'] at oy
    have hty' : x.typ = y.typ := hty
    have hrd' : x.round = y.round := hrd
    have := pairwise_msgLt_unique (hi.mach x.signer hb').inv.inc ox oy
      (by unfold voteKey; rw [hxh, hyh, hrd', hty'])
    rw [this]
  · -- G2
    intro t v b ht hb hty hval
    have hd := getElem?_split ht
    obtain ⟨A, x, B, hsoup, hA, hxh, hxv⟩ := projH_split hd
    subst hxv
    have := hi.g2 A x B b hsoup hb hty hval
    rw [hxh] at this
    rw [← hA]
    exact over23_of_soupQ this
  · -- G3
    intro s t v w b hst hs ht hsg hb hty hval htw hr hne
    have hd := getElem?_split ht
    obtain ⟨A, x, B, hsoup, hA, hxh, hxv⟩ := projH_split hd
    subst hxv
    have hvm : v ∈ (projH h sys.soup).take t := by
      rw [List.mem_take_iff_getElem]
      obtain ⟨hs1, hs2⟩ := List.getElem?_eq_some_iff.mp hs
      exact ⟨s, by omega, hs2⟩
    rw [← hA] at hvm
    obtain ⟨xv, hxv, hxvh, rfl⟩ := mem_projH.mp hvm
    have hbw : byz x.signer = false := by
      have h1 : xv.signer = x.signer := hsg
      have h2 : byz xv.signer = false := hb
      rw [← h1]; exact h2
    obtain ⟨r'', y, c1, c2, c3, c4⟩ :=
      hi.g3 A x B hsoup hbw htw xv b hxv hsg hty hval (by rw [hxvh, hxh]) hr hne
    rw [hxh] at c4
    refine ⟨r'', y, c1, c2, c3, ?_⟩
    rw [← hA]
    exact over23_of_soupQ c4

/-- a Finalize effect of a correct validator has a commit quorum in the soup -/
theorem commitQ_of_finalize (n : Nat) (byz : Nat → Bool) (sys : Sys) (hi : SysInv n byz sys)
    (i : Nat) (hbi : byz i = false) (h : Nat) (b : Blk) (hf : (h, b) ∈ finalizedOf (sys.st i).eff) :
    ∃ r, commitQ n (projH h sys.soup) r b := by
  obtain ⟨pre, post, hd⟩ := mem_finalizedOf hf
  obtain ⟨r, hq⟩ := (hi.mach i hbi).trf.tr.fin pre h b post hd
  refine ⟨r, over23_of_soupQ (soupQ_of_known ?_ hq)⟩
  intro x hk
  rcases hk with hk | hk
  · exact hk
  · exact hi.sub i hbi x (by rw [hd, sentOf_append]; exact List.mem_append_left _ hk)

/-- **Agreement with crash / restart, under RestoreLockSound.** -/
theorem agreement_partial (n : Nat) (byz : Nat → Bool) (hb : fewByz n byz) (sys : Sys)
    (hr : ReachC RLS n byz sys) (i j : Nat) (hi : byz i = false) (hj : byz j = false) (h : Nat) (b b' : Blk)
    (h1 : (h, b) ∈ finalizedOf (sys.st i).eff) (h2 : (h, b') ∈ finalizedOf (sys.st j).eff) : b = b' := by
  have inv := reachC_sysInv n byz sys hr
  obtain ⟨r1, c1⟩ := commitQ_of_finalize n byz sys inv i hi h b h1
  obtain ⟨r2, c2⟩ := commitQ_of_finalize n byz sys inv j hj h b' h2
  exact agreement_abs n byz (projH h sys.soup) hb (guarantees_of_sysInv n byz sys inv h) r1 b r2 b' c1 c2

/-- **Agreement, no crash.** -/
theorem agreement_nocrash (n : Nat) (byz : Nat → Bool) (hb : fewByz n byz) (sys : Sys)
    (hr : Reach n byz sys) (i j : Nat) (hi : byz i = false) (hj : byz j = false) (h : Nat) (b b' : Blk)
    (h1 : (h, b) ∈ finalizedOf (sys.st i).eff) (h2 : (h, b') ∈ finalizedOf (sys.st j).eff) : b = b' :=
  agreement_partial n byz hb sys (reachC_of_reach hr) i j hi hj h b b' h1 h2

/-! ### concrete system histories (used for the non-vacuity examples) -/

inductive Step where
  | byz (v : VoteRec)
  | ev (i : Nat) (e : Event)
  | sync (i : Nat) (h r : Nat) (b : Blk) (signers : List Nat)

def Sys.next (sys : Sys) : Step → Sys
  | .byz v => ⟨sys.soup ++ [v], sys.st⟩
  | .ev i e => sys.step i e
  | .sync i h r b sg => sys.syncStep i h r b sg

def Sys.run (sys : Sys) : List Step → Sys
  | [] => sys
  | st :: t => Sys.run (sys.next st) t

def Event.noCrashB : Event → Bool
  | .crash _ _ => false
  | .start => false
  | _ => true

theorem noCrash_of_B {e : Event} (h : e.noCrashB = true) : e.noCrash := by
  cases e <;> simp [Event.noCrashB, Event.noCrash] at *

/-- the step is enabled: a Byzantine signer, or a correct validator with a crash-free event whose vote
    (if it is a vote event) is in the soup -/
def Step.ok (byz : Nat → Bool) (sys : Sys) : Step → Bool
  | .byz v => byz v.signer
  | .ev i e => !byz i && e.noCrashB &&
      (match e with
       | .vote m => decide (m ∈ sys.soup)
       | _ => true)
  | .sync i h r b sg => !byz i && (syncVotes h r b sg).all (fun v => decide (v ∈ sys.soup))

def Sys.runOk (byz : Nat → Bool) (sys : Sys) : List Step → Bool
  | [] => true
  | st :: t => st.ok byz sys && Sys.runOk byz (sys.next st) t

def sys0 (n : Nat) : Sys := ⟨[], fun i => start { n := n, me := i }⟩

theorem reach_run (n : Nat) (byz : Nat → Bool) (sys : Sys) (steps : List Step) (hr : Reach n byz sys)
    (hok : sys.runOk byz steps = true) : Reach n byz (sys.run steps) := by
  induction steps generalizing sys with
  | nil => exact hr
  | cons st t ih =>
    unfold Sys.runOk at hok
    simp only [Bool.and_eq_true] at hok
    unfold Sys.run
    apply ih _ _ hok.2
    cases st with
    | byz v => exact Reach.byzVote sys v hr hok.1
    | ev i e =>
      have h := hok.1
      unfold Step.ok at h
      simp only [Bool.and_eq_true, Bool.not_eq_true'] at h
      refine Reach.event sys i e hr h.1.1 (noCrash_of_B h.1.2) ?_
      intro m hm
      subst hm
      simpa using h.2
    | sync i h r b sg =>
      have h' := hok.1
      unfold Step.ok at h'
      simp only [Bool.and_eq_true, Bool.not_eq_true', List.all_eq_true, decide_eq_true_eq] at h'
      exact Reach.sync sys i h r b sg hr h'.1 h'.2

/-! ### concrete histories with crash and restart -/

inductive StepC where
  | byz (v : VoteRec)
  | ev (i : Nat) (e : Event)
  | sync (i : Nat) (h r : Nat) (b : Blk) (signers : List Nat)
  | crashEv (i : Nat) (e : Event) (cut k : Nat)
  | restart (i : Nat)

def Sys.nextC (sys : Sys) : StepC → Sys
  | .byz v => ⟨sys.soup ++ [v], sys.st⟩
  | .ev i e => sys.step i e
  | .sync i h r b sg => sys.syncStep i h r b sg
  | .crashEv i e cut k => sys.crashStep i e cut k
  | .restart i => sys.step i .start

def Sys.runC (sys : Sys) : List StepC → Sys
  | [] => sys
  | st :: t => Sys.runC (sys.nextC st) t

def signClosedB (eff : List Eff) : Bool :=
  eff.all (fun e => match e with
    | .write .round (.msg (.vote v)) => decide (Msg.vote v ∈ sentOf eff)
    | _ => true)

theorem signClosed_of_B {eff : List Eff} (h : signClosedB eff = true) : SignClosed eff := by
  intro v hv
  unfold signClosedB at h
  rw [List.all_eq_true] at h
  have := h _ hv
  simpa using this

def evOk (byz : Nat → Bool) (sys : Sys) (i : Nat) (e : Event) : Bool :=
  !byz i && e.noCrashB &&
    (match e with
     | .vote m => decide (m ∈ sys.soup)
     | _ => true)

theorem evOk_spec {byz : Nat → Bool} {sys : Sys} {i : Nat} {e : Event} (h : evOk byz sys i e = true) :
    byz i = false ∧ e.noCrash ∧ ∀ m, e = .vote m → m ∈ sys.soup := by
  unfold evOk at h
  simp only [Bool.and_eq_true, Bool.not_eq_true'] at h
  refine ⟨h.1.1, noCrash_of_B h.1.2, ?_⟩
  intro m hm
  subst hm
  simpa using h.2

def StepC.ok (byz : Nat → Bool) (sys : Sys) : StepC → Bool
  | .byz v => byz v.signer
  | .ev i e => evOk byz sys i e
  | .sync i h r b sg => !byz i && (syncVotes h r b sg).all (fun v => decide (v ∈ sys.soup))
  | .crashEv i e cut _ => evOk byz sys i e && decide ((sys.st i).eff.length ≤ cut)
  | .restart i => !byz i && !(sys.st i).started && signClosedB (sys.st i).eff && decide (RLS (sys.st i))

def Sys.runOkC (byz : Nat → Bool) (sys : Sys) : List StepC → Bool
  | [] => true
  | st :: t => st.ok byz sys && Sys.runOkC byz (sys.nextC st) t

theorem reachC_run (n : Nat) (byz : Nat → Bool) (sys : Sys) (steps : List StepC) (hr : ReachC RLS n byz sys)
    (hok : sys.runOkC byz steps = true) : ReachC RLS n byz (sys.runC steps) := by
  induction steps generalizing sys with
  | nil => exact hr
  | cons st t ih =>
    unfold Sys.runOkC at hok
    simp only [Bool.and_eq_true] at hok
    unfold Sys.runC
    apply ih _ _ hok.2
    cases st with
    | byz v => exact ReachC.byzVote sys v hr hok.1
    | ev i e =>
      obtain ⟨h1, h2, h3⟩ := evOk_spec hok.1
      exact ReachC.event sys i e hr h1 h2 h3
    | sync i h r b sg =>
      have h' := hok.1
      unfold StepC.ok at h'
      simp only [Bool.and_eq_true, Bool.not_eq_true', List.all_eq_true, decide_eq_true_eq] at h'
      exact ReachC.sync sys i h r b sg hr h'.1 h'.2
    | crashEv i e cut k =>
      have h := hok.1
      unfold StepC.ok at h
      simp only [Bool.and_eq_true, decide_eq_true_eq] at h
      obtain ⟨h1, h2, h3⟩ := evOk_spec h.1
      exact ReachC.crashEvent sys i e cut k hr h1 h2 h3 h.2
    | restart i =>
      have h := hok.1
      unfold StepC.ok at h
      simp only [Bool.and_eq_true, Bool.not_eq_true', decide_eq_true_eq] at h
      exact ReachC.restart sys i hr h.1.1.1 h.1.1.2 (signClosed_of_B h.1.2) h.2

end Goloop.C01
