/-
  Proofs/C28: lemmas for the hexary accumulator / merkle tree model.
-/
import Goloop.Model.C28
namespace Goloop.C28

/-- an explicit collision of `H` between a byte string of `xs` and one of `ys` -/
def Collision (H : Bytes → Bytes) (xs ys : List Bytes) : Prop :=
  ∃ x ∈ xs, ∃ y ∈ ys, x ≠ y ∧ H x = H y

theorem Collision.cons {H x y xs ys} (h : Collision H xs ys) : Collision H (x :: xs) (y :: ys) := by
  obtain ⟨a, ha, b, hb, hne, he⟩ := h
  exact ⟨a, by simp [ha], b, by simp [hb], hne, he⟩

theorem nodeHash_eq_cases (H : Bytes → Bytes) (hlen : ∀ x, (H x).length = 32) (x y : Bytes)
    (h : (nodeHash H x).getD [] = (nodeHash H y).getD []) : x = y ∨ (x ≠ y ∧ H x = H y) := by
  by_cases hxy : x = y
  · exact Or.inl hxy
  · right
    refine ⟨hxy, ?_⟩
    unfold nodeHash at h
    cases x with
    | nil =>
      cases y with
      | nil => exact absurd rfl hxy
      | cons b bs =>
        simp at h
        have := hlen (b :: bs); rw [h] at this; simp at this
    | cons a as =>
      cases y with
      | nil =>
        simp at h
        have := hlen (a :: as); rw [h] at this; simp at this
      | cons b bs => simpa using h

theorem addLoop_error_ne_ok (H : Bytes → Bytes) (db : DB) (key : Nat) :
    ∀ (n omt : Nat) (p : List Bytes) (br : Bytes), addLoop H db key n omt p br ≠ .error .ok := by
  intro n
  induction n with
  | zero => intro omt p br; simp [addLoop]
  | succ n ih =>
    intro omt p br
    cases omt with
    | succ o =>
      simp only [addLoop]
      cases fetch db (nodeGet br (digit key (n + 1))) with
      | none => simp
      | some b => exact ih o p b
    | zero =>
      cases p with
      | nil => simp [addLoop]
      | cons x xs =>
        simp only [addLoop]
        split
        · simp
        · split
          · simp
          · exact ih 0 xs x

/-- two runs of the verification loop of `Add` from the same branch, same key, same DB:
    the same final branch, or two different proof nodes with the same hash. -/
theorem addLoop_binding (H : Bytes → Bytes) (hlen : ∀ x, (H x).length = 32) (db : DB) (key : Nat) :
    ∀ (n omt : Nat) (p1 p2 : List Bytes) (br b1 b2 : Bytes),
      addLoop H db key n omt p1 br = .ok b1 → addLoop H db key n omt p2 br = .ok b2 →
      b1 = b2 ∨ Collision H p1 p2 := by
  intro n
  induction n with
  | zero =>
    intro omt p1 p2 br b1 b2 h1 h2
    simp [addLoop] at h1 h2
    left; rw [← h1, ← h2]
  | succ n ih =>
    intro omt p1 p2 br b1 b2 h1 h2
    cases omt with
    | succ o =>
      simp only [addLoop] at h1 h2
      cases hf : fetch db (nodeGet br (digit key (n + 1))) with
      | none => simp [hf] at h1
      | some b =>
        simp only [hf] at h1 h2
        exact ih o p1 p2 b b1 b2 h1 h2
    | zero =>
      cases p1 with
      | nil => simp [addLoop] at h1
      | cons x xs =>
        cases p2 with
        | nil => simp [addLoop] at h2
        | cons y ys =>
          simp only [addLoop] at h1 h2
          split at h1
          · cases h1
          · split at h1
            · cases h1
            · split at h2
              · cases h2
              · split at h2
                · cases h2
                · rename_i _ hx _ hy
                  have hxy : (nodeHash H x).getD [] = (nodeHash H y).getD [] := by
                    have hx' := Decidable.of_not_not hx
                    have hy' := Decidable.of_not_not hy
                    rw [hx', hy']
                  rcases nodeHash_eq_cases H hlen x y hxy with he | ⟨hne, hc⟩
                  · subst he
                    rcases ih 0 xs ys x b1 b2 h1 h2 with h | h
                    · exact Or.inl h
                    · exact Or.inr h.cons
                  · exact Or.inr ⟨x, by simp, y, by simp, hne, hc⟩

/-! ### content-addressed buckets; what `Prove` returns, `Add` accepts -/

/-- every binding of the bucket is stored under the hash of its value -/
def DBOk (H : Bytes → Bytes) (db : DB) : Prop :=
  ∀ k v, db.get k = some v → k = (nodeHash H v).getD []

theorem DBOk.nil (H : Bytes → Bytes) : DBOk H [] := by
  intro k v h; simp [DB.get] at h

theorem DBOk.set {H db} (h : DBOk H db) (v : Bytes) : DBOk H (db.set ((nodeHash H v).getD []) v) := by
  intro k v' hg
  simp only [DB.set, DB.get] at hg
  split at hg
  · rename_i he; cases hg; exact he.symm
  · exact h k v' hg

theorem DBOk.set_nonempty {H db} (h : DBOk H db) (v : Bytes) (hv : v ≠ []) : DBOk H (db.set (H v) v) := by
  have := h.set v
  have e : (nodeHash H v).getD [] = H v := by
    unfold nodeHash; cases v with
    | nil => exact absurd rfl hv
    | cons a as => simp
  rwa [e] at this

theorem putAll_dbok (H : Bytes → Bytes) : ∀ (ps : List Bytes) (db : DB), DBOk H db → DBOk H (putAll H db ps) := by
  intro ps
  induction ps with
  | nil => intro db h; simpa [putAll] using h
  | cons p ps ih => intro db h; simp only [putAll]; exact ih _ (h.set p)

theorem addAt_dbok (H : Bytes → Bytes) :
    ∀ (rs : List Bytes) (hash : Bytes) (db : DB), DBOk H db → DBOk H (addAt H rs hash db).2.1 := by
  intro rs
  induction rs with
  | nil =>
    intro hash db h
    simp only [addAt]
    cases hn : nodeAdd [] hash with
    | none => simpa using h
    | some rb =>
      simp only
      split
      · rename_i hf
        have : rb ≠ [] := by intro e; subst e; simp [nodeFull, maxNodeBytes, hashLen, maxChildren] at hf
        exact h.set_nonempty rb this
      · exact h
  | cons r rest ih =>
    intro hash db h
    simp only [addAt]
    cases hn : nodeAdd r hash with
    | none => simpa using h
    | some rb =>
      simp only
      split
      · rename_i hf
        have : rb ≠ [] := by intro e; subst e; simp [nodeFull, maxNodeBytes, hashLen, maxChildren] at hf
        exact ih (H rb) _ (h.set_nonempty rb this)
      · exact h

theorem carryFold_dbok (H : Bytes → Bytes) (store : Bool) :
    ∀ (rs : List Bytes) (carry : Option Bytes) (db : DB) (c : Option Bytes) (db' : DB),
      DBOk H db → carryFold H store rs carry db = some (c, db') → DBOk H db' := by
  intro rs
  induction rs with
  | nil => intro carry db c db' h he; simp [carryFold] at he; rw [← he.2]; exact h
  | cons r rest ih =>
    intro carry db c db' h he
    simp only [carryFold] at he
    split at he
    · cases he
    · rename_i r' _
      split at he
      · exact ih _ _ _ _ h he
      · split at he
        · rename_i hh hx
          have hne : r' ≠ [] := by
            intro e; subst e; simp [nodeHash] at hx
          have hh' : hh = H r' := by
            unfold nodeHash at hx
            cases r' with
            | nil => exact absurd rfl hne
            | cons a as => simp at hx; exact hx.symm
          cases store with
          | false => exact ih _ _ _ _ h he
          | true =>
            simp only [if_true] at he
            rw [hh'] at he
            exact ih _ _ _ _ (h.set_nonempty r' hne) he
        · exact ih _ _ _ _ h he

theorem proveLoop_length (db : DB) (key : Nat) :
    ∀ (n : Nat) (br : Bytes) (p : List Bytes), proveLoop db key n br = some p → p.length = n := by
  intro n
  induction n with
  | zero => intro br p h; simp [proveLoop] at h; simp [← h]
  | succ n ih =>
    intro br p h
    simp only [proveLoop] at h
    cases hf : fetch db (nodeGet br (digit key (n + 1))) with
    | none => simp [hf] at h
    | some b =>
      simp only [hf] at h
      cases hp : proveLoop db key n b with
      | none => simp [hp] at h
      | some p' => simp [hp] at h; subst h; simp [ih b p' hp]

/-- the node a proof ends in (the root branch for an empty proof) -/
def lastNode (br : Bytes) (p : List Bytes) : Bytes := p.getLast?.getD br

theorem fetch_ok {H db} (hdb : DBOk H db) {cur : Option Bytes} {b : Bytes} (h : fetch db cur = some b) :
    validNode b = true ∧ cur.getD [] = (nodeHash H b).getD [] := by
  unfold fetch at h
  cases hg : db.get (cur.getD []) with
  | none => simp [hg] at h
  | some bs =>
    simp only [hg] at h
    split at h
    · rename_i hv; cases h; exact ⟨hv, hdb _ _ hg⟩
    · cases h

/-- a path read by `Prove` from a content-addressed bucket passes the checks of `Add`
    (with nothing omitted), whatever the verifier's own bucket holds -/
theorem proveLoop_addLoop (H : Bytes → Bytes) (db db2 : DB) (hdb : DBOk H db) (key : Nat) :
    ∀ (n : Nat) (br : Bytes) (p : List Bytes), proveLoop db key n br = some p →
      addLoop H db2 key n 0 p br = .ok (lastNode br p) := by
  intro n
  induction n with
  | zero => intro br p h; simp [proveLoop] at h; subst h; simp [addLoop, lastNode]
  | succ n ih =>
    intro br p h
    simp only [proveLoop] at h
    cases hf : fetch db (nodeGet br (digit key (n + 1))) with
    | none => simp [hf] at h
    | some b =>
      simp only [hf] at h
      cases hp : proveLoop db key n b with
      | none => simp [hp] at h
      | some p' =>
        simp [hp] at h; subst h
        obtain ⟨hv, hk⟩ := fetch_ok hdb hf
        simp only [addLoop, hv, hk]
        simp only [not_true_eq_false, if_false, ne_eq]
        rw [ih b p' hp]
        congr 1
        unfold lastNode
        cases p' with
        | nil => simp
        | cons q qs => simp [List.getLast?_cons_cons, List.getLast?_eq_some_getLast]

/-- the carry computed by `GetMerkleHeader` and by `Finalize` is the same -/
theorem carryFold_carry_eq (H : Bytes → Bytes) :
    ∀ (rs : List Bytes) (carry : Option Bytes) (db1 db2 : DB),
      (carryFold H false rs carry db1).map Prod.fst = (carryFold H true rs carry db2).map Prod.fst := by
  intro rs
  induction rs with
  | nil => intro carry db1 db2; simp [carryFold]
  | cons r rest ih =>
    intro carry db1 db2
    simp only [carryFold]
    split
    · rfl
    · split
      · exact ih _ _ _
      · split
        · exact ih _ _ _
        · exact ih _ _ _

/-! ### roots are the base-16 digits of the length -/

def WFRoots (rs : List Bytes) : Prop := ∀ r ∈ rs, r.length % 32 = 0 ∧ r.length < 512

def inc16 : List Nat → List Nat
  | [] => [1]
  | d :: r => if d + 1 = 16 then 0 :: inc16 r else (d + 1) :: r

/-- little-endian base-16 digits of `n` (no trailing zero digit) -/
def digits16 : Nat → List Nat
  | 0 => []
  | n + 1 => (n + 1) % 16 :: digits16 ((n + 1) / 16)
decreasing_by omega

theorem inc16_digits16 : ∀ n, inc16 (digits16 n) = digits16 (n + 1) := by
  intro n
  induction n using Nat.strongRecOn with
  | _ n ih =>
    cases n with
    | zero => simp [digits16, inc16]
    | succ m =>
      rw [digits16, digits16]
      by_cases hc : (m + 1) % 16 + 1 = 16
      · have h2 : (m + 1 + 1) % 16 = 0 := by omega
        have h3 : (m + 1 + 1) / 16 = (m + 1) / 16 + 1 := by omega
        simp only [inc16, hc, if_true, h2, h3]
        rw [ih ((m + 1) / 16) (by omega)]
      · have h2 : (m + 1 + 1) % 16 = (m + 1) % 16 + 1 := by omega
        have h3 : (m + 1 + 1) / 16 = (m + 1) / 16 := by omega
        simp only [inc16, hc, if_false, h2, h3]

theorem addAt_shape (H : Bytes → Bytes) (hlen : ∀ x, (H x).length = 32) :
    ∀ (rs : List Bytes) (hash : Bytes) (db : DB), hash.length = 32 → WFRoots rs →
      (addAt H rs hash db).2.2 = true ∧ WFRoots (addAt H rs hash db).1 ∧
      (addAt H rs hash db).1.map nodeLen = inc16 (rs.map nodeLen) := by
  intro rs
  induction rs with
  | nil =>
    intro hash db hh _
    simp [addAt, nodeAdd, hashLen, hh, nodeFull, maxNodeBytes, maxChildren, WFRoots, nodeLen, inc16]
  | cons r rest ih =>
    intro hash db hh hwf
    obtain ⟨hr1, hr2⟩ := hwf r (by simp)
    have hrest : WFRoots rest := fun x hx => hwf x (by simp [hx])
    have hna : nodeAdd r hash = some (r ++ hash) := by
      unfold nodeAdd nodeFull maxNodeBytes maxChildren hashLen
      have h1 : ¬ hash.length ≠ 32 := by omega
      have h2 : ¬ (decide (r.length = 32 * 16) = true) := by simp; omega
      simp only [h1, h2, if_false]
      simp
    simp only [addAt, hna]
    by_cases hf : nodeFull (r ++ hash) = true
    · simp only [hf, if_true]
      obtain ⟨i1, i2, i3⟩ := ih (H (r ++ hash)) (db.set (H (r ++ hash)) (r ++ hash)) (hlen _) hrest
      have hfull : r.length + 32 = 512 := by
        simpa [nodeFull, maxNodeBytes, maxChildren, hashLen, hh] using hf
      refine ⟨i1, ?_, ?_⟩
      · intro x hx
        simp only [List.mem_cons] at hx
        rcases hx with hx | hx
        · subst hx; simp
        · exact i2 x hx
      · have : nodeLen r + 1 = 16 := by simp only [nodeLen, hashLen]; omega
        have hnil : nodeLen ([] : Bytes) = 0 := rfl
        simp [i3, inc16, this, hnil]
    · simp only [hf]
      have hnf : r.length + 32 ≠ 512 := by
        intro e; apply hf; simp [nodeFull, maxNodeBytes, maxChildren, hashLen, hh, e]
      refine ⟨rfl, ?_, ?_⟩
      · intro x hx
        simp only [Bool.false_eq_true, if_false, List.mem_cons] at hx
        rcases hx with hx | hx
        · subst hx; simp [hh]; omega
        · exact hrest x hx

      · have h1 : nodeLen (r ++ hash) = nodeLen r + 1 := by simp [nodeLen, hashLen, hh]
        have h2 : ¬ nodeLen r + 1 = 16 := by simp only [nodeLen, hashLen]; omega
        simp [h1, inc16, h2]

/-! ### `LevelFromLen` -/

theorem bitLen_bounds (m : Nat) : m < 2 ^ bitLen m ∧ (m ≠ 0 → 2 ^ (bitLen m - 1) ≤ m) := by
  unfold bitLen
  split
  · rename_i h; subst h; simp
  · rename_i h
    exact ⟨Nat.lt_log2_self, fun _ => by simpa using Nat.log2_self_le h⟩

/-- `LevelFromLen(n)` is the height of the smallest 16-ary tree with at least `n` leaves -/
theorem levelFromLen_spec (n : Nat) (hn : 0 < n) :
    n ≤ 16 ^ levelFromLen n ∧ (1 < n → 16 ^ (levelFromLen n - 1) < n) := by
  unfold levelFromLen
  have h0 : n ≠ 0 := by omega
  simp only [h0, if_false]
  obtain ⟨hu, hl⟩ := bitLen_bounds (n - 1)
  have e16 : ∀ k, 16 ^ k = 2 ^ (4 * k) := by intro k; rw [Nat.pow_mul]
  constructor
  · rw [e16]
    have : 2 ^ bitLen (n - 1) ≤ 2 ^ (4 * ((bitLen (n - 1) + 3) / 4)) :=
      Nat.pow_le_pow_right (by omega) (by omega)
    omega
  · intro h1
    have hne : n - 1 ≠ 0 := by omega
    have hl' := hl hne
    rw [e16]
    have hb : bitLen (n - 1) ≠ 0 := by
      unfold bitLen; simp [hne]
    have : 2 ^ (4 * ((bitLen (n - 1) + 3) / 4 - 1)) ≤ 2 ^ (bitLen (n - 1) - 1) :=
      Nat.pow_le_pow_right (by omega) (by omega)
    omega

end Goloop.C28
