/-
  Proofs/C01Val — invariants of the transcribed single-validator machine (Model/C01).
-/
import Goloop.Model.C01
namespace Goloop.C01

abbrev Key := Nat × Nat × Nat

def voteKey (v : VoteRec) : Key := (v.height, v.round, mstepOf v.typ)

def lexLt (a b : Key) : Prop :=
  a.1 < b.1 ∨ (a.1 = b.1 ∧ (a.2.1 < b.2.1 ∨ (a.2.1 = b.2.1 ∧ a.2.2 < b.2.2)))

def lexLe (a b : Key) : Prop :=
  a.1 < b.1 ∨ (a.1 = b.1 ∧ (a.2.1 < b.2.1 ∨ (a.2.1 = b.2.1 ∧ a.2.2 ≤ b.2.2)))

/-- step-key of a signed message: a proposal is signed in step propose, a prevote in prevote … -/
def msgKey : Msg → Key
  | .proposal _ h r _ _ => (h, r, stPropose)
  | .vote v => voteKey v

/-- "signed earlier with a strictly smaller key" -/
def msgLt (a b : Msg) : Prop := lexLt (msgKey a) (msgKey b)

/-- control projection: the only fields the invariant talks about -/
structure Ctrl where
  height : Nat
  round : Nat
  step : Nat
  pend : Pend
  sent : List Msg
  stuck : Bool

def ctrl (s : S) : Ctrl := ⟨s.height, s.round, s.step, s.pend, sentOf s.eff, s.stuck⟩

/-- an outstanding BlockManager callback that may still sign a message: `(h, r, lo, hi)` — it signs a
    message with step-key `lo` of round (h, r) if it fires while `lo ≤ step ≤ hi` -/
def pendWin : Pend → Option (Nat × Nat × Nat × Nat)
  | .import_ h r _ => some (h, r, 4, 5)
  | .propose h r => some (h, r, 3, 3)
  | _ => none

def pendCurrent (c : Ctrl) (lo hi : Nat) : Prop := pendWin c.pend = some (c.height, c.round, lo, hi)

structure CoreC (c : Ctrl) : Prop where
  /-- every message signed so far has a key ≤ (height, round, step) -/
  bnd : ∀ m, m ∈ c.sent → lexLe (msgKey m) (c.height, c.round, c.step)
  /-- messages were signed with strictly increasing keys -/
  inc : c.sent.Pairwise msgLt
  /-- an outstanding callback of the current round that can still sign: nothing with its key was signed -/
  imp : c.stuck = false → ∀ lo hi, pendCurrent c lo hi →
        lo ≤ c.step ∧ (c.step ≤ hi → ∀ m, m ∈ c.sent → lexLt (msgKey m) (c.height, c.round, lo))
  /-- callbacks are never for a future round -/
  pnd : ∀ h r lo hi, pendWin c.pend = some (h, r, lo, hi) → h < c.height ∨ (h = c.height ∧ r ≤ c.round)

def Core (s : S) : Prop := CoreC (ctrl s)

theorem sentOf_append (a b : List Eff) : sentOf (a ++ b) = sentOf a ++ sentOf b := by
  induction a with
  | nil => rfl
  | cons e t ih => cases e <;> simp [sentOf, ih]

@[simp] theorem sentOf_emit_write (s : S) (w : Wal) (r : Rec) : sentOf (s.emit (.write w r)).eff = sentOf s.eff := by
  simp [S.emit, sentOf_append, sentOf]
@[simp] theorem sentOf_emit_sync (s : S) (w : Wal) : sentOf (s.emit (.sync w)).eff = sentOf s.eff := by
  simp [S.emit, sentOf_append, sentOf]
@[simp] theorem sentOf_emit_fin (s : S) (h b : Nat) : sentOf (s.emit (.finalize h b)).eff = sentOf s.eff := by
  simp [S.emit, sentOf_append, sentOf]
@[simp] theorem sentOf_emit_send (s : S) (m : Msg) : sentOf (s.emit (.send m)).eff = sentOf s.eff ++ [m] := by
  simp [S.emit, sentOf_append, sentOf]

end Goloop.C01

namespace Goloop.C01

/-! ### restart: applyRoundWAL restores a (round, step) that dominates every own vote in the WAL -/

def le2 (a b : Nat × Nat) : Prop := a.1 < b.1 ∨ (a.1 = b.1 ∧ a.2 ≤ b.2)

/-- fields that the WAL replay never touches -/
def sameId (s s' : S) : Prop := s'.height = s.height ∧ s'.me = s.me ∧ s'.n = s.n

theorem hvsAdd_keep (s : S) (m : VoteRec) :
    sameId s (s.hvsAdd m).2 ∧ (s.hvsAdd m).2.round = s.round ∧ (s.hvsAdd m).2.step = s.step := by
  unfold S.hvsAdd sameId
  simp only []
  split <;> simp

theorem addVotes_keep (s : S) (vl : List VoteRec) :
    sameId s (addVotes s vl) ∧ (addVotes s vl).round = s.round ∧ (addVotes s vl).step = s.step := by
  induction vl generalizing s with
  | nil => simp [addVotes, sameId]
  | cons v t ih =>
    unfold addVotes
    split
    · exact ih s
    · split
      · exact ih s
      · have h1 := hvsAdd_keep s v
        have h2 := ih (s.hvsAdd v).2
        unfold sameId at *
        omega

theorem advanceByList_keep (s : S) (v : VoteRec) :
    sameId s (advanceByList s v) ∧ le2 (s.round, s.step) ((advanceByList s v).round, (advanceByList s v).step) := by
  unfold advanceByList sameId le2
  simp only []
  split
  · simp
  · split
    · split
      · rename_i h _
        simp only [Bool.or_eq_true, Bool.and_eq_true, decide_eq_true_eq, beq_iff_eq] at h
        simp only [true_and]
        omega
      · simp
    · simp

theorem applyRoundWAL_keep (s : S) (W : List Rec) :
    sameId s (applyRoundWAL s W) ∧ le2 (s.round, s.step) ((applyRoundWAL s W).round, (applyRoundWAL s W).step) := by
  induction W generalizing s with
  | nil => simp [applyRoundWAL, sameId, le2]
  | cons r t ih =>
    cases r with
    | msg m =>
      cases m with
      | proposal sg h r b pol =>
        unfold applyRoundWAL
        split
        · exact ih s
        · split
          · exact ih s
          · split
            · rename_i hc
              simp only [Bool.or_eq_true, Bool.and_eq_true, decide_eq_true_eq, beq_iff_eq] at hc
              have := ih { s with round := r, step := stPropose }
              unfold sameId le2 at *
              simp only [] at this
              omega
            · exact ih s
      | vote m =>
        unfold applyRoundWAL
        split
        · exact ih s
        · split
          · exact ih s
          · split
            · exact ih s
            · have hk := hvsAdd_keep s m
              simp only []
              split
              · rename_i hc
                simp only [Bool.or_eq_true, Bool.and_eq_true, decide_eq_true_eq, beq_iff_eq] at hc
                have := ih { (s.hvsAdd m).2 with round := m.round, step := mstepOf m.typ }
                unfold sameId le2 at *
                simp only [] at this
                omega
              · have := ih (s.hvsAdd m).2
                unfold sameId le2 at *
                omega
    | voteList vl =>
      unfold applyRoundWAL
      have hk := addVotes_keep s vl
      simp only []
      split
      · have := ih (addVotes s [])
        unfold sameId le2 at *
        omega
      · rename_i v vs
        have ha := advanceByList_keep (addVotes s (v :: vs)) v
        have := ih (advanceByList (addVotes s (v :: vs)) v)
        unfold sameId le2 at *
        omega
    | blockPart h b =>
      unfold applyRoundWAL
      exact ih s

/-- **Restart dominates own votes.**  Whatever the durable round WAL contains (any list of records:
    any crash point, any torn tail already cut off), every own vote of the current height found in
    it is dominated by the restored `(round, step)`: `Start` therefore re-enters at or after the step
    in which that vote was cast and never at a point before it. -/
theorem applyRoundWAL_dominates (s : S) (W : List Rec) (v : VoteRec)
    (hv : Rec.msg (.vote v) ∈ W) (hh : v.height = s.height) (hm : v.signer = s.me) (hn : s.me < s.n) :
    le2 (v.round, mstepOf v.typ) ((applyRoundWAL s W).round, (applyRoundWAL s W).step) := by
  induction W generalizing s with
  | nil => cases hv
  | cons r t ih =>
    rcases List.mem_cons.mp hv with heq | hin
    · subst heq
      unfold applyRoundWAL
      rw [if_neg (by simp [hh]), if_neg (by simp [hm]), if_neg (by simp [hm]; omega)]
      have hk := hvsAdd_keep s v
      simp only []
      split
      · have := applyRoundWAL_keep { (s.hvsAdd v).2 with round := v.round, step := mstepOf v.typ } t
        unfold sameId le2 at *
        simp only [] at this
        omega
      · rename_i hc
        simp only [Bool.or_eq_true, Bool.and_eq_true, decide_eq_true_eq, beq_iff_eq, not_or, not_and] at hc
        have := applyRoundWAL_keep (s.hvsAdd v).2 t
        unfold sameId le2 at *
        omega
    · -- the vote is further down: the head record keeps height / me / n
      have step : ∀ s1 : S, sameId s s1 →
          le2 (v.round, mstepOf v.typ) ((applyRoundWAL s1 t).round, (applyRoundWAL s1 t).step) := by
        intro s1 h1
        unfold sameId at h1
        exact ih s1 hin (by omega) (by omega) (by omega)
      cases r with
      | msg m =>
        cases m with
        | proposal sg h r b pol =>
          unfold applyRoundWAL
          split
          · exact step s ⟨rfl, rfl, rfl⟩
          · split
            · exact step s ⟨rfl, rfl, rfl⟩
            · split
              · exact step _ ⟨rfl, rfl, rfl⟩
              · exact step s ⟨rfl, rfl, rfl⟩
        | vote m =>
          unfold applyRoundWAL
          have hk := (hvsAdd_keep s m).1
          split
          · exact step s ⟨rfl, rfl, rfl⟩
          · split
            · exact step s ⟨rfl, rfl, rfl⟩
            · split
              · exact step s ⟨rfl, rfl, rfl⟩
              · simp only []
                split
                · exact step _ hk
                · exact step _ hk
      | voteList vl =>
        unfold applyRoundWAL
        have hk := (addVotes_keep s vl).1
        simp only []
        split
        · exact step _ (addVotes_keep s []).1
        · rename_i w ws
          have ha := (advanceByList_keep (addVotes s (w :: ws)) w).1
          exact step _ (by unfold sameId at *; omega)
      | blockPart h b =>
        unfold applyRoundWAL
        exact step s ⟨rfl, rfl, rfl⟩


/-- the same for an own proposal found in the WAL -/
theorem applyRoundWAL_dominates_prop (s : S) (W : List Rec) (sg h r : Nat) (b : Blk) (pol : Int)
    (hv : Rec.msg (.proposal sg h r b pol) ∈ W) (hh : h = s.height) (hm : sg = s.me) :
    le2 (r, stPropose) ((applyRoundWAL s W).round, (applyRoundWAL s W).step) := by
  induction W generalizing s with
  | nil => cases hv
  | cons x t ih =>
    rcases List.mem_cons.mp hv with heq | hin
    · subst heq
      unfold applyRoundWAL
      rw [if_neg (by simp [hh]), if_neg (by simp [hm])]
      split
      · have := applyRoundWAL_keep { s with round := r, step := stPropose } t
        unfold sameId le2 at *
        simp only [] at this
        omega
      · rename_i hc
        simp only [Bool.or_eq_true, Bool.and_eq_true, decide_eq_true_eq, beq_iff_eq, not_or, not_and] at hc
        have := applyRoundWAL_keep s t
        unfold sameId le2 at *
        omega
    · have step : ∀ s1 : S, sameId s s1 →
          le2 (r, stPropose) ((applyRoundWAL s1 t).round, (applyRoundWAL s1 t).step) := by
        intro s1 h1
        unfold sameId at h1
        exact ih s1 hin (by omega) (by omega)
      cases x with
      | msg m =>
        cases m with
        | proposal sg' h' r' b' pol' =>
          unfold applyRoundWAL
          split
          · exact step s ⟨rfl, rfl, rfl⟩
          · split
            · exact step s ⟨rfl, rfl, rfl⟩
            · split
              · exact step _ ⟨rfl, rfl, rfl⟩
              · exact step s ⟨rfl, rfl, rfl⟩
        | vote m =>
          unfold applyRoundWAL
          have hk := (hvsAdd_keep s m).1
          split
          · exact step s ⟨rfl, rfl, rfl⟩
          · split
            · exact step s ⟨rfl, rfl, rfl⟩
            · split
              · exact step s ⟨rfl, rfl, rfl⟩
              · simp only []
                split
                · exact step _ hk
                · exact step _ hk
      | voteList vl =>
        unfold applyRoundWAL
        have hk := (addVotes_keep s vl).1
        simp only []
        split
        · exact step _ (addVotes_keep s []).1
        · rename_i w ws
          have ha := (advanceByList_keep (addVotes s (w :: ws)) w).1
          exact step _ (by unfold sameId at *; omega)
      | blockPart h b =>
        unfold applyRoundWAL
        exact step s ⟨rfl, rfl, rfl⟩

end Goloop.C01
