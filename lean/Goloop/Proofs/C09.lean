/-
  Proofs/C09: lemmas about the lock-request bookkeeping (applyLockRequests / getLocker / setLocker).
-/
import Goloop.Model.C09
namespace Goloop.C09.Proofs
open Goloop.C09

def hasW (m : List (Nat × Lk)) (a : Nat) : Bool := m.any (fun p => p.1 = a ∧ p.2 = .write)

theorem lk_num_le (l : Lk) : l.num ≤ 2 := by cases l <;> simp [Lk.num]
theorem lk_num_eq_two {l : Lk} : l.num = 2 ↔ l = .write := by cases l <;> simp [Lk.num]

/-! ### world lock -/

def hasWorldW (reqs : List Req) : Bool := reqs.any (fun r => r.acct = none ∧ r.lock = .write)

theorem worldFold (reqs : List Req) : ∀ wl0, wl0 ≤ 2 →
    let r := reqs.foldl (fun wl r => if r.acct = none ∧ r.lock.num > wl then r.lock.num else wl) wl0
    r ≤ 2 ∧ (r = 2 ↔ (wl0 = 2 ∨ hasWorldW reqs = true)) := by
  induction reqs with
  | nil => intro wl0 h; simp [hasWorldW, h]
  | cons q rest ih =>
    intro wl0 h
    simp only [List.foldl_cons]
    by_cases hc : q.acct = none ∧ q.lock.num > wl0
    · simp only [hc, and_self, if_true]
      have := ih q.lock.num (lk_num_le _)
      refine ⟨this.1, ?_⟩
      rw [this.2]
      simp only [hasWorldW, List.any_cons, hc.1, true_and, Bool.or_eq_true, decide_eq_true_eq]
      rw [lk_num_eq_two]
      constructor
      · rintro (h1 | h1)
        · exact Or.inr (Or.inl h1)
        · exact Or.inr (Or.inr h1)
      · rintro (h1 | h1 | h1)
        · have := lk_num_le q.lock; omega
        · exact Or.inl h1
        · exact Or.inr h1
    · simp only [hc, if_false]
      have := ih wl0 h
      refine ⟨this.1, ?_⟩
      rw [this.2]
      simp only [hasWorldW, List.any_cons, Bool.or_eq_true, decide_eq_true_eq]
      constructor
      · rintro (h1 | h1)
        · exact Or.inl h1
        · exact Or.inr (Or.inr h1)
      · rintro (h1 | h1 | h1)
        · exact Or.inl h1
        · left
          have h2 : q.lock.num = 2 := lk_num_eq_two.mpr h1.2
          have : ¬ (q.lock.num > wl0) := fun hgt => hc ⟨h1.1, hgt⟩
          omega
        · exact Or.inr h1

theorem worldLockOf_le (reqs : List Req) : worldLockOf reqs ≤ 2 := (worldFold reqs 0 (by omega)).1

theorem worldLockOf_eq_two (reqs : List Req) : worldLockOf reqs = 2 ↔ hasWorldW reqs = true := by
  have := (worldFold reqs 0 (by omega)).2
  simp only [Nat.reduceEqDiff, false_or] at this
  exact this

/-! ### account map -/

theorem hasW_addReq (m : List (Nat × Lk)) (a' : Nat) (l : Lk) (a : Nat) :
    hasW (addReq m a' l) a = (hasW m a || (decide (a' = a) && decide (l = .write))) := by
  induction m with
  | nil => simp [addReq, hasW]
  | cons p rest ih =>
    obtain ⟨b, k⟩ := p
    simp only [addReq]
    by_cases hb : b = a'
    · subst hb
      simp only [if_true, hasW, List.any_cons]
      cases k <;> cases l <;> by_cases hba : b = a <;> simp [Lk.num, hba]
    · simp only [hb, if_false]
      simp only [hasW, List.any_cons] at ih ⊢
      rw [ih]
      simp [Bool.or_assoc]

def hasAcctW (reqs : List Req) (a : Nat) : Bool := reqs.any (fun r => r.acct = some a ∧ r.lock = .write)

theorem acctFold (wl : Nat) (hwl : wl < 2) (a : Nat) (reqs : List Req) : ∀ m0,
    hasW (reqs.foldl (acctStep wl) m0) a = (hasW m0 a || hasAcctW reqs a) := by
  induction reqs with
  | nil => intro m0; simp [hasAcctW]
  | cons q rest ih =>
    intro m0
    simp only [List.foldl_cons]
    rw [ih]
    unfold acctStep
    cases hq : q.acct with
    | none => simp [hasAcctW, hq]
    | some b =>
      simp only
      by_cases hle : q.lock.num ≤ wl
      · simp only [hle, if_true]
        have : q.lock ≠ .write := by
          intro h; rw [h] at hle; simp [Lk.num] at hle; omega
        simp [hasAcctW, hq, this]
      · simp only [hle, if_false]
        rw [hasW_addReq]
        simp only [hasAcctW, List.any_cons, hq, Option.some.injEq]
        simp [Bool.or_assoc]

theorem hasW_acctMap (wl : Nat) (hwl : wl < 2) (reqs : List Req) (a : Nat) :
    hasW (acctMap wl reqs) a = hasAcctW reqs a := by
  unfold acctMap
  rw [acctFold wl hwl a reqs []]
  simp [hasW]

theorem getLocker_setWriters (i a : Nat) : ∀ (m : List (Nat × Lk)) (c : Ctx),
    (setWriters c i m).getLocker a = if hasW m a then some i else c.getLocker a := by
  intro m
  induction m with
  | nil => intro c; simp [setWriters, hasW]
  | cons p rest ih =>
    intro c
    obtain ⟨b, k⟩ := p
    simp only [setWriters]
    rw [ih]
    have hcons : hasW ((b, k) :: rest) a = ((decide (b = a) && decide (k = .write)) || hasW rest a) := by
      simp [hasW]
    rw [hcons]
    by_cases hr : hasW rest a = true
    · simp [hr]
    · have hr' : hasW rest a = false := by simpa using hr
      simp only [hr', Bool.or_false, Bool.false_eq_true, if_false]
      by_cases hk : k = .write
      · subst hk
        simp only [if_true, decide_true, Bool.and_true]
        by_cases hba : b = a
        · subst hba; simp [Ctx.getLocker, Ctx.setAcct]
        · have hab : ¬ a = b := fun h => hba h.symm
          simp [hba, Ctx.getLocker, Ctx.setAcct, hab]
      · simp [hk]

theorem mayWrite_eq (reqs : List Req) (a : Nat) : mayWrite reqs a = (hasWorldW reqs || hasAcctW reqs a) := by
  induction reqs with
  | nil => simp [mayWrite, hasWorldW, hasAcctW]
  | cons q rest ih =>
    simp only [mayWrite, hasWorldW, hasAcctW, List.any_cons] at ih ⊢
    rw [ih]
    cases hq : q.acct <;> cases hl : q.lock <;> simp [Bool.or_assoc, Bool.or_comm, Bool.or_left_comm]

/-- one applyLockRequests: who is the last locker of account `a` afterwards -/
theorem getLocker_apply (c : Ctx) (i : Nat) (reqs : List Req) (a : Nat) :
    (applyLockRequests c i reqs).2.getLocker a = if mayWrite reqs a then some i else c.getLocker a := by
  unfold applyLockRequests
  by_cases hw : worldLockOf reqs = 2
  · simp only [hw, if_true]
    have := (worldLockOf_eq_two reqs).mp hw
    simp [mayWrite_eq, this, Ctx.getLocker, Ctx.setWorld]
  · simp only [hw, if_false]
    have hlt : worldLockOf reqs < 2 := by have := worldLockOf_le reqs; omega
    have hnw : hasWorldW reqs = false := by
      cases h : hasWorldW reqs
      · rfl
      · exact absurd ((worldLockOf_eq_two reqs).mpr h) hw
    rw [getLocker_setWriters, hasW_acctMap _ hlt, mayWrite_eq, hnw]
    simp

theorem getLocker_ctxAfter (a : Nat) : ∀ (pre : List Tx) (c : Ctx) (base : Nat),
    (ctxAfter c base pre).getLocker a =
      match lastWriter base pre a with
      | some j => some j
      | none => c.getLocker a := by
  intro pre
  induction pre with
  | nil => intro c base; simp [ctxAfter, lastWriter]
  | cons t rest ih =>
    intro c base
    simp only [ctxAfter, lastWriter]
    rw [ih]
    cases hl : lastWriter (base + 1) rest a with
    | some j => simp
    | none =>
      simp only
      rw [getLocker_apply]
      by_cases hm : mayWrite t.reqs a = true
      · simp [hm]
      · have : mayWrite t.reqs a = false := by simpa using hm
        simp [this]

theorem buildFrom_getElem : ∀ (txs : List Tx) (c : Ctx) (base i : Nat) (h : i < txs.length),
    (buildFrom c base txs)[i]? =
      some (applyLockRequests (ctxAfter c base (txs.take i)) (base + i) (txs[i]).reqs).1 := by
  intro txs
  induction txs with
  | nil => intro c base i h; simp at h
  | cons t rest ih =>
    intro c base i h
    cases i with
    | zero => simp [buildFrom, ctxAfter]
    | succ i =>
      simp only [buildFrom, List.getElem?_cons_succ, List.take_succ_cons, ctxAfter, List.getElem_cons_succ]
      rw [ih _ (base + 1) i (by simpa using h)]
      congr 3
      omega

theorem las_depend (c : Ctx) (i : Nat) (reqs : List Req) (l : Las)
    (hl : l ∈ (applyLockRequests c i reqs).1.las) : l.depend = c.getLocker l.acct := by
  unfold applyLockRequests at hl
  by_cases hw : worldLockOf reqs = 2
  · simp [hw] at hl
  · simp only [hw, if_false, List.mem_map] at hl
    obtain ⟨⟨a, k⟩, _, rfl⟩ := hl
    rfl

/-- `lastWriter base pre a` really is the greatest index (counted from `base`) of a transaction in
    `pre` whose request list lets it modify `a`. -/
theorem lastWriter_spec' (a : Nat) : ∀ (pre : List Tx) (base : Nat),
    (∀ k, lastWriter base pre a = some k →
      ∃ h : k - base < pre.length, base ≤ k ∧ mayWrite (pre[k - base]).reqs a = true ∧
        ∀ j (hj : j < pre.length), k - base < j → mayWrite (pre[j]).reqs a = false) ∧
    (lastWriter base pre a = none → ∀ j (hj : j < pre.length), mayWrite (pre[j]).reqs a = false) := by
  intro pre
  induction pre with
  | nil => intro base; simp [lastWriter]
  | cons t rest ih =>
    intro base
    obtain ⟨ih1, ih2⟩ := ih (base + 1)
    simp only [lastWriter]
    cases hl : lastWriter (base + 1) rest a with
    | some k' =>
      refine ⟨?_, by simp⟩
      intro k hk
      simp only [Option.some.injEq] at hk
      subst hk
      obtain ⟨h, hb, hm, hafter⟩ := ih1 k' hl
      have e : k' - base = (k' - (base + 1)) + 1 := by omega
      refine ⟨by simp only [List.length_cons]; omega, by omega, ?_, ?_⟩
      · simp only [e, List.getElem_cons_succ]; exact hm
      · intro j hj hlt
        cases j with
        | zero => omega
        | succ j =>
          simp only [List.getElem_cons_succ]
          exact hafter j (by simpa using hj) (by omega)
    | none =>
      simp only
      by_cases hm : mayWrite t.reqs a = true
      · simp only [hm, if_true]
        refine ⟨?_, by simp⟩
        intro k hk
        simp only [Option.some.injEq] at hk
        subst hk
        refine ⟨by simp, Nat.le_refl _, by simpa using hm, ?_⟩
        intro j hj hlt
        cases j with
        | zero => omega
        | succ j =>
          simp only [List.getElem_cons_succ]
          exact ih2 hl j (by simpa using hj)
      · have hm' : mayWrite t.reqs a = false := by simpa using hm
        simp only [hm', Bool.false_eq_true, if_false]
        refine ⟨by simp, ?_⟩
        intro _ j hj
        cases j with
        | zero => simpa using hm'
        | succ j =>
          simp only [List.getElem_cons_succ]
          exact ih2 hl j (by simpa using hj)


end Goloop.C09.Proofs
