import Goloop.Model.C19
namespace Goloop.C19.Proofs
open Goloop Goloop.C19

/-! ### the map store -/

theorem sget_sdel (s : Store) (k k' : BK) :
    sget (sdel s k) k' = if k = k' then none else sget s k' := by
  induction s with
  | nil => simp [sdel, sget]
  | cons e r ih =>
    obtain ⟨ke, ve⟩ := e
    unfold sdel at ih ⊢
    by_cases h1 : ke = k
    · subst h1
      simp only [List.filter_cons, ne_eq, not_true_eq_false, decide_false, Bool.false_eq_true, if_false]
      rw [ih]
      by_cases h2 : ke = k'
      · simp [h2]
      · simp [h2, sget]
    · simp only [List.filter_cons, ne_eq, h1, not_false_eq_true, decide_true, if_true]
      by_cases h2 : k = k'
      · subst h2
        simp only [sget, h1, if_false, if_true]
        rw [ih]; simp
      · simp only [sget, h2, if_false]
        rw [ih]; simp [h2]

theorem sget_sset (s : Store) (k k' : BK) (v : Bytes) :
    sget (sset s k v) k' = if k = k' then some v else sget s k' := by
  unfold sset
  by_cases h : k = k'
  · simp [sget, h]
  · simp only [sget, h, if_false]
    rw [sget_sdel]; simp [h]

/-! ### items -/

def keys (items : List Item) : List BK := items.map Item.bkey

theorem findItem_none_of_not_mem (items : List Item) (k : BK) (h : k ∉ keys items) :
    findItem items k = none := by
  induction items with
  | nil => rfl
  | cons it r ih =>
    simp only [keys, List.map_cons, List.mem_cons, not_or] at h
    unfold findItem
    rw [List.find?_cons]
    have : decide (it.bkey = k) = false := by simp; exact fun e => h.1 e.symm
    rw [this]
    exact ih h.2

theorem findItem_some {items : List Item} {k : BK} {it : Item} (h : findItem items k = some it) :
    it ∈ items ∧ it.bkey = k := by
  unfold findItem at h
  have h1 := List.mem_of_find?_eq_some h
  have h2 := List.find?_some h
  exact ⟨h1, by simpa using h2⟩

theorem findItem_cons (it : Item) (r : List Item) (k : BK) :
    findItem (it :: r) k = if it.bkey = k then some it else findItem r k := by
  unfold findItem
  rw [List.find?_cons]
  by_cases h : it.bkey = k <;> simp [h]

theorem findItem_append_single (l : List Item) (x : Item) (k : BK) :
    findItem (l ++ [x]) k =
      match findItem l k with
      | some it => some it
      | none => if x.bkey = k then some x else none := by
  induction l with
  | nil => simp [findItem_cons, findItem]
  | cons a r ih =>
    simp only [List.cons_append, findItem_cons]
    by_cases h : a.bkey = k
    · simp [h]
    · simp only [h, if_false]; exact ih

theorem keys_erase_sub (l : List Item) (a : Item) (k : BK) (h : k ∈ keys (l.erase a)) : k ∈ keys l := by
  unfold keys at *
  rw [List.mem_map] at *
  obtain ⟨x, hx, hk⟩ := h
  exact ⟨x, List.mem_of_mem_erase hx, hk⟩

theorem findItem_erase_ne (l : List Item) (a : Item) (k : BK) (h : a.bkey ≠ k) :
    findItem (l.erase a) k = findItem l k := by
  induction l with
  | nil => simp
  | cons x r ih =>
    by_cases hx : x = a
    · subst hx
      simp only [List.erase_cons_head, findItem_cons, h, if_false]
    · rw [List.erase_cons_tail (by simpa using hx)]
      simp only [findItem_cons]
      rw [ih]

theorem nodup_erase (l : List Item) (a : Item) (h : (keys l).Nodup) : (keys (l.erase a)).Nodup := by
  unfold keys at *
  exact List.Nodup.sublist (List.Sublist.map _ List.erase_sublist) h

theorem not_mem_keys_erase (l : List Item) (a : Item) (h : (keys l).Nodup) (ha : a ∈ l) :
    a.bkey ∉ keys (l.erase a) := by
  induction l with
  | nil => simp at ha
  | cons x r ih =>
    simp only [keys, List.map_cons, List.nodup_cons] at h
    by_cases hx : x = a
    · subst hx
      simp only [List.erase_cons_head]
      exact h.1
    · rw [List.erase_cons_tail (by simpa using hx)]
      simp only [keys, List.map_cons, List.mem_cons, not_or]
      have ha' : a ∈ r := by
        rcases List.mem_cons.mp ha with e | e
        · exact absurd e.symm hx
        · exact e
      refine ⟨?_, ih h.2 ha'⟩
      intro e
      apply h.1
      rw [← e]
      exact List.mem_map.mpr ⟨a, ha', rfl⟩

/-- `touch` keeps the keys distinct -/
theorem nodup_touch (items : List Item) (k : BK) (v : Option Bytes) (h : (keys items).Nodup) :
    (keys (touch items k v)).Nodup := by
  unfold touch
  cases hf : findItem items k with
  | none =>
    simp only [keys, List.map_append, List.map_cons, List.map_nil]
    rw [List.nodup_append]
    refine ⟨h, by simp, ?_⟩
    intro a ha b hb
    simp only [List.mem_singleton] at hb
    subst hb
    intro e
    have hk : k ∈ keys items := by
      have : Item.bkey { bk := k.1, key := k.2, value := v } = k := rfl
      rw [this] at e; rw [← e]; exact ha
    have hn : findItem items k ≠ none := by
      intro hnone
      -- k ∈ keys, so some item has this key
      obtain ⟨x, hx, hxk⟩ := List.mem_map.mp hk
      unfold findItem at hnone
      have := List.find?_eq_none.mp hnone x hx
      simp [hxk] at this
    exact hn hf
  | some it =>
    obtain ⟨hmem, hkey⟩ := findItem_some hf
    simp only [keys, List.map_append, List.map_cons, List.map_nil]
    rw [List.nodup_append]
    refine ⟨nodup_erase items it h, by simp, ?_⟩
    intro a ha b hb
    simp only [List.mem_singleton] at hb
    subst hb
    intro e
    have h1 : Item.bkey { it with value := v } = it.bkey := rfl
    rw [h1] at e
    exact not_mem_keys_erase items it h hmem (e ▸ ha)

/-- lookup after `touch` -/
theorem findItem_touch (items : List Item) (k k' : BK) (v : Option Bytes) (h : (keys items).Nodup) :
    (findItem (touch items k v) k').map Item.value =
      if k = k' then some v else (findItem items k').map Item.value := by
  unfold touch
  cases hf : findItem items k with
  | none =>
    simp only
    rw [findItem_append_single]
    by_cases hk : k = k'
    · subst hk
      simp [hf, Item.bkey]
    · simp only [hk, if_false]
      cases hf' : findItem items k' with
      | some x => simp
      | none =>
        have : ¬ (Item.bkey { bk := k.1, key := k.2, value := v } = k') := hk
        simp [this]
  | some it =>
    obtain ⟨hmem, hkey⟩ := findItem_some hf
    simp only
    rw [findItem_append_single]
    have hb : Item.bkey { it with value := v } = k := hkey
    by_cases hk : k = k'
    · subst hk
      have : findItem (items.erase it) k = none :=
        findItem_none_of_not_mem _ _ (hkey ▸ not_mem_keys_erase items it h hmem)
      simp [this, hb]
    · simp only [hk, if_false]
      rw [findItem_erase_ne items it k' (by rw [hkey]; exact hk)]
      cases hf' : findItem items k' with
      | some x => simp
      | none =>
        have : ¬ (Item.bkey { it with value := v } = k') := by rw [hb]; exact hk
        simp [this]

/-- the replay loop writes, for every key, the value of its (unique) item -/
theorem sget_replay (items : List Item) (st : Store) (k : BK) (h : (keys items).Nodup) :
    sget (replay st items) k =
      match findItem items k with
      | some it => it.value
      | none => sget st k := by
  induction items generalizing st with
  | nil => simp [replay, findItem]
  | cons it r ih =>
    simp only [keys, List.map_cons, List.nodup_cons] at h
    have hstep : replay st (it :: r) = replay (applyItem st it) r := by simp [replay]
    rw [hstep, ih _ h.2, findItem_cons]
    by_cases hk : it.bkey = k
    · subst hk
      rw [findItem_none_of_not_mem r _ h.1]
      simp only [if_true]
      unfold applyItem
      cases hv : it.value with
      | none => simp [sget_sdel]
      | some v => simp [sget_sset]
    · simp only [hk, if_false]
      cases hf : findItem r k with
      | some x => rfl
      | none =>
        simp only
        unfold applyItem
        cases hv : it.value with
        | none => simp [sget_sdel, hk]
        | some v => simp [sget_sset, hk]

/-! ### invariant -/

structure Inv (s : LDB) : Prop where
  nodup : (keys s.items).Nodup
  live : ∀ id b, lookupBucket s.buckets id = some b → b = !s.flushed
  empty : s.flushed = true → s.items = []

theorem inv_new (st : Store) : Inv (newLayerDB st) :=
  ⟨by simp [newLayerDB, keys], by simp [newLayerDB, lookupBucket], by simp [newLayerDB]⟩

/-- closed form of what is seen through the layer -/
def viewF (s : LDB) (k : BK) : Option Bytes :=
  if s.flushed then sget s.real k
  else ival s.items k (sget s.real k)

theorem view_eq (s : LDB) (hi : Inv s) (k : BK) : view s k = viewF s k := by
  obtain ⟨id, key⟩ := k
  unfold view getBucket viewF
  simp only
  cases hl : lookupBucket s.buckets id with
  | some b =>
    have hb := hi.live id b hl
    simp only [bkGet, dataLive, hl, Option.getD_some]
    cases hf : s.flushed with
    | true => simp [hb, hf]
    | false => simp [hb, hf]
  | none =>
    cases hf : s.flushed with
    | true => simp [bkGet]
    | false => simp [bkGet, dataLive, lookupBucket]

theorem get_eq_view (s : LDB) (hi : Inv s) (h : Handle) (hv : Valid s h) (key : Bytes) :
    bkGet s h key = viewF s (h.id, key) := by
  cases h with
  | real id =>
    simp only [Valid] at hv
    simp [bkGet, viewF, hv, Handle.id]
  | layer id =>
    simp only [Valid] at hv
    obtain ⟨b, hb⟩ := Option.isSome_iff_exists.mp hv
    have := hi.live id b hb
    simp only [bkGet, dataLive, hb, Option.getD_some, viewF, Handle.id, this]
    cases hf : s.flushed <;> simp

theorem has_eq_view (s : LDB) (hi : Inv s) (h : Handle) (hv : Valid s h) (key : Bytes) :
    bkHas s h key = (viewF s (h.id, key)).isSome := by
  cases h with
  | real id =>
    simp only [Valid] at hv
    simp [bkHas, viewF, hv, Handle.id]
  | layer id =>
    simp only [Valid] at hv
    obtain ⟨b, hb⟩ := Option.isSome_iff_exists.mp hv
    have := hi.live id b hb
    simp only [bkHas, dataLive, hb, Option.getD_some, viewF, Handle.id, this]
    cases hf : s.flushed
    · simp only [Bool.not_false, if_true, Bool.false_eq_true, if_false]
      unfold ival
      cases findItem s.items (id, key) <;> rfl
    · simp

/-! ### steps -/

theorem ival_touch (items : List Item) (k k' : BK) (v d : Option Bytes) (h : (keys items).Nodup) :
    ival (touch items k v) k' d = if k = k' then v else ival items k' d := by
  have ht := findItem_touch items k k' v h
  unfold ival
  by_cases hk : k = k'
  · simp only [hk, if_true] at ht ⊢
    cases hf : findItem (touch items k' v) k' with
    | none => rw [hf] at ht; simp at ht
    | some x => rw [hf] at ht; simpa using ht
  · simp only [hk, if_false] at ht ⊢
    cases hf : findItem (touch items k v) k' with
    | none =>
      rw [hf] at ht
      cases hf' : findItem items k' with
      | none => rfl
      | some y => rw [hf'] at ht; simp at ht
    | some x =>
      rw [hf] at ht
      cases hf' : findItem items k' with
      | none => rw [hf'] at ht; simp at ht
      | some y => rw [hf'] at ht; simpa using ht

theorem sget_replay' (items : List Item) (st : Store) (k : BK) (h : (keys items).Nodup) :
    sget (replay st items) k = ival items k (sget st k) := sget_replay items st k h

theorem lookupBucket_map (bs : List (Bytes × Bool)) (c : Bool) (id : Bytes) :
    lookupBucket (bs.map (fun b => (b.1, c))) id = (lookupBucket bs id).map (fun _ => c) := by
  induction bs with
  | nil => rfl
  | cons b r ih =>
    obtain ⟨i, x⟩ := b
    simp only [List.map_cons, lookupBucket]
    by_cases h : i = id
    · simp [h]
    · simp [h, ih]

/-- simulation relation between the layer and the specification -/
structure Sim (s : LDB) (a : Abs) : Prop where
  inv : Inv s
  fl : a.flushed = s.flushed
  base : ∀ k, a.base k = sget s.real k
  view : ∀ k, a.view k = viewF s k

theorem sim_abs (s : LDB) (hi : Inv s) : Sim s (abs s) :=
  ⟨hi, rfl, fun _ => rfl, fun k => view_eq s hi k⟩

theorem sim_items (s : LDB) (a : Abs) (hs : Sim s a) (id key : Bytes) (ov : Option Bytes)
    (hf : s.flushed = false) :
    Sim { s with items := touch s.items (id, key) ov } { a with view := upd a.view (id, key) ov } := by
  refine ⟨⟨nodup_touch _ _ _ hs.inv.nodup, hs.inv.live, by simp [hf]⟩, hs.fl, hs.base, ?_⟩
  intro k'
  simp only [viewF, hf, Bool.false_eq_true, if_false, upd]
  rw [ival_touch _ _ _ _ _ hs.inv.nodup, hs.view k']
  simp [viewF, hf]

theorem sim_sset (s : LDB) (a : Abs) (hs : Sim s a) (id key value : Bytes) (hf : s.flushed = true) :
    Sim { s with real := sset s.real (id, key) value }
      { a with base := upd a.base (id, key) (some value), view := upd a.view (id, key) (some value) } := by
  refine ⟨⟨hs.inv.nodup, hs.inv.live, hs.inv.empty⟩, hs.fl, ?_, ?_⟩
  · intro k'; simp only [upd, sget_sset, hs.base k']
  · intro k'
    simp only [upd, viewF, hf, if_true, sget_sset, hs.view k']

theorem sim_sdel (s : LDB) (a : Abs) (hs : Sim s a) (id key : Bytes) (hf : s.flushed = true) :
    Sim { s with real := sdel s.real (id, key) }
      { a with base := upd a.base (id, key) none, view := upd a.view (id, key) none } := by
  refine ⟨⟨hs.inv.nodup, hs.inv.live, hs.inv.empty⟩, hs.fl, ?_, ?_⟩
  · intro k'; simp only [upd, sget_sdel, hs.base k']
  · intro k'
    simp only [upd, viewF, hf, if_true, sget_sdel, hs.view k']

theorem live_of_valid (s : LDB) (hi : Inv s) (id : Bytes) (hv : Valid s (.layer id)) :
    dataLive s id = !s.flushed := by
  simp only [Valid] at hv
  obtain ⟨b, hb⟩ := Option.isSome_iff_exists.mp hv
  simp [dataLive, hb, hi.live id b hb]

theorem step_set (s : LDB) (a : Abs) (hs : Sim s a) (h : Handle) (hv : Valid s h) (k v : Bytes) :
    Sim (bkSet s h k v) (specStep a (.set h k v)) := by
  cases h with
  | real id =>
    have hf : s.flushed = true := hv
    simp only [bkSet, specStep, Handle.id]
    rw [if_pos (by rw [hs.fl]; exact hf)]
    exact sim_sset s a hs id k v hf
  | layer id =>
    have hl := live_of_valid s hs.inv id hv
    simp only [bkSet, specStep, Handle.id, hl]
    by_cases hf : s.flushed = true
    · rw [if_neg (by simp [hf]), if_pos (by rw [hs.fl]; exact hf)]
      exact sim_sset s a hs id k v hf
    · have hf' : s.flushed = false := by simpa using hf
      rw [if_pos (by simp [hf']), if_neg (by rw [hs.fl]; simp [hf'])]
      exact sim_items s a hs id k (some v) hf'

theorem step_del (s : LDB) (a : Abs) (hs : Sim s a) (h : Handle) (hv : Valid s h) (k : Bytes) :
    Sim (bkDelete s h k) (specStep a (.del h k)) := by
  cases h with
  | real id =>
    have hf : s.flushed = true := hv
    simp only [bkDelete, specStep, Handle.id]
    rw [if_pos (by rw [hs.fl]; exact hf)]
    exact sim_sdel s a hs id k hf
  | layer id =>
    have hl := live_of_valid s hs.inv id hv
    simp only [bkDelete, specStep, Handle.id, hl]
    by_cases hf : s.flushed = true
    · rw [if_neg (by simp [hf]), if_pos (by rw [hs.fl]; exact hf)]
      exact sim_sdel s a hs id k hf
    · have hf' : s.flushed = false := by simpa using hf
      rw [if_pos (by simp [hf']), if_neg (by rw [hs.fl]; simp [hf'])]
      exact sim_items s a hs id k none hf'

theorem step_open (s : LDB) (a : Abs) (hs : Sim s a) (id : Bytes) :
    Sim (getBucket s id).1 a := by
  unfold getBucket
  cases hl : lookupBucket s.buckets id with
  | some b => exact hs
  | none =>
    by_cases hf : s.flushed = true
    · simp only [hf, if_true]; exact hs
    · have hf' : s.flushed = false := by simpa using hf
      rw [if_neg hf]
      refine ⟨⟨hs.inv.nodup, ?_, by simp [hf']⟩, hs.fl, hs.base, ?_⟩
      · intro i b hb
        simp only [lookupBucket] at hb
        by_cases h : id = i
        · simp [h] at hb; simp [← hb, hf']
        · simp only [h, if_false] at hb
          exact hs.inv.live i b hb
      · intro k; rw [hs.view k]; simp [viewF, hf']

theorem live_map (s : LDB) (c : Bool) :
    ∀ id b, lookupBucket (s.buckets.map (fun b => (b.1, c))) id = some b → b = c := by
  intro i b hb
  rw [lookupBucket_map] at hb
  cases hx : lookupBucket s.buckets i with
  | none => rw [hx] at hb; simp at hb
  | some y => rw [hx] at hb; simp at hb; exact hb.symm

theorem step_flush (s : LDB) (a : Abs) (hs : Sim s a) (w : Bool) :
    Sim (flush s w).1 (specStep a (.flush w)) := by
  unfold flush
  by_cases hf : s.flushed = true
  · have ha : a.flushed = true := by rw [hs.fl]; exact hf
    rw [if_pos hf]
    cases w
    · simp only [specStep, Bool.not_false, if_true, if_pos ha]; exact hs
    · simp only [specStep, Bool.not_true, Bool.false_eq_true, if_false, if_pos ha]; exact hs
  · have hf' : s.flushed = false := by simpa using hf
    have ha : ¬ a.flushed = true := by rw [hs.fl]; exact hf
    rw [if_neg hf]
    cases w
    · simp only [Bool.false_eq_true, if_false, specStep, if_neg ha]
      refine ⟨⟨by simp [keys], ?_, by simp⟩, rfl, hs.base, ?_⟩
      · intro i b hb; simpa using live_map s true i b hb
      · intro k; simp [viewF, ival, findItem, hs.base k]
    · simp only [if_true, specStep, if_neg ha]
      have hv : ∀ k, sget (replay s.real s.items) k = a.view k := by
        intro k
        rw [sget_replay' _ _ _ hs.inv.nodup, hs.view k]
        simp [viewF, hf']
      refine ⟨⟨by simp [keys], ?_, by simp⟩, rfl, ?_, ?_⟩
      · intro i b hb; simpa using live_map s false i b hb
      · intro k; exact (hv k).symm
      · intro k; simp only [viewF, if_true]; exact (hv k).symm

theorem step_ok (s : LDB) (a : Abs) (hs : Sim s a) (o : Op) (ho : OpOk s o) :
    Sim (step s o) (specStep a o) := by
  cases o with
  | «open» id => exact step_open s a hs id
  | set h k v => exact step_set s a hs h ho k v
  | del h k => exact step_del s a hs h ho k
  | flush w => exact step_flush s a hs w

theorem run_ok (ops : List Op) (s : LDB) (a : Abs) (hs : Sim s a) (hh : HistOk s ops) :
    Sim (run s ops) (specRun a ops) := by
  induction ops generalizing s a with
  | nil => exact hs
  | cons o r ih =>
    obtain ⟨ho, hr⟩ := hh
    have := ih (step s o) (specStep a o) (step_ok s a hs o ho) hr
    simpa only [run, specRun, List.foldl_cons] using this

theorem inv_of_reachable (s : LDB) (h : Reachable s) : Inv s := by
  obtain ⟨st, ops, hh, rfl⟩ := h
  exact (run_ok ops _ _ (sim_abs _ (inv_new st)) hh).inv

end Goloop.C19.Proofs
