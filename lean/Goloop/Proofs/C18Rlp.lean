/-
  Proofs/C18Rlp: the RLP parser / node decoder of Model/C18 inverts the encoder of Model/C17
  on node serialisations:  `deserialize fuel (serialize H t) = .ok (toP H t)`.

  Main results (namespace Goloop.C18):
    deserialize_serialize_of_extOk  t ≠ .empty, ExtOk t, Small t, fuel ≥ node count or byte length
    deserialize_serialize           NFn t, Small t, t.size ≤ fuel
    deserialize_serialize_len       NFn t, Small t, fuel = (serialize H t).length + 1 (as `proveHash`)
  Building blocks: `beBytes` round trip, `IsItem` (self-delimiting item: header parse in front
  of arbitrary trailing data), `parseBytes_rlpBytes`, `splitItems_flatten`, `parseList_rlpList`,
  `decodeKeys_encodeKeys`, `fromLink_link`.
  Core Lean only (no Mathlib import).
-/
import Goloop.Proofs.C17Defs
namespace Goloop.C18
open Goloop.C17 Goloop

/-! ### stage 1: `beBytes` -/

theorem beNat_beBytes (n : Nat) : beNat (beBytes n) = n := by
  fun_induction beBytes n with
  | case1 n h =>
    simp [beNat, UInt8.toNat_ofNat']; omega
  | case2 n h ih =>
    rw [beNat_append_singleton, ih, UInt8.toNat_ofNat']; omega

theorem beBytes_ne_nil (n : Nat) : beBytes n ≠ [] := by
  rw [beBytes]; split <;> simp

theorem beBytes_length_pos (n : Nat) : 0 < (beBytes n).length :=
  List.length_pos_iff.mpr (beBytes_ne_nil n)

theorem beBytes_length_le (n k : Nat) (hk : 0 < k) (h : n < 256 ^ k) : (beBytes n).length ≤ k := by
  fun_induction beBytes n generalizing k with
  | case1 n h' => simp; omega
  | case2 n h' ih =>
    cases k with
    | zero => omega
    | succ k =>
      cases k with
      | zero => simp at h; omega
      | succ k =>
        have := ih (k + 1) (by omega) (by rw [Nat.pow_succ] at h; omega)
        simp; omega

theorem beBytes_length_le8 (n : Nat) (h : n < 2 ^ 64) : (beBytes n).length ≤ 8 :=
  beBytes_length_le n 8 (by omega) (by simpa using h)

theorem beBytes_head (n : Nat) (h : 0 < n) : (beBytes n).head? ≠ some 0 := by
  fun_induction beBytes n with
  | case1 n h' =>
    simp
    intro e
    have := congrArg UInt8.toNat e
    rw [UInt8.toNat_ofNat'] at this
    simp at this; omega
  | case2 n h' ih =>
    have := ih (by omega)
    have hne := beBytes_ne_nil (n / 256)
    cases hb : beBytes (n / 256) with
    | nil => exact absurd hb hne
    | cons x xs => rw [hb] at this; simpa using this

/-! ### stage 2: headers -/

@[simp] theorem Res.bind_ok {α β : Type} (a : α) (f : α → Res β) : (Res.ok a).bind f = f a := rfl
@[simp] theorem Res.bind_err {α β : Type} (f : α → Res β) : (Res.err : Res α).bind f = .err := rfl
@[simp] theorem Res.bind_panic {α β : Type} (f : α → Res β) : (Res.panic : Res α).bind f = .panic := rfl

theorem readSize_beBytes (n : Nat) (h56 : 56 ≤ n) (tail : Bytes) :
    readSize (beBytes n ++ tail) (beBytes n).length = .ok n := by
  have hh := beBytes_head n (by omega)
  have hne := beBytes_ne_nil n
  unfold readSize
  rw [if_neg (by simp)]
  simp only [List.take_left', beNat_beBytes]
  rw [if_neg]
  intro h
  rcases h with h | h
  · omega
  · apply hh
    cases hb : beBytes n with
    | nil => exact absurd hb hne
    | cons x xs => rw [hb] at h; simpa using h


theorem parseHeader_short (b0 : UInt8) (base n : Nat) (isl : Bool) (tl : Bytes) (hn : n ≤ 55)
    (hbase : base = 0x80 ∧ isl = false ∧ ¬ (n = 1 ∧ headLt128 tl = true) ∨ base = 0xC0 ∧ isl = true)
    (hb : b0.toNat = base + n) (hl : n ≤ tl.length) :
    parseHeader (b0 :: tl) = .ok (isl, 1, n) := by
  rcases hbase with ⟨rfl, rfl, h1⟩ | ⟨rfl, rfl⟩
  · have e : 128 + n - 128 = n := by omega
    simp only [parseHeader, UInt8.lt_iff_toNat_lt, hb]
    simp only [UInt8.reduceToNat, e]
    rw [if_neg (by omega), if_pos (by omega), if_neg h1]
    simp; omega
  · have e : 192 + n - 192 = n := by omega
    simp only [parseHeader, UInt8.lt_iff_toNat_lt, hb]
    simp only [UInt8.reduceToNat, e]
    rw [if_neg (by omega), if_neg (by omega), if_neg (by omega), if_pos (by omega)]
    simp; omega

theorem parseHeader_long (b0 : UInt8) (base n : Nat) (isl : Bool) (tl : Bytes) (hn : 56 ≤ n)
    (h64 : n < 2 ^ 64)
    (hbase : base = 0x80 ∧ isl = false ∨ base = 0xC0 ∧ isl = true)
    (hb : b0.toNat = base + 55 + (beBytes n).length) (hl : n ≤ tl.length) :
    parseHeader (b0 :: (beBytes n ++ tl)) = .ok (isl, (beBytes n).length + 1, n) := by
  have h8 := beBytes_length_le8 _ h64
  have h1 := beBytes_length_pos n
  have hr := readSize_beBytes n hn tl
  rcases hbase with ⟨rfl, rfl⟩ | ⟨rfl, rfl⟩
  · have e : 128 + 55 + (beBytes n).length - 183 = (beBytes n).length := by omega
    simp only [parseHeader, UInt8.lt_iff_toNat_lt, hb]
    simp only [UInt8.reduceToNat, e]
    rw [if_neg (by omega), if_neg (by omega), if_pos (by omega), hr]
    simp; omega
  · have e : 192 + 55 + (beBytes n).length - 247 = (beBytes n).length := by omega
    simp only [parseHeader, UInt8.lt_iff_toNat_lt, hb]
    simp only [UInt8.reduceToNat, e]
    rw [if_neg (by omega), if_neg (by omega), if_neg (by omega), if_neg (by omega), hr]
    simp; omega
/-! ### stages 2-3: items, `parseBytes`, `splitItems`, `parseList` -/

/-- `e` is a self-delimiting RLP item: in front of any trailing data its header parses to
    (`isl`, `ts`, `|p|`) and `e` is exactly `ts` header bytes followed by the payload `p`. -/
def IsItem (e : Bytes) (isl : Bool) (p : Bytes) : Prop :=
  ∃ ts, e.length = ts + p.length ∧ e.drop ts = p ∧
    ∀ rest, parseHeader (e ++ rest) = .ok (isl, ts, p.length)

theorem rlpList_isItem (items : List Bytes) (h : items.flatten.length < 2 ^ 64) :
    IsItem (rlpList items) true items.flatten := by
  unfold rlpList
  generalize items.flatten = p at h
  simp only
  split
  · rename_i h55
    refine ⟨1, by simp; omega, by simp, ?_⟩
    intro rest
    exact parseHeader_short _ 0xC0 p.length true (p ++ rest) h55 (Or.inr ⟨rfl, rfl⟩)
      (by rw [UInt8.toNat_ofNat']; omega) (by simp)
  · rename_i h55
    have h8 := beBytes_length_le8 _ h
    refine ⟨(beBytes p.length).length + 1, by simp; omega, by simp, ?_⟩
    intro rest
    have := parseHeader_long (UInt8.ofNat (0xC0 + 55 + (beBytes p.length).length)) 0xC0 p.length true
      (p ++ rest) (by omega) h (Or.inr ⟨rfl, rfl⟩) (by rw [UInt8.toNat_ofNat']; omega) (by simp)
    simpa using this

theorem rlpBytes_isItem (b : Bytes) (h : b.length < 2 ^ 64) : IsItem (rlpBytes b) false b := by
  unfold rlpBytes
  split
  · rename_i x
    split
    · rename_i hx
      refine ⟨0, by simp, by simp, ?_⟩
      intro rest
      simp [parseHeader, hx]
    · rename_i hx
      refine ⟨1, by simp, by simp, ?_⟩
      intro rest
      refine parseHeader_short 0x81 0x80 1 false (x :: rest) (by omega) (Or.inl ⟨rfl, rfl, ?_⟩) rfl (by simp)
      simp [headLt128]; exact UInt8.not_lt.mp hx
  · rename_i hne
    simp only
    split
    · rename_i h55
      refine ⟨1, by simp; omega, by simp, ?_⟩
      intro rest
      refine parseHeader_short _ 0x80 b.length false (b ++ rest) h55 (Or.inl ⟨rfl, rfl, ?_⟩)
        (by rw [UInt8.toNat_ofNat']; omega) (by simp)
      intro ⟨h1, _⟩
      match b, h1 with
      | [x], _ => exact hne x rfl
    · rename_i h55
      have h8 := beBytes_length_le8 _ h
      refine ⟨(beBytes b.length).length + 1, by simp; omega, by simp, ?_⟩
      intro rest
      have := parseHeader_long (UInt8.ofNat (0x80 + 55 + (beBytes b.length).length)) 0x80 b.length false
        (b ++ rest) (by omega) h (Or.inl ⟨rfl, rfl⟩) (by rw [UInt8.toNat_ofNat']; omega) (by simp)
      simpa using this

theorem IsItem.ne_nil {e p : Bytes} {isl : Bool} (h : IsItem e isl p) : e ≠ [] := by
  obtain ⟨ts, _, _, hp⟩ := h
  intro he
  have := hp []
  simp [he, parseHeader] at this

theorem IsItem.parseBytes {e p : Bytes} (h : IsItem e false p) : parseBytes e = .ok p := by
  obtain ⟨ts, hl, hd, hp⟩ := h
  have := hp []
  simp only [List.append_nil] at this
  simp [C18.parseBytes, this, hd]

theorem IsItem.parseBytes_list {e p : Bytes} (h : IsItem e true p) : C18.parseBytes e = .err := by
  obtain ⟨ts, hl, hd, hp⟩ := h
  have := hp []
  simp only [List.append_nil] at this
  simp [C18.parseBytes, this]

theorem parseBytes_rlpBytes (b : Bytes) (h : b.length < 2 ^ 64) : parseBytes (rlpBytes b) = .ok b :=
  (rlpBytes_isItem b h).parseBytes

/-- an encoded item of either kind -/
def Item (e : Bytes) : Prop := ∃ isl p, IsItem e isl p

theorem splitItems_flatten (items : List Bytes) (h : ∀ e ∈ items, Item e) (fuel : Nat)
    (hf : items.length ≤ fuel) : splitItems fuel items.flatten = .ok items := by
  induction items generalizing fuel with
  | nil => cases fuel <;> simp [splitItems]
  | cons e r ih =>
    obtain ⟨isl, p, hi⟩ := h e (by simp)
    have hne := hi.ne_nil
    obtain ⟨ts, hl, hd, hp⟩ := hi
    cases fuel with
    | zero => simp at hf
    | succ f =>
      have ihr := ih (fun x hx => h x (by simp [hx])) f (by simpa using hf)
      rw [List.flatten_cons]
      unfold splitItems
      split
      · rename_i heq; simp [hne] at heq
      · rw [hp]
        simp only [Res.bind_ok, ← hl]
        simp [ihr]

theorem length_le_flatten_length (items : List Bytes) (h : ∀ e ∈ items, e ≠ []) :
    items.length ≤ items.flatten.length := by
  induction items with
  | nil => simp
  | cons e r ih =>
    have := ih (fun x hx => h x (by simp [hx]))
    have := List.length_pos_iff.mpr (h e (by simp))
    simp only [List.flatten_cons, List.length_append, List.length_cons]; omega

theorem parseList_rlpList (items : List Bytes) (h : ∀ e ∈ items, Item e)
    (hlen : items.flatten.length < 2 ^ 64) : parseList (rlpList items) = .ok items := by
  obtain ⟨ts, hl, hd, hp⟩ := rlpList_isItem items hlen
  have := hp []
  simp only [List.append_nil] at this
  unfold parseList
  rw [this]
  simp only [Res.bind_ok, Bool.not_true, Bool.false_eq_true, if_false, hd, List.take_length]
  apply splitItems_flatten items h
  have := length_le_flatten_length items (fun e he => by
    obtain ⟨_, _, hi⟩ := h e he; exact hi.ne_nil)
  omega

/-! ### stage 4: `decodeKeys` inverts `encodeKeys` -/

theorem oddHdr_bit10 : ∀ a : Fin 16, ((0x00 : UInt8) ||| 0x10 ||| UInt8.ofNat a.val) &&& 0x10 ≠ 0 ∧
    ((0x20 : UInt8) ||| 0x10 ||| UInt8.ofNat a.val) &&& 0x10 ≠ 0 := by decide
theorem oddHdr_loNib : ∀ a : Fin 16, loNib ((0x00 : UInt8) ||| 0x10 ||| UInt8.ofNat a.val) = a ∧
    loNib ((0x20 : UInt8) ||| 0x10 ||| UInt8.ofNat a.val) = a := by decide
theorem oddHdr_bit20 : ∀ a : Fin 16, ((0x00 : UInt8) ||| 0x10 ||| UInt8.ofNat a.val) &&& 0x20 = 0x00 ∧
    ((0x20 : UInt8) ||| 0x10 ||| UInt8.ofNat a.val) &&& 0x20 = 0x20 := by decide
theorem hiNib_pack : ∀ a b : Fin 16, hiNib (UInt8.ofNat (a.val * 16 + b.val)) = a := by decide
theorem loNib_pack : ∀ a b : Fin 16, loNib (UInt8.ofNat (a.val * 16 + b.val)) = b := by decide

/-- unpacking inverts `packNibs` on even-length nibble strings -/
theorem unpack_packNibs (n : Nat) (ks : List Nibble) (h : ks.length = 2 * n) :
    (packNibs ks).flatMap (fun b => [hiNib b, loNib b]) = ks := by
  induction n generalizing ks with
  | zero =>
    have : ks = [] := List.length_eq_zero_iff.mp (by omega)
    subst this; rfl
  | succ n ih =>
    match ks, h with
    | a :: b :: r, h =>
      have := ih r (by simp at h; omega)
      simp only [packNibs, List.flatMap_cons, hiNib_pack, loNib_pack, this]
      rfl

theorem packNibs_length (ks : List Nibble) : (packNibs ks).length = ks.length / 2 := by
  fun_induction packNibs ks with
  | case1 a b r ih => simp [ih]; omega
  | case2 ks h =>
    match ks, h with
    | [], _ => rfl
    | [_], _ => simp
    | a :: b :: r, h => exact absurd rfl (h a b r)

theorem encodeKeys_length (tag : UInt8) (ks : List Nibble) :
    (encodeKeys tag ks).length = ks.length / 2 + 1 := by
  unfold encodeKeys
  split
  · rename_i h
    match ks, h with
    | a :: r, h => simp [packNibs_length] at h ⊢; omega
  · simp [packNibs_length]

theorem decodeKeys_encodeKeys (tag : UInt8) (htag : tag = 0x00 ∨ tag = 0x20) (ks : List Nibble) :
    decodeKeys (encodeKeys tag ks) = .ok ks := by
  unfold encodeKeys
  split
  · rename_i h
    match ks, h with
    | a :: r, h =>
      have hr := unpack_packNibs (r.length / 2) r (by simp at h; omega)
      have h1 : (tag ||| 0x10 ||| UInt8.ofNat a.val) &&& 0x10 ≠ 0 := by
        rcases htag with rfl | rfl
        · exact (oddHdr_bit10 a).1
        · exact (oddHdr_bit10 a).2
      have h2 : loNib (tag ||| 0x10 ||| UInt8.ofNat a.val) = a := by
        rcases htag with rfl | rfl
        · exact (oddHdr_loNib a).1
        · exact (oddHdr_loNib a).2
      simp only [decodeKeys, hr]
      rw [if_pos h1, h2]
  · rename_i h
    have hr := unpack_packNibs (ks.length / 2) ks (by omega)
    have h1 : ¬ (tag &&& 0x10 ≠ 0) := by rcases htag with rfl | rfl <;> decide
    simp only [decodeKeys, hr]
    rw [if_neg h1]

/-- the key header is never empty and carries the leaf / extension bit of the tag -/
theorem encodeKeys_head (tag : UInt8) (htag : tag = 0x00 ∨ tag = 0x20) (ks : List Nibble) :
    ∃ h0 tl, encodeKeys tag ks = h0 :: tl ∧ h0 &&& 0x20 = tag := by
  unfold encodeKeys
  split
  · rename_i h
    match ks, h with
    | a :: r, h =>
      refine ⟨_, _, rfl, ?_⟩
      rcases htag with rfl | rfl
      · exact (oddHdr_bit20 a).1
      · exact (oddHdr_bit20 a).2
  · refine ⟨_, _, rfl, ?_⟩
    rcases htag with rfl | rfl <;> decide

/-! ### node serialisations as item lists -/

/-- size bound: every key string and value is shorter than 2^32, hence every node payload
    is (far) below 2^64 and all RLP long-form length fields fit in 8 bytes -/
def Small : Node → Prop
  | .empty => True
  | .leaf ks v => ks.length < 2 ^ 32 ∧ v.length < 2 ^ 32
  | .ext ks nx => ks.length < 2 ^ 32 ∧ Small nx
  | .branch ch v => (∀ x, v = some x → x.length < 2 ^ 32) ∧ ∀ i, Small (ch i)

/-- the part of normal form the decoder relies on: an extension's next node is not nil -/
def ExtOk : Node → Prop
  | .empty => True
  | .leaf _ _ => True
  | .ext _ nx => nx ≠ .empty ∧ ExtOk nx
  | .branch ch _ => ∀ i, ExtOk (ch i)

/-- the RLP items of a node's serialisation -/
def sitems (H : Bytes → Bytes) : Node → List Bytes
  | .empty => []
  | .leaf ks v => [rlpBytes (encodeKeys 0x20 ks), rlpBytes v]
  | .ext ks nx => [rlpBytes (encodeKeys 0x00 ks), link H nx]
  | .branch ch v =>
    ((List.finRange 16).map fun i => link H (ch i))
      ++ [match v with | some x => rlpBytes x | none => rlpBytes []]

theorem serialize_eq (H : Bytes → Bytes) (t : Node) (ht : t ≠ .empty) :
    serialize H t = rlpList (sitems H t) := by
  cases t with
  | empty => exact absurd rfl ht
  | leaf ks v => rfl
  | ext ks nx => rfl
  | branch ch v => rfl

/-- `nodeFromLink` as inlined in `deserialize` -/
def fromLink (f : Nat) (b : Bytes) : Res PNode :=
  match b with
  | [] => .panic
  | b0 :: _ =>
    if b0 ≥ 0xC0 then deserialize f b
    else (parseBytes b).bind fun v => if v = [] then .ok .nil else .ok (.hash v)

theorem deserialize_succ (f : Nat) (s : Bytes) :
    deserialize (f + 1) s =
      (parseList s).bind fun bl =>
        if bl.length = 2 then
          (parseBytes (bl.getD 0 [])).bind fun kh =>
            match kh with
            | [] => .err
            | h0 :: _ =>
              if h0 &&& 0x20 = 0 then
                (fromLink f (bl.getD 1 [])).bind fun nx =>
                  if nx.isNil then .err
                  else (decodeKeys kh).bind fun ks => .ok (.ext ks nx)
              else
                (decodeKeys kh).bind fun ks => (parseBytes (bl.getD 1 [])).bind fun v => .ok (.leaf ks v)
        else if bl.length = 17 then
          (mapRes (fromLink f) (bl.take 16)).bind fun cs =>
            (parseBytes (bl.getD 16 [])).bind fun v =>
              .ok (.branch (fun i => cs.getD i.val .nil) (if v = [] then none else some v))
        else .err := by
  rw [deserialize]; rfl


/-! ### stage 5: links -/

theorem rlpBytes_hash (b : Bytes) (h : b.length = 32) : rlpBytes b = 0xa0 :: b := by
  unfold rlpBytes
  split
  · simp at h
  · rw [if_pos (by omega), h]; rfl

theorem rlpBytes_length_le (b : Bytes) (h : b.length < 2 ^ 64) : (rlpBytes b).length ≤ b.length + 9 := by
  obtain ⟨ts, hl, _, hp⟩ := rlpBytes_isItem b h
  have h8 := beBytes_length_le8 _ h
  unfold rlpBytes
  split
  · split <;> simp
  · split <;> simp <;> omega

theorem rlpList_length_gt (items : List Bytes) : items.flatten.length < (rlpList items).length := by
  unfold rlpList
  simp only
  split <;> simp <;> omega

theorem rlpList_head (items : List Bytes) (h : items.flatten.length < 2 ^ 64) :
    ∃ b0 tl, rlpList items = b0 :: tl ∧ b0 ≥ 0xC0 := by
  unfold rlpList
  generalize items.flatten = p at h
  have h8 := beBytes_length_le8 _ h
  simp only
  split
  · refine ⟨_, _, rfl, ?_⟩
    rw [ge_iff_le, UInt8.le_iff_toNat_le, UInt8.toNat_ofNat']
    simp only [UInt8.reduceToNat]; omega
  · refine ⟨_, _, rfl, ?_⟩
    rw [ge_iff_le, UInt8.le_iff_toNat_le, UInt8.toNat_ofNat']
    simp only [UInt8.reduceToNat]; omega

theorem link_length_le (H : Bytes → Bytes) (hH : ∀ s, (H s).length = 32) (c : Node) :
    (link H c).length ≤ 33 := by
  unfold link
  simp only
  split
  · rw [rlpBytes_hash _ (hH _)]; simp [hH]
  · omega

theorem link_of_le (H : Bytes → Bytes) (c : Node) (h : (serialize H c).length ≤ 32) :
    link H c = serialize H c := by
  unfold link
  simp only
  rw [if_neg (by omega)]

theorem length_le_flatten_of_mem {e : Bytes} {items : List Bytes} (h : e ∈ items) :
    e.length ≤ items.flatten.length := by
  induction items with
  | nil => simp at h
  | cons x r ih =>
    simp only [List.flatten_cons, List.length_append]
    rcases List.mem_cons.mp h with rfl | h
    · omega
    · have := ih h; omega

theorem flatten_map_length_le {α : Type} (l : List α) (g : α → Bytes) (k : Nat)
    (h : ∀ a, (g a).length ≤ k) : (l.map g).flatten.length ≤ l.length * k := by
  induction l with
  | nil => simp
  | cons a r ih =>
    have := h a
    simp only [List.map_cons, List.flatten_cons, List.length_append, List.length_cons, Nat.succ_mul]
    omega

theorem sitems_flatten_lt (H : Bytes → Bytes) (hH : ∀ s, (H s).length = 32) (t : Node) (hs : Small t) :
    (sitems H t).flatten.length < 2 ^ 64 := by
  cases t with
  | empty => simp [sitems]
  | leaf ks v =>
    obtain ⟨h1, h2⟩ := hs
    have e1 := rlpBytes_length_le (encodeKeys 0x20 ks) (by rw [encodeKeys_length]; omega)
    have e2 := rlpBytes_length_le v (by omega)
    rw [encodeKeys_length] at e1
    simp only [sitems, List.flatten_cons, List.flatten_nil, List.length_append, List.length_nil]
    omega
  | ext ks nx =>
    obtain ⟨h1, h2⟩ := hs
    have e1 := rlpBytes_length_le (encodeKeys 0x00 ks) (by rw [encodeKeys_length]; omega)
    have e2 := link_length_le H hH nx
    rw [encodeKeys_length] at e1
    simp only [sitems, List.flatten_cons, List.flatten_nil, List.length_append, List.length_nil]
    omega
  | branch ch v =>
    obtain ⟨h1, h2⟩ := hs
    have e1 := flatten_map_length_le (List.finRange 16) (fun i => link H (ch i)) 33
      (fun i => link_length_le H hH (ch i))
    have e2 : (match v with | some x => rlpBytes x | none => rlpBytes []).length ≤ 2 ^ 32 + 9 := by
      cases v with
      | none => decide
      | some x =>
        have := h1 x rfl
        have := rlpBytes_length_le x (by omega)
        simp only; omega
    simp only [sitems, List.flatten_append, List.flatten_cons, List.flatten_nil, List.length_append,
      List.length_nil]
    simp only [List.length_finRange] at e1
    omega

theorem serialize_isItem (H : Bytes → Bytes) (hH : ∀ s, (H s).length = 32) (t : Node) (ht : t ≠ .empty)
    (hs : Small t) : IsItem (serialize H t) true (sitems H t).flatten := by
  rw [serialize_eq H t ht]
  exact rlpList_isItem _ (sitems_flatten_lt H hH t hs)

theorem link_item (H : Bytes → Bytes) (hH : ∀ s, (H s).length = 32) (c : Node) (hs : Small c) :
    Item (link H c) := by
  unfold link
  simp only
  split
  · exact ⟨_, _, rlpBytes_isItem _ (by rw [hH]; omega)⟩
  · by_cases hc : c = .empty
    · subst hc
      exact ⟨_, _, rlpBytes_isItem [] (by simp)⟩
    · exact ⟨_, _, serialize_isItem H hH c hc hs⟩

theorem sitems_item (H : Bytes → Bytes) (hH : ∀ s, (H s).length = 32) (t : Node) (hs : Small t) :
    ∀ e ∈ sitems H t, Item e := by
  intro e he
  cases t with
  | empty => simp [sitems] at he
  | leaf ks v =>
    obtain ⟨h1, h2⟩ := hs
    simp only [sitems, List.mem_cons, List.not_mem_nil, or_false] at he
    rcases he with rfl | rfl
    · exact ⟨_, _, rlpBytes_isItem _ (by rw [encodeKeys_length]; omega)⟩
    · exact ⟨_, _, rlpBytes_isItem _ (by omega)⟩
  | ext ks nx =>
    obtain ⟨h1, h2⟩ := hs
    simp only [sitems, List.mem_cons, List.not_mem_nil, or_false] at he
    rcases he with rfl | rfl
    · exact ⟨_, _, rlpBytes_isItem _ (by rw [encodeKeys_length]; omega)⟩
    · exact link_item H hH nx h2
  | branch ch v =>
    obtain ⟨h1, h2⟩ := hs
    simp only [sitems, List.mem_append, List.mem_map, List.mem_cons, List.not_mem_nil, or_false] at he
    rcases he with ⟨i, _, rfl⟩ | rfl
    · exact link_item H hH (ch i) (h2 i)
    · cases v with
      | none => exact ⟨_, _, rlpBytes_isItem [] (by simp)⟩
      | some x => exact ⟨_, _, rlpBytes_isItem x (by have := h1 x rfl; omega)⟩

/-- the serialisation of a non-nil node parses back to its items -/
theorem parseList_serialize (H : Bytes → Bytes) (hH : ∀ s, (H s).length = 32) (t : Node)
    (ht : t ≠ .empty) (hs : Small t) : parseList (serialize H t) = .ok (sitems H t) := by
  rw [serialize_eq H t ht]
  exact parseList_rlpList _ (sitems_item H hH t hs) (sitems_flatten_lt H hH t hs)

theorem toP_isNil (H : Bytes → Bytes) (t : Node) (ht : t ≠ .empty) : (toP H t).isNil = false := by
  cases t with
  | empty => exact absurd rfl ht
  | leaf ks v => rfl
  | ext ks nx => rfl
  | branch ch v => rfl

/-- what `nodeFromLink` returns for a child link -/
def linkP (H : Bytes → Bytes) (c : Node) : PNode :=
  if (serialize H c).length > 32 then .hash (H (serialize H c)) else toP H c

theorem fromLink_link (H : Bytes → Bytes) (hH : ∀ s, (H s).length = 32) (f : Nat) (c : Node)
    (hs : Small c)
    (hrec : c ≠ .empty → (serialize H c).length ≤ 32 →
      deserialize f (serialize H c) = .ok (toP H c)) :
    fromLink f (link H c) = .ok (linkP H c) := by
  unfold link linkP
  simp only
  split
  · rw [rlpBytes_hash _ (hH _)]
    have hp := parseBytes_rlpBytes (H (serialize H c)) (by rw [hH]; omega)
    rw [rlpBytes_hash _ (hH _)] at hp
    have hne : H (serialize H c) ≠ [] := by
      intro h; have := hH (serialize H c); rw [h] at this; simp at this
    simp only [fromLink]
    rw [if_neg (by decide), hp]
    simp [hne]
  · rename_i hle
    by_cases hc : c = .empty
    · subst hc
      have : serialize H .empty = rlpBytes [] := rfl
      have hp := parseBytes_rlpBytes [] (by simp)
      rw [this]
      show fromLink f [0x80] = _
      simp only [fromLink]
      rw [if_neg (by decide)]
      show (parseBytes (rlpBytes [])).bind _ = _
      rw [hp]; rfl
    · have hd := hrec hc (by omega)
      obtain ⟨b0, tl, he, hb0⟩ := rlpList_head (sitems H c) (sitems_flatten_lt H hH c hs)
      rw [← serialize_eq H c hc] at he
      rw [he] at hd ⊢
      simp only [fromLink]
      rw [if_pos hb0, hd]

/-! ### stage 6: the decoder inverts the encoder -/

theorem mapRes_map {α β γ : Type} (f : β → Res γ) (g : α → β) (h : α → γ) (l : List α)
    (hl : ∀ a ∈ l, f (g a) = .ok (h a)) : mapRes f (l.map g) = .ok (l.map h) := by
  induction l with
  | nil => rfl
  | cons a r ih =>
    simp only [List.map_cons, mapRes]
    rw [hl a (by simp), ih (fun x hx => hl x (by simp [hx]))]
    rfl

theorem getD_map_finRange {α : Type} (P : Fin 16 → α) (i : Fin 16) (d : α) :
    ((List.finRange 16).map P).getD i.val d = P i := by
  rw [List.getD_eq_getElem?_getD, List.getElem?_map, List.getElem?_eq_getElem (by simp)]
  simp

theorem le_sum_of_mem {x : Nat} {l : List Nat} (h : x ∈ l) : x ≤ l.sum := by
  induction l with
  | nil => simp at h
  | cons a r ih =>
    simp only [List.sum_cons]
    rcases List.mem_cons.mp h with rfl | h
    · omega
    · have := ih h; omega

theorem child_size_lt (ch : Fin 16 → Node) (v : Option Bytes) (i : Fin 16) :
    (ch i).size < (Node.branch ch v).size := by
  have : (ch i).size ∈ (List.finRange 16).map fun i => (ch i).size :=
    List.mem_map.mpr ⟨i, List.mem_finRange i, rfl⟩
  have := le_sum_of_mem this
  simp only [Node.size]; omega

theorem size_pos (t : Node) : 0 < t.size := by
  cases t <;> simp [Node.size]

theorem serialize_length_pos (H : Bytes → Bytes) (t : Node) : 0 < (serialize H t).length := by
  by_cases ht : t = .empty
  · subst ht; simp [serialize]
  · rw [serialize_eq H t ht]
    have := rlpList_length_gt (sitems H t); omega

/-- fuel for a child: either the node-count bound or the byte-length bound carries over
    (the latter because an embedded child is a proper part of its parent's serialisation) -/
theorem child_fuel (H : Bytes → Bytes) (t c : Node) (f : Nat) (ht : t ≠ .empty)
    (hmem : link H c ∈ sitems H t) (hsz : c.size < t.size)
    (hf : t.size ≤ f + 1 ∨ (serialize H t).length ≤ f + 1) (hle : (serialize H c).length ≤ 32) :
    c.size ≤ f ∨ (serialize H c).length ≤ f := by
  rcases hf with hf | hf
  · left; omega
  · right
    rw [serialize_eq H t ht] at hf
    have h1 := rlpList_length_gt (sitems H t)
    have h2 := length_le_flatten_of_mem hmem
    rw [link_of_le H c hle] at h2
    omega

theorem sitems_branch_length (H : Bytes → Bytes) (ch : Fin 16 → Node) (v : Option Bytes) :
    (sitems H (.branch ch v)).length = 17 := by simp [sitems]

theorem sitems_branch_take (H : Bytes → Bytes) (ch : Fin 16 → Node) (v : Option Bytes) :
    (sitems H (.branch ch v)).take 16 = (List.finRange 16).map fun i => link H (ch i) := by
  simp only [sitems]
  rw [List.take_append_of_le_length (by simp), List.take_of_length_le (by simp)]

theorem sitems_branch_getD (H : Bytes → Bytes) (ch : Fin 16 → Node) (v : Option Bytes) :
    (sitems H (.branch ch v)).getD 16 [] =
      (match v with | some x => rlpBytes x | none => rlpBytes []) := by
  simp only [sitems]
  rw [List.getD_eq_getElem?_getD, List.getElem?_append_right (by simp)]
  cases v <;> simp

theorem deserialize_serialize_aux (H : Bytes → Bytes) (hH : ∀ s, (H s).length = 32) (t : Node) :
    t ≠ .empty → ExtOk t → Small t → ∀ fuel,
      (t.size ≤ fuel ∨ (serialize H t).length ≤ fuel) →
      deserialize fuel (serialize H t) = .ok (toP H t) := by
  induction t with
  | empty => intro h; exact absurd rfl h
  | leaf ks v =>
    intro ht _ hs fuel hf
    cases fuel with
    | zero =>
      have := size_pos (.leaf ks v); have := serialize_length_pos H (.leaf ks v); omega
    | succ f =>
      obtain ⟨h1, h2⟩ := hs
      rw [deserialize_succ, parseList_serialize H hH _ ht ⟨h1, h2⟩]
      obtain ⟨h0, tl, hk, hbit⟩ := encodeKeys_head 0x20 (Or.inr rfl) ks
      have hpk := parseBytes_rlpBytes (encodeKeys 0x20 ks) (by rw [encodeKeys_length]; omega)
      have hpv := parseBytes_rlpBytes v (by omega)
      have hdk := decodeKeys_encodeKeys 0x20 (Or.inr rfl) ks
      simp only [sitems, Res.bind_ok, List.length_cons, List.length_nil, if_true]
      show (parseBytes (rlpBytes (encodeKeys 0x20 ks))).bind _ = _
      rw [hpk, Res.bind_ok]
      rw [hk] at hdk ⊢
      simp only
      rw [if_neg (by rw [hbit]; decide), hdk, Res.bind_ok]
      show (parseBytes (rlpBytes v)).bind _ = _
      rw [hpv]; rfl
  | ext ks nx ih =>
    intro ht hok hs fuel hf
    cases fuel with
    | zero =>
      have := size_pos (.ext ks nx); have := serialize_length_pos H (.ext ks nx); omega
    | succ f =>
      obtain ⟨h1, h2⟩ := hs
      obtain ⟨hne, hok'⟩ := hok
      rw [deserialize_succ, parseList_serialize H hH _ ht ⟨h1, h2⟩]
      obtain ⟨h0, tl, hk, hbit⟩ := encodeKeys_head 0x00 (Or.inl rfl) ks
      have hpk := parseBytes_rlpBytes (encodeKeys 0x00 ks) (by rw [encodeKeys_length]; omega)
      have hdk := decodeKeys_encodeKeys 0x00 (Or.inl rfl) ks
      have hl := fromLink_link H hH f nx h2 (fun hc hle =>
        ih hc hok' h2 f (child_fuel H (.ext ks nx) nx f ht (by simp [sitems])
          (by simp [Node.size]) hf hle))
      have hnil : (linkP H nx).isNil = false := by
        unfold linkP; split
        · rfl
        · exact toP_isNil H nx hne
      simp only [sitems, Res.bind_ok, List.length_cons, List.length_nil, if_true]
      show (parseBytes (rlpBytes (encodeKeys 0x00 ks))).bind _ = _
      rw [hpk, Res.bind_ok]
      rw [hk] at hdk ⊢
      simp only
      rw [if_pos hbit]
      show (fromLink f (link H nx)).bind _ = _
      rw [hl, Res.bind_ok, hnil, hdk]
      rfl
  | branch ch v ih =>
    intro ht hok hs fuel hf
    cases fuel with
    | zero =>
      have := size_pos (.branch ch v); have := serialize_length_pos H (.branch ch v); omega
    | succ f =>
      obtain ⟨h1, h2⟩ := hs
      rw [deserialize_succ, parseList_serialize H hH _ ht ⟨h1, h2⟩]
      have hl : ∀ i ∈ List.finRange 16, fromLink f (link H (ch i)) = .ok (linkP H (ch i)) :=
        fun i _ => fromLink_link H hH f (ch i) (h2 i) (fun hc hle =>
          ih i hc (hok i) (h2 i) f (child_fuel H (.branch ch v) (ch i) f ht
            (by simp only [sitems, List.mem_append, List.mem_map]
                exact Or.inl ⟨i, List.mem_finRange i, rfl⟩)
            (child_size_lt ch v i) hf hle))
      have hm := mapRes_map (fromLink f) (fun i => link H (ch i)) (fun i => linkP H (ch i))
        (List.finRange 16) hl
      simp only [Res.bind_ok, sitems_branch_length, sitems_branch_take, sitems_branch_getD, hm, if_true]
      rw [if_neg (by decide)]
      cases v with
      | none =>
        simp only
        rw [parseBytes_rlpBytes [] (by simp), Res.bind_ok]
        simp only [toP, if_true, getD_map_finRange, linkP]
      | some x =>
        simp only
        rw [parseBytes_rlpBytes x (by have := h1 x rfl; omega), Res.bind_ok]
        simp only [toP, getD_map_finRange, linkP]
        cases x <;> simp

/-! ### main theorems -/

theorem nfn_ne_empty {t : Node} (h : NFn t) : t ≠ .empty := by
  intro e; subst e; exact h

theorem nfn_extOk (t : Node) : NFn t → ExtOk t := by
  induction t with
  | empty => intro h; exact h.elim
  | leaf ks v => intro _; trivial
  | ext ks nx ih =>
    intro ⟨_, ⟨c, w, hb⟩, hn⟩
    exact ⟨by rw [hb]; exact Node.noConfusion, ih hn⟩
  | branch ch v ih =>
    intro ⟨hc, _⟩ i
    rcases hc i with h | h
    · rw [h]; trivial
    · exact ih i h

/-- **Decoder inverts encoder**, weakest hypotheses: the node is not nil, no extension has a nil
    next node, sizes are bounded; fuel is at least the node count *or* the byte length. -/
theorem deserialize_serialize_of_extOk (H : Bytes → Bytes) (hH : ∀ s, (H s).length = 32)
    (t : Node) (hne : t ≠ .empty) (hok : ExtOk t) (hsm : Small t) (fuel : Nat)
    (hf : t.size ≤ fuel ∨ (serialize H t).length ≤ fuel) :
    deserialize fuel (serialize H t) = .ok (toP H t) :=
  deserialize_serialize_aux H hH t hne hok hsm fuel hf

/-- **Decoder inverts encoder** on normal-form nodes, for any fuel ≥ the number of nodes. -/
theorem deserialize_serialize (H : Bytes → Bytes) (hH : ∀ s, (H s).length = 32)
    (t : Node) (hnf : NFn t) (hsm : Small t) (fuel : Nat) (hf : t.size ≤ fuel) :
    deserialize fuel (serialize H t) = .ok (toP H t) :=
  deserialize_serialize_aux H hH t (nfn_ne_empty hnf) (nfn_extOk t hnf) hsm fuel (Or.inl hf)

/-- the fuel `proveHash` actually passes: byte length + 1 -/
theorem deserialize_serialize_len (H : Bytes → Bytes) (hH : ∀ s, (H s).length = 32)
    (t : Node) (hnf : NFn t) (hsm : Small t) :
    deserialize ((serialize H t).length + 1) (serialize H t) = .ok (toP H t) :=
  deserialize_serialize_aux H hH t (nfn_ne_empty hnf) (nfn_extOk t hnf) hsm _ (Or.inr (by omega))

/-- `Small` implies the (insufficient on its own) `SmallVals` of C17Defs -/
theorem small_smallVals (t : Node) : Small t → SmallVals t := by
  induction t with
  | empty => intro _; trivial
  | leaf ks v => intro ⟨_, h⟩; show v.length < 2 ^ 64; omega
  | ext ks nx ih => intro ⟨_, h⟩; exact ih h
  | branch ch v ih =>
    intro ⟨h1, h2⟩
    exact ⟨fun x hx => by have := h1 x hx; omega, fun i => ih i (h2 i)⟩

/-! non-vacuity: an extension over a branch with two leaf children and a value -/
section example_
def exH : Bytes → Bytes := fun _ => List.replicate 32 0
def exCh : Fin 16 → Node := upd (upd noCh 0 (.leaf [2] [0xaa])) 1 (.leaf [] [0xbb])
def exT : Node := .ext [1] (.branch exCh (some [0xcc]))

theorem exT_hyps : (∀ s, (exH s).length = 32) ∧ NFn exT ∧ Small exT ∧ exT.size ≤ 20 := by
  refine ⟨fun s => by simp [exH], ⟨by simp, ⟨_, _, rfl⟩, ?_, by decide⟩, ⟨by decide, ?_, ?_⟩, by decide⟩
  · intro i
    by_cases h1 : i = 1
    · right; subst h1; simp [exCh, upd, NFn]
    · by_cases h0 : i = 0
      · right; subst h0; simp [exCh, upd, NFn]
      · left; simp [exCh, upd, h1, h0, noCh]
  · intro x hx; cases hx; decide
  · intro i
    by_cases h1 : i = 1
    · subst h1; simp [exCh, upd, Small]
    · by_cases h0 : i = 0
      · subst h0; simp [exCh, upd, Small]
      · simp [exCh, upd, h1, h0, noCh, Small]

example : deserialize 20 (serialize exH exT) = .ok (toP exH exT) :=
  deserialize_serialize exH exT_hyps.1 exT exT_hyps.2.1 exT_hyps.2.2.1 20 exT_hyps.2.2.2

example : deserialize ((serialize exH exT).length + 1) (serialize exH exT) = .ok (toP exH exT) :=
  deserialize_serialize_len exH exT_hyps.1 exT exT_hyps.2.1 exT_hyps.2.2.1
end example_

end Goloop.C18
