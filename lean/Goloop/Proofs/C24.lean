/-
  Proofs/C24: helper lemmas for the integer encodings.
  Part 1: two's-complement theory (`fitsS`, `MinSigned`, shortest/unique).
  Part 2: the fuel-bounded Go loops (`Int64ToBytes`, `Uint64ToBytes`, `SizeToBytes`) and decoders.
  Part 3: `math/big` Bytes/BitLen and `BigIntToBytes`/`BigIntSetBytes`.
  Part 4: hex text.
-/
import Goloop.Model.C24
import Mathlib.Tactic.Linarith
import Mathlib.Tactic.Ring
namespace Goloop.C24.Proofs
open Goloop Goloop.C24

/-- `v` fits in `k+1` bytes of two's complement. -/
def fitsS (k : Nat) (v : Int) : Prop := -(128 * (256:Int)^k) ≤ v ∧ v < 128 * (256:Int)^k

theorem pow256_pos (k : Nat) : (0:Int) < (256:Int)^k := by positivity

theorem fitsS_succ {k : Nat} {v : Int} (h : fitsS k v) : fitsS (k+1) v := by
  unfold fitsS at *
  have := pow256_pos k
  rw [Int.pow_succ]; omega

theorem fitsS_mono {k k' : Nat} {v : Int} (hk : k ≤ k') (h : fitsS k v) : fitsS k' v := by
  induction hk with
  | refl => exact h
  | step _ ih => exact fitsS_succ ih

theorem beNat_cast_cons (b : UInt8) (r : Bytes) :
    ((beNat (b :: r) : Nat) : Int) = (b.toNat : Int) * (256:Int)^r.length + (beNat r : Int) := by
  rw [beNat_cons]; push_cast; rfl

theorem beInt_cons (b : UInt8) (r : Bytes) :
    beInt (b :: r) = (if b.toNat ≥ 128 then (b.toNat : Int) - 256 else (b.toNat : Int)) * (256:Int)^r.length + (beNat r : Int) := by
  unfold beInt
  simp only [beNat_cast_cons, List.length_cons, Int.pow_succ]
  split <;> ring

theorem beInt_fits (b : UInt8) (r : Bytes) : fitsS r.length (beInt (b :: r)) := by
  rw [beInt_cons]
  have hP := pow256_pos r.length
  have hr : ((beNat r : Nat) : Int) < (256:Int)^r.length := by
    have := beNat_lt r; exact_mod_cast this
  have hr0 : (0:Int) ≤ (beNat r : Int) := Int.natCast_nonneg _
  have hb := b.toNat_lt
  unfold fitsS
  split
  · constructor <;> nlinarith
  · constructor <;> nlinarith

theorem beInt_fits' {bs : Bytes} {k : Nat} (h : bs.length = k + 1) : fitsS k (beInt bs) := by
  match bs, h with
  | b :: r, h =>
    have : r.length = k := by simpa using h
    subst this; exact beInt_fits b r

/-- minimal two's-complement encoding of `v` -/
structure MinSigned (out : Bytes) (v : Int) : Prop where
  ne : out ≠ []
  val : beInt out = v
  min : ∀ k, out.length = k + 2 → ¬ fitsS k v

theorem minSigned_shortest {out bs : Bytes} {v : Int} (h : MinSigned out v)
    (hne : bs ≠ []) (hv : beInt bs = v) : out.length ≤ bs.length := by
  by_contra hlt
  have hlt : bs.length < out.length := by omega
  obtain ⟨j, hj⟩ : ∃ j, bs.length = j + 1 := by
    cases bs with
    | nil => exact absurd rfl hne
    | cons b r => exact ⟨r.length, rfl⟩
  obtain ⟨k, hk⟩ : ∃ k, out.length = k + 2 := ⟨out.length - 2, by omega⟩
  have hf : fitsS j v := hv ▸ beInt_fits' hj
  exact h.min k hk (fitsS_mono (by omega) hf)

theorem beNat_inj : ∀ {a b : Bytes}, a.length = b.length → beNat a = beNat b → a = b
  | [], [], _, _ => rfl
  | [], _ :: _, h, _ => by simp at h
  | _ :: _, [], h, _ => by simp at h
  | x :: xs, y :: ys, h, hv => by
    have hl : xs.length = ys.length := by simpa using h
    rw [beNat_cons, beNat_cons, hl] at hv
    have h1 := beNat_lt xs; have h2 := beNat_lt ys
    rw [hl] at h1
    have hP : 0 < 256 ^ ys.length := Nat.pow_pos (by decide)
    have hxy : x.toNat = y.toNat := by
      by_contra hne
      rcases Nat.lt_or_gt_of_ne hne with hlt | hlt
      · have : (x.toNat + 1) * 256 ^ ys.length ≤ y.toNat * 256 ^ ys.length := Nat.mul_le_mul_right _ hlt
        rw [Nat.add_mul] at this; omega
      · have : (y.toNat + 1) * 256 ^ ys.length ≤ x.toNat * 256 ^ ys.length := Nat.mul_le_mul_right _ hlt
        rw [Nat.add_mul] at this; omega
    have hx : x = y := UInt8.toNat_inj.mp hxy
    rw [hxy] at hv
    have : beNat xs = beNat ys := by omega
    rw [hx, beNat_inj hl this]

/-- value-level form of `beInt`: the sign is decided by the magnitude. -/
theorem beInt_eq_of_lt {bs : Bytes} {k : Nat} (hl : bs.length = k + 1)
    (h : beNat bs < 128 * 256 ^ k) : beInt bs = (beNat bs : Int) := by
  match bs, hl with
  | b :: r, hl =>
    have hk : r.length = k := by simpa using hl
    subst hk
    unfold beInt
    have : ¬ b.toNat ≥ 128 := by
      intro hb
      rw [beNat_cons] at h
      have : 128 * 256 ^ r.length ≤ b.toNat * 256 ^ r.length := Nat.mul_le_mul_right _ hb
      omega
    simp [this]

theorem beInt_eq_of_ge {bs : Bytes} {k : Nat} (hl : bs.length = k + 1)
    (h : 128 * 256 ^ k ≤ beNat bs) : beInt bs = (beNat bs : Int) - (256:Int) ^ (k+1) := by
  match bs, hl with
  | b :: r, hl =>
    have hk : r.length = k := by simpa using hl
    subst hk
    unfold beInt
    have : b.toNat ≥ 128 := by
      by_contra hb
      rw [beNat_cons] at h
      have h2 := beNat_lt r
      have : b.toNat * 256 ^ r.length ≤ 127 * 256 ^ r.length := Nat.mul_le_mul_right _ (by omega)
      omega
    simp [this]

theorem beInt_inj {a b : Bytes} (hl : a.length = b.length) (hv : beInt a = beInt b) : a = b := by
  cases a with
  | nil => cases b with
    | nil => rfl
    | cons _ _ => simp at hl
  | cons x xs => cases b with
    | nil => simp at hl
    | cons y ys =>
      apply beNat_inj hl
      have hl' : xs.length = ys.length := by simpa using hl
      have ha := beNat_lt (x :: xs); have hb := beNat_lt (y :: ys)
      simp only [List.length_cons] at ha hb
      rw [hl'] at ha
      have ha' : ((beNat (x :: xs) : Nat) : Int) < (256:Int)^(ys.length+1) := by exact_mod_cast ha
      have hb' : ((beNat (y :: ys) : Nat) : Int) < (256:Int)^(ys.length+1) := by exact_mod_cast hb
      have e1 : (128:Int) * 256 ^ ys.length * 2 = (256:Int)^(ys.length+1) := by rw [Int.pow_succ]; ring
      by_cases c1 : beNat (x :: xs) < 128 * 256 ^ ys.length <;> by_cases c2 : beNat (y :: ys) < 128 * 256 ^ ys.length
      · rw [beInt_eq_of_lt (k := ys.length) (by simp [hl']) c1, beInt_eq_of_lt (k := ys.length) (by simp) c2] at hv
        exact_mod_cast hv
      · rw [beInt_eq_of_lt (k := ys.length) (by simp [hl']) c1, beInt_eq_of_ge (k := ys.length) (by simp) (by omega)] at hv
        have : (0:Int) ≤ (beNat (x :: xs) : Int) := Int.natCast_nonneg _
        omega
      · rw [beInt_eq_of_ge (k := ys.length) (by simp [hl']) (by omega), beInt_eq_of_lt (k := ys.length) (by simp) c2] at hv
        have : (0:Int) ≤ (beNat (y :: ys) : Int) := Int.natCast_nonneg _
        omega
      · rw [beInt_eq_of_ge (k := ys.length) (by simp [hl']) (by omega), beInt_eq_of_ge (k := ys.length) (by simp) (by omega)] at hv
        have : ((beNat (x :: xs) : Nat) : Int) = (beNat (y :: ys) : Int) := by omega
        exact_mod_cast this

theorem minSigned_unique {a b : Bytes} {v : Int} (ha : MinSigned a v) (hb : MinSigned b v) : a = b := by
  have h1 := minSigned_shortest ha hb.ne hb.val
  have h2 := minSigned_shortest hb ha.ne ha.val
  exact beInt_inj (by omega) (ha.val.trans hb.val.symm)


/-! ### bytes of the loops -/

theorem byteOfNat_toNat (v : Nat) : (byteOfNat v).toNat = v % 256 := by
  simp [byteOfNat]

theorem byteOfInt_toNat (v : Int) : ((byteOfInt v).toNat : Int) = v % 256 := by
  unfold byteOfInt
  have h : (UInt8.ofNat (v.emod 256).toNat).toNat = (v.emod 256).toNat % 256 := by simp
  rw [h]
  have : v.emod 256 = v % 256 := rfl
  omega

theorem beInt_single (b : UInt8) :
    beInt [b] = if b.toNat ≥ 128 then (b.toNat : Int) - 256 else (b.toNat : Int) := by
  rw [beInt_cons]; simp [beNat]

theorem beInt_snoc {pre : Bytes} (hne : pre ≠ []) (b : UInt8) :
    beInt (pre ++ [b]) = beInt pre * 256 + (b.toNat : Int) := by
  cases pre with
  | nil => exact absurd rfl hne
  | cons x xs =>
    rw [List.cons_append, beInt_cons, beInt_cons, beNat_append_singleton]
    simp only [List.length_append, List.length_cons, List.length_nil, Nat.zero_add, Int.pow_succ]
    push_cast; ring

theorem minSigned_single {b : UInt8} {v : Int} (h : beInt [b] = v) : MinSigned [b] v :=
  ⟨by simp, h, by intro k hk; simp at hk⟩

theorem minSigned_snoc {pre : Bytes} {w v : Int} {b : UInt8} (h : MinSigned pre w)
    (hv : w * 256 + (b.toNat : Int) = v) (hb : (b.toNat : Int) = v % 256)
    (hbig : ¬ fitsS 0 v) : MinSigned (pre ++ [b]) v := by
  refine ⟨by simp, ?_, ?_⟩
  · rw [beInt_snoc h.ne, h.val, hv]
  · intro k hk
    have hl : pre.length = k + 1 := by simpa using hk
    cases k with
    | zero => exact hbig
    | succ k' =>
      have hm := h.min k' hl
      intro hf; apply hm
      unfold fitsS at *
      have hP := pow256_pos k'
      rw [Int.pow_succ] at hf
      have hbl := b.toNat_lt
      constructor <;> omega

/-! ### Int64ToBytes -/

theorem int64Loop_spec : ∀ (f : Nat) (v : Int) (acc : Bytes), fitsS f v →
    ∃ pre, int64Loop (if v < 0 then -128 else 0) (f + 1) v acc = pre ++ acc ∧
      pre.length ≤ f + 1 ∧ MinSigned pre v
  | f, v, acc, hf => by
    unfold int64Loop
    have hb := byteOfInt_toNat v
    have hbl := (byteOfInt v).toNat_lt
    have hem : v.emod 128 = v % 128 := rfl
    by_cases ht : v - v.emod 128 = (if v < 0 then -128 else 0)
    · simp only [ht, if_true]
      refine ⟨[byteOfInt v], rfl, by simp, minSigned_single ?_⟩
      rw [beInt_single]
      split at ht <;> split <;> omega
    · simp only [ht, if_false]
      have hbig : ¬ fitsS 0 v := by
        unfold fitsS; simp only [Int.pow_zero]
        intro hc; apply ht
        split <;> omega
      cases f with
      | zero => exact absurd hf hbig
      | succ f' =>
        have hf' : fitsS f' (v / 256) := by
          unfold fitsS at *
          have hP := pow256_pos f'
          rw [Int.pow_succ] at hf
          constructor <;> omega
        have htg : (if v / 256 < 0 then (-128:Int) else 0) = (if v < 0 then -128 else 0) := by
          split <;> split <;> omega
        obtain ⟨pre, he, hl, hm⟩ := int64Loop_spec f' (v / 256) (byteOfInt v :: acc) hf'
        rw [htg] at he
        refine ⟨pre ++ [byteOfInt v], by rw [he]; simp, by simp; omega, ?_⟩
        exact minSigned_snoc hm (by omega) hb hbig

theorem fitsS7_iff (v : Int) : fitsS 7 v ↔ -(2:Int)^63 ≤ v ∧ v < (2:Int)^63 := by
  unfold fitsS
  have : (128:Int) * 256 ^ 7 = 2 ^ 63 := by decide
  rw [this]

theorem int64ToBytes_spec (v : Int) (h : -(2:Int)^63 ≤ v ∧ v < (2:Int)^63) :
    MinSigned (int64ToBytes v) v ∧ (int64ToBytes v).length ≤ 8 := by
  unfold int64ToBytes
  by_cases h0 : v = 0
  · subst h0; simp only [if_true]
    exact ⟨minSigned_single (by decide), by simp⟩
  · simp only [h0, if_false]
    obtain ⟨pre, he, hl, hm⟩ := int64Loop_spec 7 v [] ((fitsS7_iff v).mpr h)
    simp only [List.append_nil] at he
    rw [he]; exact ⟨hm, hl⟩

/-! ### SafeBytesToInt64 -/

set_option maxRecDepth 10000 in
theorem xor255 : ∀ x : Fin 256, x.val ^^^ 255 = 255 - x.val := by decide

theorem toNat_xor_ff (b : UInt8) : (b ^^^ 0xff).toNat = 255 - b.toNat := by
  rw [UInt8.toNat_xor]
  exact xor255 ⟨b.toNat, b.toNat_lt⟩

theorem beNat_compl (bs : Bytes) :
    beNat (bs.map (fun x => x ^^^ 0xff)) + beNat bs + 1 = 256 ^ bs.length := by
  induction bs with
  | nil => simp [beNat]
  | cons b r ih =>
    rw [List.map_cons, beNat_cons, beNat_cons, List.length_map, toNat_xor_ff, List.length_cons, Nat.pow_succ]
    have hb := b.toNat_lt
    have : (255 - b.toNat) * 256 ^ r.length + b.toNat * 256 ^ r.length = 255 * 256 ^ r.length := by
      rw [← Nat.add_mul]; congr 1; omega
    omega

theorem safeBytesToInt64_eq (bs : Bytes) :
    safeBytesToInt64 bs = if bs.length > 8 then none else some (beInt bs) := by
  cases bs with
  | nil => simp [safeBytesToInt64, beInt]
  | cons b r =>
    unfold safeBytesToInt64
    by_cases hl : (b :: r).length > 8
    · simp only [hl, if_true]
    · simp only [hl, if_false]
      unfold beInt
      by_cases hb : b.toNat ≥ 128
      · simp only [hb, if_true]
        have := beNat_compl (b :: r)
        have h2 : ((beNat ((b :: r).map (fun x => x ^^^ 0xff)) : Nat) : Int) + (beNat (b :: r) : Int) + 1
            = (256:Int) ^ (b :: r).length := by exact_mod_cast this
        congr 1; omega
      · simp only [hb, if_false]


/-! ### Uint64ToBytes / SafeBytesToUint64 -/

theorem uint64Loop_spec : ∀ (f : Nat) (v : Nat) (acc : Bytes), fitsS f (v : Int) →
    ∃ pre, uint64Loop (f + 1) v acc = pre ++ acc ∧ pre.length ≤ f + 1 ∧ MinSigned pre (v : Int)
  | f, v, acc, hf => by
    unfold uint64Loop
    have hb := byteOfNat_toNat v
    by_cases ht : v / 256 = 0 ∧ v % 256 < 128
    · simp only [ht, and_self, if_true]
      refine ⟨[byteOfNat v], rfl, by simp, minSigned_single ?_⟩
      rw [beInt_single, hb]
      split <;> omega
    · simp only [ht, if_false]
      have hbig : ¬ fitsS 0 (v : Int) := by
        unfold fitsS; simp only [Int.pow_zero]
        intro hc; apply ht; omega
      cases f with
      | zero => exact absurd hf hbig
      | succ f' =>
        have hf' : fitsS f' ((v / 256 : Nat) : Int) := by
          unfold fitsS at *
          have hP := pow256_pos f'
          rw [Int.pow_succ] at hf
          constructor <;> omega
        obtain ⟨pre, he, hl, hm⟩ := uint64Loop_spec f' (v / 256) (byteOfNat v :: acc) hf'
        refine ⟨pre ++ [byteOfNat v], by rw [he]; simp, by simp; omega, ?_⟩
        exact minSigned_snoc hm (by omega) (by omega) hbig

theorem uint64ToBytes_spec (v : Nat) (h : v < 2 ^ 64) :
    MinSigned (uint64ToBytes v) (v : Int) ∧ (uint64ToBytes v).length ≤ 9 := by
  unfold uint64ToBytes
  by_cases h0 : v = 0
  · subst h0; simp only [if_true]
    exact ⟨minSigned_single (by decide), by simp⟩
  · simp only [h0, if_false]
    have hf : fitsS 8 (v : Int) := by
      unfold fitsS
      have : (128:Int) * 256 ^ 8 = 2 ^ 71 := by decide
      rw [this]
      have : ((v : Nat) : Int) < ((2 ^ 64 : Nat) : Int) := by exact_mod_cast h
      have e : ((2 ^ 64 : Nat) : Int) = 18446744073709551616 := by decide
      have e2 : (2:Int) ^ 71 = 2361183241434822606848 := by decide
      omega
    obtain ⟨pre, he, hl, hm⟩ := uint64Loop_spec 8 v [] hf
    simp only [List.append_nil] at he
    rw [he]; exact ⟨hm, hl⟩

theorem beInt_zero_cons (r : Bytes) : beInt (0 :: r) = (beNat r : Int) := by
  rw [beInt_cons]; simp

/-- what `SafeBytesToUint64` computes, in terms of the two's-complement value -/
theorem safeBytesToUint64_some {bs : Bytes} {v : Nat} (h : safeBytesToUint64 bs = some v) :
    beInt bs = (v : Int) ∧ v < 2 ^ 64 := by
  cases bs with
  | nil => simp [safeBytesToUint64] at h; subst h; simp [beInt]
  | cons b r =>
    unfold safeBytesToUint64 at h
    have e8 : 256 ^ 8 = 2 ^ 64 := by decide
    by_cases hb0 : b = 0
    · subst hb0
      simp only [if_true] at h
      by_cases hl : r.length > 8
      · simp [hl] at h
      · simp only [hl, if_false, Option.some.injEq] at h
        subst h
        refine ⟨beInt_zero_cons r, ?_⟩
        have := beNat_lt r
        have : 256 ^ r.length ≤ 256 ^ 8 := Nat.pow_le_pow_right (by decide) (by omega)
        omega
    · simp only [hb0, if_false] at h
      by_cases hb : b.toNat ≥ 128
      · simp [hb] at h
      · simp only [hb, if_false] at h
        by_cases hl : (b :: r).length > 8
        · rw [if_pos hl] at h; cases h
        · simp only [hl, if_false, Option.some.injEq] at h
          subst h
          constructor
          · unfold beInt; simp [hb]
          · have := beNat_lt (b :: r)
            have : 256 ^ (b :: r).length ≤ 256 ^ 8 := Nat.pow_le_pow_right (by decide) (by omega)
            omega

/-- conversely: everything `SafeBytesToUint64` must accept, it accepts. -/
theorem safeBytesToUint64_accepts {b : UInt8} {r : Bytes} (hb : b.toNat < 128)
    (hl : (b :: r).length ≤ 9) (hv : beNat (b :: r) < 2 ^ 64) :
    safeBytesToUint64 (b :: r) = some (beNat (b :: r)) := by
  unfold safeBytesToUint64
  by_cases hb0 : b = 0
  · subst hb0
    have : ¬ r.length > 8 := by simp at hl; omega
    simp only [if_true, this, if_false]
    rw [beNat_cons]; simp
  · have hbn : ¬ b.toNat ≥ 128 := by omega
    simp only [hb0, if_false, hbn]
    have : ¬ (b :: r).length > 8 := by
      intro hc
      have hl9 : r.length = 8 := by simp at hl hc; omega
      rw [beNat_cons, hl9] at hv
      have hb1 : 1 ≤ b.toNat := by
        have : b.toNat ≠ 0 := fun hz => hb0 (UInt8.toNat_inj.mp (by simpa using hz))
        omega
      have : 1 * 256 ^ 8 ≤ b.toNat * 256 ^ 8 := Nat.mul_le_mul_right _ hb1
      have e8 : 256 ^ 8 = 2 ^ 64 := by decide
      omega
    simp only [this, if_false]

theorem head_lt_128_of_beInt_nonneg {b : UInt8} {r : Bytes} (h : 0 ≤ beInt (b :: r)) : b.toNat < 128 := by
  by_contra hb
  have hb : b.toNat ≥ 128 := by omega
  rw [beInt_cons] at h
  simp only [hb, if_true] at h
  have hr : ((beNat r : Nat) : Int) < (256:Int)^r.length := by
    have := beNat_lt r; exact_mod_cast this
  have hbl := b.toNat_lt
  have hP := pow256_pos r.length
  nlinarith

theorem beInt_eq_beNat_of_head {b : UInt8} {r : Bytes} (hb : b.toNat < 128) :
    beInt (b :: r) = (beNat (b :: r) : Int) := by
  unfold beInt
  have : ¬ b.toNat ≥ 128 := by omega
  simp [this]

theorem uint64_roundtrip (v : Nat) (h : v < 2 ^ 64) :
    safeBytesToUint64 (uint64ToBytes v) = some v := by
  obtain ⟨hm, hl⟩ := uint64ToBytes_spec v h
  generalize uint64ToBytes v = out at hm hl
  cases out with
  | nil => exact absurd rfl hm.ne
  | cons b r =>
    have hb : b.toNat < 128 := head_lt_128_of_beInt_nonneg (by rw [hm.val]; exact Int.natCast_nonneg _)
    have hv := hm.val
    rw [beInt_eq_beNat_of_head hb] at hv
    have hv : beNat (b :: r) = v := by exact_mod_cast hv
    rw [safeBytesToUint64_accepts hb hl (by omega), hv]


/-! ### math/big: Bytes, BitLen -/

theorem natBytesAux_spec : ∀ (fuel v : Nat) (acc : Bytes), v < fuel →
    ∃ pre, natBytesAux fuel v acc = pre ++ acc ∧ beNat pre = v ∧ (v = 0 → pre = []) ∧
      (v ≠ 0 → ∃ L, pre.length = L + 1 ∧ 256 ^ L ≤ v ∧ v < 256 ^ (L + 1))
  | 0, v, acc, h => by omega
  | fuel + 1, v, acc, h => by
    unfold natBytesAux
    by_cases h0 : v = 0
    · simp only [h0, if_true]
      exact ⟨[], rfl, by simp [beNat], fun _ => rfl, fun hc => absurd rfl hc⟩
    · rw [if_neg h0]
      obtain ⟨pre, he, hv, hz, hnz⟩ := natBytesAux_spec fuel (v / 256) (byteOfNat v :: acc) (by omega)
      refine ⟨pre ++ [byteOfNat v], by rw [he]; simp, ?_, fun hc => absurd hc h0, fun _ => ?_⟩
      · rw [beNat_append_singleton, hv, byteOfNat_toNat]; omega
      · by_cases hq : v / 256 = 0
        · have := hz hq; subst this
          exact ⟨0, by simp, by simp; omega, by simp; omega⟩
        · obtain ⟨L, hL, h1, h2⟩ := hnz hq
          refine ⟨L + 1, by simp [hL], ?_, ?_⟩
          · rw [Nat.pow_succ]; omega
          · have : 256 ^ (L + 1 + 1) = 256 ^ (L + 1) * 256 := by rw [Nat.pow_succ]
            omega

theorem natBytes_zero : natBytes 0 = [] := by
  simp [natBytes, natBytesAux]

theorem natBytes_spec (v : Nat) (h : v ≠ 0) :
    beNat (natBytes v) = v ∧ ∃ L, (natBytes v).length = L + 1 ∧ 256 ^ L ≤ v ∧ v < 256 ^ (L + 1) := by
  obtain ⟨pre, he, hv, _, hnz⟩ := natBytesAux_spec (v + 1) v [] (by omega)
  simp only [List.append_nil] at he
  unfold natBytes; rw [he]
  exact ⟨hv, hnz h⟩

theorem beNat_natBytes (v : Nat) : beNat (natBytes v) = v := by
  by_cases h : v = 0
  · subst h; simp [natBytes_zero, beNat]
  · exact (natBytes_spec v h).1

theorem pow256_eq (L : Nat) : 256 ^ L = 2 ^ (8 * L) := by
  rw [Nat.pow_mul]

/-- the defining property of `BitLen` -/
theorem bitLen_spec (v : Nat) (h : v ≠ 0) : 2 ^ (bitLen v - 1) ≤ v ∧ v < 2 ^ bitLen v ∧ 1 ≤ bitLen v := by
  unfold bitLen
  simp only [h, if_false, Nat.add_sub_cancel]
  exact ⟨Nat.log2_self_le h, Nat.lt_log2_self, by omega⟩

theorem bitLen_lt_iff (v k : Nat) : v < 2 ^ k ↔ bitLen v ≤ k := by
  unfold bitLen
  by_cases h : v = 0
  · subst h; simp
  · simp only [h, if_false]
    rw [← Nat.log2_lt h]; omega

theorem bitLen_zero : bitLen 0 = 0 := by simp [bitLen]

/-- length of `Bytes()` is ⌈BitLen/8⌉ -/
theorem natBytes_length_bitLen (v : Nat) {L : Nat}
    (h1 : 256 ^ L ≤ v) (h2 : v < 256 ^ (L + 1)) : 8 * L < bitLen v ∧ bitLen v ≤ 8 * (L + 1) := by
  rw [pow256_eq] at h1 h2
  constructor
  · by_contra hc
    have : v < 2 ^ (8 * L) := (bitLen_lt_iff v _).mpr (by omega)
    omega
  · exact (bitLen_lt_iff v _).mp h2

/-! ### BigIntToBytes / BigIntSetBytes -/

theorem bigIntSetBytes_eq_beInt (bs : Bytes) : bigIntSetBytes bs = beInt bs := by
  cases bs with
  | nil => simp [bigIntSetBytes, beInt]
  | cons b r =>
    unfold bigIntSetBytes beInt
    by_cases hb : b.toNat ≥ 128
    · simp only [hb, if_true]
      -- BitLen of the magnitude is exactly 8*len when the top bit is set
      have hlt := beNat_lt (b :: r)
      have hge : 128 * 256 ^ r.length ≤ beNat (b :: r) := by
        rw [beNat_cons]
        have : 128 * 256 ^ r.length ≤ b.toNat * 256 ^ r.length := Nat.mul_le_mul_right _ hb
        omega
      have hbl : bitLen (beNat (b :: r)) = 8 * (b :: r).length := by
        rw [pow256_eq] at hlt hge
        have hle := (bitLen_lt_iff _ _).mp hlt
        have : ¬ bitLen (beNat (b :: r)) ≤ 8 * r.length + 7 := by
          intro hc
          have := (bitLen_lt_iff _ _).mpr hc
          have e : 2 ^ (8 * r.length + 7) = 128 * 2 ^ (8 * r.length) := by
            rw [Nat.pow_add]; omega
          omega
        simp only [List.length_cons] at *
        omega
      rw [hbl, Int.pow_mul]
      norm_num
    · simp only [hb, if_false]

theorem two_pow_cast (k : Nat) : (((2:Nat) ^ k : Nat) : Int) = (2:Int) ^ k := by push_cast; rfl

theorem bigIntToBytes_spec (i : Int) : MinSigned (bigIntToBytes i) i := by
  unfold bigIntToBytes
  by_cases h0 : i = 0
  · subst h0; simp only [if_true]; exact minSigned_single (by decide)
  · simp only [h0, if_false]
    by_cases hpos : i > 0
    · simp only [hpos, if_true]
      have hn0 : i.toNat ≠ 0 := by omega
      have hi : ((i.toNat : Nat) : Int) = i := by omega
      obtain ⟨hv, L, hL, h1, h2⟩ := natBytes_spec i.toNat hn0
      obtain ⟨hb1, hb2⟩ := natBytes_length_bitLen i.toNat h1 h2
      obtain ⟨hs1, hs2, _⟩ := bitLen_spec i.toNat hn0
      by_cases hm : bitLen i.toNat % 8 = 0
      · simp only [hm, if_true]
        have hbl : bitLen i.toNat = 8 * (L + 1) := by omega
        refine ⟨by simp, ?_, ?_⟩
        · rw [beInt_zero_cons, hv, hi]
        · intro k hk
          have hkL : k = L := by simp [hL] at hk; omega
          subst hkL
          unfold fitsS
          intro hc
          have e : 2 ^ (bitLen i.toNat - 1) = 128 * 256 ^ k := by
            rw [hbl, pow256_eq]
            have : 8 * (k + 1) - 1 = 8 * k + 7 := by omega
            rw [this, Nat.pow_add]; omega
          rw [e] at hs1
          have : ((128 * 256 ^ k : Nat) : Int) ≤ ((i.toNat : Nat) : Int) := by exact_mod_cast hs1
          rw [hi] at this
          push_cast at this
          omega
      · simp only [hm, if_false]
        have hlt : i.toNat < 128 * 256 ^ L := by
          have : i.toNat < 2 ^ (8 * L + 7) := (bitLen_lt_iff _ _).mpr (by omega)
          rw [Nat.pow_add, ← pow256_eq] at this; omega
        refine ⟨by intro hc; rw [hc] at hL; simp at hL, ?_, ?_⟩
        · rw [beInt_eq_of_lt hL (by rw [hv]; exact hlt), hv, hi]
        · intro k hk
          have hkL : L = k + 1 := by omega
          subst hkL
          unfold fitsS
          intro hc
          have : ((256 ^ (k + 1) : Nat) : Int) ≤ ((i.toNat : Nat) : Int) := by exact_mod_cast h1
          rw [hi] at this
          push_cast at this
          rw [Int.pow_succ] at this
          have := pow256_pos k
          omega
    · simp only [hpos, if_false]
      have hneg : i < 0 := by omega
      -- m = -(i+1) ≥ 0
      generalize hm : (i + 1).natAbs = m
      have hmi : (m : Int) = -i - 1 := by omega
      generalize hW : (bitLen m + 8) / 8 = W
      have hW1 : 1 ≤ W := by omega
      obtain ⟨W', rfl⟩ : ∃ W', W = W' + 1 := ⟨W - 1, by omega⟩
      have hblW : bitLen m ≤ 8 * W' + 7 := by omega
      have hblW2 : 8 * W' ≤ bitLen m := by omega
      have hmlt : m < 128 * 256 ^ W' := by
        have : m < 2 ^ (8 * W' + 7) := (bitLen_lt_iff _ _).mpr hblW
        rw [Nat.pow_add, ← pow256_eq] at this; omega
      have hmlt' : (m : Int) < 128 * (256:Int) ^ W' := by exact_mod_cast hmlt
      have hP := pow256_pos W'
      have e2 : (2:Int) ^ ((W' + 1) * 8) = (256:Int) ^ W' * 256 := by
        rw [Nat.mul_comm, Int.pow_mul, Int.pow_succ]; norm_num
      rw [e2]
      generalize hnb : ((256:Int) ^ W' * 256 + i).toNat = nb
      have hnbi : (nb : Int) = (256:Int) ^ W' * 256 + i := by omega
      have hnb_ge : 128 * 256 ^ W' ≤ nb := by
        have : ((128 * 256 ^ W' : Nat) : Int) ≤ (nb : Int) := by push_cast; omega
        exact_mod_cast this
      have hnb_lt : nb < 256 ^ (W' + 1) := by
        have : (nb : Int) < ((256 ^ (W' + 1) : Nat) : Int) := by push_cast; rw [Int.pow_succ]; omega
        exact_mod_cast this
      have hP' : 0 < 256 ^ W' := Nat.pow_pos (by decide)
      have hn0 : nb ≠ 0 := by omega
      obtain ⟨hv, L, hL, h1, h2⟩ := natBytes_spec nb hn0
      have hLW : L = W' := by
        have a1 : 256 ^ L < 256 ^ (W' + 1) := by omega
        have a2 : 256 ^ W' < 256 ^ (L + 1) := by omega
        have := (Nat.pow_lt_pow_iff_right (a := 256) (by decide)).mp a1
        have := (Nat.pow_lt_pow_iff_right (a := 256) (by decide)).mp a2
        omega
      subst hLW
      refine ⟨by intro hc; rw [hc] at hL; simp at hL, ?_, ?_⟩
      · rw [beInt_eq_of_ge hL (by rw [hv]; exact hnb_ge), hv, hnbi, Int.pow_succ]; omega
      · intro k hk
        have hkL : L = k + 1 := by omega
        subst hkL
        unfold fitsS
        intro hc
        -- m ≥ 2^(bitLen m - 1) ≥ 2^(8k+7) = 128*256^k
        have hm0 : m ≠ 0 := by
          intro hz; subst hz; rw [bitLen_zero] at hblW2; omega
        obtain ⟨hs1, _, _⟩ := bitLen_spec m hm0
        have : 2 ^ (8 * k + 7) ≤ 2 ^ (bitLen m - 1) := Nat.pow_le_pow_right (by decide) (by omega)
        have e : 2 ^ (8 * k + 7) = 128 * 256 ^ k := by rw [Nat.pow_add, ← pow256_eq]; omega
        have : ((128 * 256 ^ k : Nat) : Int) ≤ (m : Int) := by exact_mod_cast (by omega : 128 * 256 ^ k ≤ m)
        push_cast at this
        omega

theorem big_roundtrip (i : Int) : bigIntSetBytes (bigIntToBytes i) = i := by
  rw [bigIntSetBytes_eq_beInt]; exact (bigIntToBytes_spec i).val


/-! ### SizeToBytes -/

theorem sizeLoop_spec : ∀ (f v : Nat) (acc : Bytes), v ≠ 0 → v < 256 ^ f →
    ∃ pre, sizeLoop f v acc = pre ++ acc ∧ pre.length ≤ f ∧ pre ≠ [] ∧ beNat pre = v ∧ pre.head? ≠ some 0
  | 0, v, acc, h0, hlt => by simp at hlt; omega
  | f + 1, v, acc, h0, hlt => by
    unfold sizeLoop
    by_cases hz : v / 256 = 0
    · simp only [hz, if_true]
      refine ⟨[byteOfNat v], rfl, by simp, by simp, ?_, ?_⟩
      · simp [beNat, byteOfNat_toNat]; omega
      · simp only [List.head?_cons]
        intro hc
        have : (byteOfNat v).toNat = 0 := by
          have := Option.some.inj hc; rw [this]; rfl
        rw [byteOfNat_toNat] at this; omega
    · simp only [hz, if_false]
      have hlt' : v / 256 < 256 ^ f := by
        rw [Nat.pow_succ] at hlt; omega
      obtain ⟨pre, he, hl, hne, hv, hh⟩ := sizeLoop_spec f (v / 256) (byteOfNat v :: acc) hz hlt'
      refine ⟨pre ++ [byteOfNat v], by simp [he], by simp; omega, by simp, ?_, ?_⟩
      · rw [beNat_append_singleton, hv, byteOfNat_toNat]; omega
      · cases pre with
        | nil => exact absurd rfl hne
        | cons a as => simpa using hh

theorem size_roundtrip (v : Nat) (h : v < 2 ^ 64) :
    safeBytesToSize64 (sizeToBytes v) = some v := by
  unfold sizeToBytes
  by_cases h0 : v = 0
  · subst h0; simp [safeBytesToSize64, beNat]
  · simp only [h0, if_false]
    have hlt : v < 256 ^ 8 := by
      have : (256 : Nat) ^ 8 = 2 ^ 64 := by decide
      omega
    obtain ⟨pre, he, hl, _, hv, _⟩ := sizeLoop_spec 8 v [] h0 hlt
    simp only [List.append_nil] at he
    rw [he]; unfold safeBytesToSize64
    have : ¬ pre.length > 8 := by omega
    simp [this, hv]

theorem size_minimal (v : Nat) (h : v < 2 ^ 64) :
    (v = 0 → sizeToBytes v = [0]) ∧ (v ≠ 0 → (sizeToBytes v).head? ≠ some 0 ∧ (sizeToBytes v) ≠ []) := by
  constructor
  · intro h0; subst h0; rfl
  · intro h0
    unfold sizeToBytes
    simp only [h0, if_false]
    have hlt : v < 256 ^ 8 := by
      have : (256 : Nat) ^ 8 = 2 ^ 64 := by decide
      omega
    obtain ⟨pre, he, _, hne, _, hh⟩ := sizeLoop_spec 8 v [] h0 hlt
    simp only [List.append_nil] at he
    rw [he]; exact ⟨hh, hne⟩

/-! ### hex text -/

/-- value of a nibble string -/
def hexVal (ns : List Nat) (acc : Nat) : Nat := ns.foldl (fun a n => a * 16 + n) acc

theorem hexVal_cons (n : Nat) (ns : List Nat) (acc : Nat) : hexVal (n :: ns) acc = hexVal ns (acc * 16 + n) := rfl

theorem hexVal_ge (ns : List Nat) (acc : Nat) : acc ≤ hexVal ns acc := by
  induction ns generalizing acc with
  | nil => exact Nat.le_refl _
  | cons n ns ih => rw [hexVal_cons]; have := ih (acc * 16 + n); omega

def nibbles (bs : Bytes) : List Nat := bs.flatMap (fun b => [b.toNat / 16, b.toNat % 16])

theorem nibbles_lt (bs : Bytes) : ∀ n ∈ nibbles bs, n < 16 := by
  intro n hn
  unfold nibbles at hn
  rw [List.mem_flatMap] at hn
  obtain ⟨b, _, hb⟩ := hn
  have := b.toNat_lt
  simp at hb
  omega

theorem hexVal_nibbles (bs : Bytes) (acc : Nat) :
    hexVal (nibbles bs) acc = acc * 256 ^ bs.length + beNat bs := by
  induction bs generalizing acc with
  | nil => simp [nibbles, hexVal, beNat]
  | cons b r ih =>
    have : nibbles (b :: r) = (b.toNat / 16) :: (b.toNat % 16) :: nibbles r := by simp [nibbles]
    rw [this, hexVal_cons, hexVal_cons, ih, beNat_cons, List.length_cons, Nat.pow_succ]
    have e : (acc * 16 + b.toNat / 16) * 16 + b.toNat % 16 = acc * 256 + b.toNat := by omega
    rw [e, Nat.add_mul, Nat.mul_assoc, Nat.mul_comm 256]
    omega

theorem encode_toList (bs : Bytes) : (Hex.encode bs).toList = (nibbles bs).map Hex.digit := by
  unfold Hex.encode nibbles
  rw [String.toList_ofList]
  induction bs with
  | nil => rfl
  | cons b r ih => simp [Hex.ofByte, ih]

set_option maxRecDepth 4000 in
theorem digit_facts : ∀ n : Fin 16,
    scanDigit (Hex.digit n.val) = n.val ∧ puDigit (Hex.digit n.val) = some n.val ∧
    Hex.digit n.val ≠ '_' ∧ Hex.digit n.val ≠ '-' ∧ Hex.digit n.val ≠ '+' ∧
    (Hex.digit n.val = '0' ↔ n.val = 0) := by decide

theorem digit_facts' {n : Nat} (h : n < 16) :
    scanDigit (Hex.digit n) = n ∧ puDigit (Hex.digit n) = some n ∧
    Hex.digit n ≠ '_' ∧ Hex.digit n ≠ '-' ∧ Hex.digit n ≠ '+' ∧ (Hex.digit n = '0' ↔ n = 0) :=
  digit_facts ⟨n, h⟩

def hexPrefix (neg : Bool) : List Char := if neg then ['-', '0', 'x'] else ['0', 'x']

/-- shape of the output of `encodeHexNumber`: sign, `0x`, then a NON-EMPTY lower-case digit string
    whose value is the big-endian value of the bytes. -/
theorem encodeHexNumber_shape (neg : Bool) (bs : Bytes) (hneg : bs = [] → neg = false) :
    ∃ ns : List Nat, ns ≠ [] ∧ (∀ n ∈ ns, n < 16) ∧ hexVal ns 0 = beNat bs ∧
      (encodeHexNumber neg bs).toList = hexPrefix neg ++ ns.map Hex.digit := by
  unfold encodeHexNumber
  simp only [encode_toList]
  cases bs with
  | nil =>
    refine ⟨[0], by simp, by simp, by simp [hexVal, beNat], ?_⟩
    rw [hneg rfl]; decide
  | cons b r =>
    have hn : nibbles (b :: r) = (b.toNat / 16) :: (b.toNat % 16) :: nibbles r := by simp [nibbles]
    have hlt := nibbles_lt (b :: r)
    have hval := hexVal_nibbles (b :: r) 0
    rw [hn] at hlt hval
    rw [hn]
    simp only [List.map_cons]
    have hb := b.toNat_lt
    have hd := digit_facts' (n := b.toNat / 16) (by omega)
    by_cases hz : b.toNat / 16 = 0
    · have hc : Hex.digit (b.toNat / 16) = '0' := hd.2.2.2.2.2.mpr hz
      simp only [hc, if_true]
      refine ⟨(b.toNat % 16) :: nibbles r, by simp, ?_, ?_, ?_⟩
      · intro n hn'; exact hlt n (List.mem_cons_of_mem _ hn')
      · rw [hexVal_cons] at hval; rw [hz] at hval; simpa using hval
      · rw [String.toList_ofList]; cases neg <;> simp [hexPrefix]
    · have hc : Hex.digit (b.toNat / 16) ≠ '0' := fun h => hz (hd.2.2.2.2.2.mp h)
      simp only [hc, if_false]
      refine ⟨(b.toNat / 16) :: (b.toNat % 16) :: nibbles r, by simp, hlt, by simpa using hval, ?_⟩
      rw [String.toList_ofList]; cases neg <;> simp [hexPrefix]


theorem scanLoop_hex : ∀ (ns : List Nat), (∀ n ∈ ns, n < 16) → ∀ (v cnt : Nat) (inv : Bool),
    scanLoop 16 true (ns.map Hex.digit) v cnt '0' inv = some (hexVal ns v, cnt + ns.length, '0', inv)
  | [], _, v, cnt, inv => by simp [scanLoop, hexVal]
  | n :: ns, h, v, cnt, inv => by
    have hn : n < 16 := h n (by simp)
    obtain ⟨h1, _, h3, _⟩ := digit_facts' hn
    rw [List.map_cons]
    unfold scanLoop
    have hc : ¬ (Hex.digit n = '_' ∧ true = true) := fun hc => h3 hc.1
    rw [if_neg hc]
    simp only [h1]
    rw [if_neg (show ¬ n ≥ 16 by omega)]
    rw [scanLoop_hex ns (fun m hm => h m (List.mem_cons_of_mem _ hm))]
    simp only [hexVal_cons, List.length_cons]
    have : cnt + 1 + ns.length = cnt + (ns.length + 1) := by omega
    rw [this]

theorem bigScanNat_hex (ns : List Nat) (hne : ns ≠ []) (h : ∀ n ∈ ns, n < 16) :
    bigScanNat true ('0' :: 'x' :: ns.map Hex.digit) = some (hexVal ns 0) := by
  have : ns.length ≠ 0 := by cases ns with | nil => exact absurd rfl hne | cons _ _ => simp
  simp [bigScanNat, scanLoop_hex ns h, scanFinish, this]

theorem parseBigInt_hex (neg : Bool) (ns : List Nat) (hne : ns ≠ []) (h : ∀ n ∈ ns, n < 16)
    (s : String) (hs : s.toList = hexPrefix neg ++ ns.map Hex.digit) :
    parseBigInt s = some (if neg then -(hexVal ns 0 : Int) else (hexVal ns 0 : Int)) := by
  unfold parseBigInt
  rw [hs]
  have e1 : ¬ (('x' : Char) = 'o' ∨ ('x' : Char) = 'O' ∨ ('x' : Char) = 'X' ∨ ('x' : Char) = 'b' ∨ ('x' : Char) = 'B') := by decide
  cases neg
  · simp [hexPrefix, bigSetString, bigScanNat_hex ns hne h]
  · simp [hexPrefix, bigSetString, bigScanNat_hex ns hne h]

theorem formatBigInt_roundtrip (i : Int) : parseBigInt (formatBigInt i) = some i := by
  unfold formatBigInt
  have hneg : natBytes i.natAbs = [] → decide (i < 0) = false := by
    intro hc
    have := beNat_natBytes i.natAbs
    rw [hc] at this
    simp [beNat] at this
    simp; omega
  obtain ⟨ns, hne, hlt, hv, hs⟩ := encodeHexNumber_shape (decide (i < 0)) (natBytes i.natAbs) hneg
  rw [parseBigInt_hex _ ns hne hlt _ hs, hv, beNat_natBytes]
  congr 1
  by_cases hi : i < 0
  · rw [if_pos (by simp [hi])]; omega
  · rw [if_neg (by simp [hi])]; omega

theorem puLoop_hex (maxVal : Nat) (hmax : maxVal < 2 ^ 64) : ∀ (ns : List Nat), (∀ n ∈ ns, n < 16) →
    ∀ (n : Nat) (us : Bool), hexVal ns n ≤ maxVal →
    puLoop 16 true ((2 ^ 64 - 1) / 16 + 1) maxVal (ns.map Hex.digit) n us = some (hexVal ns n, us)
  | [], _, n, us, _ => by simp [puLoop, hexVal]
  | d :: ns, h, n, us, hv => by
    have hd : d < 16 := h d (by simp)
    obtain ⟨_, h2, h3, _⟩ := digit_facts' hd
    rw [List.map_cons]
    unfold puLoop
    have hc : ¬ (Hex.digit d = '_' ∧ true = true) := fun hc => h3 hc.1
    rw [if_neg hc]
    simp only [h2]
    rw [hexVal_cons] at hv
    have hge := hexVal_ge ns (n * 16 + d)
    have e64 : (2:Nat) ^ 64 = 18446744073709551616 := by decide
    rw [e64] at hmax ⊢
    rw [if_neg (show ¬ d ≥ 16 by omega), if_neg (show ¬ n ≥ (18446744073709551616 - 1) / 16 + 1 by omega)]
    have m1 : n * 16 % 18446744073709551616 = n * 16 := Nat.mod_eq_of_lt (by omega)
    have m2 : (n * 16 + d) % 18446744073709551616 = n * 16 + d := Nat.mod_eq_of_lt (by omega)
    simp only [m1, m2]
    rw [if_neg (show ¬ (n * 16 + d < n * 16 ∨ n * 16 + d > maxVal) by omega)]
    have := puLoop_hex maxVal (by omega) ns (fun m hm => h m (List.mem_cons_of_mem _ hm)) (n * 16 + d) us hv
    rw [e64] at this
    rw [this, hexVal_cons]

theorem parseUintChars_hex (bits : Nat) (hb : bits ≤ 64) (ns : List Nat) (hne : ns ≠ [])
    (h : ∀ n ∈ ns, n < 16) (hv : hexVal ns 0 < 2 ^ bits) :
    parseUintChars ('0' :: 'x' :: ns.map Hex.digit) bits = some (hexVal ns 0) := by
  cases ns with
  | nil => exact absurd rfl hne
  | cons d ds =>
    have hp : 0 < 2 ^ bits := Nat.pow_pos (by decide)
    have hmax : 2 ^ bits - 1 < 2 ^ 64 := by
      have : 2 ^ bits ≤ 2 ^ 64 := Nat.pow_le_pow_right (by decide) hb
      omega
    have := puLoop_hex (2 ^ bits - 1) hmax (d :: ds) h 0 false (by omega)
    unfold parseUintChars
    simp only [List.map_cons] at this ⊢
    have e : (2 ^ 64 - 1) / 16 + 1 = 1152921504606846976 := by decide
    rw [e] at this
    simp [this]

theorem beNat_sizeToBytes (v : Nat) (h : v < 2 ^ 64) : beNat (sizeToBytes v) = v := by
  have := size_roundtrip v h
  unfold safeBytesToSize64 at this
  split at this
  · cases this
  · exact Option.some.inj this

theorem sizeToBytes_ne_nil (v : Nat) (h : v < 2 ^ 64) : sizeToBytes v ≠ [] := by
  by_cases h0 : v = 0
  · subst h0; decide
  · exact ((size_minimal v h).2 h0).2

theorem formatUint_roundtrip (bits : Nat) (hb : bits ≤ 64) (v : Nat) (h : v < 2 ^ bits) :
    parseUint (formatUint v) bits = some v := by
  have h64 : v < 2 ^ 64 := Nat.lt_of_lt_of_le h (Nat.pow_le_pow_right (by decide) hb)
  obtain ⟨ns, hne, hlt, hv, hs⟩ := encodeHexNumber_shape false (sizeToBytes v) (fun _ => rfl)
  unfold parseUint formatUint
  rw [hs, beNat_sizeToBytes v h64] at *
  simp only [hexPrefix, Bool.false_eq_true, if_false, List.cons_append, List.nil_append]
  rw [parseUintChars_hex bits hb ns hne hlt (by omega), hv]

theorem formatInt_roundtrip (bits : Nat) (hb1 : 1 ≤ bits) (hb : bits ≤ 64) (v : Int)
    (h : -(2:Int) ^ (bits - 1) ≤ v ∧ v < (2:Int) ^ (bits - 1)) :
    parseInt (formatInt v) bits = some v := by
  have hpow : ((2 ^ (bits - 1) : Nat) : Int) = (2:Int) ^ (bits - 1) := by push_cast; rfl
  have habs : v.natAbs ≤ 2 ^ (bits - 1) := by omega
  have hlt2 : 2 ^ (bits - 1) < 2 ^ bits := Nat.pow_lt_pow_right (by decide) (by omega)
  have h64 : v.natAbs < 2 ^ 64 := by
    have : 2 ^ bits ≤ 2 ^ 64 := Nat.pow_le_pow_right (by decide) hb
    omega
  obtain ⟨ns, hne, hlt, hv, hs⟩ := encodeHexNumber_shape (decide (v < 0)) (sizeToBytes v.natAbs)
    (fun hc => absurd hc (sizeToBytes_ne_nil _ h64))
  rw [beNat_sizeToBytes _ h64] at hv
  have hpu := parseUintChars_hex bits hb ns hne hlt (by rw [hv]; exact Nat.lt_of_le_of_lt habs hlt2)
  unfold parseInt formatInt
  rw [hs]
  by_cases hneg : v < 0
  · simp only [hneg, decide_true, hexPrefix, if_true, List.cons_append, List.nil_append]
    have e1 : ¬ (('-' : Char) = '+') := by decide
    simp only [if_neg e1, if_true, hpu, hv]
    rw [if_neg (fun hc => hc.1 trivial), if_neg (fun hc => absurd hc.2 (by omega))]
    congr 1; omega
  · simp only [hneg, decide_false, hexPrefix, Bool.false_eq_true, if_false, List.cons_append, List.nil_append]
    have e1 : ¬ (('0' : Char) = '+') := by decide
    have e2 : ¬ (('0' : Char) = '-') := by decide
    simp only [if_neg e1, if_neg e2, hpu, hv]
    have hlt3 : ¬ v.natAbs ≥ 2 ^ (bits - 1) := by omega
    rw [if_neg (fun hc => hlt3 hc.2), if_neg (fun hc => absurd hc.1 (by decide)), if_neg (by decide)]
    congr 1; omega

theorem beNat_ge_of_head {b : UInt8} {r : Bytes} (hb : b ≠ 0) : 256 ^ r.length ≤ beNat (b :: r) := by
  rw [beNat_cons]
  have hb1 : 1 ≤ b.toNat := by
    have : b.toNat ≠ 0 := fun hz => hb (UInt8.toNat_inj.mp (by simpa using hz))
    omega
  have : 1 * 256 ^ r.length ≤ b.toNat * 256 ^ r.length := Nat.mul_le_mul_right _ hb1
  omega

/-- unsigned minimality: every string with value `v` is at least as long as `SizeToBytes v`. -/
theorem size_shortest (v : Nat) (h : v < 2 ^ 64) (bs : Bytes) (hne : bs ≠ []) (hv : beNat bs = v) :
    (sizeToBytes v).length ≤ bs.length := by
  by_cases h0 : v = 0
  · subst h0
    have : sizeToBytes 0 = [0] := rfl
    rw [this]
    cases bs with
    | nil => exact absurd rfl hne
    | cons _ _ => simp
  · obtain ⟨hh, hn⟩ := (size_minimal v h).2 h0
    have hval := beNat_sizeToBytes v h
    cases hs : sizeToBytes v with
    | nil => exact absurd hs hn
    | cons b r =>
      rw [hs] at hh hval
      have hb : b ≠ 0 := by intro hc; apply hh; rw [hc]; rfl
      have h1 := beNat_ge_of_head (r := r) hb
      have h2 := beNat_lt bs
      rw [hv] at h2; rw [hval] at h1
      have : 256 ^ r.length < 256 ^ bs.length := by omega
      have := (Nat.pow_lt_pow_iff_right (a := 256) (by decide)).mp this
      simp; omega

/-- `encodeHexNumber_shape` plus: when the first byte is non-zero the first printed digit is non-zero. -/
theorem encodeHexNumber_shape_min (neg : Bool) (b : UInt8) (r : Bytes) (hb : b ≠ 0) :
    ∃ n ns, n ≠ 0 ∧ (∀ m ∈ n :: ns, m < 16) ∧ hexVal (n :: ns) 0 = beNat (b :: r) ∧
      (encodeHexNumber neg (b :: r)).toList = hexPrefix neg ++ (n :: ns).map Hex.digit := by
  unfold encodeHexNumber
  simp only [encode_toList]
  have hn : nibbles (b :: r) = (b.toNat / 16) :: (b.toNat % 16) :: nibbles r := by simp [nibbles]
  have hlt := nibbles_lt (b :: r)
  have hval := hexVal_nibbles (b :: r) 0
  rw [hn] at hlt hval
  rw [hn]
  simp only [List.map_cons]
  have hbl := b.toNat_lt
  have hb0 : b.toNat ≠ 0 := fun hz => hb (UInt8.toNat_inj.mp (by simpa using hz))
  have hd := digit_facts' (n := b.toNat / 16) (by omega)
  by_cases hz : b.toNat / 16 = 0
  · have hc : Hex.digit (b.toNat / 16) = '0' := hd.2.2.2.2.2.mpr hz
    simp only [hc, if_true]
    refine ⟨b.toNat % 16, nibbles r, by omega, ?_, ?_, ?_⟩
    · intro n hn'; exact hlt n (List.mem_cons_of_mem _ hn')
    · rw [hexVal_cons] at hval; rw [hz] at hval; simpa using hval
    · rw [String.toList_ofList]; cases neg <;> simp [hexPrefix]
  · have hc : Hex.digit (b.toNat / 16) ≠ '0' := fun h => hz (hd.2.2.2.2.2.mp h)
    simp only [hc, if_false]
    refine ⟨b.toNat / 16, (b.toNat % 16) :: nibbles r, hz, hlt, by simpa using hval, ?_⟩
    rw [String.toList_ofList]; cases neg <;> simp [hexPrefix]

theorem natBytes_head_ne_zero (v : Nat) (h : v ≠ 0) : ∃ b r, natBytes v = b :: r ∧ b ≠ 0 := by
  obtain ⟨hv, L, hL, h1, _⟩ := natBytes_spec v h
  cases hs : natBytes v with
  | nil => rw [hs] at hL; simp at hL
  | cons b r =>
    refine ⟨b, r, rfl, ?_⟩
    intro hb; subst hb
    rw [hs] at hv hL
    have hr : r.length = L := by simpa using hL
    rw [beNat_cons] at hv
    have := beNat_lt r
    rw [hr] at this
    simp at hv; omega

/-- `FormatBigInt` prints no superfluous leading zero: "0x0" for zero, else first digit ≠ 0. -/
theorem formatBigInt_minimal (i : Int) :
    (i = 0 ∧ formatBigInt i = "0x0") ∨
    (i ≠ 0 ∧ ∃ n ns, n ≠ 0 ∧ (∀ m ∈ n :: ns, m < 16) ∧ hexVal (n :: ns) 0 = i.natAbs ∧
      (formatBigInt i).toList = hexPrefix (decide (i < 0)) ++ (n :: ns).map Hex.digit) := by
  by_cases h0 : i = 0
  · left; subst h0; exact ⟨rfl, by decide⟩
  · right
    refine ⟨h0, ?_⟩
    obtain ⟨b, r, hbr, hb⟩ := natBytes_head_ne_zero i.natAbs (by omega)
    unfold formatBigInt
    rw [hbr]
    obtain ⟨n, ns, a1, a2, a3, a4⟩ := encodeHexNumber_shape_min (decide (i < 0)) b r hb
    refine ⟨n, ns, a1, a2, ?_, a4⟩
    rw [a3, ← hbr, beNat_natBytes]

end Goloop.C24.Proofs
