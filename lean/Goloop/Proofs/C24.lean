import Goloop.Model.C24
namespace Goloop.C24.Proofs
open Goloop Goloop.C24

theorem byteOfNat_toNat (v : Nat) : (byteOfNat v).toNat = v % 256 := by
  simp [byteOfNat]

theorem sizeLoop_spec : ∀ (f v : Nat) (acc : Bytes), v ≠ 0 → v < 256 ^ f →
    ∃ pre, sizeLoop f v acc = pre ++ acc ∧ pre.length ≤ f ∧ pre ≠ [] ∧ beNat pre = v ∧ pre.head? ≠ some 0
  | 0, v, acc, h0, hlt => by simp at hlt; omega
  | f + 1, v, acc, h0, hlt => by
    unfold sizeLoop
    by_cases hz : v / 256 = 0
    · simp only [hz, if_true]
      refine ⟨[byteOfNat v], rfl, by simp, by simp, ?_, ?_⟩
      · simp [beNat, byteOfNat_toNat]; omega
      · simp only [List.head?_cons]
        intro hc
        have : (byteOfNat v).toNat = 0 := by
          have := Option.some.inj hc; rw [this]; rfl
        rw [byteOfNat_toNat] at this; omega
    · simp only [hz, if_false]
      have hlt' : v / 256 < 256 ^ f := by
        rw [Nat.pow_succ] at hlt; omega
      obtain ⟨pre, he, hl, hne, hv, hh⟩ := sizeLoop_spec f (v / 256) (byteOfNat v :: acc) hz hlt'
      refine ⟨pre ++ [byteOfNat v], by simp [he], by simp; omega, by simp, ?_, ?_⟩
      · rw [beNat_append_singleton, hv, byteOfNat_toNat]; omega
      · cases pre with
        | nil => exact absurd rfl hne
        | cons a as => simpa using hh

theorem size_roundtrip (v : Nat) (h : v < 2 ^ 64) :
    safeBytesToSize64 (sizeToBytes v) = some v := by
  unfold sizeToBytes
  by_cases h0 : v = 0
  · subst h0; simp [safeBytesToSize64, beNat]
  · simp only [h0, if_false]
    have hlt : v < 256 ^ 8 := by
      have : (256 : Nat) ^ 8 = 2 ^ 64 := by decide
      omega
    obtain ⟨pre, he, hl, _, hv, _⟩ := sizeLoop_spec 8 v [] h0 hlt
    simp only [List.append_nil] at he
    rw [he]; unfold safeBytesToSize64
    have : ¬ pre.length > 8 := by omega
    simp [this, hv]

theorem size_minimal (v : Nat) (h : v < 2 ^ 64) :
    (v = 0 → sizeToBytes v = [0]) ∧ (v ≠ 0 → (sizeToBytes v).head? ≠ some 0 ∧ (sizeToBytes v) ≠ []) := by
  constructor
  · intro h0; subst h0; rfl
  · intro h0
    unfold sizeToBytes
    simp only [h0, if_false]
    have hlt : v < 256 ^ 8 := by
      have : (256 : Nat) ^ 8 = 2 ^ 64 := by decide
      omega
    obtain ⟨pre, he, _, hne, _, hh⟩ := sizeLoop_spec 8 v [] h0 hlt
    simp only [List.append_nil] at he
    rw [he]; exact ⟨hh, hne⟩

end Goloop.C24.Proofs
